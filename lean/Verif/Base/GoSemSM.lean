/-
  Base/GoSemSM: Go semantics for container/strmap and internal/strstore — the target of the translator
  `extract/strmap.go` (output `Verif/Gen/StrMapGen.lean`). Core-only; extends Base/GoSem (panic monad `GM`,
  `wrap`, `LoopR`, `goMod`).

  Trusted readings (each one is a primitive below):
  * a slice-typed STRUCT FIELD (`data []byte`, `items []mapItem[V]`, `hashtable []int32`, `buf []byte`) is `Sl α`:
    `arr` = `s[0:len]`, `spare` = `s[len:cap]` (whatever the memory behind the length holds). `s[a:b]` is legal up to
    the CAPACITY (panic "slice" beyond), `s[i]` up to the length (panic "index"). `append` uses the spare cells
    first; when they run out the new capacity is unspecified by Go and modelled as exactly the new length.
  * a slice-typed parameter or local (`kk []string`, `vv []V`, `idxes []int`) is a `List` (its capacity is never asked
    for: the translator refuses `cap` and re-slicing on those).
  * `string` is `Bytes`; `string(b)`, `unsafex.BinaryToString(b)` and the `*(*string)(unsafe.Pointer(&b))` view are the
    contents `b[0:len]`.
  * `maphash.String(seed, s)` (a uint64) is `hashStr h s` for an abstract `h : Bytes → Nat` — the seed field never
    changes after `New`, so one `h` stands for "this map's seeded hash".
  * `sort.Sort(itemsBySlot[V](x))` (the translator checks that `Less` compares `.slot` with `<`) is `sortSl sorter x`
    for an abstract `sorter`; theorems assume what they need about it (`IsSlotSort` in Model/StrMap).
  * `uint64(float64(n) / c)` for a constant `c = num/den` is `f64DivToU64 n num den` = ⌊n·den/num⌋ — exact whenever
    n·den/num < 2^52 (see `SMap.scaled`); `n` is a length, never negative.
  * `*(*uint32)(unsafe.Pointer(&b[i]))`: `&b[i]` is an index expression (panic "index" outside the length); the
    native-endian (little-endian on the supported platforms) 4-byte load / store reads / writes `b[i:i+4]` and has the
    outcome `oob` when that range leaves the slice's length.
  * Go `error` values are `SErr` (`nil` or `errors.New(text)`).
-/
import Verif.Base.GoSem
namespace Verif.GoSemSM
open Verif
open Verif.GoSem (GM wrap IT)

/-- Go `error` values of strmap / strstore -/
inductive SErr where
  | nil
  | new (text : String)   -- errors.New(text)
deriving Repr, DecidableEq

/-- a slice with capacity: `arr = s[0:len]`, `spare = s[len:cap]` -/
structure Sl (α : Type) where
  arr : List α := []
  spare : List α := []
deriving Repr, DecidableEq

variable {α : Type}

/-- the nil slice -/
def Sl.nil : Sl α := {}

/-- the memory from the slice's start up to its capacity -/
def Sl.mem (s : Sl α) : List α := s.arr ++ s.spare

def slen (s : Sl α) : Int := (s.arr.length : Int)
def scap (s : Sl α) : Int := ((s.arr.length + s.spare.length : Nat) : Int)

/-- `len(l)` of a list-valued slice or of a string -/
def llen (l : List α) : Int := (l.length : Int)

/-- `s[i]` -/
def sget (s : Sl α) (i : Int) : GM α :=
  if i < 0 then .panic "index"
  else match s.arr[i.toNat]? with
    | some x => .ok x
    | none => .panic "index"

/-- `s[i] = v` -/
def sset (s : Sl α) (i : Int) (v : α) : GM (Sl α) :=
  if i < 0 ∨ i ≥ slen s then .panic "index" else .ok { s with arr := s.arr.set i.toNat v }

/-- `l[i]` for a list-valued slice -/
def lget (l : List α) (i : Int) : GM α :=
  if i < 0 then .panic "index"
  else match l[i.toNat]? with
    | some x => .ok x
    | none => .panic "index"

/-- `l[i] = v` for a list-valued slice -/
def lset (l : List α) (i : Int) (v : α) : GM (List α) :=
  if i < 0 ∨ i ≥ llen l then .panic "index" else .ok (l.set i.toNat v)

/-- `s[lo:hi]`: bounds against the CAPACITY -/
def sslice (s : Sl α) (lo hi : Int) : GM (Sl α) :=
  if hi < 0 ∨ hi > scap s then .panic "slice"
  else if lo < 0 ∨ lo > hi then .panic "slice"
  else .ok { arr := (s.mem.take hi.toNat).drop lo.toNat, spare := s.mem.drop hi.toNat }

/-- `append(s, x)` -/
def sappend (s : Sl α) (x : α) : Sl α := { arr := s.arr ++ [x], spare := s.spare.drop 1 }

/-- `append(s, xs...)` -/
def sappendAll (s : Sl α) (xs : List α) : Sl α := { arr := s.arr ++ xs, spare := s.spare.drop xs.length }

/-- `make([]T, len, cap)` with `z` the zero value of T -/
def smake (z : α) (len cap : Int) : GM (Sl α) :=
  if len < 0 then .panic "makeslice: len out of range"
  else if cap < len then .panic "makeslice: cap out of range"
  else .ok { arr := List.replicate len.toNat z, spare := List.replicate (cap.toNat - len.toNat) z }

/-- `make([]T, len[, cap])` for a list-valued slice -/
def lmake (z : α) (len cap : Int) : GM (List α) :=
  if len < 0 then .panic "makeslice: len out of range"
  else if cap < len then .panic "makeslice: cap out of range"
  else .ok (List.replicate len.toNat z)

/-- `string(b)` / `unsafex.BinaryToString(b)` -/
def strOf (b : Sl UInt8) : Bytes := b.arr

/-- `maphash.String(seed, s)` -/
def hashStr (h : Bytes → Nat) (s : Bytes) : Int := ((h s % 18446744073709551616 : Nat) : Int)

/-- `sort.Sort(itemsBySlot(x))` -/
def sortSl (sorter : List α → List α) (s : Sl α) : Sl α := { s with arr := sorter s.arr }

/-- `bits.Len64(x)` -/
def bitsLen64 (x : Int) : Int := if x.toNat = 0 then 0 else ((Nat.log2 x.toNat + 1 : Nat) : Int)

/-- `uint64(float64(n) / c)`, `c = num/den` -/
def f64DivToU64 (n : Int) (num den : Nat) : Int := ((n.toNat * den / num : Nat) : Int)

/-- `tbl[i]` for a package-level table of integer constants -/
def tblGet (tbl : List Int) (i : Int) : GM Int :=
  if i < 0 then .panic "index"
  else match tbl[i.toNat]? with
    | some x => .ok x
    | none => .panic "index"

/-- little-endian 4 bytes of `n mod 2^32` -/
def le32 (n : Int) : Bytes :=
  let k := (GoSem.toU 32 n).toNat
  [UInt8.ofNat k, UInt8.ofNat (k / 256), UInt8.ofNat (k / 65536), UInt8.ofNat (k / 16777216)]

/-- `*(*uint32)(unsafe.Pointer(&b[i]))` as a value -/
def uload32 (b : Sl UInt8) (i : Int) : GM Int :=
  if i < 0 ∨ i ≥ slen b then .panic "index"
  else if i + 4 > slen b then .oob
  else match b.arr.drop i.toNat with
    | a :: c :: d :: e :: _ => .ok ((a.toNat + c.toNat * 256 + d.toNat * 65536 + e.toNat * 16777216 : Nat) : Int)
    | _ => .oob

/-- `*(*uint32)(unsafe.Pointer(&b[i])) = x` -/
def ustore32 (b : Sl UInt8) (i : Int) (x : Int) : GM (Sl UInt8) :=
  if i < 0 ∨ i ≥ slen b then .panic "index"
  else if i + 4 > slen b then .oob
  else .ok { b with arr := b.arr.take i.toNat ++ le32 x ++ b.arr.drop (i.toNat + 4) }

/-- `copy(b[lo:hi], src)` written back into `b` (the destination range is a sub-slice of `b`): count = min -/
def scopyInto (b : Sl UInt8) (lo hi : Int) (src : Bytes) : GM (Sl UInt8) :=
  if hi < 0 ∨ hi > scap b then .panic "slice"
  else if lo < 0 ∨ lo > hi then .panic "slice"
  else
    let n := min (hi.toNat - lo.toNat) src.length
    let mem := b.mem.take lo.toNat ++ src.take n ++ b.mem.drop (lo.toNat + n)
    .ok { arr := mem.take b.arr.length, spare := mem.drop b.arr.length }

/-- a method call or field access through a pointer that may be nil -/
def derefP : Option α → GM α
  | some a => .ok a
  | none => .panic "nil"

end Verif.GoSemSM

/-
  Base/Bytes: byte strings, big-endian integers, hex printing/parsing.
  Core-only (no Mathlib) so that the drivers link as lean_exe.
-/
namespace Verif

abbrev Bytes := List UInt8

/-! ## big-endian encoders (values are Nat, range stated where needed) -/

def be16 (n : Nat) : Bytes := [UInt8.ofNat (n / 256), UInt8.ofNat n]
def be32 (n : Nat) : Bytes :=
  [UInt8.ofNat (n / 16777216), UInt8.ofNat (n / 65536), UInt8.ofNat (n / 256), UInt8.ofNat n]
def be64 (n : Nat) : Bytes :=
  be32 (n / 4294967296) ++ be32 n

/-! ## big-endian decoders on the first bytes of a list (total: missing bytes read as 0;
    every model call site is guarded by an explicit length check, mirrored from the code) -/

def rd8 (b : Bytes) : Nat := (b.headD 0).toNat
def rd16 (b : Bytes) : Nat :=
  match b with
  | a :: c :: _ => a.toNat * 256 + c.toNat
  | _ => 0
def rd32 (b : Bytes) : Nat :=
  match b with
  | a :: c :: d :: e :: _ => a.toNat * 16777216 + c.toNat * 65536 + d.toNat * 256 + e.toNat
  | _ => 0
def rd64 (b : Bytes) : Nat := rd32 b * 4294967296 + rd32 (b.drop 4)

/-! ## signed views -/
def toI8 (n : Nat) : Int := if n < 128 then n else (n : Int) - 256
def toI16 (n : Nat) : Int := if n < 32768 then n else (n : Int) - 65536
def toI32 (n : Nat) : Int := if n < 2147483648 then n else (n : Int) - 4294967296
def toI64 (n : Nat) : Int := if n < 9223372036854775808 then n else (n : Int) - 18446744073709551616
/-- two's complement of an Int in `bits` bits -/
def ofInt (bits : Nat) (i : Int) : Nat := (i % (2 ^ bits : Nat)).toNat

/-! ## lemmas -/

@[simp] theorem be16_length (n : Nat) : (be16 n).length = 2 := rfl
@[simp] theorem be32_length (n : Nat) : (be32 n).length = 4 := rfl
@[simp] theorem be64_length (n : Nat) : (be64 n).length = 8 := rfl

theorem rd16_be16 (n : Nat) (h : n < 65536) (r : Bytes) : rd16 (be16 n ++ r) = n := by
  simp [be16, rd16, UInt8.toNat_ofNat']; omega

theorem rd32_be32 (n : Nat) (h : n < 4294967296) (r : Bytes) : rd32 (be32 n ++ r) = n := by
  simp [be32, rd32, UInt8.toNat_ofNat']; omega

theorem rd64_be64 (n : Nat) (h : n < 18446744073709551616) (r : Bytes) :
    rd64 (be64 n ++ r) = n := by
  have h1 : rd32 (be64 n ++ r) = n / 4294967296 := by
    unfold be64; rw [List.append_assoc]; apply rd32_be32; omega
  have h2 : (be64 n ++ r).drop 4 = be32 n ++ r := by
    simp [be64, be32]
  unfold rd64; rw [h1, h2]
  have h3 : rd32 (be32 n ++ r) = n % 4294967296 := by
    simp [be32, rd32, UInt8.toNat_ofNat']; omega
  rw [h3]; omega

theorem rd16_lt (b : Bytes) : rd16 b < 65536 := by
  unfold rd16; split
  · rename_i a c _; have := a.toNat_lt; have := c.toNat_lt; omega
  · omega

theorem rd32_lt (b : Bytes) : rd32 b < 4294967296 := by
  unfold rd32; split
  · rename_i a c d e _
    have := a.toNat_lt; have := c.toNat_lt; have := d.toNat_lt; have := e.toNat_lt; omega
  · omega

/-! ## hex -/

def hexDigit (n : Nat) : Char :=
  if n < 10 then Char.ofNat (48 + n) else Char.ofNat (87 + n)

def toHex (b : Bytes) : String :=
  if b.isEmpty then "-" else
  String.ofList (b.foldr (fun x acc => hexDigit (x.toNat / 16) :: hexDigit (x.toNat % 16) :: acc) [])

def hexVal (c : Char) : Option Nat :=
  if '0' ≤ c ∧ c ≤ '9' then some (c.toNat - 48)
  else if 'a' ≤ c ∧ c ≤ 'f' then some (c.toNat - 87)
  else none

def parseHexAux : List Char → Option Bytes
  | [] => some []
  | [_] => none
  | a :: c :: rest => do
    let x ← hexVal a
    let y ← hexVal c
    let r ← parseHexAux rest
    pure (UInt8.ofNat (x * 16 + y) :: r)

def parseHex (s : String) : Option Bytes :=
  if s == "-" then some [] else parseHexAux s.toList

end Verif

/-
  Base/GoSem: the small Go semantics library that the function translator (`extract/funcs.go`,
  Tie A third part, output `Verif/Gen/Funcs.lean`) targets.  Core-only.

  * a translated Go function is a Lean function into `GM α = Out Empty α`: the only non-normal outcome is
    a Go run-time panic (`panic "index"`, `panic "slice"`, `panic "divzero"`); Go `error` results are
    ordinary values (`GoErr`);
  * every Go integer (int8…int64, uint8…uint64, int, uint, uintptr — the last three 64 bits wide) is a Lean
    `Int` that lies in the range of its Go type; every arithmetic operation and every conversion the
    translator emits goes through `wrap`, which is two's-complement wrap-around to the static Go type
    (read from go/types, never guessed);
  * `[]byte` and `string` are `Bytes`; a slice has `cap = len` (slicing beyond `len` panics in the
    translation, in Go it panics beyond `cap`: the translation is the stricter reading);
  * a `[]byte` parameter that the function writes through is a *view* `(whole, off)`: the Go slice is
    `whole[off:]`, writes go into `whole`, and the function returns the new `whole` as an extra result.
-/
import Verif.Base.Bytes
import Verif.Base.Out
namespace Verif.GoSem

abbrev GM (α : Type) := Out Empty α

/-- Go integer types (`int`/`uint`/`uintptr` are `i64`/`u64`: 64-bit platforms only) -/
inductive IT where
  | i8 | i16 | i32 | i64 | u8 | u16 | u32 | u64
deriving Repr, DecidableEq

def IT.bits : IT → Nat
  | .i8 | .u8 => 8
  | .i16 | .u16 => 16
  | .i32 | .u32 => 32
  | .i64 | .u64 => 64

def IT.signed : IT → Bool
  | .i8 | .i16 | .i32 | .i64 => true
  | _ => false

/-- the unsigned `bits`-bit pattern of an integer -/
def toU (bits : Nat) (x : Int) : Int := x % (2 ^ bits : Nat)

/-- two's-complement wrap-around of a mathematical integer to the Go type `t` -/
def wrap (t : IT) (x : Int) : Int :=
  let m := toU t.bits x
  if t.signed && m ≥ (2 ^ (t.bits - 1) : Nat) then m - (2 ^ t.bits : Nat) else m

/-- `x` is a value of the Go type `t` -/
def InRange (t : IT) (x : Int) : Prop :=
  if t.signed then -(2 ^ (t.bits - 1) : Nat) ≤ x ∧ x < (2 ^ (t.bits - 1) : Nat)
  else 0 ≤ x ∧ x < (2 ^ t.bits : Nat)

/-- bitwise operations on the two's-complement patterns of width `t.bits` -/
def band (t : IT) (a b : Int) : Int := wrap t (Int.ofNat ((toU t.bits a).toNat &&& (toU t.bits b).toNat))
def bor (t : IT) (a b : Int) : Int := wrap t (Int.ofNat ((toU t.bits a).toNat ||| (toU t.bits b).toNat))
def bxor (t : IT) (a b : Int) : Int := wrap t (Int.ofNat ((toU t.bits a).toNat ^^^ (toU t.bits b).toNat))
/-- `a << n` (constant `n`) in type `t` -/
def shl (t : IT) (a : Int) (n : Nat) : Int := wrap t (a * (2 ^ n : Nat))
/-- `a >> n` (constant `n`): arithmetic for signed, logical for unsigned — both are floor division of the value -/
def shr (a : Int) (n : Nat) : Int := a / (2 ^ n : Nat)

/-- Go `error` values as far as the translated functions produce them -/
inductive GoErr where
  | nil
  | pe (typeId : Int) (msg : String)   -- a package-level `NewProtocolException(id, msg)` value
  | named (name : String)              -- another package-level or imported error value (io.EOF, …)
deriving Repr, DecidableEq

/-- outcome of a translated `for` loop: the enclosing function returns (`ret`), or the loop is left normally with the
    values of the variables it assigns (`done`) -/
inductive LoopR (ρ σ : Type) where
  | ret (r : ρ)
  | done (s : σ)

/-- a Go map as an association list, newest entry first (`List.lookup` finds what the Go map holds); `none` = nil map -/
abbrev GoMap (κ ν : Type) := Option (List (κ × ν))

/-- `m[k] = v` (a store into a nil map panics) -/
def mapSet {κ ν : Type} (m : GoMap κ ν) (k : κ) (v : ν) : GM (GoMap κ ν) :=
  match m with
  | none => .panic "nilmap"
  | some l => .ok (some ((k, v) :: l))

/-- `thrift.PrependError(prefix, err)`: the exception kind and type id are kept (property C18), the text — which is not
    modelled — changes; any other error stays what it is -/
def prependErr : GoErr → GoErr
  | .pe id _ => .pe id ""
  | e => e

/-- `NewProtocolExceptionWithErr(err)`: a protocol exception is returned as it is, any other error is wrapped
    (the wrapped error stays reachable: `named "wrap:<name>"`) -/
def wrapErr : GoErr → GoErr
  | .pe id m => .pe id m
  | .named s => .named ("wrap:" ++ s)
  | .nil => .named "wrap:nil"

/-- the behaviour of a `bufiox.Reader` interface value: an abstract state `ρ` and its methods. A translated
    function that calls the interface takes such a record as a parameter; the equivalence theorems instantiate it with
    the reader model. `readBinary r k` is `ReadBinary(bs)` with `len(bs) = k`: the bytes copied to the front of `bs`,
    the reported count and the error. -/
structure ReaderI (ρ : Type) where
  next : ρ → Int → GM ((Bytes × GoErr) × ρ)
  peek : ρ → Int → GM ((Bytes × GoErr) × ρ)
  skip : ρ → Int → GM (GoErr × ρ)
  readBinary : ρ → Int → GM ((Bytes × Int × GoErr) × ρ)
  readLen : ρ → Int

/-- the behaviour of a `SkipDecoderIface` value (the back end of the generic skip decoder): `SkipN(n)` -/
structure SkipNI (ρ : Type) where
  skipN : ρ → Int → GM ((Bytes × GoErr) × ρ)

/-- the behaviour of a `bufiox.Writer` interface value. `malloc w n` hands out a region: its (arbitrary) initial contents,
    a handle and the error; the bytes the function stores in the region are given back with `commit w handle contents`
    before the function returns (the region aliases the writer's memory: whatever is in it when the function returns is
    what the writer holds). `writeBinary w v` returns the reported count and the error. -/
structure WriterI (ω : Type) where
  malloc : ω → Int → GM ((Bytes × Nat × GoErr) × ω)
  commit : ω → Nat → Bytes → ω
  writeBinary : ω → Bytes → GM ((Int × GoErr) × ω)
  writtenLen : ω → Int

/-- `dirtmake.Bytes(n, n)`: a fresh slice of length n with arbitrary contents (zeros here); a negative length panics -/
def dirtyBytes (n : Int) : GM Bytes :=
  if n < 0 then .panic "makeslice" else .ok (List.replicate n.toNat 0)

/-- `make([]byte, n)`: n zero bytes; a negative length panics -/
def makeBytes (n : Int) : GM Bytes :=
  if n < 0 then .panic "makeslice" else .ok (List.replicate n.toNat 0)

/-! ## slices (cap = len) -/

def len (b : Bytes) : Int := (b.length : Int)

/-- `b[i]` as an integer 0…255 -/
def idx (b : Bytes) (i : Int) : GM Int :=
  if i < 0 then .panic "index"
  else match b[i.toNat]? with
    | some x => .ok (x.toNat : Int)
    | none => .panic "index"

/-- an unsafe load of the byte at offset `i` of the slice's memory: outside the slice it is an out-of-bounds read
    (no Go panic; the outcome `oob`) -/
def uload (b : Bytes) (i : Int) : GM Int :=
  if i < 0 then .oob
  else match b[i.toNat]? with
    | some x => .ok (x.toNat : Int)
    | none => .oob

/-- `tbl[i]` for a package-level array of integer constants -/
def tblIdx (tbl : List Int) (i : Int) : GM Int :=
  if i < 0 then .panic "index"
  else match tbl[i.toNat]? with
    | some x => .ok x
    | none => .panic "index"

/-- `b[lo:]` -/
def sliceFrom (b : Bytes) (lo : Int) : GM Bytes :=
  if lo < 0 ∨ lo > len b then .panic "slice" else .ok (b.drop lo.toNat)

/-- `b[:hi]` -/
def sliceTo (b : Bytes) (hi : Int) : GM Bytes :=
  if hi < 0 ∨ hi > len b then .panic "slice" else .ok (b.take hi.toNat)

/-- `b[lo:hi]` -/
def slice (b : Bytes) (lo hi : Int) : GM Bytes :=
  if hi < 0 ∨ hi > len b then .panic "slice"
  else if lo < 0 ∨ lo > hi then .panic "slice"
  else .ok ((b.take hi.toNat).drop lo.toNat)

/-- `binary.BigEndian.Uint16(b)` (`_ = b[1]` first) -/
def beU16 (b : Bytes) : GM Int := if b.length < 2 then .panic "index" else .ok (rd16 b : Int)
def beU32 (b : Bytes) : GM Int := if b.length < 4 then .panic "index" else .ok (rd32 b : Int)
def beU64 (b : Bytes) : GM Int := if b.length < 8 then .panic "index" else .ok (rd64 b : Int)

/-- the byte with value `x mod 256` -/
def byteOf (x : Int) : UInt8 := UInt8.ofNat (toU 8 x).toNat

/-- `append(b, x1, …, xn)` with the bytes given as integers -/
def appendInts (b : Bytes) (xs : List Int) : Bytes := b ++ xs.map byteOf

/-! ## views: a Go slice `whole[off:]` that the function writes through -/

/-- bytes `bs` stored at `whole[at : at+len bs]` (callers guarantee the range) -/
def putAt (whole : Bytes) (at_ : Nat) (bs : Bytes) : Bytes :=
  whole.take at_ ++ bs ++ whole.drop (at_ + bs.length)

/-- `len(whole[off:])` -/
def vlen (whole : Bytes) (off : Int) : Int := len whole - off

/-- taking the sub-view `v[lo:]` of the view `(whole, off)`: the new offset -/
def vfrom (whole : Bytes) (off lo : Int) : GM Int :=
  if lo < 0 ∨ lo > vlen whole off then .panic "slice" else .ok (off + lo)

/-- `v[i] = x` -/
def vset (whole : Bytes) (off i x : Int) : GM Bytes :=
  if i < 0 ∨ i ≥ vlen whole off then .panic "index"
  else .ok (putAt whole (off + i).toNat [byteOf x])

/-- `v[i]` -/
def vidx (whole : Bytes) (off i : Int) : GM Int :=
  if i < 0 ∨ i ≥ vlen whole off then .panic "index" else idx whole (off + i)

/-- `binary.BigEndian.PutUintNN(v, x)` -/
def vputU16 (whole : Bytes) (off x : Int) : GM Bytes :=
  if vlen whole off < 2 then .panic "index" else .ok (putAt whole off.toNat (be16 (toU 16 x).toNat))
def vputU32 (whole : Bytes) (off x : Int) : GM Bytes :=
  if vlen whole off < 4 then .panic "index" else .ok (putAt whole off.toNat (be32 (toU 32 x).toNat))
def vputU64 (whole : Bytes) (off x : Int) : GM Bytes :=
  if vlen whole off < 8 then .panic "index" else .ok (putAt whole off.toNat (be64 (toU 64 x).toNat))

/-- `copy(v, src)`: the buffer afterwards and the number of bytes copied -/
def vcopy (whole : Bytes) (off : Int) (src : Bytes) : Bytes × Int :=
  let n := min (vlen whole off).toNat src.length
  (putAt whole off.toNat (src.take n), (n : Int))

/-! ## basic facts used by the equivalence lemmas -/

theorem toU_of_range {bits : Nat} {x : Int} (h0 : 0 ≤ x) (h1 : x < (2 ^ bits : Nat)) : toU bits x = x := by
  unfold toU; exact Int.emod_eq_of_lt h0 h1

theorem toU_nonneg (bits : Nat) (x : Int) : 0 ≤ toU bits x := by
  unfold toU; exact Int.emod_nonneg _ (by have := Nat.two_pow_pos bits; omega)

theorem toU_lt (bits : Nat) (x : Int) : toU bits x < (2 ^ bits : Nat) := by
  unfold toU; exact Int.emod_lt_of_pos _ (by have := Nat.two_pow_pos bits; omega)

/-! ## additions for the write side (generated struct writers, TTHeader encoder): nil pointers, nil-able interface
    values, `range` over a map, `len(map)`, `m[k]` reads, integer division, bounded sub-slices of a local slice -/

/-- `p.F` / `w.M(…)` through a pointer or interface value that may be nil -/
def derefP {α : Type} : Option α → GM α
  | some a => .ok a
  | none => .panic "nilderef"

/-- the behaviour of a `thrift.NocopyWriter` interface value: `WriteDirect(b, remainCap)`. A translated function that takes
    such a parameter takes it as `Option ν` (`none` = the nil interface) together with this record. -/
structure NocopyI (ν : Type) where
  writeDirect : ν → Bytes → Int → GM (GoErr × ν)

/-- the instance passed along with a literal `nil` writer (never called: the value is `none`) -/
def nilNocopy : NocopyI Unit := ⟨fun s _ _ => .ok (GoErr.nil, s)⟩

/-- the entries a Go map holds, given its association list (newest first): the first occurrence of every key -/
def mapEntriesL {κ ν : Type} [BEq κ] : List (κ × ν) → List (κ × ν)
  | [] => []
  | e :: r => e :: (mapEntriesL r).filter (fun x => !(x.1 == e.1))

def mapEntries {κ ν : Type} [BEq κ] (m : GoMap κ ν) : List (κ × ν) :=
  match m with
  | none => []
  | some l => mapEntriesL l

/-- `len(m)` (0 for a nil map) -/
def mapLen {κ ν : Type} [BEq κ] (m : GoMap κ ν) : Int := ((mapEntries m).length : Int)

/-- `v, ok := m[k]` (`none`: no such key; a nil map has no keys) -/
def mapGet {κ ν : Type} [BEq κ] (m : GoMap κ ν) (k : κ) : Option ν :=
  match m with
  | none => none
  | some l => l.lookup k

/-- `for k, v := range m` visits every entry of `m` exactly once, in an order Go does not specify. A translated function
    takes the sequence of visited entries as an explicit parameter `ord`; this is what Go guarantees about it. -/
def MapOrder {κ ν : Type} [BEq κ] (m : GoMap κ ν) (ord : List (κ × ν)) : Prop := ord.Perm (mapEntries m)

/-- `a / b` and `a % b` in the integer type `t`: Go truncates toward zero, a zero divisor panics (a non-zero constant
    divisor is translated to `wrap t (Int.tdiv a c)` / `wrap t (Int.tmod a c)` directly) -/
def goDiv (t : IT) (a b : Int) : GM Int := if b = 0 then .panic "divzero" else .ok (wrap t (Int.tdiv a b))
def goMod (t : IT) (a b : Int) : GM Int := if b = 0 then .panic "divzero" else .ok (wrap t (Int.tmod a b))

/-- `s[lo:hi]` of a slice of length `n` the function writes through: the bounds check (cap = len) -/
def bchk (n lo hi : Int) : GM Unit :=
  if hi < 0 ∨ hi > n then .panic "slice"
  else if lo < 0 ∨ lo > hi then .panic "slice"
  else .ok ()

/-- `binary.BigEndian.PutUintNN(whole[off : off+n], x)`: the sub-slice has length `n` (checked like `_ = b[k-1]`) -/
def bputU16 (whole : Bytes) (off n x : Int) : GM Bytes :=
  if n < 2 then .panic "index" else .ok (putAt whole off.toNat (be16 (toU 16 x).toNat))
def bputU32 (whole : Bytes) (off n x : Int) : GM Bytes :=
  if n < 4 then .panic "index" else .ok (putAt whole off.toNat (be32 (toU 32 x).toNat))
def bputU64 (whole : Bytes) (off n x : Int) : GM Bytes :=
  if n < 8 then .panic "index" else .ok (putAt whole off.toNat (be64 (toU 64 x).toNat))

/-- the contents of `whole[off : off+n]` (what a slice that aliases a part of `whole` holds when it is read) -/
def bsub (whole : Bytes) (off n : Int) : Bytes := (whole.drop off.toNat).take n.toNat

end Verif.GoSem

/- Base/Parse: parsing of protocol tokens shared by the drivers (scripts, error strings). -/
import Verif.Base.Bytes
import Verif.Model.Reader
namespace Verif

def rerrStr : RErr → String
  | .eof => "eof"
  | .src k => s!"src{k}"
  | .noProgress => "noprogress"
  | .negCount => "negcount"

def errOfId (k : Nat) : RErr := if k = 0 then .eof else .src k

/-- one script item: "k", "k*r", "ke<id>" -/
def parseScriptItem (it : String) : Option (List Resp) :=
  match it.splitOn "e" with
  | [k, e] => do
    let k ← k.toNat?
    let e ← e.toNat?
    pure [⟨k, some (errOfId e)⟩]
  | _ =>
    match it.splitOn "*" with
    | [k, r] => do
      let k ← k.toNat?
      let r ← r.toNat?
      pure (List.replicate r ⟨k, none⟩)
    | [k] => do
      let k ← k.toNat?
      pure [⟨k, none⟩]
    | _ => none

def parseScript (t : String) : Option (List Resp) :=
  if t == "-" then some [] else
  (t.splitOn ",").foldr (fun it acc => do
    let a ← parseScriptItem it
    let r ← acc
    pure (a ++ r)) (some [])

end Verif

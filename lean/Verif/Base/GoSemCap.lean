/-
  Base/GoSemCap: Go semantics for code that lives on slice CAPACITY — the target of the translator
  `extract/bufiox.go` (output `Verif/Gen/Bufiox.lean`: bufiox/defaultbuf.go). Core-only; extends Base/GoSem
  (panic monad `GM`, `wrap`, `LoopR`), whose slices have cap = len and therefore do not fit this file.

  * a `[]byte` is `Sl`: `mem` = the backing memory FROM THE SLICE'S START UP TO ITS CAPACITY (`cap s = mem.length`),
    `len` ≤ cap, and whether the slice is non-nil. `s[a:b]` is legal up to the capacity (Go panics "slice" beyond
    cap; an index expression would panic "index" beyond len); the result shares the memory from `a` on.
  * slices are VALUES. A write through a sub-slice expression `base[a:b]` (the destination of `copy`, the argument of
    `io.Reader.Read`, a written-through parameter of a translated callee) is written back to `base` by the translator
    with `putBack` right after the call — the borrow reading of Go's aliasing: `r.rd.Read(r.buf[len:cap])` followed by
    `r.buf = r.buf[:len+m]` sees the bytes that were read. Aliasing between two different variables (the slice `Next`
    returns and `r.buf`; the entries of `pendingBuf`) is NOT tracked: memory identity is Model/Mem*.lean.
  * an `io.Reader` is an abstract state `σ` with `read : σ → room → (data, err, σ')` (`IoReader`); `ioRead` stores the
    data in the slice it was given and reports `len data` — a reader that claims more than `room` makes the caller's
    `buf[:len+m]` panic, exactly as in Go. An interface-typed field is `Option σ` (`none` = nil interface: a method call
    panics "nilderef").
  * `mcache.Malloc(n[, c])`: len n, cap = `1 << calcIndex(max n c)` (the next power of two; index ≥ 46 panics "index"
    as `caches[i]` does), contents ARBITRARY: taken from the oracle `O site cap` (`site` = the static number of the call
    site, so two allocations of one call are independent). `mcache.Free` does nothing to contents.
  * Go `error` values are the small type `Err`; integers are `Int`s wrapped to their static type by `wrap`.
-/
import Verif.Base.GoSem
namespace Verif.GoSemCap
open Verif
open Verif.GoSem (GM wrap IT toU)

/-- Go `error` values of bufiox -/
inductive Err where
  | nil
  | eof          -- io.EOF
  | noProgress   -- io.ErrNoProgress
  | negCount     -- bufiox.errNegativeCount
  | src (k : Nat) -- an error of the underlying io.Reader / io.Writer
deriving Repr, DecidableEq

/-- a `[]byte` with capacity -/
structure Sl where
  mem : Bytes := []
  len : Nat := 0
  nonnil : Bool := false
deriving Repr, DecidableEq

/-- the nil slice (Go's zero value) -/
def Sl.nil : Sl := {}

/-- `len(s)`, `cap(s)` -/
def slen (s : Sl) : Int := (s.len : Int)
def scap (s : Sl) : Int := (s.mem.length : Int)
/-- the content `s[0:len]` -/
def Sl.data (s : Sl) : Bytes := s.mem.take s.len
/-- `s == nil` -/
def Sl.isNil (s : Sl) : Bool := !s.nonnil

/-- a slice over exactly these bytes (cap = len) -/
def Sl.ofBytes (b : Bytes) : Sl := { mem := b, len := b.length, nonnil := true }

/-- `s[lo:hi]` — bounds are checked against the CAPACITY -/
def sslice (s : Sl) (lo hi : Int) : GM Sl :=
  if hi < 0 ∨ hi > scap s then .panic "slice"
  else if lo < 0 ∨ lo > hi then .panic "slice"
  else .ok { s with mem := s.mem.drop lo.toNat, len := hi.toNat - lo.toNat }

/-- `s[lo:]` = `s[lo:len(s)]` -/
def ssliceFrom (s : Sl) (lo : Int) : GM Sl := sslice s lo (slen s)
/-- `s[:hi]` -/
def ssliceTo (s : Sl) (hi : Int) : GM Sl := sslice s 0 hi

/-- `copy(dst, src)`: the destination afterwards and the count (source bytes are read first: memmove) -/
def copySl (dst src : Sl) : Sl × Int :=
  let n := min dst.len src.len
  ({ dst with mem := src.mem.take n ++ dst.mem.drop n }, (n : Int))

/-- write-back of the sub-slice `sub = base[lo:…]` (possibly written through) into `base` -/
def putBack (base : Sl) (lo : Int) (sub : Sl) : Sl :=
  { base with mem := base.mem.take lo.toNat ++ sub.mem ++ base.mem.drop (lo.toNat + sub.mem.length) }

/-- `[][]byte`: `none` = nil -/
abbrev SlL := Option (List Sl)
/-- `append(l, x)` -/
def appendSl (l : SlL) (x : Sl) : SlL := some (l.getD [] ++ [x])
/-- the elements `range l` visits -/
def rangeSl (l : SlL) : List Sl := l.getD []

/-! ## io.Reader / io.Writer as abstract states -/

structure IoReader (σ : Type) where
  /-- `Read(p)` with `len(p) = room`: the bytes it stores at the front of `p`, its error, the reader afterwards -/
  read : σ → Nat → Bytes × Err × σ

/-- `n, err := rd.Read(p)`: `p` afterwards, `n`, `err`, the reader afterwards -/
def ioRead {σ : Type} (R : IoReader σ) (s : σ) (p : Sl) : Sl × Int × Err × σ :=
  let r := R.read s p.len
  let d := r.1.take p.len
  ({ p with mem := d ++ p.mem.drop d.length }, (r.1.length : Int), r.2.1, r.2.2)

structure IoWriter (ω : Type) where
  /-- `Write(p)` with the content of `p`: the count, the error, the writer afterwards -/
  write : ω → Bytes → Int × Err × ω

def ioWrite {ω : Type} (W : IoWriter ω) (s : ω) (p : Sl) : Int × Err × ω := W.write s p.data

/-- a method call on an interface value: nil panics -/
def ifaceGet {σ : Type} (x : Option σ) : GM σ :=
  match x with
  | some s => .ok s
  | none => .panic "nilderef"

/-! ## mcache / dirtmake -/

/-- `1 << calcIndex(c)` of bytedance/gopkg/lang/mcache: 0 ↦ 1, a power of two ↦ itself, else 2^(bsr c + 1) -/
def mcacheCap (c : Nat) : Nat :=
  if c = 0 then 1 else if 2 ^ Nat.log2 c = c then c else 2 ^ (Nat.log2 c + 1)

/-- `cap` arbitrary bytes from the oracle -/
def dirty (o : Nat → Bytes) (cap : Nat) : Bytes := (o cap ++ List.replicate cap 0).take cap

/-- `mcache.Malloc(size)` / `mcache.Malloc(size, capacity)`: pools exist for 2^0 … 2^45 -/
def mcacheMalloc (o : Nat → Bytes) (size : Int) (capacity : Option Int) : GM Sl :=
  let c := match capacity with
    | some k => if k > size then k else size
    | none => size
  if c < 0 ∨ c > 35184372088832 then .panic "index"
  else if size < 0 then .oob      -- a slice header with a negative length: not memory-safe, no panic
  else .ok { mem := dirty o (mcacheCap c.toNat), len := size.toNat, nonnil := true }

/-- `mcache.Free(buf)`: nothing happens to contents (ownership: Model/Mem*) -/
def mcacheFree (_ : Sl) : Unit := ()

/-- `dirtmake.Bytes(len, cap)` -/
def dirtmakeBytes (o : Nat → Bytes) (len cap : Int) : GM Sl :=
  if len < 0 ∨ len > cap then .panic "dirtmake.Bytes: len out of range"
  else .ok { mem := dirty o cap.toNat, len := len.toNat, nonnil := true }

/-! ## arrays of integers, `%` -/

def arrGet (a : List Int) (i : Int) : GM Int :=
  if i < 0 then .panic "index"
  else match a[i.toNat]? with
    | some x => .ok x
    | none => .panic "index"

def arrSet (a : List Int) (i v : Int) : GM (List Int) :=
  if i < 0 ∨ i ≥ (a.length : Int) then .panic "index" else .ok (a.set i.toNat v)

/-- `a % b` (truncated, sign of the dividend); a zero divisor panics -/
def goMod (a b : Int) : GM Int := if b = 0 then .panic "divzero" else .ok (Int.tmod a b)

/-! ## basic facts -/

theorem wrap_i64_id (x : Int) (h0 : -9223372036854775808 ≤ x) (h1 : x < 9223372036854775808) :
    wrap .i64 x = x := by
  simp only [wrap, toU, IT.bits, IT.signed]
  simp
  split <;> omega

@[simp] theorem dirty_length (o : Nat → Bytes) (cap : Nat) : (dirty o cap).length = cap := by
  simp [dirty]

end Verif.GoSemCap

/-
  Base/DrvLoop: the line protocol loop shared by all drivers.
  Input line:   <op> <arg>... => <impl result>
  Output line:  <model result> ;; <verdict>
  verdict: ok | na | bad:<reason>       (spec evaluated on the impl result)
-/
import Verif.Base.Bytes
namespace Verif

/-- split "a b c => impl" into (["a","b","c"], "impl") -/
def splitLine (line : String) : List String × String :=
  let line := line.trimAscii.toString
  match line.splitOn " => " with
  | [l] => (l.splitOn " " |>.filter (· ≠ ""), "")
  | l :: rest => (l.splitOn " " |>.filter (· ≠ ""), " => ".intercalate rest)
  | [] => ([], "")

partial def drvLoopAux {σ : Type} (h : IO.FS.Stream) (out : IO.FS.Stream)
    (step : σ → List String → String → σ × String × String) (s : σ) : IO Unit := do
  let line ← h.getLine
  if line.isEmpty then return ()
  let (args, impl) := splitLine line
  let (s', model, verdict) := step s args impl
  out.putStrLn (model ++ " ;; " ++ verdict)
  drvLoopAux h out step s'

/-- stateless driver -/
def drvLoop (handle : List String → String → String × String) : IO Unit := do
  let i ← IO.getStdin
  let o ← IO.getStdout
  drvLoopAux i o (fun (_ : Unit) a impl => let (m, v) := handle a impl; ((), m, v)) ()

/-- stateful driver (operation histories) -/
def drvLoopS {σ : Type} (init : σ) (step : σ → List String → String → σ × String × String) : IO Unit := do
  let i ← IO.getStdin
  let o ← IO.getStdout
  drvLoopAux i o step init

def parseNat? (s : String) : Option Nat := s.toNat?
def parseInt? (s : String) : Option Int := s.toInt?

end Verif

/-
  Base/Mem: an object-level heap for the ownership / aliasing properties (C09, C16).

  * an object is a fixed-capacity byte array with an OWNER state:
      caller  memory that belongs to the user of the library (reader input, WriteBinary payload,
              bytes-writer target).  Positions `< wfrom` must never be written by the library
              (`wfrom = capacity` for a read-only input; `wfrom = len` for a bytes-writer target, whose
              spare capacity `[len:cap]` is what the writer is documented to fill);
      live    obtained from the shared pool (`mcache.Malloc`) and not yet given back;
      freed   given back to the pool (`mcache.Free`): the co-tenant may own and overwrite it now;
      gc      ordinary Go allocation (`dirtmake.Bytes`, `make`, `[]byte(string)`): never pooled.
    The object id is its index in `objs`; ids are never reused (the model never recycles an id, so a
    stale slice can never be mistaken for a fresh one; recycling is what the environment step does to
    the CONTENT of freed objects).
  * a slice is a Go slice header `(obj, off, len, cap)`.
  * every access through the library is checked; a violation is LOGGED in `faults` (the function stays
    total, the theorems say the log stays empty):
      useAfterFree  read or write of a freed object
      writeToCaller write below `wfrom` of a caller object
      freeCaller / doubleFree / freeForeign / freeInterior   wrong argument of `Free`
      bounds / badObj   access outside the object (a Go slice/index panic)
  * allocator calls are recorded in `events` (newest first).
  * `dirty` is the content of memory handed out by the allocators: ARBITRARY (a field of the heap that
    the environment may change at will); no theorem may depend on it.
  * `Env h h'` is one step of the adversarial co-tenant: it may overwrite every freed object, allocate
    new objects of its own and change `dirty`; it cannot touch caller/live/gc objects.
-/
import Verif.Base.Bytes
import Verif.Model.Reader
namespace Verif

inductive Owner where
  | caller | live | freed | gc
deriving Repr, DecidableEq

structure Obj where
  data : Bytes
  owner : Owner
  wfrom : Nat
deriving Repr, DecidableEq

/-- allocator calls: `malloc id cap` (id = object id), `free id cap` (cap = cap of the slice passed) -/
inductive Ev where
  | malloc (obj cap : Nat)
  | free (obj cap : Nat)
deriving Repr, DecidableEq

inductive Fault where
  | useAfterFree (obj : Nat)
  | writeToCaller (obj : Nat)
  | freeCaller (obj : Nat)
  | doubleFree (obj : Nat)
  | freeForeign (obj : Nat)
  | freeInterior (obj : Nat)
  | bounds
  | badObj
deriving Repr, DecidableEq

structure Heap where
  objs : List Obj
  events : List Ev
  faults : List Fault
  dirty : Nat → Nat → UInt8

/-- a Go slice header -/
structure Slice where
  obj : Nat
  off : Nat
  len : Nat
  cap : Nat
deriving Repr, DecidableEq

/-- the nil slice -/
def Slice.nil : Slice := ⟨0, 0, 0, 0⟩

namespace Heap

def empty (dirty : Nat → Nat → UInt8) : Heap := ⟨[], [], [], dirty⟩

def obj? (h : Heap) (o : Nat) : Option Obj := h.objs[o]?
def size (h : Heap) : Nat := h.objs.length
def owner? (h : Heap) (o : Nat) : Option Owner := (h.obj? o).map (·.owner)
/-- byte `p` of object `o` -/
def byte? (h : Heap) (o p : Nat) : Option UInt8 := (h.obj? o).bind (fun x => x.data[p]?)
/-- the `n` bytes of object `o` from position `p` (pure; the access check is `chk`) -/
def bytes (h : Heap) (o p n : Nat) : Bytes :=
  match h.obj? o with
  | some x => (x.data.drop p).take n
  | none => []
/-- content seen through a slice -/
def view (h : Heap) (s : Slice) : Bytes := h.bytes s.obj s.off s.len

def fault (h : Heap) (f : Fault) : Heap := { h with faults := f :: h.faults }

/-- a Go bounds check made by the modelled code itself (`b[lo:hi]`, `b[i]`) -/
def assert (h : Heap) (c : Bool) : Heap := if c then h else h.fault .bounds

/-- access check for `n` bytes at `(o, p)`; `n = 0` touches nothing -/
def chk (h : Heap) (o p n : Nat) (write : Bool) : Heap :=
  if n = 0 then h else
  match h.obj? o with
  | none => h.fault .badObj
  | some x =>
    if p + n > x.data.length then h.fault .bounds
    else if x.owner = .freed then h.fault (.useAfterFree o)
    else if write ∧ x.owner = .caller ∧ p < x.wfrom then h.fault (.writeToCaller o)
    else h

/-- replace `d.length` bytes at position `p` -/
def splice (data : Bytes) (p : Nat) (d : Bytes) : Bytes :=
  data.take p ++ d ++ data.drop (p + d.length)

def setData (h : Heap) (o p : Nat) (d : Bytes) : Heap :=
  { h with objs := h.objs.modify o (fun x => { x with data := splice x.data p d }) }

/-- checked write of `d` at `(o, p)` -/
def write (h : Heap) (o p : Nat) (d : Bytes) : Heap :=
  (h.chk o p d.length true).setData o p d

/-- checked read -/
def read (h : Heap) (o p n : Nat) : Bytes × Heap := (h.bytes o p n, h.chk o p n false)

/-- Go `copy` of `n` bytes (memmove semantics: read everything, then write) -/
def copy (h : Heap) (dst dpos src spos n : Nat) : Heap :=
  (h.chk src spos n false).write dst dpos (h.bytes src spos n)

/-- a write made by the USER of the library into memory it legitimately holds (its own buffers, a
    region handed out by the writer, a decoded result): not an access of the library, so nothing is
    checked except that the memory has not been given back to the pool -/
def userWrite (h : Heap) (o p : Nat) (d : Bytes) : Heap := h.setData o p d

def push (h : Heap) (x : Obj) : Heap := { h with objs := h.objs ++ [x] }

/-- capacity of `mcache.Malloc` for a request of `c` bytes: `1 << calcIndex(c)`, the next power of two
    (1 for c = 0).  ASSUMPTION "allocation succeeds": for c > 2^45 the real Malloc panics (index out
    of range in `caches[46]`); the model then pretends an exact allocation instead of stopping. -/
def mcap (c : Nat) : Nat := if c ≤ 2 ^ 45 then pow2ceil c else c

def fresh (h : Heap) (cap : Nat) : Bytes := (List.range cap).map (h.dirty h.size)

/-- `mcache.Malloc(size, capReq)` (`capReq = 0` when absent): a fresh live object, dirty content -/
def malloc (h : Heap) (size capReq : Nat) : Slice × Heap :=
  let c := if capReq > size then capReq else size
  (⟨h.size, 0, size, mcap c⟩,
   { (h.push ⟨h.fresh (mcap c), .live, 0⟩) with events := .malloc h.size (mcap c) :: h.events })

/-- `dirtmake.Bytes(len, cap)` / `make` / `[]byte(string)`: a fresh gc object, dirty content, no event -/
def gcAlloc (h : Heap) (len cap : Nat) : Slice × Heap :=
  (⟨h.size, 0, len, cap⟩, h.push ⟨h.fresh cap, .gc, 0⟩)

/-- memory of the caller with the given content; positions `≥ wfrom` may be written by the library -/
def callerAlloc (h : Heap) (data : Bytes) (len wfrom : Nat) : Slice × Heap :=
  (⟨h.size, 0, len, data.length⟩, h.push ⟨data, .caller, wfrom⟩)

def setOwner (h : Heap) (o : Nat) (w : Owner) : Heap :=
  { h with objs := h.objs.modify o (fun x => { x with owner := w }) }

/-- `mcache.Free(buf)`.  `cap(buf) = 0` returns at once.  Every other call is recorded, and is a fault
    unless `buf` is the full slice of a live object.  (The real Free silently ignores capacities that
    are no power of two; live objects always have the capacity Malloc gave them, so that case only
    arises together with a fault.  The model is the stronger adversary: every Free recycles.) -/
def free (h : Heap) (s : Slice) : Heap :=
  if s.cap = 0 then h else
  let h1 : Heap := { h with events := .free s.obj s.cap :: h.events }
  match h1.obj? s.obj with
  | none => h1.fault .badObj
  | some x =>
    match x.owner with
    | .caller => h1.fault (.freeCaller s.obj)
    | .freed => h1.fault (.doubleFree s.obj)
    | .gc => h1.fault (.freeForeign s.obj)
    | .live =>
      (if s.off = 0 ∧ s.cap = x.data.length then h1 else h1.fault (.freeInterior s.obj)).setOwner s.obj .freed

/-- `for _, buf := range pending { mcache.Free(buf) }` -/
def freeAll (h : Heap) (l : List Slice) : Heap := l.foldl (fun h s => h.free s) h

/-- executable environment step used by the driver: every freed object is overwritten by `f id pos`,
    `k` foreign objects are allocated, later allocations are filled by `f` too -/
def scribble (h : Heap) (f : Nat → Nat → UInt8) (k : Nat) : Heap :=
  { h with
    objs := (h.objs.zipIdx.map (fun (x : Obj × Nat) =>
              if x.1.owner = .freed then { x.1 with data := (List.range x.1.data.length).map (f x.2) } else x.1))
            ++ List.replicate k ⟨[f 0 0], .gc, 0⟩ }

end Heap

/-- one step of the environment (the adversarial co-tenant of the shared pool) -/
structure Env (h h' : Heap) : Prop where
  events : h'.events = h.events
  faults : h'.faults = h.faults
  size : h.size ≤ h'.size
  keep : ∀ o x, h.obj? o = some x → ∃ x', h'.obj? o = some x' ∧ x'.owner = x.owner ∧ x'.wfrom = x.wfrom
            ∧ x'.data.length = x.data.length ∧ (x.owner ≠ .freed → x'.data = x.data)

/-! ## slices -/

namespace Slice

/-- `s[lo:hi]` (Go panics unless lo ≤ hi ≤ cap; the caller of `sub` asserts that) -/
def sub (s : Slice) (lo hi : Nat) : Slice := ⟨s.obj, s.off + lo, hi - lo, s.cap - lo⟩

/-- positions of the slice's elements -/
def Has (s : Slice) (o p : Nat) : Prop := s.obj = o ∧ s.off ≤ p ∧ p < s.off + s.len

/-- two slices share no element -/
def Disjoint (s t : Slice) : Prop :=
  s.len = 0 ∨ t.len = 0 ∨ s.obj ≠ t.obj ∨ s.off + s.len ≤ t.off ∨ t.off + t.len ≤ s.off

/-- the capacity regions (what `append` may write in place) share nothing -/
def CapDisjoint (s t : Slice) : Prop :=
  s.cap = 0 ∨ t.cap = 0 ∨ s.obj ≠ t.obj ∨ s.off + s.cap ≤ t.off ∨ t.off + t.cap ≤ s.off

instance (s t : Slice) : Decidable (s.Disjoint t) := by unfold Disjoint; exact inferInstance
instance (s t : Slice) : Decidable (s.CapDisjoint t) := by unfold CapDisjoint; exact inferInstance

end Slice

/-- the slice lies inside an existing object -/
def Heap.Valid (h : Heap) (s : Slice) : Prop :=
  s.len ≤ s.cap ∧ ∃ x, h.obj? s.obj = some x ∧ s.off + s.cap ≤ x.data.length

/-! ## basic lemmas about the primitives (everything later is proved from these) -/

namespace Heap

@[simp] theorem fault_objs (h : Heap) (f : Fault) : (h.fault f).objs = h.objs := rfl
@[simp] theorem fault_events (h : Heap) (f : Fault) : (h.fault f).events = h.events := rfl
@[simp] theorem fault_obj? (h : Heap) (f : Fault) (o : Nat) : (h.fault f).obj? o = h.obj? o := rfl
@[simp] theorem fault_size (h : Heap) (f : Fault) : (h.fault f).size = h.size := rfl

@[simp] theorem assert_objs (h : Heap) (c : Bool) : (h.assert c).objs = h.objs := by
  unfold assert; split <;> rfl
@[simp] theorem assert_events (h : Heap) (c : Bool) : (h.assert c).events = h.events := by
  unfold assert; split <;> rfl
@[simp] theorem assert_obj? (h : Heap) (c : Bool) (o : Nat) : (h.assert c).obj? o = h.obj? o := by
  unfold assert; split <;> rfl
@[simp] theorem assert_true (h : Heap) : h.assert true = h := rfl
theorem assert_faults (h : Heap) (c : Bool) (hc : c = true) : (h.assert c).faults = h.faults := by
  subst hc; rfl

@[simp] theorem chk_objs (h : Heap) (o p n : Nat) (w : Bool) : (h.chk o p n w).objs = h.objs := by
  unfold chk; repeat' split
  all_goals rfl
@[simp] theorem chk_events (h : Heap) (o p n : Nat) (w : Bool) : (h.chk o p n w).events = h.events := by
  unfold chk; repeat' split
  all_goals rfl
@[simp] theorem chk_obj? (h : Heap) (o p n : Nat) (w : Bool) (o' : Nat) :
    (h.chk o p n w).obj? o' = h.obj? o' := by
  unfold obj?; rw [chk_objs]
@[simp] theorem chk_dirty (h : Heap) (o p n : Nat) (w : Bool) : (h.chk o p n w).dirty = h.dirty := by
  unfold chk; repeat' split
  all_goals rfl
@[simp] theorem chk_zero (h : Heap) (o p : Nat) (w : Bool) : h.chk o p 0 w = h := by
  unfold chk; simp

/-- a read check passes on any object that exists, is not freed, and is long enough -/
theorem chk_read_ok (h : Heap) (o p n : Nat) (x : Obj) (hx : h.obj? o = some x)
    (hb : p + n ≤ x.data.length) (hf : x.owner ≠ .freed) : h.chk o p n false = h := by
  unfold chk; split
  · rfl
  · rw [hx]; simp only []
    rw [if_neg (by omega), if_neg hf]; simp

/-- a write check passes on live/gc objects, and on caller objects at or above `wfrom` -/
theorem chk_write_ok (h : Heap) (o p n : Nat) (x : Obj) (hx : h.obj? o = some x)
    (hb : p + n ≤ x.data.length) (hf : x.owner ≠ .freed)
    (hc : x.owner = .caller → x.wfrom ≤ p) : h.chk o p n true = h := by
  unfold chk; split
  · rfl
  · rw [hx]; simp only []
    rw [if_neg (by omega), if_neg hf]
    rw [if_neg]; intro ⟨_, h2, h3⟩; have := hc h2; omega

theorem splice_length (data : Bytes) (p : Nat) (d : Bytes) (hb : p + d.length ≤ data.length) :
    (splice data p d).length = data.length := by
  unfold splice; simp; omega

theorem splice_getElem?_out (data : Bytes) (p : Nat) (d : Bytes) (q : Nat)
    (hb : p + d.length ≤ data.length) (hq : q < p ∨ p + d.length ≤ q) :
    (splice data p d)[q]? = data[q]? := by
  unfold splice
  rcases hq with hq | hq
  · rw [List.append_assoc, List.getElem?_append_left (by simp; omega), List.getElem?_take, if_pos hq]
  · rw [List.getElem?_append_right (by simp; omega), List.getElem?_drop]
    congr 1; simp; omega

theorem splice_getElem?_in (data : Bytes) (p : Nat) (d : Bytes) (q : Nat)
    (hb : p + d.length ≤ data.length) (hq : p ≤ q ∧ q < p + d.length) :
    (splice data p d)[q]? = d[q - p]? := by
  unfold splice
  rw [List.getElem?_append_left (by simp; omega), List.getElem?_append_right (by simp; omega)]
  congr 1; simp; omega

@[simp] theorem splice_nil (data : Bytes) (p : Nat) : splice data p [] = data := by
  unfold splice; simp

@[simp] theorem setData_events (h : Heap) (o p : Nat) (d : Bytes) : (h.setData o p d).events = h.events := rfl
@[simp] theorem setData_faults (h : Heap) (o p : Nat) (d : Bytes) : (h.setData o p d).faults = h.faults := rfl
@[simp] theorem setData_dirty (h : Heap) (o p : Nat) (d : Bytes) : (h.setData o p d).dirty = h.dirty := rfl
@[simp] theorem setData_size (h : Heap) (o p : Nat) (d : Bytes) : (h.setData o p d).size = h.size := by
  simp [setData, size]

theorem setData_obj? (h : Heap) (o p : Nat) (d : Bytes) (o' : Nat) :
    (h.setData o p d).obj? o' =
      (h.obj? o').map (fun x => if o = o' then { x with data := splice x.data p d } else x) := by
  simp only [setData, obj?, List.getElem?_modify]
  cases h.objs[o']? <;> simp

theorem setData_obj?_ne (h : Heap) (o p : Nat) (d : Bytes) (o' : Nat) (hne : o' ≠ o) :
    (h.setData o p d).obj? o' = h.obj? o' := by
  rw [setData_obj?]; cases h.obj? o' <;> simp [Ne.symm hne]

theorem setData_nil (h : Heap) (o p : Nat) : h.setData o p [] = h := by
  unfold setData
  have : h.objs.modify o (fun x => { x with data := splice x.data p [] }) = h.objs := by
    apply List.ext_getElem?; intro i
    rw [List.getElem?_modify]; cases h.objs[i]? <;> simp
  rw [this]

@[simp] theorem write_events (h : Heap) (o p : Nat) (d : Bytes) : (h.write o p d).events = h.events := by
  simp [write]
@[simp] theorem write_size (h : Heap) (o p : Nat) (d : Bytes) : (h.write o p d).size = h.size := by
  simp [write, size, setData]
@[simp] theorem write_dirty (h : Heap) (o p : Nat) (d : Bytes) : (h.write o p d).dirty = h.dirty := by
  simp [write]
theorem write_faults (h : Heap) (o p : Nat) (d : Bytes) :
    (h.write o p d).faults = (h.chk o p d.length true).faults := rfl

theorem write_obj? (h : Heap) (o p : Nat) (d : Bytes) (o' : Nat) :
    (h.write o p d).obj? o' =
      (h.obj? o').map (fun x => if o = o' then { x with data := splice x.data p d } else x) := by
  unfold write; rw [setData_obj?, chk_obj?]

theorem write_obj?_ne (h : Heap) (o p : Nat) (d : Bytes) (o' : Nat) (hne : o' ≠ o) :
    (h.write o p d).obj? o' = h.obj? o' := by
  rw [write_obj?]; cases h.obj? o' <;> simp [Ne.symm hne]

@[simp] theorem write_nil (h : Heap) (o p : Nat) : h.write o p [] = h := by
  unfold write; simp [setData_nil]

@[simp] theorem write_owner? (h : Heap) (o p : Nat) (d : Bytes) (o' : Nat) :
    (h.write o p d).owner? o' = h.owner? o' := by
  unfold owner?; rw [write_obj?]; cases h.obj? o' <;> simp
  split <;> rfl

@[simp] theorem push_events (h : Heap) (x : Obj) : (h.push x).events = h.events := rfl
@[simp] theorem push_faults (h : Heap) (x : Obj) : (h.push x).faults = h.faults := rfl
@[simp] theorem push_size (h : Heap) (x : Obj) : (h.push x).size = h.size + 1 := by simp [push, size]
theorem push_obj?_lt (h : Heap) (x : Obj) (o : Nat) (ho : o < h.size) : (h.push x).obj? o = h.obj? o := by
  simp only [push, obj?]; exact List.getElem?_append_left ho
theorem push_obj?_new (h : Heap) (x : Obj) : (h.push x).obj? h.size = some x := by
  simp [push, obj?, size]
theorem obj?_lt (h : Heap) (o : Nat) (x : Obj) (hx : h.obj? o = some x) : o < h.size := by
  unfold obj? at hx; unfold size
  rcases Nat.lt_or_ge o h.objs.length with hlt | hge
  · exact hlt
  · rw [List.getElem?_eq_none hge] at hx; cases hx
theorem obj?_none (h : Heap) (o : Nat) (ho : h.size ≤ o) : h.obj? o = none :=
  List.getElem?_eq_none ho

@[simp] theorem fresh_length (h : Heap) (c : Nat) : (h.fresh c).length = c := by simp [fresh]

@[simp] theorem setOwner_events (h : Heap) (o : Nat) (w : Owner) : (h.setOwner o w).events = h.events := rfl
@[simp] theorem setOwner_faults (h : Heap) (o : Nat) (w : Owner) : (h.setOwner o w).faults = h.faults := rfl
@[simp] theorem setOwner_dirty (h : Heap) (o : Nat) (w : Owner) : (h.setOwner o w).dirty = h.dirty := rfl
@[simp] theorem setOwner_size (h : Heap) (o : Nat) (w : Owner) : (h.setOwner o w).size = h.size := by
  simp [setOwner, size]
theorem setOwner_obj? (h : Heap) (o : Nat) (w : Owner) (o' : Nat) :
    (h.setOwner o w).obj? o' = (h.obj? o').map (fun x => if o = o' then { x with owner := w } else x) := by
  simp only [setOwner, obj?, List.getElem?_modify]
  cases h.objs[o']? <;> simp

theorem bytes_eq_of_byte? (h h' : Heap) (o p n : Nat) (x x' : Obj)
    (hx : h.obj? o = some x) (hx' : h'.obj? o = some x')
    (hb : ∀ q, p ≤ q → q < p + n → x'.data[q]? = x.data[q]?) :
    h'.bytes o p n = h.bytes o p n := by
  unfold bytes; rw [hx, hx']; simp only []
  apply List.ext_getElem?; intro i
  rw [List.getElem?_take, List.getElem?_take]
  split
  · rw [List.getElem?_drop, List.getElem?_drop]; exact hb _ (by omega) (by omega)
  · rfl

end Heap

/-- n ≤ pow2ceil n below 2^64 -/
theorem mem_pow2ceilAux_ge (fuel c n : Nat) (hc : n ≤ c * 2 ^ fuel) : n ≤ pow2ceilAux fuel c n := by
  induction fuel generalizing c with
  | zero => simpa [pow2ceilAux] using hc
  | succ f ih =>
    unfold pow2ceilAux; split
    · assumption
    · apply ih; rw [Nat.pow_succ] at hc; rw [Nat.mul_assoc, Nat.mul_comm 2]; exact hc

theorem le_mcap (c : Nat) : c ≤ Heap.mcap c := by
  unfold Heap.mcap; split
  · unfold pow2ceil; apply mem_pow2ceilAux_ge
    have : (2:Nat) ^ 45 ≤ 2 ^ 64 := Nat.pow_le_pow_right (by decide) (by decide)
    omega
  · exact Nat.le_refl c

end Verif

/-
  Base/Out: outcome of a modelled Go call.
  `ok a`    normal return with err == nil
  `err e`   normal return with err != nil (e is a small error enum, per family)
  `panic s` Go runtime panic (index/slice out of range, divide by zero, nil deref ...)
  `oob`     an unsafe load outside the slice (no Go panic, but memory-unsafe)
-/
namespace Verif

inductive Out (ε α : Type) where
  | ok (a : α)
  | err (e : ε)
  | panic (why : String)
  | oob
deriving Repr, DecidableEq

namespace Out
variable {ε α β : Type}

@[inline] def bind (x : Out ε α) (f : α → Out ε β) : Out ε β :=
  match x with
  | ok a => f a
  | err e => err e
  | panic s => panic s
  | oob => oob

instance : Monad (Out ε) where
  pure := Out.ok
  bind := Out.bind

def isOk : Out ε α → Bool | ok _ => true | _ => false
def isPanic : Out ε α → Bool | panic _ => true | _ => false
def isOob : Out ε α → Bool | oob => true | _ => false
/-- neither a Go panic nor an out-of-bounds unsafe load -/
def Safe (x : Out ε α) : Prop := (∀ s, x ≠ panic s) ∧ x ≠ oob

@[simp] theorem bind_ok (a : α) (f : α → Out ε β) : (ok a : Out ε α).bind f = f a := rfl
@[simp] theorem bind_err (e : ε) (f : α → Out ε β) : (err e : Out ε α).bind f = err e := rfl
@[simp] theorem bind_panic (s : String) (f : α → Out ε β) : (panic s : Out ε α).bind f = panic s := rfl
@[simp] theorem bind_oob (f : α → Out ε β) : (oob : Out ε α).bind f = oob := rfl
@[simp] theorem pure_eq (a : α) : (pure a : Out ε α) = ok a := rfl
@[simp] theorem bind_eq (x : Out ε α) (f : α → Out ε β) : (x >>= f) = x.bind f := rfl

end Out
end Verif

/-
  Lemmas/UnknownDepth: the instrumented reader erases to Model/Unknown, and its depth is bounded by maxdepth+1.
-/
import Verif.Model.UnknownDepth
import Verif.Lemmas.UnknownEqns
namespace Verif

namespace DOut
variable {α β : Type}
@[simp] theorem lift_snd (x : UOut α) : (lift x).2 = x := rfl
@[simp] theorem lift_fst (x : UOut α) : (lift x).1 = 0 := rfl
@[simp] theorem frame_snd (x : DOut α) : (frame x).2 = x.2 := rfl
@[simp] theorem frame_fst (x : DOut α) : (frame x).1 = x.1 + 1 := rfl
@[simp] theorem bind_snd (x : DOut α) (f : α → DOut β) : (x.bind f).2 = x.2.bind fun a => (f a).2 := by
  obtain ⟨d, r⟩ := x; cases r <;> simp [bind, Out.bind]
theorem bind_fst_le (x : DOut α) (f : α → DOut β) (k : Nat) (hx : x.1 ≤ k) (hf : ∀ a, (f a).1 ≤ k) :
    (x.bind f).1 ≤ k := by
  obtain ⟨d, r⟩ := x; cases r <;> simp_all [bind]
  exact Nat.max_le.mpr ⟨hx, hf _⟩
end DOut

/-! ## erasure -/

theorem readElemsD_snd {α : Type} (rd : Bytes → UInt16 → DOut (α × Nat)) (b : Bytes) :
    ∀ cnt i off, (readElemsD rd cnt i b off).2 = readElems (fun s i => (rd s i).2) cnt i b off
  | 0, _, _ => rfl
  | cnt+1, i, off => by
    simp only [readElemsD, readElems, DOut.bind_snd, DOut.lift_snd, readElemsD_snd rd b cnt]

theorem readKVsD_snd {α : Type} (rk rv : Bytes → UInt16 → DOut (α × Nat)) (b : Bytes) :
    ∀ cnt i off, (readKVsD rk rv cnt i b off).2 =
      ufReadKVs (fun s i => (rk s i).2) (fun s i => (rv s i).2) cnt i b off
  | 0, _, _ => rfl
  | cnt+1, i, off => by
    simp only [readKVsD, ufReadKVs, DOut.bind_snd, DOut.lift_snd, readKVsD_snd rk rv b cnt]

theorem readFieldsD_snd {α : Type} (rd : Bytes → UInt8 → UInt16 → DOut (α × Nat)) (b : Bytes) :
    ∀ fuel off, (readFieldsD rd fuel b off).2 = readFields (fun s t i => (rd s t i).2) fuel b off
  | 0, _ => rfl
  | fuel+1, off => by
    simp only [readFieldsD, readFields, DOut.bind_snd, DOut.lift_snd, apply_ite Prod.snd,
      readFieldsD_snd rd b fuel]

theorem convertLoopD_snd {α : Type} (rd : Bytes → UInt8 → UInt16 → DOut (α × Nat)) (b : Bytes) :
    ∀ fuel off, (convertLoopD rd fuel b off).2 = convertLoop (fun s t i => (rd s t i).2) fuel b off
  | 0, _ => rfl
  | fuel+1, off => by
    simp only [convertLoopD, convertLoop, DOut.bind_snd, DOut.lift_snd, apply_ite Prod.snd,
      convertLoopD_snd rd b fuel]

theorem readListLikeD_snd {α : Type} (rd : UInt8 → Bytes → UInt16 → DOut (α × Nat)) (id : UInt16) (t : UInt8)
    (b : Bytes) : (readListLikeD rd id t b).2 = readListLike (fun et s i => (rd et s i).2) id t b := by
  cases b with
  | nil => rfl
  | cons et rest =>
    simp only [readListLikeD, readListLike, apply_ite Prod.snd, DOut.bind_snd, DOut.lift_snd, readElemsD_snd]

theorem readMapLikeD_snd {α : Type} (rd : UInt8 → Bytes → UInt16 → DOut (α × Nat)) (id : UInt16) (t : UInt8)
    (b : Bytes) : (readMapLikeD rd id t b).2 = readMapLike (fun et s i => (rd et s i).2) id t b := by
  match b with
  | [] => rfl
  | [_] => rfl
  | kt :: vt :: rest =>
    simp only [readMapLikeD, readMapLike, apply_ite Prod.snd, DOut.bind_snd, DOut.lift_snd, readKVsD_snd]

theorem readNodeD_snd {α : Type} (rd : Bytes → UInt8 → UInt16 → DOut (α × Nat)) (b : Bytes) (t : UInt8) (id : UInt16) :
    (readNodeD rd b t id).2 = readNode (fun s t i => (rd s t i).2) b t id := by
  simp only [readNodeD, readNode, apply_ite Prod.snd, DOut.lift_snd, readListLikeD_snd, readMapLikeD_snd,
    DOut.bind_snd, readFieldsD_snd]

/-- erasing the depth gives the model of readUnknownField -/
theorem readUFD_snd : ∀ (m : Nat) (b : Bytes) (t : UInt8) (id : UInt16), (readUFD m b t id).2 = readUF m b t id
  | 0, _, _, _ => rfl
  | m+1, b, t, id => by
    have ih' : (fun (s : Bytes) (ft : UInt8) (fid : UInt16) => (readUFD m s ft fid).2) =
        fun s ft fid => readUF m s ft fid := by
      funext s ft fid; exact readUFD_snd m s ft fid
    simp only [readUFD, readUF]
    exact (readNodeD_snd _ b t id).trans (by rw [ih'])

theorem convertMD_snd (m : Nat) (b : Bytes) : (convertMD m b).2 = convertM m b := by
  have ih' : (fun (s : Bytes) (ft : UInt8) (fid : UInt16) => (readUFD m s ft fid).2) =
      fun s ft fid => readUF m s ft fid := by
    funext s ft fid; exact readUFD_snd m s ft fid
  simp only [convertMD, convertM, apply_ite Prod.snd, DOut.lift_snd, convertLoopD_snd, ih']

/-! ## the depth bound -/

theorem readElemsD_fst_le {α : Type} (rd : Bytes → UInt16 → DOut (α × Nat)) (k : Nat) (H : ∀ s i, (rd s i).1 ≤ k)
    (b : Bytes) : ∀ cnt i off, (readElemsD rd cnt i b off).1 ≤ k
  | 0, _, _ => by simp [readElemsD]
  | cnt+1, i, off => by
    simp only [readElemsD]
    refine DOut.bind_fst_le _ _ k (by simp) fun s => ?_
    refine DOut.bind_fst_le _ _ k (H _ _) fun r => ?_
    exact DOut.bind_fst_le _ _ k (readElemsD_fst_le rd k H b cnt _ _) fun rs => by simp

theorem readKVsD_fst_le {α : Type} (rk rv : Bytes → UInt16 → DOut (α × Nat)) (k : Nat)
    (HK : ∀ s i, (rk s i).1 ≤ k) (HV : ∀ s i, (rv s i).1 ≤ k) (b : Bytes) :
    ∀ cnt i off, (readKVsD rk rv cnt i b off).1 ≤ k
  | 0, _, _ => by simp [readKVsD]
  | cnt+1, i, off => by
    simp only [readKVsD]
    refine DOut.bind_fst_le _ _ k (by simp) fun s => ?_
    refine DOut.bind_fst_le _ _ k (HK _ _) fun r => ?_
    refine DOut.bind_fst_le _ _ k (by simp) fun s' => ?_
    refine DOut.bind_fst_le _ _ k (HV _ _) fun v => ?_
    exact DOut.bind_fst_le _ _ k (readKVsD_fst_le rk rv k HK HV b cnt _ _) fun rs => by simp

theorem readFieldsD_fst_le {α : Type} (rd : Bytes → UInt8 → UInt16 → DOut (α × Nat)) (k : Nat)
    (H : ∀ s t i, (rd s t i).1 ≤ k) (b : Bytes) : ∀ fuel off, (readFieldsD rd fuel b off).1 ≤ k
  | 0, _ => by simp [readFieldsD]
  | fuel+1, off => by
    simp only [readFieldsD]
    refine DOut.bind_fst_le _ _ k (by simp) fun s => ?_
    refine DOut.bind_fst_le _ _ k (by simp) fun h => ?_
    split
    · simp
    · refine DOut.bind_fst_le _ _ k (by simp) fun s' => ?_
      refine DOut.bind_fst_le _ _ k (H _ _ _) fun r => ?_
      exact DOut.bind_fst_le _ _ k (readFieldsD_fst_le rd k H b fuel _) fun rs => by simp

theorem convertLoopD_fst_le {α : Type} (rd : Bytes → UInt8 → UInt16 → DOut (α × Nat)) (k : Nat)
    (H : ∀ s t i, (rd s t i).1 ≤ k) (b : Bytes) : ∀ fuel off, (convertLoopD rd fuel b off).1 ≤ k
  | 0, _ => by simp [convertLoopD]
  | fuel+1, off => by
    simp only [convertLoopD]
    split
    · simp
    · refine DOut.bind_fst_le _ _ k (by simp) fun s => ?_
      refine DOut.bind_fst_le _ _ k (by simp) fun h => ?_
      refine DOut.bind_fst_le _ _ k (by simp) fun s' => ?_
      refine DOut.bind_fst_le _ _ k (H _ _ _) fun r => ?_
      exact DOut.bind_fst_le _ _ k (convertLoopD_fst_le rd k H b fuel _) fun rs => by simp

theorem readListLikeD_fst_le {α : Type} (rd : UInt8 → Bytes → UInt16 → DOut (α × Nat)) (k : Nat)
    (H : ∀ t s i, (rd t s i).1 ≤ k) (id : UInt16) (t : UInt8) (b : Bytes) : (readListLikeD rd id t b).1 ≤ k := by
  cases b with
  | nil => simp [readListLikeD]
  | cons et rest =>
    simp only [readListLikeD]
    split
    · simp
    · exact DOut.bind_fst_le _ _ k (readElemsD_fst_le _ k (H et) _ _ _ _) fun rs => by simp

theorem readMapLikeD_fst_le {α : Type} (rd : UInt8 → Bytes → UInt16 → DOut (α × Nat)) (k : Nat)
    (H : ∀ t s i, (rd t s i).1 ≤ k) (id : UInt16) (t : UInt8) (b : Bytes) : (readMapLikeD rd id t b).1 ≤ k := by
  match b with
  | [] => simp [readMapLikeD]
  | [_] => simp [readMapLikeD]
  | kt :: vt :: rest =>
    simp only [readMapLikeD]
    split
    · simp
    · exact DOut.bind_fst_le _ _ k (readKVsD_fst_le _ _ k (H kt) (H vt) _ _ _ _) fun rs => by simp

theorem readNodeD_fst_le {α : Type} (rd : Bytes → UInt8 → UInt16 → DOut (α × Nat)) (k : Nat)
    (H : ∀ s t i, (rd s t i).1 ≤ k) (b : Bytes) (t : UInt8) (id : UInt16) : (readNodeD rd b t id).1 ≤ k := by
  unfold readNodeD
  by_cases h1 : t = UT.BOOL; · rw [if_pos h1]; exact Nat.zero_le _
  rw [if_neg h1]
  by_cases h2 : t = UT.BYTE; · rw [if_pos h2]; exact Nat.zero_le _
  rw [if_neg h2]
  by_cases h3 : t = UT.I16; · rw [if_pos h3]; exact Nat.zero_le _
  rw [if_neg h3]
  by_cases h4 : t = UT.I32; · rw [if_pos h4]; exact Nat.zero_le _
  rw [if_neg h4]
  by_cases h5 : t = UT.I64; · rw [if_pos h5]; exact Nat.zero_le _
  rw [if_neg h5]
  by_cases h6 : t = UT.DOUBLE; · rw [if_pos h6]; exact Nat.zero_le _
  rw [if_neg h6]
  by_cases h7 : t = UT.STRING; · rw [if_pos h7]; exact Nat.zero_le _
  rw [if_neg h7]
  by_cases h8 : t = UT.SET; · rw [if_pos h8]; exact readListLikeD_fst_le _ _ (fun t s i => H s t i) _ _ _
  rw [if_neg h8]
  by_cases h9 : t = UT.LIST; · rw [if_pos h9]; exact readListLikeD_fst_le _ _ (fun t s i => H s t i) _ _ _
  rw [if_neg h9]
  by_cases h10 : t = UT.MAP; · rw [if_pos h10]; exact readMapLikeD_fst_le _ _ (fun t s i => H s t i) _ _ _
  rw [if_neg h10]
  by_cases h11 : t = UT.STRUCT
  · rw [if_pos h11]
    exact DOut.bind_fst_le _ _ _ (readFieldsD_fst_le _ _ H _ _ _) fun rs => Nat.zero_le _
  · rw [if_neg h11]; exact Nat.zero_le _

/-- a readUnknownField call with `maxdepth = m` nests at most m+1 frames (the last one only rejects) -/
theorem readUFD_fst_le : ∀ (m : Nat) (b : Bytes) (t : UInt8) (id : UInt16), (readUFD m b t id).1 ≤ m + 1
  | 0, _, _, _ => by simp [readUFD]
  | m+1, b, t, id => by
    simp only [readUFD]
    exact Nat.succ_le_succ (readNodeD_fst_le _ _ (fun s t i => readUFD_fst_le m s t i) b t id)

theorem convertMD_fst_le (m : Nat) (b : Bytes) : (convertMD m b).1 ≤ m + 1 := by
  simp only [convertMD]
  split
  · simp
  · exact convertLoopD_fst_le _ _ (fun s t i => readUFD_fst_le m s t i) _ _ _

end Verif

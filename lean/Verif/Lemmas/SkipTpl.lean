/-
  Lemmas/SkipTpl: SkipDecoderTpl.Skip over ANY back end that behaves like a cursor over its remaining
  bytes agrees exactly with the discipline refTpl (Lemmas/GrammarG.lean).
-/
import Verif.Model.SkipStream
import Verif.Lemmas.GrammarG
import Verif.Lemmas.SkipBin
import Verif.Lemmas.GrammarLocal
namespace Verif

/-- the back end is a cursor over `rem s`: SkipN k succeeds exactly when k bytes remain, returns
    those bytes and advances; `P` is a back-end invariant carried along -/
structure Cursor {σ : Type} (B : Backend σ) (rem : σ → Bytes) (P : σ → Prop) : Prop where
  ok : ∀ s k, P s → k ≤ (rem s).length →
    ∃ s', B.skipN s k = .ok ((rem s).take k, s') ∧ rem s' = (rem s).drop k ∧ P s'
  fail : ∀ s k, P s → k > (rem s).length → ∃ e, B.skipN s k = .err e
  avail : ∀ s, P s → (rem s).length ≤ B.avail s

section
variable {σ : Type} {B : Backend σ} {rem : σ → Bytes} {P : σ → Prop}

def TM (rem : σ → Bytes) (P : σ → Prop) (x : TOut σ) (o : Option Nat) (s : σ) : Prop :=
  match o with
  | some k => ∃ s', x = .ok s' ∧ rem s' = (rem s).drop k ∧ P s'
  | none => ∃ e, x = .err e

theorem tplListLoop_tm {rec : UInt8 → σ → TOut σ} {f : UInt8 → Bytes → Option Nat} (vt : UInt8)
    (HR : ∀ s, P s → TM rem P (rec vt s) (f vt (rem s)) s) :
    ∀ cnt s, P s → TM rem P (tplListLoop rec vt cnt s) (refN (f vt) cnt (rem s)) s := by
  intro cnt
  induction cnt with
  | zero => intro s hs; simp only [tplListLoop, refN, TM]; exact ⟨s, rfl, by simp, hs⟩
  | succ cnt ih =>
    intro s hs
    simp only [tplListLoop, refN]
    have h1 := HR s hs
    unfold TM at h1
    cases hf : f vt (rem s) with
    | none => rw [hf] at h1; obtain ⟨e, he⟩ := h1; simp [he, TM]
    | some k =>
      rw [hf] at h1
      obtain ⟨s1, hx, hrem, hp⟩ := h1
      simp only [hx, Out.bind_eq, Out.bind_ok]
      have h2 := ih s1 hp
      unfold TM at h2 ⊢
      rw [hrem] at h2
      cases hr : refN (f vt) cnt ((rem s).drop k) with
      | none => rw [hr] at h2; simpa using h2
      | some r =>
        rw [hr] at h2
        obtain ⟨s2, hx2, hrem2, hp2⟩ := h2
        refine ⟨s2, hx2, ?_, hp2⟩
        rw [hrem2, List.drop_drop]

theorem tplMapLoop_tm {rec : UInt8 → σ → TOut σ} {f : UInt8 → Bytes → Option Nat} (kt vt : UInt8)
    (HK : ∀ s, P s → TM rem P (rec kt s) (f kt (rem s)) s)
    (HV : ∀ s, P s → TM rem P (rec vt s) (f vt (rem s)) s) :
    ∀ cnt s, P s → TM rem P (tplMapLoop rec kt vt cnt s) (refKV (f kt) (f vt) cnt (rem s)) s := by
  intro cnt
  induction cnt with
  | zero => intro s hs; simp only [tplMapLoop, refKV, TM]; exact ⟨s, rfl, by simp, hs⟩
  | succ cnt ih =>
    intro s hs
    simp only [tplMapLoop, refKV]
    have h1 := HK s hs
    unfold TM at h1
    cases hf : f kt (rem s) with
    | none => rw [hf] at h1; obtain ⟨e, he⟩ := h1; simp [he, TM]
    | some k =>
      rw [hf] at h1
      obtain ⟨s1, hx, hrem, hp⟩ := h1
      simp only [hx, Out.bind_eq, Out.bind_ok]
      have h2 := HV s1 hp
      unfold TM at h2
      rw [hrem] at h2
      cases hg : f vt ((rem s).drop k) with
      | none => rw [hg] at h2; obtain ⟨e, he⟩ := h2; simp [he, TM]
      | some v =>
        rw [hg] at h2
        obtain ⟨s2, hx2, hrem2, hp2⟩ := h2
        simp only [hx2, Out.bind_ok]
        have h3 := ih s2 hp2
        unfold TM at h3 ⊢
        rw [hrem2, List.drop_drop] at h3
        cases hr : refKV (f kt) (f vt) cnt ((rem s).drop (k + v)) with
        | none => rw [hr] at h3; simpa using h3
        | some r =>
          rw [hr] at h3
          obtain ⟨s3, hx3, hrem3, hp3⟩ := h3
          refine ⟨s3, hx3, ?_, hp3⟩
          rw [hrem3, List.drop_drop]

theorem idx_ok (b : Bytes) (i : Nat) (h : i < b.length) : idx b i = .ok b[i] := by
  unfold idx; simp [h]

theorem tplStructLoop_tm (hC : Cursor B rem P) {rec : UInt8 → σ → TOut σ} {f : UInt8 → Bytes → Option Nat}
    (hG : ∀ t, Good (f t))
    (HR : ∀ t s, P s → TM rem P (rec t s) (f t (rem s)) s) :
    ∀ fuel s, P s → (rem s).length < fuel →
      TM rem P (tplStructLoop B rec fuel s) (refFields f fuel (rem s)) s := by
  intro fuel
  induction fuel with
  | zero => intro s _ h; omega
  | succ fuel ih =>
    intro s hs hfuel
    simp only [tplStructLoop]
    cases hrem : rem s with
    | nil =>
      obtain ⟨e, he⟩ := hC.fail s 1 hs (by simp [hrem])
      simp [he, refFields, TM]
    | cons t rest =>
      obtain ⟨s1, hx, hrem1, hp1⟩ := hC.ok s 1 hs (by simp [hrem])
      simp only [hrem, List.take_succ_cons, List.take_zero, List.drop_succ_cons, List.drop_zero] at hx hrem1
      simp only [hx, Out.bind_eq, Out.bind_ok, refFields, T_STOP_eq]
      have hi : idx [t] 0 = .ok t := by simp [idx]
      simp only [hi, Out.bind_ok]
      by_cases ht : t = 0
      · simp only [ht, if_true, Out.pure_eq, TM]
        exact ⟨s1, rfl, by simp [hrem1, hrem], hp1⟩
      · simp only [ht, if_false]
        by_cases hl : rest.length < 2
        · obtain ⟨e, he⟩ := hC.fail s1 2 hp1 (by rw [hrem1]; omega)
          simp [he, hl, TM]
        · simp only [hl, if_false]
          obtain ⟨s2, hx2, hrem2, hp2⟩ := hC.ok s1 2 hp1 (by rw [hrem1]; omega)
          rw [hrem1] at hx2 hrem2
          simp only [hx2, Out.bind_ok]
          have h3 := HR t s2 hp2
          unfold TM at h3
          rw [hrem2] at h3
          cases hf : f t (rest.drop 2) with
          | none => rw [hf] at h3; obtain ⟨e, he⟩ := h3; simp [he, TM]
          | some k =>
            rw [hf] at h3
            obtain ⟨s3, hx3, hrem3, hp3⟩ := h3
            simp only [hx3, Out.bind_ok]
            have hk := hG t _ k hf
            simp only [List.length_drop] at hk
            have h4 := ih s3 hp3 (by rw [hrem3]; simp [hrem] at hfuel ⊢; omega)
            unfold TM at h4 ⊢
            rw [hrem3, List.drop_drop] at h4
            cases hr : refFields f fuel (rest.drop (2 + k)) with
            | none => rw [hr] at h4; simpa using h4
            | some r =>
              rw [hr] at h4
              obtain ⟨s4, hx4, hrem4, hp4⟩ := h4
              refine ⟨s4, hx4, ?_, hp4⟩
              rw [hrem4, List.drop_drop, hrem]
              have : 3 + k + r = (2 + k + r) + 1 := by omega
              rw [this, List.drop_succ_cons]
end

end Verif

namespace Verif

theorem refFields_fuel_eq {f : UInt8 → Bytes → Option Nat} (hG : ∀ t, Good (f t)) (b : Bytes) (F F' : Nat)
    (h : b.length < F) (h' : b.length < F') : refFields f F b = refFields f F' b := by
  cases h1 : refFields f F b with
  | some k =>
    have hk := (refFields_good hG F b k h1).2
    exact (refFields_fuel F F' b k h1 (by omega)).symm
  | none =>
    cases h2 : refFields f F' b with
    | none => rfl
    | some k =>
      have hk := (refFields_good hG F' b k h2).2
      have := refFields_fuel F' F b k h2 (by omega)
      rw [h1] at this; cases this

theorem rd32_take (b : Bytes) (n : Nat) (hn : 4 ≤ n) (hb : 4 ≤ b.length) : rd32 (b.take n) = rd32 b := by
  have := rd32_take_append b n [] hn hb
  simpa using this

theorem exists_cons5 (l : Bytes) (h : 5 ≤ l.length) : ∃ a b c d e tl, l = a :: b :: c :: d :: e :: tl := by
  match l, h with
  | a :: b :: c :: d :: e :: tl, _ => exact ⟨a, b, c, d, e, tl, rfl⟩

theorem exists_cons6 (l : Bytes) (h : 6 ≤ l.length) :
    ∃ a b c d e f tl, l = a :: b :: c :: d :: e :: f :: tl := by
  match l, h with
  | a :: b :: c :: d :: e :: f :: tl, _ => exact ⟨a, b, c, d, e, f, tl, rfl⟩

theorem u32of_ok (b : Bytes) (h : 4 ≤ b.length) : u32of b = .ok (rd32 b) := by
  unfold u32of; simp [h]

section
variable {σ : Type} {B : Backend σ} {rem : σ → Bytes} {P : σ → Prop}

theorem skipN_tm (hC : Cursor B rem P) (s : σ) (hs : P s) (k : Nat) :
    TM rem P (do let (_, s1) ← B.skipN s k; pure s1) (if k ≤ (rem s).length then some k else none) s := by
  by_cases hk : k ≤ (rem s).length
  · obtain ⟨s1, hx, hrem1, hp1⟩ := hC.ok s k hs hk
    simp only [hk, if_true, TM, hx, Out.bind_eq, Out.bind_ok, Out.pure_eq]
    exact ⟨s1, rfl, hrem1, hp1⟩
  · obtain ⟨e, he⟩ := hC.fail s k hs (by omega)
    simp [hk, TM, he]

theorem tpl_string_case (hC : Cursor B rem P) (s : σ) (hs : P s) :
    TM rem P (do
        let (b, s1) ← B.skipN s 4
        let v ← u32of b
        let n := toI32 v
        if n < 0 then .err errNeg else do
        let (_, s2) ← B.skipN s1 n.toNat
        pure s2) (refStr (rem s)) s := by
  simp only [refStr, Out.bind_eq]
  by_cases h4 : 4 ≤ (rem s).length
  · obtain ⟨s1, hx, hrem1, hp1⟩ := hC.ok s 4 hs h4
    have hl4 : 4 ≤ ((rem s).take 4).length := by simp; omega
    simp only [hx, Out.bind_ok, u32of_ok _ hl4, rd32_take _ 4 (by omega) h4, h4, true_and]
    have hlt := rd32_lt (rem s)
    by_cases hn : rd32 (rem s) < 2147483648
    · have hnn : ¬ toI32 (rd32 (rem s)) < 0 := by rw [toI32_neg_iff _ hlt]; simpa using hn
      simp only [hnn, hn, if_false, true_and, toI32_toNat _ hn]
      by_cases hfit : rd32 (rem s) ≤ (rem s1).length
      · obtain ⟨s2, hx2, hrem2, hp2⟩ := hC.ok s1 _ hp1 hfit
        have : 4 + rd32 (rem s) ≤ (rem s).length := by rw [hrem1] at hfit; simp at hfit; omega
        simp only [hx2, Out.bind_ok, this, if_true, TM, Out.pure_eq]
        exact ⟨s2, rfl, by rw [hrem2, hrem1, List.drop_drop], hp2⟩
      · obtain ⟨e, he⟩ := hC.fail s1 (rd32 (rem s)) hp1 (by omega)
        have : ¬ 4 + rd32 (rem s) ≤ (rem s).length := by rw [hrem1] at hfit; simp at hfit; omega
        simp [he, this, TM]
    · have hnn : toI32 (rd32 (rem s)) < 0 := by rw [toI32_neg_iff _ hlt]; exact hn
      simp [hnn, hn, TM]
  · obtain ⟨e, he⟩ := hC.fail s 4 hs (by omega)
    simp [he, h4, TM]

theorem tpl_map_case (hC : Cursor B rem P) (d : Nat)
    (ih : ∀ t s, P s → TM rem P (skipTplAt B d t s) (refTpl d t (rem s)) s) (s : σ) (hs : P s) :
    TM rem P (do
        let (b, s1) ← B.skipN s 6
        let kt ← idx b 0
        let vt ← idx b 1
        let v ← u32of (b.drop 2)
        let n := toI32 v
        if n < 0 then .err errNeg else do
        let ksz ← (.ok ((fixedSize kt : Nat) : Int) : TOut Int)
        let vsz ← (.ok ((fixedSize vt : Nat) : Int) : TOut Int)
        if ksz > 0 ∧ vsz > 0 then do
          let (_, s2) ← B.skipN s1 (n.toNat * (ksz.toNat + vsz.toNat)); pure s2
        else tplMapLoop (skipTplAt B d) kt vt n.toNat s1)
      (mapBody (tplK (refTpl d)) (tplV (refTpl d)) (rem s)) s := by
  simp only [Out.bind_eq, Out.bind_ok, mapBody]
  by_cases h6 : 6 ≤ (rem s).length
  · obtain ⟨s1, hx, hrem1, hp1⟩ := hC.ok s 6 hs h6
    obtain ⟨kt, vt, x0, x1, x2, x3, tl0, hr0⟩ := exists_cons6 (rem s) h6
    obtain ⟨rest, hr, hrest⟩ : ∃ rest, rem s = kt :: vt :: rest ∧ 4 ≤ rest.length :=
      ⟨x0 :: x1 :: x2 :: x3 :: tl0, hr0, by simp⟩
    clear hr0
    simp only [hr]
    rw [hr] at hx hrem1
    simp only [hx, Out.bind_ok, hrest, true_and]
    have e0 : idx (List.take 6 (kt :: vt :: rest)) 0 = .ok kt := by simp [idx]
    have e1 : idx (List.take 6 (kt :: vt :: rest)) 1 = .ok vt := by simp [idx]
    have e2 : u32of (List.drop 2 (List.take 6 (kt :: vt :: rest))) = .ok (rd32 rest) := by
      have : List.drop 2 (List.take 6 (kt :: vt :: rest)) = List.take 4 rest := by simp
      rw [this, u32of_ok _ (by simp; omega), rd32_take rest 4 (by omega) hrest]
    simp only [e0, e1, e2, Out.bind_ok]
    have hlt := rd32_lt rest
    generalize rd32 rest = N at hlt ⊢
    have hrem1' : rem s1 = List.drop 4 rest := by simpa using hrem1
    have hdrop : ∀ X, List.drop X (List.drop 4 rest) = List.drop (6 + X) (rem s) := by
      intro X; rw [hr, List.drop_drop, Nat.add_comm 6, Nat.add_comm 4]; rfl
    generalize List.drop 4 rest = tl at hrem1' hdrop ⊢
    by_cases hn : N < 2147483648
    · have hnn : ¬ toI32 N < 0 := by rw [toI32_neg_iff _ hlt]; simpa using hn
      simp only [hnn, hn, if_true, if_false, toI32_toNat _ hn]
      by_cases hfast : ((fixedSize kt : Nat) : Int) > 0 ∧ ((fixedSize vt : Nat) : Int) > 0
      · have hk : 0 < fixedSize kt := by omega
        have hv : 0 < fixedSize vt := by omega
        simp only [hfast, and_self, if_true, Int.toNat_natCast]
        have hK : tplK (refTpl d) kt vt = fixedFn kt := by unfold tplK; simp [hk, hv]
        have hV : tplV (refTpl d) kt vt = fixedFn vt := by unfold tplV; simp [hk, hv]
        rw [hK, hV, refKV_fixed (fixedSize kt) (fixedSize vt) hk hv (fixedFn kt) (fixedFn vt)
          (fun _ => rfl) (fun _ => rfl)]
        have h1 := skipN_tm hC s1 hp1 (N * (fixedSize kt + fixedSize vt))
        rw [hrem1'] at h1
        unfold TM at h1 ⊢
        by_cases hfit : N * (fixedSize kt + fixedSize vt) ≤ tl.length
        · simp only [hfit, if_true, Option.map_some] at h1 ⊢
          obtain ⟨s2, hx2, hrem2, hp2⟩ := h1
          refine ⟨s2, hx2, ?_, hp2⟩
          rw [hrem2, hrem1', hdrop]
        · simp only [hfit, if_false, Option.map_none] at h1 ⊢
          exact h1
      · simp only [hfast, if_false]
        have hK : tplK (refTpl d) kt vt = refTpl d kt := by
          unfold tplK; split
          · rename_i hc; exfalso; apply hfast; omega
          · rfl
        have hV : tplV (refTpl d) kt vt = refTpl d vt := by
          unfold tplV; split
          · rename_i hc; exfalso; apply hfast; omega
          · rfl
        rw [hK, hV]
        have h1 := tplMapLoop_tm (f := refTpl d) kt vt (fun s hs => ih kt s hs) (fun s hs => ih vt s hs) N s1 hp1
        unfold TM at h1 ⊢
        rw [hrem1'] at h1
        cases hrr : refKV (refTpl d kt) (refTpl d vt) N tl with
        | none => rw [hrr] at h1; simpa using h1
        | some r =>
          rw [hrr] at h1
          obtain ⟨s2, hx2, hrem2, hp2⟩ := h1
          simp only [Option.map_some]
          refine ⟨s2, hx2, ?_, hp2⟩
          rw [hrem2, hdrop]
    · have hnn : toI32 N < 0 := by rw [toI32_neg_iff _ hlt]; exact hn
      simp [hnn, hn, TM]
  · obtain ⟨e, he⟩ := hC.fail s 6 hs (by omega)
    simp only [he, Out.bind_err]
    unfold TM
    match hr : rem s with
    | [] => exact ⟨e, rfl⟩
    | [_] => exact ⟨e, rfl⟩
    | kt :: vt :: rest =>
      have : ¬ 4 ≤ rest.length := by rw [hr] at h6; simp at h6; omega
      simp only [this, false_and, if_false]
      exact ⟨e, rfl⟩

theorem tpl_list_case (hC : Cursor B rem P) (d : Nat)
    (ih : ∀ t s, P s → TM rem P (skipTplAt B d t s) (refTpl d t (rem s)) s) (s : σ) (hs : P s) :
    TM rem P (do
        let (b, s1) ← B.skipN s 5
        let vt ← idx b 0
        let v ← u32of (b.drop 1)
        let n := toI32 v
        if n < 0 then .err errNeg else do
        let vsz ← (.ok ((fixedSize vt : Nat) : Int) : TOut Int)
        if vsz > 0 then do
          let (_, s2) ← B.skipN s1 (n.toNat * vsz.toNat); pure s2
        else tplListLoop (skipTplAt B d) vt n.toNat s1)
      (listBody (gFix (refTpl d)) (rem s)) s := by
  simp only [Out.bind_eq, Out.bind_ok, listBody]
  by_cases h5 : 5 ≤ (rem s).length
  · obtain ⟨s1, hx, hrem1, hp1⟩ := hC.ok s 5 hs h5
    obtain ⟨et, x0, x1, x2, x3, tl0, hr0⟩ := exists_cons5 (rem s) h5
    obtain ⟨rest, hr, hrest⟩ : ∃ rest, rem s = et :: rest ∧ 4 ≤ rest.length :=
      ⟨x0 :: x1 :: x2 :: x3 :: tl0, hr0, by simp⟩
    clear hr0
    simp only [hr]
    rw [hr] at hx hrem1
    simp only [hx, Out.bind_ok, hrest, true_and]
    have e0 : idx (List.take 5 (et :: rest)) 0 = .ok et := by simp [idx]
    have e2 : u32of (List.drop 1 (List.take 5 (et :: rest))) = .ok (rd32 rest) := by
      have : List.drop 1 (List.take 5 (et :: rest)) = List.take 4 rest := by simp
      rw [this, u32of_ok _ (by simp; omega), rd32_take rest 4 (by omega) hrest]
    simp only [e0, e2, Out.bind_ok]
    have hlt := rd32_lt rest
    generalize rd32 rest = N at hlt ⊢
    have hrem1' : rem s1 = List.drop 4 rest := by simpa using hrem1
    have hdrop : ∀ X, List.drop X (List.drop 4 rest) = List.drop (5 + X) (rem s) := by
      intro X; rw [hr, List.drop_drop, Nat.add_comm 5, Nat.add_comm 4]; rfl
    generalize List.drop 4 rest = tl at hrem1' hdrop ⊢
    by_cases hn : N < 2147483648
    · have hnn : ¬ toI32 N < 0 := by rw [toI32_neg_iff _ hlt]; simpa using hn
      simp only [hnn, hn, if_true, if_false, toI32_toNat _ hn]
      by_cases hfast : ((fixedSize et : Nat) : Int) > 0
      · have hv : 0 < fixedSize et := by omega
        simp only [hfast, if_true, Int.toNat_natCast]
        have hL : gFix (refTpl d) et = fixedFn et := by funext b; unfold gFix; simp [hv]
        rw [hL, refN_fixed (fixedSize et) hv (fixedFn et) (fun _ => rfl)]
        have h1 := skipN_tm hC s1 hp1 (N * fixedSize et)
        rw [hrem1'] at h1
        unfold TM at h1 ⊢
        by_cases hfit : N * fixedSize et ≤ tl.length
        · simp only [hfit, if_true, Option.map_some] at h1 ⊢
          obtain ⟨s2, hx2, hrem2, hp2⟩ := h1
          refine ⟨s2, hx2, ?_, hp2⟩
          rw [hrem2, hrem1', hdrop]
        · simp only [hfit, if_false, Option.map_none] at h1 ⊢
          exact h1
      · simp only [hfast, if_false]
        have hL : gFix (refTpl d) et = refTpl d et := by
          funext b; unfold gFix
          have : ¬ fixedSize et > 0 := by omega
          simp [this]
        rw [hL]
        have h1 := tplListLoop_tm (f := refTpl d) et (fun s hs => ih et s hs) N s1 hp1
        unfold TM at h1 ⊢
        rw [hrem1'] at h1
        cases hrr : refN (refTpl d et) N tl with
        | none => rw [hrr] at h1; simpa using h1
        | some r =>
          rw [hrr] at h1
          obtain ⟨s2, hx2, hrem2, hp2⟩ := h1
          simp only [Option.map_some]
          refine ⟨s2, hx2, ?_, hp2⟩
          rw [hrem2, hdrop]
    · have hnn : toI32 N < 0 := by rw [toI32_neg_iff _ hlt]; exact hn
      simp [hnn, hn, TM]
  · obtain ⟨e, he⟩ := hC.fail s 5 hs (by omega)
    simp only [he, Out.bind_err]
    unfold TM
    match hr : rem s with
    | [] => exact ⟨e, rfl⟩
    | et :: rest =>
      have : ¬ 4 ≤ rest.length := by rw [hr] at h5; simp at h5; omega
      simp only [this, false_and, if_false]
      exact ⟨e, rfl⟩

theorem skipTplAt_tm (hC : Cursor B rem P) :
    ∀ d t s, P s → TM rem P (skipTplAt B d t s) (refTpl d t (rem s)) s := by
  intro d
  induction d with
  | zero => intro t s _; simp [skipTplAt, refTpl, TM]
  | succ d ih =>
    intro t s hs
    have hG := refTpl_good d
    simp only [skipTplAt, refTpl, typeSize_eq, Out.bind_eq, Out.bind_ok]
    unfold layerG
    by_cases hf : 0 < fixedSize t
    · have : ((fixedSize t : Nat) : Int) > 0 := by omega
      simp only [this, hf, if_true, Int.toNat_natCast]
      exact skipN_tm hC s hs (fixedSize t)
    · have h0 : fixedSize t = 0 := by omega
      simp only [h0, Int.natCast_zero, gt_iff_lt, Int.lt_irrefl, Nat.lt_irrefl, if_false,
        T_STRING_eq, T_MAP_eq, T_LIST_eq, T_SET_eq, T_STRUCT_eq]
      by_cases hstr : t = TT.STRING
      · simp only [hstr, if_true, refStr]
        have := tpl_string_case hC s hs
        simpa [refStr] using this
      · simp only [hstr, if_false]
        by_cases hst : t = TT.STRUCT
        · simp only [hst, if_true]
          have hav := hC.avail s hs
          have := tplStructLoop_tm hC hG (fun t s hs => ih t s hs) (B.avail s + 1) s hs (by omega)
          rw [refFields_fuel_eq hG (rem s) (B.avail s + 1) ((rem s).length + 1) (by omega) (by omega)] at this
          exact this
        · simp only [hst, if_false]
          by_cases hm : t = TT.MAP
          · subst hm
            simp only [show ¬ (TT.MAP = TT.LIST ∨ TT.MAP = TT.SET) by decide,
              show ¬ (TT.MAP = TT.SET ∨ TT.MAP = TT.LIST) by decide, if_true, if_false]
            have := tpl_map_case hC d ih s hs
            simpa using this
          · simp only [hm, if_false]
            by_cases hl : t = TT.LIST ∨ t = TT.SET
            · have hl' : t = TT.SET ∨ t = TT.LIST := hl.symm
              simp only [hl, hl', if_true]
              have := tpl_list_case hC d ih s hs
              simpa using this
            · have hl' : ¬ (t = TT.SET ∨ t = TT.LIST) := fun h => hl h.symm
              simp [hl, hl', TM]
end

end Verif

/-
  Lemmas/SkipTplB: `skipTplAt_tm` (Lemmas/SkipTpl.lean) for back ends that are cursors only for requests
  up to a bound (a bufiox reader is specified for requests below 2^62 only).

  SkipDecoderTpl.Skip never asks its back end for more than 2^31 · 16 bytes at once (a size field is
  an int32, a fixed element has at most 8 bytes): `skipTplAt_congr` — two back ends that agree on all
  requests `k ≤ tplReq` give the same `skipTplAt`.  Hence a bounded cursor suffices.
-/
import Verif.Lemmas.SkipTpl
namespace Verif

/-- 2^31 · 16: the largest request SkipDecoderTpl.Skip can make -/
def tplReq : Nat := 34359738368

theorem u32of_lt {b : Bytes} {v : Nat} (h : u32of b = .ok v) : v < 4294967296 := by
  unfold u32of at h
  split at h
  · cases h; exact rd32_lt b
  · cases h

theorem toI32_toNat_lt (v : Nat) (h : v < 4294967296) : (toI32 v).toNat < 2147483648 := by
  unfold toI32; split <;> omega

theorem mul_le_tplReq (n a b : Nat) (hn : n < 2147483648) (ha : a ≤ 8) (hb : b ≤ 8) :
    n * (a + b) ≤ tplReq := by
  have := Nat.mul_le_mul (Nat.le_of_lt hn) (show a + b ≤ 16 by omega)
  unfold tplReq; omega

section
variable {σ : Type} {B B' : Backend σ}

theorem tplStructLoop_congr (heq : ∀ s k, k ≤ tplReq → B'.skipN s k = B.skipN s k)
    (rec : UInt8 → σ → TOut σ) : ∀ fuel s, tplStructLoop B' rec fuel s = tplStructLoop B rec fuel s := by
  intro fuel
  induction fuel with
  | zero => intro s; rfl
  | succ fuel ih =>
    intro s
    simp only [tplStructLoop, heq _ 1 (by decide), heq _ 2 (by decide), ih]

theorem skipTplAt_congr (heq : ∀ s k, k ≤ tplReq → B'.skipN s k = B.skipN s k)
    (hav : ∀ s, B'.avail s = B.avail s) :
    ∀ d t s, skipTplAt B' d t s = skipTplAt B d t s := by
  intro d
  induction d with
  | zero => intro t s; rfl
  | succ d ih =>
    intro t s
    have hrec : skipTplAt B' d = skipTplAt B d := by funext t s; exact ih t s
    simp only [skipTplAt, hrec, typeSize_eq, Out.bind_eq, Out.bind_ok, hav,
      tplStructLoop_congr heq, Int.toNat_natCast]
    have h8 : ∀ t', fixedSize t' ≤ tplReq := fun t' => by
      have := fixedSize_le t'; unfold tplReq; omega
    split
    · rw [heq _ _ (h8 t)]
    · split
      · -- STRING
        rw [heq _ 4 (by decide)]
        cases hB : B.skipN s 4 with
        | ok p =>
          simp only [Out.bind_ok]
          cases hu : u32of p.1 with
          | ok v =>
            simp only [Out.bind_ok]
            split
            · rfl
            · rw [heq _ _ (by have := toI32_toNat_lt v (u32of_lt hu); unfold tplReq; omega)]
          | err e => rfl
          | panic w => rfl
          | oob => rfl
        | err e => rfl
        | panic w => rfl
        | oob => rfl
      · split
        · rfl
        · split
          · -- MAP
            rw [heq _ 6 (by decide)]
            cases hB : B.skipN s 6 with
            | ok p =>
              simp only [Out.bind_ok]
              cases h0 : idx p.1 0 with
              | ok kt =>
                simp only [Out.bind_ok]
                cases h1 : idx p.1 1 with
                | ok vt =>
                  simp only [Out.bind_ok]
                  cases hu : u32of (List.drop 2 p.1) with
                  | ok v =>
                    simp only [Out.bind_ok]
                    split
                    · rfl
                    · split
                      · rw [heq _ _ (mul_le_tplReq _ _ _ (toI32_toNat_lt v (u32of_lt hu))
                          (fixedSize_le kt) (fixedSize_le vt))]
                      · rfl
                  | err e => rfl
                  | panic w => rfl
                  | oob => rfl
                | err e => rfl
                | panic w => rfl
                | oob => rfl
              | err e => rfl
              | panic w => rfl
              | oob => rfl
            | err e => rfl
            | panic w => rfl
            | oob => rfl
          · split
            · -- SET / LIST
              rw [heq _ 5 (by decide)]
              cases hB : B.skipN s 5 with
              | ok p =>
                simp only [Out.bind_ok]
                cases h0 : idx p.1 0 with
                | ok vt =>
                  simp only [Out.bind_ok]
                  cases hu : u32of (List.drop 1 p.1) with
                  | ok v =>
                    simp only [Out.bind_ok]
                    split
                    · rfl
                    · split
                      · have := mul_le_tplReq _ _ 0 (toI32_toNat_lt v (u32of_lt hu)) (fixedSize_le vt)
                          (by omega)
                        rw [heq _ _ (by simpa using this)]
                      · rfl
                  | err e => rfl
                  | panic w => rfl
                  | oob => rfl
                | err e => rfl
                | panic w => rfl
                | oob => rfl
              | err e => rfl
              | panic w => rfl
              | oob => rfl
            · rfl
end

/-- a back end that is a cursor over `rem s` for all requests up to `bound` -/
structure CursorB {σ : Type} (B : Backend σ) (rem : σ → Bytes) (P : σ → Prop) (bound : Nat) : Prop where
  ok : ∀ s k, P s → k ≤ (rem s).length → k ≤ bound →
    ∃ s', B.skipN s k = .ok ((rem s).take k, s') ∧ rem s' = (rem s).drop k ∧ P s'
  fail : ∀ s k, P s → k > (rem s).length → k ≤ bound → ∃ e, B.skipN s k = .err e
  avail : ∀ s, P s → (rem s).length ≤ B.avail s

/-- the back end with every request above `bound` refused (never reached by SkipDecoderTpl.Skip) -/
def clampB {σ : Type} (B : Backend σ) (bound : Nat) : Backend σ where
  skipN s k := if k ≤ bound then B.skipN s k else .err errShort
  avail := B.avail

theorem clampB_cursor {σ : Type} {B : Backend σ} {rem : σ → Bytes} {P : σ → Prop} {bound : Nat}
    (hC : CursorB B rem P bound) (hlen : ∀ s, P s → (rem s).length ≤ bound) :
    Cursor (clampB B bound) rem P := by
  refine ⟨?_, ?_, hC.avail⟩
  · intro s k hp hk
    have hkb : k ≤ bound := Nat.le_trans hk (hlen s hp)
    obtain ⟨s', h1, h2, h3⟩ := hC.ok s k hp hk hkb
    exact ⟨s', by simp [clampB, hkb, h1], h2, h3⟩
  · intro s k hp hk
    by_cases hkb : k ≤ bound
    · obtain ⟨e, he⟩ := hC.fail s k hp hk hkb
      exact ⟨e, by simp [clampB, hkb, he]⟩
    · exact ⟨errShort, by simp [clampB, hkb]⟩

/-- SkipDecoderTpl.Skip over a bounded cursor agrees exactly with refTpl -/
theorem skipTplAt_tmB {σ : Type} {B : Backend σ} {rem : σ → Bytes} {P : σ → Prop} {bound : Nat}
    (hC : CursorB B rem P bound) (hlen : ∀ s, P s → (rem s).length ≤ bound) (hb : tplReq ≤ bound) :
    ∀ d t s, P s → TM rem P (skipTplAt B d t s) (refTpl d t (rem s)) s := by
  intro d t s hp
  have h := skipTplAt_tm (clampB_cursor hC hlen) d t s hp
  rw [skipTplAt_congr (B' := clampB B bound) (B := B)
    (fun s k hk => by simp [clampB, Nat.le_trans hk hb]) (fun _ => rfl)] at h
  exact h

end Verif

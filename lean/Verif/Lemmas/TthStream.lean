/-
  Lemmas/TthStream: Decode over ANY reader that keeps the bufiox.Reader contract (a cursor over the
  remaining stream) — the layering step: codecs are proved against the abstract contract, the
  DefaultReader is proved to refine it elsewhere (C04).
-/
import Verif.Lemmas.TthDecode
namespace Verif.TTH

/-- the bufiox.Reader contract as far as Decode uses it: a cursor over the remaining stream.
    `Next(n)` either returns exactly the next n bytes and advances by n, or fails with a non-nil error
    and leaves the position alone (C04 proves this of the DefaultReader for every source script). -/
structure ReaderOK {σ : Type} (next : σ → Int → RdRes × σ) (rem : σ → Bytes) (pos : σ → Nat) : Prop where
  ok : ∀ (s : σ) (n : Nat) (bs : Bytes), (next s n).1 = .ok bs →
    n ≤ (rem s).length ∧ bs = (rem s).take n ∧ rem (next s n).2 = (rem s).drop n ∧ pos (next s n).2 = pos s + n
  fail : ∀ (s : σ) (n : Nat) (e : Option RErr), (next s n).1 = .fail e → e ≠ none ∧ pos (next s n).2 = pos s
  fuel : ∀ (s : σ) (n : Nat), (next s n).1 ≠ .nofuel

/-- Decode over any reader that keeps the contract: either exactly what Decode over the remaining
    stream gives (same result, same number of bytes consumed), or the reader's own error, having consumed
    no more than that. -/
theorem decodeG_contract {σ : Type} (next : σ → Int → RdRes × σ) (rem : σ → Bytes) (pos : σ → Nat)
    (hc : ReaderOK next rem pos) (s : σ) :
    ((decodeG next s).1 = (decodeCur (rem s)).1 ∧ pos (decodeG next s).2 = pos s + (decodeCur (rem s)).2) ∨
    (∃ e, (decodeG next s).1 = .err (.rd e) ∧ pos (decodeG next s).2 ≤ pos s + (decodeCur (rem s)).2) := by
  unfold decodeG decodeCur
  simp only [decodeG]
  -- first Next
  cases h1 : (next s (Facts.ttMetaSize : Nat)).1 with
  | nofuel => exact absurd h1 (hc.fuel s _)
  | fail e =>
    obtain ⟨hne, hp⟩ := hc.fail s _ e h1
    cases e with
    | none => exact absurd rfl hne
    | some e =>
      right
      refine ⟨e, ?_, ?_⟩
      · simp only [h1, nextBytes, Out.bind_err]
      · simp only [h1, nextBytes, Out.bind_err, hp]; omega
  | ok bs =>
    obtain ⟨hlen, hbs, hrem, hp⟩ := hc.ok s _ bs h1
    have hcur : Cur.next ⟨rem s, 0⟩ (Facts.ttMetaSize : Nat) = (.ok bs, ⟨rem s, Facts.ttMetaSize⟩) := by
      unfold Cur.next
      have h0 : ¬ ((Facts.ttMetaSize : Nat) : Int) < 0 := by omega
      simp only [h0, if_false, Int.toNat_natCast, Nat.sub_zero, hlen, if_true, List.drop_zero, hbs, Nat.zero_add]
    simp only [h1, hcur, nextBytes, Out.bind_ok]
    cases hm : decodeMeta bs with
    | err e => left; simp only [hp]; exact ⟨trivial, trivial⟩
    | panic w => left; simp only [hp]; exact ⟨trivial, trivial⟩
    | oob => left; simp only [hp]; exact ⟨trivial, trivial⟩
    | ok m =>
      simp only
      cases h2 : (next (next s (Facts.ttMetaSize : Nat)).2 (m.size : Nat)).1 with
      | nofuel => exact absurd h2 (hc.fuel _ _)
      | fail e =>
        obtain ⟨hne, hp2⟩ := hc.fail _ _ e h2
        cases e with
        | none => exact absurd rfl hne
        | some e =>
          right
          refine ⟨e, by simp only [nextBytes, Out.bind_err], ?_⟩
          rw [hp2, hp]
          have : (Cur.next ⟨rem s, Facts.ttMetaSize⟩ (m.size : Nat)).2.pos ≥ Facts.ttMetaSize := by
            unfold Cur.next; split
            · exact Nat.le_refl _
            · split
              · simp only; omega
              · exact Nat.le_refl _
          omega
      | ok bs2 =>
        obtain ⟨hlen2, hbs2, _, hp2⟩ := hc.ok _ _ bs2 h2
        rw [hrem] at hlen2 hbs2
        left
        have hcur2 : Cur.next ⟨rem s, Facts.ttMetaSize⟩ (m.size : Nat)
            = (.ok bs2, ⟨rem s, Facts.ttMetaSize + m.size⟩) := by
          unfold Cur.next
          have h0 : ¬ ((m.size : Nat) : Int) < 0 := by omega
          simp only [List.length_drop] at hlen2
          simp only [h0, if_false, Int.toNat_natCast, hlen2, if_true, hbs2]
        simp only [hcur2, nextBytes, Out.bind_ok, hp2, hp]
        exact ⟨trivial, by omega⟩


/-- the plain cursor keeps the contract (so the contract is satisfiable) -/
theorem cur_readerOK : ReaderOK Cur.next (fun c => c.b.drop c.pos) (fun c => c.pos) := by
  refine ⟨?_, ?_, ?_⟩
  · intro s n bs h
    unfold Cur.next at h ⊢
    have h0 : ¬ ((n : Nat) : Int) < 0 := by omega
    simp only [h0, if_false, Int.toNat_natCast] at h ⊢
    by_cases hn : n ≤ s.b.length - s.pos
    · simp only [hn, if_true] at h ⊢
      have hb := RdRes.ok.inj h
      refine ⟨by simp only [List.length_drop]; exact hn, hb.symm, ?_, trivial⟩
      simp only [List.drop_drop]
    · simp only [hn, if_false] at h; cases h
  · intro s n e h
    unfold Cur.next at h ⊢
    have h0 : ¬ ((n : Nat) : Int) < 0 := by omega
    simp only [h0, if_false, Int.toNat_natCast] at h ⊢
    by_cases hn : n ≤ s.b.length - s.pos
    · simp only [hn, if_true] at h; cases h
    · simp only [hn, if_false] at h ⊢
      have := RdRes.fail.inj h
      exact ⟨by rw [← this]; simp, trivial⟩
  · intro s n h
    unfold Cur.next at h
    split at h
    · cases h
    · split at h <;> cases h

end Verif.TTH

/-
  Lemmas/FcReadStructs: FastRead of Base, BaseResp and ApplicationException on a printed field list.
-/
import Verif.Lemmas.FcRead
namespace Verif

theorem encFields_length_ge (l : List Fld) : l.length ≤ (encFields l).length := by
  induction l with
  | nil => simp [encFields]
  | cons f r ih => rw [encFields_cons]; simp [Fld.enc]; omega

theorem u8_eq_iff (t : UInt8) (n : Nat) (hn : n < 256) : t = UInt8.ofNat n ↔ t.toNat = n := by
  constructor
  · intro h; subst h; simp [UInt8.toNat_ofNat']; omega
  · intro h; apply UInt8.toNat_inj.mp; simp [UInt8.toNat_ofNat']; omega

/-! ## Base -/

theorem baseFld_hdr (f : BaseFld) (hf : f.Valid) : f.toFld.id < 65536 ∧ f.toFld.t ≠ 0 := by
  cases f with
  | unknown id t v => exact ⟨hf.1.1, hf.1.2.1⟩
  | _ => simp [BaseFld.toFld, fStr, fMapSS, TT.STRING, TT.MAP]

theorem baseBody_field (p : Base) (f : BaseFld) (pre more : Bytes) (hf : f.Valid) :
    baseBody p (pre ++ f.toFld.val ++ more) pre.length f.toFld.id f.toFld.t
      = .ok ⟨BaseFld.apply p f, pre.length + f.toFld.val.length, none⟩ := by
  cases f with
  | logID s =>
    simp only [BaseFld.toFld, fStr, baseBody, TT.STRING]
    rw [caseIdx_base 1 11 (by omega)]
    simp only [and_self, if_true]
    exact caseStr_enc _ p pre more s _ rfl hf
  | caller s =>
    simp only [BaseFld.toFld, fStr, baseBody, TT.STRING]
    rw [caseIdx_base 2 11 (by omega)]
    simp (config := {decide := true}) only [if_true, if_false]
    exact caseStr_enc _ p pre more s _ rfl hf
  | addr s =>
    simp only [BaseFld.toFld, fStr, baseBody, TT.STRING]
    rw [caseIdx_base 3 11 (by omega)]
    simp (config := {decide := true}) only [if_true, if_false]
    exact caseStr_enc _ p pre more s _ rfl hf
  | extra kvs =>
    simp only [BaseFld.toFld, fMapSS, baseBody, TT.MAP]
    rw [caseIdx_base 6 13 (by omega)]
    simp (config := {decide := true}) only [if_true, if_false]
    exact caseMap_enc _ p pre more kvs _ rfl hf
  | unknown id t v =>
    obtain ⟨⟨hid, ht, hv⟩, hk⟩ := hf
    simp only [BaseFld.toFld, baseBody]
    rw [caseIdx_base id t hid]
    simp only [BaseFld.isKnown, TT.STRING, TT.MAP, not_or] at hk
    rw [if_neg hk.1, if_neg hk.2.1, if_neg hk.2.2.1, if_neg hk.2.2.2]
    exact caseSkip_enc p pre more v t _ rfl hv

theorem fastReadBase_fields (p0 : Base) (fs : List BaseFld) (rest : Bytes) (hv : ∀ f ∈ fs, f.Valid) :
    fastReadBase p0 (encFields (fs.map BaseFld.toFld) ++ 0 :: rest)
      = .ok ⟨p0.assemble fs, (encFields (fs.map BaseFld.toFld)).length + 1, none⟩ := by
  have h := genLoop_fields baseBody BaseFld.apply BaseFld.toFld BaseFld.Valid baseBody_field baseFld_hdr
    fs [] rest p0 ((encFields (fs.map BaseFld.toFld) ++ 0 :: rest).length + 1) hv (by
      have := encFields_length_ge (fs.map BaseFld.toFld)
      simp at this ⊢; omega)
  simpa [fastReadBase, Base.assemble] using h

/-! ## BaseResp -/

theorem respFld_hdr (f : RespFld) (hf : f.Valid) : f.toFld.id < 65536 ∧ f.toFld.t ≠ 0 := by
  cases f with
  | unknown id t v => exact ⟨hf.1.1, hf.1.2.1⟩
  | _ => simp [RespFld.toFld, fStr, fI32, fMapSS, TT.STRING, TT.MAP, TT.I32]

theorem respBody_field (p : BaseResp) (f : RespFld) (pre more : Bytes) (hf : f.Valid) :
    respBody p (pre ++ f.toFld.val ++ more) pre.length f.toFld.id f.toFld.t
      = .ok ⟨RespFld.apply p f, pre.length + f.toFld.val.length, none⟩ := by
  cases f with
  | msg s =>
    simp only [RespFld.toFld, fStr, respBody, TT.STRING]
    rw [caseIdx_resp 1 11 (by omega)]
    simp only [and_self, if_true]
    exact caseStr_enc _ p pre more s _ rfl hf
  | code v =>
    simp only [RespFld.toFld, fI32, respBody, TT.I32]
    rw [caseIdx_resp 2 8 (by omega)]
    simp (config := {decide := true}) only [if_true, if_false]
    exact caseI32_enc _ p pre more v _ rfl hf
  | extra kvs =>
    simp only [RespFld.toFld, fMapSS, respBody, TT.MAP]
    rw [caseIdx_resp 3 13 (by omega)]
    simp (config := {decide := true}) only [if_true, if_false]
    exact caseMap_enc _ p pre more kvs _ rfl hf
  | unknown id t v =>
    obtain ⟨⟨hid, ht, hv⟩, hk⟩ := hf
    simp only [RespFld.toFld, respBody]
    rw [caseIdx_resp id t hid]
    simp only [RespFld.isKnown, TT.STRING, TT.MAP, TT.I32, not_or] at hk
    rw [if_neg hk.1, if_neg hk.2.1, if_neg hk.2.2]
    exact caseSkip_enc p pre more v t _ rfl hv

theorem fastReadBaseResp_fields (p0 : BaseResp) (fs : List RespFld) (rest : Bytes) (hv : ∀ f ∈ fs, f.Valid) :
    fastReadBaseResp p0 (encFields (fs.map RespFld.toFld) ++ 0 :: rest)
      = .ok ⟨p0.assemble fs, (encFields (fs.map RespFld.toFld)).length + 1, none⟩ := by
  have h := genLoop_fields respBody RespFld.apply RespFld.toFld RespFld.Valid respBody_field respFld_hdr
    fs [] rest p0 ((encFields (fs.map RespFld.toFld) ++ 0 :: rest).length + 1) hv (by
      have := encFields_length_ge (fs.map RespFld.toFld)
      simp at this ⊢; omega)
  simpa [fastReadBaseResp, BaseResp.assemble] using h

/-! ## ApplicationException -/

theorem toI16_eq_small (n c : Nat) (hn : n < 65536) (hc : c < 32768) : toI16 n = (c : Int) ↔ n = c := by
  unfold toI16; split <;> omega

theorem exFld_hdr (f : ExFld) (hf : f.Valid) : f.toFld.id < 65536 ∧ f.toFld.t ≠ 0 := by
  cases f with
  | unknown id t v => exact ⟨hf.1.1, hf.1.2.1⟩
  | _ => simp [ExFld.toFld, fStr, fI32, TT.STRING, TT.I32]

/-- the switch conditions regenerated from the source are the IDL's (1, STRING) and (2, I32) -/
theorem appExcReadCases_eq : Facts.appExcReadCases = [(1, 11), (2, 8)] := by decide

theorem toI8_eq_small (t : UInt8) (c : Nat) (hc : c < 128) : toI8 t.toNat = (c : Int) ↔ t = UInt8.ofNat c := by
  rw [u8_eq_iff t c (by omega)]
  have := t.toNat_lt
  unfold toI8; split <;> omega

/-- the hand-written switch of ApplicationException.FastRead with the regenerated conditions spelled out -/
theorem exBody_eq (e : AppEx) (b : Bytes) (off fid : Nat) (ftyp : UInt8) (hf : fid < 65536) :
    exBody e b off fid ftyp =
      if fid = 1 ∧ ftyp = 11 then caseStr (fun e s => { e with msg := s }) e b off
      else if fid = 2 ∧ ftyp = 8 then caseI32 (fun e v => { e with typ := v }) e b off
      else caseSkip e b off ftyp := by
  have h1 := toI16_eq_small fid 1 hf (by omega)
  have h2 := toI16_eq_small fid 2 hf (by omega)
  have t11 := toI8_eq_small ftyp 11 (by omega)
  have t8 := toI8_eq_small ftyp 8 (by omega)
  simp only [exBody, appExcReadCases_eq]
  simp only [show (1 : Int) = ((1 : Nat) : Int) from rfl, show (2 : Int) = ((2 : Nat) : Int) from rfl,
    show (11 : Int) = ((11 : Nat) : Int) from rfl, show (8 : Int) = ((8 : Nat) : Int) from rfl, h1, h2, t11, t8]
  rfl

theorem exBody_field (e : AppEx) (f : ExFld) (pre more : Bytes) (hf : f.Valid) :
    exBody e (pre ++ f.toFld.val ++ more) pre.length f.toFld.id f.toFld.t
      = .ok ⟨ExFld.apply e f, pre.length + f.toFld.val.length, none⟩ := by
  cases f with
  | msg s =>
    simp only [ExFld.toFld, fStr, TT.STRING]
    rw [exBody_eq _ _ _ _ _ (by omega), if_pos (by decide)]
    exact caseStr_enc _ e pre more s _ rfl hf
  | typ v =>
    simp only [ExFld.toFld, fI32, TT.I32]
    rw [exBody_eq _ _ _ _ _ (by omega), if_neg (by decide), if_pos (by decide)]
    exact caseI32_enc _ e pre more v _ rfl hf
  | unknown id t v =>
    obtain ⟨⟨hid, ht, hv⟩, hk⟩ := hf
    simp only [ExFld.toFld]
    simp only [ExFld.isKnown, TT.STRING, TT.I32, not_or] at hk
    rw [exBody_eq _ _ _ _ _ hid, if_neg hk.1, if_neg hk.2]
    exact caseSkip_enc e pre more v t _ rfl hv

theorem exLoop_fields : ∀ (fs : List ExFld) (pre rest : Bytes) (e : AppEx) (fuel : Nat),
    (∀ f ∈ fs, f.Valid) → fs.length < fuel →
    exLoop (pre ++ encFields (fs.map ExFld.toFld) ++ 0 :: rest) fuel e pre.length
      = .ok ⟨fs.foldl ExFld.apply e, pre.length + (encFields (fs.map ExFld.toFld)).length + 1, none⟩
  | [], pre, rest, e, fuel, _, hfuel => by
    obtain ⟨k, rfl⟩ : ∃ k, fuel = k + 1 := ⟨fuel - 1, by simp at hfuel; omega⟩
    simp only [List.map_nil, encFields, List.flatMap_nil, List.append_nil, exLoop, Out.bind_eq, Out.pure_eq]
    rw [sliceFrom_app pre _ _ rfl, Out.bind_ok, readFieldBegin_stop]
    simp
  | f :: fs, pre, rest, e, fuel, hval, hfuel => by
    obtain ⟨k, rfl⟩ : ∃ k, fuel = k + 1 := ⟨fuel - 1, by simp at hfuel; omega⟩
    have hf := hval f List.mem_cons_self
    obtain ⟨hid, ht⟩ := exFld_hdr f hf
    have ih := exLoop_fields fs (pre ++ (ExFld.toFld f).enc) rest (ExFld.apply e f) k
      (fun x hx => hval x (List.mem_cons_of_mem _ hx)) (by simp at hfuel; omega)
    simp only [List.map_cons, encFields_cons, exLoop, Out.bind_eq, Out.pure_eq]
    have e1 : pre ++ ((ExFld.toFld f).enc ++ encFields (fs.map ExFld.toFld)) ++ 0 :: rest
        = pre ++ ((ExFld.toFld f).t :: (be16 (ExFld.toFld f).id ++ ((ExFld.toFld f).val ++
            (encFields (fs.map ExFld.toFld) ++ 0 :: rest)))) := by
      simp [Fld.enc, List.append_assoc]
    rw [e1, sliceFrom_app pre _ _ rfl, Out.bind_ok, readFieldBegin_enc _ _ _ ht hid]
    simp only [T_STOP_eq, if_neg ht]
    have e2 : pre ++ ((ExFld.toFld f).t :: (be16 (ExFld.toFld f).id ++ ((ExFld.toFld f).val ++
            (encFields (fs.map ExFld.toFld) ++ 0 :: rest))))
        = (pre ++ (ExFld.toFld f).t :: be16 (ExFld.toFld f).id) ++ (ExFld.toFld f).val ++
            (encFields (fs.map ExFld.toFld) ++ 0 :: rest) := by
      simp [List.append_assoc]
    have hl : (pre ++ (ExFld.toFld f).t :: be16 (ExFld.toFld f).id).length = pre.length + 3 := by simp
    have hb := exBody_field e f (pre ++ (ExFld.toFld f).t :: be16 (ExFld.toFld f).id)
      (encFields (fs.map ExFld.toFld) ++ 0 :: rest) hf
    rw [hl] at hb
    rw [e2, hb, Out.bind_ok]
    simp only []
    have e3 : (pre ++ (ExFld.toFld f).t :: be16 (ExFld.toFld f).id) ++ (ExFld.toFld f).val ++
          (encFields (fs.map ExFld.toFld) ++ 0 :: rest)
        = pre ++ (ExFld.toFld f).enc ++ encFields (fs.map ExFld.toFld) ++ 0 :: rest := by
      simp [Fld.enc, List.append_assoc]
    have hl2 : (pre ++ (ExFld.toFld f).enc).length = pre.length + 3 + (ExFld.toFld f).val.length := by
      simp [Fld.enc]; omega
    rw [hl2] at ih
    rw [e3, ih]
    simp [Fld.enc]
    omega

theorem fastReadAppEx_fields (e0 : AppEx) (fs : List ExFld) (rest : Bytes) (hv : ∀ f ∈ fs, f.Valid) :
    fastReadAppEx e0 (encFields (fs.map ExFld.toFld) ++ 0 :: rest)
      = .ok ⟨e0.assemble fs, (encFields (fs.map ExFld.toFld)).length + 1, none⟩ := by
  have h := exLoop_fields fs [] rest e0 ((encFields (fs.map ExFld.toFld) ++ 0 :: rest).length + 1) hv (by
      have := encFields_length_ge (fs.map ExFld.toFld)
      simp at this ⊢; omega)
  simpa [fastReadAppEx, AppEx.assemble] using h

/-! ## field order: updates of different fields commute -/

theorem baseFld_apply_comm (x y : BaseFld) (h : x.kind = y.kind → x.kind ≠ 0 → x = y) (z : Base) :
    BaseFld.apply (BaseFld.apply z x) y = BaseFld.apply (BaseFld.apply z y) x := by
  cases x <;> cases y <;> simp [BaseFld.kind] at h <;> simp [BaseFld.apply, h]

theorem respFld_apply_comm (x y : RespFld) (h : x.kind = y.kind → x.kind ≠ 0 → x = y) (z : BaseResp) :
    RespFld.apply (RespFld.apply z x) y = RespFld.apply (RespFld.apply z y) x := by
  cases x <;> cases y <;> simp [RespFld.kind] at h <;> simp [RespFld.apply, h]

theorem exFld_apply_comm (x y : ExFld) (h : x.kind = y.kind → x.kind ≠ 0 → x = y) (z : AppEx) :
    ExFld.apply (ExFld.apply z x) y = ExFld.apply (ExFld.apply z y) x := by
  cases x <;> cases y <;> simp [ExFld.kind] at h <;> simp [ExFld.apply, h]

end Verif

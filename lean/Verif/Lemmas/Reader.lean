/-
  Lemmas/Reader: the reader model (Model/Reader), part 1:
  the capacity loops, the scripted source, the invariant `Inv`, `prepare`, and the read loop
  (frame/outcome, termination within the given fuel).
-/
import Verif.Lemmas.ReaderStep
namespace Verif

/-! ## the doubling loops never run out of their fuel below 2^64 -/

/-- 2^64: capacities stay at or below it -/
notation "capMax" => (18446744073709551616 : Nat)
/-- 2^63: `n + ri` of a request stays at or below it (a Go `int` cannot say more) -/
notation "reqMax" => (9223372036854775808 : Nat)

theorem two_pow_64 : (2:Nat)^64 = capMax := by decide

theorem doubleUntil_spec (fuel c n : Nat) (hc : 0 < c) (hf : n ≤ c * 2^fuel) :
    n ≤ doubleUntil fuel c n ∧ c ≤ doubleUntil fuel c n ∧
    (doubleUntil fuel c n = c ∨ doubleUntil fuel c n < 2 * n) := by
  induction fuel generalizing c with
  | zero => simp [doubleUntil] at *; omega
  | succ f ih =>
    unfold doubleUntil
    split
    · rename_i hlt
      have h2 : n ≤ (c * 2) * 2^f := by rw [Nat.pow_succ] at hf; rw [Nat.mul_assoc, Nat.mul_comm 2]; exact hf
      have := ih (c * 2) (by omega) h2
      omega
    · omega

/-- a doubling loop started at `c` with `c * 2^j = B` never passes `B` when the target is `≤ B` -/
theorem doubleUntil_le (fuel c n j B : Nat) (hB : c * 2^j = B) (hn : n ≤ B) :
    doubleUntil fuel c n ≤ B := by
  induction fuel generalizing c j with
  | zero =>
    simp [doubleUntil]
    have : 0 < 2^j := Nat.two_pow_pos j
    calc c = c * 1 := by omega
      _ ≤ c * 2^j := Nat.mul_le_mul_left c this
      _ = B := hB
  | succ f ih =>
    have hcB : c ≤ B := by
      have : 0 < 2^j := Nat.two_pow_pos j
      calc c = c * 1 := by omega
        _ ≤ c * 2^j := Nat.mul_le_mul_left c this
        _ = B := hB
    unfold doubleUntil
    split
    · rename_i hlt
      cases j with
      | zero => simp at hB; omega
      | succ j' =>
        apply ih (c * 2) j'
        rw [Nat.pow_succ] at hB; rw [Nat.mul_assoc, Nat.mul_comm 2]; exact hB
    · exact hcB

theorem pow2ceilAux_eq (fuel c n : Nat) : pow2ceilAux fuel c n = doubleUntil fuel c n := by
  induction fuel generalizing c with
  | zero => rfl
  | succ f ih =>
    unfold pow2ceilAux doubleUntil
    by_cases h : c < n
    · have : ¬ c ≥ n := by omega
      simp [h, this, ih]
    · have : c ≥ n := by omega
      simp [h, this]

theorem growCap_eq (fuel c ri n : Nat) (hn : 0 < n) :
    growCap fuel c ri n = doubleUntil fuel c (n + ri) := by
  induction fuel generalizing c with
  | zero => rfl
  | succ f ih =>
    unfold growCap doubleUntil
    by_cases h : c - ri < n
    · have : c < n + ri := by omega
      simp [h, this, ih]
    · have : ¬ c < n + ri := by omega
      simp [h, this]

/-- mcache's capacity rounding: at least the request, at most 2^64 when the request is -/
theorem pow2ceil_spec (x : Nat) (hx : x ≤ capMax) :
    x ≤ pow2ceil x ∧ 0 < pow2ceil x ∧ pow2ceil x ≤ capMax := by
  unfold pow2ceil; rw [pow2ceilAux_eq]
  have h1 := doubleUntil_spec 64 1 x (by omega) (by rw [two_pow_64]; omega)
  have h2 := doubleUntil_le 64 1 x 64 capMax (by rw [two_pow_64]) hx
  omega

theorem pow2ceil_pos (x : Nat) : 0 < pow2ceil x := by
  unfold pow2ceil; rw [pow2ceilAux_eq]
  have : ∀ fuel c n, 0 < c → 0 < doubleUntil fuel c n := by
    intro fuel; induction fuel with
    | zero => intro c n hc; simpa [doubleUntil] using hc
    | succ f ih =>
      intro c n hc; unfold doubleUntil; split
      · exact ih _ _ (by omega)
      · exact hc
  exact this _ _ _ (by omega)

theorem statsMax_le (l : List Nat) (B : Nat) (h : ∀ s ∈ l, s ≤ B) : statsMax l ≤ B := by
  unfold statsMax
  have : ∀ (l : List Nat) (a : Nat), a ≤ B → (∀ s ∈ l, s ≤ B) → l.foldl max a ≤ B := by
    intro l; induction l with
    | nil => intro a ha _; simpa using ha
    | cons x xs ih =>
      intro a ha hl
      simp only [List.foldl_cons]
      apply ih
      · have := hl x (by simp); omega
      · intro s hs; exact hl s (by simp [hs])
  exact this l 0 (by omega) h

/-! ## the scripted source -/

theorem Src.read_stream (s : Src) (room : Nat) :
    (s.read room).1 ++ (s.read room).2.2.stream = s.stream := by
  unfold Src.read; split <;> simp

theorem Src.read_len (s : Src) (room : Nat) : (s.read room).1.length ≤ room := by
  unfold Src.read; split <;> simp; omega

theorem Src.read_nil (s : Src) (room : Nat) (h : s.script = []) :
    s.read room = ([], some .eof, s) := by
  unfold Src.read; rw [h]

theorem Src.read_cons (s : Src) (room : Nat) (r : Resp) (rest : List Resp) (h : s.script = r :: rest) :
    s.read room = (s.stream.take (min (min r.k room) s.stream.length), r.err,
      { stream := s.stream.drop (min (min r.k room) s.stream.length), script := rest }) := by
  unfold Src.read; rw [h]

/-! ## the invariant -/

/-- `ri ≤ len ≤ cap ≤ 2^64`, recorded capacities `≤ 2^64`.  (`len ≤ cap` is what makes every Go
    slice expression of the reader in range: `buf[ri:ri+n]`, `buf[len:cap]`, `buf[:len+m]`.) -/
structure Inv (r : Rd) : Prop where
  ri_le : r.ri ≤ r.buf.length
  len_le : r.buf.length ≤ r.cap
  cap_le : r.cap ≤ capMax
  stats_le : ∀ s ∈ r.stats, s ≤ capMax

theorem Inv.cap_zero {r : Rd} (h : Inv r) (hc : r.cap = 0) : r.ri = 0 ∧ r.buf = [] := by
  have h1 := h.ri_le; have h2 := h.len_le
  constructor
  · omega
  · apply List.eq_nil_of_length_eq_zero; omega

theorem inv_newDefault (src : Src) : Inv (Rd.newDefault src) := by
  constructor <;> simp [Rd.newDefault]

theorem inv_newBytes (data : Bytes) (cap : Nat) (h : data.length ≤ cap) (hc : cap ≤ capMax) :
    Inv (Rd.newBytes data cap) := by
  unfold Rd.newBytes
  split
  · constructor <;> simp
    · exact h
    · exact hc
  · exact inv_newDefault _

/-! ## prepare: allocate / grow.  Content, cursor, error and source are untouched; afterwards the
    request fits: `n ≤ cap - ri` -/

structure PrepPost (r : Rd) (n : Nat) (r1 : Rd) : Prop where
  buf : r1.buf = r.buf
  ri : r1.ri = r.ri
  err : r1.err = r.err
  src : r1.src = r.src
  stats : r1.stats = r.stats
  statsIdx : r1.statsIdx = r.statsIdx
  fits : n ≤ r1.cap - r1.ri
  cap_pos : 0 < r1.cap
  cap_le : r1.cap ≤ capMax
  len_le : r1.buf.length ≤ r1.cap

theorem prepare_spec (r : Rd) (n : Nat) (h : Inv r) (hn : n + r.ri ≤ reqMax) :
    PrepPost r n (r.prepare n) := by
  have hri := h.ri_le; have hlen := h.len_le; have hcap := h.cap_le
  by_cases hc : r.cap = 0
  · -- first allocation
    obtain ⟨hri0, hbuf⟩ := h.cap_zero hc
    have hm0 := statsMax_le r.stats capMax h.stats_le
    generalize hm1 : (if statsMax r.stats < Facts.defaultBufSize then Facts.defaultBufSize
      else statsMax r.stats) = m1
    have hm1pos : 0 < m1 := by
      subst hm1; split <;> simp [Facts.defaultBufSize] at * <;> omega
    have hm1le : m1 ≤ capMax := by
      subst hm1; split <;> simp [Facts.defaultBufSize] at * <;> omega
    have hd := doubleUntil_spec 64 m1 n hm1pos (by
      rw [two_pow_64]
      calc n ≤ 1 * capMax := by omega
        _ ≤ m1 * capMax := Nat.mul_le_mul_right _ hm1pos)
    generalize hm2 : doubleUntil 64 m1 n = m2 at hd
    have hm2le : m2 ≤ capMax := by omega
    have hp := pow2ceil_spec m2 hm2le
    have hnogrow : ¬ (n > pow2ceil m2 - r.ri) := by omega
    unfold Rd.prepare
    simp only [hc, if_true, hm1, hm2, hnogrow, if_false]
    constructor <;> simp [hbuf, hri0] <;> omega
  · by_cases hg : n > r.cap - r.ri
    · -- growth
      have hnpos : 0 < n := by omega
      have hd := doubleUntil_spec 64 (r.cap * 2) (n + r.ri) (by omega) (by
        rw [two_pow_64]
        calc n + r.ri ≤ 1 * capMax := by omega
          _ ≤ (r.cap * 2) * capMax := Nat.mul_le_mul_right _ (by omega))
      generalize hnc : doubleUntil 64 (r.cap * 2) (n + r.ri) = ncap at hd
      have hncle : ncap ≤ capMax := by omega
      have hp := pow2ceil_spec ncap hncle
      unfold Rd.prepare
      simp only [hc, if_false, hg, if_true, growCap_eq _ _ _ _ hnpos, hnc]
      constructor <;> simp <;> omega
    · unfold Rd.prepare
      simp only [hc, if_false, hg]
      constructor <;> first | rfl | omega

/-! ## the read loop: what it leaves behind -/

/-- postcondition of the read loop / of acquire: only bytes taken from the front of the source
    stream were appended to the buffer; the cursor, capacity and statistics are untouched; the count
    `m` is `n` with at least `n` bytes buffered, or else everything buffered with a NON-NIL error -/
structure LoopPost (r : Rd) (n m : Nat) (r' : Rd) : Prop where
  data : ∃ d, r'.buf = r.buf ++ d ∧ r.src.stream = d ++ r'.src.stream
  ri : r'.ri = r.ri
  cap : r'.cap = r.cap
  readOnly : r'.readOnly = r.readOnly
  stats : r'.stats = r.stats
  statsIdx : r'.statsIdx = r.statsIdx
  outcome : (m = n ∧ n ≤ r'.buf.length - r'.ri ∧ r'.err = r.err) ∨
            (m = r'.buf.length - r'.ri ∧ r'.err ≠ none)
  len_le : r.buf.length ≤ r.cap → r'.buf.length ≤ r'.cap

/-- one scripted `Read` in front of a loop postcondition -/
theorem LoopPost.after_read {r r' : Rd} {n m : Nat} (room : Nat) (hroom : room = r.cap - r.buf.length)
    (h : LoopPost { r with buf := r.buf ++ (r.src.read room).1, src := (r.src.read room).2.2 } n m r') :
    LoopPost r n m r' := by
  obtain ⟨d, hd1, hd2⟩ := h.data
  have hs := Src.read_stream r.src room
  have hl := Src.read_len r.src room
  refine ⟨⟨(r.src.read room).1 ++ d, ?_, ?_⟩, h.ri, h.cap, h.readOnly, h.stats, h.statsIdx, ?_, ?_⟩
  · simpa [List.append_assoc] using hd1
  · simp only [] at hd2; rw [← hs, hd2, List.append_assoc]
  · simpa using h.outcome
  · intro hle
    apply h.len_le
    simp only [List.length_append]; omega

theorem readLoop_post (fuel i : Nat) (r : Rd) (n m : Nat) (r' : Rd)
    (h : Rd.readLoop fuel i r n = some (m, r')) : LoopPost r n m r' := by
  induction fuel generalizing i r with
  | zero => simp [Rd.readLoop] at h
  | succ f ih =>
    unfold Rd.readLoop at h
    split at h
    · -- too many consecutive empty reads
      simp only [Option.some.injEq, Prod.mk.injEq] at h
      obtain ⟨hm, hr⟩ := h
      subst hr hm
      exact ⟨⟨[], by simp, by simp⟩, rfl, rfl, rfl, rfl, rfl, Or.inr ⟨rfl, by simp⟩, fun h => h⟩
    · simp only [] at h
      have hl := Src.read_len r.src (r.cap - r.buf.length)
      split at h
      · -- the source returned an error (possibly with data)
        simp only [Option.some.injEq, Prod.mk.injEq] at h
        obtain ⟨hm, hr⟩ := h
        subst hr hm
        apply LoopPost.after_read (r.cap - r.buf.length) rfl
        exact ⟨⟨[], by simp, by simp⟩, rfl, rfl, rfl, rfl, rfl, Or.inr ⟨rfl, by simp⟩, fun h => h⟩
      · split at h
        · -- satisfied
          simp only [Option.some.injEq, Prod.mk.injEq] at h
          obtain ⟨hm, hr⟩ := h
          subst hr hm
          apply LoopPost.after_read (r.cap - r.buf.length) rfl
          rename_i hn
          exact ⟨⟨[], by simp, by simp⟩, rfl, rfl, rfl, rfl, rfl, Or.inl ⟨rfl, hn, rfl⟩, fun h => h⟩
        · split at h
          · exact LoopPost.after_read (r.cap - r.buf.length) rfl (ih _ _ h)
          · exact LoopPost.after_read (r.cap - r.buf.length) rfl (ih _ _ h)

/-! ## the read loop terminates within the fuel acquireSlow gives it
    (`maxConsecutiveEmptyReads` empty reads per byte of room, plus one round) -/

theorem readLoop_fuel (fuel i : Nat) (r : Rd) (n : Nat)
    (hf : (Facts.maxConsecutiveEmptyReads - i) +
          Facts.maxConsecutiveEmptyReads * (r.cap - r.buf.length) + 1 ≤ fuel) :
    (Rd.readLoop fuel i r n).isSome := by
  induction fuel generalizing i r with
  | zero => omega
  | succ f ih =>
    unfold Rd.readLoop
    split
    · rfl
    · rename_i hi
      simp only []
      have hl := Src.read_len r.src (r.cap - r.buf.length)
      split
      · rfl
      · split
        · rfl
        · split
          · -- progress: the room shrinks by at least one byte
            rename_i hpos
            apply ih
            simp only [List.length_append]
            generalize (r.src.read (r.cap - r.buf.length)).1.length = d at *
            generalize hroom : r.cap - r.buf.length = room at *
            have h1 : r.cap - (r.buf.length + d) + 1 ≤ room := by omega
            have h2 := Nat.mul_le_mul_left Facts.maxConsecutiveEmptyReads h1
            rw [Nat.mul_add, Nat.mul_one] at h2
            omega
          · rename_i hzero
            apply ih
            simp only [List.length_append]
            have : (r.src.read (r.cap - r.buf.length)).1.length = 0 := by omega
            rw [this]
            simp only [Nat.add_zero]
            omega

end Verif

/-
  Lemmas/TthUtil: the exported helpers of protocol/ttheader/utils.go that Encode/Decode do not use:
  IsStreaming, WriteUint32, WriteString.
-/
import Verif.Lemmas.TthRt
namespace Verif.TTH
open Verif.Frame (layout infoSize)

theorem and_two (f : Nat) : f &&& 2 = 2 * (f / 2 % 2) := by
  have h1 : (f &&& 2) % 2 ^ 1 = 0 := by rw [Nat.and_mod_two_pow]; simp
  have h2 : (f &&& 2) >>> 1 = f / 2 % 2 := by
    rw [Nat.shiftRight_and_distrib]
    have : (2 : Nat) >>> 1 = 1 := by decide
    rw [this, Nat.and_one_is_mod, Nat.shiftRight_eq_div_pow]
  rw [Nat.shiftRight_eq_div_pow] at h2
  simp only [Nat.pow_one] at h1 h2
  omega

/-- IsStreaming never panics and decides exactly the spec's predicate -/
theorem isStreaming_eq (b : Bytes) : isStreaming b = .ok (Frame.streaming b) := by
  unfold isStreaming Frame.streaming sliceFrom beU16
  simp only [Facts.ttSize32, Facts.ttSize16, Facts.ttMagic, Facts.ttFlagsStreaming]
  by_cases h8 : b.length < 8
  · have : ¬ 8 ≤ b.length := by omega
    simp [h8, this]
  · have h8' : 8 ≤ b.length := by omega
    have a1 : ¬ 4 > b.length := by omega
    have a2 : ¬ b.length - 4 < 2 := by omega
    have a3 : ¬ 6 > b.length := by omega
    have a4 : ¬ b.length - 6 < 2 := by omega
    have hmag : (268435456 / 65536 % 65536 : Nat) = 4096 := by decide
    by_cases hm : rd16 (b.drop 4) = 4096
    · by_cases hb : rd16 (b.drop 6) / 2 % 2 = 1
      · simp [h8, h8', a1, a2, a3, a4, hm, hmag, and_two, hb, List.length_drop]
      · have hb0 : rd16 (b.drop 6) / 2 % 2 = 0 := by
          have := Nat.mod_two_eq_zero_or_one (rd16 (b.drop 6) / 2); omega
        simp [h8, h8', a1, a2, a3, a4, hm, hmag, and_two, hb0, List.length_drop]
    · simp [h8, h8', a1, a2, a3, a4, hm, hmag, List.length_drop]

theorem writeU32_ok (w : W) (hb : w.broken = false) (v : Nat) : writeU32 w v = .ok (w.app [be32 v]) :=
  malloc_fill w hb (be32 v)

theorem writeStr4_ok (w : W) (hb : w.broken = false) (s : Bytes) :
    writeStr4 w s = .ok (s.length + 4, w.app [be32 (s.length % 4294967296), s]) := by
  unfold writeStr4
  rw [writeU32_ok w hb]
  simp only [Out.bind_ok]
  rw [writeBinary_ok _ (by simpa using hb)]
  simp [W.app_app]

/-- IsStreaming of a laid-out frame (followed by anything) reads the streaming bit of the flags -/
theorem isStreaming_layout (p : EncParam) (lf rest : Bytes) (hlf : lf.length = 4) (hf : p.flags < 65536) :
    Frame.streaming (layout lf (fp p) ++ rest) = decide (p.flags / 2 % 2 = 1) := by
  obtain ⟨d4, d6, _, _, _⟩ := frame_drops lf (be16 0x1000) (be16 (fp p).flags)
    (be32 (Frame.seqBits (fp p).seq)) (be16 (infoSize (fp p) / 4))
    (Frame.info (fp p) ++ (List.replicate (Frame.padLen (Frame.info (fp p)).length) 0 ++ rest))
    hlf (by simp) (by simp) (by simp) (by simp)
  simp only [← layout_struct] at d4 d6
  have hlen : 8 ≤ (layout lf (fp p) ++ rest).length := by
    rw [layout_struct]; simp [hlf]; omega
  unfold Frame.streaming
  rw [d4, d6, rd16_be16 4096 (by omega) _, rd16_be16 (fp p).flags hf _]
  have hfl : (fp p).flags = p.flags := rfl
  rw [hfl]
  by_cases hb : p.flags / 2 % 2 = 1 <;> simp only [hlen, hb, true_and, and_true, and_false]

end Verif.TTH

/-
  Lemmas/SkipBRCauseRef: the stream-flavoured classifier `causeStream` (Spec/Cause.lean, used by the
  Tie B verdict of the `cause` family) accepts exactly what the acceptance discipline of
  BufferReader.Skip, `refBR` (Lemmas/GrammarG.lean), accepts — with the same extent.
-/
import Verif.Lemmas.SkipBinCause
import Verif.Lemmas.GrammarG
namespace Verif

theorem layerG_eq_layer_of_not_struct (F E : UInt8 → Bytes → Option Nat) (t : UInt8) (b : Bytes)
    (ht : t ≠ TT.STRUCT) :
    layerG F E (fun kt _ => E kt) (fun _ vt => E vt) t b = layer E t b := by
  unfold layer layerG listBody mapBody
  simp only [ht, if_false]
  split
  · rfl
  · split
    · rfl
    · split
      · cases b <;> rfl
      · split
        · match b with
          | [] => rfl
          | [_] => rfl
          | _ :: _ :: _ => rfl
        · rfl

theorem causeStream_okOf : ∀ d t b, okOf (causeStream d t b) = refBR d t b := by
  intro d
  induction d with
  | zero => intro t b; rfl
  | succ d ih =>
    intro t b
    simp only [causeStream, refBR]
    by_cases hst : t = TT.STRUCT
    · subst hst
      simp only [if_true]
      have : layerG (gFix (refBR d)) (gElem (refBR d)) (fun kt _ => gElem (refBR d) kt)
          (fun _ vt => gElem (refBR d) vt) TT.STRUCT b = refFields (gFix (refBR d)) (b.length + 1) b := by
        simp [layerG, show fixedSize TT.STRUCT = 0 by decide, show TT.STRUCT ≠ TT.STRING by decide]
      rw [this]
      apply causeFields_okOf
      intro ft bb
      unfold causeField gFix fixedFn
      by_cases hf : fixedSize ft > 0
      · by_cases hl : fixedSize ft ≤ bb.length <;> simp [hf, hl]
      · simp [hf, ih]
    · simp only [hst, if_false]
      rw [layerG_eq_layer_of_not_struct _ _ _ _ hst]
      exact causeLayer_okOf (fun t b => causeElem_okOf ih t b) t b

/-- the stream classifier reports an extent exactly when `refBR` does, and the same one -/
theorem causeStream_ok_iff (d : Nat) (t : UInt8) (b : Bytes) (n : Nat) :
    causeStream d t b = .ok n ↔ refBR d t b = some n := by
  rw [← causeStream_okOf, okOf_eq_some]

end Verif

/-
  Lemmas/SkipBenign: the liveness predicate the skip driver's verdict uses (`benign`, lean/Drv/Skip.lean:
  "a valid value must not be rejected when the script is benign") implies the predicates the
  theorems are stated for: C04's `Steady` (buffered reader: Props/C02 `skipBR_exact_stream`,
  `bufioxDec_exact_stream`) and `Delivers` (plain io.Reader: `readerDec_exact`).  So the verdict
  `bad:C02:rejected-valid` never demands more than what is proved of the model.

  This file imports the driver module (proof-only tie; nothing imports this file).
-/
import Drv.Skip
import Verif.Lemmas.SkipTplReader
import Verif.Lemmas.ReaderSteady
namespace Verif

/-- number of entries that deliver at least one byte -/
def prodCount (l : List Resp) : Nat := (l.filter (fun r => decide (r.k ≥ 1))).length

theorem prodCount_cons (r : Resp) (l : List Resp) :
    prodCount (r :: l) = (if r.k ≥ 1 then 1 else 0) + prodCount l := by
  unfold prodCount
  by_cases h : r.k ≥ 1
  · simp [h]; omega
  · simp [h]

theorem benignAux_steady : ∀ (script : List Resp) (z n0 slen : Nat),
    benignAux script z n0 = true → prodCount script ≥ slen →
    (∀ r, script.getLast? = some r → r.err.isNone = true ∨ (prodCount script = slen ∧ r.k ≥ 1)) →
    Steady Facts.maxConsecutiveEmptyReads script slen z = true := by
  intro script
  induction script with
  | nil =>
    intro z n0 slen _ hp _
    have : slen = 0 := by simp [prodCount] at hp; omega
    subst this; rfl
  | cons r rest ih =>
    intro z n0 slen hb hp hlast
    cases slen with
    | zero => exact steady_zero _ _ _
    | succ n =>
      simp only [benignAux, Bool.and_eq_true, decide_eq_true_eq] at hb
      obtain ⟨⟨⟨_, herr⟩, hz⟩, hrest⟩ := hb
      rw [prodCount_cons] at hp
      simp only [Steady]
      by_cases hk : r.k = 0
      · have hk1 : ¬ r.k ≥ 1 := by omega
        simp only [hk, if_true, Bool.and_eq_true, decide_eq_true_eq] at hz ⊢
        simp only [hk1, if_false, Nat.zero_add] at hp
        cases rest with
        | nil => simp [prodCount] at hp
        | cons r2 rest2 =>
          simp only [List.isEmpty_cons, Bool.or_false] at herr
          refine ⟨⟨herr, by omega⟩, ih (z + 1) 0 (n + 1) (by simpa [hk] using hrest) hp ?_⟩
          intro r' hr'
          have := hlast r' (by rw [List.getLast?_cons_cons]; exact hr')
          rw [prodCount_cons] at this
          simpa [hk1] using this
      · have hk1 : r.k ≥ 1 := by omega
        simp only [hk, if_false, Bool.and_eq_true, Bool.or_eq_true, decide_eq_true_eq] at hz ⊢
        simp only [hk1, if_true] at hp
        cases rest with
        | nil =>
          have hn : n = 0 := by simp [prodCount] at hp; omega
          subst hn
          exact ⟨Or.inr rfl, steady_zero _ _ _⟩
        | cons r2 rest2 =>
          simp only [List.isEmpty_cons, Bool.or_false] at herr
          refine ⟨Or.inl herr, ih 0 0 n (by simpa [hk] using hrest) (by omega) ?_⟩
          intro r' hr'
          have := hlast r' (by rw [List.getLast?_cons_cons]; exact hr')
          rw [prodCount_cons] at this
          simp only [hk1, if_true] at this
          rcases this with h1 | ⟨h1, h2⟩
          · exact Or.inl h1
          · exact Or.inr ⟨by omega, h2⟩


/-- the driver's `benign` scripts are `Steady` … -/
theorem benign_steady (s : Src) (h : benign s = true) :
    Steady Facts.maxConsecutiveEmptyReads s.script s.stream.length 0 = true := by
  
  simp only [benign, Bool.and_eq_true, decide_eq_true_eq] at h
  obtain ⟨⟨h1, h2⟩, h3⟩ := h
  refine benignAux_steady s.script 0 0 s.stream.length h1 h2 ?_
  intro r hr
  rw [hr] at h3
  simp only [Bool.or_eq_true, Bool.and_eq_true, beq_iff_eq, decide_eq_true_eq] at h3
  rcases h3 with h3 | ⟨⟨h4, h5⟩, _⟩
  · exact Or.inl h3
  · exact Or.inr ⟨h4, h5⟩

/-- … and deliver -/
theorem benign_delivers (s : Src) (h : benign s = true) : Delivers s.script s.stream.length = true :=
  steady_delivers _ _ _ _ (benign_steady s h)

end Verif

/-
  Lemmas/UnknownSpecEnc: on well-typed trees WriteUnknownFields produces exactly the spec encoding
  (`ufSpecEnc`, Spec/Unknown), hence UnknownFieldsLength is the spec encoding's length.
-/
import Verif.Lemmas.UnknownBase
import Verif.Lemmas.UnknownEqns
import Verif.Lemmas.UnknownLen
namespace Verif

theorem writeList_eq_spec {α : Type} (w : α → UOut Bytes) (e : α → Bytes) (mt : α → UMeta) (p : α → Bool)
    (H : ∀ c, p c = true → w c = .ok (e c)) (t : UInt8) :
    ∀ cs i, elemsOK mt p t i cs = true → writeList w cs = .ok (cs.map e).flatten
  | [], _, _ => by simp [writeList]
  | c :: cs, i, h => by
    simp only [elemsOK, Bool.and_eq_true] at h
    simp [writeList, H c h.1.2, writeList_eq_spec w e mt p H t cs (i + 1) h.2]

theorem writeKVs_eq_spec {α : Type} (w : α → UOut Bytes) (e : α → Bytes) (mt : α → UMeta) (p : α → Bool)
    (H : ∀ c, p c = true → w c = .ok (e c)) (kt vt : UInt8) :
    ∀ cs i, ufKvsOK mt p kt vt i cs = true → writeKVs w cs = .ok (cs.map e).flatten
  | [], _, _ => by simp [writeKVs]
  | [_], _, h => by simp [ufKvsOK] at h
  | k :: v :: cs, i, h => by
    simp only [ufKvsOK, Bool.and_eq_true] at h
    simp [writeKVs, H k h.1.1.1.1.2, H v h.1.2, writeKVs_eq_spec w e mt p H kt vt cs (i + 1) h.2]

theorem writeFields_eq_spec {α : Type} (w : α → UOut Bytes) (e : α → Bytes) (mt : α → UMeta) (p : α → Bool)
    (H : ∀ c, p c = true → w c = .ok (e c)) :
    ∀ cs, cs.all p = true →
      writeFields mt w cs = .ok (cs.map fun c => (mt c).typ :: be16 (mt c).id.toNat ++ e c).flatten
  | [], _ => by simp [writeFields]
  | c :: cs, h => by
    simp only [List.all_cons, Bool.and_eq_true] at h
    simp [writeFields, H c h.1, writeFields_eq_spec w e mt p H cs h.2]

set_option linter.unusedSimpArgs false in
/-- writeUnknownField on a well-typed node writes the spec encoding -/
theorem writeUF_eq_spec : ∀ (m : Nat) (f : UF m), wt m f = true → writeUF m f = .ok (ufSpecEnc m f)
  | 0, f, _ => f.elim
  | m+1, f, hwt => by
    have ih := writeUF_eq_spec m
    obtain ⟨u0, u2, u3, u4, u6, u8, u10, u11, u12, u13, u14, u15⟩ := utt
    obtain ⟨⟨id, typ, kt, vt⟩, v⟩ := f
    by_cases h2 : typ = UT.BOOL
    · have hw := (wt_BOOL m (⟨id, typ, kt, vt⟩, v) h2).symm.trans hwt
      cases v <;> simp at hw
      exact (writeUF_BOOL m _ h2).trans (by simp [ufSpecEnc])
    by_cases h3 : typ = UT.BYTE
    · have hw := (wt_BYTE m (⟨id, typ, kt, vt⟩, v) h3).symm.trans hwt
      cases v <;> simp at hw
      exact (writeUF_BYTE m _ h3).trans (by simp [ufSpecEnc])
    by_cases h4 : typ = UT.DOUBLE
    · have hw := (wt_DOUBLE m (⟨id, typ, kt, vt⟩, v) h4).symm.trans hwt
      cases v <;> simp at hw
      exact (writeUF_DOUBLE m _ h4).trans (by simp [ufSpecEnc])
    by_cases h6 : typ = UT.I16
    · have hw := (wt_I16 m (⟨id, typ, kt, vt⟩, v) h6).symm.trans hwt
      cases v <;> simp at hw
      exact (writeUF_I16 m _ h6).trans (by simp [ufSpecEnc])
    by_cases h8 : typ = UT.I32
    · have hw := (wt_I32 m (⟨id, typ, kt, vt⟩, v) h8).symm.trans hwt
      cases v <;> simp at hw
      exact (writeUF_I32 m _ h8).trans (by simp [ufSpecEnc])
    by_cases h10 : typ = UT.I64
    · have hw := (wt_I64 m (⟨id, typ, kt, vt⟩, v) h10).symm.trans hwt
      cases v <;> simp at hw
      exact (writeUF_I64 m _ h10).trans (by simp [ufSpecEnc])
    by_cases h11 : typ = UT.STRING
    · have hw := (wt_STRING m (⟨id, typ, kt, vt⟩, v) h11).symm.trans hwt
      cases v <;> simp at hw
      rename_i x
      have hu : u32 x.length = x.length := by simp [u32]; omega
      exact (writeUF_STRING m _ h11).trans (by simp [ufSpecEnc, hu])
    by_cases h14 : typ = UT.SET
    · have hw := (wt_SET m (⟨id, typ, kt, vt⟩, v) h14).symm.trans hwt
      cases v <;> simp at hw
      rename_i cs
      have hu : u32 cs.length = cs.length := by simp [u32]; omega
      have hl := writeList_eq_spec _ (ufSpecEnc m) _ _ ih vt cs 0 hw.2.2
      subst h14
      exact (writeUF_SET m _ rfl).trans (by simp [ufSpecEnc, hu, hl, u14, ttt])
    by_cases h15 : typ = UT.LIST
    · have hw := (wt_LIST m (⟨id, typ, kt, vt⟩, v) h15).symm.trans hwt
      cases v <;> simp at hw
      rename_i cs
      have hu : u32 cs.length = cs.length := by simp [u32]; omega
      have hl := writeList_eq_spec _ (ufSpecEnc m) _ _ ih vt cs 0 hw.2.2
      subst h15
      exact (writeUF_LIST m _ rfl).trans (by simp [ufSpecEnc, hu, hl, u15, ttt])
    by_cases h13 : typ = UT.MAP
    · have hw := (wt_MAP m (⟨id, typ, kt, vt⟩, v) h13).symm.trans hwt
      cases v <;> simp at hw
      rename_i cs
      have hu : u32 (cs.length / 2) = cs.length / 2 := by simp [u32]; omega
      have hl := writeKVs_eq_spec _ (ufSpecEnc m) _ _ ih kt vt cs 0 hw.2
      subst h13
      exact (writeUF_MAP m _ rfl).trans (by simp [ufSpecEnc, hu, hl, u13, ttt])
    by_cases h12 : typ = UT.STRUCT
    · have hw := (wt_STRUCT m (⟨id, typ, kt, vt⟩, v) h12).symm.trans hwt
      cases v <;> simp at hw
      rename_i cs
      have hl := writeFields_eq_spec _ (ufSpecEnc m) (ufMeta m) _ ih cs (by simpa using hw.2)
      subst h12
      exact (writeUF_STRUCT m _ rfl).trans (by simp [ufSpecEnc, hl, u12, u0, ttt])
    exfalso
    simp [wt, h2, h3, h4, h6, h8, h10, h11, h14, h15, h13, h12, UT.BOOL_eq.symm, UT.BYTE_eq.symm,
      UT.DOUBLE_eq.symm, UT.I16_eq.symm, UT.I32_eq.symm, UT.I64_eq.symm, UT.STRING_eq.symm, UT.LIST_eq.symm,
      UT.SET_eq.symm, UT.MAP_eq.symm, UT.STRUCT_eq.symm] at hwt

/-- WriteUnknownFields on well-typed trees writes the spec encoding, and UnknownFieldsLength is its length -/
theorem writeUFs_eq_spec (d : Nat) (fs : List (UF d)) (h : fs.all (wt d) = true) :
    writeUFs d fs = .ok (ufSpecEncs d fs) ∧ lenUFs d fs = .ok (ufSpecEncs d fs).length := by
  have hw : writeUFs d fs = .ok (ufSpecEncs d fs) :=
    writeFields_eq_spec _ (ufSpecEnc d) (ufMeta d) _ (writeUF_eq_spec d) fs h
  exact ⟨hw, lenUFs_of_writeUFs d fs _ hw⟩

end Verif

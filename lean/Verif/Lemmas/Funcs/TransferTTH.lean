/-
  Lemmas/Funcs/TransferTTH: helper lemmas for Props/Translated (undoing the result lifts); split per group so that a
  property's check only depends on the translated functions it is about.
-/
import Verif.Lemmas.Funcs.TTH2
namespace Verif.FuncsEq
open Verif Verif.GoSem

theorem liftMaps_returns {x : GM (GoMap Int Bytes × GoMap Bytes Bytes × GoErr)} (h : (liftMaps x).Safe) :
    ∃ r, x = .ok r := by
  cases x with
  | ok r => exact ⟨r, rfl⟩
  | err e => exact nomatch e
  | panic s => exact absurd rfl (h.1 s)
  | oob => exact absurd rfl h.2

theorem liftSec_returns {G M : Type} {abs : G → M} {x : GM (Int × Option G × GoErr)} (h : (liftSec abs x).Safe) :
    ∃ r, x = .ok r := by
  cases x with
  | ok r => exact ⟨r, rfl⟩
  | err e => exact nomatch e
  | panic s => exact absurd rfl (h.1 s)
  | oob => exact absurd rfl h.2

theorem liftSecH_returns {G M : Type} {abs : G → M} {x : GM (Int × Option G × Bool × GoErr)}
    (h : (liftSecH abs x).Safe) : ∃ r, x = .ok r := by
  cases x with
  | ok r => exact ⟨r, rfl⟩
  | err e => exact nomatch e
  | panic s => exact absurd rfl (h.1 s)
  | oob => exact absurd rfl h.2

theorem liftEofS_returns {x : GM (Bytes × Int × GoErr)} (h : (liftEofS x).Safe) : ∃ r, x = .ok r := by
  cases x with
  | ok r => exact ⟨r, rfl⟩
  | err e => exact nomatch e
  | panic s => exact absurd rfl (h.1 s)
  | oob => exact absurd rfl h.2

theorem liftEof_returns {x : GM (Int × GoErr)} (h : (liftEof x).Safe) : ∃ r, x = .ok r := by
  cases x with
  | ok r => exact ⟨r, rfl⟩
  | err e => exact nomatch e
  | panic s => exact absurd rfl (h.1 s)
  | oob => exact absurd rfl h.2

/-! ## `liftRdG` (all reader lifts; `liftRd` has the same shape) -/


end Verif.FuncsEq

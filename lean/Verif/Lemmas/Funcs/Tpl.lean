/-
  Lemmas/Funcs/Tpl: `(SkipDecoderTpl[T]).Skip` (self-recursive, three `for` loops, generic over the back end
  `SkipDecoderIface`) TRANSLATED from protocol/thrift/skipdecoder_tpl.go (`Verif.Funcs.Tpl_Skip[_loop1/2/3]` over an
  abstract `SkipNI ρ`: generated) is the hand-written model `skipTplAt` (Model/SkipStream.lean) over ANY model back end.

    Tpl_Skip_eq : Meas B μ P → P s → d < 2^63 → μ s + d + 2 ≤ fuel →
        liftTpl N.absE (Funcs.Tpl_Skip (iOf B N.errOf) fuel s (toI8 t.toNat) d) = skipTplAt B d t s

  * `iOf B errOf : SkipNI σ` is the model back end `B : Backend σ` seen as the abstract Go interface:
    `SkipN(n)` = `B.skipN s n.toNat`, `ok (b, s')` ↦ `(b, nil)` in state `s'`, `err e` ↦ `(nil, errOf e)` in the
    unchanged state (the state next to an error is dropped by `liftTpl`), panics / oob carried over.
    A NEGATIVE argument is `panic "SkipN: negative count"`: the generic code never produces one (the fixed sizes are
    `> 0`, the STRING size and the counts are tested `< 0` first, `int(sz) * (ksz + vsz)` is a product of
    non-negative numbers `< 2^31 * 16`, far from wrapping in an `int`) — the theorem proves it: that branch of `iOf` is
    never reached, so what it returns does not matter for the equality.
  * errors: the model's `TErr` (`pe id` / `wrap e` / `raw e`) has more values than `GoErr` has constructors, so the
    theorem is stated over an `ErrNaming` — an injection `errOf : TErr → GoErr` that avoids `nil`, with a left inverse
    `absE` which sends every protocol exception `pe id msg` to `TErr.pe id`.  Nothing else is assumed about the
    errors of the back end.  `stdNaming` is a concrete one (`raw io.EOF` ↦ `named "io.EOF"`, `raw (src k)` ↦
    `named "src#k"`, `wrap e` ↦ `named "wrap:<name>"` — the same as `GoSem.wrapErr` —, `pe id` ↦ `pe id ""`).
  * fuel: the translation has ONE fuel for the recursion and for its three loops; the model's STRUCT loop has its own
    (`B.avail s + 1`, `panic "nofuel"` when exhausted) and its counted loops run `sz < 2^31` times.  Without any
    assumption on the back end the two sides cannot agree: a back end whose `avail` is not an upper bound makes the
    model stop with its own `nofuel` while the translation goes on (`lyingBackend`, last examples), and a back end
    that delivers for ever needs `2^31` units of fuel for one LIST.  The assumption is a MEASURE `Meas B μ P`: under a
    back-end invariant `P` (kept by every successful `SkipN`), a successful `SkipN(n)` with `n ≤ 2^35` (the generic
    code never asks for more: `(2^31 - 1) * 16`) lowers `μ` by at least `n`, and `μ s ≤ B.avail s`.  Then every
    successful `Skip` consumes ≥ 1 (`skipTplAt_dec`), every loop runs at most `μ s` times and `μ s + d + 2` is enough
    fuel.  `Tpl_Skip_eq_avail` is the case `μ = B.avail`, `P = True` ("every successful SkipN of n bytes lowers
    `B.avail` by ≥ n").  All three concrete back ends are instances, closed theorems at the depth and in the start
    state of `bytesDecNext` / `readerDecNext` / `bufioxDecNext`:
      Tpl_Skip_eq_bytes  (bytes_dec:  μ = avail = len b - n),             fuel ≥ len b - n + 66
      Tpl_Skip_eq_reader (reader_dec: μ = avail = |stream|, any script),  fuel ≥ |stream| + 66
      Tpl_Skip_eq_bufiox (bufiox_meas: μ = |remaining| - rn — `bufioxBackend.avail` ignores the peeked window `rn` —,
                          P = reader invariant `Inv` + requests in the range `Rd.Small` of the reader model),
                          fuel ≥ |remaining| + 66

  Structure (as Lemmas/Funcs/Skip.lean): `TSim` (same outcome), `loop{1,2,3}_sim` under `RecOK` by induction on the fuel,
  `Tpl_Skip_sim` by induction on the depth.  Outcomes are compared in full: final back-end state, error value, Go
  panics (`b[0]`, `b[1]`, `b[2:]`, `Uint32(b)` on a short slice returned by the back end: same panic kind on both sides).
-/
import Verif.Lemmas.Funcs.Skip
import Verif.Model.SkipStream
import Verif.Lemmas.ReaderOps
set_option linter.unusedSimpArgs false
namespace Verif.FuncsEq
open Verif Verif.GoSem

/-! ## errors: naming the model's `TErr` values as Go error values -/

/-- an injection of the model's errors into `GoErr` (never `nil`) with a left inverse that reads a protocol exception
    by its type id -/
structure ErrNaming where
  errOf : TErr → GoErr
  absE : GoErr → TErr
  ne_nil : ∀ e, errOf e ≠ GoErr.nil
  inv : ∀ e, absE (errOf e) = e
  pe : ∀ id msg, absE (GoErr.pe id msg) = TErr.pe id

def rName : RErr → String
  | .eof => "io.EOF"
  | .noProgress => "io.ErrNoProgress"
  | .negCount => "bufiox.errNegativeCount"
  | .src k => "src#" ++ Nat.repr k

def rOfChars (cs : List Char) : RErr :=
  if cs.take 4 = ['s', 'r', 'c', '#'] then .src (Nat.ofDigitChars 10 (cs.drop 4) 0)
  else if cs = "io.EOF".toList then .eof
  else if cs = "io.ErrNoProgress".toList then .noProgress
  else .negCount

theorem rName_src (k : Nat) : (rName (.src k)).toList = 's' :: 'r' :: 'c' :: '#' :: Nat.toDigits 10 k := by
  have h : "src#".toList = ['s', 'r', 'c', '#'] := by decide
  simp only [rName, String.toList_append, Nat.toList_repr, h, List.cons_append, List.nil_append]

theorem rOfChars_rName (e : RErr) : rOfChars (rName e).toList = e := by
  cases e with
  | eof => decide
  | noProgress => decide
  | negCount => decide
  | src k =>
    rw [rName_src]
    simp [rOfChars, Nat.ofDigitChars_ten_toDigits]

/-- the standard naming: a raw reader error by its name, a wrapped one as `GoSem.wrapErr` names it -/
def errOfStd : TErr → GoErr
  | .pe id => .pe id ""
  | .raw e => .named (rName e)
  | .wrap e => .named ("wrap:" ++ rName e)

def absStd : GoErr → TErr
  | .nil => .pe 0
  | .pe id _ => .pe id
  | .named s =>
    if s.toList.take 5 = ['w', 'r', 'a', 'p', ':'] then .wrap (rOfChars (s.toList.drop 5)) else .raw (rOfChars s.toList)

theorem absStd_errOfStd (e : TErr) : absStd (errOfStd e) = e := by
  cases e with
  | pe id => rfl
  | wrap e =>
    have h : "wrap:".toList = ['w', 'r', 'a', 'p', ':'] := by decide
    simp [errOfStd, absStd, String.toList_append, h, rOfChars_rName]
  | raw e =>
    have h : (rName e).toList.take 5 ≠ ['w', 'r', 'a', 'p', ':'] := by
      cases e with
      | eof => decide
      | noProgress => decide
      | negCount => decide
      | src k => rw [rName_src]; simp
    simp [errOfStd, absStd, h, rOfChars_rName]

theorem wrapErr_errOfStd (e : RErr) : wrapErr (errOfStd (.raw e)) = errOfStd (.wrap e) := rfl

def stdNaming : ErrNaming where
  errOf := errOfStd
  absE := absStd
  ne_nil e := by cases e <;> simp [errOfStd]
  inv := absStd_errOfStd
  pe _ _ := rfl

/-! ## the model back end as an instance of the abstract Go interface; the lift -/

/-- `B : Backend σ` as a `SkipDecoderIface` value. A negative count is never passed by `SkipDecoderTpl.Skip`
    (`Tpl_Skip_sim` never reaches that branch). -/
def iOf {σ : Type} (B : Backend σ) (errOf : TErr → GoErr) : SkipNI σ where
  skipN s n :=
    if n < 0 then .panic "SkipN: negative count"
    else match B.skipN s n.toNat with
      | .ok r => .ok ((r.1, GoErr.nil), r.2)
      | .err e => .ok (([], errOf e), s)
      | .panic m => .panic m
      | .oob => .oob

/-- result `(p, err)` of the translated `Skip` (receiver state afterwards, error) as the model's `TOut σ` -/
def liftTpl {σ : Type} (absE : GoErr → TErr) (x : GM (σ × GoErr)) : TOut σ :=
  match x with
  | .ok r => if r.2 = GoErr.nil then .ok r.1 else .err (absE r.2)
  | .panic s => .panic s
  | .oob => .oob
  | .err e => nomatch e

theorem iOf_skipN {σ : Type} (B : Backend σ) (errOf : TErr → GoErr) (s : σ) (n : Int) (h : 0 ≤ n) :
    (iOf B errOf).skipN s n =
      match B.skipN s n.toNat with
      | .ok r => .ok ((r.1, GoErr.nil), r.2)
      | .err e => .ok (([], errOf e), s)
      | .panic m => .panic m
      | .oob => .oob := by
  have h : ¬ (n < 0) := by omega
  simp only [iOf, h, if_false]

/-- a measure of what the back end can still deliver, under a back-end invariant `P` -/
structure Meas {σ : Type} (B : Backend σ) (μ : σ → Nat) (P : σ → Prop) : Prop where
  dec : ∀ s n b s', P s → n ≤ 34359738368 → B.skipN s n = .ok (b, s') → P s' ∧ μ s' + n ≤ μ s
  le_avail : ∀ s, P s → μ s ≤ B.avail s

namespace Tpl
variable {σ : Type}

/-! ## the simulation relation -/

/-- `x` (translation) and `y` (model) are the same outcome, final state included -/
inductive TSim (N : ErrNaming) : GM (σ × GoErr) → TOut σ → Prop where
  | ok (s : σ) : TSim N (.ok (s, GoErr.nil)) (.ok s)
  | err (s : σ) (e : GoErr) (h : e ≠ GoErr.nil) : TSim N (.ok (s, e)) (.err (N.absE e))
  | panic (m : String) : TSim N (.panic m) (.panic m)
  | oob : TSim N .oob .oob

theorem TSim.lift {N : ErrNaming} {x : GM (σ × GoErr)} {y : TOut σ} (h : TSim N x y) : liftTpl N.absE x = y := by
  cases h <;> simp [liftTpl, *]

theorem TSim.berr (N : ErrNaming) (s : σ) (e : TErr) : TSim N (.ok (s, N.errOf e)) (.err e) := by
  have := TSim.err (N := N) s (N.errOf e) (N.ne_nil e)
  rwa [N.inv] at this

theorem TSim.perr (N : ErrNaming) (s : σ) (id : Int) (msg : String) :
    TSim N (.ok (s, GoErr.pe id msg)) (.err (TErr.pe id)) := by
  have := TSim.err (N := N) s (GoErr.pe id msg) (by simp)
  rwa [N.pe] at this

/-- what the loops assume about the recursive call `rec` (translation) and `rec'` (model): they agree on every state
    within the measure bound for which the fuel was chosen, and a successful call consumes -/
structure RecOK (N : ErrNaming) (μ : σ → Nat) (P : σ → Prop) (rec : σ → Int → Int → GM (σ × GoErr))
    (rec' : UInt8 → σ → TOut σ) (md : Int) (bound : Nat) : Prop where
  sim : ∀ s t, P s → μ s ≤ bound → TSim N (rec s (toI8 t.toNat) (wrap .i64 (md - 1))) (rec' t s)
  dec : ∀ s t s', P s → rec' t s = .ok s' → P s' ∧ μ s' + 1 ≤ μ s

/-- outcome of a translated counted loop (MAP, LIST/SET) against the model loop -/
inductive LSim (N : ErrNaming) : GM (LoopR (σ × GoErr) (σ × Int)) → TOut σ → Prop where
  | done (s : σ) (j : Int) : LSim N (.ok (LoopR.done (s, j))) (.ok s)
  | err (s : σ) (e : GoErr) (h : e ≠ GoErr.nil) : LSim N (.ok (LoopR.ret (s, e))) (.err (N.absE e))
  | panic (m : String) : LSim N (.panic m) (.panic m)
  | oob : LSim N .oob .oob

theorem loop3_sim {N : ErrNaming} {μ : σ → Nat} {P : σ → Prop} {I : SkipNI σ} {rec rec' md bound}
    (H : RecOK N μ P rec rec' md bound) (vt : UInt8) (sz : Nat) (hsz : sz < 2 ^ 31) :
    ∀ (f : Nat) (s : σ) (j cnt : Nat), j + cnt = sz → μ s + 1 ≤ f → μ s ≤ bound → P s →
      LSim N (Funcs.Tpl_Skip_loop3 I rec md (toI8 vt.toNat) (sz : Int) f s (j : Int)) (tplListLoop rec' vt cnt s) := by
  intro f
  induction f with
  | zero => intro s j cnt _ hf; omega
  | succ f ih =>
    intro s j cnt hj hf hb hp
    rw [Funcs.Tpl_Skip_loop3]
    cases cnt with
    | zero =>
      have c : ¬ ((j : Int) < (sz : Int)) := by omega
      simp only [c, decide_false, if_false, Bool.false_eq_true, Out.pure_eq, tplListLoop]
      exact LSim.done s j
    | succ cnt =>
      have c : ((j : Int) < (sz : Int)) := by omega
      simp only [c, decide_true, if_true, tplListLoop, Out.bind_eq]
      have hs := H.sim s vt hp hb
      have hd := H.dec s vt
      generalize rec s (toI8 vt.toNat) (wrap .i64 (md - 1)) = x at hs
      generalize rec' vt s = y at hs hd
      cases hs with
      | ok s1 =>
        obtain ⟨hp1, hd1⟩ := hd s1 hp rfl
        have w : wrap .i32 ((j : Int) + 1) = ((j + 1 : Nat) : Int) := by
          rw [wrap_i32_of_range _ (by omega) (by omega)]; simp
        simp only [Out.bind_ok, ne_eq, not_true_eq_false, decide_false, if_false, Bool.false_eq_true, w]
        exact ih s1 (j + 1) cnt (by omega) (by omega) (by omega) hp1
      | err s1 e h =>
        simp only [Out.bind_ok, Out.bind_err, ne_eq, h, not_false_eq_true, decide_true, if_true, Out.pure_eq]
        exact LSim.err _ e h
      | panic m => exact LSim.panic m
      | oob => exact LSim.oob

theorem loop2_sim {N : ErrNaming} {μ : σ → Nat} {P : σ → Prop} {I : SkipNI σ} {rec rec' md bound}
    (H : RecOK N μ P rec rec' md bound) (kt vt : UInt8) (sz : Nat) (hsz : sz < 2 ^ 31) :
    ∀ (f : Nat) (s : σ) (j cnt : Nat), j + cnt = sz → μ s + 1 ≤ f → μ s ≤ bound → P s →
      LSim N (Funcs.Tpl_Skip_loop2 I rec md (toI8 kt.toNat) (toI8 vt.toNat) (sz : Int) f s (j : Int))
        (tplMapLoop rec' kt vt cnt s) := by
  intro f
  induction f with
  | zero => intro s j cnt _ hf; omega
  | succ f ih =>
    intro s j cnt hj hf hb hp
    rw [Funcs.Tpl_Skip_loop2]
    cases cnt with
    | zero =>
      have c : ¬ ((j : Int) < (sz : Int)) := by omega
      simp only [c, decide_false, if_false, Bool.false_eq_true, Out.pure_eq, tplMapLoop]
      exact LSim.done s j
    | succ cnt =>
      have c : ((j : Int) < (sz : Int)) := by omega
      simp only [c, decide_true, if_true, tplMapLoop, Out.bind_eq]
      have hs := H.sim s kt hp hb
      have hd := H.dec s kt
      generalize rec s (toI8 kt.toNat) (wrap .i64 (md - 1)) = x at hs
      generalize rec' kt s = y at hs hd
      cases hs with
      | ok s1 =>
        obtain ⟨hp1, hd1⟩ := hd s1 hp rfl
        simp only [Out.bind_ok, ne_eq, not_true_eq_false, decide_false, if_false, Bool.false_eq_true]
        have hs2 := H.sim s1 vt hp1 (by omega)
        have hd2 := H.dec s1 vt
        generalize rec s1 (toI8 vt.toNat) (wrap .i64 (md - 1)) = x2 at hs2
        generalize rec' vt s1 = y2 at hs2 hd2
        cases hs2 with
        | ok s2 =>
          obtain ⟨hp2, hd2'⟩ := hd2 s2 hp1 rfl
          have w : wrap .i32 ((j : Int) + 1) = ((j + 1 : Nat) : Int) := by
            rw [wrap_i32_of_range _ (by omega) (by omega)]; simp
          simp only [Out.bind_ok, ne_eq, not_true_eq_false, decide_false, if_false, Bool.false_eq_true, w]
          exact ih s2 (j + 1) cnt (by omega) (by omega) (by omega) hp2
        | err s2 e h =>
          simp only [Out.bind_ok, Out.bind_err, ne_eq, h, not_false_eq_true, decide_true, if_true, Out.pure_eq]
          exact LSim.err _ e h
        | panic m => exact LSim.panic m
        | oob => exact LSim.oob
      | err s1 e h =>
        simp only [Out.bind_ok, Out.bind_err, ne_eq, h, not_false_eq_true, decide_true, if_true, Out.pure_eq]
        exact LSim.err _ e h
      | panic m => exact LSim.panic m
      | oob => exact LSim.oob

/-- outcome of the translated STRUCT loop against the model loop: `done` (the `break` at STOP) is the model's `ok` -/
inductive LSim1 (N : ErrNaming) : GM (LoopR (σ × GoErr) σ) → TOut σ → Prop where
  | done (s : σ) : LSim1 N (.ok (LoopR.done s)) (.ok s)
  | err (s : σ) (e : GoErr) (h : e ≠ GoErr.nil) : LSim1 N (.ok (LoopR.ret (s, e))) (.err (N.absE e))
  | panic (m : String) : LSim1 N (.panic m) (.panic m)
  | oob : LSim1 N .oob .oob

theorem LSim1.berr (N : ErrNaming) (s : σ) (e : TErr) : LSim1 N (.ok (LoopR.ret (s, N.errOf e))) (.err e) := by
  have := LSim1.err (N := N) s (N.errOf e) (N.ne_nil e)
  rwa [N.inv] at this

/-- `b[k]` in the translation: the model's `idx` with the byte as an integer -/
theorem gidx_nat (b : Bytes) (k : Nat) :
    GoSem.idx b (k : Int) = match b[k]? with | some x => .ok ((x.toNat : Nat) : Int) | none => .panic "index" := by
  have h : ¬ ((k : Int) < 0) := by omega
  simp only [GoSem.idx, h, if_false, Int.toNat_natCast]
  cases b[k]? <;> rfl

theorem gidx0 (b : Bytes) :
    GoSem.idx b 0 = match b[0]? with | some x => .ok ((x.toNat : Nat) : Int) | none => .panic "index" := gidx_nat b 0
theorem gidx1 (b : Bytes) :
    GoSem.idx b 1 = match b[1]? with | some x => .ok ((x.toNat : Nat) : Int) | none => .panic "index" := gidx_nat b 1

theorem loop1_sim {N : ErrNaming} {B : Backend σ} {μ : σ → Nat} {P : σ → Prop} {rec rec' md bound} (hM : Meas B μ P)
    (H : RecOK N μ P rec rec' md bound) :
    ∀ (f1 f2 : Nat) (s : σ), μ s + 1 ≤ f1 → μ s + 1 ≤ f2 → μ s ≤ bound → P s →
      LSim1 N (Funcs.Tpl_Skip_loop1 (iOf B N.errOf) rec md f1 s) (tplStructLoop B rec' f2 s) := by
  intro f1
  induction f1 with
  | zero => intro f2 s hf; omega
  | succ f1 ih =>
    intro f2 s hf1 hf2 hb hp
    cases f2 with
    | zero => omega
    | succ f2 =>
      rw [Funcs.Tpl_Skip_loop1, tplStructLoop, iOf_skipN _ _ _ _ (by omega)]
      have e1 : (1 : Int).toNat = 1 := rfl
      rw [e1]
      cases hsk : B.skipN s 1 with
      | ok r =>
        obtain ⟨b, s1⟩ := r
        obtain ⟨hp1, hd1⟩ := hM.dec _ _ _ _ hp (by omega) hsk
        simp only [Out.bind_eq, Out.bind_ok, ne_eq, not_true_eq_false, decide_false, if_false, Bool.false_eq_true]
        rw [gidx0, Verif.idx]
        cases hb0 : b[0]? with
        | none => exact LSim1.panic _
        | some tp =>
          simp only [Out.bind_ok, wrap_i8_nat _ tp.toNat_lt]
          by_cases hstop : tp = T_STOP
          · have c0 : toI8 tp.toNat = 0 := (toI8_eq_0 tp).mpr hstop
            simp only [if_pos hstop, c0, decide_true, if_true, Out.pure_eq]
            exact LSim1.done s1
          · have c0 : ¬ toI8 tp.toNat = 0 := fun h => hstop ((toI8_eq_0 tp).mp h)
            simp only [if_neg hstop, c0, decide_false, if_false, Bool.false_eq_true]
            rw [iOf_skipN _ _ _ _ (by omega)]
            have e2 : (2 : Int).toNat = 2 := rfl
            rw [e2]
            cases hsk2 : B.skipN s1 2 with
            | ok r2 =>
              obtain ⟨b2, s2⟩ := r2
              obtain ⟨hp2, hd2⟩ := hM.dec _ _ _ _ hp1 (by omega) hsk2
              simp only [Out.bind_ok, ne_eq, not_true_eq_false, decide_false, if_false, Bool.false_eq_true]
              have hs := H.sim s2 tp hp2 (by omega)
              have hd := H.dec s2 tp
              generalize rec s2 (toI8 tp.toNat) (wrap .i64 (md - 1)) = x at hs
              generalize rec' tp s2 = y at hs hd
              cases hs with
              | ok s3 =>
                obtain ⟨hp3, hd3⟩ := hd s3 hp2 rfl
                simp only [Out.bind_ok, ne_eq, not_true_eq_false, decide_false, if_false, Bool.false_eq_true]
                exact ih f2 s3 (by omega) (by omega) (by omega) hp3
              | err s3 e h =>
                simp only [Out.bind_ok, Out.bind_err, ne_eq, h, not_false_eq_true, decide_true, if_true, Out.pure_eq]
                exact LSim1.err _ e h
              | panic m => exact LSim1.panic m
              | oob => exact LSim1.oob
            | err e =>
              simp only [Out.bind_ok, Out.bind_err, ne_eq, N.ne_nil, not_false_eq_true, decide_true, if_true, Out.pure_eq]
              exact LSim1.berr N _ e
            | panic m => exact LSim1.panic m
            | oob => exact LSim1.oob
      | err e =>
        simp only [Out.bind_eq, Out.bind_ok, Out.bind_err, ne_eq, N.ne_nil, not_false_eq_true, decide_true, if_true,
          Out.pure_eq]
        exact LSim1.berr N _ e
      | panic m => exact LSim1.panic m
      | oob => exact LSim1.oob

/-! ## the model consumes: a successful `skipTplAt` lowers the measure by at least 1 -/

theorem bind_ok_inv {ε α β : Type} {x : Out ε α} {f : α → Out ε β} {b : β} (h : x.bind f = .ok b) :
    ∃ a, x = .ok a ∧ f a = .ok b := by
  cases x with
  | ok a => exact ⟨a, rfl, h⟩
  | err e => cases h
  | panic m => cases h
  | oob => cases h

theorem tplListLoop_le {μ : σ → Nat} {P : σ → Prop} {rec' : UInt8 → σ → TOut σ}
    (hrec : ∀ s t s', P s → rec' t s = .ok s' → P s' ∧ μ s' + 1 ≤ μ s) (vt : UInt8) :
    ∀ cnt s s', P s → tplListLoop rec' vt cnt s = .ok s' → P s' ∧ μ s' ≤ μ s := by
  intro cnt
  induction cnt with
  | zero => intro s s' hp h; simp only [tplListLoop, Out.ok.injEq] at h; subst h; exact ⟨hp, Nat.le_refl _⟩
  | succ cnt ih =>
    intro s s' hp h
    simp only [tplListLoop, Out.bind_eq] at h
    obtain ⟨s1, h1, h2⟩ := bind_ok_inv h
    obtain ⟨hp1, _⟩ := hrec _ _ _ hp h1
    obtain ⟨hp2, _⟩ := ih _ _ hp1 h2
    exact ⟨hp2, by omega⟩

theorem tplMapLoop_le {μ : σ → Nat} {P : σ → Prop} {rec' : UInt8 → σ → TOut σ}
    (hrec : ∀ s t s', P s → rec' t s = .ok s' → P s' ∧ μ s' + 1 ≤ μ s) (kt vt : UInt8) :
    ∀ cnt s s', P s → tplMapLoop rec' kt vt cnt s = .ok s' → P s' ∧ μ s' ≤ μ s := by
  intro cnt
  induction cnt with
  | zero => intro s s' hp h; simp only [tplMapLoop, Out.ok.injEq] at h; subst h; exact ⟨hp, Nat.le_refl _⟩
  | succ cnt ih =>
    intro s s' hp h
    simp only [tplMapLoop, Out.bind_eq] at h
    obtain ⟨s1, h1, h2⟩ := bind_ok_inv h
    obtain ⟨s2, h3, h4⟩ := bind_ok_inv h2
    obtain ⟨hp1, _⟩ := hrec _ _ _ hp h1
    obtain ⟨hp2, _⟩ := hrec _ _ _ hp1 h3
    obtain ⟨hp3, _⟩ := ih _ _ hp2 h4
    exact ⟨hp3, by omega⟩

theorem tplStructLoop_lt {B : Backend σ} {μ : σ → Nat} {P : σ → Prop} (hM : Meas B μ P) {rec' : UInt8 → σ → TOut σ}
    (hrec : ∀ s t s', P s → rec' t s = .ok s' → P s' ∧ μ s' + 1 ≤ μ s) :
    ∀ fuel s s', P s → tplStructLoop B rec' fuel s = .ok s' → P s' ∧ μ s' + 1 ≤ μ s := by
  intro fuel
  induction fuel with
  | zero => intro s s' _ h; simp [tplStructLoop] at h
  | succ fuel ih =>
    intro s s' hp h
    simp only [tplStructLoop, Out.bind_eq] at h
    obtain ⟨⟨b, s1⟩, h1, h2⟩ := bind_ok_inv h
    obtain ⟨hp1, d1⟩ := hM.dec _ _ _ _ hp (by omega) h1
    obtain ⟨tp, _, h3⟩ := bind_ok_inv h2
    by_cases hstop : tp = T_STOP
    · simp only [hstop, if_true, Out.pure_eq, Out.ok.injEq] at h3
      subst h3; exact ⟨hp1, by omega⟩
    · simp only [hstop, if_false] at h3
      obtain ⟨⟨b2, s2⟩, h4, h5⟩ := bind_ok_inv h3
      obtain ⟨hp2, d2⟩ := hM.dec _ _ _ _ hp1 (by omega) h4
      obtain ⟨s3, h6, h7⟩ := bind_ok_inv h5
      dsimp only at h6
      obtain ⟨hp3, _⟩ := hrec _ _ _ hp2 h6
      obtain ⟨hp4, _⟩ := ih _ _ hp3 h7
      exact ⟨hp4, by omega⟩

theorem u32of_ok {b : Bytes} {v : Nat} (h : u32of b = .ok v) : (toI32 v).toNat < 2147483648 := by
  unfold u32of at h
  by_cases h4 : 4 ≤ b.length
  · simp only [h4, if_true, Out.ok.injEq] at h
    subst h
    have := toI32_range _ (rd32_lt b)
    omega
  · simp [h4] at h

/-- every successful `SkipDecoderTpl.Skip` consumes at least one unit of the measure (and keeps the invariant) -/
theorem skipTplAt_dec {B : Backend σ} {μ : σ → Nat} {P : σ → Prop} (hM : Meas B μ P) :
    ∀ d t s s', P s → skipTplAt B d t s = .ok s' → P s' ∧ μ s' + 1 ≤ μ s := by
  intro d
  induction d with
  | zero => intro t s s' _ h; simp [skipTplAt] at h
  | succ d ih =>
    intro t s s' hp h
    have hrec : ∀ s t s', P s → skipTplAt B d t s = .ok s' → P s' ∧ μ s' + 1 ≤ μ s := fun s t s' hp h => ih t s s' hp h
    simp only [skipTplAt, typeSize_eq, Out.bind_eq, Out.bind_ok, Int.toNat_natCast] at h
    by_cases hfix : ((fixedSize t : Nat) : Int) > 0
    · simp only [hfix, if_true] at h
      obtain ⟨⟨b, s1⟩, h1, h2⟩ := bind_ok_inv h
      have := fixedSize_le t
      obtain ⟨hp1, _⟩ := hM.dec _ _ _ _ hp (by omega) h1
      simp only [Out.pure_eq, Out.ok.injEq] at h2
      subst h2; exact ⟨hp1, by omega⟩
    · simp only [hfix, if_false] at h
      by_cases hstr : t = T_STRING
      · simp only [hstr, if_true] at h
        obtain ⟨⟨b, s1⟩, h1, h2⟩ := bind_ok_inv h
        obtain ⟨hp1, _⟩ := hM.dec _ _ _ _ hp (by omega) h1
        obtain ⟨v, hv, h3⟩ := bind_ok_inv h2
        have hvl := u32of_ok hv
        by_cases hn : toI32 v < 0
        · simp [hn] at h3
        · simp only [hn, if_false] at h3
          obtain ⟨⟨b2, s2⟩, h4, h5⟩ := bind_ok_inv h3
          obtain ⟨hp2, _⟩ := hM.dec _ _ _ _ hp1 (by omega) h4
          simp only [Out.pure_eq, Out.ok.injEq] at h5
          subst h5; exact ⟨hp2, by omega⟩
      · simp only [hstr, if_false] at h
        by_cases hst : t = T_STRUCT
        · simp only [hst, if_true] at h
          exact tplStructLoop_lt hM hrec _ _ _ hp h
        · simp only [hst, if_false] at h
          by_cases hmap : t = T_MAP
          · simp only [hmap, if_true] at h
            obtain ⟨⟨b, s1⟩, h1, h2⟩ := bind_ok_inv h
            obtain ⟨hp1, _⟩ := hM.dec _ _ _ _ hp (by omega) h1
            obtain ⟨kt, _, h3⟩ := bind_ok_inv h2
            obtain ⟨vt, _, h4⟩ := bind_ok_inv h3
            obtain ⟨v, hv, h5⟩ := bind_ok_inv h4
            have hvl := u32of_ok hv
            by_cases hn : toI32 v < 0
            · simp [hn] at h5
            · simp only [hn, if_false] at h5
              by_cases hfast : ((fixedSize kt : Nat) : Int) > 0 ∧ ((fixedSize vt : Nat) : Int) > 0
              · simp only [hfast, and_self, if_true] at h5
                obtain ⟨⟨b2, s2⟩, h6, h7⟩ := bind_ok_inv h5
                have hk := fixedSize_le kt
                have hv8 := fixedSize_le vt
                have hq : (toI32 v).toNat * (fixedSize kt + fixedSize vt) ≤ 2147483648 * 16 :=
                  Nat.mul_le_mul (by omega) (by omega)
                obtain ⟨hp2, _⟩ := hM.dec _ _ _ _ hp1 (by omega) h6
                simp only [Out.pure_eq, Out.ok.injEq] at h7
                subst h7; exact ⟨hp2, by omega⟩
              · simp only [hfast, if_false] at h5
                obtain ⟨hp2, _⟩ := tplMapLoop_le hrec _ _ _ _ _ hp1 h5
                exact ⟨hp2, by omega⟩
          · simp only [hmap, if_false] at h
            by_cases hlist : t = T_SET ∨ t = T_LIST
            · simp only [hlist, if_true] at h
              obtain ⟨⟨b, s1⟩, h1, h2⟩ := bind_ok_inv h
              obtain ⟨hp1, _⟩ := hM.dec _ _ _ _ hp (by omega) h1
              obtain ⟨vt, _, h3⟩ := bind_ok_inv h2
              obtain ⟨v, hv, h4⟩ := bind_ok_inv h3
              have hvl := u32of_ok hv
              by_cases hn : toI32 v < 0
              · simp [hn] at h4
              · simp only [hn, if_false] at h4
                by_cases hfast : ((fixedSize vt : Nat) : Int) > 0
                · simp only [hfast, if_true] at h4
                  obtain ⟨⟨b2, s2⟩, h6, h7⟩ := bind_ok_inv h4
                  have hv8 := fixedSize_le vt
                  have hq : (toI32 v).toNat * fixedSize vt ≤ 2147483648 * 8 := Nat.mul_le_mul (by omega) hv8
                  obtain ⟨hp2, _⟩ := hM.dec _ _ _ _ hp1 (by omega) h6
                  simp only [Out.pure_eq, Out.ok.injEq] at h7
                  subst h7; exact ⟨hp2, by omega⟩
                · simp only [hfast, if_false] at h4
                  obtain ⟨hp2, _⟩ := tplListLoop_le hrec _ _ _ _ hp1 h4
                  exact ⟨hp2, by omega⟩
            · simp [hlist] at h

/-! ## the whole function, by induction on the depth -/

theorem recOK_of_ih (N : ErrNaming) {B : Backend σ} {μ : σ → Nat} {P : σ → Prop} (hM : Meas B μ P) (d f bound : Nat)
    (hd : d + 1 < 2 ^ 63) (hf : bound + d + 2 ≤ f)
    (ih : ∀ (f : Nat) (s : σ) (t : UInt8) (D : Int), P s → μ s + d + 2 ≤ f → D = (d : Int) →
      TSim N (Funcs.Tpl_Skip (iOf B N.errOf) f s (toI8 t.toNat) D) (skipTplAt B d t s)) :
    RecOK N μ P (fun a0 a1 a2 => Funcs.Tpl_Skip (iOf B N.errOf) f a0 a1 a2) (skipTplAt B d) ((d + 1 : Nat) : Int)
      bound := by
  constructor
  · intro s t hp hb
    exact ih f s t _ hp (by omega) (by rw [wrap_i64_of_range _ (by omega) (by omega)]; omega)
  · intro s t s' hp h
    exact skipTplAt_dec hM d t s s' hp h

theorem beU32_eq (b : Bytes) : beU32 b = if 4 ≤ b.length then .ok (rd32 b : Int) else .panic "index" := by
  unfold beU32
  by_cases h : 4 ≤ b.length
  · have : ¬ b.length < 4 := by omega
    simp [h, this]
  · have : b.length < 4 := by omega
    simp [h, this]

theorem sliceFrom_ok (b : Bytes) (k : Int) (h0 : 0 ≤ k) (h : k ≤ len b) : sliceFrom b k = .ok (b.drop k.toNat) := by
  unfold sliceFrom
  have : ¬ (k < 0 ∨ k > len b) := by omega
  simp [this]

/-- `SkipDecoderTpl.Skip`, whole function, translated from the Go source, over the model back end `B`: the model
    `skipTplAt B`, final back-end state, error, and every panic included -/
theorem Tpl_Skip_sim (N : ErrNaming) {B : Backend σ} {μ : σ → Nat} {P : σ → Prop} (hM : Meas B μ P) :
    ∀ (d f : Nat) (s : σ) (t : UInt8) (D : Int), d < 2 ^ 63 → P s → μ s + d + 2 ≤ f → D = (d : Int) →
      TSim N (Funcs.Tpl_Skip (iOf B N.errOf) f s (toI8 t.toNat) D) (skipTplAt B d t s) := by
  intro d
  induction d with
  | zero =>
    intro f s t D hd hp hf hD
    cases f with
    | zero => omega
    | succ f =>
      subst hD
      rw [Funcs.Tpl_Skip]
      simp only [skipTplAt, Int.natCast_zero, decide_true, if_true, Out.pure_eq]
      exact TSim.perr N s 6 _
  | succ d ih =>
    intro f s t D hd hp hf hD
    cases f with
    | zero => omega
    | succ f =>
      have H := recOK_of_ih N hM d f (μ s) hd (by omega) (fun f s t D h0 h1 h2 => ih f s t D (by omega) h0 h1 h2)
      subst hD
      rw [Funcs.Tpl_Skip]
      have cD : ¬ ((d + 1 : Nat) : Int) = 0 := by omega
      simp only [skipTplAt, cD, decide_false, if_false, Bool.false_eq_true, tblIdx_fixed, typeSize_eq,
        Out.bind_ok, Out.bind_eq, Out.pure_eq]
      by_cases hfix : ((fixedSize t : Nat) : Int) > 0
      · simp only [hfix, decide_true, if_true]
        rw [iOf_skipN _ _ _ _ (by omega)]
        cases hsk : B.skipN s ((fixedSize t : Nat) : Int).toNat with
        | ok r => exact TSim.ok _
        | err e => exact TSim.berr N _ e
        | panic m => exact TSim.panic m
        | oob => exact TSim.oob
      · simp only [hfix, decide_false, if_false, Bool.false_eq_true]
        by_cases hstr : t = T_STRING
        · have c : toI8 t.toNat = 11 := (toI8_eq_11 t).mpr hstr
          simp only [if_pos hstr, c, decide_true, if_true]
          rw [iOf_skipN _ _ _ _ (by omega)]
          have e4 : (4 : Int).toNat = 4 := rfl
          rw [e4]
          cases hsk : B.skipN s 4 with
          | ok r =>
            obtain ⟨b, s1⟩ := r
            simp only [Out.bind_ok, ne_eq, not_true_eq_false, decide_false, if_false, Bool.false_eq_true, beU32_eq, u32of]
            by_cases h4 : 4 ≤ b.length
            · simp only [h4, if_true, Out.bind_ok, wrap_i32_nat _ (rd32_lt b)]
              have hr := toI32_range _ (rd32_lt b)
              generalize toI32 (rd32 b) = n at hr
              by_cases hn : n < 0
              · simp only [hn, decide_true, if_true]
                exact TSim.perr N s1 2 _
              · simp only [hn, decide_false, if_false, Bool.false_eq_true]
                rw [iOf_skipN _ _ _ _ (by omega)]
                cases hsk2 : B.skipN s1 n.toNat with
                | ok r2 =>
                  simp only [Out.bind_ok, ne_eq, not_true_eq_false, decide_false, if_false, Bool.false_eq_true]
                  exact TSim.ok _
                | err e =>
                  simp only [Out.bind_ok, Out.bind_err, ne_eq, N.ne_nil, not_false_eq_true, decide_true, if_true]
                  exact TSim.berr N _ e
                | panic m => exact TSim.panic m
                | oob => exact TSim.oob
            · simp only [h4, if_false, Out.bind_panic]
              exact TSim.panic _
          | err e =>
            simp only [Out.bind_ok, Out.bind_err, ne_eq, N.ne_nil, not_false_eq_true, decide_true, if_true]
            exact TSim.berr N _ e
          | panic m => exact TSim.panic m
          | oob => exact TSim.oob
        · have c : ¬ toI8 t.toNat = 11 := fun h => hstr ((toI8_eq_11 t).mp h)
          simp only [if_neg hstr, c, decide_false, if_false, Bool.false_eq_true]
          by_cases hst : t = T_STRUCT
          · have c : toI8 t.toNat = 12 := (toI8_eq_tag t 12 (by omega)).mpr hst
            simp only [if_pos hst, c, decide_true, if_true]
            have hl := loop1_sim hM H f (B.avail s + 1) s (by omega) (by have := hM.le_avail s hp; omega)
              (Nat.le_refl _) hp
            generalize Funcs.Tpl_Skip_loop1 _ _ _ _ _ = x at hl ⊢
            generalize tplStructLoop _ _ _ _ = y at hl ⊢
            cases hl with
            | done s1 => exact TSim.ok s1
            | err s1 e h => exact TSim.err s1 e h
            | panic m => exact TSim.panic m
            | oob => exact TSim.oob
          · have c : ¬ toI8 t.toNat = 12 := fun h => hst ((toI8_eq_tag t 12 (by omega)).mp h)
            simp only [if_neg hst, c, decide_false, if_false, Bool.false_eq_true]
            by_cases hmap : t = T_MAP
            · have c : toI8 t.toNat = 13 := (toI8_eq_tag t 13 (by omega)).mpr hmap
              simp only [if_pos hmap, c, decide_true, if_true]
              rw [iOf_skipN _ _ _ _ (by omega)]
              have e6 : (6 : Int).toNat = 6 := rfl
              rw [e6]
              cases hsk : B.skipN s 6 with
              | ok r =>
                obtain ⟨b, s1⟩ := r
                obtain ⟨hp1, hd1⟩ := hM.dec _ _ _ _ hp (by omega) hsk
                simp only [Out.bind_ok, ne_eq, not_true_eq_false, decide_false, if_false, Bool.false_eq_true,
                  gidx0, gidx1, Verif.idx]
                cases hb0 : b[0]? with
                | none => exact TSim.panic _
                | some kt =>
                  simp only [Out.bind_ok]
                  cases hb1 : b[1]? with
                  | none => exact TSim.panic _
                  | some vt =>
                    have hlen : 2 ≤ b.length := by
                      obtain ⟨h, _⟩ := List.getElem?_eq_some_iff.mp hb1; omega
                    simp only [Out.bind_ok, sliceFrom_ok b 2 (by omega) (by unfold len; omega), beU32_eq, u32of]
                    have e2 : (2 : Int).toNat = 2 := rfl
                    rw [e2]
                    generalize b.drop 2 = b2
                    by_cases h4 : 4 ≤ b2.length
                    · simp only [h4, if_true, Out.bind_ok, wrap_i32_nat _ (rd32_lt b2)]
                      have hr := toI32_range _ (rd32_lt b2)
                      generalize toI32 (rd32 b2) = n at hr
                      by_cases hn : n < 0
                      · simp only [hn, decide_true, if_true]
                        exact TSim.perr N s1 2 _
                      · simp only [hn, decide_false, if_false, Bool.false_eq_true, wrap_i8_nat _ vt.toNat_lt,
                          wrap_i8_nat _ kt.toNat_lt, tblIdx_fixed, Out.bind_ok]
                        obtain ⟨sz, rfl⟩ := Int.eq_ofNat_of_zero_le (by omega : 0 ≤ n)
                        have hs : sz < 2 ^ 31 := by omega
                        simp only [Int.toNat_natCast]
                        by_cases hfast : ((fixedSize kt : Nat) : Int) > 0 ∧ ((fixedSize vt : Nat) : Int) > 0
                        · have hk := fixedSize_le kt
                          have hv := fixedSize_le vt
                          have hq : sz * (fixedSize kt + fixedSize vt) ≤ 2 ^ 31 * 16 :=
                            Nat.mul_le_mul (by omega) (by omega)
                          have e0 : wrap .i64 (((fixedSize kt : Nat) : Int) + ((fixedSize vt : Nat) : Int)) =
                              ((fixedSize kt + fixedSize vt : Nat) : Int) := by
                            rw [wrap_i64_of_range _ (by omega) (by omega)]; simp
                          have e1 : ((sz : Int) * ((fixedSize kt + fixedSize vt : Nat) : Int)) =
                              ((sz * (fixedSize kt + fixedSize vt) : Nat) : Int) := by simp
                          rw [e0, e1]
                          generalize sz * (fixedSize kt + fixedSize vt) = q at hq
                          rw [wrap_i64_of_range (q : Int) (by omega) (by omega), iOf_skipN _ _ _ _ (by omega)]
                          simp only [hfast, and_self, decide_true, Bool.and_self, if_true, Int.toNat_natCast]
                          cases hsk2 : B.skipN s1 q with
                          | ok r2 => exact TSim.ok _
                          | err e => exact TSim.berr N _ e
                          | panic m => exact TSim.panic m
                          | oob => exact TSim.oob
                        · have cfast : (decide (((fixedSize kt : Nat) : Int) > 0) &&
                              decide (((fixedSize vt : Nat) : Int) > 0)) = false := by
                            simpa using hfast
                          simp only [hfast, cfast, if_false, Bool.false_eq_true]
                          have hl := loop2_sim (I := iOf B N.errOf) H kt vt sz hs f s1 0 sz (by omega) (by omega)
                            (by omega) hp1
                          simp only [Int.natCast_zero] at hl
                          generalize Funcs.Tpl_Skip_loop2 _ _ _ _ _ _ _ _ _ = x at hl ⊢
                          generalize tplMapLoop _ _ _ _ _ = y at hl ⊢
                          cases hl with
                          | done s2 j => exact TSim.ok s2
                          | err s2 e h => exact TSim.err s2 e h
                          | panic m => exact TSim.panic m
                          | oob => exact TSim.oob
                    · simp only [h4, if_false, Out.bind_panic]
                      exact TSim.panic _
              | err e =>
                simp only [Out.bind_ok, Out.bind_err, ne_eq, N.ne_nil, not_false_eq_true, decide_true, if_true]
                exact TSim.berr N _ e
              | panic m => exact TSim.panic m
              | oob => exact TSim.oob
            · have c : ¬ toI8 t.toNat = 13 := fun h => hmap ((toI8_eq_tag t 13 (by omega)).mp h)
              simp only [if_neg hmap, c, decide_false, if_false, Bool.false_eq_true]
              by_cases hlist : t = T_SET ∨ t = T_LIST
              · have c : (decide (toI8 t.toNat = 14) || decide (toI8 t.toNat = 15)) = true := by
                  rcases hlist with h | h
                  · have := (toI8_eq_tag t 14 (by omega)).mpr h; simp [this]
                  · have := (toI8_eq_tag t 15 (by omega)).mpr h; simp [this]
                simp only [if_pos hlist, c, if_true]
                rw [iOf_skipN _ _ _ _ (by omega)]
                have e5 : (5 : Int).toNat = 5 := rfl
                rw [e5]
                cases hsk : B.skipN s 5 with
                | ok r =>
                  obtain ⟨b, s1⟩ := r
                  obtain ⟨hp1, hd1⟩ := hM.dec _ _ _ _ hp (by omega) hsk
                  simp only [Out.bind_ok, ne_eq, not_true_eq_false, decide_false, if_false, Bool.false_eq_true,
                    gidx0, Verif.idx]
                  cases hb0 : b[0]? with
                  | none => exact TSim.panic _
                  | some vt =>
                    have hlen : 1 ≤ b.length := by
                      obtain ⟨h, _⟩ := List.getElem?_eq_some_iff.mp hb0; omega
                    simp only [Out.bind_ok, sliceFrom_ok b 1 (by omega) (by unfold len; omega), beU32_eq, u32of]
                    have e1 : (1 : Int).toNat = 1 := rfl
                    rw [e1]
                    generalize b.drop 1 = b2
                    by_cases h4 : 4 ≤ b2.length
                    · simp only [h4, if_true, Out.bind_ok, wrap_i32_nat _ (rd32_lt b2)]
                      have hr := toI32_range _ (rd32_lt b2)
                      generalize toI32 (rd32 b2) = n at hr
                      by_cases hn : n < 0
                      · simp only [hn, decide_true, if_true]
                        exact TSim.perr N s1 2 _
                      · simp only [hn, decide_false, if_false, Bool.false_eq_true, wrap_i8_nat _ vt.toNat_lt,
                          tblIdx_fixed, Out.bind_ok]
                        obtain ⟨sz, rfl⟩ := Int.eq_ofNat_of_zero_le (by omega : 0 ≤ n)
                        have hs : sz < 2 ^ 31 := by omega
                        simp only [Int.toNat_natCast]
                        by_cases hfast : ((fixedSize vt : Nat) : Int) > 0
                        · have hv := fixedSize_le vt
                          have hq : sz * fixedSize vt ≤ 2 ^ 31 * 8 := Nat.mul_le_mul (by omega) hv
                          have e1 : ((sz : Int) * ((fixedSize vt : Nat) : Int)) = ((sz * fixedSize vt : Nat) : Int) := by
                            simp
                          rw [e1]
                          generalize sz * fixedSize vt = q at hq
                          rw [wrap_i64_of_range (q : Int) (by omega) (by omega), iOf_skipN _ _ _ _ (by omega)]
                          simp only [hfast, decide_true, if_true, Int.toNat_natCast]
                          cases hsk2 : B.skipN s1 q with
                          | ok r2 => exact TSim.ok _
                          | err e => exact TSim.berr N _ e
                          | panic m => exact TSim.panic m
                          | oob => exact TSim.oob
                        · simp only [hfast, decide_false, if_false, Bool.false_eq_true]
                          have hl := loop3_sim (I := iOf B N.errOf) H vt sz hs f s1 0 sz (by omega) (by omega)
                            (by omega) hp1
                          simp only [Int.natCast_zero] at hl
                          generalize Funcs.Tpl_Skip_loop3 _ _ _ _ _ _ _ _ = x at hl ⊢
                          generalize tplListLoop _ _ _ _ = y at hl ⊢
                          cases hl with
                          | done s2 j => exact TSim.ok s2
                          | err s2 e h => exact TSim.err s2 e h
                          | panic m => exact TSim.panic m
                          | oob => exact TSim.oob
                    · simp only [h4, if_false, Out.bind_panic]
                      exact TSim.panic _
                | err e =>
                  simp only [Out.bind_ok, Out.bind_err, ne_eq, N.ne_nil, not_false_eq_true, decide_true, if_true]
                  exact TSim.berr N _ e
                | panic m => exact TSim.panic m
                | oob => exact TSim.oob
              · have c1 : ¬ toI8 t.toNat = 14 := fun h => hlist (Or.inl ((toI8_eq_tag t 14 (by omega)).mp h))
                have c2 : ¬ toI8 t.toNat = 15 := fun h => hlist (Or.inr ((toI8_eq_tag t 15 (by omega)).mp h))
                simp only [if_neg hlist, c1, c2, decide_false, if_false, Bool.false_eq_true, Bool.or_self]
                exact TSim.perr N s 1 _

end Tpl

/-! ## the theorems -/

/-- `SkipDecoderTpl.Skip` translated from the Go source IS the model `skipTplAt`, over every model back end with a
    measure, for every state, type byte, depth and every fuel ≥ `μ s + d + 2` -/
theorem Tpl_Skip_eq {σ : Type} (N : ErrNaming) {B : Backend σ} {μ : σ → Nat} {P : σ → Prop} (hM : Meas B μ P)
    (s : σ) (t : UInt8) (d fuel : Nat) (hp : P s) (hd : d < 2 ^ 63) (hf : μ s + d + 2 ≤ fuel) :
    liftTpl N.absE (Funcs.Tpl_Skip (iOf B N.errOf) fuel s (toI8 t.toNat) (d : Int)) = skipTplAt B d t s :=
  (Tpl.Tpl_Skip_sim N hM d fuel s t _ hd hp hf rfl).lift

/-- the case `μ = B.avail`: every successful `SkipN(n)` lowers `B.avail` by at least `n` -/
theorem Tpl_Skip_eq_avail {σ : Type} (N : ErrNaming) {B : Backend σ}
    (hdec : ∀ s n b s', B.skipN s n = .ok (b, s') → B.avail s' + n ≤ B.avail s)
    (s : σ) (t : UInt8) (d fuel : Nat) (hd : d ≤ 64) (hf : B.avail s + d + 2 ≤ fuel) :
    liftTpl N.absE (Funcs.Tpl_Skip (iOf B N.errOf) fuel s (toI8 t.toNat) (d : Int)) = skipTplAt B d t s :=
  Tpl_Skip_eq N (μ := B.avail) (P := fun _ => True)
    ⟨fun s n b s' _ _ h => ⟨trivial, hdec s n b s' h⟩, fun _ _ => Nat.le_refl _⟩ s t d fuel trivial (by omega) hf

/-! ## two of the three concrete back ends -/

theorem bytes_dec (s : BytesDec) (n : Nat) (b : Bytes) (s' : BytesDec) (h : bytesBackend.skipN s n = .ok (b, s')) :
    bytesBackend.avail s' + n ≤ bytesBackend.avail s := by
  simp only [bytesBackend] at h ⊢
  by_cases hk : s.b.length ≥ s.n + n
  · simp only [hk, if_true, Out.ok.injEq, Prod.mk.injEq] at h
    obtain ⟨_, rfl⟩ := h
    simp only
    omega
  · simp [hk] at h

/-- `BytesSkipDecoder`: the translation at the depth and in the start state of `bytesDecNext` -/
theorem Tpl_Skip_eq_bytes (N : ErrNaming) (s : BytesDec) (t : UInt8) (fuel : Nat) (hf : (s.b.length - s.n) + 66 ≤ fuel) :
    liftTpl N.absE (Funcs.Tpl_Skip (iOf bytesBackend N.errOf) fuel s (toI8 t.toNat) 64) =
      skipTplAt bytesBackend Facts.defaultRecursionDepth t s :=
  Tpl_Skip_eq_avail N bytes_dec s t 64 fuel (by omega) (by simp only [bytesBackend]; omega)

theorem read_len (s : Src) (room : Nat) :
    (s.read room).2.2.stream.length + (s.read room).1.length = s.stream.length := by
  unfold Src.read
  cases s.script with
  | nil => simp
  | cons r rest => simp only [List.length_drop, List.length_take]; omega

theorem readFull_len : ∀ (fuel : Nat) (s : Src) (k : Nat) (acc : Bytes),
    (readFullLoop fuel s k acc).2.2.stream.length + (readFullLoop fuel s k acc).1.length = s.stream.length + acc.length ∧
    ((readFullLoop fuel s k acc).2.1 = none → k ≤ (readFullLoop fuel s k acc).1.length) := by
  intro fuel
  induction fuel with
  | zero => intro s k acc; simp [readFullLoop]
  | succ fuel ih =>
    intro s k acc
    unfold readFullLoop
    by_cases hk : acc.length ≥ k
    · rw [if_pos hk]
      exact ⟨rfl, fun _ => hk⟩
    · rw [if_neg hk]
      have hr := read_len s (k - acc.length)
      simp only []
      generalize s.read (k - acc.length) = res at hr ⊢
      obtain ⟨dt, e, s2⟩ := res
      cases e with
      | some e =>
        simp only [List.length_append] at hr ⊢
        exact ⟨by omega, fun h => by cases h⟩
      | none =>
        simp only at hr ⊢
        obtain ⟨h1, h2⟩ := ih s2 k (acc ++ dt)
        simp only [List.length_append] at h1
        exact ⟨by omega, h2⟩

theorem reader_dec (s : ReaderDec) (n : Nat) (b : Bytes) (s' : ReaderDec) (h : readerBackend.skipN s n = .ok (b, s')) :
    readerBackend.avail s' + n ≤ readerBackend.avail s := by
  simp only [readerBackend] at h ⊢
  obtain ⟨h1, h2⟩ := readFull_len (s.src.script.length + 2) s.src n []
  generalize readFullLoop (s.src.script.length + 2) s.src n [] = res at h h1 h2
  by_cases hk : res.1.length ≥ n
  · simp only [hk, if_true, Out.ok.injEq, Prod.mk.injEq] at h
    obtain ⟨_, rfl⟩ := h
    simp only [List.length_nil] at h1 ⊢
    omega
  · simp only [hk, if_false] at h
    cases he : res.2.1 with
    | some e => simp [he] at h
    | none => exact absurd (h2 he) hk

/-- `ReaderSkipDecoder`: the translation at the depth of `readerDecNext` -/
theorem Tpl_Skip_eq_reader (N : ErrNaming) (s : ReaderDec) (t : UInt8) (fuel : Nat)
    (hf : s.src.stream.length + 66 ≤ fuel) :
    liftTpl N.absE (Funcs.Tpl_Skip (iOf readerBackend N.errOf) fuel s (toI8 t.toNat) 64) =
      skipTplAt readerBackend Facts.defaultRecursionDepth t s :=
  Tpl_Skip_eq_avail N reader_dec s t 64 fuel (by omega) (by simp only [readerBackend]; omega)

/-! ### SkipDecoder over a bufiox.Reader: the measure is what the reader still owes beyond the peeked window -/

/-- invariant of the bufiox back end during one `Next(t)`: the reader invariant, the window inside what the reader
    owes, and requests in the range in which the reader MODEL is well behaved (`Rd.Small`, Lemmas/ReaderOps) -/
def BufioxOK (s : BufioxDec) : Prop :=
  Inv s.r ∧ s.rn ≤ s.r.remaining.length ∧ s.r.remaining.length + s.r.ri + 34359738368 ≤ 9223372036854775808

def bufioxMu (s : BufioxDec) : Nat := s.r.remaining.length - s.rn

theorem bufiox_meas : Meas bufioxBackend bufioxMu BufioxOK := by
  constructor
  · intro s k b s' hp hk h
    obtain ⟨hinv, hrn, hsm⟩ := hp
    have hn : ((s.rn + k : Nat) : Int).toNat = s.rn + k := Int.toNat_natCast _
    simp only [bufioxBackend] at h
    rcases peek_cases s.r ((s.rn + k : Nat) : Int) hinv (by unfold Rd.Small; rw [hn]; omega) with
      ⟨hneg, _⟩ | ⟨_, m, r1, _, hpost, ⟨hgt, hpk⟩ | ⟨hle, hpk⟩⟩
    · omega
    · have he := (hpost.short hgt).1
      rw [hpk] at h
      cases hre : r1.err with
      | none => exact absurd hre he
      | some e => simp [hre] at h
    · rw [hpk] at h
      simp only at h
      by_cases hov : s.rn > ((r1.buf.drop r1.ri).take ((s.rn + k : Nat) : Int).toNat).length
      · rw [if_pos hov] at h; cases h
      · rw [if_neg hov] at h
        simp only [Out.ok.injEq, Prod.mk.injEq] at h
        obtain ⟨_, rfl⟩ := h
        have hen := hpost.enough hle
        have hrem := hpost.remaining hinv.ri_le
        have hri := hpost.ri
        rw [hn] at hen
        have hlen : r1.buf.length - r1.ri ≤ r1.remaining.length := by
          unfold Rd.remaining; simp only [List.length_append, List.length_drop]; omega
        rw [hrem] at hlen
        simp only [BufioxOK, bufioxMu, hrem, hri]
        exact ⟨⟨hpost.inv, by omega, hsm⟩, by omega⟩
  · intro s _
    simp only [bufioxBackend, bufioxMu, Rd.avail, Rd.remaining, List.length_append, List.length_drop]
    omega

/-- `SkipDecoder` over a bufiox reader: the translation at the depth and in the start state of `bufioxDecNext` -/
theorem Tpl_Skip_eq_bufiox (N : ErrNaming) (r : Rd) (t : UInt8) (fuel : Nat) (hinv : Inv r)
    (hsm : r.remaining.length + r.ri + 34359738368 ≤ 9223372036854775808) (hf : r.remaining.length + 66 ≤ fuel) :
    liftTpl N.absE (Funcs.Tpl_Skip (iOf bufioxBackend N.errOf) fuel { r := r, rn := 0 } (toI8 t.toNat) 64) =
      skipTplAt bufioxBackend Facts.defaultRecursionDepth t { r := r, rn := 0 } :=
  Tpl_Skip_eq N bufiox_meas { r := r, rn := 0 } t 64 fuel ⟨hinv, Nat.zero_le _, hsm⟩ (by omega)
    (by simp only [bufioxMu]; omega)

/-! ## the generated function computes (non-vacuity) -/

/-- the translation over the bytes back end, from offset 0 -/
def tplBytes (fuel : Nat) (b : Bytes) (t : Int) : GM (BytesDec × GoErr) :=
  Funcs.Tpl_Skip (iOf bytesBackend errOfStd) fuel { b := b, n := 0 } t 64

-- an i32
example : tplBytes 80 [0, 0, 0, 1] 8 = .ok ({ b := [0, 0, 0, 1], n := 4 }, GoErr.nil) := by decide +kernel
-- a struct {1: i32 5} (STRUCT loop)
example : tplBytes 80 [8, 0, 1, 0, 0, 0, 5, 0] 12 = .ok ({ b := [8, 0, 1, 0, 0, 0, 5, 0], n := 8 }, GoErr.nil) := by
  decide +kernel
-- list<string> ["a", ""] (LIST loop), map<string,i32> {"a": 7} (MAP loop), map<i32,i64> x 1 (fast path)
example : (tplBytes 80 [11, 0, 0, 0, 2, 0, 0, 0, 1, 97, 0, 0, 0, 0] 15).bind (fun r => .ok (r.1.n, r.2)) =
    .ok (14, GoErr.nil) := by decide +kernel
example : (tplBytes 80 [11, 8, 0, 0, 0, 1, 0, 0, 0, 1, 97, 0, 0, 0, 7] 13).bind (fun r => .ok (r.1.n, r.2)) =
    .ok (15, GoErr.nil) := by decide +kernel
example : (tplBytes 80 [8, 10, 0, 0, 0, 1, 0, 0, 0, 1, 0, 0, 0, 0, 0, 0, 0, 2] 13).bind (fun r => .ok (r.1.n, r.2)) =
    .ok (18, GoErr.nil) := by decide +kernel
-- errors: the back end's EOF (a raw reader error, by name), negative size, unknown type, depth limit
example : tplBytes 80 [0] 8 = .ok ({ b := [0], n := 0 }, GoErr.named "io.EOF") := by decide +kernel
example : liftTpl absStd (tplBytes 80 [0] 8) = .err (.raw .eof) := by decide +kernel
example : skipTplAt bytesBackend 64 8 { b := [0], n := 0 } = .err (.raw .eof) := by decide +kernel
example : tplBytes 80 [255, 255, 255, 255] 11 =
    .ok ({ b := [255, 255, 255, 255], n := 4 }, GoErr.pe 2 "negative size") := by decide +kernel
example : tplBytes 80 [0] 1 = .ok ({ b := [0], n := 0 }, GoErr.pe 1 "") := by decide +kernel
example : liftTpl absStd (tplBytes 300 (List.replicate 200 12) 12) = .err errDepth := by decide +kernel
-- the naming is injective on what the three back ends produce
example : absStd (errOfStd (.raw (.src 17))) = .raw (.src 17) := absStd_errOfStd _
example : errOfStd (.wrap .noProgress) = GoErr.named "wrap:io.ErrNoProgress" := by decide
-- panics: fuel exhausted (excluded by `hf`), the never-reached negative count, and a back end that returns short
-- slices: `b[0]` / `Uint32(b)` panic in the translation as in the model
example : tplBytes 0 [0] 8 = .panic "nofuel" := by decide +kernel
example : (iOf bytesBackend errOfStd).skipN { b := [], n := 0 } (-1) = .panic "SkipN: negative count" := by
  decide +kernel
def shortBackend : Backend Unit := { skipN := fun _ _ => .ok ([], ()), avail := fun _ => 0 }
example : Funcs.Tpl_Skip (iOf shortBackend errOfStd) 10 () 12 64 = .panic "index" := by decide +kernel
example : skipTplAt shortBackend 64 12 () = .panic "index" := by decide +kernel
example : Funcs.Tpl_Skip (iOf shortBackend errOfStd) 10 () 11 64 = .panic "index" := by decide +kernel
example : skipTplAt shortBackend 64 11 () = .panic "index" := by decide +kernel
-- why `Meas.le_avail` is needed: a back end whose `avail` is NOT an upper bound (three BOOL fields, then STOP, but
-- `avail = 0`): the model's STRUCT loop stops with its own `nofuel`, the translation (fuel 20) finishes
def lyingBackend : Backend Nat :=
  { skipN := fun s n => .ok (List.replicate n (if s < 9 then 2 else 0), s + 1), avail := fun _ => 0 }
example : Funcs.Tpl_Skip (iOf lyingBackend errOfStd) 20 0 12 64 = .ok (10, GoErr.nil) := by decide +kernel
example : skipTplAt lyingBackend 64 12 0 = .panic "nofuel" := by decide +kernel

end Verif.FuncsEq

/-
  Lemmas/Funcs/Tpl: `(SkipDecoderTpl[T]).Skip` (self-recursive, three `for` loops, generic over the back end
  `SkipDecoderIface`) TRANSLATED from protocol/thrift/skipdecoder_tpl.go (`Verif.Funcs.Tpl_Skip[_loop1/2/3]` over an
  abstract `SkipNI ρ`: generated) is the hand-written model `skipTplAt` (Model/SkipStream.lean) over ANY model back end.

    Tpl_Skip_eq : Meas B μ P → P s → d < 2^63 → μ s + d + 2 ≤ fuel →
        liftTpl N.absE (Funcs.Tpl_Skip (iOf B N.errOf) fuel s (toI8 t.toNat) d) = skipTplAt B d t s

  * `iOf B errOf : SkipNI σ` is the model back end `B : Backend σ` seen as the abstract Go interface:
    `SkipN(n)` = `B.skipN s n.toNat`, `ok (b, s')` ↦ `(b, nil)` in state `s'`, `err e` ↦ `(nil, errOf e)` in the
    unchanged state (the state next to an error is dropped by `liftTpl`), panics / oob carried over.
    A NEGATIVE argument is `panic "SkipN: negative count"`: the generic code never produces one (the fixed sizes are
    `> 0`, the STRING size and the counts are tested `< 0` first, `int(sz) * (ksz + vsz)` is a product of
    non-negative numbers `< 2^31 * 16`, far from wrapping in an `int`) — the theorem proves it: that branch of `iOf` is
    never reached, so what it returns does not matter for the equality.
  * errors: the model's `TErr` (`pe id` / `wrap e` / `raw e`) has more values than `GoErr` has constructors, so the
    theorem is stated over an `ErrNaming` — an injection `errOf : TErr → GoErr` that avoids `nil`, with a left inverse
    `absE` which sends every protocol exception `pe id msg` to `TErr.pe id`.  Nothing else is assumed about the
    errors of the back end.  `stdNaming` is a concrete one (`raw io.EOF` ↦ `named "io.EOF"`, `raw (src k)` ↦
    `named "src#k"`, `wrap e` ↦ `named "wrap:<name>"` — the same as `GoSem.wrapErr` —, `pe id` ↦ `pe id ""`).
  * fuel: the translation has ONE fuel for the recursion and for its three loops; the model's STRUCT loop has its own
    (`B.avail s + 1`, `panic "nofuel"` when exhausted) and its counted loops run `sz < 2^31` times.  Without any
    assumption on the back end the two sides cannot agree: a back end whose `avail` is not an upper bound makes the
    model stop with its own `nofuel` while the translation goes on (`lyingBackend`, last examples), and a back end
    that delivers for ever needs `2^31` units of fuel for one LIST.  The assumption is a MEASURE `Meas B μ P`: under a
    back-end invariant `P` (kept by every successful `SkipN`), a successful `SkipN(n)` with `n ≤ 2^35` (the generic
    code never asks for more: `(2^31 - 1) * 16`) lowers `μ` by at least `n`, and `μ s ≤ B.avail s`.  Then every
    successful `Skip` consumes ≥ 1 (`skipTplAt_dec`), every loop runs at most `μ s` times and `μ s + d + 2` is enough
    fuel.  `Tpl_Skip_eq_avail` is the case `μ = B.avail`, `P = True` ("every successful SkipN of n bytes lowers
    `B.avail` by ≥ n").  All three concrete back ends are instances, closed theorems at the depth and in the start
    state of `bytesDecNext` / `readerDecNext` / `bufioxDecNext`:
      Tpl_Skip_eq_bytes  (bytes_dec:  μ = avail = len b - n),             fuel ≥ len b - n + 66
      Tpl_Skip_eq_reader (reader_dec: μ = avail = |stream|, any script),  fuel ≥ |stream| + 66
      Tpl_Skip_eq_bufiox (bufiox_meas: μ = |remaining| - rn — `bufioxBackend.avail` ignores the peeked window `rn` —,
                          P = reader invariant `Inv` + requests in the range `Rd.Small` of the reader model),
                          fuel ≥ |remaining| + 66

  Structure: the simulation proof itself is `TplG.Tpl_Skip_simG` (Lemmas/Funcs/TplG.lean: ANY interface value implementing
  a model back end through an abstraction relation; loops under `RecOKG` by induction on the fuel, the function by
  induction on the depth; written to survive harmless reshaping of the generated definition).  `Tpl_Skip_sim` here is
  its instance `I = iOf B N.errOf`, `R = Eq` (`iOf_impl`); the error naming, `iOf`, `liftTpl` and `Meas` live in TplG.lean.
  Outcomes are compared in full: final back-end state, error value, Go panics (`b[0]`, `b[1]`, `b[2:]`, `Uint32(b)` on
  a short slice returned by the back end: same panic kind on both sides).
-/
import Verif.Lemmas.Funcs.TplG
import Verif.Lemmas.ReaderOps
set_option linter.unusedSimpArgs false
namespace Verif.FuncsEq
open Verif Verif.GoSem

namespace Tpl
variable {σ : Type}

/-! ## the simulation relation -/

/-- `x` (translation) and `y` (model) are the same outcome, final state included -/
inductive TSim (N : ErrNaming) : GM (σ × GoErr) → TOut σ → Prop where
  | ok (s : σ) : TSim N (.ok (s, GoErr.nil)) (.ok s)
  | err (s : σ) (e : GoErr) (h : e ≠ GoErr.nil) : TSim N (.ok (s, e)) (.err (N.absE e))
  | panic (m : String) : TSim N (.panic m) (.panic m)
  | oob : TSim N .oob .oob

theorem TSim.lift {N : ErrNaming} {x : GM (σ × GoErr)} {y : TOut σ} (h : TSim N x y) : liftTpl N.absE x = y := by
  cases h <;> simp [liftTpl, *]

theorem TSim.berr (N : ErrNaming) (s : σ) (e : TErr) : TSim N (.ok (s, N.errOf e)) (.err e) := by
  have := TSim.err (N := N) s (N.errOf e) (N.ne_nil e)
  rwa [N.inv] at this

theorem TSim.perr (N : ErrNaming) (s : σ) (id : Int) (msg : String) :
    TSim N (.ok (s, GoErr.pe id msg)) (.err (TErr.pe id)) := by
  have := TSim.err (N := N) s (GoErr.pe id msg) (by simp)
  rwa [N.pe] at this


/-- the model back end seen as the interface value `iOf B N.errOf` implements itself (abstraction relation: equality) -/
theorem iOf_impl (N : ErrNaming) (B : Backend σ) (P : σ → Prop) : TplG.Impl N Eq (iOf B N.errOf) B P := by
  constructor
  intro p s n hR _ h0 _
  subst hR
  rw [iOf_skipN _ _ _ _ h0]
  cases B.skipN p n.toNat with
  | ok r => exact TplG.SSim.ok r.1 r.2 r.2 rfl
  | err e =>
    have := TplG.SSim.err (N := N) (R := (Eq : σ → σ → Prop)) [] p (N.errOf e) (N.ne_nil e)
    rwa [N.inv] at this
  | panic m => exact TplG.SSim.panic m
  | oob => exact TplG.SSim.oob

theorem TSim.of_G {N : ErrNaming} {x : GM (σ × GoErr)} {y : TOut σ} (h : TplG.GSim N Eq x y) : TSim N x y := by
  cases h with
  | ok p s h => subst h; exact TSim.ok p
  | err p e h => exact TSim.err p e h
  | panic m => exact TSim.panic m
  | oob => exact TSim.oob

/-- `SkipDecoderTpl.Skip`, whole function, translated from the Go source, over the model back end `B`: the model
    `skipTplAt B`, final back-end state, error, and every panic included (instance of `TplG.Tpl_Skip_simG`) -/
theorem Tpl_Skip_sim (N : ErrNaming) {B : Backend σ} {μ : σ → Nat} {P : σ → Prop} (hM : Meas B μ P) :
    ∀ (d f : Nat) (s : σ) (t : UInt8) (D : Int), d < 2 ^ 63 → P s → μ s + d + 2 ≤ f → D = (d : Int) →
      TSim N (Funcs.Tpl_Skip (iOf B N.errOf) f s (toI8 t.toNat) D) (skipTplAt B d t s) :=
  fun d f s t D hd hp hf hD =>
    TSim.of_G (TplG.Tpl_Skip_simG N hM (iOf_impl N B P) d f s s t D rfl hd hp hf hD)

end Tpl

/-! ## the theorems -/

/-- `SkipDecoderTpl.Skip` translated from the Go source IS the model `skipTplAt`, over every model back end with a
    measure, for every state, type byte, depth and every fuel ≥ `μ s + d + 2` -/
theorem Tpl_Skip_eq {σ : Type} (N : ErrNaming) {B : Backend σ} {μ : σ → Nat} {P : σ → Prop} (hM : Meas B μ P)
    (s : σ) (t : UInt8) (d fuel : Nat) (hp : P s) (hd : d < 2 ^ 63) (hf : μ s + d + 2 ≤ fuel) :
    liftTpl N.absE (Funcs.Tpl_Skip (iOf B N.errOf) fuel s (toI8 t.toNat) (d : Int)) = skipTplAt B d t s :=
  (Tpl.Tpl_Skip_sim N hM d fuel s t _ hd hp hf rfl).lift

/-- the case `μ = B.avail`: every successful `SkipN(n)` lowers `B.avail` by at least `n` -/
theorem Tpl_Skip_eq_avail {σ : Type} (N : ErrNaming) {B : Backend σ}
    (hdec : ∀ s n b s', B.skipN s n = .ok (b, s') → B.avail s' + n ≤ B.avail s)
    (s : σ) (t : UInt8) (d fuel : Nat) (hd : d ≤ 64) (hf : B.avail s + d + 2 ≤ fuel) :
    liftTpl N.absE (Funcs.Tpl_Skip (iOf B N.errOf) fuel s (toI8 t.toNat) (d : Int)) = skipTplAt B d t s :=
  Tpl_Skip_eq N (μ := B.avail) (P := fun _ => True)
    ⟨fun s n b s' _ _ h => ⟨trivial, hdec s n b s' h⟩, fun _ _ => Nat.le_refl _⟩ s t d fuel trivial (by omega) hf

/-! ## two of the three concrete back ends -/

theorem bytes_dec (s : BytesDec) (n : Nat) (b : Bytes) (s' : BytesDec) (h : bytesBackend.skipN s n = .ok (b, s')) :
    bytesBackend.avail s' + n ≤ bytesBackend.avail s := by
  simp only [bytesBackend] at h ⊢
  by_cases hk : s.b.length ≥ s.n + n
  · simp only [hk, if_true, Out.ok.injEq, Prod.mk.injEq] at h
    obtain ⟨_, rfl⟩ := h
    simp only
    omega
  · simp [hk] at h

/-- `BytesSkipDecoder`: the translation at the depth and in the start state of `bytesDecNext` -/
theorem Tpl_Skip_eq_bytes (N : ErrNaming) (s : BytesDec) (t : UInt8) (fuel : Nat) (hf : (s.b.length - s.n) + 66 ≤ fuel) :
    liftTpl N.absE (Funcs.Tpl_Skip (iOf bytesBackend N.errOf) fuel s (toI8 t.toNat) 64) =
      skipTplAt bytesBackend Facts.defaultRecursionDepth t s :=
  Tpl_Skip_eq_avail N bytes_dec s t 64 fuel (by omega) (by simp only [bytesBackend]; omega)

theorem read_len (s : Src) (room : Nat) :
    (s.read room).2.2.stream.length + (s.read room).1.length = s.stream.length := by
  unfold Src.read
  cases s.script with
  | nil => simp
  | cons r rest => simp only [List.length_drop, List.length_take]; omega

theorem readFull_len : ∀ (fuel : Nat) (s : Src) (k : Nat) (acc : Bytes),
    (readFullLoop fuel s k acc).2.2.stream.length + (readFullLoop fuel s k acc).1.length = s.stream.length + acc.length ∧
    ((readFullLoop fuel s k acc).2.1 = none → k ≤ (readFullLoop fuel s k acc).1.length) := by
  intro fuel
  induction fuel with
  | zero => intro s k acc; simp [readFullLoop]
  | succ fuel ih =>
    intro s k acc
    unfold readFullLoop
    by_cases hk : acc.length ≥ k
    · rw [if_pos hk]
      exact ⟨rfl, fun _ => hk⟩
    · rw [if_neg hk]
      have hr := read_len s (k - acc.length)
      simp only []
      generalize s.read (k - acc.length) = res at hr ⊢
      obtain ⟨dt, e, s2⟩ := res
      cases e with
      | some e =>
        simp only [List.length_append] at hr ⊢
        exact ⟨by omega, fun h => by cases h⟩
      | none =>
        simp only at hr ⊢
        obtain ⟨h1, h2⟩ := ih s2 k (acc ++ dt)
        simp only [List.length_append] at h1
        exact ⟨by omega, h2⟩

theorem reader_dec (s : ReaderDec) (n : Nat) (b : Bytes) (s' : ReaderDec) (h : readerBackend.skipN s n = .ok (b, s')) :
    readerBackend.avail s' + n ≤ readerBackend.avail s := by
  simp only [readerBackend] at h ⊢
  obtain ⟨h1, h2⟩ := readFull_len (s.src.script.length + 2) s.src n []
  generalize readFullLoop (s.src.script.length + 2) s.src n [] = res at h h1 h2
  by_cases hk : res.1.length ≥ n
  · simp only [hk, if_true, Out.ok.injEq, Prod.mk.injEq] at h
    obtain ⟨_, rfl⟩ := h
    simp only [List.length_nil] at h1 ⊢
    omega
  · simp only [hk, if_false] at h
    cases he : res.2.1 with
    | some e => simp [he] at h
    | none => exact absurd (h2 he) hk

/-- `ReaderSkipDecoder`: the translation at the depth of `readerDecNext` -/
theorem Tpl_Skip_eq_reader (N : ErrNaming) (s : ReaderDec) (t : UInt8) (fuel : Nat)
    (hf : s.src.stream.length + 66 ≤ fuel) :
    liftTpl N.absE (Funcs.Tpl_Skip (iOf readerBackend N.errOf) fuel s (toI8 t.toNat) 64) =
      skipTplAt readerBackend Facts.defaultRecursionDepth t s :=
  Tpl_Skip_eq_avail N reader_dec s t 64 fuel (by omega) (by simp only [readerBackend]; omega)

/-! ### SkipDecoder over a bufiox.Reader: the measure is what the reader still owes beyond the peeked window -/

/-- invariant of the bufiox back end during one `Next(t)`: the reader invariant, the window inside what the reader
    owes, and requests in the range in which the reader MODEL is well behaved (`Rd.Small`, Lemmas/ReaderOps) -/
def BufioxOK (s : BufioxDec) : Prop :=
  Inv s.r ∧ s.rn ≤ s.r.remaining.length ∧ s.r.remaining.length + s.r.ri + 34359738368 ≤ 9223372036854775808

def bufioxMu (s : BufioxDec) : Nat := s.r.remaining.length - s.rn

theorem bufiox_meas : Meas bufioxBackend bufioxMu BufioxOK := by
  constructor
  · intro s k b s' hp hk h
    obtain ⟨hinv, hrn, hsm⟩ := hp
    have hn : ((s.rn + k : Nat) : Int).toNat = s.rn + k := Int.toNat_natCast _
    simp only [bufioxBackend] at h
    rcases peek_cases s.r ((s.rn + k : Nat) : Int) hinv (by unfold Rd.Small; rw [hn]; omega) with
      ⟨hneg, _⟩ | ⟨_, m, r1, _, hpost, ⟨hgt, hpk⟩ | ⟨hle, hpk⟩⟩
    · omega
    · have he := (hpost.short hgt).1
      rw [hpk] at h
      cases hre : r1.err with
      | none => exact absurd hre he
      | some e => simp [hre] at h
    · rw [hpk] at h
      simp only at h
      by_cases hov : s.rn > ((r1.buf.drop r1.ri).take ((s.rn + k : Nat) : Int).toNat).length
      · rw [if_pos hov] at h; cases h
      · rw [if_neg hov] at h
        simp only [Out.ok.injEq, Prod.mk.injEq] at h
        obtain ⟨_, rfl⟩ := h
        have hen := hpost.enough hle
        have hrem := hpost.remaining hinv.ri_le
        have hri := hpost.ri
        rw [hn] at hen
        have hlen : r1.buf.length - r1.ri ≤ r1.remaining.length := by
          unfold Rd.remaining; simp only [List.length_append, List.length_drop]; omega
        rw [hrem] at hlen
        simp only [BufioxOK, bufioxMu, hrem, hri]
        exact ⟨⟨hpost.inv, by omega, hsm⟩, by omega⟩
  · intro s _
    simp only [bufioxBackend, bufioxMu, Rd.avail, Rd.remaining, List.length_append, List.length_drop]
    omega

/-- `SkipDecoder` over a bufiox reader: the translation at the depth and in the start state of `bufioxDecNext` -/
theorem Tpl_Skip_eq_bufiox (N : ErrNaming) (r : Rd) (t : UInt8) (fuel : Nat) (hinv : Inv r)
    (hsm : r.remaining.length + r.ri + 34359738368 ≤ 9223372036854775808) (hf : r.remaining.length + 66 ≤ fuel) :
    liftTpl N.absE (Funcs.Tpl_Skip (iOf bufioxBackend N.errOf) fuel { r := r, rn := 0 } (toI8 t.toNat) 64) =
      skipTplAt bufioxBackend Facts.defaultRecursionDepth t { r := r, rn := 0 } :=
  Tpl_Skip_eq N bufiox_meas { r := r, rn := 0 } t 64 fuel ⟨hinv, Nat.zero_le _, hsm⟩ (by omega)
    (by simp only [bufioxMu]; omega)

/-! ## the generated function computes (non-vacuity) -/

/-- the translation over the bytes back end, from offset 0 -/
def tplBytes (fuel : Nat) (b : Bytes) (t : Int) : GM (BytesDec × GoErr) :=
  Funcs.Tpl_Skip (iOf bytesBackend errOfStd) fuel { b := b, n := 0 } t 64

-- an i32
example : tplBytes 80 [0, 0, 0, 1] 8 = .ok ({ b := [0, 0, 0, 1], n := 4 }, GoErr.nil) := by decide +kernel
-- a struct {1: i32 5} (STRUCT loop)
example : tplBytes 80 [8, 0, 1, 0, 0, 0, 5, 0] 12 = .ok ({ b := [8, 0, 1, 0, 0, 0, 5, 0], n := 8 }, GoErr.nil) := by
  decide +kernel
-- list<string> ["a", ""] (LIST loop), map<string,i32> {"a": 7} (MAP loop), map<i32,i64> x 1 (fast path)
example : (tplBytes 80 [11, 0, 0, 0, 2, 0, 0, 0, 1, 97, 0, 0, 0, 0] 15).bind (fun r => .ok (r.1.n, r.2)) =
    .ok (14, GoErr.nil) := by decide +kernel
example : (tplBytes 80 [11, 8, 0, 0, 0, 1, 0, 0, 0, 1, 97, 0, 0, 0, 7] 13).bind (fun r => .ok (r.1.n, r.2)) =
    .ok (15, GoErr.nil) := by decide +kernel
example : (tplBytes 80 [8, 10, 0, 0, 0, 1, 0, 0, 0, 1, 0, 0, 0, 0, 0, 0, 0, 2] 13).bind (fun r => .ok (r.1.n, r.2)) =
    .ok (18, GoErr.nil) := by decide +kernel
-- errors: the back end's EOF (a raw reader error, by name), negative size, unknown type, depth limit
example : tplBytes 80 [0] 8 = .ok ({ b := [0], n := 0 }, GoErr.named "io.EOF") := by decide +kernel
example : liftTpl absStd (tplBytes 80 [0] 8) = .err (.raw .eof) := by decide +kernel
example : skipTplAt bytesBackend 64 8 { b := [0], n := 0 } = .err (.raw .eof) := by decide +kernel
example : tplBytes 80 [255, 255, 255, 255] 11 =
    .ok ({ b := [255, 255, 255, 255], n := 4 }, GoErr.pe 2 "negative size") := by decide +kernel
example : tplBytes 80 [0] 1 = .ok ({ b := [0], n := 0 }, GoErr.pe 1 "") := by decide +kernel
example : liftTpl absStd (tplBytes 300 (List.replicate 200 12) 12) = .err errDepth := by decide +kernel
-- the naming is injective on what the three back ends produce
example : absStd (errOfStd (.raw (.src 17))) = .raw (.src 17) := absStd_errOfStd _
example : errOfStd (.wrap .noProgress) = GoErr.named "wrap:io.ErrNoProgress" := by decide
-- panics: fuel exhausted (excluded by `hf`), the never-reached negative count, and a back end that returns short
-- slices: `b[0]` / `Uint32(b)` panic in the translation as in the model
example : tplBytes 0 [0] 8 = .panic "nofuel" := by decide +kernel
example : (iOf bytesBackend errOfStd).skipN { b := [], n := 0 } (-1) = .panic "SkipN: negative count" := by
  decide +kernel
def shortBackend : Backend Unit := { skipN := fun _ _ => .ok ([], ()), avail := fun _ => 0 }
example : Funcs.Tpl_Skip (iOf shortBackend errOfStd) 10 () 12 64 = .panic "index" := by decide +kernel
example : skipTplAt shortBackend 64 12 () = .panic "index" := by decide +kernel
example : Funcs.Tpl_Skip (iOf shortBackend errOfStd) 10 () 11 64 = .panic "index" := by decide +kernel
example : skipTplAt shortBackend 64 11 () = .panic "index" := by decide +kernel
-- why `Meas.le_avail` is needed: a back end whose `avail` is NOT an upper bound (three BOOL fields, then STOP, but
-- `avail = 0`): the model's STRUCT loop stops with its own `nofuel`, the translation (fuel 20) finishes
def lyingBackend : Backend Nat :=
  { skipN := fun s n => .ok (List.replicate n (if s < 9 then 2 else 0), s + 1), avail := fun _ => 0 }
example : Funcs.Tpl_Skip (iOf lyingBackend errOfStd) 20 0 12 64 = .ok (10, GoErr.nil) := by decide +kernel
example : skipTplAt lyingBackend 64 12 0 = .panic "nofuel" := by decide +kernel

end Verif.FuncsEq

/-
  Lemmas/Funcs/TplG: `(SkipDecoderTpl[T]).Skip` (self-recursive, three `for` loops, generic over the back end
  `SkipDecoderIface`) TRANSLATED from protocol/thrift/skipdecoder_tpl.go (`Verif.Funcs.Tpl_Skip` and its loop functions
  over an abstract `SkipNI ρ`: generated) is the hand-written model `skipTplAt` (Model/SkipStream.lean), for ANY interface
  value `I : SkipNI ρ` over ANY Go-side state type `ρ` that IMPLEMENTS a model back end `B : Backend σ` through an
  abstraction relation `R : ρ → σ → Prop` (Go-side state, model state):

      Impl N R I B P :  ∀ p s n, R p s → P s → 0 ≤ n ≤ 2^35 → SSim N R (I.skipN p n) (B.skipN s n.toNat)

  (`SSim`: success with the same bytes and `R`-related new states; an error value `e ≠ nil` with `N.absE e` = the model's
  error — whatever the Go state and the returned slice next to the error are —; the same panic).  A relation rather than
  a function so that it can carry a Go-side typing invariant the model state cannot express (`0 ≤ p.n` for an `int`
  offset the model keeps as a `Nat`).  Only model states satisfying the back-end invariant `P` and only counts in
  `0 … 2^35` matter: the generic code never passes anything else (the fixed sizes are `> 0`, the STRING size and the
  counts are tested `< 0` first, the products are `< 2^31 * 16`) — the proof shows it, so what `I.skipN` does on a
  negative count is irrelevant.

      Tpl_Skip_simG : Meas B μ P → Impl N R I B P → R p s → P s → d < 2^63 → μ s + d + 2 ≤ fuel →
          GSim N R (Funcs.Tpl_Skip I fuel p (toI8 t.toNat) d) (skipTplAt B d t s)
      Tpl_Skip_eqG  : the same as an equation through `liftTplG` when `R p s → s = α p`

  This is the ONE simulation proof about the generic skipper: `Tpl.Tpl_Skip_sim` / `Tpl_Skip_eq*` (Lemmas/Funcs/Tpl.lean:
  the model back end itself as the interface value, `ρ = σ`, `R = Eq`, `I = iOf B N.errOf`) and `BSD_Next` / `SD_Next`
  (Lemmas/Funcs/Dec.lean: the interface value built from the receiver's own TRANSLATED `SkipN`) are instances.

  This file also holds what both need: the error naming (`ErrNaming`, `stdNaming`), `iOf`, `liftTpl`, the measure `Meas`
  (see Tpl.lean for the discussion of errors and fuel) and the model-only lemmas (`skipTplAt_dec`: a successful skip
  consumes).

  Shape-robustness (the generated definition changes with every harmless refactoring of the Go source):
  * the generated LOOP functions are never mentioned: their names are numbered in source order and their parameter
    lists follow the variables the loop reads, so both change when clauses are reordered or a sub-expression is
    hoisted.  `counted_simG` (MAP, LIST/SET) and `struct_simG` are about ANY function `L` whose one-step unfolding
    (`step`, proved by `rfl` at the use site, where unification finds `L`, the loop test `cond`, the counter update
    `next` and the depth expression) is: test, recursive calls for the element types, continue. The counting direction
    only enters through `Iter cond next i cnt` ("the counter makes exactly `cnt` more iterations"), for which there is
    one lemma per idiom (`iter_up`: `for i := 0; i < sz; i++`, `iter_down`: `for n := sz; n > 0; n--`).  The STRUCT loop
    may be left by `break` or by `return nil` (`stopR`).
  * the `switch` is handled by a semantic case split on the type byte in which every test is decided, so the order of
    the clauses does not matter; the byte counts are normalised by `wrap_add_small / wrap_mul_l / wrap_mul_r` whatever
    the order of the operands; a `SkipN` call is `GSim.call` (continuations on both sides) whatever follows it.
-/
import Verif.Lemmas.Funcs.Skip
import Verif.Model.SkipStream
set_option linter.unusedSimpArgs false
namespace Verif.FuncsEq
open Verif Verif.GoSem

/-! ## errors: naming the model's `TErr` values as Go error values -/

/-- an injection of the model's errors into `GoErr` (never `nil`) with a left inverse that reads a protocol exception
    by its type id -/
structure ErrNaming where
  errOf : TErr → GoErr
  absE : GoErr → TErr
  ne_nil : ∀ e, errOf e ≠ GoErr.nil
  inv : ∀ e, absE (errOf e) = e
  pe : ∀ id msg, absE (GoErr.pe id msg) = TErr.pe id

def rName : RErr → String
  | .eof => "io.EOF"
  | .noProgress => "io.ErrNoProgress"
  | .negCount => "bufiox.errNegativeCount"
  | .src k => "src#" ++ Nat.repr k

def rOfChars (cs : List Char) : RErr :=
  if cs.take 4 = ['s', 'r', 'c', '#'] then .src (Nat.ofDigitChars 10 (cs.drop 4) 0)
  else if cs = "io.EOF".toList then .eof
  else if cs = "io.ErrNoProgress".toList then .noProgress
  else .negCount

theorem rName_src (k : Nat) : (rName (.src k)).toList = 's' :: 'r' :: 'c' :: '#' :: Nat.toDigits 10 k := by
  have h : "src#".toList = ['s', 'r', 'c', '#'] := by decide
  simp only [rName, String.toList_append, Nat.toList_repr, h, List.cons_append, List.nil_append]

theorem rOfChars_rName (e : RErr) : rOfChars (rName e).toList = e := by
  cases e with
  | eof => decide
  | noProgress => decide
  | negCount => decide
  | src k =>
    rw [rName_src]
    simp [rOfChars, Nat.ofDigitChars_ten_toDigits]

/-- the standard naming: a raw reader error by its name, a wrapped one as `GoSem.wrapErr` names it -/
def errOfStd : TErr → GoErr
  | .pe id => .pe id ""
  | .raw e => .named (rName e)
  | .wrap e => .named ("wrap:" ++ rName e)

def absStd : GoErr → TErr
  | .nil => .pe 0
  | .pe id _ => .pe id
  | .named s =>
    if s.toList.take 5 = ['w', 'r', 'a', 'p', ':'] then .wrap (rOfChars (s.toList.drop 5)) else .raw (rOfChars s.toList)

theorem absStd_errOfStd (e : TErr) : absStd (errOfStd e) = e := by
  cases e with
  | pe id => rfl
  | wrap e =>
    have h : "wrap:".toList = ['w', 'r', 'a', 'p', ':'] := by decide
    simp [errOfStd, absStd, String.toList_append, h, rOfChars_rName]
  | raw e =>
    have h : (rName e).toList.take 5 ≠ ['w', 'r', 'a', 'p', ':'] := by
      cases e with
      | eof => decide
      | noProgress => decide
      | negCount => decide
      | src k => rw [rName_src]; simp
    simp [errOfStd, absStd, h, rOfChars_rName]

theorem wrapErr_errOfStd (e : RErr) : wrapErr (errOfStd (.raw e)) = errOfStd (.wrap e) := rfl

def stdNaming : ErrNaming where
  errOf := errOfStd
  absE := absStd
  ne_nil e := by cases e <;> simp [errOfStd]
  inv := absStd_errOfStd
  pe _ _ := rfl

/-! ## the model back end as an instance of the abstract Go interface; the lift -/

/-- `B : Backend σ` as a `SkipDecoderIface` value. A negative count is never passed by `SkipDecoderTpl.Skip`
    (`Tpl_Skip_sim` never reaches that branch). -/
def iOf {σ : Type} (B : Backend σ) (errOf : TErr → GoErr) : SkipNI σ where
  skipN s n :=
    if n < 0 then .panic "SkipN: negative count"
    else match B.skipN s n.toNat with
      | .ok r => .ok ((r.1, GoErr.nil), r.2)
      | .err e => .ok (([], errOf e), s)
      | .panic m => .panic m
      | .oob => .oob

/-- result `(p, err)` of the translated `Skip` (receiver state afterwards, error) as the model's `TOut σ` -/
def liftTpl {σ : Type} (absE : GoErr → TErr) (x : GM (σ × GoErr)) : TOut σ :=
  match x with
  | .ok r => if r.2 = GoErr.nil then .ok r.1 else .err (absE r.2)
  | .panic s => .panic s
  | .oob => .oob
  | .err e => nomatch e

theorem iOf_skipN {σ : Type} (B : Backend σ) (errOf : TErr → GoErr) (s : σ) (n : Int) (h : 0 ≤ n) :
    (iOf B errOf).skipN s n =
      match B.skipN s n.toNat with
      | .ok r => .ok ((r.1, GoErr.nil), r.2)
      | .err e => .ok (([], errOf e), s)
      | .panic m => .panic m
      | .oob => .oob := by
  have h : ¬ (n < 0) := by omega
  simp only [iOf, h, if_false]

/-- a measure of what the back end can still deliver, under a back-end invariant `P` -/
structure Meas {σ : Type} (B : Backend σ) (μ : σ → Nat) (P : σ → Prop) : Prop where
  dec : ∀ s n b s', P s → n ≤ 34359738368 → B.skipN s n = .ok (b, s') → P s' ∧ μ s' + n ≤ μ s
  le_avail : ∀ s, P s → μ s ≤ B.avail s


namespace Tpl
variable {σ : Type}

/-- `b[k]` in the translation: the model's `idx` with the byte as an integer -/
theorem gidx_nat (b : Bytes) (k : Nat) :
    GoSem.idx b (k : Int) = match b[k]? with | some x => .ok ((x.toNat : Nat) : Int) | none => .panic "index" := by
  have h : ¬ ((k : Int) < 0) := by omega
  simp only [GoSem.idx, h, if_false, Int.toNat_natCast]
  cases b[k]? <;> rfl

theorem gidx0 (b : Bytes) :
    GoSem.idx b 0 = match b[0]? with | some x => .ok ((x.toNat : Nat) : Int) | none => .panic "index" := gidx_nat b 0
theorem gidx1 (b : Bytes) :
    GoSem.idx b 1 = match b[1]? with | some x => .ok ((x.toNat : Nat) : Int) | none => .panic "index" := gidx_nat b 1


/-! ## the model consumes: a successful `skipTplAt` lowers the measure by at least 1 -/

theorem bind_ok_inv {ε α β : Type} {x : Out ε α} {f : α → Out ε β} {b : β} (h : x.bind f = .ok b) :
    ∃ a, x = .ok a ∧ f a = .ok b := by
  cases x with
  | ok a => exact ⟨a, rfl, h⟩
  | err e => cases h
  | panic m => cases h
  | oob => cases h

theorem tplListLoop_le {μ : σ → Nat} {P : σ → Prop} {rec' : UInt8 → σ → TOut σ}
    (hrec : ∀ s t s', P s → rec' t s = .ok s' → P s' ∧ μ s' + 1 ≤ μ s) (vt : UInt8) :
    ∀ cnt s s', P s → tplListLoop rec' vt cnt s = .ok s' → P s' ∧ μ s' ≤ μ s := by
  intro cnt
  induction cnt with
  | zero => intro s s' hp h; simp only [tplListLoop, Out.ok.injEq] at h; subst h; exact ⟨hp, Nat.le_refl _⟩
  | succ cnt ih =>
    intro s s' hp h
    simp only [tplListLoop, Out.bind_eq] at h
    obtain ⟨s1, h1, h2⟩ := bind_ok_inv h
    obtain ⟨hp1, _⟩ := hrec _ _ _ hp h1
    obtain ⟨hp2, _⟩ := ih _ _ hp1 h2
    exact ⟨hp2, by omega⟩

theorem tplMapLoop_le {μ : σ → Nat} {P : σ → Prop} {rec' : UInt8 → σ → TOut σ}
    (hrec : ∀ s t s', P s → rec' t s = .ok s' → P s' ∧ μ s' + 1 ≤ μ s) (kt vt : UInt8) :
    ∀ cnt s s', P s → tplMapLoop rec' kt vt cnt s = .ok s' → P s' ∧ μ s' ≤ μ s := by
  intro cnt
  induction cnt with
  | zero => intro s s' hp h; simp only [tplMapLoop, Out.ok.injEq] at h; subst h; exact ⟨hp, Nat.le_refl _⟩
  | succ cnt ih =>
    intro s s' hp h
    simp only [tplMapLoop, Out.bind_eq] at h
    obtain ⟨s1, h1, h2⟩ := bind_ok_inv h
    obtain ⟨s2, h3, h4⟩ := bind_ok_inv h2
    obtain ⟨hp1, _⟩ := hrec _ _ _ hp h1
    obtain ⟨hp2, _⟩ := hrec _ _ _ hp1 h3
    obtain ⟨hp3, _⟩ := ih _ _ hp2 h4
    exact ⟨hp3, by omega⟩

theorem tplStructLoop_lt {B : Backend σ} {μ : σ → Nat} {P : σ → Prop} (hM : Meas B μ P) {rec' : UInt8 → σ → TOut σ}
    (hrec : ∀ s t s', P s → rec' t s = .ok s' → P s' ∧ μ s' + 1 ≤ μ s) :
    ∀ fuel s s', P s → tplStructLoop B rec' fuel s = .ok s' → P s' ∧ μ s' + 1 ≤ μ s := by
  intro fuel
  induction fuel with
  | zero => intro s s' _ h; simp [tplStructLoop] at h
  | succ fuel ih =>
    intro s s' hp h
    simp only [tplStructLoop, Out.bind_eq] at h
    obtain ⟨⟨b, s1⟩, h1, h2⟩ := bind_ok_inv h
    obtain ⟨hp1, d1⟩ := hM.dec _ _ _ _ hp (by omega) h1
    obtain ⟨tp, _, h3⟩ := bind_ok_inv h2
    by_cases hstop : tp = T_STOP
    · simp only [hstop, if_true, Out.pure_eq, Out.ok.injEq] at h3
      subst h3; exact ⟨hp1, by omega⟩
    · simp only [hstop, if_false] at h3
      obtain ⟨⟨b2, s2⟩, h4, h5⟩ := bind_ok_inv h3
      obtain ⟨hp2, d2⟩ := hM.dec _ _ _ _ hp1 (by omega) h4
      obtain ⟨s3, h6, h7⟩ := bind_ok_inv h5
      dsimp only at h6
      obtain ⟨hp3, _⟩ := hrec _ _ _ hp2 h6
      obtain ⟨hp4, _⟩ := ih _ _ hp3 h7
      exact ⟨hp4, by omega⟩

theorem u32of_ok {b : Bytes} {v : Nat} (h : u32of b = .ok v) : (toI32 v).toNat < 2147483648 := by
  unfold u32of at h
  by_cases h4 : 4 ≤ b.length
  · simp only [h4, if_true, Out.ok.injEq] at h
    subst h
    have := toI32_range _ (rd32_lt b)
    omega
  · simp [h4] at h

/-- every successful `SkipDecoderTpl.Skip` consumes at least one unit of the measure (and keeps the invariant) -/
theorem skipTplAt_dec {B : Backend σ} {μ : σ → Nat} {P : σ → Prop} (hM : Meas B μ P) :
    ∀ d t s s', P s → skipTplAt B d t s = .ok s' → P s' ∧ μ s' + 1 ≤ μ s := by
  intro d
  induction d with
  | zero => intro t s s' _ h; simp [skipTplAt] at h
  | succ d ih =>
    intro t s s' hp h
    have hrec : ∀ s t s', P s → skipTplAt B d t s = .ok s' → P s' ∧ μ s' + 1 ≤ μ s := fun s t s' hp h => ih t s s' hp h
    simp only [skipTplAt, typeSize_eq, Out.bind_eq, Out.bind_ok, Int.toNat_natCast] at h
    by_cases hfix : ((fixedSize t : Nat) : Int) > 0
    · simp only [hfix, if_true] at h
      obtain ⟨⟨b, s1⟩, h1, h2⟩ := bind_ok_inv h
      have := fixedSize_le t
      obtain ⟨hp1, _⟩ := hM.dec _ _ _ _ hp (by omega) h1
      simp only [Out.pure_eq, Out.ok.injEq] at h2
      subst h2; exact ⟨hp1, by omega⟩
    · simp only [hfix, if_false] at h
      by_cases hstr : t = T_STRING
      · simp only [hstr, if_true] at h
        obtain ⟨⟨b, s1⟩, h1, h2⟩ := bind_ok_inv h
        obtain ⟨hp1, _⟩ := hM.dec _ _ _ _ hp (by omega) h1
        obtain ⟨v, hv, h3⟩ := bind_ok_inv h2
        have hvl := u32of_ok hv
        by_cases hn : toI32 v < 0
        · simp [hn] at h3
        · simp only [hn, if_false] at h3
          obtain ⟨⟨b2, s2⟩, h4, h5⟩ := bind_ok_inv h3
          obtain ⟨hp2, _⟩ := hM.dec _ _ _ _ hp1 (by omega) h4
          simp only [Out.pure_eq, Out.ok.injEq] at h5
          subst h5; exact ⟨hp2, by omega⟩
      · simp only [hstr, if_false] at h
        by_cases hst : t = T_STRUCT
        · simp only [hst, if_true] at h
          exact tplStructLoop_lt hM hrec _ _ _ hp h
        · simp only [hst, if_false] at h
          by_cases hmap : t = T_MAP
          · simp only [hmap, if_true] at h
            obtain ⟨⟨b, s1⟩, h1, h2⟩ := bind_ok_inv h
            obtain ⟨hp1, _⟩ := hM.dec _ _ _ _ hp (by omega) h1
            obtain ⟨kt, _, h3⟩ := bind_ok_inv h2
            obtain ⟨vt, _, h4⟩ := bind_ok_inv h3
            obtain ⟨v, hv, h5⟩ := bind_ok_inv h4
            have hvl := u32of_ok hv
            by_cases hn : toI32 v < 0
            · simp [hn] at h5
            · simp only [hn, if_false] at h5
              by_cases hfast : ((fixedSize kt : Nat) : Int) > 0 ∧ ((fixedSize vt : Nat) : Int) > 0
              · simp only [hfast, and_self, if_true] at h5
                obtain ⟨⟨b2, s2⟩, h6, h7⟩ := bind_ok_inv h5
                have hk := fixedSize_le kt
                have hv8 := fixedSize_le vt
                have hq : (toI32 v).toNat * (fixedSize kt + fixedSize vt) ≤ 2147483648 * 16 :=
                  Nat.mul_le_mul (by omega) (by omega)
                obtain ⟨hp2, _⟩ := hM.dec _ _ _ _ hp1 (by omega) h6
                simp only [Out.pure_eq, Out.ok.injEq] at h7
                subst h7; exact ⟨hp2, by omega⟩
              · simp only [hfast, if_false] at h5
                obtain ⟨hp2, _⟩ := tplMapLoop_le hrec _ _ _ _ _ hp1 h5
                exact ⟨hp2, by omega⟩
          · simp only [hmap, if_false] at h
            by_cases hlist : t = T_SET ∨ t = T_LIST
            · simp only [hlist, if_true] at h
              obtain ⟨⟨b, s1⟩, h1, h2⟩ := bind_ok_inv h
              obtain ⟨hp1, _⟩ := hM.dec _ _ _ _ hp (by omega) h1
              obtain ⟨vt, _, h3⟩ := bind_ok_inv h2
              obtain ⟨v, hv, h4⟩ := bind_ok_inv h3
              have hvl := u32of_ok hv
              by_cases hn : toI32 v < 0
              · simp [hn] at h4
              · simp only [hn, if_false] at h4
                by_cases hfast : ((fixedSize vt : Nat) : Int) > 0
                · simp only [hfast, if_true] at h4
                  obtain ⟨⟨b2, s2⟩, h6, h7⟩ := bind_ok_inv h4
                  have hv8 := fixedSize_le vt
                  have hq : (toI32 v).toNat * fixedSize vt ≤ 2147483648 * 8 := Nat.mul_le_mul (by omega) hv8
                  obtain ⟨hp2, _⟩ := hM.dec _ _ _ _ hp1 (by omega) h6
                  simp only [Out.pure_eq, Out.ok.injEq] at h7
                  subst h7; exact ⟨hp2, by omega⟩
                · simp only [hfast, if_false] at h4
                  obtain ⟨hp2, _⟩ := tplListLoop_le hrec _ _ _ _ hp1 h4
                  exact ⟨hp2, by omega⟩
            · simp [hlist] at h


theorem beU32_eq (b : Bytes) : beU32 b = if 4 ≤ b.length then .ok (rd32 b : Int) else .panic "index" := by
  unfold beU32
  by_cases h : 4 ≤ b.length
  · have : ¬ b.length < 4 := by omega
    simp [h, this]
  · have : b.length < 4 := by omega
    simp [h, this]

theorem sliceFrom_ok (b : Bytes) (k : Int) (h0 : 0 ≤ k) (h : k ≤ len b) : sliceFrom b k = .ok (b.drop k.toNat) := by
  unfold sliceFrom
  have : ¬ (k < 0 ∨ k > len b) := by omega
  simp [this]


end Tpl

namespace TplG
open Tpl
variable {ρ σ : Type}

/-! ## the relations -/

/-- one `SkipN` call: translation-side outcome `x` against the model back end's outcome `y` -/
inductive SSim (N : ErrNaming) (R : ρ → σ → Prop) : GM ((Bytes × GoErr) × ρ) → TOut (Bytes × σ) → Prop where
  | ok (b : Bytes) (p : ρ) (s : σ) (h : R p s) : SSim N R (.ok ((b, GoErr.nil), p)) (.ok (b, s))
  | err (b : Bytes) (p : ρ) (e : GoErr) (h : e ≠ GoErr.nil) : SSim N R (.ok ((b, e), p)) (.err (N.absE e))
  | panic (m : String) : SSim N R (.panic m) (.panic m)
  | oob : SSim N R .oob .oob

/-- the interface value `I` (Go state `ρ`) implements the model back end `B` (model state `σ`) through `R`, on the
    states satisfying `P` and for the counts the generic code can pass -/
structure Impl (N : ErrNaming) (R : ρ → σ → Prop) (I : SkipNI ρ) (B : Backend σ) (P : σ → Prop) : Prop where
  sim : ∀ p s n, R p s → P s → 0 ≤ n → n ≤ 34359738368 → SSim N R (I.skipN p n) (B.skipN s n.toNat)

/-- `x` (translation, Go state) and `y` (model) are the same outcome, final states `R`-related -/
inductive GSim (N : ErrNaming) (R : ρ → σ → Prop) : GM (ρ × GoErr) → TOut σ → Prop where
  | ok (p : ρ) (s : σ) (h : R p s) : GSim N R (.ok (p, GoErr.nil)) (.ok s)
  | err (p : ρ) (e : GoErr) (h : e ≠ GoErr.nil) : GSim N R (.ok (p, e)) (.err (N.absE e))
  | panic (m : String) : GSim N R (.panic m) (.panic m)
  | oob : GSim N R .oob .oob

/-- result `(p, err)` of the translated `Skip` as the model's `TOut σ`, through an abstraction FUNCTION `α` (the Go state
    next to an error is dropped) -/
def liftTplG (absE : GoErr → TErr) (α : ρ → σ) (x : GM (ρ × GoErr)) : TOut σ :=
  match x with
  | .ok r => if r.2 = GoErr.nil then .ok (α r.1) else .err (absE r.2)
  | .panic s => .panic s
  | .oob => .oob
  | .err e => nomatch e

/-- when the relation determines the model state (`R p s → s = α p`), the simulation is an equation -/
theorem GSim.lift {N : ErrNaming} {R : ρ → σ → Prop} {α : ρ → σ} (hα : ∀ p s, R p s → s = α p)
    {x : GM (ρ × GoErr)} {y : TOut σ} (h : GSim N R x y) : liftTplG N.absE α x = y := by
  cases h with
  | ok p s h => simp [liftTplG, hα p s h]
  | err p e h => simp [liftTplG, h]
  | panic m => rfl
  | oob => rfl

theorem GSim.perr (N : ErrNaming) (R : ρ → σ → Prop) (p : ρ) (id : Int) (msg : String) :
    GSim N R (.ok (p, GoErr.pe id msg)) (.err (TErr.pe id)) := by
  have := GSim.err (N := N) (R := R) p (GoErr.pe id msg) (by simp)
  rwa [N.pe] at this

/-- a `SkipN` call followed by the rest of the function: `K` is what the translation does with the call's result, `K'`
    what the model does; on an error value the translation must return it (`herr`). The model's count is given up to
    an equation (`hy`), so that the order of the factors of a product in the Go source does not matter. -/
theorem GSim.call {N : ErrNaming} {R : ρ → σ → Prop} {x : GM ((Bytes × GoErr) × ρ)} {y y' : TOut (Bytes × σ)}
    {K : (Bytes × GoErr) × ρ → GM (ρ × GoErr)} {K' : Bytes × σ → TOut σ}
    (h : SSim N R x y) (hy : y = y')
    (hok : ∀ b p s, R p s → y' = .ok (b, s) → GSim N R (K ((b, GoErr.nil), p)) (K' (b, s)))
    (herr : ∀ b p e, e ≠ GoErr.nil → K ((b, e), p) = .ok (p, e)) :
    GSim N R (x.bind K) (y'.bind K') := by
  subst hy
  cases h with
  | ok b p s h => exact hok b p s h rfl
  | err b p e h =>
    show GSim N R (K ((b, e), p)) _
    rw [herr b p e h]; exact GSim.err p e h
  | panic m => exact GSim.panic m
  | oob => exact GSim.oob

/-- what the loops assume about the recursive call `rec` (translation, at the depth `dp` the loops pass) and `rec'`
    (model) -/
structure RecOKG (N : ErrNaming) (R : ρ → σ → Prop) (μ : σ → Nat) (P : σ → Prop) (rec : ρ → Int → Int → GM (ρ × GoErr))
    (rec' : UInt8 → σ → TOut σ) (dp : Int) (bound : Nat) : Prop where
  sim : ∀ p s t, R p s → P s → μ s ≤ bound → GSim N R (rec p (toI8 t.toNat) dp) (rec' t s)
  dec : ∀ s t s', P s → rec' t s = .ok s' → P s' ∧ μ s' + 1 ≤ μ s

/-! ## loops, independent of the names, parameter lists and counting direction of the generated loop functions -/

/-- the recursive calls of ONE iteration of a counted loop as the translator emits them: `Skip(t, depth)` for each `t`,
    `return err` after each, then the continuation -/
def seqRec {τ : Type} (rec : ρ → Int → Int → GM (ρ × GoErr)) (dp : Int) :
    List Int → ρ → (ρ → GM (LoopR (ρ × GoErr) τ)) → GM (LoopR (ρ × GoErr) τ)
  | [], p, k => k p
  | t :: ts, p, k => do
    let r ← rec p t dp
    if decide (r.2 ≠ GoErr.nil) then pure (LoopR.ret (r.1, r.2)) else seqRec rec dp ts r.1 k

/-- the model's iteration: `rec' t` for each `t`, then the continuation -/
def seqModel (rec' : UInt8 → σ → TOut σ) : List UInt8 → σ → (σ → TOut σ) → TOut σ
  | [], s, k => k s
  | t :: ts, s, k => (rec' t s).bind (fun s1 => seqModel rec' ts s1 k)

/-- the model's counted loop over the element types `ts` -/
def cntModel (rec' : UInt8 → σ → TOut σ) (ts : List UInt8) : Nat → σ → TOut σ
  | 0, s => .ok s
  | c + 1, s => seqModel rec' ts s (cntModel rec' ts c)

theorem tplListLoop_eq (rec' : UInt8 → σ → TOut σ) (vt : UInt8) :
    ∀ c s, tplListLoop rec' vt c s = cntModel rec' [vt] c s := by
  intro c
  induction c with
  | zero => intro s; rfl
  | succ c ih =>
    intro s
    simp only [tplListLoop, cntModel, seqModel, Out.bind_eq]
    congr 1; funext s1; exact ih s1

theorem tplMapLoop_eq (rec' : UInt8 → σ → TOut σ) (kt vt : UInt8) :
    ∀ c s, tplMapLoop rec' kt vt c s = cntModel rec' [kt, vt] c s := by
  intro c
  induction c with
  | zero => intro s; rfl
  | succ c ih =>
    intro s
    simp only [tplMapLoop, cntModel, seqModel, Out.bind_eq]
    congr 1; funext s1; congr 1; funext s2; exact ih s2

/-- outcome of a translated counted loop against the model loop -/
inductive LSimG (N : ErrNaming) (R : ρ → σ → Prop) : GM (LoopR (ρ × GoErr) (ρ × Int)) → TOut σ → Prop where
  | done (p : ρ) (s : σ) (j : Int) (h : R p s) : LSimG N R (.ok (LoopR.done (p, j))) (.ok s)
  | err (p : ρ) (e : GoErr) (h : e ≠ GoErr.nil) : LSimG N R (.ok (LoopR.ret (p, e))) (.err (N.absE e))
  | panic (m : String) : LSimG N R (.panic m) (.panic m)
  | oob : LSimG N R .oob .oob

theorem seq_simG {N : ErrNaming} {R : ρ → σ → Prop} {μ : σ → Nat} {P : σ → Prop} {rec rec' dp bound}
    (H : RecOKG N R μ P rec rec' dp bound) :
    ∀ (ts : List UInt8) (p : ρ) (s : σ) (k : ρ → GM (LoopR (ρ × GoErr) (ρ × Int))) (k' : σ → TOut σ),
      R p s → P s → μ s ≤ bound →
      (∀ p' s', R p' s' → P s' → μ s' + ts.length ≤ μ s → LSimG N R (k p') (k' s')) →
      LSimG N R (seqRec rec dp (ts.map fun t => toI8 t.toNat) p k) (seqModel rec' ts s k') := by
  intro ts
  induction ts with
  | nil => intro p s k k' hR hp _ hk; exact hk p s hR hp (by simp)
  | cons t ts ih =>
    intro p s k k' hR hp hb hk
    simp only [List.map_cons, seqRec, seqModel, Out.bind_eq]
    have hs := H.sim p s t hR hp hb
    have hd := H.dec s t
    generalize rec p (toI8 t.toNat) dp = x at hs ⊢
    generalize rec' t s = y at hs hd ⊢
    cases hs with
    | ok p1 s1 hR1 =>
      obtain ⟨hp1, hd1⟩ := hd s1 hp rfl
      simp only [Out.bind_ok, ne_eq, not_true_eq_false, decide_false, if_false, Bool.false_eq_true]
      exact ih p1 s1 k k' hR1 hp1 (by omega)
        (fun p' s' hR' hp' hm => hk p' s' hR' hp' (by simp only [List.length_cons]; omega))
    | err p1 e h =>
      simp only [Out.bind_ok, Out.bind_err, ne_eq, h, not_false_eq_true, decide_true, if_true, Out.pure_eq]
      exact LSimG.err _ e h
    | panic m => exact LSimG.panic m
    | oob => exact LSimG.oob

/-- the loop counter `i` makes exactly `c` more iterations: `cond` holds `c` times along `next`, then fails -/
def Iter (cond : Int → Bool) (next : Int → Int) : Int → Nat → Prop
  | i, 0 => cond i = false
  | i, c + 1 => cond i = true ∧ Iter cond next (next i) c

/-- counting up: `for i := 0; i < sz; i++` with an `int32` counter -/
theorem iter_up (cond : Int → Bool) (next : Int → Int) (sz : Nat) (hsz : sz < 2 ^ 31)
    (hc : ∀ i, cond i = decide (i < (sz : Int))) (hn : ∀ i, next i = wrap .i32 (i + 1)) :
    ∀ (c j : Nat), j + c = sz → Iter cond next (j : Int) c := by
  intro c
  induction c with
  | zero =>
    intro j hj
    have h : ¬ ((j : Int) < (sz : Int)) := by omega
    simp [Iter, hc, h]
  | succ c ih =>
    intro j hj
    have h : (j : Int) < (sz : Int) := by omega
    refine ⟨by simp [hc, h], ?_⟩
    have w : next (j : Int) = ((j + 1 : Nat) : Int) := by
      rw [hn, wrap_i32_of_range _ (by omega) (by omega)]; simp
    rw [w]; exact ih (j + 1) (by omega)

/-- counting down: `for n := sz; n > 0; n--` with an `int32` counter -/
theorem iter_down (cond : Int → Bool) (next : Int → Int)
    (hc : ∀ i, cond i = decide (i > 0)) (hn : ∀ i, next i = wrap .i32 (i - 1)) :
    ∀ (c : Nat), c < 2 ^ 31 → Iter cond next (c : Int) c := by
  intro c
  induction c with
  | zero => intro _; simp [Iter, hc]
  | succ c ih =>
    intro h
    have h0 : ((c + 1 : Nat) : Int) > 0 := by omega
    refine ⟨by rw [hc]; exact decide_eq_true h0, ?_⟩
    have w : next ((c + 1 : Nat) : Int) = (c : Int) := by
      rw [hn, wrap_i32_of_range _ (by omega) (by omega)]; omega
    rw [w]; exact ih (by omega)

/-- a counted loop (MAP: `ts = [kt, vt]`, LIST/SET: `ts = [vt]`), whatever the generated loop function `L` is called,
    whatever parameters it takes and in whichever direction it counts: one iteration (`step`) tests the counter, makes
    the recursive calls and goes on with the next counter value; the counter makes exactly `cnt` iterations (`Iter`). -/
theorem counted_simG {N : ErrNaming} {R : ρ → σ → Prop} {μ : σ → Nat} {P : σ → Prop} {rec rec' dp bound}
    (H : RecOKG N R μ P rec rec' dp bound) (L : Nat → ρ → Int → GM (LoopR (ρ × GoErr) (ρ × Int)))
    (cond : Int → Bool) (next : Int → Int) (dp' : Int) (ts : List UInt8) (hts : 0 < ts.length)
    (step : ∀ f p i, L (f + 1) p i =
      if cond i = true then seqRec rec dp' (ts.map fun t => toI8 t.toNat) p (fun p' => L f p' (next i))
      else pure (LoopR.done (p, i)))
    (hdp : dp' = dp) :
    ∀ (cnt : Nat) (i : Int), Iter cond next i cnt → ∀ (f : Nat) (p : ρ) (s : σ), R p s → μ s + 1 ≤ f → μ s ≤ bound →
      P s → LSimG N R (L f p i) (cntModel rec' ts cnt s) := by
  subst hdp
  intro cnt
  induction cnt with
  | zero =>
    intro i hi f p s hR hf _ _
    cases f with
    | zero => omega
    | succ f =>
      have hc : cond i = false := hi
      rw [step, if_neg (by simp [hc])]
      exact LSimG.done p s i hR
  | succ cnt ih =>
    intro i hi f p s hR hf hb hp
    cases f with
    | zero => omega
    | succ f =>
      obtain ⟨hc, hi'⟩ := hi
      rw [step, if_pos hc]
      exact seq_simG H ts p s _ _ hR hp hb
        (fun p' s' hR' hp' hm => ih (next i) hi' f p' s' hR' (by omega) (by omega) hp')

/-- outcome of the translated STRUCT loop against the model loop; `stopR p` is what the loop function yields at the STOP
    field (`break`: `LoopR.done p`, or `return nil`: `LoopR.ret (p, nil)`) -/
inductive LSim1G (N : ErrNaming) (R : ρ → σ → Prop) (stopR : ρ → LoopR (ρ × GoErr) ρ) :
    GM (LoopR (ρ × GoErr) ρ) → TOut σ → Prop where
  | stop (p : ρ) (s : σ) (h : R p s) : LSim1G N R stopR (.ok (stopR p)) (.ok s)
  | err (p : ρ) (e : GoErr) (h : e ≠ GoErr.nil) : LSim1G N R stopR (.ok (LoopR.ret (p, e))) (.err (N.absE e))
  | panic (m : String) : LSim1G N R stopR (.panic m) (.panic m)
  | oob : LSim1G N R stopR .oob .oob

/-- the STRUCT loop, whatever the generated loop function `L` is called and however it is left at STOP -/
theorem struct_simG {N : ErrNaming} {R : ρ → σ → Prop} {I : SkipNI ρ} {B : Backend σ} {μ : σ → Nat} {P : σ → Prop}
    {rec rec' dp bound} (hM : Meas B μ P) (hI : Impl N R I B P) (H : RecOKG N R μ P rec rec' dp bound)
    (L : Nat → ρ → GM (LoopR (ρ × GoErr) ρ)) (stopR : ρ → LoopR (ρ × GoErr) ρ) (dp' : Int)
    (step : ∀ f p, L (f + 1) p = do
      let t ← I.skipN p 1
      if decide (t.1.2 ≠ GoErr.nil) then pure (LoopR.ret (t.2, t.1.2)) else do
      let x ← GoSem.idx t.1.1 0
      if decide (wrap .i8 x = 0) then pure (stopR t.2) else do
      let t2 ← I.skipN t.2 2
      if decide (t2.1.2 ≠ GoErr.nil) then pure (LoopR.ret (t2.2, t2.1.2)) else do
      let r ← rec t2.2 (wrap .i8 x) dp'
      if decide (r.2 ≠ GoErr.nil) then pure (LoopR.ret (r.1, r.2)) else L f r.1)
    (hdp : dp' = dp) :
    ∀ (f1 f2 : Nat) (p : ρ) (s : σ), R p s → μ s + 1 ≤ f1 → μ s + 1 ≤ f2 → μ s ≤ bound → P s →
      LSim1G N R stopR (L f1 p) (tplStructLoop B rec' f2 s) := by
  subst hdp
  intro f1
  induction f1 with
  | zero => intro f2 p s _ hf; omega
  | succ f1 ih =>
    intro f2 p s hR hf1 hf2 hb hp
    cases f2 with
    | zero => omega
    | succ f2 =>
      rw [step, tplStructLoop]
      have hc := hI.sim p s 1 hR hp (by omega) (by omega)
      have e1 : (1 : Int).toNat = 1 := rfl
      rw [e1] at hc
      generalize I.skipN p 1 = x at hc ⊢
      generalize hsk : B.skipN s 1 = y at hc ⊢
      cases hc with
      | ok b p1 s1 hR1 =>
        obtain ⟨hp1, hd1⟩ := hM.dec _ _ _ _ hp (by omega) hsk
        simp only [Out.bind_eq, Out.bind_ok, ne_eq, not_true_eq_false, decide_false, if_false, Bool.false_eq_true]
        rw [gidx0, Verif.idx]
        cases hb0 : b[0]? with
        | none => exact LSim1G.panic _
        | some tp =>
          simp only [Out.bind_ok, wrap_i8_nat _ tp.toNat_lt]
          by_cases hstop : tp = T_STOP
          · have c0 : toI8 tp.toNat = 0 := (toI8_eq_0 tp).mpr hstop
            simp only [if_pos hstop, c0, decide_true, if_true, Out.pure_eq]
            exact LSim1G.stop p1 s1 hR1
          · have c0 : ¬ toI8 tp.toNat = 0 := fun h => hstop ((toI8_eq_0 tp).mp h)
            simp only [if_neg hstop, c0, decide_false, if_false, Bool.false_eq_true]
            have hc2 := hI.sim p1 s1 2 hR1 hp1 (by omega) (by omega)
            have e2 : (2 : Int).toNat = 2 := rfl
            rw [e2] at hc2
            generalize I.skipN p1 2 = x2 at hc2 ⊢
            generalize hsk2 : B.skipN s1 2 = y2 at hc2 ⊢
            cases hc2 with
            | ok b2 p2 s2 hR2 =>
              obtain ⟨hp2, hd2⟩ := hM.dec _ _ _ _ hp1 (by omega) hsk2
              simp only [Out.bind_ok, ne_eq, not_true_eq_false, decide_false, if_false, Bool.false_eq_true]
              have hs := H.sim p2 s2 tp hR2 hp2 (by omega)
              have hd := H.dec s2 tp
              generalize rec p2 (toI8 tp.toNat) dp' = x3 at hs ⊢
              generalize rec' tp s2 = y3 at hs hd ⊢
              cases hs with
              | ok p3 s3 hR3 =>
                obtain ⟨hp3, hd3⟩ := hd s3 hp2 rfl
                simp only [Out.bind_ok, ne_eq, not_true_eq_false, decide_false, if_false, Bool.false_eq_true]
                exact ih f2 p3 s3 hR3 (by omega) (by omega) (by omega) hp3
              | err p3 e h =>
                simp only [Out.bind_ok, Out.bind_err, ne_eq, h, not_false_eq_true, decide_true, if_true, Out.pure_eq]
                exact LSim1G.err _ e h
              | panic m => exact LSim1G.panic m
              | oob => exact LSim1G.oob
            | err b2 p2 e h =>
              simp only [Out.bind_ok, Out.bind_err, ne_eq, h, not_false_eq_true, decide_true, if_true, Out.pure_eq]
              exact LSim1G.err _ e h
            | panic m => exact LSim1G.panic m
            | oob => exact LSim1G.oob
      | err b p1 e h =>
        simp only [Out.bind_eq, Out.bind_ok, Out.bind_err, ne_eq, h, not_false_eq_true, decide_true, if_true,
          Out.pure_eq]
        exact LSim1G.err _ e h
      | panic m => exact LSim1G.panic m
      | oob => exact LSim1G.oob

/-- a counted loop followed by what the function does with its outcome (`K`: `return` passed on, `done` = `nil`) -/
theorem GSim.of_counted {N : ErrNaming} {R : ρ → σ → Prop} {x : GM (LoopR (ρ × GoErr) (ρ × Int))} {y : TOut σ}
    {K : LoopR (ρ × GoErr) (ρ × Int) → GM (ρ × GoErr)} (h : LSimG N R x y)
    (hd : ∀ q, K (LoopR.done q) = .ok (q.1, GoErr.nil)) (hr : ∀ r, K (LoopR.ret r) = .ok r) :
    GSim N R (x.bind K) y := by
  cases h with
  | done p s j h => show GSim N R (K _) _; rw [hd]; exact GSim.ok p s h
  | err p e h => show GSim N R (K _) _; rw [hr]; exact GSim.err p e h
  | panic m => exact GSim.panic m
  | oob => exact GSim.oob

/-- the STRUCT loop followed by what the function does with its outcome -/
theorem GSim.of_struct {N : ErrNaming} {R : ρ → σ → Prop} {stopR : ρ → LoopR (ρ × GoErr) ρ}
    {x : GM (LoopR (ρ × GoErr) ρ)} {y : TOut σ} {K : LoopR (ρ × GoErr) ρ → GM (ρ × GoErr)} (h : LSim1G N R stopR x y)
    (hs : ∀ p, K (stopR p) = .ok (p, GoErr.nil)) (hr : ∀ r, K (LoopR.ret r) = .ok r) :
    GSim N R (x.bind K) y := by
  cases h with
  | stop p s h => show GSim N R (K _) _; rw [hs]; exact GSim.ok p s h
  | err p e h => show GSim N R (K _) _; rw [hr]; exact GSim.err p e h
  | panic m => exact GSim.panic m
  | oob => exact GSim.oob


/-! ## arithmetic of the byte counts: no `int` wraps, whatever the order of the operands in the Go source -/

theorem wrap_add_small (a b : Nat) (ha : a ≤ 8) (hb : b ≤ 8) :
    wrap .i64 ((a : Int) + (b : Int)) = ((a + b : Nat) : Int) := by
  rw [wrap_i64_of_range _ (by omega) (by omega)]; simp

theorem wrap_mul_l (a b : Nat) (ha : a < 2 ^ 31) (hb : b ≤ 16) :
    wrap .i64 ((a : Int) * (b : Int)) = ((a * b : Nat) : Int) := by
  have hq : a * b ≤ 2 ^ 31 * 16 := Nat.mul_le_mul (by omega) hb
  rw [← Int.natCast_mul]
  generalize a * b = q at hq
  rw [wrap_i64_of_range _ (by omega) (by omega)]

theorem wrap_mul_r (a b : Nat) (ha : a < 2 ^ 31) (hb : b ≤ 16) :
    wrap .i64 ((b : Int) * (a : Int)) = ((a * b : Nat) : Int) := by
  rw [Int.mul_comm]; exact wrap_mul_l a b ha hb

/-- discharges `herr` of `GSim.call`: on an error value the translation returns it -/
macro "herr_disch" : tactic => `(tactic| (intro _ _ _ h; first | rfl | simp [h, Out.pure_eq]))

/-! ## the whole function, by induction on the depth -/

theorem recOK_of_ihG (N : ErrNaming) {R : ρ → σ → Prop} {I : SkipNI ρ} {B : Backend σ} {μ : σ → Nat} {P : σ → Prop}
    (hM : Meas B μ P) (d f bound : Nat) (hf : bound + d + 2 ≤ f)
    (ih : ∀ (f : Nat) (p : ρ) (s : σ) (t : UInt8) (D : Int), R p s → P s → μ s + d + 2 ≤ f → D = (d : Int) →
      GSim N R (Funcs.Tpl_Skip I f p (toI8 t.toNat) D) (skipTplAt B d t s)) :
    RecOKG N R μ P (fun a0 a1 a2 => Funcs.Tpl_Skip I f a0 a1 a2) (skipTplAt B d) (d : Int) bound := by
  constructor
  · intro p s t hR hp hb
    exact ih f p s t _ hR hp (by omega) rfl
  · intro s t s' hp h
    exact skipTplAt_dec hM d t s s' hp h

/-- `SkipDecoderTpl.Skip`, whole function, translated from the Go source, instantiated with any interface value that
    implements the model back end `B`: the model `skipTplAt B`, final states `R`-related, error and panics included -/
theorem Tpl_Skip_simG (N : ErrNaming) {R : ρ → σ → Prop} {I : SkipNI ρ} {B : Backend σ} {μ : σ → Nat} {P : σ → Prop}
    (hM : Meas B μ P) (hI : Impl N R I B P) :
    ∀ (d f : Nat) (p : ρ) (s : σ) (t : UInt8) (D : Int), R p s → d < 2 ^ 63 → P s → μ s + d + 2 ≤ f → D = (d : Int) →
      GSim N R (Funcs.Tpl_Skip I f p (toI8 t.toNat) D) (skipTplAt B d t s) := by
  intro d
  induction d with
  | zero =>
    intro f p s t D hR hd hp hf hD
    cases f with
    | zero => omega
    | succ f =>
      subst hD
      rw [Funcs.Tpl_Skip]
      simp only [skipTplAt, Int.natCast_zero, decide_true, if_true, Out.pure_eq]
      exact GSim.perr N R p 6 _
  | succ d ih =>
    intro f p s t D hR hd hp hf hD
    cases f with
    | zero => omega
    | succ f =>
      have H := recOK_of_ihG N (R := R) (I := I) hM d f (μ s) (by omega)
        (fun f p s t D hR h0 h1 h2 => ih f p s t D hR (by omega) h0 h1 h2)
      subst hD
      -- the depth passed to the recursive calls
      have hdp : wrap .i64 (((d + 1 : Nat) : Int) - 1) = (d : Int) := by
        rw [wrap_i64_of_range _ (by omega) (by omega)]; omega
      rw [Funcs.Tpl_Skip]
      have cD : ¬ ((d + 1 : Nat) : Int) = 0 := by omega
      simp only [skipTplAt, cD, decide_false, if_false, Bool.false_eq_true, tblIdx_fixed, typeSize_eq,
        Out.bind_ok, Out.bind_eq, Out.pure_eq, hdp]
      by_cases hfix : ((fixedSize t : Nat) : Int) > 0
      · simp only [hfix, decide_true, if_true]
        have hk := fixedSize_le t
        exact GSim.call (hI.sim p s _ hR hp (by omega) (by omega)) rfl
          (fun b p1 s1 hR1 _ => GSim.ok _ _ hR1) (by herr_disch)
      · simp only [hfix, decide_false, if_false, Bool.false_eq_true]
        -- semantic case split on the type byte; in each case EVERY test of the Go `switch` is decided, so the order of
        -- its clauses does not matter
        by_cases hstr : t = T_STRING
        · have c : toI8 t.toNat = 11 := (toI8_eq_11 t).mpr hstr
          simp only [if_pos hstr, c, Int.reduceEq, decide_true, decide_false, Bool.or_false, Bool.false_or, Bool.or_self,
            if_true, if_false, Bool.false_eq_true]
          refine GSim.call (hI.sim p s _ hR hp (by omega) (by omega)) rfl (fun b p1 s1 hR1 hsk => ?_) (by herr_disch)
          obtain ⟨hp1, hd1⟩ := hM.dec _ _ _ _ hp (by omega) hsk
          simp only [ne_eq, not_true_eq_false, decide_false, if_false, Bool.false_eq_true, beU32_eq, u32of]
          by_cases h4 : 4 ≤ b.length
          · simp only [h4, if_true, Out.bind_ok, wrap_i32_nat _ (rd32_lt b)]
            have hr := toI32_range _ (rd32_lt b)
            generalize toI32 (rd32 b) = n at hr
            by_cases hn : n < 0
            · simp only [hn, decide_true, if_true]
              exact GSim.perr N R p1 2 _
            · simp only [hn, decide_false, if_false, Bool.false_eq_true]
              refine GSim.call (hI.sim p1 s1 _ hR1 hp1 (by omega) (by omega)) rfl (fun b2 p2 s2 hR2 _ => ?_)
                (by herr_disch)
              first
              | exact GSim.ok _ _ hR2
              | (simp only [ne_eq, not_true_eq_false, decide_false, if_false, Bool.false_eq_true]; exact GSim.ok _ _ hR2)
          · simp only [h4, if_false, Out.bind_panic]
            exact GSim.panic _
        · have n11 : ¬ toI8 t.toNat = 11 := fun h => hstr ((toI8_eq_11 t).mp h)
          by_cases hst : t = T_STRUCT
          · have c : toI8 t.toNat = 12 := (toI8_eq_tag t 12 (by omega)).mpr hst
            simp only [if_neg hstr, if_pos hst, c, Int.reduceEq, decide_true, decide_false, Bool.or_false, Bool.false_or,
              Bool.or_self, if_true, if_false, Bool.false_eq_true]
            have hav := hM.le_avail s hp
            first
            | exact GSim.of_struct (struct_simG hM hI H _ LoopR.done _ (fun _ _ => by rfl)
                (by first | rfl | exact hdp) f (B.avail s + 1) p s hR (by omega) (by omega) (Nat.le_refl _) hp)
                (fun _ => rfl) (fun _ => rfl)
            | exact GSim.of_struct (struct_simG hM hI H _ (fun p => LoopR.ret (p, GoErr.nil)) _ (fun _ _ => by rfl)
                (by first | rfl | exact hdp) f (B.avail s + 1) p s hR (by omega) (by omega) (Nat.le_refl _) hp)
                (fun _ => rfl) (fun _ => rfl)
          · have n12 : ¬ toI8 t.toNat = 12 := fun h => hst ((toI8_eq_tag t 12 (by omega)).mp h)
            by_cases hmap : t = T_MAP
            · have c : toI8 t.toNat = 13 := (toI8_eq_tag t 13 (by omega)).mpr hmap
              simp only [if_neg hstr, if_neg hst, if_pos hmap, c, Int.reduceEq, decide_true, decide_false, Bool.or_false,
                Bool.false_or, Bool.or_self, if_true, if_false, Bool.false_eq_true]
              refine GSim.call (hI.sim p s _ hR hp (by omega) (by omega)) rfl (fun b p1 s1 hR1 hsk => ?_)
                (by herr_disch)
              obtain ⟨hp1, hd1⟩ := hM.dec _ _ _ _ hp (by omega) hsk
              simp only [ne_eq, not_true_eq_false, decide_false, if_false, Bool.false_eq_true, gidx0, gidx1, Verif.idx]
              cases hb0 : b[0]? with
              | none => exact GSim.panic _
              | some kt =>
                simp only [Out.bind_ok]
                cases hb1 : b[1]? with
                | none => exact GSim.panic _
                | some vt =>
                  have hlen : 2 ≤ b.length := by
                    obtain ⟨h, _⟩ := List.getElem?_eq_some_iff.mp hb1; omega
                  simp only [Out.bind_ok, sliceFrom_ok b 2 (by omega) (by unfold len; omega), beU32_eq, u32of]
                  have e2 : (2 : Int).toNat = 2 := rfl
                  rw [e2]
                  generalize b.drop 2 = b2
                  by_cases h4 : 4 ≤ b2.length
                  · simp only [h4, if_true, Out.bind_ok, wrap_i32_nat _ (rd32_lt b2)]
                    have hr := toI32_range _ (rd32_lt b2)
                    generalize toI32 (rd32 b2) = n at hr
                    by_cases hn : n < 0
                    · simp only [hn, decide_true, if_true]
                      exact GSim.perr N R p1 2 _
                    · simp only [hn, decide_false, if_false, Bool.false_eq_true, wrap_i8_nat _ vt.toNat_lt,
                        wrap_i8_nat _ kt.toNat_lt, tblIdx_fixed, Out.bind_ok]
                      obtain ⟨sz, rfl⟩ := Int.eq_ofNat_of_zero_le (by omega : 0 ≤ n)
                      have hs : sz < 2 ^ 31 := by omega
                      simp only [Int.toNat_natCast]
                      have hk := fixedSize_le kt
                      have hv := fixedSize_le vt
                      by_cases hfast : ((fixedSize kt : Nat) : Int) > 0 ∧ ((fixedSize vt : Nat) : Int) > 0
                      · have hq1 : sz * (fixedSize kt + fixedSize vt) ≤ 2 ^ 31 * 16 :=
                          Nat.mul_le_mul (by omega) (by omega)
                        have hq2 : sz * (fixedSize vt + fixedSize kt) ≤ 2 ^ 31 * 16 :=
                          Nat.mul_le_mul (by omega) (by omega)
                        simp (disch := omega) only [hfast, and_self, decide_true, Bool.and_self, if_true,
                          wrap_add_small, wrap_mul_l, wrap_mul_r]
                        exact GSim.call (hI.sim p1 s1 _ hR1 hp1 (by omega) (by omega))
                          (by first | rfl | (simp only [Int.toNat_natCast]; congr_omega))
                          (fun b3 p2 s2 hR2 _ => GSim.ok _ _ hR2) (by herr_disch)
                      · have cfast1 : (decide (((fixedSize kt : Nat) : Int) > 0) &&
                            decide (((fixedSize vt : Nat) : Int) > 0)) = false := by
                          simpa using hfast
                        simp only [hfast, cfast1, if_false, Bool.false_eq_true, tplMapLoop_eq]
                        exact GSim.of_counted (counted_simG H _ _ _ _ [kt, vt] (by simp) (fun _ _ _ => by rfl)
                          (by first | rfl | exact hdp) sz _
                          (by first
                            | exact iter_up _ _ sz hs (fun _ => rfl) (fun _ => rfl) sz 0 (by omega)
                            | exact iter_down _ _ (fun _ => rfl) (fun _ => rfl) sz hs)
                          f p1 s1 hR1 (by omega) (by omega) hp1) (fun _ => rfl) (fun _ => rfl)
                  · simp only [h4, if_false, Out.bind_panic]
                    exact GSim.panic _
            · have n13 : ¬ toI8 t.toNat = 13 := fun h => hmap ((toI8_eq_tag t 13 (by omega)).mp h)
              by_cases hlist : t = T_SET ∨ t = T_LIST
              · have o1 : (decide (toI8 t.toNat = 14) || decide (toI8 t.toNat = 15)) = true := by
                  rcases hlist with h | h
                  · have := (toI8_eq_tag t 14 (by omega)).mpr h; simp [this]
                  · have := (toI8_eq_tag t 15 (by omega)).mpr h; simp [this]
                have o2 : (decide (toI8 t.toNat = 15) || decide (toI8 t.toNat = 14)) = true := by
                  rw [Bool.or_comm]; exact o1
                simp only [if_neg hstr, if_neg hst, if_neg hmap, if_pos hlist, n11, n12, n13, o1, o2, decide_false,
                  if_true, if_false, Bool.false_eq_true]
                refine GSim.call (hI.sim p s _ hR hp (by omega) (by omega)) rfl (fun b p1 s1 hR1 hsk => ?_)
                  (by herr_disch)
                obtain ⟨hp1, hd1⟩ := hM.dec _ _ _ _ hp (by omega) hsk
                simp only [ne_eq, not_true_eq_false, decide_false, if_false, Bool.false_eq_true, gidx0, Verif.idx]
                cases hb0 : b[0]? with
                | none => exact GSim.panic _
                | some vt =>
                  have hlen : 1 ≤ b.length := by
                    obtain ⟨h, _⟩ := List.getElem?_eq_some_iff.mp hb0; omega
                  simp only [Out.bind_ok, sliceFrom_ok b 1 (by omega) (by unfold len; omega), beU32_eq, u32of]
                  have e1 : (1 : Int).toNat = 1 := rfl
                  rw [e1]
                  generalize b.drop 1 = b2
                  by_cases h4 : 4 ≤ b2.length
                  · simp only [h4, if_true, Out.bind_ok, wrap_i32_nat _ (rd32_lt b2)]
                    have hr := toI32_range _ (rd32_lt b2)
                    generalize toI32 (rd32 b2) = n at hr
                    by_cases hn : n < 0
                    · simp only [hn, decide_true, if_true]
                      exact GSim.perr N R p1 2 _
                    · simp only [hn, decide_false, if_false, Bool.false_eq_true, wrap_i8_nat _ vt.toNat_lt,
                        tblIdx_fixed, Out.bind_ok]
                      obtain ⟨sz, rfl⟩ := Int.eq_ofNat_of_zero_le (by omega : 0 ≤ n)
                      have hs : sz < 2 ^ 31 := by omega
                      simp only [Int.toNat_natCast]
                      have hv := fixedSize_le vt
                      by_cases hfast : ((fixedSize vt : Nat) : Int) > 0
                      · have hq : sz * fixedSize vt ≤ 2 ^ 31 * 8 := Nat.mul_le_mul (by omega) hv
                        simp (disch := omega) only [hfast, decide_true, if_true, wrap_mul_l, wrap_mul_r]
                        exact GSim.call (hI.sim p1 s1 _ hR1 hp1 (by omega) (by omega))
                          (by first | rfl | (simp only [Int.toNat_natCast]; congr_omega))
                          (fun b3 p2 s2 hR2 _ => GSim.ok _ _ hR2) (by herr_disch)
                      · simp only [hfast, decide_false, if_false, Bool.false_eq_true, tplListLoop_eq]
                        exact GSim.of_counted (counted_simG H _ _ _ _ [vt] (by simp) (fun _ _ _ => by rfl)
                          (by first | rfl | exact hdp) sz _
                          (by first
                            | exact iter_up _ _ sz hs (fun _ => rfl) (fun _ => rfl) sz 0 (by omega)
                            | exact iter_down _ _ (fun _ => rfl) (fun _ => rfl) sz hs)
                          f p1 s1 hR1 (by omega) (by omega) hp1) (fun _ => rfl) (fun _ => rfl)
                  · simp only [h4, if_false, Out.bind_panic]
                    exact GSim.panic _
              · have n14 : ¬ toI8 t.toNat = 14 := fun h => hlist (Or.inl ((toI8_eq_tag t 14 (by omega)).mp h))
                have n15 : ¬ toI8 t.toNat = 15 := fun h => hlist (Or.inr ((toI8_eq_tag t 15 (by omega)).mp h))
                simp only [if_neg hstr, if_neg hst, if_neg hmap, if_neg hlist, n11, n12, n13, n14, n15, decide_false,
                  if_false, Bool.false_eq_true, Bool.or_self]
                exact GSim.perr N R p 1 _

end TplG

/-- `SkipDecoderTpl.Skip` translated from the Go source and instantiated with an interface value `I` that implements the
    model back end `B` through `R` IS the model `skipTplAt B` (an equation, through any abstraction function `α` that `R`
    determines), for every Go-side state related to a model state satisfying the back-end invariant, every type byte, depth
    and every fuel ≥ `μ s + d + 2` -/
theorem Tpl_Skip_eqG {ρ σ : Type} (N : ErrNaming) {R : ρ → σ → Prop} {α : ρ → σ} (hα : ∀ p s, R p s → s = α p)
    {I : SkipNI ρ} {B : Backend σ} {μ : σ → Nat} {P : σ → Prop} (hM : Meas B μ P) (hI : TplG.Impl N R I B P)
    (p : ρ) (s : σ) (t : UInt8) (d fuel : Nat) (hR : R p s) (hp : P s) (hd : d < 2 ^ 63) (hf : μ s + d + 2 ≤ fuel) :
    TplG.liftTplG N.absE α (Funcs.Tpl_Skip I fuel p (toI8 t.toNat) (d : Int)) = skipTplAt B d t s :=
  (TplG.Tpl_Skip_simG N hM hI d fuel p s t _ hR hd hp hf rfl).lift hα

end Verif.FuncsEq

/-
  Lemmas/Funcs/TplG: the simulation `Tpl.Tpl_Skip_sim` (Lemmas/Funcs/Tpl.lean) GENERALISED from the interface value
  `iOf B errOf` to ANY interface value `I : SkipNI ρ` over ANY Go-side state type `ρ` that IMPLEMENTS the model back end
  `B : Backend σ` through an abstraction relation `R : ρ → σ → Prop` (Go-side state, model state):

      Impl N R I B P :  ∀ p s n, R p s → P s → 0 ≤ n ≤ 2^35 → SSim N R (I.skipN p n) (B.skipN s n.toNat)

  (`SSim`: success with the same bytes and `R`-related new states; an error value `e ≠ nil` with `N.absE e` = the model's
  error — whatever the Go state and the returned slice next to the error are —; the same panic).  A relation rather than
  a function so that it can carry a Go-side typing invariant the model state cannot express (`0 ≤ p.n` for an `int`
  offset the model keeps as a `Nat`).  Only model states satisfying the back-end invariant `P` and only counts in
  `0 … 2^35` matter: the generic code never passes anything else (the fixed sizes are `> 0`, the STRING size and the
  counts are tested `< 0` first, the products are `< 2^31 * 16`) — the proof shows it, so what `I.skipN` does on a
  negative count is irrelevant.

      Tpl_Skip_simG : Meas B μ P → Impl N R I B P → R p s → P s → d < 2^63 → μ s + d + 2 ≤ fuel →
          GSim N R (Funcs.Tpl_Skip I fuel p (toI8 t.toNat) d) (skipTplAt B d t s)
      Tpl_Skip_eqG  : the same as an equation through `liftTplG` when `R p s → s = α p`

  This is what connects `BSD_Next` / `SD_Next` (Lemmas/Funcs/Dec.lean), which call the translated generic skipper with the
  interface value built from the receiver's own TRANSLATED `SkipN`, to the model. `Tpl_Skip_sim` is the instance
  `ρ = σ`, `R = Eq`, `I = iOf B N.errOf`.  The structure of the proof is that of `Tpl_Skip_sim`; the model-only lemmas
  (`skipTplAt_dec`, `tplListLoop_le` …) are reused as they are.
-/
import Verif.Lemmas.Funcs.Tpl
set_option linter.unusedSimpArgs false
namespace Verif.FuncsEq
open Verif Verif.GoSem

namespace TplG
open Tpl
variable {ρ σ : Type}

/-! ## the relations -/

/-- one `SkipN` call: translation-side outcome `x` against the model back end's outcome `y` -/
inductive SSim (N : ErrNaming) (R : ρ → σ → Prop) : GM ((Bytes × GoErr) × ρ) → TOut (Bytes × σ) → Prop where
  | ok (b : Bytes) (p : ρ) (s : σ) (h : R p s) : SSim N R (.ok ((b, GoErr.nil), p)) (.ok (b, s))
  | err (b : Bytes) (p : ρ) (e : GoErr) (h : e ≠ GoErr.nil) : SSim N R (.ok ((b, e), p)) (.err (N.absE e))
  | panic (m : String) : SSim N R (.panic m) (.panic m)
  | oob : SSim N R .oob .oob

/-- the interface value `I` (Go state `ρ`) implements the model back end `B` (model state `σ`) through `R`, on the
    states satisfying `P` and for the counts the generic code can pass -/
structure Impl (N : ErrNaming) (R : ρ → σ → Prop) (I : SkipNI ρ) (B : Backend σ) (P : σ → Prop) : Prop where
  sim : ∀ p s n, R p s → P s → 0 ≤ n → n ≤ 34359738368 → SSim N R (I.skipN p n) (B.skipN s n.toNat)

/-- `x` (translation, Go state) and `y` (model) are the same outcome, final states `R`-related -/
inductive GSim (N : ErrNaming) (R : ρ → σ → Prop) : GM (ρ × GoErr) → TOut σ → Prop where
  | ok (p : ρ) (s : σ) (h : R p s) : GSim N R (.ok (p, GoErr.nil)) (.ok s)
  | err (p : ρ) (e : GoErr) (h : e ≠ GoErr.nil) : GSim N R (.ok (p, e)) (.err (N.absE e))
  | panic (m : String) : GSim N R (.panic m) (.panic m)
  | oob : GSim N R .oob .oob

/-- result `(p, err)` of the translated `Skip` as the model's `TOut σ`, through an abstraction FUNCTION `α` (the Go state
    next to an error is dropped) -/
def liftTplG (absE : GoErr → TErr) (α : ρ → σ) (x : GM (ρ × GoErr)) : TOut σ :=
  match x with
  | .ok r => if r.2 = GoErr.nil then .ok (α r.1) else .err (absE r.2)
  | .panic s => .panic s
  | .oob => .oob
  | .err e => nomatch e

/-- when the relation determines the model state (`R p s → s = α p`), the simulation is an equation -/
theorem GSim.lift {N : ErrNaming} {R : ρ → σ → Prop} {α : ρ → σ} (hα : ∀ p s, R p s → s = α p)
    {x : GM (ρ × GoErr)} {y : TOut σ} (h : GSim N R x y) : liftTplG N.absE α x = y := by
  cases h with
  | ok p s h => simp [liftTplG, hα p s h]
  | err p e h => simp [liftTplG, h]
  | panic m => rfl
  | oob => rfl

theorem GSim.perr (N : ErrNaming) (R : ρ → σ → Prop) (p : ρ) (id : Int) (msg : String) :
    GSim N R (.ok (p, GoErr.pe id msg)) (.err (TErr.pe id)) := by
  have := GSim.err (N := N) (R := R) p (GoErr.pe id msg) (by simp)
  rwa [N.pe] at this

structure RecOKG (N : ErrNaming) (R : ρ → σ → Prop) (μ : σ → Nat) (P : σ → Prop) (rec : ρ → Int → Int → GM (ρ × GoErr))
    (rec' : UInt8 → σ → TOut σ) (md : Int) (bound : Nat) : Prop where
  sim : ∀ p s t, R p s → P s → μ s ≤ bound → GSim N R (rec p (toI8 t.toNat) (wrap .i64 (md - 1))) (rec' t s)
  dec : ∀ s t s', P s → rec' t s = .ok s' → P s' ∧ μ s' + 1 ≤ μ s

inductive LSimG (N : ErrNaming) (R : ρ → σ → Prop) : GM (LoopR (ρ × GoErr) (ρ × Int)) → TOut σ → Prop where
  | done (p : ρ) (s : σ) (j : Int) (h : R p s) : LSimG N R (.ok (LoopR.done (p, j))) (.ok s)
  | err (p : ρ) (e : GoErr) (h : e ≠ GoErr.nil) : LSimG N R (.ok (LoopR.ret (p, e))) (.err (N.absE e))
  | panic (m : String) : LSimG N R (.panic m) (.panic m)
  | oob : LSimG N R .oob .oob

inductive LSim1G (N : ErrNaming) (R : ρ → σ → Prop) : GM (LoopR (ρ × GoErr) ρ) → TOut σ → Prop where
  | done (p : ρ) (s : σ) (h : R p s) : LSim1G N R (.ok (LoopR.done p)) (.ok s)
  | err (p : ρ) (e : GoErr) (h : e ≠ GoErr.nil) : LSim1G N R (.ok (LoopR.ret (p, e))) (.err (N.absE e))
  | panic (m : String) : LSim1G N R (.panic m) (.panic m)
  | oob : LSim1G N R .oob .oob

/-! ## the three loops -/

theorem loop3_simG {N : ErrNaming} {R : ρ → σ → Prop} {μ : σ → Nat} {P : σ → Prop} {I : SkipNI ρ} {rec rec' md bound}
    (H : RecOKG N R μ P rec rec' md bound) (vt : UInt8) (sz : Nat) (hsz : sz < 2 ^ 31) :
    ∀ (f : Nat) (p : ρ) (s : σ) (j cnt : Nat), R p s → j + cnt = sz → μ s + 1 ≤ f → μ s ≤ bound → P s →
      LSimG N R (Funcs.Tpl_Skip_loop3 I rec md (toI8 vt.toNat) (sz : Int) f p (j : Int))
        (tplListLoop rec' vt cnt s) := by
  intro f
  induction f with
  | zero => intro p s j cnt _ _ hf; omega
  | succ f ih =>
    intro p s j cnt hR hj hf hb hp
    rw [Funcs.Tpl_Skip_loop3]
    cases cnt with
    | zero =>
      have c : ¬ ((j : Int) < (sz : Int)) := by omega
      simp only [c, decide_false, if_false, Bool.false_eq_true, Out.pure_eq, tplListLoop]
      exact LSimG.done p s j hR
    | succ cnt =>
      have c : ((j : Int) < (sz : Int)) := by omega
      simp only [c, decide_true, if_true, tplListLoop, Out.bind_eq]
      have hs := H.sim p s vt hR hp hb
      have hd := H.dec s vt
      generalize rec p (toI8 vt.toNat) (wrap .i64 (md - 1)) = x at hs
      generalize rec' vt s = y at hs hd
      cases hs with
      | ok p1 s1 hR1 =>
        obtain ⟨hp1, hd1⟩ := hd s1 hp rfl
        have w : wrap .i32 ((j : Int) + 1) = ((j + 1 : Nat) : Int) := by
          rw [wrap_i32_of_range _ (by omega) (by omega)]; simp
        simp only [Out.bind_ok, ne_eq, not_true_eq_false, decide_false, if_false, Bool.false_eq_true, w]
        exact ih p1 s1 (j + 1) cnt hR1 (by omega) (by omega) (by omega) hp1
      | err p1 e h =>
        simp only [Out.bind_ok, Out.bind_err, ne_eq, h, not_false_eq_true, decide_true, if_true, Out.pure_eq]
        exact LSimG.err _ e h
      | panic m => exact LSimG.panic m
      | oob => exact LSimG.oob

theorem loop2_simG {N : ErrNaming} {R : ρ → σ → Prop} {μ : σ → Nat} {P : σ → Prop} {I : SkipNI ρ} {rec rec' md bound}
    (H : RecOKG N R μ P rec rec' md bound) (kt vt : UInt8) (sz : Nat) (hsz : sz < 2 ^ 31) :
    ∀ (f : Nat) (p : ρ) (s : σ) (j cnt : Nat), R p s → j + cnt = sz → μ s + 1 ≤ f → μ s ≤ bound → P s →
      LSimG N R (Funcs.Tpl_Skip_loop2 I rec md (toI8 kt.toNat) (toI8 vt.toNat) (sz : Int) f p (j : Int))
        (tplMapLoop rec' kt vt cnt s) := by
  intro f
  induction f with
  | zero => intro p s j cnt _ _ hf; omega
  | succ f ih =>
    intro p s j cnt hR hj hf hb hp
    rw [Funcs.Tpl_Skip_loop2]
    cases cnt with
    | zero =>
      have c : ¬ ((j : Int) < (sz : Int)) := by omega
      simp only [c, decide_false, if_false, Bool.false_eq_true, Out.pure_eq, tplMapLoop]
      exact LSimG.done p s j hR
    | succ cnt =>
      have c : ((j : Int) < (sz : Int)) := by omega
      simp only [c, decide_true, if_true, tplMapLoop, Out.bind_eq]
      have hs := H.sim p s kt hR hp hb
      have hd := H.dec s kt
      generalize rec p (toI8 kt.toNat) (wrap .i64 (md - 1)) = x at hs
      generalize rec' kt s = y at hs hd
      cases hs with
      | ok p1 s1 hR1 =>
        obtain ⟨hp1, hd1⟩ := hd s1 hp rfl
        simp only [Out.bind_ok, ne_eq, not_true_eq_false, decide_false, if_false, Bool.false_eq_true]
        have hs2 := H.sim p1 s1 vt hR1 hp1 (by omega)
        have hd2 := H.dec s1 vt
        generalize rec p1 (toI8 vt.toNat) (wrap .i64 (md - 1)) = x2 at hs2
        generalize rec' vt s1 = y2 at hs2 hd2
        cases hs2 with
        | ok p2 s2 hR2 =>
          obtain ⟨hp2, hd2'⟩ := hd2 s2 hp1 rfl
          have w : wrap .i32 ((j : Int) + 1) = ((j + 1 : Nat) : Int) := by
            rw [wrap_i32_of_range _ (by omega) (by omega)]; simp
          simp only [Out.bind_ok, ne_eq, not_true_eq_false, decide_false, if_false, Bool.false_eq_true, w]
          exact ih p2 s2 (j + 1) cnt hR2 (by omega) (by omega) (by omega) hp2
        | err p2 e h =>
          simp only [Out.bind_ok, Out.bind_err, ne_eq, h, not_false_eq_true, decide_true, if_true, Out.pure_eq]
          exact LSimG.err _ e h
        | panic m => exact LSimG.panic m
        | oob => exact LSimG.oob
      | err p1 e h =>
        simp only [Out.bind_ok, Out.bind_err, ne_eq, h, not_false_eq_true, decide_true, if_true, Out.pure_eq]
        exact LSimG.err _ e h
      | panic m => exact LSimG.panic m
      | oob => exact LSimG.oob

theorem loop1_simG {N : ErrNaming} {R : ρ → σ → Prop} {I : SkipNI ρ} {B : Backend σ} {μ : σ → Nat} {P : σ → Prop}
    {rec rec' md bound} (hM : Meas B μ P) (hI : Impl N R I B P) (H : RecOKG N R μ P rec rec' md bound) :
    ∀ (f1 f2 : Nat) (p : ρ) (s : σ), R p s → μ s + 1 ≤ f1 → μ s + 1 ≤ f2 → μ s ≤ bound → P s →
      LSim1G N R (Funcs.Tpl_Skip_loop1 I rec md f1 p) (tplStructLoop B rec' f2 s) := by
  intro f1
  induction f1 with
  | zero => intro f2 p s _ hf; omega
  | succ f1 ih =>
    intro f2 p s hR hf1 hf2 hb hp
    cases f2 with
    | zero => omega
    | succ f2 =>
      rw [Funcs.Tpl_Skip_loop1, tplStructLoop]
      have hc := hI.sim p s 1 hR hp (by omega) (by omega)
      have e1 : (1 : Int).toNat = 1 := rfl
      rw [e1] at hc
      generalize I.skipN p 1 = x at hc ⊢
      generalize hsk : B.skipN s 1 = y at hc ⊢
      cases hc with
      | ok b p1 s1 hR1 =>
        obtain ⟨hp1, hd1⟩ := hM.dec _ _ _ _ hp (by omega) hsk
        simp only [Out.bind_eq, Out.bind_ok, ne_eq, not_true_eq_false, decide_false, if_false, Bool.false_eq_true]
        rw [gidx0, Verif.idx]
        cases hb0 : b[0]? with
        | none => exact LSim1G.panic _
        | some tp =>
          simp only [Out.bind_ok, wrap_i8_nat _ tp.toNat_lt]
          by_cases hstop : tp = T_STOP
          · have c0 : toI8 tp.toNat = 0 := (toI8_eq_0 tp).mpr hstop
            simp only [if_pos hstop, c0, decide_true, if_true, Out.pure_eq]
            exact LSim1G.done p1 s1 hR1
          · have c0 : ¬ toI8 tp.toNat = 0 := fun h => hstop ((toI8_eq_0 tp).mp h)
            simp only [if_neg hstop, c0, decide_false, if_false, Bool.false_eq_true]
            have hc2 := hI.sim p1 s1 2 hR1 hp1 (by omega) (by omega)
            have e2 : (2 : Int).toNat = 2 := rfl
            rw [e2] at hc2
            generalize I.skipN p1 2 = x2 at hc2 ⊢
            generalize hsk2 : B.skipN s1 2 = y2 at hc2 ⊢
            cases hc2 with
            | ok b2 p2 s2 hR2 =>
              obtain ⟨hp2, hd2⟩ := hM.dec _ _ _ _ hp1 (by omega) hsk2
              simp only [Out.bind_ok, ne_eq, not_true_eq_false, decide_false, if_false, Bool.false_eq_true]
              have hs := H.sim p2 s2 tp hR2 hp2 (by omega)
              have hd := H.dec s2 tp
              generalize rec p2 (toI8 tp.toNat) (wrap .i64 (md - 1)) = x3 at hs
              generalize rec' tp s2 = y3 at hs hd
              cases hs with
              | ok p3 s3 hR3 =>
                obtain ⟨hp3, hd3⟩ := hd s3 hp2 rfl
                simp only [Out.bind_ok, ne_eq, not_true_eq_false, decide_false, if_false, Bool.false_eq_true]
                exact ih f2 p3 s3 hR3 (by omega) (by omega) (by omega) hp3
              | err p3 e h =>
                simp only [Out.bind_ok, Out.bind_err, ne_eq, h, not_false_eq_true, decide_true, if_true, Out.pure_eq]
                exact LSim1G.err _ e h
              | panic m => exact LSim1G.panic m
              | oob => exact LSim1G.oob
            | err b2 p2 e h =>
              simp only [Out.bind_ok, Out.bind_err, ne_eq, h, not_false_eq_true, decide_true, if_true, Out.pure_eq]
              exact LSim1G.err _ e h
            | panic m => exact LSim1G.panic m
            | oob => exact LSim1G.oob
      | err b p1 e h =>
        simp only [Out.bind_eq, Out.bind_ok, Out.bind_err, ne_eq, h, not_false_eq_true, decide_true, if_true,
          Out.pure_eq]
        exact LSim1G.err _ e h
      | panic m => exact LSim1G.panic m
      | oob => exact LSim1G.oob

/-! ## the whole function, by induction on the depth -/

theorem recOK_of_ihG (N : ErrNaming) {R : ρ → σ → Prop} {I : SkipNI ρ} {B : Backend σ} {μ : σ → Nat} {P : σ → Prop}
    (hM : Meas B μ P) (d f bound : Nat) (hd : d + 1 < 2 ^ 63) (hf : bound + d + 2 ≤ f)
    (ih : ∀ (f : Nat) (p : ρ) (s : σ) (t : UInt8) (D : Int), R p s → P s → μ s + d + 2 ≤ f → D = (d : Int) →
      GSim N R (Funcs.Tpl_Skip I f p (toI8 t.toNat) D) (skipTplAt B d t s)) :
    RecOKG N R μ P (fun a0 a1 a2 => Funcs.Tpl_Skip I f a0 a1 a2) (skipTplAt B d) ((d + 1 : Nat) : Int) bound := by
  constructor
  · intro p s t hR hp hb
    exact ih f p s t _ hR hp (by omega) (by rw [wrap_i64_of_range _ (by omega) (by omega)]; omega)
  · intro s t s' hp h
    exact skipTplAt_dec hM d t s s' hp h

/-- `SkipDecoderTpl.Skip`, whole function, translated from the Go source, instantiated with any interface value that
    implements the model back end `B`: the model `skipTplAt B`, final states `R`-related, error and panics included -/
theorem Tpl_Skip_simG (N : ErrNaming) {R : ρ → σ → Prop} {I : SkipNI ρ} {B : Backend σ} {μ : σ → Nat} {P : σ → Prop}
    (hM : Meas B μ P) (hI : Impl N R I B P) :
    ∀ (d f : Nat) (p : ρ) (s : σ) (t : UInt8) (D : Int), R p s → d < 2 ^ 63 → P s → μ s + d + 2 ≤ f → D = (d : Int) →
      GSim N R (Funcs.Tpl_Skip I f p (toI8 t.toNat) D) (skipTplAt B d t s) := by
  intro d
  induction d with
  | zero =>
    intro f p s t D hR hd hp hf hD
    cases f with
    | zero => omega
    | succ f =>
      subst hD
      rw [Funcs.Tpl_Skip]
      simp only [skipTplAt, Int.natCast_zero, decide_true, if_true, Out.pure_eq]
      exact GSim.perr N R p 6 _
  | succ d ih =>
    intro f p s t D hR hd hp hf hD
    cases f with
    | zero => omega
    | succ f =>
      have H := recOK_of_ihG N (R := R) (I := I) hM d f (μ s) hd (by omega)
        (fun f p s t D hR h0 h1 h2 => ih f p s t D hR (by omega) h0 h1 h2)
      subst hD
      rw [Funcs.Tpl_Skip]
      have cD : ¬ ((d + 1 : Nat) : Int) = 0 := by omega
      simp only [skipTplAt, cD, decide_false, if_false, Bool.false_eq_true, tblIdx_fixed, typeSize_eq,
        Out.bind_ok, Out.bind_eq, Out.pure_eq]
      by_cases hfix : ((fixedSize t : Nat) : Int) > 0
      · simp only [hfix, decide_true, if_true]
        have hk := fixedSize_le t
        have hc := hI.sim p s ((fixedSize t : Nat) : Int) hR hp (by omega) (by omega)
        generalize I.skipN p ((fixedSize t : Nat) : Int) = x at hc ⊢
        generalize B.skipN s ((fixedSize t : Nat) : Int).toNat = y at hc ⊢
        cases hc with
        | ok b p1 s1 hR1 => exact GSim.ok _ _ hR1
        | err b p1 e h => exact GSim.err _ e h
        | panic m => exact GSim.panic m
        | oob => exact GSim.oob
      · simp only [hfix, decide_false, if_false, Bool.false_eq_true]
        by_cases hstr : t = T_STRING
        · have c : toI8 t.toNat = 11 := (toI8_eq_11 t).mpr hstr
          simp only [if_pos hstr, c, decide_true, if_true]
          have hc := hI.sim p s 4 hR hp (by omega) (by omega)
          have e4 : (4 : Int).toNat = 4 := rfl
          rw [e4] at hc
          generalize I.skipN p 4 = x at hc ⊢
          generalize hsk : B.skipN s 4 = y at hc ⊢
          cases hc with
          | ok b p1 s1 hR1 =>
            obtain ⟨hp1, hd1⟩ := hM.dec _ _ _ _ hp (by omega) hsk
            simp only [Out.bind_ok, ne_eq, not_true_eq_false, decide_false, if_false, Bool.false_eq_true, beU32_eq, u32of]
            by_cases h4 : 4 ≤ b.length
            · simp only [h4, if_true, Out.bind_ok, wrap_i32_nat _ (rd32_lt b)]
              have hr := toI32_range _ (rd32_lt b)
              generalize toI32 (rd32 b) = n at hr
              by_cases hn : n < 0
              · simp only [hn, decide_true, if_true]
                exact GSim.perr N R p1 2 _
              · simp only [hn, decide_false, if_false, Bool.false_eq_true]
                have hc2 := hI.sim p1 s1 n hR1 hp1 (by omega) (by omega)
                generalize I.skipN p1 n = x2 at hc2 ⊢
                generalize B.skipN s1 n.toNat = y2 at hc2 ⊢
                cases hc2 with
                | ok b2 p2 s2 hR2 =>
                  simp only [Out.bind_ok, ne_eq, not_true_eq_false, decide_false, if_false, Bool.false_eq_true]
                  exact GSim.ok _ _ hR2
                | err b2 p2 e h =>
                  simp only [Out.bind_ok, Out.bind_err, ne_eq, h, not_false_eq_true, decide_true, if_true]
                  exact GSim.err _ e h
                | panic m => exact GSim.panic m
                | oob => exact GSim.oob
            · simp only [h4, if_false, Out.bind_panic]
              exact GSim.panic _
          | err b p1 e h =>
            simp only [Out.bind_ok, Out.bind_err, ne_eq, h, not_false_eq_true, decide_true, if_true]
            exact GSim.err _ e h
          | panic m => exact GSim.panic m
          | oob => exact GSim.oob
        · have c : ¬ toI8 t.toNat = 11 := fun h => hstr ((toI8_eq_11 t).mp h)
          simp only [if_neg hstr, c, decide_false, if_false, Bool.false_eq_true]
          by_cases hst : t = T_STRUCT
          · have c : toI8 t.toNat = 12 := (toI8_eq_tag t 12 (by omega)).mpr hst
            simp only [if_pos hst, c, decide_true, if_true]
            have hl := loop1_simG hM hI H f (B.avail s + 1) p s hR (by omega)
              (by have := hM.le_avail s hp; omega) (Nat.le_refl _) hp
            generalize Funcs.Tpl_Skip_loop1 _ _ _ _ _ = x at hl ⊢
            generalize tplStructLoop _ _ _ _ = y at hl ⊢
            cases hl with
            | done p1 s1 hR1 => exact GSim.ok p1 s1 hR1
            | err p1 e h => exact GSim.err p1 e h
            | panic m => exact GSim.panic m
            | oob => exact GSim.oob
          · have c : ¬ toI8 t.toNat = 12 := fun h => hst ((toI8_eq_tag t 12 (by omega)).mp h)
            simp only [if_neg hst, c, decide_false, if_false, Bool.false_eq_true]
            by_cases hmap : t = T_MAP
            · have c : toI8 t.toNat = 13 := (toI8_eq_tag t 13 (by omega)).mpr hmap
              simp only [if_pos hmap, c, decide_true, if_true]
              have hc := hI.sim p s 6 hR hp (by omega) (by omega)
              have e6 : (6 : Int).toNat = 6 := rfl
              rw [e6] at hc
              generalize I.skipN p 6 = x at hc ⊢
              generalize hsk : B.skipN s 6 = y at hc ⊢
              cases hc with
              | ok b p1 s1 hR1 =>
                obtain ⟨hp1, hd1⟩ := hM.dec _ _ _ _ hp (by omega) hsk
                simp only [Out.bind_ok, ne_eq, not_true_eq_false, decide_false, if_false, Bool.false_eq_true,
                  gidx0, gidx1, Verif.idx]
                cases hb0 : b[0]? with
                | none => exact GSim.panic _
                | some kt =>
                  simp only [Out.bind_ok]
                  cases hb1 : b[1]? with
                  | none => exact GSim.panic _
                  | some vt =>
                    have hlen : 2 ≤ b.length := by
                      obtain ⟨h, _⟩ := List.getElem?_eq_some_iff.mp hb1; omega
                    simp only [Out.bind_ok, sliceFrom_ok b 2 (by omega) (by unfold len; omega), beU32_eq, u32of]
                    have e2 : (2 : Int).toNat = 2 := rfl
                    rw [e2]
                    generalize b.drop 2 = b2
                    by_cases h4 : 4 ≤ b2.length
                    · simp only [h4, if_true, Out.bind_ok, wrap_i32_nat _ (rd32_lt b2)]
                      have hr := toI32_range _ (rd32_lt b2)
                      generalize toI32 (rd32 b2) = n at hr
                      by_cases hn : n < 0
                      · simp only [hn, decide_true, if_true]
                        exact GSim.perr N R p1 2 _
                      · simp only [hn, decide_false, if_false, Bool.false_eq_true, wrap_i8_nat _ vt.toNat_lt,
                          wrap_i8_nat _ kt.toNat_lt, tblIdx_fixed, Out.bind_ok]
                        obtain ⟨sz, rfl⟩ := Int.eq_ofNat_of_zero_le (by omega : 0 ≤ n)
                        have hs : sz < 2 ^ 31 := by omega
                        simp only [Int.toNat_natCast]
                        by_cases hfast : ((fixedSize kt : Nat) : Int) > 0 ∧ ((fixedSize vt : Nat) : Int) > 0
                        · have hk := fixedSize_le kt
                          have hv := fixedSize_le vt
                          have hq : sz * (fixedSize kt + fixedSize vt) ≤ 2 ^ 31 * 16 :=
                            Nat.mul_le_mul (by omega) (by omega)
                          have e0 : wrap .i64 (((fixedSize kt : Nat) : Int) + ((fixedSize vt : Nat) : Int)) =
                              ((fixedSize kt + fixedSize vt : Nat) : Int) := by
                            rw [wrap_i64_of_range _ (by omega) (by omega)]; simp
                          have e1 : ((sz : Int) * ((fixedSize kt + fixedSize vt : Nat) : Int)) =
                              ((sz * (fixedSize kt + fixedSize vt) : Nat) : Int) := by simp
                          rw [e0, e1]
                          generalize sz * (fixedSize kt + fixedSize vt) = q at hq
                          rw [wrap_i64_of_range (q : Int) (by omega) (by omega)]
                          simp only [hfast, and_self, decide_true, Bool.and_self, if_true]
                          have hc2 := hI.sim p1 s1 (q : Int) hR1 hp1 (by omega) (by omega)
                          rw [Int.toNat_natCast] at hc2
                          generalize I.skipN p1 (q : Int) = x2 at hc2 ⊢
                          generalize B.skipN s1 q = y2 at hc2 ⊢
                          cases hc2 with
                          | ok b3 p2 s2 hR2 => exact GSim.ok _ _ hR2
                          | err b3 p2 e h => exact GSim.err _ e h
                          | panic m => exact GSim.panic m
                          | oob => exact GSim.oob
                        · have cfast : (decide (((fixedSize kt : Nat) : Int) > 0) &&
                              decide (((fixedSize vt : Nat) : Int) > 0)) = false := by
                            simpa using hfast
                          simp only [hfast, cfast, if_false, Bool.false_eq_true]
                          have hl := loop2_simG (I := I) H kt vt sz hs f p1 s1 0 sz hR1 (by omega) (by omega)
                            (by omega) hp1
                          simp only [Int.natCast_zero] at hl
                          generalize Funcs.Tpl_Skip_loop2 _ _ _ _ _ _ _ _ _ = x2 at hl ⊢
                          generalize tplMapLoop _ _ _ _ _ = y2 at hl ⊢
                          cases hl with
                          | done p2 s2 j hR2 => exact GSim.ok p2 s2 hR2
                          | err p2 e h => exact GSim.err p2 e h
                          | panic m => exact GSim.panic m
                          | oob => exact GSim.oob
                    · simp only [h4, if_false, Out.bind_panic]
                      exact GSim.panic _
              | err b p1 e h =>
                simp only [Out.bind_ok, Out.bind_err, ne_eq, h, not_false_eq_true, decide_true, if_true]
                exact GSim.err _ e h
              | panic m => exact GSim.panic m
              | oob => exact GSim.oob
            · have c : ¬ toI8 t.toNat = 13 := fun h => hmap ((toI8_eq_tag t 13 (by omega)).mp h)
              simp only [if_neg hmap, c, decide_false, if_false, Bool.false_eq_true]
              by_cases hlist : t = T_SET ∨ t = T_LIST
              · have c : (decide (toI8 t.toNat = 14) || decide (toI8 t.toNat = 15)) = true := by
                  rcases hlist with h | h
                  · have := (toI8_eq_tag t 14 (by omega)).mpr h; simp [this]
                  · have := (toI8_eq_tag t 15 (by omega)).mpr h; simp [this]
                simp only [if_pos hlist, c, if_true]
                have hc := hI.sim p s 5 hR hp (by omega) (by omega)
                have e5 : (5 : Int).toNat = 5 := rfl
                rw [e5] at hc
                generalize I.skipN p 5 = x at hc ⊢
                generalize hsk : B.skipN s 5 = y at hc ⊢
                cases hc with
                | ok b p1 s1 hR1 =>
                  obtain ⟨hp1, hd1⟩ := hM.dec _ _ _ _ hp (by omega) hsk
                  simp only [Out.bind_ok, ne_eq, not_true_eq_false, decide_false, if_false, Bool.false_eq_true,
                    gidx0, Verif.idx]
                  cases hb0 : b[0]? with
                  | none => exact GSim.panic _
                  | some vt =>
                    have hlen : 1 ≤ b.length := by
                      obtain ⟨h, _⟩ := List.getElem?_eq_some_iff.mp hb0; omega
                    simp only [Out.bind_ok, sliceFrom_ok b 1 (by omega) (by unfold len; omega), beU32_eq, u32of]
                    have e1 : (1 : Int).toNat = 1 := rfl
                    rw [e1]
                    generalize b.drop 1 = b2
                    by_cases h4 : 4 ≤ b2.length
                    · simp only [h4, if_true, Out.bind_ok, wrap_i32_nat _ (rd32_lt b2)]
                      have hr := toI32_range _ (rd32_lt b2)
                      generalize toI32 (rd32 b2) = n at hr
                      by_cases hn : n < 0
                      · simp only [hn, decide_true, if_true]
                        exact GSim.perr N R p1 2 _
                      · simp only [hn, decide_false, if_false, Bool.false_eq_true, wrap_i8_nat _ vt.toNat_lt,
                          tblIdx_fixed, Out.bind_ok]
                        obtain ⟨sz, rfl⟩ := Int.eq_ofNat_of_zero_le (by omega : 0 ≤ n)
                        have hs : sz < 2 ^ 31 := by omega
                        simp only [Int.toNat_natCast]
                        by_cases hfast : ((fixedSize vt : Nat) : Int) > 0
                        · have hv := fixedSize_le vt
                          have hq : sz * fixedSize vt ≤ 2 ^ 31 * 8 := Nat.mul_le_mul (by omega) hv
                          have e1 : ((sz : Int) * ((fixedSize vt : Nat) : Int)) = ((sz * fixedSize vt : Nat) : Int) := by
                            simp
                          rw [e1]
                          generalize sz * fixedSize vt = q at hq
                          rw [wrap_i64_of_range (q : Int) (by omega) (by omega)]
                          simp only [hfast, decide_true, if_true]
                          have hc2 := hI.sim p1 s1 (q : Int) hR1 hp1 (by omega) (by omega)
                          rw [Int.toNat_natCast] at hc2
                          generalize I.skipN p1 (q : Int) = x2 at hc2 ⊢
                          generalize B.skipN s1 q = y2 at hc2 ⊢
                          cases hc2 with
                          | ok b3 p2 s2 hR2 => exact GSim.ok _ _ hR2
                          | err b3 p2 e h => exact GSim.err _ e h
                          | panic m => exact GSim.panic m
                          | oob => exact GSim.oob
                        · simp only [hfast, decide_false, if_false, Bool.false_eq_true]
                          have hl := loop3_simG (I := I) H vt sz hs f p1 s1 0 sz hR1 (by omega) (by omega)
                            (by omega) hp1
                          simp only [Int.natCast_zero] at hl
                          generalize Funcs.Tpl_Skip_loop3 _ _ _ _ _ _ _ _ = x2 at hl ⊢
                          generalize tplListLoop _ _ _ _ = y2 at hl ⊢
                          cases hl with
                          | done p2 s2 j hR2 => exact GSim.ok p2 s2 hR2
                          | err p2 e h => exact GSim.err p2 e h
                          | panic m => exact GSim.panic m
                          | oob => exact GSim.oob
                    · simp only [h4, if_false, Out.bind_panic]
                      exact GSim.panic _
                | err b p1 e h =>
                  simp only [Out.bind_ok, Out.bind_err, ne_eq, h, not_false_eq_true, decide_true, if_true]
                  exact GSim.err _ e h
                | panic m => exact GSim.panic m
                | oob => exact GSim.oob
              · have c1 : ¬ toI8 t.toNat = 14 := fun h => hlist (Or.inl ((toI8_eq_tag t 14 (by omega)).mp h))
                have c2 : ¬ toI8 t.toNat = 15 := fun h => hlist (Or.inr ((toI8_eq_tag t 15 (by omega)).mp h))
                simp only [if_neg hlist, c1, c2, decide_false, if_false, Bool.false_eq_true, Bool.or_self]
                exact GSim.perr N R p 1 _

end TplG

/-- `SkipDecoderTpl.Skip` translated from the Go source and instantiated with an interface value `I` that implements the
    model back end `B` through `R` IS the model `skipTplAt B` (an equation, through any abstraction function `α` that `R`
    determines), for every Go-side state related to a model state satisfying the back-end invariant, every type byte, depth
    and every fuel ≥ `μ s + d + 2` -/
theorem Tpl_Skip_eqG {ρ σ : Type} (N : ErrNaming) {R : ρ → σ → Prop} {α : ρ → σ} (hα : ∀ p s, R p s → s = α p)
    {I : SkipNI ρ} {B : Backend σ} {μ : σ → Nat} {P : σ → Prop} (hM : Meas B μ P) (hI : TplG.Impl N R I B P)
    (p : ρ) (s : σ) (t : UInt8) (d fuel : Nat) (hR : R p s) (hp : P s) (hd : d < 2 ^ 63) (hf : μ s + d + 2 ≤ fuel) :
    TplG.liftTplG N.absE α (Funcs.Tpl_Skip I fuel p (toI8 t.toNat) (d : Int)) = skipTplAt B d t s :=
  (TplG.Tpl_Skip_simG N hM hI d fuel p s t _ hR hd hp hf rfl).lift hα

end Verif.FuncsEq

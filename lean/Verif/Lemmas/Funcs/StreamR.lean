/-
  Lemmas/Funcs/StreamR: the seventeen `BufferReader` methods of protocol/thrift/bufferreader.go that the translator
  (`extract/funcs.go`) turns into `Verif.Funcs.BR_next … BR_ReadSetBegin` over an ABSTRACT `bufiox.Reader`
  (`ReaderI ρ`) ARE, instantiated at the reader model (`iOfRd`, Funcs/RdI.lean), the hand-written stream-reader model
  functions the property theorems are about: `brNext`, `brSkipn`, `brReadI32` (Model/SkipStream.lean) and
  `Wire.brReadBool … Wire.brReadMessageBegin`, `Wire.brReadFull`, `Wire.brReadBinary` (Model/Wire.lean, monad `RM`).

      <F>_eq : WrapOK N → liftBRk N f (Funcs.<F> (iOfRd (rdOf N)) r …) = <model> … r        for EVERY reader state r

  Representation
  * errors. The model's `TErr` (`pe id` / `wrap e` / `raw e`) is named in Go by an `ErrNaming N` (Funcs/Tpl.lean: an
    injection `N.errOf : TErr → GoErr` that never yields `nil`, with left inverse `N.absE`, protocol exceptions read by
    their type id). The reader hands out `rdOf N e = N.errOf (.raw e)` for its own error `e`; `WrapOK N` says that
    `NewProtocolExceptionWithErr` (`GoSem.wrapErr`) of that value is the value that names `TErr.wrap e` — what every
    BufferReader method does with a reader error. `stdNaming` (`raw e` ↦ `named "<name>"`, `wrap e` ↦
    `named "wrap:<name>"`, `pe id` ↦ `pe id ""`) is an instance (`wrapOK_std`); closed `_eq_std` instances at the end.
  * the lift `liftBRk N f` (k = number of values next to the error; all are `liftBRg`): a returned `(r', v…, err)` with
    `err == nil` ↦ `.ok (f v…, r')` (reader state carried), `err != nil` ↦ `.err (N.absE err)` — the model keeps no
    reader state next to an error, so the state and the (zero) values returned with an error are dropped —, a Go panic
    ↦ the same panic (`panic "nofuel"`, which only `iOfRd` produces when the reader MODEL runs out of its fuel, is the
    model's own `.panic "nofuel"`), `oob` ↦ `oob` (never produced).
  * values: `f = id` except: a double is its bit pattern (`Int.toNat`), a type byte is `TType` = `int8` in the
    translation and `UInt8` in the model (`tyByte`, Funcs/Read.lean), a container size is `int(uint32)` (`Int.toNat`);
    `readBinary(bs)` takes the view `(bs, off)` and returns the new `bs`: the model's result is the view's content
    afterwards (`bs'.drop off`), under `0 ≤ off ≤ len bs` (the view exists; `ReadBinary` calls it with `off = 0`).
    `ReadString` and `ReadBinary` are both `Wire.brReadBinary` (strings and byte slices are `Bytes`).
    `Readn` has no model function of its own: it is `Rd.readLen`, the reader untouched.

  No hypothesis on the reader state (no `Inv r`, no size bound) is needed anywhere:
  * a slice shorter than asked (the model's `.fail none` = `(nil, nil)`, or any `.ok b`) makes both sides index / slice
    it alike (`b[0]`, `b[1]`, `b[2:]`, `Uint32(b)`: the same panic kind in the same order) — the proofs treat the
    returned slice as arbitrary;
  * `ReadBinary` returns the whole `dirtmake.Bytes(sz)` slice in Go and the bytes COPIED in the model: they differ when
    the reader's `ReadBinary` reports a short count with a nil error. `SR.acquire_outcome` / `SR.readBinary_post` show,
    for every reader state (the content-level facts of `Lemmas/Reader.readLoop_post`, which need no invariant), that this
    does not happen: a nil error means `len(bs)` bytes were copied.
  Proof shape: one `_cases` lemma per callee (`SR.next_cases`, `SR.readI32_cases`, `SR.readBin_cases`, `SR.readStr_cases`:
  the outcomes of the callee on BOTH sides), then `unfold; rcases; simp` with those equations — no dependence on the
  position or polarity of a guard in the generated text.
-/
import Verif.Lemmas.Funcs.Read
import Verif.Lemmas.Funcs.Tpl
import Verif.Lemmas.Funcs.RdI
import Verif.Model.Wire
set_option linter.unusedSimpArgs false
namespace Verif.FuncsEq
open Verif Verif.GoSem

/-! ## errors and the lift -/

/-- the rendering of the reader's own errors that a naming `N` of the model's `TErr` values induces: the error `e` that
    `r.r.Next` returns is the Go value that names `TErr.raw e` -/
def rdOf (N : ErrNaming) : RErr → GoErr := fun e => N.errOf (.raw e)

/-- the naming agrees with `NewProtocolExceptionWithErr` (`GoSem.wrapErr`): wrapping the value that names `raw e` gives
    the value that names `wrap e` -/
def WrapOK (N : ErrNaming) : Prop := ∀ e, wrapErr (N.errOf (.raw e)) = N.errOf (.wrap e)

theorem wrapOK_std : WrapOK stdNaming := wrapErr_errOfStd

def liftBRg {τ β : Type} (N : ErrNaming) (st : τ → Rd) (er : τ → GoErr) (val : τ → β) (x : GM τ) : TOut (β × Rd) :=
  match x with
  | .ok t => if er t = GoErr.nil then .ok (val t, st t) else .err (N.absE (er t))
  | .panic s => .panic s
  | .oob => .oob
  | .err e => nomatch e

def liftBR0 (N : ErrNaming) (x : GM (Rd × GoErr)) : TOut (Unit × Rd) :=
  liftBRg N (fun t => t.1) (fun t => t.2) (fun _ => ()) x

def liftBR1 {α β : Type} (N : ErrNaming) (f : α → β) (x : GM (Rd × α × GoErr)) : TOut (β × Rd) :=
  liftBRg N (fun t => t.1) (fun t => t.2.2) (fun t => f t.2.1) x

def liftBR2 {α α' β : Type} (N : ErrNaming) (f : α → α' → β) (x : GM (Rd × α × α' × GoErr)) : TOut (β × Rd) :=
  liftBRg N (fun t => t.1) (fun t => t.2.2.2) (fun t => f t.2.1 t.2.2.1) x

def liftBR3 {α α' α'' β : Type} (N : ErrNaming) (f : α → α' → α'' → β) (x : GM (Rd × α × α' × α'' × GoErr)) :
    TOut (β × Rd) :=
  liftBRg N (fun t => t.1) (fun t => t.2.2.2.2) (fun t => f t.2.1 t.2.2.1 t.2.2.2.1) x

namespace SR

theorem acquire_outcome (r : Rd) (n m : Nat) (r' : Rd) (h : r.acquire n = some (m, r')) :
    (m = n ∧ n ≤ r'.buf.length - r'.ri) ∨ (m = r'.buf.length - r'.ri ∧ r'.err ≠ none) := by
  unfold Rd.acquire at h
  split at h
  · rename_i hfast
    simp only [Option.some.injEq, Prod.mk.injEq] at h
    obtain ⟨hm, hr⟩ := h; subst hm hr
    exact Or.inl ⟨rfl, hfast⟩
  · unfold Rd.acquireSlow at h
    split at h
    · rename_i herr
      simp only [Option.some.injEq, Prod.mk.injEq] at h
      obtain ⟨hm, hr⟩ := h; subst hm hr
      refine Or.inr ⟨rfl, ?_⟩
      intro hnone; rw [hnone] at herr; simp at herr
    · simp only [] at h
      rcases (readLoop_post _ _ _ _ _ _ h).outcome with ⟨h1, h2, _⟩ | ⟨h1, h2⟩
      · exact Or.inl ⟨h1, h2⟩
      · exact Or.inr ⟨h1, h2⟩

theorem next_cases (N : ErrNaming) (hw : WrapOK N) (r : Rd) (n : Int) :
    (∃ b r', brNext n r = .ok (b, r') ∧ Funcs.BR_next (iOfRd (rdOf N)) r n = .ok (r', b, GoErr.nil)) ∨
    (∃ e r', brNext n r = .err (.wrap e) ∧ Funcs.BR_next (iOfRd (rdOf N)) r n = .ok (r', [], N.errOf (.wrap e))) ∨
    (brNext n r = .panic "nofuel" ∧ Funcs.BR_next (iOfRd (rdOf N)) r n = .panic "nofuel") := by
  unfold Funcs.BR_next brNext
  simp only [iOfRd, resI]
  generalize r.next n = p
  obtain ⟨res, r'⟩ := p
  cases res with
  | ok b => left; exact ⟨b, r', rfl, by simp⟩
  | fail e =>
    cases e with
    | none => left; exact ⟨[], r', rfl, by simp⟩
    | some e =>
      right; left
      have hne : rdOf N e ≠ GoErr.nil := N.ne_nil _
      refine ⟨e, r', rfl, ?_⟩
      simp [hne]
      exact hw e
  | nofuel => right; right; exact ⟨rfl, rfl⟩

/-! the lifts on the four shapes of result (stated for arbitrary values: `simp` rewrites with them instead of unfolding the
    lift around large terms) -/
section lifts
variable {α α' α'' β : Type} (N : ErrNaming)

theorem liftBR0_ok (r : Rd) : liftBR0 N (.ok (r, GoErr.nil)) = .ok ((), r) := by simp [liftBR0, liftBRg]
theorem liftBR0_err (r : Rd) (e : TErr) : liftBR0 N (.ok (r, N.errOf e)) = .err e := by
  simp [liftBR0, liftBRg, N.ne_nil, N.inv]
theorem liftBR0_pe (r : Rd) (id : Int) (msg : String) : liftBR0 N (.ok (r, GoErr.pe id msg)) = .err (.pe id) := by
  simp [liftBR0, liftBRg, N.pe]
theorem liftBR0_panic (s : String) : liftBR0 N (.panic s) = .panic s := rfl

theorem liftBR1_ok (f : α → β) (r : Rd) (v : α) : liftBR1 N f (.ok (r, v, GoErr.nil)) = .ok (f v, r) := by
  simp [liftBR1, liftBRg]
theorem liftBR1_err (f : α → β) (r : Rd) (v : α) (e : TErr) : liftBR1 N f (.ok (r, v, N.errOf e)) = .err e := by
  simp [liftBR1, liftBRg, N.ne_nil, N.inv]
theorem liftBR1_pe (f : α → β) (r : Rd) (v : α) (id : Int) (msg : String) :
    liftBR1 N f (.ok (r, v, GoErr.pe id msg)) = .err (.pe id) := by
  simp [liftBR1, liftBRg, N.pe]
theorem liftBR1_errg (f : α → β) (r : Rd) (v : α) (ge : GoErr) (h : ge ≠ GoErr.nil) :
    liftBR1 N f (.ok (r, v, ge)) = .err (N.absE ge) := by
  simp [liftBR1, liftBRg, h]
theorem liftBR1_panic (f : α → β) (s : String) : liftBR1 N f (.panic s) = .panic s := rfl

theorem liftBR2_ok (f : α → α' → β) (r : Rd) (v : α) (v' : α') :
    liftBR2 N f (.ok (r, v, v', GoErr.nil)) = .ok (f v v', r) := by
  simp [liftBR2, liftBRg]
theorem liftBR2_err (f : α → α' → β) (r : Rd) (v : α) (v' : α') (e : TErr) :
    liftBR2 N f (.ok (r, v, v', N.errOf e)) = .err e := by
  simp [liftBR2, liftBRg, N.ne_nil, N.inv]
theorem liftBR2_pe (f : α → α' → β) (r : Rd) (v : α) (v' : α') (id : Int) (msg : String) :
    liftBR2 N f (.ok (r, v, v', GoErr.pe id msg)) = .err (.pe id) := by
  simp [liftBR2, liftBRg, N.pe]
theorem liftBR2_panic (f : α → α' → β) (s : String) : liftBR2 N f (.panic s) = .panic s := rfl

theorem liftBR3_ok (f : α → α' → α'' → β) (r : Rd) (v : α) (v' : α') (v'' : α'') :
    liftBR3 N f (.ok (r, v, v', v'', GoErr.nil)) = .ok (f v v' v'', r) := by
  simp [liftBR3, liftBRg]
theorem liftBR3_err (f : α → α' → α'' → β) (r : Rd) (v : α) (v' : α') (v'' : α'') (e : TErr) :
    liftBR3 N f (.ok (r, v, v', v'', N.errOf e)) = .err e := by
  simp [liftBR3, liftBRg, N.ne_nil, N.inv]
theorem liftBR3_pe (f : α → α' → α'' → β) (r : Rd) (v : α) (v' : α') (v'' : α'') (id : Int) (msg : String) :
    liftBR3 N f (.ok (r, v, v', v'', GoErr.pe id msg)) = .err (.pe id) := by
  simp [liftBR3, liftBRg, N.pe]
theorem liftBR3_errg (f : α → α' → α'' → β) (r : Rd) (v : α) (v' : α') (v'' : α'') (ge : GoErr) (h : ge ≠ GoErr.nil) :
    liftBR3 N f (.ok (r, v, v', v'', ge)) = .err (N.absE ge) := by
  simp [liftBR3, liftBRg, h]
theorem liftBR3_panic (f : α → α' → α'' → β) (s : String) : liftBR3 N f (.panic s) = .panic s := rfl
end lifts

/-- common simp set: the lifts on results, the naming never produces `nil` -/
macro "sr_simp" " [" ls:Lean.Parser.Tactic.simpLemma,* "]" : tactic =>
  `(tactic| simp [liftBR0_ok, liftBR0_err, liftBR0_pe, liftBR0_panic, liftBR1_ok, liftBR1_err, liftBR1_pe, liftBR1_panic,
      liftBR2_ok, liftBR2_err, liftBR2_pe, liftBR2_panic, liftBR3_ok, liftBR3_err, liftBR3_pe, liftBR3_panic,
      ErrNaming.ne_nil, $ls,*])

/-- `binary.BigEndian.UintNN(b)` on both sides: the same panic on a short slice, else the same value (given as a variable
    with its bound: the proofs never look inside `rdNN b`) -/
theorem u16_cases (b : Bytes) :
    (beU16 b = .panic "index" ∧ Wire.u16of b = .panic "index") ∨
    (∃ v : Nat, beU16 b = .ok (v : Int) ∧ Wire.u16of b = .ok v ∧ wrap .i16 (v : Int) = toI16 v) := by
  unfold beU16 Wire.u16of
  by_cases h : b.length < 2
  · left; have h' : ¬ 2 ≤ b.length := by omega
    simp [h, h']
  · right; have h' : 2 ≤ b.length := by omega
    exact ⟨rd16 b, by simp [h], by simp [h'], wrap_i16_nat _ (rd16_lt b)⟩

theorem u32_cases (b : Bytes) :
    (beU32 b = .panic "index" ∧ u32of b = .panic "index") ∨
    (∃ v : Nat, beU32 b = .ok (v : Int) ∧ u32of b = .ok v ∧ wrap .i32 (v : Int) = toI32 v ∧ v < 4294967296) := by
  unfold beU32 u32of
  by_cases h : b.length < 4
  · left; have h' : ¬ 4 ≤ b.length := by omega
    simp [h, h']
  · right; have h' : 4 ≤ b.length := by omega
    exact ⟨rd32 b, by simp [h], by simp [h'], wrap_i32_nat _ (rd32_lt b), rd32_lt b⟩

theorem u64_cases (b : Bytes) :
    (beU64 b = .panic "index" ∧ Wire.u64of b = .panic "index") ∨
    (∃ v : Nat, beU64 b = .ok (v : Int) ∧ Wire.u64of b = .ok v ∧ wrap .i64 (v : Int) = toI64 v) := by
  unfold beU64 Wire.u64of
  by_cases h : b.length < 8
  · left; have h' : ¬ 8 ≤ b.length := by omega
    simp [h, h']
  · right; have h' : 8 ≤ b.length := by omega
    exact ⟨rd64 b, by simp [h], by simp [h'], wrap_i64_nat _ (rd64_lt b)⟩

/-- `b[k]` on both sides -/
theorem idx_cases (b : Bytes) (k : Nat) :
    (GoSem.idx b (k : Int) = .panic "index" ∧ Verif.idx b k = .panic "index") ∨
    (∃ x : UInt8, GoSem.idx b (k : Int) = .ok (x.toNat : Int) ∧ Verif.idx b k = .ok x) := by
  rw [Tpl.gidx_nat]; unfold Verif.idx
  cases b[k]? with
  | none => left; exact ⟨rfl, rfl⟩
  | some x => right; exact ⟨x, rfl, rfl⟩

theorem idx0_cases (b : Bytes) :
    (GoSem.idx b 0 = .panic "index" ∧ Verif.idx b 0 = .panic "index") ∨
    (∃ x : UInt8, GoSem.idx b 0 = .ok (x.toNat : Int) ∧ Verif.idx b 0 = .ok x) := idx_cases b 0

theorem idx1_cases (b : Bytes) :
    (GoSem.idx b 1 = .panic "index" ∧ Verif.idx b 1 = .panic "index") ∨
    (∃ x : UInt8, GoSem.idx b 1 = .ok (x.toNat : Int) ∧ Verif.idx b 1 = .ok x) := idx_cases b 1

end SR

/-! ## the seventeen functions -/

theorem BR_next_eq (N : ErrNaming) (hw : WrapOK N) (r : Rd) (n : Int) :
    liftBR1 N id (Funcs.BR_next (iOfRd (rdOf N)) r n) = brNext n r := by
  rcases SR.next_cases N hw r n with ⟨b, r', h1, h2⟩ | ⟨e, r', h1, h2⟩ | ⟨h1, h2⟩ <;> sr_simp [h1, h2]

theorem BR_skipn_eq (N : ErrNaming) (hw : WrapOK N) (r : Rd) (n : Int) :
    liftBR0 N (Funcs.BR_skipn (iOfRd (rdOf N)) r n) = brSkipn n r := by
  unfold Funcs.BR_skipn brSkipn
  by_cases hn : n < 0
  · sr_simp [hn, errNeg, Facts.peNEGATIVE_SIZE]
  · simp only [iOfRd]
    generalize r.skip n = p
    obtain ⟨res, r'⟩ := p
    cases res with
    | ok b => sr_simp [hn]
    | fail e =>
      cases e with
      | none => sr_simp [hn]
      | some e =>
        have hne : rdOf N e ≠ GoErr.nil := N.ne_nil _
        have hw' : wrapErr (rdOf N e) = N.errOf (.wrap e) := hw e
        sr_simp [hn, hne, hw']
    | nofuel => sr_simp [hn]

/-- `Readn` is the model's `readLen` (the reader is not touched; no error result) -/
theorem BR_Readn_eq (errOf : RErr → GoErr) (r : Rd) :
    Funcs.BR_Readn (iOfRd errOf) r = .ok (r, (r.readLen : Int)) := rfl

theorem BR_ReadBool_eq (N : ErrNaming) (hw : WrapOK N) (r : Rd) :
    liftBR1 N id (Funcs.BR_ReadBool (iOfRd (rdOf N)) r) = Wire.brReadBool r := by
  unfold Funcs.BR_ReadBool Wire.brReadBool
  rcases SR.next_cases N hw r 1 with ⟨b, r', h1, h2⟩ | ⟨e, r', h1, h2⟩ | ⟨h1, h2⟩
  · rcases SR.idx0_cases b with ⟨g1, g2⟩ | ⟨x, g1, g2⟩
    · sr_simp [h1, h2, g1, g2]
    · sr_simp [h1, h2, g1, g2, u8_int_eq_one]
  · sr_simp [h1, h2]
  · sr_simp [h1, h2]


theorem BR_ReadByte_eq (N : ErrNaming) (hw : WrapOK N) (r : Rd) :
    liftBR1 N id (Funcs.BR_ReadByte (iOfRd (rdOf N)) r) = Wire.brReadByte r := by
  unfold Funcs.BR_ReadByte Wire.brReadByte
  rcases SR.next_cases N hw r 1 with ⟨b, r', h1, h2⟩ | ⟨e, r', h1, h2⟩ | ⟨h1, h2⟩
  · rcases SR.idx0_cases b with ⟨g1, g2⟩ | ⟨x, g1, g2⟩
    · sr_simp [h1, h2, g1, g2]
    · sr_simp [h1, h2, g1, g2, wrap_i8_nat _ x.toNat_lt]
  · sr_simp [h1, h2]
  · sr_simp [h1, h2]

theorem BR_ReadI16_eq (N : ErrNaming) (hw : WrapOK N) (r : Rd) :
    liftBR1 N id (Funcs.BR_ReadI16 (iOfRd (rdOf N)) r) = Wire.brReadI16 r := by
  unfold Funcs.BR_ReadI16 Wire.brReadI16
  rcases SR.next_cases N hw r 2 with ⟨b, r', h1, h2⟩ | ⟨e, r', h1, h2⟩ | ⟨h1, h2⟩
  · rcases SR.u16_cases b with ⟨g1, g2⟩ | ⟨v, g1, g2, g3⟩
    · sr_simp [h1, h2, g1, g2]
    · sr_simp [h1, h2, g1, g2, g3]
  · sr_simp [h1, h2]
  · sr_simp [h1, h2]

namespace SR
/-- the three outcomes of `ReadI32` on both sides (used by ReadBinary / ReadMessageBegin) -/
theorem readI32_cases (N : ErrNaming) (hw : WrapOK N) (r : Rd) :
    (∃ v r', brReadI32 r = .ok (v, r') ∧ Funcs.BR_ReadI32 (iOfRd (rdOf N)) r = .ok (r', v, GoErr.nil) ∧
        -2147483648 ≤ v ∧ v < 2147483648) ∨
    (∃ e r', brReadI32 r = .err e ∧ Funcs.BR_ReadI32 (iOfRd (rdOf N)) r = .ok (r', 0, N.errOf e)) ∨
    (∃ s, brReadI32 r = .panic s ∧ Funcs.BR_ReadI32 (iOfRd (rdOf N)) r = .panic s) := by
  unfold Funcs.BR_ReadI32 brReadI32
  rcases SR.next_cases N hw r 4 with ⟨b, r', h1, h2⟩ | ⟨e, r', h1, h2⟩ | ⟨h1, h2⟩
  · rcases SR.u32_cases b with ⟨g1, g2⟩ | ⟨v, g1, g2, g3, g4⟩
    · right; right; exact ⟨"index", by simp [h1, h2, g1, g2]⟩
    · left
      have hr := toI32_range v g4
      exact ⟨toI32 v, r', by simp [h1, h2, g1, g2], by simp [h1, h2, g1, g2, g3], hr.1, hr.2⟩
  · right; left; exact ⟨.wrap e, r', by simp [h1, h2], by simp [h1, h2, N.ne_nil]⟩
  · right; right; exact ⟨"nofuel", by simp [h1, h2]⟩
end SR

theorem BR_ReadI32_eq (N : ErrNaming) (hw : WrapOK N) (r : Rd) :
    liftBR1 N id (Funcs.BR_ReadI32 (iOfRd (rdOf N)) r) = brReadI32 r := by
  rcases SR.readI32_cases N hw r with ⟨v, r', h1, h2, _⟩ | ⟨e, r', h1, h2⟩ | ⟨s, h1, h2⟩ <;> sr_simp [h1, h2]

theorem BR_ReadI64_eq (N : ErrNaming) (hw : WrapOK N) (r : Rd) :
    liftBR1 N id (Funcs.BR_ReadI64 (iOfRd (rdOf N)) r) = Wire.brReadI64 r := by
  unfold Funcs.BR_ReadI64 Wire.brReadI64
  rcases SR.next_cases N hw r 8 with ⟨b, r', h1, h2⟩ | ⟨e, r', h1, h2⟩ | ⟨h1, h2⟩
  · rcases SR.u64_cases b with ⟨g1, g2⟩ | ⟨v, g1, g2, g3⟩
    · sr_simp [h1, h2, g1, g2]
    · sr_simp [h1, h2, g1, g2, g3]
  · sr_simp [h1, h2]
  · sr_simp [h1, h2]

/-- a double is its 64-bit pattern: an `Int` in `[0, 2^64)` in the translation, a `Nat` in the model -/
theorem BR_ReadDouble_eq (N : ErrNaming) (hw : WrapOK N) (r : Rd) :
    liftBR1 N Int.toNat (Funcs.BR_ReadDouble (iOfRd (rdOf N)) r) = Wire.brReadDouble r := by
  unfold Funcs.BR_ReadDouble Wire.brReadDouble
  rcases SR.next_cases N hw r 8 with ⟨b, r', h1, h2⟩ | ⟨e, r', h1, h2⟩ | ⟨h1, h2⟩
  · rcases SR.u64_cases b with ⟨g1, g2⟩ | ⟨v, g1, g2, _⟩
    · sr_simp [h1, h2, g1, g2]
    · sr_simp [h1, h2, g1, g2]
  · sr_simp [h1, h2]
  · sr_simp [h1, h2]

/-! ## ReadBinary / ReadString -/

namespace SR

/-- what `ReadBinary(bs)` of the reader model reports, for EVERY reader state (no invariant): the bytes copied are `m ≤ k`
    in number, and a nil error means the slice was filled (`m = k`) -/
theorem readBinary_post (r : Rd) (k : Nat) (out : Bytes) (m : Nat) (e : Option RErr) (r' : Rd)
    (h : r.readBinary k = (some (out, m, e), r')) : out.length = m ∧ m ≤ k ∧ (e = none → m = k) := by
  unfold Rd.readBinary at h
  generalize hacq : r.acquire k = a at h
  cases a with
  | none => simp at h
  | some p =>
    obtain ⟨m0, r1⟩ := p
    simp only [Prod.mk.injEq, Option.some.injEq] at h
    obtain ⟨⟨ho, hm, he⟩, _⟩ := h
    have hout := acquire_outcome r k m0 r1 hacq
    subst ho hm
    by_cases hgt : m0 > k
    · simp only [hgt, if_true] at he ⊢
      refine ⟨?_, Nat.le_refl _, fun _ => by simp⟩
      simp only [List.length_take, List.length_drop]
      rcases hout with ⟨h1, h2⟩ | ⟨h1, _⟩ <;> omega
    · simp only [hgt, if_false] at he ⊢
      refine ⟨?_, by omega, ?_⟩
      · simp only [List.length_take, List.length_drop]
        rcases hout with ⟨h1, h2⟩ | ⟨h1, _⟩ <;> omega
      · intro hn
        by_cases hlt : k > m0
        · rw [if_pos hlt] at he
          rcases hout with ⟨h1, h2⟩ | ⟨h1, h2⟩
          · omega
          · rw [← he] at hn; exact absurd hn h2
        · omega

/-- `copy(bs[off:], out)` when `out` fills the view: the view afterwards is `out` -/
theorem vcopy_full (bs : Bytes) (off : Int) (out : Bytes) (h0 : 0 ≤ off) (h1 : off ≤ (bs.length : Int))
    (hl : out.length = bs.length - off.toNat) : (vcopy bs off out).1.drop off.toNat = out := by
  have hn : min (len bs - off).toNat out.length = out.length := by unfold len; omega
  have ht : (bs.take off.toNat).length = off.toNat := by simp; omega
  simp only [vcopy, vlen, hn, List.take_length, putAt, List.append_assoc]
  rw [List.drop_left' ht, List.drop_eq_nil_of_le (by omega)]
  simp

end SR

/-- `readBinary(bs)`: the slice `bs` is the view `(bs, off)` with `0 ≤ off ≤ len bs` (the view exists: in Go the caller's
    `bs[off:]` would have panicked otherwise; ReadBinary calls it with `off = 0`); its content afterwards is what the model
    returns. The reported count is not part of the model's result. -/
theorem BR_readBinary_eq (N : ErrNaming) (hw : WrapOK N) (r : Rd) (bs : Bytes) (off : Int)
    (h0 : 0 ≤ off) (h1 : off ≤ (bs.length : Int)) :
    liftBR2 N (fun bs' _ => bs'.drop off.toNat) (Funcs.BR_readBinary (iOfRd (rdOf N)) r bs off) =
      Wire.brReadFull (bs.length - off.toNat) r := by
  unfold Funcs.BR_readBinary Wire.brReadFull
  have hk : ¬ (vlen bs off < 0) := by unfold vlen len; omega
  have hk' : (vlen bs off).toNat = bs.length - off.toNat := by unfold vlen len; omega
  simp only [iOfRd, hk, if_false, hk']
  generalize hp : r.readBinary (bs.length - off.toNat) = p
  obtain ⟨res, r'⟩ := p
  cases res with
  | none => sr_simp []
  | some t =>
    obtain ⟨out, m, e⟩ := t
    have hpost := SR.readBinary_post r _ out m e r' hp
    cases e with
    | some e =>
      have hne : rdOf N e ≠ GoErr.nil := N.ne_nil _
      have hw' : wrapErr (rdOf N e) = N.errOf (.wrap e) := hw e
      sr_simp [hne, hw']
    | none =>
      have hl : out.length = bs.length - off.toNat := by have := hpost.2.2 rfl; omega
      sr_simp [SR.vcopy_full bs off out h0 h1 hl]

namespace SR

/-- `dirtmake.Bytes(n, n)` for `n ≥ 0` -/
theorem dirty_ok (n : Int) (h : 0 ≤ n) : dirtyBytes n = .ok (List.replicate n.toNat 0) := by
  have : ¬ n < 0 := by omega
  simp [dirtyBytes, this]

/-- the outcomes of `ReadBinary` on both sides; an error is any non-nil Go value that reads back as the model's error -/
theorem readBin_cases (N : ErrNaming) (hw : WrapOK N) (r : Rd) :
    (∃ v r', Wire.brReadBinary r = .ok (v, r') ∧ Funcs.BR_ReadBinary (iOfRd (rdOf N)) r = .ok (r', v, GoErr.nil)) ∨
    (∃ ge r' v, ge ≠ GoErr.nil ∧ Wire.brReadBinary r = .err (N.absE ge) ∧
        Funcs.BR_ReadBinary (iOfRd (rdOf N)) r = .ok (r', v, ge)) ∨
    (∃ s, Wire.brReadBinary r = .panic s ∧ Funcs.BR_ReadBinary (iOfRd (rdOf N)) r = .panic s) := by
  unfold Funcs.BR_ReadBinary Wire.brReadBinary
  rcases readI32_cases N hw r with ⟨v, r1, h1, h2, _, _⟩ | ⟨e, r1, h1, h2⟩ | ⟨s, h1, h2⟩
  · by_cases hneg : v < 0
    · right; left
      refine ⟨GoErr.pe 2 "negative size", r1, [], by simp, ?_, ?_⟩
      · simp [h1, hneg, N.pe, errNeg, Facts.peNEGATIVE_SIZE]
      · simp [h2, hneg]
    · have hd := dirty_ok v (by omega)
      have hlen : ((List.replicate v.toNat (0 : UInt8)).length : Int) = v := by simp; omega
      have hq := BR_readBinary_eq N hw r1 (List.replicate v.toNat 0) 0 (by omega) (by omega)
      simp only [List.length_replicate, Int.toNat_zero, Nat.sub_zero, List.drop_zero] at hq
      generalize hx : Funcs.BR_readBinary (iOfRd (rdOf N)) r1 (List.replicate v.toNat 0) 0 = x at hq
      cases x with
      | err e => exact nomatch e
      | oob =>
        -- the translation of readBinary has no unsafe load: the model side would be `oob` too
        have : Wire.brReadFull v.toNat r1 = .oob := by rw [← hq]; rfl
        unfold Wire.brReadFull at this
        split at this
        · cases this
        · split at this <;> cases this
      | panic s =>
        right; right
        refine ⟨s, ?_, ?_⟩
        · simp [h1, hneg, ← hq, liftBR2_panic]
        · simp [h2, hneg, hd, hx]
      | ok t =>
        obtain ⟨r2, b2, n2, ge⟩ := t
        by_cases hge : ge = GoErr.nil
        · subst hge
          left
          refine ⟨b2, r2, ?_, ?_⟩
          · simp [h1, hneg, ← hq, liftBR2_ok]
          · simp [h2, hneg, hd, hx]
        · right; left
          refine ⟨ge, r2, b2, hge, ?_, ?_⟩
          · simp [h1, hneg, ← hq, liftBR2, liftBRg, hge]
          · simp [h2, hneg, hd, hx]
  · right; left
    exact ⟨N.errOf e, r1, [], N.ne_nil e, by simp [h1, N.inv], by simp [h2, N.ne_nil]⟩
  · right; right; exact ⟨s, by simp [h1], by simp [h2]⟩

end SR

theorem BR_ReadBinary_eq (N : ErrNaming) (hw : WrapOK N) (r : Rd) :
    liftBR1 N id (Funcs.BR_ReadBinary (iOfRd (rdOf N)) r) = Wire.brReadBinary r := by
  rcases SR.readBin_cases N hw r with ⟨v, r', h1, h2⟩ | ⟨ge, r', v, hge, h1, h2⟩ | ⟨s, h1, h2⟩
  · sr_simp [h1, h2]
  · simp [h1, h2, SR.liftBR1_errg N _ _ _ _ hge]
  · sr_simp [h1, h2]

/-- `ReadString` is `ReadBinary` (a Go string and a `[]byte` are both `Bytes`; the model has one function for the two) -/
theorem BR_ReadString_eq (N : ErrNaming) (hw : WrapOK N) (r : Rd) :
    liftBR1 N id (Funcs.BR_ReadString (iOfRd (rdOf N)) r) = Wire.brReadBinary r := by
  unfold Funcs.BR_ReadString
  rcases SR.readBin_cases N hw r with ⟨v, r', h1, h2⟩ | ⟨ge, r', v, hge, h1, h2⟩ | ⟨s, h1, h2⟩
  · sr_simp [h1, h2]
  · simp [h1, h2, hge, SR.liftBR1_errg N _ _ _ _ hge]
  · sr_simp [h1, h2]

/-! ## container headers -/

namespace SR

/-- `b[k:]` of the slice the reader returned, on both sides -/
theorem sfrom_cases (b : Bytes) (k : Nat) :
    (sliceFrom b (k : Int) = .panic "slice" ∧ Wire.sfrom b k = .panic "slice") ∨
    (∃ b', sliceFrom b (k : Int) = .ok b' ∧ Wire.sfrom b k = .ok b') := by
  unfold sliceFrom Wire.sfrom len
  by_cases h : k > b.length
  · left
    have h' : ((k : Int) < 0 ∨ (k : Int) > (b.length : Int)) := by omega
    simp [h, h']
  · right
    have h' : ¬ ((k : Int) < 0 ∨ (k : Int) > (b.length : Int)) := by omega
    exact ⟨b.drop k, by rw [if_neg h']; simp, by rw [if_neg h]⟩

theorem sfrom1_cases (b : Bytes) :
    (sliceFrom b 1 = .panic "slice" ∧ Wire.sfrom b 1 = .panic "slice") ∨
    (∃ b', sliceFrom b 1 = .ok b' ∧ Wire.sfrom b 1 = .ok b') := sfrom_cases b 1

theorem sfrom2_cases (b : Bytes) :
    (sliceFrom b 2 = .panic "slice" ∧ Wire.sfrom b 2 = .panic "slice") ∨
    (∃ b', sliceFrom b 2 = .ok b' ∧ Wire.sfrom b 2 = .ok b') := sfrom_cases b 2

theorem tyByte_zero : tyByte 0 = T_STOP := by decide

theorem wrap_i8_u8 (x : UInt8) : wrap .i8 (x.toNat : Int) = toI8 x.toNat := wrap_i8_nat _ x.toNat_lt

end SR

/-- a type byte is an `int8` (`TType`) in the translation and a `UInt8` in the model: `tyByte` (Funcs/Read.lean) -/
theorem BR_ReadFieldBegin_eq (N : ErrNaming) (hw : WrapOK N) (r : Rd) :
    liftBR2 N (fun t id => (tyByte t, id)) (Funcs.BR_ReadFieldBegin (iOfRd (rdOf N)) r) = Wire.brReadFieldBegin r := by
  unfold Funcs.BR_ReadFieldBegin Wire.brReadFieldBegin
  rcases SR.next_cases N hw r 1 with ⟨b, r', h1, h2⟩ | ⟨e, r', h1, h2⟩ | ⟨h1, h2⟩
  · rcases SR.idx0_cases b with ⟨g1, g2⟩ | ⟨x, g1, g2⟩
    · sr_simp [h1, h2, g1, g2]
    · by_cases hs : x = T_STOP
      · have hz : toI8 x.toNat = 0 := (toI8_eq_0 x).mpr hs
        subst hs
        sr_simp [h1, h2, g1, g2, SR.wrap_i8_u8, hz, SR.tyByte_zero]
      · have hz : ¬ toI8 x.toNat = 0 := fun h => hs ((toI8_eq_0 x).mp h)
        rcases SR.next_cases N hw r' 2 with ⟨b2, r2, k1, k2⟩ | ⟨e, r2, k1, k2⟩ | ⟨k1, k2⟩
        · rcases SR.u16_cases b2 with ⟨g3, g4⟩ | ⟨v, g3, g4, g5⟩
          · sr_simp [h1, h2, g1, g2, SR.wrap_i8_u8, hz, hs, k1, k2, g3, g4]
          · sr_simp [h1, h2, g1, g2, SR.wrap_i8_u8, hz, hs, k1, k2, g3, g4, g5, tyByte_toI8]
        · sr_simp [h1, h2, g1, g2, SR.wrap_i8_u8, hz, hs, k1, k2]
        · sr_simp [h1, h2, g1, g2, SR.wrap_i8_u8, hz, hs, k1, k2]
  · sr_simp [h1, h2]
  · sr_simp [h1, h2]

/-- the size is `int(uint32)`: an `Int` in `[0, 2^32)` in the translation, a `Nat` in the model -/
theorem BR_ReadMapBegin_eq (N : ErrNaming) (hw : WrapOK N) (r : Rd) :
    liftBR3 N (fun kt vt n => (tyByte kt, tyByte vt, n.toNat)) (Funcs.BR_ReadMapBegin (iOfRd (rdOf N)) r) =
      Wire.brReadMapBegin r := by
  unfold Funcs.BR_ReadMapBegin Wire.brReadMapBegin
  rcases SR.next_cases N hw r 6 with ⟨b, r', h1, h2⟩ | ⟨e, r', h1, h2⟩ | ⟨h1, h2⟩
  · rcases SR.idx0_cases b with ⟨g1, g2⟩ | ⟨x, g1, g2⟩
    · sr_simp [h1, h2, g1, g2]
    · rcases SR.idx1_cases b with ⟨g3, g4⟩ | ⟨y, g3, g4⟩
      · sr_simp [h1, h2, g1, g2, g3, g4]
      · rcases SR.sfrom2_cases b with ⟨g5, g6⟩ | ⟨b', g5, g6⟩
        · sr_simp [h1, h2, g1, g2, g3, g4, g5, g6]
        · rcases SR.u32_cases b' with ⟨g7, g8⟩ | ⟨v, g7, g8, _, _⟩
          · sr_simp [h1, h2, g1, g2, g3, g4, g5, g6, g7, g8]
          · sr_simp [h1, h2, g1, g2, g3, g4, g5, g6, g7, g8, SR.wrap_i8_u8, tyByte_toI8]
  · sr_simp [h1, h2]
  · sr_simp [h1, h2]

theorem BR_ReadListBegin_eq (N : ErrNaming) (hw : WrapOK N) (r : Rd) :
    liftBR2 N (fun et n => (tyByte et, n.toNat)) (Funcs.BR_ReadListBegin (iOfRd (rdOf N)) r) =
      Wire.brReadListBegin r := by
  unfold Funcs.BR_ReadListBegin Wire.brReadListBegin
  rcases SR.next_cases N hw r 5 with ⟨b, r', h1, h2⟩ | ⟨e, r', h1, h2⟩ | ⟨h1, h2⟩
  · rcases SR.idx0_cases b with ⟨g1, g2⟩ | ⟨x, g1, g2⟩
    · sr_simp [h1, h2, g1, g2]
    · rcases SR.sfrom1_cases b with ⟨g5, g6⟩ | ⟨b', g5, g6⟩
      · sr_simp [h1, h2, g1, g2, g5, g6]
      · rcases SR.u32_cases b' with ⟨g7, g8⟩ | ⟨v, g7, g8, _, _⟩
        · sr_simp [h1, h2, g1, g2, g5, g6, g7, g8]
        · sr_simp [h1, h2, g1, g2, g5, g6, g7, g8, SR.wrap_i8_u8, tyByte_toI8]
  · sr_simp [h1, h2]
  · sr_simp [h1, h2]

/-- `ReadSetBegin` has the body of `ReadListBegin` (the model functions are the same term). The proof covers both ways
    of writing it in Go: the body spelled out (first alternative: the ListBegin proof), or a call of `ReadListBegin`
    (second alternative: `BR_ReadListBegin_eq` and eta on the returned tuple). -/
theorem BR_ReadSetBegin_eq (N : ErrNaming) (hw : WrapOK N) (r : Rd) :
    liftBR2 N (fun et n => (tyByte et, n.toNat)) (Funcs.BR_ReadSetBegin (iOfRd (rdOf N)) r) =
      Wire.brReadSetBegin r := by
  have hm : Wire.brReadSetBegin r = Wire.brReadListBegin r := rfl
  rw [hm]
  first
  | (unfold Funcs.BR_ReadSetBegin Wire.brReadListBegin
     rcases SR.next_cases N hw r 5 with ⟨b, r', h1, h2⟩ | ⟨e, r', h1, h2⟩ | ⟨h1, h2⟩
     · rcases SR.idx0_cases b with ⟨g1, g2⟩ | ⟨x, g1, g2⟩
       · sr_simp [h1, h2, g1, g2]
       · rcases SR.sfrom1_cases b with ⟨g5, g6⟩ | ⟨b', g5, g6⟩
         · sr_simp [h1, h2, g1, g2, g5, g6]
         · rcases SR.u32_cases b' with ⟨g7, g8⟩ | ⟨v, g7, g8, _, _⟩
           · sr_simp [h1, h2, g1, g2, g5, g6, g7, g8]
           · sr_simp [h1, h2, g1, g2, g5, g6, g7, g8, SR.wrap_i8_u8, tyByte_toI8]
     · sr_simp [h1, h2]
     · sr_simp [h1, h2])
  | (have hL := BR_ReadListBegin_eq N hw r
     unfold Funcs.BR_ReadSetBegin
     generalize Funcs.BR_ReadListBegin (iOfRd (rdOf N)) r = x at hL ⊢
     rw [← hL]
     cases x with
     | ok t => simp
     | panic s => rfl
     | oob => rfl
     | err e => exact nomatch e)

/-! ## ReadMessageBegin -/

namespace SR

theorem readStr_cases (N : ErrNaming) (hw : WrapOK N) (r : Rd) :
    (∃ v r', Wire.brReadBinary r = .ok (v, r') ∧ Funcs.BR_ReadString (iOfRd (rdOf N)) r = .ok (r', v, GoErr.nil)) ∨
    (∃ ge r' v, ge ≠ GoErr.nil ∧ Wire.brReadBinary r = .err (N.absE ge) ∧
        Funcs.BR_ReadString (iOfRd (rdOf N)) r = .ok (r', v, ge)) ∨
    (∃ s, Wire.brReadBinary r = .panic s ∧ Funcs.BR_ReadString (iOfRd (rdOf N)) r = .panic s) := by
  unfold Funcs.BR_ReadString
  rcases readBin_cases N hw r with ⟨v, r', h1, h2⟩ | ⟨ge, r', v, hge, h1, h2⟩ | ⟨s, h1, h2⟩
  · left; exact ⟨v, r', h1, by simp [h2]⟩
  · right; left; exact ⟨ge, r', [], hge, h1, by simp [h2, hge]⟩
  · right; right; exact ⟨s, h1, by simp [h2]⟩

theorem ofInt32_lt (x : Int) : ofInt 32 x < 4294967296 := by
  unfold ofInt
  have h := Int.emod_lt_of_pos x (show (0 : Int) < ((2 ^ 32 : Nat) : Int) by decide)
  have h0 := Int.emod_nonneg x (show ((2 ^ 32 : Nat) : Int) ≠ 0 by decide)
  have : ((2 ^ 32 : Nat) : Int) = 4294967296 := by decide
  omega

/-- `uint32(header) & mask` on both sides -/
theorem hdr_band (v : Int) (m : Nat) (hm : m < 4294967296) :
    band .u32 (wrap .u32 v) (m : Int) = ((ofInt 32 v &&& m : Nat) : Int) := by
  rw [wrap_u32]; exact band_u32_nat _ _ (ofInt32_lt v) hm

end SR

theorem BR_ReadMessageBegin_eq (N : ErrNaming) (hw : WrapOK N) (r : Rd) :
    liftBR3 N (fun name typ seq => (name, typ, seq)) (Funcs.BR_ReadMessageBegin (iOfRd (rdOf N)) r) =
      Wire.brReadMessageBegin r := by
  unfold Funcs.BR_ReadMessageBegin Wire.brReadMessageBegin
  rcases SR.readI32_cases N hw r with ⟨v, r1, h1, h2, _, _⟩ | ⟨e, r1, h1, h2⟩ | ⟨s, h1, h2⟩
  · have hv : band .u32 (wrap .u32 v) 4294901760 = ((ofInt 32 v &&& 4294901760 : Nat) : Int) := by
      simpa using SR.hdr_band v 4294901760 (by omega)
    have ht : band .u32 (wrap .u32 v) 65535 = ((ofInt 32 v &&& 65535 : Nat) : Int) := by
      simpa using SR.hdr_band v 65535 (by omega)
    have htl : ofInt 32 v &&& 65535 ≤ 65535 := Nat.and_le_right
    have hty : wrap .i32 ((ofInt 32 v &&& 65535 : Nat) : Int) = ((ofInt 32 v &&& 65535 : Nat) : Int) :=
      wrap_i32_of_range _ (by omega) (by omega)
    by_cases hver : ofInt 32 v &&& 4294901760 = 2147549184
    · have hver' : ((ofInt 32 v &&& 4294901760 : Nat) : Int) = 2147549184 := by omega
      rcases SR.readStr_cases N hw r1 with ⟨nm, r2, k1, k2⟩ | ⟨ge, r2, nm, hge, k1, k2⟩ | ⟨s, k1, k2⟩
      · rcases SR.readI32_cases N hw r2 with ⟨sq, r3, j1, j2, _, _⟩ | ⟨e, r3, j1, j2⟩ | ⟨s, j1, j2⟩
        · sr_simp [h1, h2, hv, ht, hty, hver, hver', k1, k2, j1, j2, Facts.msgVersionMask, Facts.msgVersion1,
            Facts.msgTypeMask]
        · sr_simp [h1, h2, hv, ht, hty, hver, hver', k1, k2, j1, j2, Facts.msgVersionMask, Facts.msgVersion1,
            Facts.msgTypeMask]
        · sr_simp [h1, h2, hv, ht, hty, hver, hver', k1, k2, j1, j2, Facts.msgVersionMask, Facts.msgVersion1,
            Facts.msgTypeMask]
      · simp [h1, h2, hv, ht, hty, hver, hver', k1, k2, hge, SR.liftBR3_errg N _ _ _ _ _ _ hge, Facts.msgVersionMask,
          Facts.msgVersion1, Facts.msgTypeMask]
      · sr_simp [h1, h2, hv, ht, hty, hver, hver', k1, k2, Facts.msgVersionMask, Facts.msgVersion1,
          Facts.msgTypeMask]
    · have hver' : ¬ ((ofInt 32 v &&& 4294901760 : Nat) : Int) = 2147549184 := by omega
      -- both orientations of the comparison (`a != b` / `b != a` in the source)
      have hver'' : ¬ (2147549184 : Int) = ((ofInt 32 v &&& 4294901760 : Nat) : Int) := by omega
      sr_simp [h1, h2, hv, hver, hver', hver'', Facts.msgVersionMask, Facts.msgVersion1, Wire.errBadVersion,
        Facts.peBAD_VERSION]
  · sr_simp [h1, h2]
  · sr_simp [h1, h2]

/-! ## the standard naming (`Tpl.stdNaming`): closed instances -/

/-- reader errors by name: `io.EOF`, `io.ErrNoProgress`, `bufiox.errNegativeCount`, `src#k` -/
abbrev rdStd : RErr → GoErr := rdOf stdNaming

theorem BR_next_eq_std (r : Rd) (n : Int) : liftBR1 stdNaming id (Funcs.BR_next (iOfRd rdStd) r n) = brNext n r :=
  BR_next_eq stdNaming wrapOK_std r n
theorem BR_skipn_eq_std (r : Rd) (n : Int) : liftBR0 stdNaming (Funcs.BR_skipn (iOfRd rdStd) r n) = brSkipn n r :=
  BR_skipn_eq stdNaming wrapOK_std r n
theorem BR_ReadBool_eq_std (r : Rd) : liftBR1 stdNaming id (Funcs.BR_ReadBool (iOfRd rdStd) r) = Wire.brReadBool r :=
  BR_ReadBool_eq stdNaming wrapOK_std r
theorem BR_ReadI32_eq_std (r : Rd) : liftBR1 stdNaming id (Funcs.BR_ReadI32 (iOfRd rdStd) r) = brReadI32 r :=
  BR_ReadI32_eq stdNaming wrapOK_std r
theorem BR_ReadBinary_eq_std (r : Rd) :
    liftBR1 stdNaming id (Funcs.BR_ReadBinary (iOfRd rdStd) r) = Wire.brReadBinary r :=
  BR_ReadBinary_eq stdNaming wrapOK_std r
theorem BR_ReadMessageBegin_eq_std (r : Rd) :
    liftBR3 stdNaming (fun name typ seq => (name, typ, seq)) (Funcs.BR_ReadMessageBegin (iOfRd rdStd) r) =
      Wire.brReadMessageBegin r :=
  BR_ReadMessageBegin_eq stdNaming wrapOK_std r

/-! ## the generated functions compute (non-vacuity) -/
namespace SR

/-- what the examples show of a result: bytes consumed so far (`ReadLen`), value(s), error -/
def shown {α : Type} (x : GM (Rd × α)) : GM (Nat × α) := x.bind fun t => .ok (t.1.readLen, t.2)

/-- a BytesReader over `data` -/
def bytesRd (data : Bytes) : Rd := Rd.newBytes data data.length
/-- a DefaultReader over a source that delivers `data` in reads of at most `k` bytes, then `io.EOF` -/
def chunkRd (data : Bytes) (k : Nat) : Rd := Rd.newDefault ⟨data, List.replicate (data.length + 1) ⟨k, none⟩⟩

-- success
example : shown (Funcs.BR_ReadI32 (iOfRd rdStd) (bytesRd [0xff, 0xff, 0xff, 0xfe, 9])) = .ok (4, -2, .nil) := by
  decide +kernel
example : shown (Funcs.BR_ReadBool (iOfRd rdStd) (bytesRd [1])) = .ok (1, true, .nil) := by decide +kernel
example : shown (Funcs.BR_ReadFieldBegin (iOfRd rdStd) (bytesRd [8, 0xff, 0xff])) = .ok (3, 8, -1, .nil) := by
  decide +kernel
example : shown (Funcs.BR_ReadFieldBegin (iOfRd rdStd) (bytesRd [0, 7])) = .ok (1, 0, 0, .nil) := by decide +kernel
example : shown (Funcs.BR_ReadMapBegin (iOfRd rdStd) (bytesRd [11, 12, 0, 0, 1, 0])) = .ok (6, 11, 12, 256, .nil) := by
  decide +kernel
example : shown (Funcs.BR_ReadListBegin (iOfRd rdStd) (bytesRd [0x8b, 0xff, 0xff, 0xff, 0xff])) =
    .ok (5, -117, 4294967295, .nil) := by decide +kernel
example : shown (Funcs.BR_ReadString (iOfRd rdStd) (chunkRd [0, 0, 0, 2, 0x68, 0x69, 0x21] 3)) =
    .ok (6, [0x68, 0x69], .nil) := by decide +kernel
example : shown (Funcs.BR_ReadMessageBegin (iOfRd rdStd)
    (chunkRd [0x80, 1, 0, 1, 0, 0, 0, 1, 0x66, 0, 0, 0, 7] 5)) = .ok (13, [0x66], 1, 7, .nil) := by decide +kernel
example : liftBR3 stdNaming (fun name typ seq => (name, typ, seq)) (Funcs.BR_ReadMessageBegin (iOfRd rdStd)
    (bytesRd [0x80, 1, 0, 1, 0, 0, 0, 1, 0x66, 0, 0, 0, 7])) = Wire.brReadMessageBegin (bytesRd [0x80, 1, 0, 1, 0, 0, 0, 1, 0x66, 0, 0, 0, 7]) :=
  BR_ReadMessageBegin_eq_std _
example : shown (Funcs.BR_skipn (iOfRd rdStd) (bytesRd [1, 2, 3]) 2) = .ok (2, .nil) := by decide +kernel
example : Funcs.BR_Readn (iOfRd rdStd) (bytesRd [1, 2, 3]) = .ok (bytesRd [1, 2, 3], 0) := by decide +kernel
-- error values: the reader's io.EOF wrapped by NewProtocolExceptionWithErr; the protocol exceptions of BufferReader itself
example : shown (Funcs.BR_ReadI32 (iOfRd rdStd) (bytesRd [1, 2])) = .ok (0, 0, .named "wrap:io.EOF") := by decide +kernel
example : liftBR1 stdNaming id (Funcs.BR_ReadI32 (iOfRd rdStd) (bytesRd [1, 2])) = .err (.wrap .eof) := by decide +kernel
example : shown (Funcs.BR_ReadBinary (iOfRd rdStd) (bytesRd [0, 0, 0, 3, 0x68])) = .ok (5, [0x68, 0, 0], .named "wrap:io.EOF") := by
  decide +kernel
example : shown (Funcs.BR_ReadString (iOfRd rdStd) (bytesRd [0xff, 0xff, 0xff, 0xff])) =
    .ok (4, [], .pe 2 "negative size") := by decide +kernel
example : liftBR1 stdNaming id (Funcs.BR_ReadString (iOfRd rdStd) (bytesRd [0xff, 0xff, 0xff, 0xff])) = .err errNeg := by
  decide +kernel
example : liftBR3 stdNaming (fun name typ seq => (name, typ, seq)) (Funcs.BR_ReadMessageBegin (iOfRd rdStd)
    (bytesRd [0x80, 2, 0, 1, 0, 0, 0, 0])) = .err Wire.errBadVersion := by decide +kernel
example : shown (Funcs.BR_skipn (iOfRd rdStd) (bytesRd [1, 2, 3]) (-1)) = .ok (0, .pe 2 "negative size") := by decide +kernel
example : shown (Funcs.BR_skipn (iOfRd rdStd) (bytesRd [1, 2, 3]) 4) = .ok (0, .named "wrap:io.EOF") := by decide +kernel
-- panics. Over the reader MODEL no Read* panics (a count below the request always comes with a non-nil error:
-- `SR.acquire_outcome`, for every reader state); the generated code does panic over a reader that breaks the `Next`
-- contract (a short slice with a nil error), exactly as the Go code would, and `readBinary` on a view that does not exist
/-- a reader whose `Next` answers two bytes whatever was asked -/
def shortI : ReaderI Unit where
  next s _ := .ok (([1, 2], GoErr.nil), s)
  peek s _ := .ok (([], GoErr.nil), s)
  skip s _ := .ok (GoErr.nil, s)
  readBinary s _ := .ok (([], 0, GoErr.nil), s)
  readLen _ := 0
/-- a reader whose `Next` answers `(nil, nil)` (the model's `.fail none`) -/
def nilI : ReaderI Unit where
  next s _ := .ok (([], GoErr.nil), s)
  peek s _ := .ok (([], GoErr.nil), s)
  skip s _ := .ok (GoErr.nil, s)
  readBinary s _ := .ok (([], 0, GoErr.nil), s)
  readLen _ := 0
example : Funcs.BR_ReadI32 shortI () = .panic "index" := by decide
example : Funcs.BR_ReadI16 shortI () = .ok ((), 258, .nil) := by decide +kernel
example : Funcs.BR_ReadMapBegin shortI () = .panic "index" := by decide
example : Funcs.BR_ReadListBegin shortI () = .panic "index" := by decide
example : Funcs.BR_ReadBool nilI () = .panic "index" := by decide
example : Funcs.BR_readBinary (iOfRd rdStd) (bytesRd [1, 2, 3]) [0, 0] 3 = .panic "ReadBinary: negative length" := by
  decide +kernel
example : Funcs.BR_ReadBinary nilI () = .panic "index" := by decide

end SR

end Verif.FuncsEq

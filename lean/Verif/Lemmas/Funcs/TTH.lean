/-
  Lemmas/Funcs/TTH: the seven functions of protocol/ttheader {utils.go, decode.go} that the translator
  (`extract/funcs.go`) turns into `Verif.Funcs.tth_*` on every run ARE the hand-written model functions of
  `Verif.Model.TTHeader` (`TTH.bytes2Uint8` …) that the decode property theorems are about.

  Lifts (defined here, the TTH models use `DOut = Out DErr` and `Nat` values):
  * `liftN`   : `GM Int → DOut Nat`               — a Go unsigned result as a `Nat`;
  * `liftB`   : `GM Bool → DOut Bool`             — `liftP`;
  * `liftEof` : `GM (Int × GoErr) → DOut (Option Nat)` — `err == nil` ↦ `some v`, `err == io.EOF` ↦ `none`;
  * `liftEofS`: `GM (Bytes × Int × GoErr) → DOut (Option (Bytes × Nat))` — the same for `(buf, n, err)`.
  Any OTHER Go error value is sent to `.err .nofuel`, an outcome none of the seven model functions can produce:
  the equalities therefore also say that io.EOF is the only error these functions return.
  Panics are carried over with their kind.

  Size hypothesis of the three offset functions (`Bytes2Uint8`, `Bytes2Uint16`, `ReadString2BLen`): `b.length < 2^63` and `off < 2^63` (the offset is a Go `int`
  and a slice length fits an `int`: a typing invariant, needed because the translation computes
  `len(bytes) - off` in wrapped int64 while the model computes it in ℤ).
-/
import Verif.Lemmas.Funcs.Base
import Verif.Model.TTHeader
namespace Verif.FuncsEq
open Verif Verif.GoSem

/-! ## lifts -/

/-- a translated function returning a Go unsigned integer, as a `DOut Nat` -/
def liftN (x : GM Int) : TTH.DOut Nat :=
  match x with
  | .ok r => .ok r.toNat
  | .panic s => .panic s
  | .oob => .oob
  | .err e => nomatch e

/-- a translated predicate, as a `DOut Bool` -/
def liftB (x : GM Bool) : TTH.DOut Bool := liftP x

/-- the Go error values of the ttheader utils: `nil` ↦ `some a`, `io.EOF` ↦ `none`; anything else is sent to an
    outcome the models never produce -/
def eofOut {α : Type} (a : α) : GoErr → TTH.DOut (Option α)
  | .nil => .ok (some a)
  | .named n => if n = "io.EOF" then .ok none else .err .nofuel
  | .pe _ _ => .err .nofuel

/-- `(v, err)` of `Bytes2Uint8` / `Bytes2Uint16` as the models' `DOut (Option Nat)` -/
def liftEof (x : GM (Int × GoErr)) : TTH.DOut (Option Nat) :=
  match x with
  | .ok r => eofOut r.1.toNat r.2
  | .panic s => .panic s
  | .oob => .oob
  | .err e => nomatch e

/-- `(buf, n, err)` of `ReadString2BLen` as the models' `DOut (Option (Bytes × Nat))` -/
def liftEofS (x : GM (Bytes × Int × GoErr)) : TTH.DOut (Option (Bytes × Nat)) :=
  match x with
  | .ok r => eofOut (r.1, r.2.1.toNat) r.2.2
  | .panic s => .panic s
  | .oob => .oob
  | .err e => nomatch e

/-! ## the GoSem primitives in range (conditional rewrite rules, side conditions by `omega`) -/

theorem wrap_i64_id (x : Int) (h0 : -9223372036854775808 ≤ x) (h1 : x < 9223372036854775808) :
    wrap .i64 x = x := wrap_i64_of_range x h0 h1

theorem idx_ok (b : Bytes) (i : Int) (h0 : 0 ≤ i) (h1 : i < (b.length : Int)) :
    GoSem.idx b i = .ok ((b[i.toNat]'(by omega)).toNat : Int) := by
  unfold GoSem.idx
  have hn : ¬ i < 0 := by omega
  have hlt : i.toNat < b.length := by omega
  simp [hn, List.getElem?_eq_getElem hlt]

theorem sliceFrom_ok (b : Bytes) (lo : Int) (h0 : 0 ≤ lo) (h1 : lo ≤ (b.length : Int)) :
    GoSem.sliceFrom b lo = .ok (b.drop lo.toNat) := by
  unfold GoSem.sliceFrom len
  have hn : ¬ (lo < 0 ∨ lo > (b.length : Int)) := by omega
  simp [hn]

/-- in the models' form `(b.drop lo).take (hi - lo)` -/
theorem slice_ok (b : Bytes) (lo hi : Int) (h0 : 0 ≤ lo) (h1 : lo ≤ hi) (h2 : hi ≤ (b.length : Int)) :
    GoSem.slice b lo hi = .ok ((b.drop lo.toNat).take (hi.toNat - lo.toNat)) := by
  unfold GoSem.slice len
  have hn : ¬ (hi < 0 ∨ hi > (b.length : Int)) := by omega
  have hm : ¬ (lo < 0 ∨ lo > hi) := by omega
  simp [hn, hm, List.drop_take]

/-- a 16-bit `&` of two in-range naturals is the `Nat` `&&&` -/
theorem band_u16_nat (x y : Nat) (hx : x < 65536) (hy : y < 65536) :
    band .u16 (x : Int) (y : Int) = ((x &&& y : Nat) : Int) := by
  have hx' : toU 16 (x : Int) = x := toU_of_range (by omega) (by simp; omega)
  have hy' : toU 16 (y : Int) = y := toU_of_range (by omega) (by simp; omega)
  have hle : x &&& y ≤ x := Nat.and_le_left
  simp only [band, IT.bits, hx', hy', Int.toNat_natCast, wrap, IT.signed, Bool.false_and]
  simp only [Int.ofNat_eq_natCast]
  exact toU_of_range (by omega) (by simp; omega)

theorem band_u32_nat (x y : Nat) (hx : x < 4294967296) (hy : y < 4294967296) :
    band .u32 (x : Int) (y : Int) = ((x &&& y : Nat) : Int) := by
  have hx' : toU 32 (x : Int) = x := toU_of_range (by omega) (by simp; omega)
  have hy' : toU 32 (y : Int) = y := toU_of_range (by omega) (by simp; omega)
  have hle : x &&& y ≤ x := Nat.and_le_left
  simp only [band, IT.bits, hx', hy', Int.toNat_natCast, wrap, IT.signed, Bool.false_and]
  simp only [Int.ofNat_eq_natCast]
  exact toU_of_range (by omega) (by simp; omega)

/-! ## the unchecked readers -/

theorem tth_Bytes2Uint32NoCheck_eq (b : Bytes) :
    liftN (Funcs.tth_Bytes2Uint32NoCheck b) = TTH.bytes2Uint32NoCheck b := by
  unfold Funcs.tth_Bytes2Uint32NoCheck TTH.bytes2Uint32NoCheck
  by_cases h : b.length < 4 <;> simp [h, beU32, TTH.beU32, liftN]

theorem tth_Bytes2Uint16NoCheck_eq (b : Bytes) :
    liftN (Funcs.tth_Bytes2Uint16NoCheck b) = TTH.bytes2Uint16NoCheck b := by
  unfold Funcs.tth_Bytes2Uint16NoCheck TTH.bytes2Uint16NoCheck
  by_cases h : b.length < 2 <;> simp [h, beU16, TTH.beU16, liftN]

/-! ## the checked readers (offset a Go `int`, length of a slice fits an `int`)

  Case splits are on the semantic conditions (`off < b.length`, `off + 2 ≤ b.length` …) as `Nat` facts; `go_simp` decides
  every guard of the translation (in wrapped int64, whatever its polarity or the side the constant is on) and of the
  model (in ℤ) with `omega` from them. -/

theorem tth_Bytes2Uint8_eq (b : Bytes) (off : Nat)
    (hb : b.length < 9223372036854775808) (ho : off < 9223372036854775808) :
    liftEof (Funcs.tth_Bytes2Uint8 b (off : Int)) = TTH.bytes2Uint8 b off := by
  unfold Funcs.tth_Bytes2Uint8 TTH.bytes2Uint8
  by_cases h : off < b.length
  · go_simp [wrap_i64_id, idx_ok, TTH.index, liftEof, eofOut]
  · go_simp [wrap_i64_id, liftEof, eofOut]

theorem tth_Bytes2Uint16_eq (b : Bytes) (off : Nat)
    (hb : b.length < 9223372036854775808) (ho : off < 9223372036854775808) :
    liftEof (Funcs.tth_Bytes2Uint16 b (off : Int)) = TTH.bytes2Uint16 b off := by
  unfold Funcs.tth_Bytes2Uint16 TTH.bytes2Uint16
  by_cases h : off + 2 ≤ b.length
  · go_simp [wrap_i64_id, sliceFrom_ok, TTH.sliceFrom, beU16, TTH.beU16, liftEof, eofOut]
  · go_simp [wrap_i64_id, liftEof, eofOut]

theorem tth_sliceFrom_panic (b : Bytes) (lo : Int) (h : lo < 0 ∨ lo > (b.length : Int)) :
    GoSem.sliceFrom b lo = .panic "slice" := by
  unfold GoSem.sliceFrom len; simp [h]

/-- `take`/`drop` with arithmetically equal counts -/
theorem tth_take_drop_congr (b : Bytes) (m m' k k' : Nat) (hm : m = m') (hk : k = k') :
    (b.drop m).take k = (b.drop m').take k' := by subst hm; subst hk; rfl

theorem tth_ReadString2BLen_eq (b : Bytes) (off : Nat)
    (hb : b.length < 9223372036854775808) (ho : off < 9223372036854775808) :
    liftEofS (Funcs.tth_ReadString2BLen b (off : Int)) = TTH.readString2BLen b off := by
  unfold Funcs.tth_ReadString2BLen TTH.readString2BLen TTH.bytes2Uint16
  try unfold Funcs.tth_Bytes2Uint16
  by_cases h : off + 2 ≤ b.length
  · have hr := rd16_lt (b.drop off)
    generalize hL : rd16 (b.drop off) = L at hr
    by_cases hs : off + 2 + L ≤ b.length
    · go_simp [wrap_i64_id, hL, sliceFrom_ok, slice_ok, TTH.sliceFrom, TTH.slice, beU16, TTH.beU16,
        liftEofS, eofOut]
      all_goals first
        | omega
        | (refine ⟨?_, by omega⟩; apply tth_take_drop_congr <;> omega)
    · -- the string is short: io.EOF
      go_simp [wrap_i64_id, hL, sliceFrom_ok, TTH.sliceFrom, beU16, TTH.beU16, liftEofS, eofOut]
  · -- the length prefix is short: io.EOF from Bytes2Uint16
    go_simp [wrap_i64_id, liftEofS, eofOut]

/-! ## the header predicates -/

theorem tth_IsStreaming_eq (b : Bytes) :
    liftB (Funcs.tth_IsStreaming b) = TTH.isStreaming b := by
  unfold Funcs.tth_IsStreaming TTH.isStreaming
  by_cases h : b.length < 8
  · go_simp [liftB, liftP]
  · have hb : band .u16 ((rd16 (b.drop 6) : Nat) : Int) 2 = ((rd16 (b.drop 6) &&& 2 : Nat) : Int) :=
      band_u16_nat (rd16 (b.drop 6)) 2 (rd16_lt _) (by omega)
    by_cases hm : rd16 (b.drop 4) = 4096
    · by_cases hz : rd16 (b.drop 6) &&& 2 = 0 <;>
      go_simp [hm, hb, hz, sliceFrom_ok, TTH.sliceFrom, beU16,
        TTH.beU16, Facts.ttSize32, Facts.ttSize16, Facts.ttMagic, Facts.ttFlagsStreaming, liftB, liftP]
    · go_simp [hm, sliceFrom_ok, TTH.sliceFrom, beU16, TTH.beU16,
        Facts.ttSize32, Facts.ttMagic, liftB, liftP]

theorem tth_IsTTHeader_eq (b : Bytes) :
    liftB (Funcs.tth_IsTTHeader b) = TTH.isTTHeader b := by
  unfold Funcs.tth_IsTTHeader TTH.isTTHeader
  by_cases h : b.length < 4
  · -- `flagBuf[4:]` panics "slice"
    go_simp [tth_sliceFrom_panic, TTH.sliceFrom, Facts.ttSize32, liftB, liftP]
  · by_cases k : b.length < 8
    · -- `Uint32(flagBuf[4:])` panics "index"
      go_simp [sliceFrom_ok, TTH.sliceFrom, beU32, TTH.beU32, Facts.ttSize32, liftB, liftP]
    · have hb : band .u32 ((rd32 (b.drop 4) : Nat) : Int) 4294901760
          = ((rd32 (b.drop 4) &&& 4294901760 : Nat) : Int) :=
        band_u32_nat (rd32 (b.drop 4)) 4294901760 (rd32_lt _) (by omega)
      by_cases hx : rd32 (b.drop 4) &&& 4294901760 = 268435456
      · have hx' : ((rd32 (b.drop 4) &&& 4294901760 : Nat) : Int) = 268435456 := by omega
        go_simp [hb, hx, hx', sliceFrom_ok, TTH.sliceFrom, beU32, TTH.beU32, Facts.ttSize32,
          Facts.ttMagicMask, Facts.ttMagic, liftB, liftP]
      · have hx' : ¬ ((rd32 (b.drop 4) &&& 4294901760 : Nat) : Int) = 268435456 := by omega
        go_simp [hb, hx, hx', sliceFrom_ok, TTH.sliceFrom, beU32, TTH.beU32, Facts.ttSize32,
        Facts.ttMagicMask, Facts.ttMagic, liftB, liftP]

/-! ## the generated functions compute (non-vacuity) -/

example : Funcs.tth_Bytes2Uint32NoCheck [1, 2, 3, 4] = .ok 16909060 := by decide
example : Funcs.tth_Bytes2Uint16NoCheck [1] = .panic "index" := by decide
example : Funcs.tth_Bytes2Uint8 [7, 9] 1 = .ok (9, GoErr.nil) := by decide
example : Funcs.tth_Bytes2Uint8 [7, 9] 2 = .ok (0, GoErr.named "io.EOF") := by decide
example : Funcs.tth_Bytes2Uint16 [0, 1, 2] 1 = .ok (258, GoErr.nil) := by decide
example : Funcs.tth_ReadString2BLen [0, 3, 104, 105] 0 = .ok ([], 0, GoErr.named "io.EOF") := by decide
example : Funcs.tth_ReadString2BLen [0, 3, 104, 105] 0 = .ok (([] : Bytes), 0, GoErr.named "io.EOF") := by decide
example : Funcs.tth_ReadString2BLen [0] 0 = .ok (([] : Bytes), 0, GoErr.named "io.EOF") := by decide
example : Funcs.tth_IsStreaming [0, 0, 0, 0, 16, 0, 0, 2] = .ok true := by decide
example : Funcs.tth_IsStreaming [0, 0, 0, 0, 16, 0, 0, 1] = .ok false := by decide
example : Funcs.tth_IsTTHeader [0, 0, 0, 0, 16, 0, 0, 2] = .ok true := by decide
example : Funcs.tth_IsTTHeader [0, 0, 0] = .panic "slice" := by decide
example : Funcs.tth_IsTTHeader [0, 0, 0, 0, 16, 0] = .panic "index" := by decide

end Verif.FuncsEq

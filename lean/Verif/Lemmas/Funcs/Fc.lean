/-
  Lemmas/Funcs/Fc: the FastCodec struct functions TRANSLATED from the Go source
    (*base.Base).FastRead, (*base.BaseResp).FastRead                protocol/thrift/base/k-base.go
    (*ApplicationException).FastRead / BLength / FastWrite          protocol/thrift/exception.go
  (`Verif.Funcs.Base_FastRead`, `BaseResp_FastRead`, `AppEx_FastRead`, `AppEx_BLength`, `AppEx_FastWrite` and their
  `_loop1/_loop2`: generated) are the hand-written models of Model/FastCodec (`fastReadBase`, `fastReadBaseResp`,
  `fastReadAppEx`, `bLengthAppEx`, `fastWriteAppEx`).

  Lifts
    * records: `toBase`, `toBaseResp`, `toAppEx`; a Go map (`GoMap Bytes Bytes`: association list, newest entry first,
      `none` = nil map) is the model map it denotes (`toSMap`: the entries assigned oldest first with `SMap.set`);
    * a FastRead result `(struct, off, err)` is the model's `RR` (`liftFR`): struct, offset, error kind (`errOpt`:
      `nil` ↦ `none`, otherwise `absErr`; `thrift.PrependError` keeps the kind);
    * a FastWrite result on the view `(b, off)` is compared with the model on the slice `b[off:]`: the model's buffer
      with the untouched prefix `b[:off]` put back in front (`AppEx_FastWrite_eq`); on a whole slice the result is the
      model's `(WS, n)` itself (`liftWS`, `AppEx_FastWrite_eq0`).

  Theorems (all for every receiver value, both values of `spanCacheEnable`, `b.length < 2^62`)
    AppEx_BLength_eq     e.m.length < 2^62 → AppEx_BLength e = ok (bLengthAppEx (toAppEx e))
    AppEx_FastWrite_eq   off ≤ b.length → liftW (AppEx_FastWrite e b off) = fastWriteAppEx (toAppEx e) (b.drop off) with
                         `b.take off` in front;   AppEx_FastWrite_eq0: liftWS (AppEx_FastWrite e b 0) = fastWriteAppEx …
    AppEx_FastRead_eq    b.length + 70 ≤ fuel → liftFR toAppEx (AppEx_FastRead g fuel e b) = fastReadAppEx (toAppEx e) b
                         FULL equality: struct, offset (also next to an error), error, panics, oob
    BaseResp_FastRead_eq, Base_FastRead_eq
                         b.length + 70 ≤ fuel → dropErrOff (liftFR … (…_FastRead g fuel p b)) = dropErrOff (fastRead… )
                         struct, error, panics, oob in full; the offset on success.  The offset next to an ERROR is not
                         compared: the generated code does `off += l` before the error check, and next to an error of
                         `Skip` that `l` is the partial length `Skip` returned, which the model (`caseSkip`) does not
                         keep (an `example` at the end shows the two offsets, 10 and 3).  Everything else about the
                         error exits agrees exactly (the relation `FSim` used in the proofs keeps the offsets; only
                         the `Skip` error case gives them up).
  The fuel bound: the generated FastRead hands its `fuel` to the field loop (≤ remaining bytes + 1 iterations), to the
  map-entry loop (every continuing iteration consumes ≥ 8 bytes) and to `Binary_Skip` (needs `len + 70`).

  Structure: explicit-output observations of the translated callees against the model readers (`rfb_obs`, `rstr_obs`,
  `ri32_obs`, `rmb_obs`, and `Binary_Skip_sim` of Lemmas/Funcs/Skip); the dispatch key (`genKey_eq`: the translated
  `uint32(fid)<<8 | uint32(ftyp)` with both sign extensions IS `fieldKey`), after which both sides branch on the same
  number; `*_loop2_spec` (entry loop against `readKVs`); `*_loop1_sim` by induction on the fuel with the `case` bodies as
  tactics (`fr_str`, `fr_i32`, `fr_map`, `fr_skip`); writers as statement sequences (`gAll` against `wAll`, `gAll_sim`).
-/
import Verif.Lemmas.Funcs.Read
import Verif.Lemmas.Funcs.Write
import Verif.Lemmas.Funcs.Append
import Verif.Lemmas.Funcs.Skip
import Verif.Model.FastCodec
import Verif.Lemmas.FcSafe
set_option linter.unusedSimpArgs false
namespace Verif.FuncsEq
open Verif Verif.GoSem


/-! # observations of the translated callees -/

def errOpt (e : GoErr) : Option TErr := if e = .nil then none else some (absErr e)

def obs3 {α : Type} (x : GM (α × Int × GoErr)) : Option (α × Int × Option TErr) :=
  match x with
  | .ok r => some (r.1, r.2.1, errOpt r.2.2)
  | _ => none
def obs4 {α β : Type} (x : GM (α × β × Int × GoErr)) : Option (α × β × Int × Option TErr) :=
  match x with
  | .ok r => some (r.1, r.2.1, r.2.2.1, errOpt r.2.2.2)
  | _ => none

theorem obs3_elim {α : Type} {x : GM (α × Int × GoErr)} {a : α} {l : Int} {d : Option TErr}
    (h : obs3 x = some (a, l, d)) : ∃ e, x = .ok (a, l, e) ∧ errOpt e = d := by
  cases x with
  | ok r =>
    obtain ⟨r1, r2, r3⟩ := r
    simp only [obs3, Option.some.injEq, Prod.mk.injEq] at h
    obtain ⟨rfl, rfl, rfl⟩ := h
    exact ⟨r3, rfl, rfl⟩
  | err e => exact nomatch e
  | panic s => simp [obs3] at h
  | oob => simp [obs3] at h

theorem obs4_elim {α β : Type} {x : GM (α × β × Int × GoErr)} {a : α} {c : β} {l : Int} {d : Option TErr}
    (h : obs4 x = some (a, c, l, d)) : ∃ e, x = .ok (a, c, l, e) ∧ errOpt e = d := by
  cases x with
  | ok r =>
    obtain ⟨r1, r2, r3, r4⟩ := r
    simp only [obs4, Option.some.injEq, Prod.mk.injEq] at h
    obtain ⟨rfl, rfl, rfl, rfl⟩ := h
    exact ⟨r4, rfl, rfl⟩
  | err e => exact nomatch e
  | panic s => simp [obs4] at h
  | oob => simp [obs4] at h

theorem rfb_obs (buf : Bytes) : obs4 (Funcs.Binary_ReadFieldBegin buf) =
      some (toI8 (readFieldBegin buf).t.toNat, toI16 (readFieldBegin buf).id,
        ((readFieldBegin buf).l : Int), (readFieldBegin buf).err) := by
  unfold Funcs.Binary_ReadFieldBegin
  cases buf with
  | nil => go_simp [obs4, readFieldBegin, toI8, toI16, errOpt, absErr, errRead, Facts.peINVALID_DATA]
  | cons t rest =>
    have h0 : 0 < (t :: rest).length := by simp
    have hw := wrap_i8_nat _ t.toNat_lt
    by_cases hs : t = 0
    · subst hs
      go_simp [obs4, readFieldBegin, idx_zero, T_STOP_eq, toI8, toI16, wrap, toU, IT.bits, IT.signed, errOpt]
    · have hs' : ¬ toI8 t.toNat = 0 := fun hc => hs ((toI8_eq_zero _).mp hc)
      by_cases h3 : (t :: rest).length < 3
      · have h3' : rest.length + 1 < 3 := by simpa using h3
        have z8 : toI8 0 = 0 := by decide
        have z16 : toI16 0 = 0 := by decide
        go_simp [obs4, readFieldBegin, idx_zero, T_STOP_eq, hs, hs', hw, h3, h3', z8, z16, errOpt, absErr, errRead, Facts.peINVALID_DATA]
      · have h3' : ¬ rest.length + 1 < 3 := by simpa using h3
        go_simp [obs4, readFieldBegin, idx_zero, T_STOP_eq, hs, hs', hw, h3, h3', errOpt, sliceFrom_ok, beU16, wrap_i16_nat _ (rd16_lt _)]

theorem rstr_obs (g : Bool) (buf : Bytes) : obs3 (Funcs.Binary_ReadString g buf) =
      some ((readString buf).s, ((readString buf).l : Int), (readString buf).err) := by
  unfold Funcs.Binary_ReadString readString
  rcases Binary_ReadI32_cases buf with ⟨h, r, hr, he⟩ | ⟨h, hr⟩
  · go_simp [hr, he, h, obs3, errOpt, absErr, errRead, Facts.peINVALID_DATA]
  · have ⟨hlo, hhi⟩ := toI32_range _ (rd32_lt buf)
    by_cases hneg : toI32 (rd32 buf) < 0
    · go_simp [hr, h, hneg, obs3, errOpt, absErr, errNeg, Facts.peNEGATIVE_SIZE]
    · obtain ⟨k, hk⟩ : ∃ k : Nat, toI32 (rd32 buf) = (k : Int) := ⟨(toI32 (rd32 buf)).toNat, by omega⟩
      rw [hk] at hlo hhi hneg
      by_cases hl : buf.length < 4 + k
      · go_simp [hr, h, hk, wrap_i64_of_range, obs3, errOpt, absErr, errRead, Facts.peINVALID_DATA]
      · cases g <;> go_simp [hr, hk, h, wrap_i64_of_range, rd_slice_ok, obs3, errOpt] <;>
            first | omega | (refine ⟨?_, by omega⟩; apply rd_take_drop_congr <;> omega)

theorem ri32_obs (buf : Bytes) : obs3 (Funcs.Binary_ReadI32 buf) =
      some ((readI32 buf).v, ((readI32 buf).l : Int), (readI32 buf).err) := by
  unfold readI32
  rcases Binary_ReadI32_cases buf with ⟨h, r, hr, he⟩ | ⟨h, hr⟩
  · unfold Funcs.Binary_ReadI32 at hr ⊢
    go_simp [h, obs3, errOpt, absErr, errRead, Facts.peINVALID_DATA]
  · go_simp [hr, h, obs3, errOpt]

theorem wrap_u32_toI16 (fid : Nat) (hf : fid < 65536) : wrap .u32 (toI16 fid) = ((sext16 fid : Nat) : Int) := by
  rw [wrap_u32_emod]; unfold toI16 sext16
  split <;> omega

theorem wrap_u32_toI8 (t : UInt8) : wrap .u32 (toI8 t.toNat) = ((sext8 t : Nat) : Int) := by
  have := t.toNat_lt
  rw [wrap_u32_emod]; unfold toI8 sext8
  split <;> omega

theorem sext8_lt (t : UInt8) : sext8 t < 4294967296 := by
  have := t.toNat_lt
  unfold sext8; split <;> omega

/-- the dispatch key as the translated code computes it is the model's `fieldKey` -/
theorem genKey_eq (fid : Nat) (t : UInt8) (hf : fid < 65536) :
    bor .u32 (shl .u32 (wrap .u32 (toI16 fid)) 8) (wrap .u32 (toI8 t.toNat)) = ((fieldKey fid t : Nat) : Int) := by
  rw [wrap_u32_toI16 fid hf, wrap_u32_toI8]
  have h1 : shl .u32 ((sext16 fid : Nat) : Int) 8 = (((sext16 fid * 256) % 4294967296 : Nat) : Int) := by
    unfold shl; rw [wrap_u32_emod]; simp
  rw [h1, bor_u32_nat _ _ (by omega) (sext8_lt t)]
  rfl

/-- ReadMapBegin: `(kt, vt, size, l, err)`; the key/value type bytes are not used by the callers below -/
def obsMB (x : GM (Int × Int × Int × Int × GoErr)) : Option (Int × Int × Option TErr) :=
  match x with
  | .ok r => some (r.2.2.1, r.2.2.2.1, errOpt r.2.2.2.2)
  | _ => none

theorem obsMB_elim {x : GM (Int × Int × Int × Int × GoErr)} {sz l : Int} {d : Option TErr}
    (h : obsMB x = some (sz, l, d)) : ∃ kt vt e, x = .ok (kt, vt, sz, l, e) ∧ errOpt e = d := by
  cases x with
  | ok r =>
    obtain ⟨r1, r2, r3, r4, r5⟩ := r
    simp only [obsMB, Option.some.injEq, Prod.mk.injEq] at h
    obtain ⟨rfl, rfl, rfl⟩ := h
    exact ⟨r1, r2, r5, rfl, rfl⟩
  | err e => exact nomatch e
  | panic s => simp [obsMB] at h
  | oob => simp [obsMB] at h

theorem rmb_obs (buf : Bytes) : obsMB (Funcs.Binary_ReadMapBegin buf) =
      some (((readMapBegin buf).size : Int), ((readMapBegin buf).l : Int), (readMapBegin buf).err) := by
  unfold Funcs.Binary_ReadMapBegin
  match buf with
  | [] => go_simp [obsMB, readMapBegin, errOpt, absErr, errRead, Facts.peINVALID_DATA]
  | [a] => go_simp [obsMB, readMapBegin, errOpt, absErr, errRead, Facts.peINVALID_DATA]
  | a :: c :: rest =>
    by_cases h : (a :: c :: rest).length < 6
    · have h' : rest.length + 1 + 1 < 6 := by simpa using h
      go_simp [obsMB, readMapBegin, h, h', errOpt, absErr, errRead, Facts.peINVALID_DATA]
    · have h' : ¬ rest.length + 1 + 1 < 6 := by simpa using h
      have h0 : 0 < (a :: c :: rest).length := by simp
      have h1 : 1 < (a :: c :: rest).length := by simp
      go_simp [obsMB, readMapBegin, h, h', h0, h1, idx_zero, idx_one, sliceFrom_ok, beU32, errOpt]

theorem readMapBegin_l_le (buf : Bytes) : (readMapBegin buf).l ≤ buf.length := by
  match buf with
  | [] => simp [readMapBegin]
  | [a] => simp [readMapBegin]
  | a :: c :: rest =>
    simp only [readMapBegin]
    split
    · simp
    · simp only [List.length_cons] at *; omega

theorem readMapBegin_size_lt (buf : Bytes) : (readMapBegin buf).size < 4294967296 := by
  match buf with
  | [] => simp [readMapBegin]
  | [a] => simp [readMapBegin]
  | a :: c :: rest =>
    simp only [readMapBegin]
    split
    · simp
    · exact rd32_lt _

theorem readFieldBegin_l_le (buf : Bytes) : (readFieldBegin buf).l ≤ buf.length := by
  cases buf with
  | nil => simp [readFieldBegin]
  | cons t rest =>
    simp only [readFieldBegin]
    split
    · simp
    · split
      · simp
      · simp only [List.length_cons] at *; omega

theorem readFieldBegin_id_lt (buf : Bytes) : (readFieldBegin buf).id < 65536 := by
  cases buf with
  | nil => simp [readFieldBegin]
  | cons t rest =>
    simp only [readFieldBegin]
    split
    · simp
    · split
      · simp
      · exact rd16_lt _

theorem readI32_l_le (buf : Bytes) : (readI32 buf).l ≤ buf.length := by
  unfold readI32; split
  · simp
  · simp only; omega

theorem errOpt_none {e : GoErr} : errOpt e = none ↔ e = .nil := by
  unfold errOpt; split <;> simp [*]
theorem errOpt_some {e : GoErr} {te : TErr} : errOpt e = some te ↔ e ≠ .nil ∧ absErr e = te := by
  unfold errOpt; split <;> simp [*]
theorem absErr_prepend (e : GoErr) : absErr (prependErr e) = absErr e := by cases e <;> rfl
theorem prepend_ne_nil {e : GoErr} (h : e ≠ .nil) : prependErr e ≠ .nil := by
  cases e <;> simp [prependErr] at h ⊢

theorem readString_l_le (buf : Bytes) : (readString buf).l ≤ buf.length := by
  unfold readString
  by_cases h1 : buf.length < 4
  · simp [h1]
  · simp only [h1, if_false]
    by_cases h2 : toI32 (rd32 buf) < 0
    · simp [h2]
    · simp only [h2, if_false]
      by_cases h3 : buf.length < 4 + (toI32 (rd32 buf)).toNat
      · simp [h3]; omega
      · simp [h3]; omega

theorem readString_l_ge (buf : Bytes) (h : (readString buf).err = none) : 4 ≤ (readString buf).l := by
  revert h
  unfold readString
  by_cases h1 : buf.length < 4
  · simp [h1]
  · simp only [h1, if_false]
    by_cases h2 : toI32 (rd32 buf) < 0
    · simp [h2]
    · simp only [h2, if_false]
      by_cases h3 : buf.length < 4 + (toI32 (rd32 buf)).toNat
      · simp [h3]
      · simp [h3]

def toSMap : List (Bytes × Bytes) → SMap
  | [] => []
  | kv :: l => (toSMap l).set kv.1 kv.2

def toBaseResp (s : Funcs.S_base_BaseResp) : BaseResp := ⟨s.StatusMessage, s.StatusCode, s.Extra.map toSMap⟩

/-- `wrap` of an offset sum that stays far below 2^63 -/
theorem wrap_off (a c : Nat) (h : a + c < 2 ^ 62) : wrap .i64 ((a : Int) + (c : Int)) = ((a + c : Nat) : Int) := by
  rw [wrap_i64_of_range _ (by omega) (by omega)]; simp

theorem sliceFrom_nat (b : Bytes) (o : Nat) (h : o ≤ b.length) : GoSem.sliceFrom b (o : Int) = .ok (b.drop o) := by
  rw [sliceFrom_ok b _ (by omega) (by omega), Int.toNat_natCast]

/-! # (*BaseResp).FastRead and (*Base).FastRead -/

theorem resp_loop2_spec (g : Bool) (b : Bytes) (hb : b.length < 2 ^ 62) (ft fid : Int) (sz : Nat) (hsz : sz < 4294967296) :
    ∀ (f cnt i off : Nat) (p : Funcs.S_base_BaseResp) (l : List (Bytes × Bytes)) (e0 : GoErr) (l0 : Int),
      p.Extra = some l → off ≤ b.length → i + cnt = sz → (b.length - off) + 1 ≤ f →
      ∃ r l', readKVs b cnt off (toSMap l) = .ok r ∧ toSMap l' = r.p ∧ off ≤ r.off ∧ r.off ≤ b.length ∧
        match r.err with
        | none => ∃ e1 l1 i1, Funcs.BaseResp_FastRead_loop2 g b ft fid () (sz : Int) f p (off : Int) e0 l0 (i : Int) =
            .ok (.done ({ p with Extra := some l' }, (r.off : Int), e1, l1, i1))
        | some te => ∃ ge, ge ≠ .nil ∧ absErr ge = te ∧
            Funcs.BaseResp_FastRead_loop2 g b ft fid () (sz : Int) f p (off : Int) e0 l0 (i : Int) =
              .ok (.ret ({ p with Extra := some l' }, (r.off : Int), ge)) := by
  intro f
  induction f with
  | zero => intro cnt i off p l e0 l0 _ _ _ hf; omega
  | succ f ih =>
    intro cnt i off p l e0 l0 hp hoff hi hf
    rw [Funcs.BaseResp_FastRead_loop2]
    cases cnt with
    | zero =>
      have c : ¬ ((i : Int) < (sz : Int)) := by omega
      refine ⟨⟨toSMap l, off, none⟩, l, rfl, rfl, Nat.le_refl _, hoff, ?_⟩
      simp only [c, decide_false, Bool.false_eq_true, if_false, Out.pure_eq]
      refine ⟨e0, l0, i, ?_⟩
      cases p; simp only at hp; subst hp; rfl
    | succ cnt =>
      have c : ((i : Int) < (sz : Int)) := by omega
      simp only [c, decide_true, if_true, readKVs]
      rw [sliceFrom_ok b off (by omega) (by omega), Verif.sliceFrom_ok b off hoff]
      simp only [Out.bind_eq, Out.bind_ok, Int.toNat_natCast]
      obtain ⟨e, hg, he⟩ := obs3_elim (rstr_obs g (b.drop off))
      have hl := readString_l_le (b.drop off)
      rw [List.length_drop] at hl
      have w1 := wrap_off off (readString (b.drop off)).l (by omega)
      rw [hg]
      simp only [Out.bind_ok, w1]
      cases hE : (readString (b.drop off)).err with
      | some te =>
        rw [hE] at he
        obtain ⟨hne, habs⟩ := errOpt_some.mp he
        refine ⟨⟨toSMap l, off + (readString (b.drop off)).l, some te⟩, l, rfl, rfl, by simp, by simp; omega, ?_⟩
        refine ⟨prependErr e, prepend_ne_nil hne, by rw [absErr_prepend]; exact habs, ?_⟩
        simp only [hne, ne_eq, not_false_eq_true, decide_true, if_true, Out.pure_eq]
        cases p; simp only at hp; subst hp; rfl
      | none =>
        rw [hE] at he
        have hnil := errOpt_none.mp he
        subst hnil
        have hge := readString_l_ge _ hE
        generalize (readString (b.drop off)).l = lk at *
        generalize (readString (b.drop off)).s = k at *
        simp only [ne_eq, not_true_eq_false, decide_false, Bool.false_eq_true, if_false]
        rw [sliceFrom_ok b _ (by omega) (by omega), Verif.sliceFrom_ok b (off + lk) (by omega)]
        simp only [Out.bind_eq, Out.bind_ok, Int.toNat_natCast]
        obtain ⟨e2, hg2, he2⟩ := obs3_elim (rstr_obs g (b.drop (off + lk)))
        have hl2 := readString_l_le (b.drop (off + lk))
        rw [List.length_drop] at hl2
        have w2 := wrap_off (off + lk) (readString (b.drop (off + lk))).l (by omega)
        rw [hg2]
        simp only [Out.bind_ok, w2]
        cases hE2 : (readString (b.drop (off + lk))).err with
        | some te =>
          rw [hE2] at he2
          obtain ⟨hne, habs⟩ := errOpt_some.mp he2
          refine ⟨⟨toSMap l, off + lk + (readString (b.drop (off + lk))).l, some te⟩, l, rfl, rfl, by simp; omega,
            by simp; omega, ?_⟩
          refine ⟨prependErr e2, prepend_ne_nil hne, by rw [absErr_prepend]; exact habs, ?_⟩
          simp only [hne, ne_eq, not_false_eq_true, decide_true, if_true, Out.pure_eq]
          cases p; simp only at hp; subst hp; rfl
        | none =>
          rw [hE2] at he2
          have hnil := errOpt_none.mp he2
          subst hnil
          have hge2 := readString_l_ge _ hE2
          generalize (readString (b.drop (off + lk))).l = lv at *
          generalize (readString (b.drop (off + lk))).s = v at *
          have w3 : wrap .i64 ((i : Int) + 1) = ((i + 1 : Nat) : Int) := by
            rw [wrap_i64_of_range _ (by omega) (by omega)]; simp
          simp only [ne_eq, not_true_eq_false, decide_false, Bool.false_eq_true, if_false, hp, mapSet, Out.bind_ok, w3]
          obtain ⟨r, l', h1, h2, h3, h4, h5⟩ := ih cnt (i + 1) (off + lk + lv)
            { p with Extra := some ((k, v) :: l) } ((k, v) :: l) GoErr.nil (lv : Int) rfl (by omega) (by omega) (by omega)
          exact ⟨r, l', h1, h2, by omega, h4, h5⟩



/-- outcome of a translated field loop against the model loop. `pr` reads (struct, off, err) off the loop state;
    `exact` says whether the offset reported next to an error is the model's -/
inductive FSim {S σ A : Type} (abs : S → A) (pr : σ → S × Int × GoErr) (exact : Prop) :
    GM (LoopR (S × Int × GoErr) σ) → TOut (RR A) → Prop where
  | done (s : σ) (off : Nat) (h : (pr s).2.1 = (off : Int)) (he : (pr s).2.2 = GoErr.nil) :
      FSim abs pr exact (.ok (.done s)) (.ok ⟨abs (pr s).1, off, none⟩)
  | err (p : S) (o' : Int) (off : Nat) (e : GoErr) (he : e ≠ GoErr.nil) (ho : exact → o' = (off : Int)) :
      FSim abs pr exact (.ok (.ret (p, o', e))) (.ok ⟨abs p, off, some (absErr e)⟩)
  | panic (s : String) : FSim abs pr exact (.panic s) (.panic s)
  | oob : FSim abs pr exact .oob .oob

def prResp (s : Funcs.S_base_BaseResp × Int × GoErr × Int × Int × Int) : Funcs.S_base_BaseResp × Int × GoErr :=
  (s.1, s.2.1, s.2.2.1)

theorem toI8_stop (t : UInt8) : toI8 t.toNat = 0 ↔ t = T_STOP := by
  rw [T_STOP_eq]; exact toI8_eq_zero t


/-! ## the `case` bodies of the generated FastRead of Base / BaseResp

  The tactics below run inside the induction step of `*_loop1_sim` (hypotheses `ih`, `hsl`, `hsl'`, `hl`, `hge`, `hoff`,
  `hf1`, `hf2`, `hb` of that context; hygiene is off on purpose), after the dispatch on the key has selected the
  branch on both sides. -/

set_option hygiene false in
/-- a string field: `p.X, l, err = ReadString(b[off:]); off += l; if err != nil { goto ReadFieldError }` -/
macro "fr_str" : tactic => `(tactic| (
  simp only [caseStr, hsl, hsl', Out.bind_eq, Out.bind_ok, Out.pure_eq]
  obtain ⟨e, hg, he⟩ := obs3_elim (rstr_obs g (b.drop (off + lf)))
  have hl2 := readString_l_le (b.drop (off + lf))
  rw [List.length_drop] at hl2
  have w2 := wrap_off (off + lf) (readString (b.drop (off + lf))).l (by omega)
  rw [hg]
  simp only [Out.bind_ok, w2]
  cases hE2 : (readString (b.drop (off + lf))).err with
  | some te =>
    rw [hE2] at he
    obtain ⟨hne, habs⟩ := errOpt_some.mp he
    simp only [hne, not_false_eq_true, decide_true, if_true, Out.pure_eq]
    rw [← habs, ← absErr_prepend]
    exact FSim.err _ _ _ _ (prepend_ne_nil hne) (fun h => h.elim)
  | none =>
    rw [hE2] at he
    have hnil := errOpt_none.mp he
    subst hnil
    simp only [not_true_eq_false, decide_false, Bool.false_eq_true, if_false]
    exact ih f2 _ _ _ _ _ _ (by omega) (by omega) (by omega)))

set_option hygiene false in
/-- an i32 field -/
macro "fr_i32" : tactic => `(tactic| (
  simp only [caseI32, hsl, hsl', Out.bind_eq, Out.bind_ok, Out.pure_eq]
  obtain ⟨e, hg, he⟩ := obs3_elim (ri32_obs (b.drop (off + lf)))
  have hl2 := readI32_l_le (b.drop (off + lf))
  rw [List.length_drop] at hl2
  have w2 := wrap_off (off + lf) (readI32 (b.drop (off + lf))).l (by omega)
  rw [hg]
  simp only [Out.bind_ok, w2]
  cases hE2 : (readI32 (b.drop (off + lf))).err with
  | some te =>
    rw [hE2] at he
    obtain ⟨hne, habs⟩ := errOpt_some.mp he
    simp only [hne, not_false_eq_true, decide_true, if_true, Out.pure_eq]
    rw [← habs, ← absErr_prepend]
    exact FSim.err _ _ _ _ (prepend_ne_nil hne) (fun h => h.elim)
  | none =>
    rw [hE2] at he
    have hnil := errOpt_none.mp he
    subst hnil
    simp only [not_true_eq_false, decide_false, Bool.false_eq_true, if_false]
    exact ih f2 _ _ _ _ _ _ (by omega) (by omega) (by omega)))

set_option hygiene false in
/-- the map<string,string> field: ReadMapBegin, `make`, the entry loop (`spec` = the `*_loop2_spec` of the struct) -/
macro "fr_map" spec:ident : tactic => `(tactic| (
  simp only [caseMap, hsl, hsl', Out.bind_eq, Out.bind_ok, Out.pure_eq]
  obtain ⟨kt, vt, e, hg, he⟩ := obsMB_elim (rmb_obs (b.drop (off + lf)))
  have hl2 := readMapBegin_l_le (b.drop (off + lf))
  have hsz := readMapBegin_size_lt (b.drop (off + lf))
  rw [List.length_drop] at hl2
  have w2 := wrap_off (off + lf) (readMapBegin (b.drop (off + lf))).l (by omega)
  rw [hg]
  simp only [Out.bind_ok, w2]
  cases hE2 : (readMapBegin (b.drop (off + lf))).err with
  | some te =>
    rw [hE2] at he
    obtain ⟨hne, habs⟩ := errOpt_some.mp he
    simp only [hne, not_false_eq_true, decide_true, if_true, Out.bind_ok]
    rw [← habs, ← absErr_prepend]
    exact FSim.err _ _ _ _ (prepend_ne_nil hne) (fun h => h.elim)
  | none =>
    rw [hE2] at he
    have hnil := errOpt_none.mp he
    subst hnil
    simp only [not_true_eq_false, decide_false, Bool.false_eq_true, if_false]
    generalize (readMapBegin (b.drop (off + lf))).l = lm at *
    generalize (readMapBegin (b.drop (off + lf))).size = sz at *
    obtain ⟨r, l', h1, h2, h3, h4, h5⟩ := $spec g b hb (toI8 t.toNat) (toI16 fid) sz hsz f sz 0
      (off + lf + lm) { p with Extra := some [] } [] GoErr.nil (lm : Int) rfl (by omega) (by omega) (by omega)
    rw [show toSMap [] = ([] : SMap) from rfl] at h1
    rw [h1]
    simp only [Out.bind_ok]
    cases hre : r.err with
    | some te =>
      rw [hre] at h5
      obtain ⟨ge, hge1, hge2, hge3⟩ := h5
      rw [show ((0 : Nat) : Int) = 0 from rfl] at hge3
      rw [hge3]
      simp only [Out.bind_ok]
      rw [← hge2, ← h2]
      exact FSim.err _ _ _ _ hge1 (fun h => h.elim)
    | none =>
      rw [hre] at h5
      obtain ⟨e1, l1, i1, hd⟩ := h5
      rw [show ((0 : Nat) : Int) = 0 from rfl] at hd
      rw [hd]
      simp only [Out.bind_ok]
      rw [← h2]
      exact ih f2 _ _ _ _ _ _ (by omega) (by omega) (by omega)))

set_option hygiene false in
/-- `default: l, err = Skip(b[off:], ftyp); off += l` -/
macro "fr_skip" : tactic => `(tactic| (
  simp only [caseSkip, hsl, hsl', Out.bind_eq, Out.bind_ok, Out.pure_eq]
  have hs := Binary_Skip_sim (b.drop (off + lf)) t f (by rw [List.length_drop]; omega)
    (by rw [List.length_drop]; omega)
  generalize hx : Funcs.Binary_Skip f (b.drop (off + lf)) (toI8 t.toNat) = x at hs ⊢
  generalize hy : skipBin (b.drop (off + lf)) t = y at hs ⊢
  cases hs with
  | ok m =>
    have hm := skipBin_le_len _ _ _ hy
    rw [List.length_drop] at hm
    have w2 := wrap_off (off + lf) m (by omega)
    simp only [Out.bind_ok, not_true_eq_false, decide_false, Bool.false_eq_true, if_false, w2]
    exact ih f2 _ _ _ _ _ _ (by omega) (by omega) (by omega)
  | err n e h =>
    simp only [Out.bind_ok, h, not_false_eq_true, decide_true, if_true]
    rw [← absErr_prepend]
    exact FSim.err _ _ _ _ (prepend_ne_nil h) (fun h => h.elim)
  | panic s => exact FSim.panic s
  | oob => exact FSim.oob))

set_option hygiene false in
/-- one iteration up to the `switch`: ReadFieldBegin, `off += l`, the error exit, STOP; leaves the dispatch -/
macro "fr_head" eq2:ident donety:term : tactic => `(tactic| (
  rw [$eq2:ident, genLoop]
  rw [sliceFrom_nat b off hoff, Verif.sliceFrom_ok b off hoff]
  simp only [Out.bind_eq, Out.bind_ok]
  obtain ⟨e, hg, he⟩ := obs4_elim (rfb_obs (b.drop off))
  have hl := readFieldBegin_l_le (b.drop off)
  have hid := readFieldBegin_id_lt (b.drop off)
  rw [List.length_drop] at hl
  have w1 := wrap_off off (readFieldBegin (b.drop off)).l (by omega)
  rw [hg]
  simp only [Out.bind_ok, w1]
  cases hE : (readFieldBegin (b.drop off)).err
  case some te =>
    rw [hE] at he
    obtain ⟨hne, habs⟩ := errOpt_some.mp he
    simp only [hne, ne_eq, not_false_eq_true, decide_true, if_true, Out.pure_eq]
    rw [← habs, ← absErr_prepend]
    exact FSim.err _ _ _ _ (prepend_ne_nil hne) (fun h => h.elim)
  rw [hE] at he
  have hnil := errOpt_none.mp he
  subst hnil
  have hge := (readFieldBegin_le _ hE).1
  generalize (readFieldBegin (b.drop off)).l = lf at *
  generalize (readFieldBegin (b.drop off)).id = fid at *
  generalize (readFieldBegin (b.drop off)).t = t at *
  simp only [ne_eq, not_true_eq_false, decide_false, Bool.false_eq_true, if_false]
  have hsl := sliceFrom_nat b (off + lf) (by omega)
  have hsl' := Verif.sliceFrom_ok b (off + lf) (by omega)
  by_cases hstop : t = T_STOP
  case pos =>
    have c0 : toI8 t.toNat = 0 := (toI8_stop t).mpr hstop
    simp only [hstop, c0, decide_true, if_true, Out.pure_eq]
    exact FSim.done (σ := $donety) (p, ((off + lf : Nat) : Int), GoErr.nil, _, _, _) (off + lf) rfl rfl
  have c0 : ¬ toI8 t.toNat = 0 := fun h => hstop ((toI8_stop t).mp h)
  simp only [hstop, c0, decide_false, Bool.false_eq_true, if_false, genKey_eq fid t hid]))

theorem resp_loop1_sim (g : Bool) (b : Bytes) (hb : b.length < 2 ^ 62) :
    ∀ (f1 f2 off : Nat) (p : Funcs.S_base_BaseResp) (e0 : GoErr) (t0 fid0 l0 : Int),
      off ≤ b.length → (b.length - off) + 70 ≤ f1 → b.length - off < f2 →
      FSim toBaseResp prResp False (Funcs.BaseResp_FastRead_loop1 g b () f1 p (off : Int) e0 t0 fid0 l0)
        (genLoop respBody b f2 (toBaseResp p) off) := by
  intro f1
  induction f1 with
  | zero => intro f2 off p e0 t0 fid0 l0 _ hf _; omega
  | succ f ih =>
    intro f2 off p e0 t0 fid0 l0 hoff hf1 hf2
    cases f2 with
    | zero => omega
    | succ f2 =>
      fr_head Funcs.BaseResp_FastRead_loop1.eq_2 (Funcs.S_base_BaseResp × Int × GoErr × Int × Int × Int)
      simp only [respBody, Facts.fastReadKeysBaseResp, caseIdx]
      generalize fieldKey fid t = k
      by_cases k1 : (k : Int) = 267
      · simp only [k1, decide_true, if_true]
        fr_str
      · have k1' : ¬ (267 : Int) = (k : Int) := fun h => k1 h.symm
        by_cases k2 : (k : Int) = 520
        · simp only [k2, decide_true, decide_false, Bool.false_eq_true, if_true, if_false, Int.reduceEq, Nat.zero_add]
          fr_i32
        · have k2' : ¬ (520 : Int) = (k : Int) := fun h => k2 h.symm
          by_cases k3 : (k : Int) = 781
          · simp only [k3, decide_true, decide_false, Bool.false_eq_true, if_true, if_false, Int.reduceEq, Nat.zero_add]
            fr_map resp_loop2_spec
          · have k3' : ¬ (781 : Int) = (k : Int) := fun h => k3 h.symm
            simp only [k1, k2, k3, k1', k2', k3', decide_false, Bool.false_eq_true, if_false]
            fr_skip

/-- the result `(struct, off, err)` of a translated FastRead as the model's `RR` -/
def liftFR {S A : Type} (abs : S → A) (x : GM (S × Int × GoErr)) : TOut (RR A) :=
  match x with
  | .ok r => .ok ⟨abs r.1, r.2.1.toNat, errOpt r.2.2⟩
  | .panic s => .panic s
  | .oob => .oob
  | .err e => nomatch e

/-- the offset reported next to an error is not compared (the model of the generated FastRead does not keep the
    partial length that `Skip` returns next to an error) -/
def dropErrOff {A : Type} (x : TOut (RR A)) : TOut (RR A) :=
  match x with
  | .ok r => if r.err.isSome then .ok { r with off := 0 } else .ok r
  | y => y

/-- how every translated FastRead ends: `match loop with | ret r => r | done s => (p, off, err)` -/
def finish {S σ : Type} (pr : σ → S × Int × GoErr) (x : GM (LoopR (S × Int × GoErr) σ)) : GM (S × Int × GoErr) :=
  x.bind fun t => match t with
    | LoopR.ret r => .ok r
    | LoopR.done s => .ok (pr s)

theorem FSim.final {S σ A : Type} {abs : S → A} {pr : σ → S × Int × GoErr} {ex : Prop}
    {x : GM (LoopR (S × Int × GoErr) σ)} {y : TOut (RR A)} (h : FSim abs pr ex x y) :
    dropErrOff (liftFR abs (finish pr x)) = dropErrOff y ∧ (ex → liftFR abs (finish pr x) = y) := by
  cases h with
  | done s off h he =>
    simp [finish, liftFR, dropErrOff, h, he, errOpt]
  | err p o' off e he ho =>
    refine ⟨?_, ?_⟩
    · simp [finish, liftFR, dropErrOff, errOpt, he]
    · intro hx
      simp [finish, liftFR, errOpt, he, ho hx]
  | panic s => simp [finish, liftFR, dropErrOff]
  | oob => simp [finish, liftFR, dropErrOff]

/-- (*BaseResp).FastRead, translated from the Go source, is the model `fastReadBaseResp`: same struct (the map as the
    map it denotes), same error, same offset on success; every panic carried over -/
theorem BaseResp_FastRead_eq (g : Bool) (fuel : Nat) (p : Funcs.S_base_BaseResp) (b : Bytes)
    (hb : b.length < 2 ^ 62) (hf : b.length + 70 ≤ fuel) :
    dropErrOff (liftFR toBaseResp (Funcs.BaseResp_FastRead g fuel p b)) =
      dropErrOff (fastReadBaseResp (toBaseResp p) b) := by
  have h := resp_loop1_sim g b hb fuel (b.length + 1) 0 p GoErr.nil 0 0 0 (by omega) (by omega) (by omega)
  have e : Funcs.BaseResp_FastRead g fuel p b =
      finish prResp (Funcs.BaseResp_FastRead_loop1 g b () fuel p ((0 : Nat) : Int) GoErr.nil 0 0 0) := by
    unfold Funcs.BaseResp_FastRead finish
    simp only [Out.bind_eq, Out.pure_eq, Int.natCast_zero]
    congr 1; funext t; cases t <;> rfl
  rw [e]
  exact h.final.1


def toBase (s : Funcs.S_base_Base) : Base := ⟨s.LogID, s.Caller, s.Addr, s.Extra.map toSMap⟩

def prBase (s : Funcs.S_base_Base × Int × GoErr × Int × Int × Int) : Funcs.S_base_Base × Int × GoErr :=
  (s.1, s.2.1, s.2.2.1)

theorem base_loop2_spec (g : Bool) (b : Bytes) (hb : b.length < 2 ^ 62) (ft fid : Int) (sz : Nat) (hsz : sz < 4294967296) :
    ∀ (f cnt i off : Nat) (p : Funcs.S_base_Base) (l : List (Bytes × Bytes)) (e0 : GoErr) (l0 : Int),
      p.Extra = some l → off ≤ b.length → i + cnt = sz → (b.length - off) + 1 ≤ f →
      ∃ r l', readKVs b cnt off (toSMap l) = .ok r ∧ toSMap l' = r.p ∧ off ≤ r.off ∧ r.off ≤ b.length ∧
        match r.err with
        | none => ∃ e1 l1 i1, Funcs.Base_FastRead_loop2 g b ft fid () (sz : Int) f p (off : Int) e0 l0 (i : Int) =
            .ok (.done ({ p with Extra := some l' }, (r.off : Int), e1, l1, i1))
        | some te => ∃ ge, ge ≠ .nil ∧ absErr ge = te ∧
            Funcs.Base_FastRead_loop2 g b ft fid () (sz : Int) f p (off : Int) e0 l0 (i : Int) =
              .ok (.ret ({ p with Extra := some l' }, (r.off : Int), ge)) := by
  intro f
  induction f with
  | zero => intro cnt i off p l e0 l0 _ _ _ hf; omega
  | succ f ih =>
    intro cnt i off p l e0 l0 hp hoff hi hf
    rw [Funcs.Base_FastRead_loop2]
    cases cnt with
    | zero =>
      have c : ¬ ((i : Int) < (sz : Int)) := by omega
      refine ⟨⟨toSMap l, off, none⟩, l, rfl, rfl, Nat.le_refl _, hoff, ?_⟩
      simp only [c, decide_false, Bool.false_eq_true, if_false, Out.pure_eq]
      refine ⟨e0, l0, i, ?_⟩
      cases p; simp only at hp; subst hp; rfl
    | succ cnt =>
      have c : ((i : Int) < (sz : Int)) := by omega
      simp only [c, decide_true, if_true, readKVs]
      rw [sliceFrom_ok b off (by omega) (by omega), Verif.sliceFrom_ok b off hoff]
      simp only [Out.bind_eq, Out.bind_ok, Int.toNat_natCast]
      obtain ⟨e, hg, he⟩ := obs3_elim (rstr_obs g (b.drop off))
      have hl := readString_l_le (b.drop off)
      rw [List.length_drop] at hl
      have w1 := wrap_off off (readString (b.drop off)).l (by omega)
      rw [hg]
      simp only [Out.bind_ok, w1]
      cases hE : (readString (b.drop off)).err with
      | some te =>
        rw [hE] at he
        obtain ⟨hne, habs⟩ := errOpt_some.mp he
        refine ⟨⟨toSMap l, off + (readString (b.drop off)).l, some te⟩, l, rfl, rfl, by simp, by simp; omega, ?_⟩
        refine ⟨prependErr e, prepend_ne_nil hne, by rw [absErr_prepend]; exact habs, ?_⟩
        simp only [hne, ne_eq, not_false_eq_true, decide_true, if_true, Out.pure_eq]
        cases p; simp only at hp; subst hp; rfl
      | none =>
        rw [hE] at he
        have hnil := errOpt_none.mp he
        subst hnil
        have hge := readString_l_ge _ hE
        generalize (readString (b.drop off)).l = lk at *
        generalize (readString (b.drop off)).s = k at *
        simp only [ne_eq, not_true_eq_false, decide_false, Bool.false_eq_true, if_false]
        rw [sliceFrom_ok b _ (by omega) (by omega), Verif.sliceFrom_ok b (off + lk) (by omega)]
        simp only [Out.bind_eq, Out.bind_ok, Int.toNat_natCast]
        obtain ⟨e2, hg2, he2⟩ := obs3_elim (rstr_obs g (b.drop (off + lk)))
        have hl2 := readString_l_le (b.drop (off + lk))
        rw [List.length_drop] at hl2
        have w2 := wrap_off (off + lk) (readString (b.drop (off + lk))).l (by omega)
        rw [hg2]
        simp only [Out.bind_ok, w2]
        cases hE2 : (readString (b.drop (off + lk))).err with
        | some te =>
          rw [hE2] at he2
          obtain ⟨hne, habs⟩ := errOpt_some.mp he2
          refine ⟨⟨toSMap l, off + lk + (readString (b.drop (off + lk))).l, some te⟩, l, rfl, rfl, by simp; omega,
            by simp; omega, ?_⟩
          refine ⟨prependErr e2, prepend_ne_nil hne, by rw [absErr_prepend]; exact habs, ?_⟩
          simp only [hne, ne_eq, not_false_eq_true, decide_true, if_true, Out.pure_eq]
          cases p; simp only at hp; subst hp; rfl
        | none =>
          rw [hE2] at he2
          have hnil := errOpt_none.mp he2
          subst hnil
          have hge2 := readString_l_ge _ hE2
          generalize (readString (b.drop (off + lk))).l = lv at *
          generalize (readString (b.drop (off + lk))).s = v at *
          have w3 : wrap .i64 ((i : Int) + 1) = ((i + 1 : Nat) : Int) := by
            rw [wrap_i64_of_range _ (by omega) (by omega)]; simp
          simp only [ne_eq, not_true_eq_false, decide_false, Bool.false_eq_true, if_false, hp, mapSet, Out.bind_ok, w3]
          obtain ⟨r, l', h1, h2, h3, h4, h5⟩ := ih cnt (i + 1) (off + lk + lv)
            { p with Extra := some ((k, v) :: l) } ((k, v) :: l) GoErr.nil (lv : Int) rfl (by omega) (by omega) (by omega)
          exact ⟨r, l', h1, h2, by omega, h4, h5⟩




theorem base_loop1_sim (g : Bool) (b : Bytes) (hb : b.length < 2 ^ 62) :
    ∀ (f1 f2 off : Nat) (p : Funcs.S_base_Base) (e0 : GoErr) (t0 fid0 l0 : Int),
      off ≤ b.length → (b.length - off) + 70 ≤ f1 → b.length - off < f2 →
      FSim toBase prBase False (Funcs.Base_FastRead_loop1 g b () f1 p (off : Int) e0 t0 fid0 l0)
        (genLoop baseBody b f2 (toBase p) off) := by
  intro f1
  induction f1 with
  | zero => intro f2 off p e0 t0 fid0 l0 _ hf _; omega
  | succ f ih =>
    intro f2 off p e0 t0 fid0 l0 hoff hf1 hf2
    cases f2 with
    | zero => omega
    | succ f2 =>
      fr_head Funcs.Base_FastRead_loop1.eq_2 (Funcs.S_base_Base × Int × GoErr × Int × Int × Int)
      simp only [baseBody, Facts.fastReadKeysBase, caseIdx]
      generalize fieldKey fid t = k
      by_cases k1 : (k : Int) = 267
      · simp only [k1, decide_true, if_true]
        fr_str
      · have k1' : ¬ (267 : Int) = (k : Int) := fun h => k1 h.symm
        by_cases k2 : (k : Int) = 523
        · simp only [k2, decide_true, decide_false, Bool.false_eq_true, if_true, if_false, Int.reduceEq, Nat.zero_add]
          fr_str
        · have k2' : ¬ (523 : Int) = (k : Int) := fun h => k2 h.symm
          by_cases k3 : (k : Int) = 779
          · simp only [k3, decide_true, decide_false, Bool.false_eq_true, if_true, if_false, Int.reduceEq, Nat.zero_add]
            fr_str
          · have k3' : ¬ (779 : Int) = (k : Int) := fun h => k3 h.symm
            by_cases k4 : (k : Int) = 1549
            · simp only [k4, decide_true, decide_false, Bool.false_eq_true, if_true, if_false, Int.reduceEq,
                Nat.zero_add]
              fr_map base_loop2_spec
            · have k4' : ¬ (1549 : Int) = (k : Int) := fun h => k4 h.symm
              simp only [k1, k2, k3, k4, k1', k2', k3', k4', decide_false, Bool.false_eq_true, if_false]
              fr_skip

/-- (*Base).FastRead, translated from the Go source, is the model `fastReadBase` -/
theorem Base_FastRead_eq (g : Bool) (fuel : Nat) (p : Funcs.S_base_Base) (b : Bytes)
    (hb : b.length < 2 ^ 62) (hf : b.length + 70 ≤ fuel) :
    dropErrOff (liftFR toBase (Funcs.Base_FastRead g fuel p b)) = dropErrOff (fastReadBase (toBase p) b) := by
  have h := base_loop1_sim g b hb fuel (b.length + 1) 0 p GoErr.nil 0 0 0 (by omega) (by omega) (by omega)
  have e : Funcs.Base_FastRead g fuel p b =
      finish prBase (Funcs.Base_FastRead_loop1 g b () fuel p ((0 : Nat) : Int) GoErr.nil 0 0 0) := by
    unfold Funcs.Base_FastRead finish
    simp only [Out.bind_eq, Out.pure_eq, Int.natCast_zero]
    congr 1; funext t; cases t <;> rfl
  rw [e]
  exact h.final.1

/-! # (*ApplicationException).FastRead -/

def toAppEx (s : Funcs.S_thrift_ApplicationException) : AppEx := ⟨s.t, s.m⟩

def prEx (s : Funcs.S_thrift_ApplicationException × Int) : Funcs.S_thrift_ApplicationException × Int × GoErr :=
  (s.1, s.2, GoErr.nil)

theorem ex_loop1_sim (g : Bool) (b : Bytes) (hb : b.length < 2 ^ 62) :
    ∀ (f1 f2 off : Nat) (p : Funcs.S_thrift_ApplicationException),
      off ≤ b.length → (b.length - off) + 70 ≤ f1 → b.length - off < f2 →
      FSim toAppEx prEx True (Funcs.AppEx_FastRead_loop1 g b f1 p (off : Int)) (exLoop b f2 (toAppEx p) off) := by
  intro f1
  induction f1 with
  | zero => intro f2 off p _ hf _; omega
  | succ f ih =>
    intro f2 off p hoff hf1 hf2
    cases f2 with
    | zero => omega
    | succ f2 =>
      rw [Funcs.AppEx_FastRead_loop1.eq_2, exLoop]
      rw [sliceFrom_nat b off hoff, Verif.sliceFrom_ok b off hoff]
      simp only [Out.bind_eq, Out.bind_ok]
      obtain ⟨e, hg, he⟩ := obs4_elim (rfb_obs (b.drop off))
      have hl := readFieldBegin_l_le (b.drop off)
      have hid := readFieldBegin_id_lt (b.drop off)
      rw [List.length_drop] at hl
      have w1 := wrap_off off (readFieldBegin (b.drop off)).l (by omega)
      rw [hg]
      simp only [Out.bind_ok, w1]
      cases hE : (readFieldBegin (b.drop off)).err with
      | some te =>
        rw [hE] at he
        obtain ⟨hne, habs⟩ := errOpt_some.mp he
        simp only [hne, ne_eq, not_false_eq_true, decide_true, if_true, Out.pure_eq]
        rw [← habs]
        exact FSim.err _ _ _ _ hne (fun _ => rfl)
      | none =>
        rw [hE] at he
        have hnil := errOpt_none.mp he
        subst hnil
        have hge := (readFieldBegin_le _ hE).1
        generalize (readFieldBegin (b.drop off)).l = lf at *
        generalize (readFieldBegin (b.drop off)).id = fid at *
        generalize (readFieldBegin (b.drop off)).t = t at *
        simp only [ne_eq, not_true_eq_false, decide_false, Bool.false_eq_true, if_false]
        have hsl := sliceFrom_nat b (off + lf) (by omega)
        have hsl' := Verif.sliceFrom_ok b (off + lf) (by omega)
        by_cases hstop : t = T_STOP
        · have c0 : toI8 t.toNat = 0 := (toI8_stop t).mpr hstop
          simp only [hstop, c0, decide_true, if_true, Out.pure_eq]
          exact FSim.done (σ := Funcs.S_thrift_ApplicationException × Int) (pr := prEx) (p, ((off + lf : Nat) : Int)) (off + lf) rfl rfl
        · have c0 : ¬ toI8 t.toNat = 0 := fun h => hstop ((toI8_stop t).mp h)
          simp only [hstop, c0, decide_false, Bool.false_eq_true, if_false, exBody, Facts.appExcReadCases]
          by_cases c1 : toI16 fid = 1 ∧ toI8 t.toNat = 11
          · -- message
            simp only [c1.1, c1.2, decide_true, Bool.and_self, if_true, and_self, caseStr, hsl, hsl', Out.bind_eq,
              Out.bind_ok, Out.pure_eq]
            obtain ⟨e, hg, he⟩ := obs3_elim (rstr_obs g (b.drop (off + lf)))
            have hl2 := readString_l_le (b.drop (off + lf))
            rw [List.length_drop] at hl2
            have w2 := wrap_off (off + lf) (readString (b.drop (off + lf))).l (by omega)
            rw [hg]
            simp only [Out.bind_ok, w2]
            cases hE2 : (readString (b.drop (off + lf))).err with
            | some te =>
              rw [hE2] at he
              obtain ⟨hne, habs⟩ := errOpt_some.mp he
              simp only [hne, not_false_eq_true, decide_true, if_true, Out.pure_eq]
              rw [← habs]
              exact FSim.err _ _ _ _ hne (fun _ => rfl)
            | none =>
              rw [hE2] at he
              have hnil := errOpt_none.mp he
              subst hnil
              simp only [not_true_eq_false, decide_false, Bool.false_eq_true, if_false]
              exact ih f2 _ _ (by omega) (by omega) (by omega)
          · have c1' : (decide (toI16 fid = 1) && decide (toI8 t.toNat = 11)) = false := by
              simpa using c1
            by_cases c2 : toI16 fid = 2 ∧ toI8 t.toNat = 8
            · -- type
              simp only [c1, c1', c2.1, c2.2, decide_true, Bool.and_self, Bool.false_eq_true, if_true, if_false, and_self,
                caseI32, hsl, hsl', Out.bind_eq, Out.bind_ok, Out.pure_eq]
              obtain ⟨e, hg, he⟩ := obs3_elim (ri32_obs (b.drop (off + lf)))
              have hl2 := readI32_l_le (b.drop (off + lf))
              rw [List.length_drop] at hl2
              have w2 := wrap_off (off + lf) (readI32 (b.drop (off + lf))).l (by omega)
              rw [hg]
              simp only [Out.bind_ok, w2]
              cases hE2 : (readI32 (b.drop (off + lf))).err with
              | some te =>
                rw [hE2] at he
                obtain ⟨hne, habs⟩ := errOpt_some.mp he
                simp only [hne, not_false_eq_true, decide_true, if_true, Out.pure_eq]
                rw [← habs]
                exact FSim.err _ _ _ _ hne (fun _ => rfl)
              | none =>
                rw [hE2] at he
                have hnil := errOpt_none.mp he
                subst hnil
                simp only [not_true_eq_false, decide_false, Bool.false_eq_true, if_false]
                exact ih f2 _ _ (by omega) (by omega) (by omega)
            · have c2' : (decide (toI16 fid = 2) && decide (toI8 t.toNat = 8)) = false := by
                simpa using c2
              simp only [c1, c1', c2, c2', Bool.false_eq_true, if_false, caseSkip, hsl, hsl', Out.bind_eq, Out.bind_ok,
                Out.pure_eq]
              have hs := Binary_Skip_sim (b.drop (off + lf)) t f (by rw [List.length_drop]; omega)
                (by rw [List.length_drop]; omega)
              generalize hx : Funcs.Binary_Skip f (b.drop (off + lf)) (toI8 t.toNat) = x at hs ⊢
              generalize hy : skipBin (b.drop (off + lf)) t = y at hs ⊢
              cases hs with
              | ok m =>
                have hm := skipBin_le_len _ _ _ hy
                rw [List.length_drop] at hm
                have w2 := wrap_off (off + lf) m (by omega)
                simp only [Out.bind_ok, not_true_eq_false, decide_false, Bool.false_eq_true, if_false, w2]
                exact ih f2 _ _ (by omega) (by omega) (by omega)
              | err n e h =>
                simp only [Out.bind_ok, h, not_false_eq_true, decide_true, if_true]
                exact FSim.err _ _ _ _ h (fun _ => rfl)
              | panic s => exact FSim.panic s
              | oob => exact FSim.oob

/-- (*ApplicationException).FastRead, translated from the Go source, is the model `fastReadAppEx`: struct, offset
    (also next to an error: this function adds `l` only after the error check) and error -/
theorem AppEx_FastRead_eq (g : Bool) (fuel : Nat) (p : Funcs.S_thrift_ApplicationException) (b : Bytes)
    (hb : b.length < 2 ^ 62) (hf : b.length + 70 ≤ fuel) :
    liftFR toAppEx (Funcs.AppEx_FastRead g fuel p b) = fastReadAppEx (toAppEx p) b := by
  have h := ex_loop1_sim g b hb fuel (b.length + 1) 0 p (by omega) (by omega) (by omega)
  have e : Funcs.AppEx_FastRead g fuel p b =
      finish prEx (Funcs.AppEx_FastRead_loop1 g b fuel p ((0 : Nat) : Int)) := by
    unfold Funcs.AppEx_FastRead finish
    simp only [Out.bind_eq, Out.pure_eq, Int.natCast_zero]
    congr 1; funext t; cases t <;> rfl
  rw [e]
  exact h.final.2 trivial

/-! # (*ApplicationException).BLength and FastWrite -/

theorem AppEx_BLength_eq (e : Funcs.S_thrift_ApplicationException) (h : e.m.length < 2 ^ 62) :
    Funcs.AppEx_BLength e = .ok ((bLengthAppEx (toAppEx e) : Nat) : Int) := by
  have h' : e.m.length < 4611686018427387904 := h
  unfold Funcs.AppEx_BLength
  rw [Binary_FieldBeginLength_eq 0 0, Binary_StringLength_eq _ h, Binary_I32Length_eq 0, Binary_FieldStopLength_eq]
  go_simp [Wire.length, bLengthAppEx, toAppEx, wrap_i64_of_range]

/-! ## FastWrite: the view `(whole, base)` against the model's slice `whole[base:]` -/

theorem putAt_append (pre sb bs : Bytes) (o : Nat) :
    Wire.putAt (pre ++ sb) (pre.length + o) bs = pre ++ patch sb o bs := by
  unfold Wire.putAt patch
  have e : pre.length + o + bs.length = pre.length + (o + bs.length) := by omega
  rw [e, List.take_append, List.drop_append]
  have t1 : pre.take (pre.length + o) = pre := List.take_of_length_le (by omega)
  have t2 : pre.drop (pre.length + (o + bs.length)) = [] := List.drop_of_length_le (by omega)
  simp [t1, t2]

theorem patch_length (b : Bytes) (i : Nat) (bs : Bytes) (h : i + bs.length ≤ b.length) :
    (patch b i bs).length = b.length := by
  simp [patch]; omega

theorem liftW_ok_inv {x : GM (Bytes × Int)} {w : Bytes} {k : Nat} (h : liftW x = .ok (w, k + 1)) :
    x = .ok (w, ((k + 1 : Nat) : Int)) := by
  cases x with
  | ok r =>
    obtain ⟨w', n⟩ := r
    simp only [liftW, Out.ok.injEq, Prod.mk.injEq] at h
    obtain ⟨rfl, h2⟩ := h
    congr 2; omega
  | err e => exact nomatch e
  | panic s => simp [liftW] at h
  | oob => simp [liftW] at h

theorem liftW_panic_inv {x : GM (Bytes × Int)} {s : String} (h : liftW x = .panic s) : x = .panic s := by
  cases x with
  | ok r => simp [liftW] at h
  | err e => exact nomatch e
  | panic s' => simpa [liftW] using h
  | oob => simp [liftW] at h

/-- one store statement: the translated call `x` on the whole buffer `pre ++ sb` at offset `pre.length + o`, against
    the outcome `y` of the model statement from the state `(⟨sb, ds⟩, o)` -/
def WStepOK (pre sb : Bytes) (ds : Directs) (o : Nat) (x : GM (Bytes × Int)) (y : TOut (WS × Nat)) : Prop :=
  match y with
  | .ok r => r.1.ds = ds ∧ r.1.buf.length = sb.length ∧ o < r.2 ∧ r.2 ≤ sb.length ∧
      x = .ok (pre ++ r.1.buf, ((r.2 - o : Nat) : Int))
  | .panic s => x = .panic s
  | _ => False

/-! normal forms of the model statements (`o ≤ sb.length`: the slice `b[off:]` exists) -/

theorem stFieldBegin_nf (sb : Bytes) (ds : Directs) (o : Nat) (t : UInt8) (n : Nat) (h : o ≤ sb.length) :
    stFieldBegin t n (⟨sb, ds⟩, o) =
      if o + 3 ≤ sb.length then .ok (⟨patch (patch sb o [t]) (o + 1) (be16 n), ds⟩, o + 3) else .panic "index" := by
  unfold stFieldBegin putByte put16
  by_cases c1 : o < sb.length
  · have l1 : (patch sb o [t]).length = sb.length := patch_length _ _ _ (by simp; omega)
    by_cases c3 : o + 3 ≤ sb.length
    · have a : ¬ o + 1 > sb.length := by omega
      have a2 : ¬ sb.length - (o + 1) < 2 := by omega
      simp [c1, c3, l1, a, a2]
    · have a : ¬ o + 1 > sb.length := by omega
      have a2 : sb.length - (o + 1) < 2 := by omega
      simp [c1, c3, l1, a, a2]
  · have c3 : ¬ o + 3 ≤ sb.length := by omega
    simp [c1, c3]

theorem wFieldBegin_nf (w : Bytes) (O : Nat) (t : UInt8) (id : Int) (h : O ≤ w.length) :
    Wire.wFieldBegin w O t id =
      if O + 3 ≤ w.length then .ok (Wire.putAt (Wire.putAt w O [t]) (O + 1) (be16 (ofInt 16 id)), 3)
      else .panic "index" := by
  unfold Wire.wFieldBegin Wire.setB Wire.putU16
  have a0 : ¬ O > w.length := by omega
  by_cases c1 : 0 < w.length - O
  · have l1 : (Wire.putAt w O [t]).length = w.length := putAt_length _ _ _ (by simp; omega)
    by_cases c3 : O + 3 ≤ w.length
    · have a : ¬ O + 1 > w.length := by omega
      have a2 : ¬ w.length - (O + 1) < 2 := by omega
      simp [a0, c1, c3, l1, a, a2]
    · have a : ¬ O + 1 > w.length := by omega
      have a2 : w.length - (O + 1) < 2 := by omega
      simp [a0, c1, c3, l1, a, a2]
  · have c3 : ¬ O + 3 ≤ w.length := by omega
    simp [a0, c1, c3]

theorem step_fieldBegin (pre sb : Bytes) (ds : Directs) (o : Nat) (t : UInt8) (id : Int) (h : o ≤ sb.length) :
    WStepOK pre sb ds o (Funcs.Binary_WriteFieldBegin (pre ++ sb) ((pre.length + o : Nat) : Int) (toI8 t.toNat) id)
      (stFieldBegin t (ofInt 16 id) (⟨sb, ds⟩, o)) := by
  have hw := Binary_WriteFieldBegin_eq (pre ++ sb) (pre.length + o) t id (by simp; omega)
  rw [wFieldBegin_nf _ _ _ _ (by simp; omega)] at hw
  rw [stFieldBegin_nf _ _ _ _ _ h]
  by_cases c : o + 3 ≤ sb.length
  · have c' : pre.length + o + 3 ≤ (pre ++ sb).length := by simp; omega
    rw [if_pos c'] at hw
    rw [if_pos c]
    have e := liftW_ok_inv hw
    have l1 : (patch sb o [t]).length = sb.length := patch_length _ _ _ (by simp; omega)
    refine ⟨rfl, ?_, by omega, c, ?_⟩
    · simp only; rw [patch_length _ _ _ (by simp; omega), l1]
    · rw [e, putAt_append, Nat.add_assoc, putAt_append]
      simp
  · have c' : ¬ pre.length + o + 3 ≤ (pre ++ sb).length := by simp; omega
    rw [if_neg c'] at hw
    rw [if_neg c]
    exact liftW_panic_inv hw

theorem stI32_nf (sb : Bytes) (ds : Directs) (o : Nat) (v : Int) (h : o ≤ sb.length) :
    stI32 v (⟨sb, ds⟩, o) =
      if o + 4 ≤ sb.length then .ok (⟨patch sb o (be32 (ofInt 32 v)), ds⟩, o + 4) else .panic "index" := by
  unfold stI32 put32
  have a : ¬ o > sb.length := by omega
  by_cases c : o + 4 ≤ sb.length
  · have a2 : ¬ sb.length - o < 4 := by omega
    simp [a, a2, c]
  · have a2 : sb.length - o < 4 := by omega
    simp [a, a2, c]

theorem wI32_nf (w : Bytes) (O : Nat) (v : Int) (h : O ≤ w.length) :
    Wire.wI32 w O v =
      if O + 4 ≤ w.length then .ok (Wire.putAt w O (be32 (ofInt 32 v)), 4) else .panic "index" := by
  unfold Wire.wI32 Wire.putU32
  have a : ¬ O > w.length := by omega
  by_cases c : O + 4 ≤ w.length
  · have a2 : ¬ w.length - O < 4 := by omega
    simp [a, a2, c]
  · have a2 : w.length - O < 4 := by omega
    simp [a, a2, c]

theorem step_i32 (pre sb : Bytes) (ds : Directs) (o : Nat) (v : Int) (h : o ≤ sb.length) :
    WStepOK pre sb ds o (Funcs.Binary_WriteI32 (pre ++ sb) ((pre.length + o : Nat) : Int) v)
      (stI32 v (⟨sb, ds⟩, o)) := by
  have hw := Binary_WriteI32_eq (pre ++ sb) (pre.length + o) v (by simp; omega)
  rw [wI32_nf _ _ _ (by simp; omega)] at hw
  rw [stI32_nf _ _ _ _ h]
  by_cases c : o + 4 ≤ sb.length
  · have c' : pre.length + o + 4 ≤ (pre ++ sb).length := by simp; omega
    rw [if_pos c'] at hw
    rw [if_pos c]
    have e := liftW_ok_inv hw
    refine ⟨rfl, ?_, by omega, c, ?_⟩
    · simp only; rw [patch_length _ _ _ (by simp; omega)]
    · rw [e, putAt_append]
      simp
  · have c' : ¬ pre.length + o + 4 ≤ (pre ++ sb).length := by simp; omega
    rw [if_neg c'] at hw
    rw [if_neg c]
    exact liftW_panic_inv hw

theorem stStop_nf (sb : Bytes) (ds : Directs) (o : Nat) :
    stStop (⟨sb, ds⟩, o) =
      if o + 1 ≤ sb.length then .ok (⟨patch sb o [0], ds⟩, o + 1) else .panic "index" := by
  unfold stStop putByte
  by_cases c : o + 1 ≤ sb.length
  · have a : o < sb.length := by omega
    simp [a, c]
  · have a : ¬ o < sb.length := by omega
    simp [a, c]

theorem wByte_nf (w : Bytes) (O : Nat) (v : Int) (h : O ≤ w.length) :
    Wire.wByte w O v =
      if O + 1 ≤ w.length then .ok (Wire.putAt w O [UInt8.ofNat (ofInt 8 v)], 1) else .panic "index" := by
  unfold Wire.wByte Wire.setB
  have a : ¬ O > w.length := by omega
  by_cases c : O + 1 ≤ w.length
  · have a2 : 0 < w.length - O := by omega
    simp [a, a2, c]
  · have a2 : ¬ 0 < w.length - O := by omega
    simp [a, a2, c]

theorem step_stop (pre sb : Bytes) (ds : Directs) (o : Nat) (h : o ≤ sb.length) :
    WStepOK pre sb ds o (Funcs.Binary_WriteByte (pre ++ sb) ((pre.length + o : Nat) : Int) 0)
      (stStop (⟨sb, ds⟩, o)) := by
  have hw := Binary_WriteByte_eq (pre ++ sb) (pre.length + o) 0 (by simp; omega)
  rw [wByte_nf _ _ _ (by simp; omega)] at hw
  rw [stStop_nf]
  by_cases c : o + 1 ≤ sb.length
  · have c' : pre.length + o + 1 ≤ (pre ++ sb).length := by simp; omega
    rw [if_pos c'] at hw
    rw [if_pos c]
    have e := liftW_ok_inv hw
    refine ⟨rfl, ?_, by omega, c, ?_⟩
    · simp only; rw [patch_length _ _ _ (by simp; omega)]
    · rw [e, putAt_append, show UInt8.ofNat (ofInt 8 0) = 0 from by decide]
      simp
  · have c' : ¬ pre.length + o + 1 ≤ (pre ++ sb).length := by simp; omega
    rw [if_neg c'] at hw
    rw [if_neg c]
    exact liftW_panic_inv hw

theorem stStr_nf (sb : Bytes) (ds : Directs) (o : Nat) (v : Bytes) (h : o ≤ sb.length) :
    stStr 0 false v (⟨sb, ds⟩, o) =
      if o + 4 ≤ sb.length then
        .ok (⟨patch (patch sb o (be32 v.length)) (o + 4) (v.take (min (sb.length - (o + 4)) v.length)), ds⟩,
          o + (4 + min (sb.length - (o + 4)) v.length))
      else .panic "index" := by
  unfold stStr writeStringNocopy writeString put32 copyAt
  have a : ¬ o > sb.length := by omega
  by_cases c : o + 4 ≤ sb.length
  · have a2 : ¬ sb.length - o < 4 := by omega
    have l1 : (patch sb o (be32 v.length)).length = sb.length := patch_length _ _ _ (by simp; omega)
    have a3 : ¬ o + 4 > sb.length := by omega
    simp [a, a2, a3, c, l1]
  · have a2 : sb.length - o < 4 := by omega
    simp [a, a2, c]

theorem wBinary_nf (w : Bytes) (O : Nat) (v : Bytes) (h : O ≤ w.length) :
    Wire.wBinary w O v =
      if O + 4 ≤ w.length then
        .ok (Wire.putAt (Wire.putAt w O (be32 v.length)) (O + 4) (v.take (min (w.length - (O + 4)) v.length)),
          4 + min (w.length - (O + 4)) v.length)
      else .panic "index" := by
  unfold Wire.wBinary Wire.putU32 Wire.copyAt
  have a : ¬ O > w.length := by omega
  by_cases c : O + 4 ≤ w.length
  · have a2 : ¬ w.length - O < 4 := by omega
    have l1 : (Wire.putAt w O (be32 v.length)).length = w.length := putAt_length _ _ _ (by simp; omega)
    have a3 : ¬ O + 4 > w.length := by omega
    simp [a, a2, a3, c, l1]
  · have a2 : w.length - O < 4 := by omega
    simp [a, a2, c]

theorem step_str (pre sb : Bytes) (ds : Directs) (o : Nat) (v : Bytes) (h : o ≤ sb.length)
    (hlen : (pre ++ sb).length < 2 ^ 63) :
    WStepOK pre sb ds o (Funcs.Binary_WriteString (pre ++ sb) ((pre.length + o : Nat) : Int) v)
      (stStr 0 false v (⟨sb, ds⟩, o)) := by
  have hw := Binary_WriteString_eq (pre ++ sb) (pre.length + o) v (by simp; omega) hlen
  rw [wBinary_nf _ _ _ (by simp; omega)] at hw
  rw [stStr_nf _ _ _ _ h]
  by_cases c : o + 4 ≤ sb.length
  · have c' : pre.length + o + 4 ≤ (pre ++ sb).length := by simp; omega
    rw [if_pos c'] at hw
    rw [if_pos c]
    have e1 : (pre ++ sb).length - (pre.length + o + 4) = sb.length - (o + 4) := by simp; omega
    rw [e1, show 4 + min (sb.length - (o + 4)) v.length = (3 + min (sb.length - (o + 4)) v.length) + 1 from by omega] at hw
    have e := liftW_ok_inv hw
    have l1 : (patch sb o (be32 v.length)).length = sb.length := patch_length _ _ _ (by simp; omega)
    refine ⟨rfl, ?_, by omega, by omega, ?_⟩
    · simp only; rw [patch_length _ _ _ (by simp; omega), l1]
    · rw [e, putAt_append, Nat.add_assoc, putAt_append]
      congr 2; omega
  · have c' : ¬ pre.length + o + 4 ≤ (pre ++ sb).length := by simp; omega
    rw [if_neg c'] at hw
    rw [if_neg c]
    exact liftW_panic_inv hw

/-! ## a translated struct writer as a statement sequence -/

/-- a translated writer call given the whole buffer and the absolute offset of the sub-view `b[off:]` -/
abbrev GStep := Bytes → Int → GM (Bytes × Int)

/-- `off += Write…(b[off:], …)` one after the other, as the translator emits it (`vfrom`, the call, `wrap`) -/
def gAll : List GStep → Bytes → Int → Int → GM (Bytes × Int)
  | [], w, _, off => .ok (w, off)
  | gs :: rest, w, base, off =>
    (vfrom w base off).bind fun t => (gs w t).bind fun r => gAll rest r.1 base (wrap .i64 (off + r.2))

theorem vfrom_ok (pre sb : Bytes) (o : Nat) (h : o ≤ sb.length) :
    vfrom (pre ++ sb) (pre.length : Int) (o : Int) = .ok ((pre.length + o : Nat) : Int) := by
  rw [vfrom_nf _ _ _ (by omega), Int.toNat_natCast, if_pos (by simp; omega)]

theorem gAll_sim (pre : Bytes) (ds : Directs) (n : Nat) (hn : pre.length + n < 2 ^ 62) :
    ∀ (steps : List (GStep × WStep)) (sb : Bytes) (o : Nat), sb.length = n → o ≤ sb.length →
      (∀ p ∈ steps, ∀ (sb' : Bytes) (o' : Nat), sb'.length = n → o' ≤ sb'.length →
        WStepOK pre sb' ds o' (p.1 (pre ++ sb') ((pre.length + o' : Nat) : Int)) (p.2 (⟨sb', ds⟩, o'))) →
      liftW (gAll (steps.map Prod.fst) (pre ++ sb) (pre.length : Int) (o : Int)) =
          ((wAll (steps.map Prod.snd) (⟨sb, ds⟩, o)).bind fun r => .ok (pre ++ r.1.buf, r.2)) ∧
        ∀ r, wAll (steps.map Prod.snd) (⟨sb, ds⟩, o) = .ok r → r.1.ds = ds := by
  intro steps
  induction steps with
  | nil =>
    intro sb o _ _ _
    refine ⟨by simp [gAll, wAll, liftW], ?_⟩
    intro r hr
    simp only [List.map_nil, wAll, Out.ok.injEq] at hr
    rw [← hr]
  | cons p rest ih =>
    intro sb o hsb ho hall
    have h := hall p (List.mem_cons_self ..) sb o hsb ho
    simp only [List.map_cons, gAll, wAll, vfrom_ok pre sb o ho, Out.bind_ok]
    generalize p.1 (pre ++ sb) ((pre.length + o : Nat) : Int) = x at h
    generalize p.2 (⟨sb, ds⟩, o) = y at h
    cases y with
    | ok r =>
      obtain ⟨⟨sb', ds'⟩, o'⟩ := r
      obtain ⟨h1, h2, h3, h4, h5⟩ := h
      simp only at h1 h2 h3 h4 h5
      subst h1 h5
      have w : wrap .i64 ((o : Int) + ((o' - o : Nat) : Int)) = (o' : Int) := by
        rw [wrap_i64_of_range _ (by omega) (by omega)]; omega
      simp only [Out.bind_ok, w]
      exact ih sb' o' (by omega) (by omega) (fun q hq => hall q (List.mem_cons_of_mem _ hq))
    | panic s =>
      subst h
      exact ⟨rfl, fun r hr => by simp at hr⟩
    | err e => exact h.elim
    | oob => exact h.elim

/-- the statement sequence of (*ApplicationException).FastWrite: translated calls paired with the model statements -/
def appExSteps (e : Funcs.S_thrift_ApplicationException) : List (GStep × WStep) :=
  [(fun w t => Funcs.Binary_WriteFieldBegin w t 11 1, stFieldBegin 11 1),
   (fun w t => Funcs.Binary_WriteString w t e.m, stStr 0 false e.m),
   (fun w t => Funcs.Binary_WriteFieldBegin w t 8 2, stFieldBegin 8 2),
   (fun w t => Funcs.Binary_WriteI32 w t e.t, stI32 e.t),
   (fun w t => Funcs.Binary_WriteByte w t 0, stStop)]

theorem AppEx_FastWrite_gAll (e : Funcs.S_thrift_ApplicationException) (w : Bytes) (base : Int) :
    Funcs.AppEx_FastWrite e w base = gAll ((appExSteps e).map Prod.fst) w base 0 := by
  rfl

theorem appExSteps_ok (e : Funcs.S_thrift_ApplicationException) (pre : Bytes) (n : Nat)
    (hn : pre.length + n < 2 ^ 62) :
    ∀ p ∈ appExSteps e, ∀ (sb' : Bytes) (o' : Nat), sb'.length = n → o' ≤ sb'.length →
      WStepOK pre sb' [] o' (p.1 (pre ++ sb') ((pre.length + o' : Nat) : Int)) (p.2 (⟨sb', []⟩, o')) := by
  intro p hp sb' o' hsb' ho'
  have hl' : (pre ++ sb').length < 2 ^ 63 := by simp; omega
  simp only [appExSteps, List.mem_cons, List.not_mem_nil, or_false] at hp
  rcases hp with rfl | rfl | rfl | rfl | rfl
  · exact step_fieldBegin pre sb' [] o' 11 1 ho'
  · exact step_str pre sb' [] o' e.m ho' hl'
  · exact step_fieldBegin pre sb' [] o' 8 2 ho'
  · exact step_i32 pre sb' [] o' e.t ho'
  · exact step_stop pre sb' [] o' ho'

/-- (*ApplicationException).FastWrite on the view `(pre ++ sb, pre.length)` is the model `fastWriteAppEx` on the slice
    `sb`: same stores, same returned length, same panics; the bytes in front of the view are not touched -/
theorem AppEx_FastWrite_view (e : Funcs.S_thrift_ApplicationException) (pre sb : Bytes)
    (hlen : (pre ++ sb).length < 2 ^ 62) :
    liftW (Funcs.AppEx_FastWrite e (pre ++ sb) (pre.length : Int)) =
      (fastWriteAppEx (toAppEx e) sb).bind fun r => .ok (pre ++ r.1.buf, r.2) := by
  rw [AppEx_FastWrite_gAll]
  have hn : pre.length + sb.length < 2 ^ 62 := by simpa using hlen
  exact (gAll_sim pre [] sb.length hn (appExSteps e) sb 0 rfl (by omega) (appExSteps_ok e pre _ hn)).1

/-- the model never hands anything to the (nil) no-copy writer -/
theorem fastWriteAppEx_ds (e : Funcs.S_thrift_ApplicationException) (b : Bytes) (hlen : b.length < 2 ^ 62)
    (r : WS × Nat) (h : fastWriteAppEx (toAppEx e) b = .ok r) : r.1.ds = [] :=
  (gAll_sim [] [] b.length (by simpa using hlen) (appExSteps e) b 0 rfl (by omega)
    (appExSteps_ok e [] _ (by simpa using hlen))).2 r h

/-- result `(b', n)` of a translated struct writer called on a whole slice, as the model's `(WS, n)`: the buffer
    afterwards and nothing recorded by the (nil) no-copy writer -/
def liftWS (x : GM (Bytes × Int)) : TOut (WS × Nat) :=
  match x with
  | .ok r => .ok (⟨r.1, []⟩, r.2.toNat)
  | .panic s => .panic s
  | .oob => .oob
  | .err e => nomatch e

/-- `e.FastWrite(b)` translated from the Go source IS the model `fastWriteAppEx e b` -/
theorem AppEx_FastWrite_eq0 (e : Funcs.S_thrift_ApplicationException) (b : Bytes) (hlen : b.length < 2 ^ 62) :
    liftWS (Funcs.AppEx_FastWrite e b 0) = fastWriteAppEx (toAppEx e) b := by
  have hv := AppEx_FastWrite_view e [] b (by simpa using hlen)
  have hd := fastWriteAppEx_ds e b hlen
  simp only [List.nil_append, List.length_nil, Int.natCast_zero] at hv
  generalize Funcs.AppEx_FastWrite e b 0 = x at hv
  generalize fastWriteAppEx (toAppEx e) b = y at hv hd
  cases y with
  | ok r =>
    have := hd r rfl
    obtain ⟨⟨rb, rds⟩, rn⟩ := r
    simp only at this; subst this
    cases x with
    | ok q => simp only [liftW, Out.bind_ok, Out.ok.injEq, Prod.mk.injEq] at hv; simp [liftWS, hv.1, hv.2]
    | err e => exact nomatch e
    | panic s => simp [liftW] at hv
    | oob => simp [liftW] at hv
  | panic s => simp only [Out.bind_panic] at hv; rw [liftW_panic_inv hv]; rfl
  | err te =>
    cases x with
    | ok q => simp [liftW] at hv
    | err e => exact nomatch e
    | panic s => simp [liftW] at hv
    | oob => simp [liftW] at hv
  | oob =>
    cases x with
    | oob => rfl
    | ok q => simp [liftW] at hv
    | err e => exact nomatch e
    | panic s => simp [liftW] at hv

theorem AppEx_FastWrite_eq (e : Funcs.S_thrift_ApplicationException) (b : Bytes) (off : Nat) (h : off ≤ b.length)
    (hlen : b.length < 2 ^ 62) :
    liftW (Funcs.AppEx_FastWrite e b (off : Int)) =
      (fastWriteAppEx (toAppEx e) (b.drop off)).bind fun r => .ok (b.take off ++ r.1.buf, r.2) := by
  have hv := AppEx_FastWrite_view e (b.take off) (b.drop off) (by rw [List.take_append_drop]; exact hlen)
  rw [List.take_append_drop, List.length_take, Nat.min_eq_left h] at hv
  exact hv

/-! ## the generated functions compute (non-vacuity) -/

/-- `RR` as a tuple (it has no `DecidableEq`) -/
def rrT {A : Type} (x : TOut (RR A)) : TOut (A × Nat × Option TErr) := x.bind fun r => .ok (r.p, r.off, r.err)

-- BaseResp{1: "A", 2: 7, 9: i16 (unknown, skipped), 3: {"k": "v"}} STOP, with and without the span cache
example : Funcs.BaseResp_FastRead true 120 ⟨[], 0, none⟩
    [11, 0, 1, 0, 0, 0, 1, 65,  8, 0, 2, 0, 0, 0, 7,  6, 0, 9, 1, 2,
     13, 0, 3, 11, 11, 0, 0, 0, 1, 0, 0, 0, 1, 107, 0, 0, 0, 1, 118,  0] =
    .ok (⟨[65], 7, some [([107], [118])]⟩, 40, GoErr.nil) := by decide +kernel
example : Funcs.BaseResp_FastRead false 120 ⟨[], 0, none⟩
    [11, 0, 1, 0, 0, 0, 1, 65,  8, 0, 2, 0, 0, 0, 7,  6, 0, 9, 1, 2,  0] =
    .ok (⟨[65], 7, none⟩, 21, GoErr.nil) := by decide +kernel
-- a truncated field: StatusCode with 2 of 4 bytes; `off` has the 3 header bytes, the struct keeps what was read before
example : Funcs.BaseResp_FastRead true 120 ⟨[9], 5, none⟩ [11, 0, 1, 0, 0, 0, 1, 65,  8, 0, 2, 0, 0] =
    .ok (⟨[65], 0, none⟩, 11, GoErr.pe 1 "") := by decide +kernel
-- field id 257 = 0x0101 of type STRING: the low byte is the id of StatusMessage, the key 0x0001010B is not 267: skipped
example : Funcs.BaseResp_FastRead true 120 ⟨[9], 5, none⟩ [11, 1, 1, 0, 0, 0, 1, 65,  0] =
    .ok (⟨[9], 5, none⟩, 9, GoErr.nil) := by decide +kernel
example : rrT (fastReadBaseResp ⟨[9], 5, none⟩ [11, 1, 1, 0, 0, 0, 1, 65,  0]) = .ok (⟨[9], 5, none⟩, 9, none) := by
  decide +kernel
-- a negative field id (0xFF01) with type STRING and a type byte ≥ 128 with id 1: both sign extensions, skipped / error
example : Funcs.BaseResp_FastRead true 120 ⟨[9], 5, none⟩ [11, 255, 1, 0, 0, 0, 1, 65,  0] =
    .ok (⟨[9], 5, none⟩, 9, GoErr.nil) := by decide +kernel
example : rrT (liftFR toBaseResp (Funcs.BaseResp_FastRead true 120 ⟨[9], 5, none⟩ [139, 0, 1, 0, 0, 0, 1, 65,  0])) =
    .ok (⟨[9], 5, none⟩, 3, some (.pe 1)) := by decide +kernel
-- a map with a repeated key: the Go map keeps the last value; the translated association list denotes that map
example : Funcs.BaseResp_FastRead true 120 ⟨[], 0, none⟩
    [13, 0, 3, 11, 11, 0, 0, 0, 2,  0, 0, 0, 1, 65, 0, 0, 0, 1, 66,  0, 0, 0, 1, 65, 0, 0, 0, 1, 67,  0] =
    .ok (⟨[], 0, some [([65], [67]), ([65], [66])]⟩, 30, GoErr.nil) := by decide +kernel
example : toBaseResp ⟨[], 0, some [([65], [67]), ([65], [66])]⟩ = ⟨[], 0, some [([65], [67])]⟩ := by decide +kernel
-- a map header announcing 2^32-1 entries on a short buffer: the entry loop stops at the first short string
example : Funcs.BaseResp_FastRead true 120 ⟨[], 0, none⟩ [13, 0, 3, 11, 11, 255, 255, 255, 255,  0, 0] =
    .ok (⟨[], 0, some []⟩, 9, GoErr.pe 1 "") := by decide +kernel
-- the one place where the model says less: next to an error of `Skip` the Go code reports `off + l` with the partial
-- length `l` that `Skip` returned (here 3 + 7, beyond the buffer), the model reports `off`
example : Funcs.BaseResp_FastRead true 120 ⟨[], 0, none⟩ [12, 0, 9, 8, 0, 1, 0] =
    .ok (⟨[], 0, none⟩, 10, GoErr.pe 1 "") := by decide +kernel
example : rrT (fastReadBaseResp ⟨[], 0, none⟩ [12, 0, 9, 8, 0, 1, 0]) = .ok (⟨[], 0, none⟩, 3, some (.pe 1)) := by
  decide +kernel
-- fuel exhausted (excluded by `b.length + 70 ≤ fuel`)
example : Funcs.BaseResp_FastRead true 1 ⟨[], 0, none⟩ [8, 0, 2, 0, 0, 0, 7, 0] = .panic "nofuel" := by decide +kernel

-- Base{1: "a", 2: "b", 3: "c", 6: {}} and an unknown bool field
example : Funcs.Base_FastRead true 120 ⟨[], [], [], none⟩
    [11, 0, 1, 0, 0, 0, 1, 97,  11, 0, 2, 0, 0, 0, 1, 98,  11, 0, 3, 0, 0, 0, 1, 99,  2, 0, 4, 1,
     13, 0, 6, 11, 11, 0, 0, 0, 0,  0] =
    .ok (⟨[97], [98], [99], some []⟩, 38, GoErr.nil) := by decide +kernel
-- id 6 with type STRING is not the Extra field (key 1547, not 1549): skipped
example : Funcs.Base_FastRead false 120 ⟨[1], [2], [3], none⟩ [11, 0, 6, 0, 0, 0, 0,  0] =
    .ok (⟨[1], [2], [3], none⟩, 8, GoErr.nil) := by decide +kernel
-- negative string length in Caller
example : Funcs.Base_FastRead false 120 ⟨[1], [2], [3], none⟩ [11, 0, 2, 255, 255, 255, 255] =
    .ok (⟨[1], [], [3], none⟩, 3, GoErr.pe 2 "") := by decide +kernel

-- ApplicationException{1: "hi", 2: 6}; on an error `off` stays in front of the value
example : Funcs.AppEx_FastRead true 120 ⟨0, []⟩ [11, 0, 1, 0, 0, 0, 2, 104, 105,  8, 0, 2, 0, 0, 0, 6,  0] =
    .ok (⟨6, [104, 105]⟩, 17, GoErr.nil) := by decide +kernel
example : Funcs.AppEx_FastRead true 120 ⟨3, [1]⟩ [11, 0, 1, 0, 0, 0, 2, 104] =
    .ok (⟨3, []⟩, 3, GoErr.pe 1 "ReadString: buf too small") := by decide +kernel
example : Funcs.AppEx_BLength ⟨6, [104, 105]⟩ = .ok 17 := by decide +kernel
example : Funcs.AppEx_FastWrite ⟨6, [104, 105]⟩ (List.replicate 19 9) 1 =
    .ok ([9, 11, 0, 1, 0, 0, 0, 2, 104, 105, 8, 0, 2, 0, 0, 0, 6, 0, 9], 17) := by decide +kernel
-- a buffer one byte short: the STOP byte is an index panic; `copy` truncates silently before that
example : Funcs.AppEx_FastWrite ⟨6, [104, 105]⟩ (List.replicate 16 9) 0 = .panic "index" := by decide +kernel
example : (fastWriteAppEx ⟨6, [104, 105]⟩ (List.replicate 16 9)).bind (fun r => .ok r.2) = .panic "index" := by
  decide +kernel

end Verif.FuncsEq

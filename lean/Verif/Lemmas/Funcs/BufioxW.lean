/-
  Lemmas/Funcs/BufioxW: the writer half of bufiox/defaultbuf.go — `(*DefaultWriter).acquireSlow / acquire / Malloc /
  WriteBinary / WrittenLen / Flush`, `NewDefaultWriter` — as TRANSLATED from the Go source on every run
  (`Verif.Gen.Bufiox`, over `Base/GoSemCap`) against the hand-written model `Model/Writer.lean` (`Wr`: a heap of buffer
  objects, `WView` slices, parked buffers, a scripted sink) that C05 is about.

  * the translation has VALUE slices, the model a heap. `WSim g m`: the writer's buffer is the content of its object
    (`g.buf = ⟨m.heap v.obj, v.len, true⟩`, nil ↔ `m.buf = none`), every parked slice is the content of its parked object
    with its parked length, `err`, `disableCache`, the statistics and the sink agree. `regions`, `nextRegion`, `target`
    and the object ids are bookkeeping of the model with no counterpart in the Go state.
  * the allocator: the model's `WAlloc` with `poolCap = mcacheCap` (mcache's rounding) — the oracle of the translation
    is the content the model gives its next fresh object (`fun _ c => a.fresh m.next c`); at most one allocation happens
    per call. The `io.Writer` is the model's scripted sink (`sinkWriter`; a BytesWriter's fake writer never fails).
  * hypotheses: the model invariant `WInv` (Lemmas/WriterOps: it is what makes parked objects distinct from the current
    one), `cap ≤ 2^44`, `n + len ≤ 2^44`, recorded capacities `≤ 2^45` (mcache pools, no int64 wrap), fuel ≥ 64.
  * theorems `DefaultWriter_<F>_sim`: the generated function returns what the model returns (count / region length and
    capacity / error), in states related again; `Flush` agrees with the model's `stitch` INCLUDING its slice panics.
    `WInv` of the state afterwards is the model's own lemma (acquire_spec, malloc_spec, …).
  * NOT covered: `fakeIOWriter.Write` and `NewBytesWriter` (refused by the translator: a pointer to the enclosing
    BytesWriter / `*flushBytes = p`), and the caller's later stores into a region handed out by `Malloc` (`Wr.fill`): with
    value slices they have no counterpart in a single translated function — the aliasing of `Malloc`'s result with
    `w.buf` is the model's, tied by Tie B.
-/
import Verif.Lemmas.Funcs.BufioxR
import Verif.Lemmas.WriterOps
namespace Verif.BufioxEq
open Verif Verif.GoSemCap Verif.BufioxGen
open Verif.GoSem (GM wrap LoopR IT)
set_option linter.unusedSimpArgs false

/-! ## the sink, the relation -/

/-- the model's scripted sink as an `io.Writer` (`dc` = the writer is a BytesWriter: its fake io.Writer never fails) -/
def sinkWriter (dc : Bool) : IoWriter WSink :=
  ⟨fun s data =>
    let e := if dc then none else s.fail (s.calls.length + 1)
    ((data.length : Int), errCon e, { s with calls := s.calls ++ [(data, e)] })⟩

/-- generated writer state vs the model state (a heap of buffer objects): a slice is the content of its object -/
structure WSim (g : S_DefaultWriter WSink) (m : Wr) : Prop where
  buf_none : m.buf = none → g.buf = Sl.nil
  buf_some : ∀ v, m.buf = some v → g.buf = ⟨m.heap v.obj, v.len, true⟩
  pend : (rangeSl g.pendingBuf).map (fun p => (p.len, p.mem)) = m.pending.map (fun ol => (ol.2, m.heap ol.1))
  err : g.err = errCon m.err
  dc : g.disableCache = m.disableCache
  stats : m.stats = g.maxSizeStats.buckets.map Int.toNat
  stats_nonneg : ∀ x ∈ g.maxSizeStats.buckets, 0 ≤ x
  idx : (m.statsIdx : Int) = g.maxSizeStats.bucketIdx
  sink : g.wd = some m.sink


theorem dirty_fresh (a : WAlloc) (id c : Nat) : dirty (fun c => a.fresh id c) c = a.fresh id c := by
  simp [dirty, length_fresh]

theorem dirtmake_ok (o : Nat → Bytes) (l c : Nat) (h : l ≤ c) :
    dirtmakeBytes o (l : Int) (c : Int) = .ok { mem := dirty o c, len := l, nonnil := true } := by
  unfold dirtmakeBytes
  have : ¬ ((l : Int) < 0 ∨ (l : Int) > (c : Int)) := by omega
  have h' : ¬ c < l := by omega
  simp [this, h']

theorem le_mul_two_pow (n m : Nat) (hm : 0 < m) : n ≤ m * 2 ^ n := by
  have := @Nat.lt_two_pow_self n
  calc n ≤ 1 * 2 ^ n := by omega
    _ ≤ m * 2 ^ n := Nat.mul_le_mul_right _ hm

/-- growth keeps the relation: the old buffer is parked as it is, the new object is fresh -/
theorem grow_wsim (a : WAlloc) (g : S_DefaultWriter WSink) (m : Wr) (v : WView) (n N c : Nat) (hs : WSim g m)
    (hb : m.buf = some v) (hok : BufOK m.heap m.next v m.pending m.regions)
    (hN : growCap n (v.cap * 2) v.len n = N) (hc : (if m.disableCache then N else a.poolCap N) = c) :
    WSim { g with pendingBuf := appendSl g.pendingBuf g.buf, buf := ⟨a.fresh m.next c, v.len, true⟩ } (m.grow a v n) := by
  have hgb := hs.buf_some v hb
  have hold : ∀ o, o < m.next → (if o = m.next then a.fresh m.next c else m.heap o) = m.heap o := by
    intro o ho; have : o ≠ m.next := by omega
    simp [this]
  refine ⟨by simp [Wr.grow, Wr.allocBuf], ?_, ?_, by simpa [Wr.grow, Wr.allocBuf] using hs.err,
    by simpa [Wr.grow, Wr.allocBuf] using hs.dc, by simpa [Wr.grow, Wr.allocBuf] using hs.stats, hs.stats_nonneg,
    by simpa [Wr.grow, Wr.allocBuf] using hs.idx, by simpa [Wr.grow, Wr.allocBuf] using hs.sink⟩
  · intro v' hv'
    simp [Wr.grow, Wr.allocBuf, hN, hc] at hv'
    subst hv'
    simp [Wr.grow, Wr.allocBuf, hN, hc]
  · simp only [Wr.grow, Wr.allocBuf, hN, hc, appendSl, rangeSl, Option.getD_some, List.map_append, List.map_cons,
      List.map_nil]
    have h1 : m.pending.map (fun ol => (ol.2, if ol.1 = m.next then a.fresh m.next c else m.heap ol.1))
        = m.pending.map (fun ol => (ol.2, m.heap ol.1)) := by
      apply List.map_congr_left
      intro ol hol
      rw [hold _ (hok.pend_lt ol hol)]
    have hp := hs.pend
    simp only [rangeSl] at hp
    rw [h1, ← hp, hold _ hok.obj_lt, hgb]

/-- the first allocation keeps the relation -/
theorem alloc_wsim (a : WAlloc) (g : S_DefaultWriter WSink) (m : Wr) (c : Nat) (hs : WSim g m)
    (hpl : ∀ p ∈ m.pending, p.1 < m.next) :
    WSim { g with buf := ⟨a.fresh m.next c, 0, true⟩ }
      { m with heap := fun i => if i = m.next then a.fresh m.next c else m.heap i, next := m.next + 1,
               buf := some ⟨m.next, 0, c⟩ } := by
  refine ⟨by simp, ?_, ?_, hs.err, hs.dc, hs.stats, hs.stats_nonneg, hs.idx, hs.sink⟩
  · intro v' hv'
    simp at hv'
    subst hv'
    simp
  · have h1 : m.pending.map (fun ol => (ol.2, if ol.1 = m.next then a.fresh m.next c else m.heap ol.1))
        = m.pending.map (fun ol => (ol.2, m.heap ol.1)) := by
      apply List.map_congr_left
      intro ol hol
      have : ol.1 ≠ m.next := by have := hpl ol hol; omega
      simp [this]
    simp only [h1]
    exact hs.pend

theorem DefaultWriter_acquireSlow_sim (a : WAlloc) (ha : ∀ c, a.poolCap c = mcacheCap c) (fuel : Nat)
    (g : S_DefaultWriter WSink) (m : Wr) (n : Nat) (hs : WSim g m) (hw : WInv m)
    (hcap : m.bufCap ≤ 2 ^ 44) (hreq : n + m.bufLen ≤ 2 ^ 44) (hst : ∀ x ∈ m.stats, x ≤ 2 ^ 45) (hfuel : 64 ≤ fuel) :
    ∃ g' m', DefaultWriter_acquireSlow (fun _ c => a.fresh m.next c) fuel g (n : Int) = .ok g' ∧
      m.acquireSlow a n = some m' ∧ WSim g' m' ∧ m'.bufCap ≤ 2 ^ 45 := by
  obtain ⟨f0, rfl⟩ : ∃ f0, fuel = f0 + 1 := ⟨fuel - 1, by omega⟩
  have hpow : 2 ^ 45 ≤ 2 ^ f0 := Nat.pow_le_pow_right (by omega) (by omega)
  unfold DefaultWriter_acquireSlow Wr.acquireSlow
  by_cases hc : m.bufCap = 0
  · -- first allocation
    have hsc : scap g.buf = 0 := by
      cases hb : m.buf with
      | none => simp [hs.buf_none hb, scap, Sl.nil]
      | some v =>
        have := (hw.buf_ok v hb).heap_len
        simp [Wr.bufCap, hb] at hc
        simp [hs.buf_some v hb, scap, this, hc]
    have hsl : slen g.buf = 0 := by
      cases hb : m.buf with
      | none => simp [hs.buf_none hb, slen, Sl.nil]
      | some v =>
        have := (hw.buf_ok v hb).len_le_cap
        simp [Wr.bufCap, hb] at hc
        simp [hs.buf_some v hb, slen]; omega
    have hnil : g.buf.mem = [] := List.eq_nil_of_length_eq_zero (by simpa [scap] using hsc)
    have hpl : ∀ p ∈ m.pending, p.1 < m.next := by
      cases hb : m.buf with
      | none => simp [(hw.nil_buf hb).1]
      | some v => exact (hw.buf_ok v hb).pend_lt
    have hbl : g.maxSizeStats.buckets.length = Facts.statsBucketNum := by
      have := congrArg List.length hs.stats; simp at this; rw [← this]; exact hw.stats_len
    have e1 := maxSizeStats_maxSize_eq g.maxSizeStats hs.stats_nonneg hbl
    rw [← hs.stats] at e1
    have hs45 : statsMax m.stats ≤ 2 ^ 45 := statsMax_le _ _ hst
    generalize hm1 : (if statsMax m.stats < Facts.defaultBufSize then Facts.defaultBufSize else statsMax m.stats) = m1
    have hm1' : m1 = if statsMax m.stats < 4096 then 4096 else statsMax m.stats := hm1.symm
    have hm1pos : 0 < m1 := by rw [hm1']; split <;> omega
    have hm1le : m1 ≤ 2 ^ 45 := by rw [hm1']; split <;> omega
    have hn : n ≤ 2 ^ 44 := by omega
    have hf1 : n ≤ m1 * 2 ^ f0 := by
      calc n ≤ 1 * 2 ^ f0 := by omega
        _ ≤ m1 * 2 ^ f0 := Nat.mul_le_mul_right _ hm1pos
    have hg1 := le_mul_two_pow n m1 hm1pos
    have hd := doubleUntil_spec n m1 n hm1pos hg1
    generalize hm2 : doubleUntil n m1 n = m2 at *
    have hm2le : m2 ≤ 2 ^ 45 := by omega
    have e3 := malloc0_ok (fun c => a.fresh m.next c) m2 hm2le
    have e4 := dirtmake_ok (fun c => a.fresh m.next c) 0 m2 (Nat.zero_le _)
    rw [dirty_fresh] at e3 e4
    simp only [Int.natCast_zero] at e4
    have hNcap : m2 ≤ mcacheCap m2 := by rw [mcacheCap_eq m2 (by omega)]; exact (pow2ceil_spec m2 (by omega)).1
    have hmcle : mcacheCap m2 ≤ 2 ^ 45 := by rw [mcacheCap_eq m2 (by omega)]; exact pow2ceil_le45 m2 hm2le
    have hmax : (if ((statsMax m.stats : Nat) : Int) < 4096 then (Out.ok 4096 : GM Int) else Out.ok ((statsMax m.stats : Nat) : Int))
        = Out.ok (m1 : Int) := by
      rw [hm1']; split <;> split <;> first | rfl | omega
    simp only [hc, if_true, Wr.firstAlloc, Wr.allocBuf, hm1, hm2]
    cases hdc : g.disableCache
    · have hmdc : m.disableCache = false := by rw [← hs.dc, hdc]
      have hwA : wrap .i64 ((mcacheCap m2 : Int) - 0) = (mcacheCap m2 : Int) := by rw [wrap_i64_id] <;> omega
      have hwA' : wrap .i64 (mcacheCap m2 : Int) = (mcacheCap m2 : Int) := by rw [wrap_i64_id] <;> omega
      have hgA : ¬ (mcacheCap m2 : Int) < (n : Int) := by omega
      have hgM : ¬ mcacheCap m2 < n := by omega
      refine ⟨{ g with buf := ⟨a.fresh m.next (mcacheCap m2), 0, true⟩ }, _, ?_, by simp [hmdc, ha, hgM],
        alloc_wsim a g m (mcacheCap m2) hs hpl, by simpa [Wr.bufCap] using hmcle⟩
      simp [-Out.bind_ok, bind_ok_nr, hsc, hnil, e1, hmax, hdc, scap, slen]
      rw [double_bind (T := n) (f := f0) (m := m1) (g := n) (mi := (m1 : Int)) (hT := by omega) (hmi := rfl)
        (hm := hm1pos) (hm' := by omega) (hf := hf1) (hg := hg1)]
      rotate_left
      · intro f c hc0 hc1
        rw [DefaultWriter_acquireSlow_loop1]
        arith_cases
      rw [hm2]
      simp [-Out.bind_ok, bind_ok_nr, hdc, e3, scap, slen, length_fresh, hwA, hwA', hgA]
    · have hmdc : m.disableCache = true := by rw [← hs.dc, hdc]
      have hwA : wrap .i64 ((m2 : Int) - 0) = (m2 : Int) := by rw [wrap_i64_id] <;> omega
      have hwA' : wrap .i64 (m2 : Int) = (m2 : Int) := by rw [wrap_i64_id] <;> omega
      have hgA : ¬ (m2 : Int) < (n : Int) := by omega
      have hgM : ¬ m2 < n := by omega
      refine ⟨{ g with buf := ⟨a.fresh m.next m2, 0, true⟩ }, _, ?_, by simp [hmdc, hgM],
        alloc_wsim a g m m2 hs hpl, by simpa [Wr.bufCap] using hm2le⟩
      simp [-Out.bind_ok, bind_ok_nr, hsc, hnil, e1, hmax, hdc, scap, slen]
      rw [double_bind (T := n) (f := f0) (m := m1) (g := n) (mi := (m1 : Int)) (hT := by omega) (hmi := rfl)
        (hm := hm1pos) (hm' := by omega) (hf := hf1) (hg := hg1)]
      rotate_left
      · intro f c hc0 hc1
        rw [DefaultWriter_acquireSlow_loop1]
        arith_cases
      rw [hm2]
      simp [-Out.bind_ok, bind_ok_nr, hdc, e4, scap, slen, length_fresh, hwA, hwA', hgA]
  · -- a buffer exists
    obtain ⟨v, hb⟩ : ∃ v, m.buf = some v := by
      cases hb : m.buf with
      | none => simp [Wr.bufCap, hb] at hc
      | some v => exact ⟨v, rfl⟩
    have hgb := hs.buf_some v hb
    have hok := hw.buf_ok v hb
    have hvc : v.cap ≠ 0 := by simpa [Wr.bufCap, hb] using hc
    have hcap' : v.cap ≤ 2 ^ 44 := by simpa [Wr.bufCap, hb] using hcap
    have hreq' : n + v.len ≤ 2 ^ 44 := by simpa [Wr.bufLen, hb] using hreq
    have hll := hok.len_le_cap; have hhl := hok.heap_len
    have hsc : scap g.buf = (v.cap : Int) := by simp [scap, hgb, hhl]
    have hsl : slen g.buf = (v.len : Int) := by simp [slen, hgb]
    have hc' : ¬ (v.cap : Int) = 0 := by omega
    have hw1 : wrap .i64 ((v.cap : Int) - (v.len : Int)) = ((v.cap - v.len : Nat) : Int) := by
      rw [wrap_i64_id] <;> omega
    simp only [hc, if_false, hb]
    by_cases hg : n > v.cap - v.len
    · -- growth: the old buffer is parked, nothing is copied
      have hg' : ((v.cap - v.len : Nat) : Int) < (n : Int) := by omega
      have hnpos : 0 < n := by omega
      have hwc : wrap .i64 ((v.cap : Int) * 2) = (v.cap : Int) * 2 := by rw [wrap_i64_id] <;> omega
      have hlen : g.buf.len = v.len := by simp [hgb]
      have hf1 : n + g.buf.len ≤ (v.cap * 2) * 2 ^ f0 := by
        rw [hlen]
        calc n + v.len ≤ 1 * 2 ^ f0 := by omega
          _ ≤ (v.cap * 2) * 2 ^ f0 := Nat.mul_le_mul_right _ (by omega)
      have hg1 : n + g.buf.len ≤ (v.cap * 2) * 2 ^ n := by
        rw [hlen]
        have h1 := le_mul_two_pow n v.cap (by omega)
        have h2 : v.cap * 1 ≤ v.cap * 2 ^ n := Nat.mul_le_mul_left _ (Nat.two_pow_pos n)
        have h3 : v.cap * 2 * 2 ^ n = v.cap * 2 ^ n + v.cap * 2 ^ n := by
          rw [Nat.mul_assoc, Nat.mul_comm 2, ← Nat.mul_assoc]; omega
        omega
      rw [hlen] at hf1 hg1
      have hwc' : wrap .i64 (2 * (v.cap : Int)) = (v.cap : Int) * 2 := by rw [wrap_i64_id] <;> omega
      have hg'' : ¬ (n : Int) ≤ ((v.cap - v.len : Nat) : Int) := by omega
      have hd := doubleUntil_spec n (v.cap * 2) (n + v.len) (by omega) hg1
      have hgc := growCap_eq n (v.cap * 2) v.len n hnpos
      generalize hN : doubleUntil n (v.cap * 2) (n + v.len) = N at *
      have hNle : N ≤ 2 ^ 45 := by omega
      have e3 := malloc1_ok (fun c => a.fresh m.next c) N hNle
      have e4 := dirtmake_ok (fun c => a.fresh m.next c) N N (Nat.le_refl _)
      rw [dirty_fresh] at e3 e4
      have hNcap : N ≤ mcacheCap N := by rw [mcacheCap_eq N (by omega)]; exact (pow2ceil_spec N (by omega)).1
      have hsl2 : ∀ (c : Nat), N ≤ c → sslice ⟨a.fresh m.next c, N, true⟩ 0 (v.len : Int) = .ok ⟨a.fresh m.next c, v.len, true⟩ := by
        intro c hc
        rw [sslice_ok _ _ _ (by omega) (by omega) (by simp [scap, length_fresh]; omega)]; simp
      cases hdc : g.disableCache
      · -- mcache
        have hmdc : m.disableCache = false := by rw [← hs.dc, hdc]
        refine ⟨{ g with pendingBuf := appendSl g.pendingBuf g.buf, buf := ⟨a.fresh m.next (mcacheCap N), v.len, true⟩ },
          m.grow a v n, ?_, by simp [hg, hvc], grow_wsim a g m v n N _ hs hb hok hgc (by simp [hmdc, ha]), by
            have : mcacheCap N ≤ 2 ^ 45 := by rw [mcacheCap_eq N (by omega)]; exact pow2ceil_le45 N hNle
            simpa [Wr.bufCap, Wr.grow, Wr.allocBuf, hgc, hmdc, ha] using this⟩
        simp [-Out.bind_ok, bind_ok_nr, hsc, hsl, hc', hvc, hw1, hg', hg'', hwc, hwc', hdc]
        rw [double_bind (T := n + v.len) (f := f0) (m := v.cap * 2) (g := n) (mi := (v.cap : Int) * 2) (hT := by omega)
          (hmi := by simp) (hm := by omega) (hm' := by omega) (hf := hf1) (hg := hg1)]
        rotate_left
        · intro f c hc0 hc1
          rw [DefaultWriter_acquireSlow_loop2]
          arith_cases
        rw [hN]
        simp [-Out.bind_ok, bind_ok_nr, hsl, hdc, e3, hsl2 _ hNcap]
      · have hmdc : m.disableCache = true := by rw [← hs.dc, hdc]
        refine ⟨{ g with pendingBuf := appendSl g.pendingBuf g.buf, buf := ⟨a.fresh m.next N, v.len, true⟩ },
          m.grow a v n, ?_, by simp [hg, hvc], grow_wsim a g m v n N _ hs hb hok hgc (by simp [hmdc]), by
            simpa [Wr.bufCap, Wr.grow, Wr.allocBuf, hgc, hmdc] using hNle⟩
        simp [-Out.bind_ok, bind_ok_nr, hsc, hsl, hc', hvc, hw1, hg', hg'', hwc, hwc', hdc]
        rw [double_bind (T := n + v.len) (f := f0) (m := v.cap * 2) (g := n) (mi := (v.cap : Int) * 2) (hT := by omega)
          (hmi := by simp) (hm := by omega) (hm' := by omega) (hf := hf1) (hg := hg1)]
        rotate_left
        · intro f c hc0 hc1
          rw [DefaultWriter_acquireSlow_loop2]
          arith_cases
        rw [hN]
        simp [-Out.bind_ok, bind_ok_nr, hsl, hdc, e4, hsl2 _ (Nat.le_refl _)]
    · have hg' : ¬ ((v.cap - v.len : Nat) : Int) < (n : Int) := by omega
      have hg'' : (n : Int) ≤ ((v.cap - v.len : Nat) : Int) := by omega
      refine ⟨g, m, ?_, by simp [hg], hs, by omega⟩
      simp [-Out.bind_ok, bind_ok_nr, hsc, hsl, hc', hvc, hw1, hg', hg'']

/-- `len(w.buf)`, `cap(w.buf)` are the model's -/
theorem wsim_len_cap (g : S_DefaultWriter WSink) (m : Wr) (hs : WSim g m) (hw : WInv m) :
    slen g.buf = (m.bufLen : Int) ∧ scap g.buf = (m.bufCap : Int) := by
  cases hb : m.buf with
  | none => simp [hs.buf_none hb, slen, scap, Sl.nil, Wr.bufLen, Wr.bufCap, hb]
  | some v => simp [hs.buf_some v hb, slen, scap, Wr.bufLen, Wr.bufCap, hb, (hw.buf_ok v hb).heap_len]

theorem DefaultWriter_WrittenLen_eq (g : S_DefaultWriter WSink) (m : Wr) (hs : WSim g m) (hw : WInv m) :
    DefaultWriter_WrittenLen g = .ok (m.writtenLen : Int) := by
  simp [DefaultWriter_WrittenLen, Wr.writtenLen, (wsim_len_cap g m hs hw).1]

theorem DefaultWriter_acquire_sim (a : WAlloc) (ha : ∀ c, a.poolCap c = mcacheCap c) (fuel : Nat)
    (g : S_DefaultWriter WSink) (m : Wr) (n : Nat) (hs : WSim g m) (hw : WInv m)
    (hcap : m.bufCap ≤ 2 ^ 44) (hreq : n + m.bufLen ≤ 2 ^ 44) (hst : ∀ x ∈ m.stats, x ≤ 2 ^ 45) (hfuel : 64 ≤ fuel) :
    ∃ g' m', DefaultWriter_acquire (fun _ c => a.fresh m.next c) fuel g (n : Int) = .ok g' ∧
      m.acquire a n = some m' ∧ WSim g' m' ∧ m'.bufCap ≤ 2 ^ 45 := by
  obtain ⟨h1, h2⟩ := wsim_len_cap g m hs hw
  have hwr : wrap .i64 ((m.bufLen : Int) + (n : Int)) = (m.bufLen : Int) + (n : Int) := by rw [wrap_i64_id] <;> omega
  have hwrc : wrap .i64 ((n : Int) + (m.bufLen : Int)) = (m.bufLen : Int) + (n : Int) := by rw [wrap_i64_id] <;> omega
  unfold DefaultWriter_acquire Wr.acquire
  by_cases hf : m.bufLen + n ≤ m.bufCap
  · have hf' : (m.bufLen : Int) + (n : Int) ≤ (m.bufCap : Int) := by omega
    have hf'' : ¬ (m.bufCap : Int) < (m.bufLen : Int) + (n : Int) := by omega
    exact ⟨g, m, by simp [h1, h2, hwr, hwrc, hf', hf''], by simp [hf], hs, by omega⟩
  · have hf' : ¬ (m.bufLen : Int) + (n : Int) ≤ (m.bufCap : Int) := by omega
    have hf'' : (m.bufCap : Int) < (m.bufLen : Int) + (n : Int) := by omega
    obtain ⟨g', m', hx, hy, hs', hc'⟩ := DefaultWriter_acquireSlow_sim a ha fuel g m n hs hw hcap hreq hst hfuel
    exact ⟨g', m', by simp [h1, h2, hwr, hwrc, hf', hf'', hx], by simp [hf, hy], hs', hc'⟩

theorem mcacheCap_ge (c : Nat) : c ≤ mcacheCap c := by
  unfold mcacheCap
  split
  · omega
  · split
    · omega
    · exact Nat.le_of_lt Nat.lt_log2_self

theorem sound_of_mcache (a : WAlloc) (ha : ∀ c, a.poolCap c = mcacheCap c) : a.Sound := by
  intro c; rw [ha]; exact mcacheCap_ge c

/-- the result `(buf, err)` of a generated `Malloc` against the model's `(region id, len, cap)` -/
def MallocOK (x : GM (S_DefaultWriter WSink × Sl × Err)) (y : Out RErr (Nat × Nat × Nat) × Wr) : Prop :=
  match y.1 with
  | .ok r => ∃ g' b, x = .ok (g', b, Err.nil) ∧ b.len = r.2.1 ∧ b.mem.length = r.2.2 ∧ WSim g' y.2
  | .err e => ∃ g', x = .ok (g', Sl.nil, errCon (some e)) ∧ WSim g' y.2
  | .panic _ => False
  | .oob => False

theorem DefaultWriter_Malloc_sim (a : WAlloc) (ha : ∀ c, a.poolCap c = mcacheCap c) (fuel : Nat)
    (g : S_DefaultWriter WSink) (m : Wr) (n : Int) (hs : WSim g m) (hw : WInv m)
    (hcap : m.bufCap ≤ 2 ^ 44) (hreq : n + m.bufLen ≤ 2 ^ 44) (hst : ∀ x ∈ m.stats, x ≤ 2 ^ 45) (hfuel : 64 ≤ fuel) :
    MallocOK (DefaultWriter_Malloc (fun _ c => a.fresh m.next c) fuel g n) (m.malloc a n) := by
  unfold DefaultWriter_Malloc Wr.malloc MallocOK
  cases he : m.err with
  | some e =>
    have hge : errCon (some e) ≠ Err.nil := by cases e <;> simp [errCon]
    simp only [he]
    exact ⟨g, by simp [hge, hs.err, he], hs⟩
  | none =>
    have hge : g.err = Err.nil := by rw [hs.err, he]; rfl
    simp only [he]
    by_cases hneg : n < 0
    · simp only [hneg, if_true]
      exact ⟨g, by simp [hge, hneg, errCon], hs⟩
    · obtain ⟨k, rfl⟩ : ∃ k : Nat, n = (k : Int) := ⟨n.toNat, by omega⟩
      obtain ⟨g1, m1, hx, hy, hs1, _⟩ := DefaultWriter_acquire_sim a ha fuel g m k hs hw hcap (by omega) hst hfuel
      obtain ⟨m1', hy', hpost⟩ := acquire_spec a (sound_of_mcache a ha) m hw k
      rw [hy] at hy'; cases hy'
      simp only [hneg, if_false, Int.toNat_natCast, hy]
      rcases hpost.room with ⟨v, hb, hroom⟩ | ⟨hb, hk0⟩
      · have hok := hpost.inv.buf_ok v hb
        have hgb := hs1.buf_some v hb
        have hhl := hok.heap_len
        have hvl : v.len = m.bufLen := by have := hpost.len; simpa [Wr.bufLen, hb] using this
        have hgt : ¬ v.len + k > v.cap := by omega
        have hw1 : wrap .i64 ((v.len : Int) + (k : Int)) = (v.len : Int) + (k : Int) := by rw [wrap_i64_id] <;> omega
        have hw1c : wrap .i64 ((k : Int) + (v.len : Int)) = (v.len : Int) + (k : Int) := by rw [wrap_i64_id] <;> omega
        have s1 : sslice g1.buf (v.len : Int) ((v.len : Int) + (k : Int)) = .ok ⟨(m1.heap v.obj).drop v.len, k, true⟩ := by
          rw [sslice_ok _ _ _ (by omega) (by omega) (by simp [scap, hgb, hhl]; omega)]
          simp [hgb]; omega
        have s2 : sslice g1.buf 0 ((v.len : Int) + (k : Int)) = .ok ⟨m1.heap v.obj, v.len + k, true⟩ := by
          rw [sslice_ok _ _ _ (by omega) (by omega) (by simp [scap, hgb, hhl]; omega)]
          simp [hgb]; omega
        have hsl : slen g1.buf = (v.len : Int) := by simp [slen, hgb]
        simp only [hb, hgt, if_false]
        refine ⟨{ g1 with buf := ⟨m1.heap v.obj, v.len + k, true⟩ }, ⟨(m1.heap v.obj).drop v.len, k, true⟩, ?_, rfl,
          by simp [hhl], ?_⟩
        · simp [hge, hneg, hx, hsl, hw1, hw1c, s1, s2]
        · refine ⟨by simp, ?_, hs1.pend, hs1.err, hs1.dc, hs1.stats, hs1.stats_nonneg, hs1.idx, hs1.sink⟩
          intro v' hv'; simp at hv'; subst hv'; rfl
      · -- no buffer and nothing asked for: `nil[0:0]`
        subst hk0
        have hgb := hs1.buf_none hb
        simp only [hb, Nat.lt_irrefl, if_false]
        refine ⟨g1, Sl.nil, ?_, rfl, rfl, ?_⟩
        · have hw0 : wrap .i64 0 = 0 := by decide
          simp only [Int.natCast_zero] at hx
          obtain ⟨b1, p1, w1, e1, st1, d1⟩ := g1
          simp only [] at hgb
          subst hgb
          simp [hge, hx, slen, sslice, scap, Sl.nil, hw0]
        · exact ⟨fun _ => hgb, by intro v' hv'; simp [hb] at hv', hs1.pend, hs1.err, hs1.dc, hs1.stats, hs1.stats_nonneg,
            hs1.idx, hs1.sink⟩

/-- `n = copy(w.buf[len(w.buf):cap(w.buf)], bs); w.buf = w.buf[:len(w.buf)+n]` -/
theorem wb_ok (b bs : Sl) (hlen : b.len ≤ b.mem.length) (hbs : bs.len ≤ bs.mem.length) (hcap : b.mem.length ≤ 2 ^ 45) :
    let p : Sl := { b with mem := b.mem.drop b.len, len := b.mem.length - b.len }
    let k := min (b.mem.length - b.len) bs.len
    let b2 := putBack b (slen b) (copySl p bs).1
    (copySl p bs).2 = (k : Int) ∧
    -- `w.buf[:hi]` for any way of writing `hi = len(w.buf) + n`
    (∀ hi : Int, hi = ((b.len + k : Nat) : Int) → sslice b2 0 hi =
      .ok ⟨b.mem.take b.len ++ bs.data.take k ++ b.mem.drop (b.len + k), b.len + k, b.nonnil⟩) := by
  intro p k b2
  have hk : k ≤ b.mem.length - b.len := Nat.min_le_left _ _
  have hk2 : k ≤ bs.len := Nat.min_le_right _ _
  have hw : wrap .i64 ((b.len : Int) + (k : Int)) = ((b.len + k : Nat) : Int) := by rw [wrap_i64_id] <;> omega
  have hb2 : b2 = ⟨b.mem.take b.len ++ bs.data.take k ++ b.mem.drop (b.len + k), b.len, b.nonnil⟩ := by
    simp only [b2, p, putBack, copySl, slen, Int.toNat_natCast]
    have e1 : min (b.mem.length - b.len) bs.len = k := rfl
    simp only [e1]
    have e2 : bs.data.take k = bs.mem.take k := by simp [Sl.data, List.take_take, Nat.min_eq_left hk2]
    simp [e2, List.drop_drop, Nat.min_eq_left hk2, Nat.min_eq_left hlen]
    have : b.len + (k + (b.mem.length - b.len - k)) = b.mem.length := by omega
    simp [this]
    omega
  refine ⟨rfl, ?_⟩
  intro hi hhi
  subst hhi
  rw [hb2]
  rw [sslice_ok _ _ _ (by omega) (by omega) (by
    simp [scap, Sl.data, Nat.min_eq_left hlen, Nat.min_eq_left hk2]; omega)]
  simp
  omega

def WriteOK (x : GM (S_DefaultWriter WSink × Int × Err)) (y : Out RErr Nat × Wr) : Prop :=
  match y.1 with
  | .ok k => ∃ g', x = .ok (g', (k : Int), Err.nil) ∧ WSim g' y.2
  | .err e => ∃ g', x = .ok (g', 0, errCon (some e)) ∧ WSim g' y.2
  | .panic _ => False
  | .oob => False

theorem DefaultWriter_WriteBinary_sim (a : WAlloc) (ha : ∀ c, a.poolCap c = mcacheCap c) (fuel : Nat)
    (g : S_DefaultWriter WSink) (m : Wr) (bs : Sl) (hbs : bs.len ≤ bs.mem.length) (hs : WSim g m) (hw : WInv m)
    (hcap : m.bufCap ≤ 2 ^ 44) (hreq : bs.len + m.bufLen ≤ 2 ^ 44) (hst : ∀ x ∈ m.stats, x ≤ 2 ^ 45) (hfuel : 64 ≤ fuel) :
    WriteOK (DefaultWriter_WriteBinary (fun _ c => a.fresh m.next c) fuel g bs) (m.writeBinary a bs.data) := by
  have hdl : bs.data.length = bs.len := by simp [Sl.data, Nat.min_eq_left hbs]
  unfold DefaultWriter_WriteBinary Wr.writeBinary WriteOK
  cases he : m.err with
  | some e =>
    have hge : errCon (some e) ≠ Err.nil := by cases e <;> simp [errCon]
    simp only [he]
    exact ⟨g, by simp [hge, hs.err, he], hs⟩
  | none =>
    have hge : g.err = Err.nil := by rw [hs.err, he]; rfl
    simp only [he, hdl]
    obtain ⟨g1, m1, hx, hy, hs1, hc1⟩ := DefaultWriter_acquire_sim a ha fuel g m bs.len hs hw hcap hreq hst hfuel
    obtain ⟨m1', hy', hpost⟩ := acquire_spec a (sound_of_mcache a ha) m hw bs.len
    rw [hy] at hy'; cases hy'
    simp only [hy]
    rcases hpost.room with ⟨v, hb, hroom⟩ | ⟨hb, hk0⟩
    · have hok := hpost.inv.buf_ok v hb
      have hgb := hs1.buf_some v hb
      have hhl := hok.heap_len
      have hvl : v.len = m.bufLen := by have := hpost.len; simpa [Wr.bufLen, hb] using this
      have hvc : v.cap ≤ 2 ^ 45 := by simpa [Wr.bufCap, hb] using hc1
      have hml : g1.buf.mem.length = v.cap := by simp [hgb, hhl]
      have hgl : g1.buf.len = v.len := by simp [hgb]
      have hk : min (g1.buf.mem.length - g1.buf.len) bs.len = bs.len := by omega
      have hk' : min (v.cap - v.len) bs.len = bs.len := by omega
      obtain ⟨c1, c2⟩ := wb_ok g1.buf bs (by have := hok.len_le_cap; omega) hbs (by omega)
      have hsp := spare_ok g1.buf (by have := hok.len_le_cap; omega)
      simp only [hk] at c1 c2
      simp only [hb, hk']
      refine ⟨{ g1 with buf := ⟨g1.buf.mem.take g1.buf.len ++ bs.data.take bs.len ++ g1.buf.mem.drop (g1.buf.len + bs.len),
          g1.buf.len + bs.len, g1.buf.nonnil⟩ }, ?_, ?_⟩
      · have hx' : DefaultWriter_acquire (fun _ c => a.fresh m.next c) fuel g (slen bs) = .ok g1 := hx
        simp [-Out.bind_ok, bind_ok_nr, hge, hx', hsp, c1]
        rw [c2]
        rotate_left
        · simp only [slen, putBack]; rw [wrap_i64_id] <;> omega
        simp [-Out.bind_ok, bind_ok_nr]
      · refine ⟨by simp, ?_, ?_, hs1.err, hs1.dc, hs1.stats, hs1.stats_nonneg, hs1.idx, hs1.sink⟩
        · intro v' hv'; simp at hv'; subst hv'
          simp [hwrite, hdl, hgb]
        · have h1 : m1.pending.map (fun ol => (ol.2, hwrite m1.heap v.obj v.len (bs.data.take bs.len) ol.1))
              = m1.pending.map (fun ol => (ol.2, m1.heap ol.1)) := by
            apply List.map_congr_left
            intro ol hol
            rw [hwrite_other _ _ _ _ _ (hok.pend_ne ol hol)]
          simp only [h1]
          exact hs1.pend
    · -- no buffer and nothing to write: `copy(nil[0:0], bs)`
      have hgb := hs1.buf_none hb
      have hk : min (g1.buf.mem.length - g1.buf.len) bs.len = 0 := by simp [hgb, Sl.nil]
      simp only [hb]
      have hx' : DefaultWriter_acquire (fun _ c => a.fresh m.next c) fuel g (slen bs) = .ok g1 := hx
      refine ⟨g1, ?_, hs1⟩
      have hw0 : wrap .i64 0 = 0 := by decide
      have hb0 : bs.len = 0 := hk0
      have hx0 := hx
      rw [hb0] at hx0
      simp only [Int.natCast_zero] at hx0
      obtain ⟨b1, p1, w1, e1, st1, d1⟩ := g1
      simp only [] at hgb
      subst hgb
      simp [-Out.bind_ok, bind_ok_nr, hge, hx0, sslice, putBack, copySl, slen, scap, Sl.nil, hw0, hb0]

/-! ## Flush -/

/-- one round of the stitching loop `offset += copy(w.buf[offset:], oldBuf[offset:])` on slices -/
theorem stitch_step (b old : Sl) (off : Nat) (hlen : b.len ≤ b.mem.length) (hcap : b.mem.length ≤ 2 ^ 45)
    (hoff : off ≤ b.len) (hol : off ≤ old.len) (hold : old.len ≤ old.mem.length) :
    let k := min (b.len - off) (old.len - off)
    let t2 : Sl := { b with mem := b.mem.drop off, len := b.len - off }
    let t4 : Sl := { old with mem := old.mem.drop off, len := old.len - off }
    ssliceFrom b (off : Int) = .ok t2 ∧ ssliceFrom old (off : Int) = .ok t4 ∧
    putBack b (off : Int) (copySl t2 t4).1 = ⟨b.mem.take off ++ (old.mem.drop off).take k ++ b.mem.drop (off + k), b.len, b.nonnil⟩ ∧
    wrap .i64 ((off : Int) + (copySl t2 t4).2) = ((off + k : Nat) : Int) := by
  intro k t2 t4
  have hk1 : k ≤ b.len - off := Nat.min_le_left _ _
  have hk2 : k ≤ old.len - off := Nat.min_le_right _ _
  refine ⟨?_, ?_, ?_, ?_⟩
  · unfold ssliceFrom; rw [sslice_ok _ _ _ (by omega) (by simp [slen]; omega) (by simp [slen, scap]; omega)]; simp [slen, t2]
  · unfold ssliceFrom; rw [sslice_ok _ _ _ (by omega) (by simp [slen]; omega) (by simp [slen, scap]; omega)]; simp [slen, t4]
  · simp only [putBack, copySl, t2, t4, Int.toNat_natCast]
    have e1 : min (b.len - off) (old.len - off) = k := rfl
    simp only [e1]
    simp [List.drop_drop]
    have : off + (min k (old.mem.length - off) + (b.mem.length - off - k)) = b.mem.length := by omega
    simp [this]
    omega
  · simp only [copySl, t2, t4]
    rw [wrap_i64_id] <;> omega

/-- the type of the stitching loop of Flush: the parked slices, the variables it assigns (the receiver, `offset`) -/
abbrev FlushLoopT := List Sl → S_DefaultWriter WSink → Int → GM (S_DefaultWriter WSink × Int)

/-- one round of the stitching loop `offset += copy(w.buf[offset:], oldBuf[offset:])` in normal form: what ANY function
    must satisfy to be that loop (shown for the generated loop function by `flush_step` at the use site) -/
def FlushStep (L : FlushLoopT) : Prop :=
  (∀ g off, L [] g off = .ok (g, off)) ∧
  (∀ (p : Sl) (ps : List Sl) (g : S_DefaultWriter WSink) (off : Nat), g.buf.len ≤ g.buf.mem.length →
    g.buf.mem.length ≤ 2 ^ 45 → off ≤ g.buf.len → p.len ≤ p.mem.length →
    L (p :: ps) g (off : Int) =
      if off > p.len then .panic "slice"
      else L ps { g with buf := ⟨g.buf.mem.take off ++ (p.mem.drop off).take (min (g.buf.len - off) (p.len - off)) ++
                                  g.buf.mem.drop (off + min (g.buf.len - off) (p.len - off)), g.buf.len, g.buf.nonnil⟩ }
             ((off + min (g.buf.len - off) (p.len - off) : Nat) : Int))

/-- a function that satisfies `FlushStep` by definition (used to speak about `stitch`'s heap without a generated name) -/
def flushRef : FlushLoopT
  | [], g, off => .ok (g, off)
  | p :: ps, g, off =>
    if off.toNat > p.len then .panic "slice"
    else flushRef ps { g with buf := ⟨g.buf.mem.take off.toNat ++
          (p.mem.drop off.toNat).take (min (g.buf.len - off.toNat) (p.len - off.toNat)) ++
          g.buf.mem.drop (off.toNat + min (g.buf.len - off.toNat) (p.len - off.toNat)), g.buf.len, g.buf.nonnil⟩ }
        ((off.toNat + min (g.buf.len - off.toNat) (p.len - off.toNat) : Nat) : Int)

theorem flushRef_step : FlushStep flushRef :=
  ⟨fun _ _ => rfl, fun p ps g off _ _ _ _ => by rw [flushRef]; simp⟩

/-- proves `FlushStep (the generated stitching loop)` -/
macro "flush_step" : tactic => `(tactic| (
  refine ⟨fun g off => by rw [DefaultWriter_Flush_loop1]; rfl, ?_⟩
  intro p ps g off hlen hcap hoff hpl
  rw [DefaultWriter_Flush_loop1]
  by_cases hol : off > p.len
  · have h1 : ssliceFrom g.buf (off : Int) = .ok { g.buf with mem := g.buf.mem.drop off, len := g.buf.len - off } := by
      unfold ssliceFrom
      rw [sslice_ok _ _ _ (by omega) (by simp [slen]; omega) (by simp [slen, scap]; omega)]
      simp [slen]
    have h2 : ssliceFrom p (off : Int) = .panic "slice" := by
      unfold ssliceFrom sslice
      have c1 : ¬ (slen p < 0 ∨ slen p > scap p) := by simp [slen, scap]; omega
      have c2 : ((off : Int) < 0 ∨ (off : Int) > slen p) := by right; simp [slen]; omega
      simp [c1, c2]
    simp [hol, h1, h2]
  · obtain ⟨s1, s2, s3, s4⟩ := stitch_step g.buf p off hlen hcap hoff (by omega) hpl
    have s4' : wrap .i64 ((copySl { g.buf with mem := g.buf.mem.drop off, len := g.buf.len - off }
        { p with mem := p.mem.drop off, len := p.len - off }).2 + (off : Int))
        = ((off + min (g.buf.len - off) (p.len - off) : Nat) : Int) := by
      rw [Int.add_comm]; exact s4
    simp [-Out.bind_ok, bind_ok_nr, hol, s1, s2, s3, s4, s4']))

/-- the stitching loop of Flush is the model's `stitch` on the heap (panics included) -/
theorem flush_loop (L : FlushLoopT) (hL : FlushStep L) (v : WView) (hvc : v.cap ≤ 2 ^ 45) (hvl : v.len ≤ v.cap) :
    ∀ (ps : List Sl) (mp : List (Nat × Nat)) (heap : Nat → Bytes) (g : S_DefaultWriter WSink) (off : Nat),
      ps.map (fun p => (p.len, p.mem)) = mp.map (fun ol => (ol.2, heap ol.1)) →
      g.buf = ⟨heap v.obj, v.len, true⟩ → (heap v.obj).length = v.cap → off ≤ v.len →
      (∀ ol ∈ mp, ol.1 ≠ v.obj ∧ ol.2 ≤ (heap ol.1).length) →
      match stitch v heap mp off with
      | .ok (heap1, off1) =>
          L ps g (off : Int) = .ok ({ g with buf := ⟨heap1 v.obj, v.len, true⟩ }, (off1 : Int)) ∧
          (heap1 v.obj).length = v.cap ∧ (∀ o, o ≠ v.obj → heap1 o = heap o)
      | .panic s => L ps g (off : Int) = .panic s
      | _ => True := by
  intro ps
  induction ps with
  | nil =>
    intro mp heap g off hmap hgb hhl hoff hmp
    have : mp = [] := by cases mp with
      | nil => rfl
      | cons a as => simp at hmap
    subst this
    simp only [stitch]
    refine ⟨?_, hhl, by simp⟩
    rw [hL.1, ← hgb]
  | cons p ps ih =>
    intro mp heap g off hmap hgb hhl hoff hmp
    cases mp with
    | nil => simp at hmap
    | cons ol mp =>
      obtain ⟨o, l⟩ := ol
      simp only [List.map_cons, List.cons.injEq, Prod.mk.injEq] at hmap
      obtain ⟨⟨hpl, hpm⟩, hrest⟩ := hmap
      obtain ⟨hne, hll⟩ := hmp (o, l) (by simp)
      simp only [] at hne hll hpl hpm
      have hoff' : ¬ off > v.len := by omega
      have hstep := hL.2 p ps g off (by simp [hgb, hhl]; omega) (by simp [hgb, hhl]; omega) (by simp [hgb]; omega)
        (by rw [hpl, hpm]; omega)
      simp only [hgb, hpl, hpm] at hstep
      unfold stitch
      simp only [hoff', if_false]
      by_cases hol : off > l
      · -- `oldBuf[offset:]` panics
        simp only [hol, if_true] at hstep ⊢
        exact hstep
      · simp only [hol, if_false] at hstep ⊢
        generalize hk : min (v.len - off) (l - off) = k at *
        have hk1 : k ≤ v.len - off := by subst hk; exact Nat.min_le_left _ _
        have hk2 : k ≤ l - off := by subst hk; exact Nat.min_le_right _ _
        -- the bytes the model stores are the bytes `copy` moves
        have hbs : (gslice (heap o) off l).take k = ((heap o).drop off).take k := by
          simp [gslice, List.drop_take, List.take_take, Nat.min_eq_left hk2]
        have hbl : (((heap o).drop off).take k).length = k := by simp; omega
        have hnew : hwrite heap v.obj off ((gslice (heap o) off l).take k) v.obj
            = (heap v.obj).take off ++ ((heap o).drop off).take k ++ (heap v.obj).drop (off + k) := by
          rw [hwrite_apply]; simp [WLog.overwrite, hbs, hbl]
        have hih := ih mp (hwrite heap v.obj off ((gslice (heap o) off l).take k))
          { g with buf := ⟨(heap v.obj).take off ++ ((heap o).drop off).take k ++ (heap v.obj).drop (off + k), v.len, true⟩ }
          (off + k) (by
            rw [hrest]
            apply List.map_congr_left
            intro ol hol'
            rw [hwrite_other _ _ _ _ _ (hmp ol (by simp [hol'])).1]) (by rw [hnew]) (by
            rw [hnew]; simp; omega) (by omega) (by
            intro ol hol'
            have := hmp ol (by simp [hol'])
            rw [hwrite_other _ _ _ _ _ this.1]; exact this)
        rw [hstep]
        generalize stitch v (hwrite heap v.obj off ((gslice (heap o) off l).take k)) mp (off + k) = res at hih ⊢
        cases res with
        | ok r =>
          obtain ⟨h1, o1⟩ := r
          obtain ⟨q1, q2, q3⟩ := hih
          exact ⟨by simpa using q1, q2, fun o' ho' => by rw [q3 o' ho', hwrite_other _ _ _ _ _ ho']⟩
        | panic s => simpa using hih
        | err e => trivial
        | oob => trivial

theorem stitch_ok_or_panic (v : WView) : ∀ (mp : List (Nat × Nat)) (heap : Nat → Bytes) (off : Nat),
    (∃ r, stitch v heap mp off = .ok r) ∨ (∃ s, stitch v heap mp off = .panic s) := by
  intro mp
  induction mp with
  | nil => intro heap off; exact Or.inl ⟨_, rfl⟩
  | cons ol mp ih =>
    intro heap off
    obtain ⟨o, l⟩ := ol
    unfold stitch
    split
    · exact Or.inr ⟨_, rfl⟩
    · split
      · exact Or.inr ⟨_, rfl⟩
      · exact ih _ _

theorem flush_free_loop (W : IoWriter WSink) (l : List Sl) : DefaultWriter_Flush_loop2 W l = .ok () := by
  induction l with
  | nil => rfl
  | cons x xs ih => simp [DefaultWriter_Flush_loop2, ih]

/-- the state after a successful Flush: statistics updated, everything released -/
theorem flush_done_wsim (g : S_DefaultWriter WSink) (m m' : Wr) (c : Nat) (sink' : WSink) (hs : WSim g m)
    (_hi : m.statsIdx < Facts.statsBucketNum) (he : m.err = none)
    (h1 : m'.buf = none) (h2 : m'.pending = []) (h3 : m'.err = none) (h4 : m'.disableCache = m.disableCache)
    (h5 : m'.stats = listSet m.stats m.statsIdx c) (h6 : m'.statsIdx = (m.statsIdx + 1) % Facts.statsBucketNum)
    (h7 : m'.sink = sink') :
    WSim { g with wd := some sink', buf := Sl.nil, pendingBuf := none,
                  maxSizeStats := { buckets := g.maxSizeStats.buckets.set g.maxSizeStats.bucketIdx.toNat (c : Int),
                                    bucketIdx := ((g.maxSizeStats.bucketIdx.toNat + 1) % Facts.statsBucketNum : Nat) } } m' := by
  have hidx := hs.idx
  have hid : m.statsIdx = g.maxSizeStats.bucketIdx.toNat := by omega
  refine ⟨fun _ => rfl, by intro v hv; simp [h1] at hv, by simp [h2, rangeSl], by rw [h3, ← he]; exact hs.err,
    by rw [h4]; exact hs.dc, ?_, ?_, ?_, by rw [h7]⟩
  · simp [h5, listSet, hs.stats, List.map_set, hid]
  · intro x hx
    rcases List.mem_or_eq_of_mem_set hx with h | h
    · exact hs.stats_nonneg x h
    · subst h; omega
  · simp [h6, hid]

/-- the result of a generated `Flush` against the model's -/
def FlushOK (x : GM (S_DefaultWriter WSink × Err)) (y : Out RErr Unit × Wr) : Prop :=
  match y.1 with
  | .ok _ => ∃ g', x = .ok (g', Err.nil) ∧ WSim g' y.2
  | .err e => ∃ g', x = .ok (g', errCon (some e)) ∧ WSim g' y.2
  | .panic s => x = .panic s
  | .oob => True

theorem DefaultWriter_Flush_sim (g : S_DefaultWriter WSink) (m : Wr) (hs : WSim g m) (hw : WInv m)
    (hcap : m.bufCap ≤ 2 ^ 45) :
    FlushOK (DefaultWriter_Flush (sinkWriter m.disableCache) g) m.flush := by
  unfold DefaultWriter_Flush Wr.flush FlushOK
  cases he : m.err with
  | some e =>
    have hge : errCon (some e) ≠ Err.nil := by cases e <;> simp [errCon]
    simp only [he]
    exact ⟨g, by simp [hge, hs.err, he], hs⟩
  | none =>
    have hge : g.err = Err.nil := by rw [hs.err, he]; rfl
    simp only [he]
    cases hb : m.buf with
    | none =>
      have hgb := hs.buf_none hb
      simp only []
      exact ⟨g, by simp [hge, hgb, Sl.isNil, Sl.nil], ⟨fun _ => hgb, by intro v hv; simp at hv, hs.pend, by rw [hs.err, he], hs.dc,
        hs.stats, hs.stats_nonneg, hs.idx, hs.sink⟩⟩
    | some v =>
      have hgb := hs.buf_some v hb
      have hok := hw.buf_ok v hb
      have hvc : v.cap ≤ 2 ^ 45 := by simpa [Wr.bufCap, hb] using hcap
      have hl := flush_loop flushRef flushRef_step v hvc hok.len_le_cap (rangeSl g.pendingBuf) m.pending m.heap g 0
        hs.pend hgb hok.heap_len (Nat.zero_le _) (fun ol hol => ⟨hok.pend_ne ol hol, hok.pend_len ol hol⟩)
      have hnn : Sl.isNil g.buf = false := by simp [hgb, Sl.isNil]
      have hbl : g.maxSizeStats.buckets.length = Facts.statsBucketNum := by
        have := congrArg List.length hs.stats; simp at this; rw [← this]; exact hw.stats_len
      have hidx := hs.idx
      have hidx2 := hw.stats_idx
      have eU := maxSizeStats_update_eq g.maxSizeStats (v.cap : Int) hbl (by omega)
        (by simp [Facts.statsBucketNum] at hidx2; omega)
      simp only []
      rcases stitch_ok_or_panic v m.pending m.heap 0 with ⟨⟨heap1, off1⟩, hst⟩ | ⟨s, hst⟩
      · -- the stitching loop followed by the rest of Flush — whatever the generated loop function is called with
        have hloop : ∀ (L : FlushLoopT) (K : S_DefaultWriter WSink × Int → GM (S_DefaultWriter WSink × Err)), FlushStep L →
            (L (rangeSl g.pendingBuf) g 0).bind K = K ({ g with buf := ⟨heap1 v.obj, v.len, true⟩ }, (off1 : Int)) := by
          intro L K hL
          have h := flush_loop L hL v hvc hok.len_le_cap (rangeSl g.pendingBuf) m.pending m.heap g 0
            hs.pend hgb hok.heap_len (Nat.zero_le _) (fun ol hol => ⟨hok.pend_ne ol hol, hok.pend_len ol hol⟩)
          rw [hst] at h; simp only [Int.natCast_zero] at h; rw [h.1]; rfl
        rw [hst] at hl ⊢
        obtain ⟨_, l2, l3⟩ := hl
        have hdata : gslice (heap1 v.obj) 0 v.len = (heap1 v.obj).take v.len := by simp [gslice]
        have hpend1 : (rangeSl g.pendingBuf).map (fun p => (p.len, p.mem)) = m.pending.map (fun ol => (ol.2, heap1 ol.1)) := by
          rw [hs.pend]
          apply List.map_congr_left
          intro ol hol
          rw [l3 _ (hok.pend_ne ol hol)]
        simp only [Wr.sinkWrite, hdata]
        cases hdc : m.disableCache
        · -- a real sink: its k-th call may fail
          simp only [Bool.false_eq_true, if_false]
          cases hf : m.sink.fail (m.sink.calls.length + 1) with
          | some e =>
            have hge' : errCon (some e) ≠ Err.nil := by cases e <;> simp [errCon]
            simp only []
            refine ⟨_, by
              simp [-Out.bind_ok, bind_ok_nr, hge, hnn]
              rw [hloop]
              rotate_left
              · flush_step
              simp [-Out.bind_ok, bind_ok_nr, hge, hs.sink, ifaceGet, ioWrite, sinkWriter, Sl.data, hf, hge']; rfl, ?_⟩
            exact ⟨by simp [hb], by intro v' hv'; simp [hb] at hv'; subst hv'; rfl, hpend1, rfl, by simpa [hdc] using hs.dc,
              hs.stats, hs.stats_nonneg, hs.idx, rfl⟩
          | none =>
            simp only []
            refine ⟨{ g with wd := some ⟨m.sink.calls ++ [((heap1 v.obj).take v.len, none)], m.sink.fail⟩, buf := Sl.nil, pendingBuf := none, maxSizeStats := ⟨g.maxSizeStats.buckets.set g.maxSizeStats.bucketIdx.toNat (v.cap : Int), ((g.maxSizeStats.bucketIdx.toNat + 1) % Facts.statsBucketNum : Nat)⟩ }, by
              simp [-Out.bind_ok, bind_ok_nr, hge, hnn]
              rw [hloop]
              rotate_left
              · flush_step
              simp [-Out.bind_ok, bind_ok_nr, hge, hs.sink, ifaceGet, ioWrite, sinkWriter, Sl.data, hf, errCon, scap, l2, eU,
                flush_free_loop], ?_⟩
            refine flush_done_wsim g m _ v.cap _ hs hw.stats_idx he ?_ ?_ ?_ ?_ ?_ ?_ ?_ <;> first | rfl | exact hdc.symm
        · -- a BytesWriter: the fake io.Writer records the slice and never fails
          simp only [if_true]
          refine ⟨{ g with wd := some ⟨m.sink.calls ++ [((heap1 v.obj).take v.len, none)], m.sink.fail⟩, buf := Sl.nil, pendingBuf := none, maxSizeStats := ⟨g.maxSizeStats.buckets.set g.maxSizeStats.bucketIdx.toNat (v.cap : Int), ((g.maxSizeStats.bucketIdx.toNat + 1) % Facts.statsBucketNum : Nat)⟩ }, by
            simp [-Out.bind_ok, bind_ok_nr, hge, hnn]
            rw [hloop]
            rotate_left
            · flush_step
            simp [-Out.bind_ok, bind_ok_nr, hge, hs.sink, ifaceGet, ioWrite, sinkWriter, Sl.data, errCon, scap, l2, eU,
              flush_free_loop], ?_⟩
          refine flush_done_wsim g m _ v.cap _ hs hw.stats_idx he ?_ ?_ ?_ ?_ ?_ ?_ ?_ <;> first | rfl | exact hdc.symm
      · have hloop : ∀ (L : FlushLoopT) (K : S_DefaultWriter WSink × Int → GM (S_DefaultWriter WSink × Err)), FlushStep L →
            (L (rangeSl g.pendingBuf) g 0).bind K = .panic s := by
          intro L K hL
          have h := flush_loop L hL v hvc hok.len_le_cap (rangeSl g.pendingBuf) m.pending m.heap g 0
            hs.pend hgb hok.heap_len (Nat.zero_le _) (fun ol hol => ⟨hok.pend_ne ol hol, hok.pend_len ol hol⟩)
          rw [hst] at h; simp only [Int.natCast_zero] at h; rw [h]; rfl
        rw [hst]
        simp [-Out.bind_ok, bind_ok_nr, hge, hnn]
        rw [hloop]
        flush_step

/-- `NewDefaultWriter(wd)` is the model's `Wr.newDefault` -/
theorem NewDefaultWriter_eq (fail : Nat → Option RErr) :
    ∃ g0, NewDefaultWriter (some (⟨[], fail⟩ : WSink)) = .ok g0 ∧ WSim g0 (Wr.newDefault fail) := by
  refine ⟨{ wd := some ⟨[], fail⟩ }, by simp [NewDefaultWriter, DefaultWriter_reset, Sl.nil], ?_⟩
  refine ⟨fun _ => rfl, by intro v hv; simp [Wr.newDefault] at hv, by simp [Wr.newDefault, rangeSl], rfl, rfl, ?_, ?_, rfl, rfl⟩
  · simp [Wr.newDefault, emptyStats, Facts.statsBucketNum]
  · intro x hx; simp at hx; omega

/-! ## the generated writer runs: growth with delayed copy, a failing sink -/

/-- a writer that owns an empty 4-byte buffer -/
def exW (fail : Nat → Option RErr) : S_DefaultWriter WSink := { buf := ⟨List.replicate 4 0, 0, true⟩, wd := some ⟨[], fail⟩ }

/-- what `exWrite` reports (a structure: instance search for a five-fold product is too deep) -/
structure ExW where
  n1 : Int
  n2 : Int
  err : Err
  calls : List (Bytes × Err)
  bufNil : Bool
deriving DecidableEq

/-- WriteBinary(b1), WriteBinary(b2), Flush: the two counts, the error, what the sink saw, `w.buf == nil` afterwards -/
def exWrite (fail : Nat → Option RErr) (b1 b2 : Bytes) : GM ExW := do
  let r1 ← DefaultWriter_WriteBinary exO 100 (exW fail) (Sl.ofBytes b1)
  let r2 ← DefaultWriter_WriteBinary exO 100 r1.1 (Sl.ofBytes b2)
  let r3 ← DefaultWriter_Flush (sinkWriter false) r2.1
  pure ⟨r1.2.1, r2.2.1, r3.2, ((r3.1.wd.map (·.calls)).getD []).map (fun c => (c.1, errCon c.2)), r3.1.buf.isNil⟩

-- the second write does not fit: a new 8-byte buffer, the old one is parked and stitched in by Flush; ONE Write
example : exWrite (fun _ => none) [1, 2] [3, 4, 5, 6, 7] =
    .ok ⟨2, 5, Err.nil, [([1, 2, 3, 4, 5, 6, 7], Err.nil)], true⟩ := by decide +kernel

-- the sink fails: Flush returns its error and keeps the buffer
example : exWrite (fun k => if k = 1 then some (.src 7) else none) [1, 2] [3] =
    .ok ⟨2, 1, Err.src 7, [([1, 2, 3], Err.src 7)], false⟩ := by decide +kernel

-- Malloc: a negative count is refused; Malloc(3) hands out 3 bytes of the 4-byte buffer (cap 4)
example : (do let r ← DefaultWriter_Malloc exO 100 (exW (fun _ => none)) (-1); pure (r.2.1.len, r.2.2)) =
    .ok (0, Err.negCount) := by decide +kernel
example : (do let r ← DefaultWriter_Malloc exO 100 (exW (fun _ => none)) 3
              pure (r.2.1.len, scap r.2.1, r.2.2, slen r.1.buf)) = .ok (3, 4, Err.nil, 3) := by decide +kernel

end Verif.BufioxEq

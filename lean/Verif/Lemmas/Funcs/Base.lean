/-
  Lemmas/Funcs/Base: shared definitions and arithmetic lemmas for the equivalence theorems between the
  functions TRANSLATED from the Go source on every run (`Verif.Gen.Funcs`, namespace `Verif.Funcs`) and the
  hand-written model functions that the property theorems are about.

  Conventions
  * `absErr` maps the Go error values of a translated function to the models' canonical `TErr`
    (a package-level `NewProtocolException(id, msg)` value is `pe id`: the text is only compared in C18).
  * `liftRd` turns the result `(v, l, err)` of a translated reader into the models' `BOut (α × Nat)`:
    `ok (v, l)` when `err == nil`, `err (absErr err, l)` otherwise (the models keep the partial length that Go returns
    next to an error); panics are carried over with their kind.
  * `liftW` turns the result `(whole', n)` of a translated in-place writer over the view `(whole, off)` into the models'
    `TOut (Bytes × Nat)`.
  * Go integer arguments are `Int`s in the range of their static type: the theorems carry `InRange t x` hypotheses for
    them (a typing invariant of every Go caller, not a restriction).
-/
import Verif.Gen.Funcs
import Verif.Model.Wire
namespace Verif.FuncsEq
open Verif Verif.GoSem

/-- the models' canonical error for a Go error value produced by a translated function -/
def absErr : GoErr → TErr
  | .pe id _ => .pe id
  | .nil => .pe 0
  | .named _ => .pe 0

/-- result of a translated buffer reader `(v, l, err)` as the models' `BOut` -/
def liftRd {α : Type} (x : GM (α × Int × GoErr)) : Wire.BOut (α × Nat) :=
  match x with
  | .ok r => if r.2.2 = .nil then .ok (r.1, r.2.1.toNat) else .err (absErr r.2.2, r.2.1.toNat)
  | .panic s => .panic s
  | .oob => .oob
  | .err e => nomatch e

/-- result of a translated in-place writer `(whole', n)` as the models' `TOut` -/
def liftW (x : GM (Bytes × Int)) : TOut (Bytes × Nat) :=
  match x with
  | .ok r => .ok (r.1, r.2.toNat)
  | .panic s => .panic s
  | .oob => .oob
  | .err e => nomatch e

/-- a translated function that cannot fail with an error value, as a model outcome over any error type -/
def liftP {ε α : Type} (x : GM α) : Out ε α :=
  match x with
  | .ok r => .ok r
  | .panic s => .panic s
  | .oob => .oob
  | .err e => nomatch e

/-! ## `wrap` against the models' signed views and `ofInt` -/

theorem emod_cast (n : Nat) (m : Nat) (h : n < m) : ((n : Int) % (m : Int)) = n :=
  Int.emod_eq_of_lt (by omega) (by omega)

theorem wrap_i8_nat (n : Nat) (h : n < 256) : wrap .i8 (n : Int) = toI8 n := by
  simp only [wrap, toU, IT.bits, IT.signed, toI8]
  simp; split <;> split <;> omega

theorem wrap_i16_nat (n : Nat) (h : n < 65536) : wrap .i16 (n : Int) = toI16 n := by
  simp only [wrap, toU, IT.bits, IT.signed, toI16]
  simp; split <;> split <;> omega

theorem wrap_i32_nat (n : Nat) (h : n < 4294967296) : wrap .i32 (n : Int) = toI32 n := by
  simp only [wrap, toU, IT.bits, IT.signed, toI32]
  simp; split <;> split <;> omega

theorem wrap_i64_nat (n : Nat) (h : n < 18446744073709551616) : wrap .i64 (n : Int) = toI64 n := by
  simp only [wrap, toU, IT.bits, IT.signed, toI64]
  simp; split <;> split <;> omega

/-- wrapping to an unsigned type is the models' `ofInt` -/
theorem wrap_u8 (x : Int) : wrap .u8 x = (ofInt 8 x : Nat) := by
  simp only [wrap, toU, IT.bits, IT.signed, ofInt]
  have : 0 ≤ x % ((2 ^ 8 : Nat) : Int) := Int.emod_nonneg _ (by decide)
  simp; omega
theorem wrap_u16 (x : Int) : wrap .u16 x = (ofInt 16 x : Nat) := by
  simp only [wrap, toU, IT.bits, IT.signed, ofInt]
  have : 0 ≤ x % ((2 ^ 16 : Nat) : Int) := Int.emod_nonneg _ (by decide)
  simp; omega
theorem wrap_u32 (x : Int) : wrap .u32 x = (ofInt 32 x : Nat) := by
  simp only [wrap, toU, IT.bits, IT.signed, ofInt]
  have : 0 ≤ x % ((2 ^ 32 : Nat) : Int) := Int.emod_nonneg _ (by decide)
  simp; omega
theorem wrap_u64 (x : Int) : wrap .u64 x = (ofInt 64 x : Nat) := by
  simp only [wrap, toU, IT.bits, IT.signed, ofInt]
  have : 0 ≤ x % ((2 ^ 64 : Nat) : Int) := Int.emod_nonneg _ (by decide)
  simp; omega

/-- a value already in the range of `t` is unchanged by `wrap t` -/
theorem wrap_i64_of_range (x : Int) (h0 : -9223372036854775808 ≤ x) (h1 : x < 9223372036854775808) :
    wrap .i64 x = x := by
  simp only [wrap, toU, IT.bits, IT.signed]
  simp
  split <;> omega

theorem wrap_i32_of_range (x : Int) (h0 : -2147483648 ≤ x) (h1 : x < 2147483648) : wrap .i32 x = x := by
  simp only [wrap, toU, IT.bits, IT.signed]
  simp
  split <;> omega

theorem toU_ofInt (bits : Nat) (x : Int) : toU bits x = (ofInt bits x : Nat) := by
  unfold toU ofInt
  have : 0 ≤ x % ((2 ^ bits : Nat) : Int) := Int.emod_nonneg _ (by have := Nat.two_pow_pos bits; omega)
  omega

theorem byteOf_eq (x : Int) : byteOf x = UInt8.ofNat (ofInt 8 x) := by
  unfold byteOf; rw [toU_ofInt]; simp

end Verif.FuncsEq

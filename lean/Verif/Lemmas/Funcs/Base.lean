/-
  Lemmas/Funcs/Base: shared definitions and arithmetic lemmas for the equivalence theorems between the
  functions TRANSLATED from the Go source on every run (`Verif.Gen.Funcs`, namespace `Verif.Funcs`) and the
  hand-written model functions that the property theorems are about.

  Conventions
  * `absErr` maps the Go error values of a translated function to the models' canonical `TErr`
    (a package-level `NewProtocolException(id, msg)` value is `pe id`: the text is only compared in C18).
  * `liftRd` turns the result `(v, l, err)` of a translated reader into the models' `BOut (α × Nat)`:
    `ok (v, l)` when `err == nil`, `err (absErr err, l)` otherwise (the models keep the partial length that Go returns
    next to an error); panics are carried over with their kind.
  * `liftW` turns the result `(whole', n)` of a translated in-place writer over the view `(whole, off)` into the models'
    `TOut (Bytes × Nat)`.
  * Go integer arguments are `Int`s in the range of their static type: the theorems carry `InRange t x` hypotheses for
    them (a typing invariant of every Go caller, not a restriction).
-/
import Verif.Gen.Funcs
import Verif.Model.Wire
namespace Verif.FuncsEq
open Verif Verif.GoSem

/-- the models' canonical error for a Go error value produced by a translated function -/
def absErr : GoErr → TErr
  | .pe id _ => .pe id
  | .nil => .pe 0
  | .named _ => .pe 0

/-- result of a translated buffer reader `(v, l, err)` as the models' `BOut` -/
def liftRd {α : Type} (x : GM (α × Int × GoErr)) : Wire.BOut (α × Nat) :=
  match x with
  | .ok r => if r.2.2 = .nil then .ok (r.1, r.2.1.toNat) else .err (absErr r.2.2, r.2.1.toNat)
  | .panic s => .panic s
  | .oob => .oob
  | .err e => nomatch e

/-- result of a translated in-place writer `(whole', n)` as the models' `TOut` -/
def liftW (x : GM (Bytes × Int)) : TOut (Bytes × Nat) :=
  match x with
  | .ok r => .ok (r.1, r.2.toNat)
  | .panic s => .panic s
  | .oob => .oob
  | .err e => nomatch e

/-- a translated function that cannot fail with an error value, as a model outcome over any error type -/
def liftP {ε α : Type} (x : GM α) : Out ε α :=
  match x with
  | .ok r => .ok r
  | .panic s => .panic s
  | .oob => .oob
  | .err e => nomatch e

/-! ## `wrap` against the models' signed views and `ofInt` -/

theorem emod_cast (n : Nat) (m : Nat) (h : n < m) : ((n : Int) % (m : Int)) = n :=
  Int.emod_eq_of_lt (by omega) (by omega)

theorem wrap_i8_nat (n : Nat) (h : n < 256) : wrap .i8 (n : Int) = toI8 n := by
  simp only [wrap, toU, IT.bits, IT.signed, toI8]
  simp; split <;> split <;> omega

theorem wrap_i16_nat (n : Nat) (h : n < 65536) : wrap .i16 (n : Int) = toI16 n := by
  simp only [wrap, toU, IT.bits, IT.signed, toI16]
  simp; split <;> split <;> omega

theorem wrap_i32_nat (n : Nat) (h : n < 4294967296) : wrap .i32 (n : Int) = toI32 n := by
  simp only [wrap, toU, IT.bits, IT.signed, toI32]
  simp; split <;> split <;> omega

theorem wrap_i64_nat (n : Nat) (h : n < 18446744073709551616) : wrap .i64 (n : Int) = toI64 n := by
  simp only [wrap, toU, IT.bits, IT.signed, toI64]
  simp; split <;> split <;> omega

/-- wrapping to an unsigned type is the models' `ofInt` -/
theorem wrap_u8 (x : Int) : wrap .u8 x = (ofInt 8 x : Nat) := by
  simp only [wrap, toU, IT.bits, IT.signed, ofInt]
  have : 0 ≤ x % ((2 ^ 8 : Nat) : Int) := Int.emod_nonneg _ (by decide)
  simp; omega
theorem wrap_u16 (x : Int) : wrap .u16 x = (ofInt 16 x : Nat) := by
  simp only [wrap, toU, IT.bits, IT.signed, ofInt]
  have : 0 ≤ x % ((2 ^ 16 : Nat) : Int) := Int.emod_nonneg _ (by decide)
  simp; omega
theorem wrap_u32 (x : Int) : wrap .u32 x = (ofInt 32 x : Nat) := by
  simp only [wrap, toU, IT.bits, IT.signed, ofInt]
  have : 0 ≤ x % ((2 ^ 32 : Nat) : Int) := Int.emod_nonneg _ (by decide)
  simp; omega
theorem wrap_u64 (x : Int) : wrap .u64 x = (ofInt 64 x : Nat) := by
  simp only [wrap, toU, IT.bits, IT.signed, ofInt]
  have : 0 ≤ x % ((2 ^ 64 : Nat) : Int) := Int.emod_nonneg _ (by decide)
  simp; omega

/-- a value already in the range of `t` is unchanged by `wrap t` -/
theorem wrap_i64_of_range (x : Int) (h0 : -9223372036854775808 ≤ x) (h1 : x < 9223372036854775808) :
    wrap .i64 x = x := by
  simp only [wrap, toU, IT.bits, IT.signed]
  simp
  split <;> omega

theorem wrap_i32_of_range (x : Int) (h0 : -2147483648 ≤ x) (h1 : x < 2147483648) : wrap .i32 x = x := by
  simp only [wrap, toU, IT.bits, IT.signed]
  simp
  split <;> omega

theorem toU_ofInt (bits : Nat) (x : Int) : toU bits x = (ofInt bits x : Nat) := by
  unfold toU ofInt
  have : 0 ≤ x % ((2 ^ bits : Nat) : Int) := Int.emod_nonneg _ (by have := Nat.two_pow_pos bits; omega)
  omega

theorem byteOf_eq (x : Int) : byteOf x = UInt8.ofNat (ofInt 8 x) := by
  unfold byteOf; rw [toU_ofInt]; simp

/-! ## shape-robust simplification

  `go_simp [lemmas]` is `simp [lemmas]` in which every `if c then … else …` whose condition is linear arithmetic
  (over `Nat` lengths or their `Int` casts, in any syntactic form: `len b < 5`, `5 ≤ len b`, `¬ …`, `len b - off ≥ 1` …)
  is decided by `omega` from the hypotheses IN THE CONTEXT.  A proof therefore states its case split semantically
  (`by_cases h : b.length < 5`) and never refers to the position or the polarity of the guard in the generated
  definition: an inverted guard, a hoisted local or a commuted sum in the Go source leaves the proof unchanged.
  `omega` is also the discharger of every other conditional rewrite rule (`wrap_i64_of_range`, `idx_ok` …); closed side
  conditions such as `64 ≤ IT.bits .i64` are evaluated (`go_disch`).
  (`len` is unfolded with `unfold` first, not by `simp`: a guard is `decide (len b < 5) = true`, and `simp [len]` leaves
  the `Decidable` instance behind, after which `decide_eq_true_eq` no longer unifies.) -/

/-- the discharger of `go_simp`: linear arithmetic from the context, or a closed width comparison `64 ≤ IT.bits .i64` -/
macro "go_disch" : tactic => `(tactic| first | omega | (show _ ≤ IT.bits _; decide))

syntax "go_simp" (" [" Lean.Parser.Tactic.simpLemma,* "]")? : tactic
macro_rules
  | `(tactic| go_simp) =>
    `(tactic| (
      (try unfold len)
      simp (disch := go_disch) [if_pos, if_neg, Out.bind_ok, Out.bind_panic, Out.pure_eq, Out.bind_eq]))
  | `(tactic| go_simp [$ls,*]) =>
    `(tactic| (
      (try unfold len)
      simp (disch := go_disch) [if_pos, if_neg, Out.bind_ok, Out.bind_panic, Out.pure_eq, Out.bind_eq, $ls,*]))

/-- both readings of `ofInt`/`wrap` after a value-preserving round trip through another integer type of at least the
    same width (`uint64(int64(x))`, `int32(int64(x))` …): the low bits are unchanged -/
theorem toU_wrap (n : Nat) (t : IT) (x : Int) (h : n ≤ t.bits) : toU n (wrap t x) = toU n x := by
  have hd : ((2 ^ n : Nat) : Int) ∣ ((2 ^ t.bits : Nat) : Int) := by
    refine Int.natCast_dvd_natCast.mpr ?_
    exact Nat.pow_dvd_pow 2 h
  unfold wrap toU
  simp only
  split
  · rw [Int.sub_emod, Int.emod_emod_of_dvd _ hd, Int.emod_eq_zero_of_dvd hd]
    simp [Int.emod_emod_of_dvd]
  · exact Int.emod_emod_of_dvd _ hd

theorem ofInt_wrap (n : Nat) (t : IT) (x : Int) (h : n ≤ t.bits) : ofInt n (wrap t x) = ofInt n x := by
  have e := toU_wrap n t x h
  rw [toU_ofInt, toU_ofInt] at e
  omega

/-- a conversion after a conversion to a type at least as wide is the conversion itself -/
theorem wrap_congr_toU (t : IT) (x y : Int) (h : toU t.bits x = toU t.bits y) : wrap t x = wrap t y := by
  unfold wrap; simp only [h]

theorem wrap_wrap (t t' : IT) (x : Int) (h : t.bits ≤ t'.bits) : wrap t (wrap t' x) = wrap t x :=
  wrap_congr_toU t _ _ (toU_wrap t.bits t' x h)

theorem byteOf_wrap (t : IT) (x : Int) : byteOf (wrap t x) = byteOf x := by
  unfold byteOf
  rw [toU_wrap 8 t x (by cases t <;> decide)]

/-- closes `f a₁ … aₙ = f a₁' … aₙ'` where corresponding arguments are syntactically equal or arithmetically equal
    (`Nat`/`Int` expressions, `min` included): no dependence on how a sum is associated or ordered -/
macro "congr_omega" : tactic => `(tactic| repeat' (first | with_reducible rfl | omega | with_reducible congr 1))

end Verif.FuncsEq

/-
  Lemmas/Funcs/TTH2: the section readers of protocol/ttheader/decode.go (lines 136-256) that the translator
  (`extract/funcs.go`) turns into `Verif.Funcs.tth_readKVInfo`, `tth_readStrKVInfo`, `tth_readIntKVInfo`,
  `tth_readACLToken`, `tth_checkProtocolID` (and the loop functions `…_loop1`, recursive over a `fuel : Nat`) on every
  run ARE the hand-written model functions `TTH.readKVInfo`, `TTH.readStrKVInfo`, `TTH.readIntKVInfo`,
  `TTH.readACLToken`, `TTH.checkProtocolID` of `Verif.Model.TTHeader` that the decode property theorems are about.

  Representation
  * `map[string]string`: model `StrMap = List (Bytes × Bytes)`, translation `GoMap Bytes Bytes = Option (List …)`: the
    same entries (newest first); `map[uint16]string`: model keys are `Nat`, translated keys are `Int`: `imapG` / `imapM`
    convert the entries (`imapM (imapG m) = m`). The section readers are called with the NON-nil map `some (image of m)`.
  * the Go constant `GDPRToken` is `"…".toUTF8.toList` in the translation and `TTH.gdprKey` in the model:
    `gdprKey_utf8` proves them equal.

  Lifts (public statements)
  * `liftSec abs` / `liftSecH abs` : `(idx, info, [has,] err)` ↦ `DOut (Nat × M)`: `err == nil` ↦ `.ok (idx, abs info)`;
    ANY non-nil error ↦ `.err .section` — the error text is not part of the model — and the `has` flag and the
    index / map returned next to an error are ignored (reading decision 13: state after an error return is unspecified);
  * `liftMaps` : `(intKVMap, strKVMap, err)` of readKVInfo ↦ `DOut Maps`: the error
    `fmt.Errorf("invalid infoIDType[%#x]")` ↦ `.err .infoId`, every other non-nil error ↦ `.err .section`;
  * `liftChk` : the `error` of checkProtocolID ↦ `.ok (err == nil)`.
  Panics are carried over with their kind.

  Internally the proofs use EXACT specifications (`LoopSpec`, `SecSpecH`, `SecSpec3`: on success the translated index
  is the cast of the model's, the translated map is `some` of the image of the model's, plus progress bounds; on
  failure the error is non-nil and not the unknown-id error), because the lifts above forget what the next loop
  iteration needs. The utils are used through explicit-output lemmas `g_u8/g_u16/g_s2` (translation) and
  `m_u8/m_u16/m_s2` (model; derived from the sibling theorems `tth_Bytes2Uint8_eq`, `tth_Bytes2Uint16_eq`,
  `tth_ReadString2BLen_eq` of `Lemmas/Funcs/TTH`).

  Hypotheses
  * sizes: `b.length < 2^62` and `idx < 2^62` (the index is a Go `int`; the translation computes `idx + n` and
    `len(buf) - idx` in wrapped int64, the model in ℕ / ℤ);
  * fuel: `b.length - idx < fuel` (ℕ subtraction) — the model's own discipline (`decodeInfo` calls
    `readKVInfo info (info.length + 1) hdIdx`): every iteration of the `for {}` consumes ≥ 1 byte, and the counted
    loops inside a section, which the translation runs on the SAME (decremented) fuel, consume ≥ 4 bytes per entry,
    so neither side reports "nofuel" (`.err .nofuel` in the model, `.panic "nofuel"` in the translation). No extra
    fuel is needed for the inner loops.
-/
import Verif.Lemmas.Funcs.TTH
namespace Verif.FuncsEq
open Verif Verif.GoSem

/-! ## explicit outputs of the utils, translation (`g_…`) and model (`m_…`) -/

theorem g_u8 (b : Bytes) (off : Nat) (hb : b.length < 4611686018427387904) (ho : off < 4611686018427387904) :
    Funcs.tth_Bytes2Uint8 b (off : Int)
      = .ok (if off < b.length then (((b.getD off 0).toNat : Int), GoErr.nil) else (0, GoErr.named "io.EOF")) := by
  unfold Funcs.tth_Bytes2Uint8
  by_cases h : off < b.length
  · have h' : ¬ ((b.length : Int) - (off : Int) < 1) := by omega
    simp (disch := omega) [wrap_i64_id, len, h, h', idx_ok]
  · have h' : ((b.length : Int) - (off : Int) < 1) := by omega
    simp (disch := omega) [wrap_i64_id, len, h, h']

theorem m_u8 (b : Bytes) (off : Nat) (hb : b.length < 4611686018427387904) (ho : off < 4611686018427387904) :
    TTH.bytes2Uint8 b off = .ok (if off < b.length then some (b.getD off 0).toNat else none) := by
  rw [← tth_Bytes2Uint8_eq b off (by omega) (by omega), g_u8 b off hb ho]
  by_cases h : off < b.length <;> simp [h, liftEof, eofOut]

theorem g_u16 (b : Bytes) (off : Nat) (hb : b.length < 4611686018427387904) (ho : off < 4611686018427387904) :
    Funcs.tth_Bytes2Uint16 b (off : Int)
      = .ok (if off + 2 ≤ b.length then ((rd16 (b.drop off) : Int), GoErr.nil) else (0, GoErr.named "io.EOF")) := by
  unfold Funcs.tth_Bytes2Uint16
  by_cases h : off + 2 ≤ b.length
  · have h' : ¬ ((b.length : Int) - (off : Int) < 2) := by omega
    have h3 : ¬ (b.length - off < 2) := by omega
    simp (disch := omega) [wrap_i64_id, len, h, h', h3, sliceFrom_ok, beU16]
  · have h' : ((b.length : Int) - (off : Int) < 2) := by omega
    simp (disch := omega) [wrap_i64_id, len, h, h']

theorem m_u16 (b : Bytes) (off : Nat) (hb : b.length < 4611686018427387904) (ho : off < 4611686018427387904) :
    TTH.bytes2Uint16 b off = .ok (if off + 2 ≤ b.length then some (rd16 (b.drop off)) else none) := by
  rw [← tth_Bytes2Uint16_eq b off (by omega) (by omega), g_u16 b off hb ho]
  by_cases h : off + 2 ≤ b.length <;> simp [h, liftEof, eofOut]

/-- the string a 2-byte-length-prefixed read yields at `off` -/
def strAt (b : Bytes) (off : Nat) : Bytes := (b.drop (off + 2)).take (rd16 (b.drop off))
/-- the read at `off` is complete -/
def strFits (b : Bytes) (off : Nat) : Prop := off + 2 + rd16 (b.drop off) ≤ b.length
instance (b : Bytes) (off : Nat) : Decidable (strFits b off) :=
  inferInstanceAs (Decidable (off + 2 + rd16 (b.drop off) ≤ b.length))

theorem g_s2 (b : Bytes) (off : Nat) (hb : b.length < 4611686018427387904) (ho : off < 4611686018427387904) :
    Funcs.tth_ReadString2BLen b (off : Int)
      = .ok (if strFits b off then (strAt b off, ((rd16 (b.drop off) + 2 : Nat) : Int), GoErr.nil)
             else (([] : Bytes), 0, GoErr.named "io.EOF")) := by
  unfold Funcs.tth_ReadString2BLen
  rw [g_u16 b off hb ho]
  simp only [strFits, strAt]
  have hr := rd16_lt (b.drop off)
  by_cases h : off + 2 ≤ b.length
  · by_cases hs : off + 2 + rd16 (b.drop off) ≤ b.length
    · have hs' : ¬ ((b.length : Int) - ((off : Int) + 2) < ((rd16 (b.drop off) : Nat) : Int)) := by omega
      simp (disch := omega) [wrap_i64_id, len, h, hs, hs', slice_ok]
      congr 1 <;> omega
    · have hs' : ((b.length : Int) - ((off : Int) + 2) < ((rd16 (b.drop off) : Nat) : Int)) := by omega
      simp (disch := omega) [wrap_i64_id, len, h, hs, hs']
  · have hs : ¬ (off + 2 + rd16 (b.drop off) ≤ b.length) := by omega
    simp [h, hs]

theorem m_s2 (b : Bytes) (off : Nat) (hb : b.length < 4611686018427387904) (ho : off < 4611686018427387904) :
    TTH.readString2BLen b off
      = .ok (if strFits b off then some (strAt b off, rd16 (b.drop off) + 2) else none) := by
  rw [← tth_ReadString2BLen_eq b off (by omega) (by omega), g_s2 b off hb ho]
  by_cases h : strFits b off <;> simp [h, liftEofS, eofOut]
  omega

/-! ## the GDPRToken constant -/

theorem ba_toList_loop (bs : ByteArray) (i : Nat) (r : List UInt8) (h : i ≤ bs.size) :
    ByteArray.toList.loop bs i r = r.reverse ++ bs.data.toList.drop i := by
  have hsz : bs.data.toList.length = bs.size := Array.length_toList
  induction hk : bs.size - i generalizing i r with
  | zero =>
    rw [ByteArray.toList.loop]
    have : ¬ i < bs.size := by omega
    simp [this, List.drop_eq_nil_of_le (show bs.data.toList.length ≤ i by omega)]
  | succ k ih =>
    rw [ByteArray.toList.loop]
    have hlt : i < bs.size := by omega
    simp only [hlt, if_true]
    rw [ih (i+1) _ (by omega) (by omega)]
    have hl : i < bs.data.toList.length := by omega
    rw [List.drop_eq_getElem_cons hl]
    simp [ByteArray.get!, getElem!_pos, hlt]

theorem ba_toList (bs : ByteArray) : bs.toList = bs.data.toList := by
  simp [ByteArray.toList, ba_toList_loop]

/-- the translator's rendering of the Go constant `GDPRToken` is the model's `gdprKey` -/
theorem gdprKey_utf8 : ("RPC_TRANSIT_gdpr-token".toUTF8.toList : Bytes) = TTH.gdprKey := by
  rw [String.toUTF8, ← String.utf8Encode_toList, ba_toList]
  simp [TTH.gdprKey, Facts.ttGDPRToken, List.utf8Encode, String.utf8EncodeChar]

/-! ## errors, maps, and the counted loops -/

/-- the error of readKVInfo's `default:` case -/
def infoIdErr : GoErr := .named "fmt.Errorf:invalid infoIDType[%#x]"

/-- an error of a section reader: non-nil, and not the unknown-info-id error of readKVInfo -/
def SecErr (e : GoErr) : Prop := e ≠ .nil ∧ e ≠ infoIdErr
instance (e : GoErr) : Decidable (SecErr e) := inferInstanceAs (Decidable (_ ∧ _))

/-- model `IntMap` entries (keys `Nat`) as the entries of the translated `map[uint16]string` (keys `Int`) -/
def imapG (m : TTH.IntMap) : List (Int × Bytes) := m.map fun kv => ((kv.1 : Int), kv.2)
/-- and back -/
def imapM (g : List (Int × Bytes)) : TTH.IntMap := g.map fun kv => (kv.1.toNat, kv.2)

theorem imapM_imapG (m : TTH.IntMap) : imapM (imapG m) = m := by
  induction m with
  | nil => rfl
  | cons kv t ih =>
    simp only [imapG, imapM, List.map_cons, List.map_map] at ih ⊢
    rw [ih]; simp

/-- the loop made the enclosing function return a section error -/
def IsRetErr {G σ : Type} (x : GM (LoopR (Int × Option G × Bool × GoErr) σ)) : Prop :=
  match x with
  | .ok (.ret r) => SecErr r.2.2.2
  | _ => False

/-- a translated counted loop against the model's counted loop -/
def LoopSpec {G M : Type} (img : M → G) (K lo len : Nat)
    (x : GM (LoopR (Int × Option G × Bool × GoErr) (Int × Option G × Int))) (y : TTH.DOut (Nat × M)) : Prop :=
  match y with
  | .ok r => x = .ok (.done ((r.1 : Int), some (img r.2), (K : Int))) ∧ lo ≤ r.1 ∧ (lo ≤ len → r.1 ≤ len)
  | .err e => e = .section ∧ IsRetErr x
  | .panic _ => False
  | .oob => False

theorem LoopSpec.mono {G M : Type} {img : M → G} {K lo lo' len : Nat}
    {x : GM (LoopR (Int × Option G × Bool × GoErr) (Int × Option G × Int))} {y : TTH.DOut (Nat × M)}
    (h : LoopSpec img K lo' len x y) (h1 : lo ≤ lo') (h2 : lo ≤ len → lo' ≤ len) : LoopSpec img K lo len x y := by
  revert h
  unfold LoopSpec
  split
  · rintro ⟨a, b, c⟩
    exact ⟨a, by omega, fun hh => c (h2 hh)⟩
  all_goals exact id

theorem strLoop_spec (b : Bytes) (hb : b.length < 4611686018427387904) (K : Nat) (hK : K < 65536) :
    ∀ (n fuel idx : Nat) (m : TTH.StrMap) (i : Nat), i + n = K → idx < 4611686018427387904 →
      b.length - idx < fuel →
      LoopSpec id K idx b.length (Funcs.tth_readStrKVInfo_loop1 b (K : Int) fuel (idx : Int) (some m) (i : Int))
        (TTH.readStrKVs b n idx m) := by
  intro n
  induction n with
  | zero =>
    intro fuel idx m i hi hidx hf
    cases fuel with
    | zero => omega
    | succ f =>
      have hiK : i = K := by omega
      simp [Funcs.tth_readStrKVInfo_loop1, TTH.readStrKVs, LoopSpec, hiK]
  | succ n ih =>
    intro fuel idx m i hi hidx hf
    cases fuel with
    | zero => omega
    | succ f =>
      have hlt : ((i : Int) < (K : Int)) := by omega
      rw [Funcs.tth_readStrKVInfo_loop1, TTH.readStrKVs, g_s2 b idx hb hidx, m_s2 b idx hb hidx]
      have hr := rd16_lt (b.drop idx)
      by_cases c1 : strFits b idx
      · have c1' := c1
        unfold strFits at c1'
        have e1 : wrap .i64 ((idx : Int) + ((rd16 (b.drop idx) + 2 : Nat) : Int))
            = ((idx + (rd16 (b.drop idx) + 2) : Nat) : Int) := by
          rw [wrap_i64_id] <;> omega
        simp only [hlt, c1, decide_true, if_true, Out.bind_ok, Out.bind_eq, Out.pure_eq, e1, ne_eq, not_true,
          decide_false, Bool.false_eq_true, if_false]
        generalize hidx2 : idx + (rd16 (b.drop idx) + 2) = idx2
        have hidx2' : idx2 < 4611686018427387904 := by omega
        rw [g_s2 b idx2 hb hidx2', m_s2 b idx2 hb hidx2']
        have hr2 := rd16_lt (b.drop idx2)
        by_cases c2 : strFits b idx2
        · have c2' := c2
          unfold strFits at c2'
          have e2 : wrap .i64 ((idx2 : Int) + ((rd16 (b.drop idx2) + 2 : Nat) : Int))
              = ((idx2 + (rd16 (b.drop idx2) + 2) : Nat) : Int) := by
            rw [wrap_i64_id] <;> omega
          have e3 : wrap .u16 ((i : Int) + 1) = ((i + 1 : Nat) : Int) := by
            rw [wrap_u16]; unfold ofInt; omega
          simp only [c2, if_true, Out.bind_ok, e2, e3, not_true,
            decide_false, Bool.false_eq_true, if_false, mapSet]
          exact (ih f (idx2 + (rd16 (b.drop idx2) + 2)) ((strAt b idx, strAt b idx2) :: m) (i + 1)
            (by omega) (by omega) (by omega)).mono (by omega) (by omega)
        · simp [c2, LoopSpec, IsRetErr]; decide
      · simp [c1, hlt, LoopSpec, IsRetErr]; decide

theorem intLoop_spec (b : Bytes) (hb : b.length < 4611686018427387904) (K : Nat) (hK : K < 65536) :
    ∀ (n fuel idx : Nat) (m : TTH.IntMap) (i : Nat), i + n = K → idx < 4611686018427387904 →
      b.length - idx < fuel →
      LoopSpec imapG K idx b.length
        (Funcs.tth_readIntKVInfo_loop1 b (K : Int) fuel (idx : Int) (some (imapG m)) (i : Int))
        (TTH.readIntKVs b n idx m) := by
  intro n
  induction n with
  | zero =>
    intro fuel idx m i hi hidx hf
    cases fuel with
    | zero => omega
    | succ f =>
      have hiK : i = K := by omega
      simp [Funcs.tth_readIntKVInfo_loop1, TTH.readIntKVs, LoopSpec, hiK]
  | succ n ih =>
    intro fuel idx m i hi hidx hf
    cases fuel with
    | zero => omega
    | succ f =>
      have hlt : ((i : Int) < (K : Int)) := by omega
      rw [Funcs.tth_readIntKVInfo_loop1, TTH.readIntKVs, g_u16 b idx hb hidx, m_u16 b idx hb hidx]
      have hr := rd16_lt (b.drop idx)
      by_cases c1 : idx + 2 ≤ b.length
      · have e1 : wrap .i64 ((idx : Int) + 2) = ((idx + 2 : Nat) : Int) := by
          rw [wrap_i64_id] <;> omega
        simp only [hlt, c1, decide_true, if_true, Out.bind_ok, Out.bind_eq, Out.pure_eq, e1, ne_eq, not_true,
          decide_false, Bool.false_eq_true, if_false]
        generalize hidx2 : idx + 2 = idx2
        have hidx2' : idx2 < 4611686018427387904 := by omega
        rw [g_s2 b idx2 hb hidx2', m_s2 b idx2 hb hidx2']
        have hr2 := rd16_lt (b.drop idx2)
        by_cases c2 : strFits b idx2
        · have c2' := c2
          unfold strFits at c2'
          have e2 : wrap .i64 ((idx2 : Int) + ((rd16 (b.drop idx2) + 2 : Nat) : Int))
              = ((idx2 + (rd16 (b.drop idx2) + 2) : Nat) : Int) := by
            rw [wrap_i64_id] <;> omega
          have e3 : wrap .u16 ((i : Int) + 1) = ((i + 1 : Nat) : Int) := by
            rw [wrap_u16]; unfold ofInt; omega
          simp only [c2, if_true, Out.bind_ok, e2, e3, not_true,
            decide_false, Bool.false_eq_true, if_false, mapSet]
          exact (ih f (idx2 + (rd16 (b.drop idx2) + 2)) ((rd16 (b.drop idx), strAt b idx2) :: m) (i + 1)
            (by omega) (by omega) (by omega)).mono (by omega) (by omega)
        · simp [c2, LoopSpec, IsRetErr]; decide
      · simp [c1, hlt, LoopSpec, IsRetErr]; decide


/-! ## the three section readers -/

/-- `(idx, info, has, err)` carries a section error -/
def IsErrH {G : Type} (x : GM (Int × Option G × Bool × GoErr)) : Prop :=
  match x with
  | .ok r => SecErr r.2.2.2
  | _ => False

/-- `(idx, info, err)` carries a section error -/
def IsErr3 {G : Type} (x : GM (Int × Option G × GoErr)) : Prop :=
  match x with
  | .ok r => SecErr r.2.2
  | _ => False

/-- readStrKVInfo / readIntKVInfo: translated `(idx, info, has, err)` against the model outcome (exact form:
    the index as the cast of the model's, the map as the image of the model's, nil error; progress bounds) -/
def SecSpecH {G M : Type} (img : M → G) (lo len : Nat)
    (x : GM (Int × Option G × Bool × GoErr)) (y : TTH.DOut (Nat × M)) : Prop :=
  match y with
  | .ok r => (∃ has, x = .ok ((r.1 : Int), some (img r.2), has, GoErr.nil)) ∧ lo + 2 ≤ r.1 ∧ r.1 ≤ len
  | .err e => e = .section ∧ IsErrH x
  | .panic _ => False
  | .oob => False

/-- readACLToken: the same for `(idx, info, err)` -/
def SecSpec3 {G M : Type} (img : M → G) (lo len : Nat)
    (x : GM (Int × Option G × GoErr)) (y : TTH.DOut (Nat × M)) : Prop :=
  match y with
  | .ok r => x = .ok ((r.1 : Int), some (img r.2), GoErr.nil) ∧ lo + 2 ≤ r.1 ∧ r.1 ≤ len
  | .err e => e = .section ∧ IsErr3 x
  | .panic _ => False
  | .oob => False

theorem readACLToken_spec (b : Bytes) (idx : Nat) (m : TTH.StrMap)
    (hb : b.length < 4611686018427387904) (hi : idx < 4611686018427387904) :
    SecSpec3 id idx b.length (Funcs.tth_readACLToken (idx : Int) b (some m)) (TTH.readACLToken b idx m) := by
  unfold Funcs.tth_readACLToken TTH.readACLToken
  rw [g_s2 b idx hb hi, m_s2 b idx hb hi]
  have hr := rd16_lt (b.drop idx)
  by_cases c : strFits b idx
  · have c' := c
    unfold strFits at c'
    have e1 : wrap .i64 ((idx : Int) + ((rd16 (b.drop idx) + 2 : Nat) : Int))
        = ((idx + (rd16 (b.drop idx) + 2) : Nat) : Int) := by
      rw [wrap_i64_id] <;> omega
    simp only [c, if_true, Out.bind_ok, Out.bind_eq, Out.pure_eq, e1, ne_eq, not_true, decide_false,
      Bool.false_eq_true, if_false, mapSet, gdprKey_utf8, SecSpec3, id]
    exact ⟨trivial, by omega, by omega⟩
  · simp [c, SecSpec3, IsErr3]; decide

theorem readStrKVInfo_spec (b : Bytes) (fuel idx : Nat) (m : TTH.StrMap)
    (hb : b.length < 4611686018427387904) (hi : idx < 4611686018427387904) (hf : b.length - idx < fuel) :
    SecSpecH id idx b.length (Funcs.tth_readStrKVInfo fuel (idx : Int) b (some m)) (TTH.readStrKVInfo b idx m) := by
  unfold Funcs.tth_readStrKVInfo TTH.readStrKVInfo
  rw [g_u16 b idx hb hi, m_u16 b idx hb hi]
  have hr := rd16_lt (b.drop idx)
  by_cases c : idx + 2 ≤ b.length
  · have e1 : wrap .i64 ((idx : Int) + 2) = ((idx + 2 : Nat) : Int) := by
      rw [wrap_i64_id] <;> omega
    by_cases hz : rd16 (b.drop idx) = 0
    · simp [c, hz, SecSpecH, e1]
    · have hz' : ¬ ((rd16 (b.drop idx) : Int) ≤ 0) := by omega
      have hz'' : ¬ (rd16 (b.drop idx) ≤ 0) := by omega
      simp only [c, if_true, Out.bind_ok, Out.bind_eq, Out.pure_eq, e1, ne_eq, not_true, decide_false,
        Bool.false_eq_true, if_false, hz', hz'']
      have L := strLoop_spec b hb (rd16 (b.drop idx)) hr (rd16 (b.drop idx)) fuel (idx + 2) m 0
        (by omega) (by omega) (by omega)
      revert L
      simp only [Int.natCast_zero]
      cases TTH.readStrKVs b (rd16 (b.drop idx)) (idx + 2) m with
      | ok r =>
        rintro ⟨h1, h2, h3⟩
        simp only [h1, Out.bind_ok, SecSpecH]
        exact ⟨⟨true, rfl⟩, by omega, h3 c⟩
      | err e =>
        rintro ⟨h1, h2⟩
        refine ⟨h1, ?_⟩
        revert h2
        generalize Funcs.tth_readStrKVInfo_loop1 _ _ _ _ _ _ = x
        intro h2
        cases x with
        | ok v => cases v with
          | ret r => simpa [IsRetErr, IsErrH] using h2
          | done s => exact h2.elim
        | err e => exact h2.elim
        | panic s => exact h2.elim
        | oob => exact h2.elim
      | panic s => exact False.elim
      | oob => exact False.elim
  · simp [c, SecSpecH, IsErrH]; decide
theorem readIntKVInfo_spec (b : Bytes) (fuel idx : Nat) (m : TTH.IntMap)
    (hb : b.length < 4611686018427387904) (hi : idx < 4611686018427387904) (hf : b.length - idx < fuel) :
    SecSpecH imapG idx b.length (Funcs.tth_readIntKVInfo fuel (idx : Int) b (some (imapG m))) (TTH.readIntKVInfo b idx m) := by
  unfold Funcs.tth_readIntKVInfo TTH.readIntKVInfo
  rw [g_u16 b idx hb hi, m_u16 b idx hb hi]
  have hr := rd16_lt (b.drop idx)
  by_cases c : idx + 2 ≤ b.length
  · have e1 : wrap .i64 ((idx : Int) + 2) = ((idx + 2 : Nat) : Int) := by
      rw [wrap_i64_id] <;> omega
    by_cases hz : rd16 (b.drop idx) = 0
    · simp [c, hz, SecSpecH, e1]
    · have hz' : ¬ ((rd16 (b.drop idx) : Int) ≤ 0) := by omega
      have hz'' : ¬ (rd16 (b.drop idx) ≤ 0) := by omega
      simp only [c, if_true, Out.bind_ok, Out.bind_eq, Out.pure_eq, e1, ne_eq, not_true, decide_false,
        Bool.false_eq_true, if_false, hz', hz'']
      have L := intLoop_spec b hb (rd16 (b.drop idx)) hr (rd16 (b.drop idx)) fuel (idx + 2) m 0
        (by omega) (by omega) (by omega)
      revert L
      simp only [Int.natCast_zero]
      cases TTH.readIntKVs b (rd16 (b.drop idx)) (idx + 2) m with
      | ok r =>
        rintro ⟨h1, h2, h3⟩
        simp only [h1, Out.bind_ok, SecSpecH]
        exact ⟨⟨true, rfl⟩, by omega, h3 c⟩
      | err e =>
        rintro ⟨h1, h2⟩
        refine ⟨h1, ?_⟩
        revert h2
        generalize Funcs.tth_readIntKVInfo_loop1 _ _ _ _ _ _ = x
        intro h2
        cases x with
        | ok v => cases v with
          | ret r => simpa [IsRetErr, IsErrH] using h2
          | done s => exact h2.elim
        | err e => exact h2.elim
        | panic s => exact h2.elim
        | oob => exact h2.elim
      | panic s => exact False.elim
      | oob => exact False.elim
  · simp [c, SecSpecH, IsErrH]; decide

/-! ## readKVInfo -/

/-- `(intKVMap, strKVMap, err)` of readKVInfo as the models' `DOut Maps`: the unknown-info-id error is `.infoId`,
    every other non-nil error (the wrapped io.EOF of an incomplete section) is `.section` -/
def liftMaps (x : GM (GoMap Int Bytes × GoMap Bytes Bytes × GoErr)) : TTH.DOut TTH.Maps :=
  match x with
  | .ok r =>
    if r.2.2 = .nil then .ok ⟨r.1.map imapM, r.2.1⟩
    else if r.2.2 = infoIdErr then .err .infoId else .err .section
  | .panic s => .panic s
  | .oob => .oob
  | .err e => nomatch e

/-- the `for {}` of readKVInfo: it can only be left by `return` -/
def liftKVLoop {σ : Type} (x : GM (LoopR (GoMap Int Bytes × GoMap Bytes Bytes × GoErr) σ)) : TTH.DOut TTH.Maps :=
  match x with
  | .ok (.ret r) => liftMaps (.ok r)
  | .ok (.done _) => .panic "unreachable"
  | .panic s => .panic s
  | .oob => .oob
  | .err e => nomatch e

theorem map_imapM_imapG (mi : Option TTH.IntMap) : (mi.map imapG).map imapM = mi := by
  cases mi <;> simp [imapM_imapG]

/-- one section of the `for {}`: a translated 4-result section reader followed by the rest of the iteration `kg`,
    against the model reader followed by `km` -/
theorem kvStepH {G M ρ : Type} {img : M → G} {lo len : Nat}
    {x : GM (Int × Option G × Bool × GoErr)} {y : TTH.DOut (Nat × M)} (S : SecSpecH img lo len x y)
    (kg : Int × Option G × Bool × GoErr → GM (LoopR (GoMap Int Bytes × GoMap Bytes Bytes × GoErr) ρ))
    (km : Nat × M → TTH.DOut TTH.Maps)
    (herr : ∀ t, SecErr t.2.2.2 → liftKVLoop (kg t) = .err .section)
    (hok : ∀ r has, lo + 2 ≤ r.1 → r.1 ≤ len → liftKVLoop (kg ((r.1 : Int), some (img r.2), has, GoErr.nil)) = km r) :
    liftKVLoop (x.bind kg) = y.bind km := by
  cases y with
  | ok r =>
    obtain ⟨⟨has, hx⟩, h1, h2⟩ := S
    rw [hx]
    exact hok r has h1 h2
  | err e =>
    obtain ⟨he, hx⟩ := S
    cases x with
    | ok t => rw [he]; exact herr t hx
    | err e => exact hx.elim
    | panic s => exact hx.elim
    | oob => exact hx.elim
  | panic s => exact S.elim
  | oob => exact S.elim

theorem kvStep3 {G M ρ : Type} {img : M → G} {lo len : Nat}
    {x : GM (Int × Option G × GoErr)} {y : TTH.DOut (Nat × M)} (S : SecSpec3 img lo len x y)
    (kg : Int × Option G × GoErr → GM (LoopR (GoMap Int Bytes × GoMap Bytes Bytes × GoErr) ρ))
    (km : Nat × M → TTH.DOut TTH.Maps)
    (herr : ∀ t, SecErr t.2.2 → liftKVLoop (kg t) = .err .section)
    (hok : ∀ r, lo + 2 ≤ r.1 → r.1 ≤ len → liftKVLoop (kg ((r.1 : Int), some (img r.2), GoErr.nil)) = km r) :
    liftKVLoop (x.bind kg) = y.bind km := by
  cases y with
  | ok r =>
    obtain ⟨hx, h1, h2⟩ := S
    rw [hx]
    exact hok r h1 h2
  | err e =>
    obtain ⟨he, hx⟩ := S
    cases x with
    | ok t => rw [he]; exact herr t hx
    | err e => exact hx.elim
    | panic s => exact hx.elim
    | oob => exact hx.elim
  | panic s => exact S.elim
  | oob => exact S.elim

theorem kvLoop_eq (b : Bytes) (hb : b.length < 4611686018427387904) :
    ∀ (fuel idx : Nat) (mi : Option TTH.IntMap) (ms : Option TTH.StrMap) (e0 : GoErr),
      idx < 4611686018427387904 → b.length - idx < fuel →
      liftKVLoop (Funcs.tth_readKVInfo_loop1 b fuel (idx : Int) (mi.map imapG) ms e0)
        = TTH.readKVInfo b fuel idx ⟨mi, ms⟩ := by
  intro fuel
  induction fuel with
  | zero => intro idx mi ms e0 hi hf; omega
  | succ f ih =>
    intro idx mi ms e0 hi hf
    rw [Funcs.tth_readKVInfo_loop1, TTH.readKVInfo, g_u8 b idx hb hi, m_u8 b idx hb hi]
    by_cases c : idx < b.length
    · have e1 : wrap .i64 ((idx : Int) + 1) = ((idx + 1 : Nat) : Int) := by
        rw [wrap_i64_id] <;> omega
      have hid : (b.getD idx 0).toNat < 256 := UInt8.toNat_lt _
      generalize (b.getD idx 0).toNat = id at hid
      simp only [c, if_true, Out.bind_ok, Out.bind_eq, Out.pure_eq, e1, ne_eq, not_true, decide_false,
        Bool.false_eq_true, if_false, Facts.ttInfoPadding, Facts.ttInfoKeyValue, Facts.ttInfoIntKeyValue,
        Facts.ttInfoACLToken]
      -- what every section's continuation does with an error / with success
      have herrS : ∀ (g : GoMap Int Bytes) (s : GoMap Bytes Bytes) (e : GoErr), SecErr e →
          liftKVLoop (σ := Int × GoMap Int Bytes × GoMap Bytes Bytes × GoErr) (.ok (.ret (g, s, e)))
            = .err .section := by
        intro g s e he
        simp [liftKVLoop, liftMaps, he.1, he.2]
      by_cases h0 : id = 0
      · subst h0
        simp only [Int.natCast_zero, decide_true, if_true]
        exact ih (idx + 1) mi ms _ (by omega) (by omega)
      · have h0' : ¬ ((id : Int) = 0) := by omega
        simp only [h0, h0', decide_false, Bool.false_eq_true, if_false]
        by_cases h1 : id = 1
        · subst h1
          have S := readStrKVInfo_spec b f (idx + 1) (TTH.mk ms) hb (by omega) (by omega)
          simp only [Int.natCast_one, decide_true, if_true]
          cases ms <;>
          · simp only [reduceCtorEq, decide_true, decide_false, if_true, if_false, Bool.false_eq_true, TTH.mk] at S ⊢
            refine kvStepH S _ _ ?_ ?_
            · intro t ht
              simp only [ht.1, not_false_eq_true, decide_true, if_true]
              exact herrS _ _ _ ht
            · intro r has hr1 hr2
              simp only [not_true, decide_false, Bool.false_eq_true, if_false]
              exact ih r.1 mi (some r.2) _ (by omega) (by omega)
        · have h1' : ¬ ((id : Int) = 1) := by omega
          simp only [h1, h1', decide_false, Bool.false_eq_true, if_false]
          by_cases h16 : id = 16
          · subst h16
            have S := readIntKVInfo_spec b f (idx + 1) (TTH.mk mi) hb (by omega) (by omega)
            simp only [show ((16 : Nat) : Int) = 16 from rfl, decide_true, if_true]
            cases mi <;>
            · simp only [reduceCtorEq, decide_true, decide_false, if_true, if_false, Bool.false_eq_true, TTH.mk,
                Option.map_none, Option.map_some, imapG, List.map_nil] at S ⊢
              refine kvStepH S _ _ ?_ ?_
              · intro t ht
                simp only [ht.1, not_false_eq_true, decide_true, if_true]
                exact herrS _ _ _ ht
              · intro r has hr1 hr2
                simp only [not_true, decide_false, Bool.false_eq_true, if_false]
                exact ih r.1 (some r.2) ms _ (by omega) (by omega)
          · have h16' : ¬ ((id : Int) = 16) := by omega
            simp only [h16, h16', decide_false, Bool.false_eq_true, if_false]
            by_cases h17 : id = 17
            · subst h17
              have S := readACLToken_spec b (idx + 1) (TTH.mk ms) hb (by omega)
              simp only [show ((17 : Nat) : Int) = 17 from rfl, decide_true, if_true]
              cases ms <;>
              · simp only [reduceCtorEq, decide_true, decide_false, if_true, if_false, Bool.false_eq_true,
                  TTH.mk] at S ⊢
                refine kvStep3 S _ _ ?_ ?_
                · intro t ht
                  simp only [ht.1, not_false_eq_true, decide_true, if_true]
                  exact herrS _ _ _ ht
                · intro r hr1 hr2
                  simp only [not_true, decide_false, Bool.false_eq_true, if_false]
                  exact ih r.1 mi (some r.2) _ (by omega) (by omega)
            · have h17' : ¬ ((id : Int) = 17) := by omega
              simp [h17, h17', liftKVLoop, liftMaps, infoIdErr]
    · simp [c, liftKVLoop, liftMaps]
      cases mi <;> simp [imapM_imapG]

theorem tth_readKVInfo_lift (b : Bytes) (fuel : Nat) (i : Int) :
    liftMaps (Funcs.tth_readKVInfo fuel i b) = liftKVLoop (Funcs.tth_readKVInfo_loop1 b fuel i none none GoErr.nil) := by
  simp only [Funcs.tth_readKVInfo]
  generalize Funcs.tth_readKVInfo_loop1 b fuel i none none GoErr.nil = x
  cases x with
  | ok v => cases v <;> simp [liftKVLoop, liftMaps]
  | err e => exact nomatch e
  | panic s => simp [liftKVLoop, liftMaps]
  | oob => simp [liftKVLoop, liftMaps]

/-! ## the public lifts and the equivalence theorems -/

/-- `(idx, info, err)` of a section reader as the models' `DOut (Nat × M)`: `err == nil` ↦ the new index and the map
    (through `abs`); ANY non-nil error ↦ `.err .section` (the error text is not part of the model), and the index and
    the map returned next to an error are ignored (reading decision 13: state after an error return is unspecified).
    A nil map next to a nil error is sent to `.err .nofuel`, which the model readers never produce. -/
def liftSec {G M : Type} (abs : G → M) (x : GM (Int × Option G × GoErr)) : TTH.DOut (Nat × M) :=
  match x with
  | .ok r =>
    if r.2.2 = .nil then
      match r.2.1 with
      | some l => .ok (r.1.toNat, abs l)
      | none => .err .nofuel
    else .err .section
  | .panic s => .panic s
  | .oob => .oob
  | .err e => nomatch e

/-- `(idx, info, has, err)`: the same, the `has` flag is ignored -/
def liftSecH {G M : Type} (abs : G → M) (x : GM (Int × Option G × Bool × GoErr)) : TTH.DOut (Nat × M) :=
  liftSec abs (x.bind fun r => .ok (r.1, r.2.1, r.2.2.2))

theorem liftSec_of_spec {G M : Type} {img : M → G} {abs : G → M} (h : ∀ m, abs (img m) = m) {lo len : Nat}
    {x : GM (Int × Option G × GoErr)} {y : TTH.DOut (Nat × M)} (S : SecSpec3 img lo len x y) :
    liftSec abs x = y := by
  cases y with
  | ok r => obtain ⟨hx, _, _⟩ := S; simp [hx, liftSec, h]
  | err e =>
    obtain ⟨he, hx⟩ := S
    cases x with
    | ok t => simp [liftSec, he, hx.1]
    | err e => exact hx.elim
    | panic s => exact hx.elim
    | oob => exact hx.elim
  | panic s => exact S.elim
  | oob => exact S.elim

theorem liftSecH_of_spec {G M : Type} {img : M → G} {abs : G → M} (h : ∀ m, abs (img m) = m) {lo len : Nat}
    {x : GM (Int × Option G × Bool × GoErr)} {y : TTH.DOut (Nat × M)} (S : SecSpecH img lo len x y) :
    liftSecH abs x = y := by
  cases y with
  | ok r => obtain ⟨⟨has, hx⟩, _, _⟩ := S; simp [hx, liftSecH, liftSec, h]
  | err e =>
    obtain ⟨he, hx⟩ := S
    cases x with
    | ok t => simp [liftSecH, liftSec, he, hx.1]
    | err e => exact hx.elim
    | panic s => exact hx.elim
    | oob => exact hx.elim
  | panic s => exact S.elim
  | oob => exact S.elim

/-- readACLToken(&idx, buf, info) with a non-nil map -/
theorem tth_readACLToken_eq (b : Bytes) (idx : Nat) (m : TTH.StrMap)
    (hb : b.length < 4611686018427387904) (hi : idx < 4611686018427387904) :
    liftSec id (Funcs.tth_readACLToken (idx : Int) b (some m)) = TTH.readACLToken b idx m :=
  liftSec_of_spec (fun _ => rfl) (readACLToken_spec b idx m hb hi)

/-- readStrKVInfo(&idx, buf, info) with a non-nil map; fuel: more than the bytes from `idx` on -/
theorem tth_readStrKVInfo_eq (b : Bytes) (fuel idx : Nat) (m : TTH.StrMap)
    (hb : b.length < 4611686018427387904) (hi : idx < 4611686018427387904) (hf : b.length - idx < fuel) :
    liftSecH id (Funcs.tth_readStrKVInfo fuel (idx : Int) b (some m)) = TTH.readStrKVInfo b idx m :=
  liftSecH_of_spec (fun _ => rfl) (readStrKVInfo_spec b fuel idx m hb hi hf)

/-- readIntKVInfo(&idx, buf, info) with the non-nil map holding the image of the model's entries -/
theorem tth_readIntKVInfo_eq (b : Bytes) (fuel idx : Nat) (m : TTH.IntMap)
    (hb : b.length < 4611686018427387904) (hi : idx < 4611686018427387904) (hf : b.length - idx < fuel) :
    liftSecH imapM (Funcs.tth_readIntKVInfo fuel (idx : Int) b (some (imapG m))) = TTH.readIntKVInfo b idx m :=
  liftSecH_of_spec imapM_imapG (readIntKVInfo_spec b fuel idx m hb hi hf)

/-- readKVInfo(idx, buf), the model's own fuel discipline (more fuel than bytes from `idx` on: every iteration
    consumes a byte, and the counted loops inside a section, which get the same fuel, consume ≥ 4 bytes per entry):
    neither side reports "nofuel" -/
theorem tth_readKVInfo_eq (b : Bytes) (fuel idx : Nat)
    (hb : b.length < 4611686018427387904) (hi : idx < 4611686018427387904) (hf : b.length - idx < fuel) :
    liftMaps (Funcs.tth_readKVInfo fuel (idx : Int) b) = TTH.readKVInfo b fuel idx ⟨none, none⟩ := by
  rw [tth_readKVInfo_lift]
  exact kvLoop_eq b hb fuel idx none none GoErr.nil hi hf

/-- the call made by `TTH.decodeInfo` -/
theorem tth_readKVInfo_eq_decode (info : Bytes) (hdIdx : Nat)
    (hb : info.length < 4611686018427387904) (hi : hdIdx ≤ info.length) :
    liftMaps (Funcs.tth_readKVInfo (info.length + 1) (hdIdx : Int) info)
      = TTH.readKVInfo info (info.length + 1) hdIdx ⟨none, none⟩ :=
  tth_readKVInfo_eq info (info.length + 1) hdIdx hb (by omega) (by omega)

/-- `err == nil` of checkProtocolID -/
def liftChk (x : GM GoErr) : TTH.DOut Bool :=
  match x with
  | .ok e => .ok (decide (e = .nil))
  | .panic s => .panic s
  | .oob => .oob
  | .err e => nomatch e

set_option linter.unusedSimpArgs false in
/-- checkProtocolID(protoID): nil error exactly for the ids the model allows (`Facts.ttProtocolAllow`) -/
theorem tth_checkProtocolID_eq (p : Nat) :
    liftChk (Funcs.tth_checkProtocolID (p : Int)) = .ok (TTH.checkProtocolID p) := by
  unfold Funcs.tth_checkProtocolID TTH.checkProtocolID
  by_cases h0 : p = 0
  · subst h0; rfl
  by_cases h4 : p = 4
  · subst h4; rfl
  by_cases h3 : p = 3
  · subst h3; rfl
  by_cases h16 : p = 16
  · subst h16; rfl
  by_cases h17 : p = 17
  · subst h17; rfl
  have k0 : ¬ ((p : Int) = 0) := by omega
  have k4 : ¬ ((p : Int) = 4) := by omega
  have k3 : ¬ ((p : Int) = 3) := by omega
  have k16 : ¬ ((p : Int) = 16) := by omega
  have k17 : ¬ ((p : Int) = 17) := by omega
  simp [h0, h4, h3, h16, h17, k0, k4, k3, k16, k17, liftChk, Facts.ttProtocolAllow]

/-! ## the generated functions compute (non-vacuity) -/

instance instDecEqGoMapS : DecidableEq (GoMap Bytes Bytes) := inferInstance
instance instDecEqGoMapI : DecidableEq (GoMap Int Bytes) := inferInstance

-- one string section {"a": "b"}, then EOF at the top of the loop: success
example : Funcs.tth_readKVInfo 10 0 [1, 0, 1, 0, 1, 97, 0, 1, 98]
    = .ok (none, some [([97], [98])], GoErr.nil) := by decide
example : liftMaps (Funcs.tth_readKVInfo 10 0 [1, 0, 1, 0, 1, 97, 0, 1, 98])
    = .ok ⟨none, some [([97], [98])]⟩ := by decide
example : TTH.readKVInfo [1, 0, 1, 0, 1, 97, 0, 1, 98] 10 0 ⟨none, none⟩
    = .ok ⟨none, some [([97], [98])]⟩ := by decide
-- padding, an int section {7: "x"}, an ACL token "t", padding, EOF
-- padding, an int section {7: "x"}, padding, EOF
example : Funcs.tth_readKVInfo 16 0 [0, 16, 0, 1, 0, 7, 0, 1, 120, 0]
    = .ok (some [(7, [120])], none, GoErr.nil) := by decide
-- … followed by an ACL token "t": the translated key constant `"…".toUTF8.toList` does not evaluate under `decide`,
-- so this one goes through the theorem and evaluates the model
example : liftMaps (Funcs.tth_readKVInfo 16 0 [0, 16, 0, 1, 0, 7, 0, 1, 120, 17, 0, 1, 116, 0])
    = .ok ⟨some [(7, [120])], some [(TTH.gdprKey, [116])]⟩ := by
  rw [show (0 : Int) = ((0 : Nat) : Int) from rfl, tth_readKVInfo_eq _ _ _ (by decide) (by decide) (by decide)]
  decide
-- unknown info id 2
example : Funcs.tth_readKVInfo 10 0 [0, 2, 0]
    = .ok (none, none, GoErr.named "fmt.Errorf:invalid infoIDType[%#x]") := by decide
example : liftMaps (Funcs.tth_readKVInfo 10 0 [0, 2, 0]) = .err .infoId := by decide
-- truncated section: the value of the only entry is cut short
example : Funcs.tth_readKVInfo 10 0 [1, 0, 1, 0, 1, 97, 0, 5, 98]
    = .ok (none, some [], GoErr.named "fmt.Errorf:error reading str kv info: %s") := by decide
example : liftMaps (Funcs.tth_readKVInfo 10 0 [1, 0, 1, 0, 1, 97, 0, 5, 98]) = .err .section := by decide
example : TTH.readKVInfo [1, 0, 1, 0, 1, 97, 0, 5, 98] 10 0 ⟨none, none⟩ = .err .section := by decide
-- fuel exhausted / a store into a nil map: panics
example : Funcs.tth_readKVInfo 1 0 [0, 0] = .panic "nofuel" := by decide
example : Funcs.tth_readACLToken 0 [0, 1, 116] none = .panic "nilmap" := by decide
-- (the new index of a successful section is a tower of `wrap`s that `decide` compares too deeply: projected away)
example : (Funcs.tth_readIntKVInfo 3 0 [0, 1, 0, 7, 0, 1, 120] (some [])).bind (fun r => .ok r.2)
    = .ok (some [(7, [120])], true, GoErr.nil) := by decide
example : (Funcs.tth_readStrKVInfo 3 0 [0, 1, 0, 1, 97, 0, 1, 98] (some [])).bind (fun r => .ok r.2)
    = .ok (some [([97], [98])], true, GoErr.nil) := by decide
example : Funcs.tth_readIntKVInfo 3 0 [0, 1, 0, 7, 0, 1] (some [])
    = .ok (4, some [], false, GoErr.named "fmt.Errorf:error reading int kv info: %s") := by decide
example : Funcs.tth_readStrKVInfo 3 0 [0, 0] (some []) = .ok (2, some [], false, GoErr.nil) := by decide
example : Funcs.tth_readStrKVInfo 3 0 [0] (some [])
    = .ok (2, some [], false, GoErr.named "fmt.Errorf:error reading str kv info size: %s") := by decide
example : Funcs.tth_checkProtocolID 3 = .ok GoErr.nil := by decide
example : Funcs.tth_checkProtocolID 5 = .ok (GoErr.named "fmt.Errorf:unsupported ProtocolID[%d]") := by decide

end Verif.FuncsEq

/-
  Lemmas/Funcs/Append: the 16 appending writers (`Binary.Append*`, `appendUint32/64`) and the 16 length functions of
  protocol/thrift/binary.go, as TRANSLATED from the Go source (`Verif.Funcs.*`), are the hand-written model functions
  `Wire.a*` / `Wire.length` / `Wire.lenMessageBegin`.  None of these functions can panic or return an error: every
  statement is an exact `Out.ok …`.

  Argument images: a `TType` byte `t : UInt8` of the model is the Go `int8` value `toI8 t.toNat`; a `uint32`/`uint64`/
  `float64`-bit-pattern argument `n : Nat` is `(n : Int)`; Go signed integers are `Int`s (range hypotheses only where
  the proof needs them: the `int32` message type of AppendMessageBegin).
-/
import Verif.Lemmas.Funcs.Base
namespace Verif.FuncsEq
open Verif Verif.GoSem

/-! ## bytes: `byteOf x` is determined by `x mod 256` -/

theorem byteOf_eq_iff (x : Int) (t : UInt8) : byteOf x = t ↔ x % 256 = (t.toNat : Int) := by
  have ht := t.toNat_lt
  unfold byteOf toU
  rw [← UInt8.toNat_inj, UInt8.toNat_ofNat']
  have h0 : 0 ≤ x % 256 := Int.emod_nonneg _ (by decide)
  have h1 : x % 256 < 256 := Int.emod_lt_of_pos _ (by decide)
  simp
  omega

/-! ## `wrap`, `shr` as plain `%` and `/` (what `omega` understands) -/

theorem wrap_u8_emod (x : Int) : wrap .u8 x = x % 256 := by
  simp [wrap, toU, IT.bits, IT.signed]
theorem wrap_u16_emod (x : Int) : wrap .u16 x = x % 65536 := by
  simp [wrap, toU, IT.bits, IT.signed]
theorem wrap_u32_emod (x : Int) : wrap .u32 x = x % 4294967296 := by
  simp [wrap, toU, IT.bits, IT.signed]
theorem wrap_u64_emod (x : Int) : wrap .u64 x = x % 18446744073709551616 := by
  simp [wrap, toU, IT.bits, IT.signed]

theorem ofInt8_cast (x : Int) : ((ofInt 8 x : Nat) : Int) = x % 256 := by
  unfold ofInt; have : 0 ≤ x % 256 := Int.emod_nonneg _ (by decide); simp; omega
theorem ofInt16_cast (x : Int) : ((ofInt 16 x : Nat) : Int) = x % 65536 := by
  unfold ofInt; have : 0 ≤ x % 65536 := Int.emod_nonneg _ (by decide); simp; omega
theorem ofInt32_cast (x : Int) : ((ofInt 32 x : Nat) : Int) = x % 4294967296 := by
  unfold ofInt; have : 0 ≤ x % 4294967296 := Int.emod_nonneg _ (by decide); simp; omega
theorem ofInt64_cast (x : Int) : ((ofInt 64 x : Nat) : Int) = x % 18446744073709551616 := by
  unfold ofInt; have : 0 ≤ x % 18446744073709551616 := Int.emod_nonneg _ (by decide); simp; omega

/-- `int32(x)` is the models' `toI32 (ofInt 32 x)` for every integer -/
theorem wrap_i32_ofInt (x : Int) : wrap .i32 x = toI32 (ofInt 32 x) := by
  have h := ofInt32_cast x
  have h0 : 0 ≤ x % 4294967296 := Int.emod_nonneg _ (by decide)
  have h1 : x % 4294967296 < 4294967296 := Int.emod_lt_of_pos _ (by decide)
  simp only [wrap, toU, IT.bits, IT.signed, toI32]
  simp
  split <;> split <;> omega

/-- `int32(len(v))` is the models' `toI32 (len % 2^32)` for every length -/
theorem wrap_i32_len (n : Nat) : wrap .i32 (n : Int) = toI32 (n % 4294967296) := by
  simp only [wrap, toU, IT.bits, IT.signed, toI32]
  simp
  split <;> split <;> omega

/-- the Go `int8` value of a `TType`, converted back with `byte(t)` -/
theorem byteOf_wrap_toI8 (t : UInt8) : byteOf (wrap .u8 (toI8 t.toNat)) = t := by
  have ht := t.toNat_lt
  rw [byteOf_eq_iff, wrap_u8_emod]
  unfold toI8
  split <;> omega

/-- closes `byteOf <int expr> = UInt8.ofNat <nat expr>` side goals: both sides mod 256 by `omega` -/
macro "bytes_omega" : tactic =>
  `(tactic| (
    try simp only [byteOf_eq_iff, UInt8.toNat_ofNat', wrap_u8_emod, wrap_u16_emod, wrap_u32_emod, wrap_u64_emod, shr,
      ofInt8_cast, ofInt16_cast, ofInt32_cast, ofInt64_cast, Int.natCast_emod, Int.natCast_ediv, Int.natCast_pow,
      Nat.reducePow, Int.reducePow, Int.cast_ofNat_Int]
    all_goals omega))

/-- `pure (appendInts buf [x1,…,xn]) = .ok (buf ++ [b1,…,bn])`: compare byte by byte, each one mod 256 -/
macro "append_bytes" : tactic =>
  `(tactic| (
    simp only [Out.pure_eq, Out.bind_eq, Out.bind_ok, appendInts, List.map, Out.ok.injEq, List.append_cancel_left_eq,
      List.cons.injEq, and_true, byteOf_wrap_toI8, true_and]
    repeat' apply And.intro
    all_goals bytes_omega))

/-! ## appendUint32 / appendUint64 -/

theorem thrift_appendUint32_eq (buf : Bytes) (n : Nat) :
    Funcs.thrift_appendUint32 buf (n : Int) = .ok (Wire.aU32 buf n) := by
  unfold Funcs.thrift_appendUint32 Wire.aU32
  append_bytes

theorem thrift_appendUint64_eq (buf : Bytes) (n : Nat) :
    Funcs.thrift_appendUint64 buf (n : Int) = .ok (Wire.aU64 buf n) := by
  unfold Funcs.thrift_appendUint64 Wire.aU64
  append_bytes

/-! ## scalars -/

theorem Binary_AppendBool_eq (buf : Bytes) (v : Bool) :
    Funcs.Binary_AppendBool buf v = .ok (Wire.aBool buf v) := by
  unfold Funcs.Binary_AppendBool Wire.aBool
  cases v <;> simp [appendInts, byteOf_eq_iff]

theorem Binary_AppendByte_eq (buf : Bytes) (v : Int) :
    Funcs.Binary_AppendByte buf v = .ok (Wire.aByte buf v) := by
  unfold Funcs.Binary_AppendByte Wire.aByte
  append_bytes

theorem Binary_AppendI16_eq (buf : Bytes) (v : Int) :
    Funcs.Binary_AppendI16 buf v = .ok (Wire.aI16 buf v) := by
  unfold Funcs.Binary_AppendI16 Wire.aI16
  append_bytes

theorem Binary_AppendI32_eq (buf : Bytes) (v : Int) :
    Funcs.Binary_AppendI32 buf v = .ok (Wire.aI32 buf v) := by
  unfold Funcs.Binary_AppendI32 Wire.aI32
  simp [wrap_u32, thrift_appendUint32_eq]

theorem Binary_AppendI64_eq (buf : Bytes) (v : Int) :
    Funcs.Binary_AppendI64 buf v = .ok (Wire.aI64 buf v) := by
  unfold Funcs.Binary_AppendI64 Wire.aI64
  simp [wrap_u64, thrift_appendUint64_eq]

/-- a `float64` is its bit pattern on both sides (`math.Float64bits` is the identity in the translation) -/
theorem Binary_AppendDouble_eq (buf : Bytes) (bits : Nat) :
    Funcs.Binary_AppendDouble buf (bits : Int) = .ok (Wire.aDouble buf bits) := by
  unfold Funcs.Binary_AppendDouble Wire.aDouble
  simp [thrift_appendUint64_eq]

/-! ## binary / string: `int32(len(v))` wraps for `len(v) ≥ 2^31` exactly as the model's `toI32 (len % 2^32)` — no
    bound on the length is needed -/

theorem Binary_AppendBinary_eq (buf v : Bytes) :
    Funcs.Binary_AppendBinary buf v = .ok (Wire.aBinary buf v) := by
  unfold Funcs.Binary_AppendBinary Wire.aBinary
  simp [len, wrap_i32_len, Binary_AppendI32_eq]

theorem Binary_AppendString_eq (buf v : Bytes) :
    Funcs.Binary_AppendString buf v = .ok (Wire.aBinary buf v) := by
  unfold Funcs.Binary_AppendString Wire.aBinary
  simp [len, wrap_i32_len, Binary_AppendI32_eq]

/-! ## headers -/

theorem Binary_AppendFieldBegin_eq (buf : Bytes) (t : UInt8) (id : Int) :
    Funcs.Binary_AppendFieldBegin buf (toI8 t.toNat) id = .ok (Wire.aFieldBegin buf t id) := by
  unfold Funcs.Binary_AppendFieldBegin Wire.aFieldBegin
  append_bytes

theorem Binary_AppendFieldStop_eq (buf : Bytes) :
    Funcs.Binary_AppendFieldStop buf = .ok (Wire.aFieldStop buf) := by
  unfold Funcs.Binary_AppendFieldStop Wire.aFieldStop
  simp [appendInts, byteOf_eq_iff, T_STOP, Facts.tSTOP]

theorem Binary_AppendMapBegin_eq (buf : Bytes) (kt vt : UInt8) (size : Int) :
    Funcs.Binary_AppendMapBegin buf (toI8 kt.toNat) (toI8 vt.toNat) size = .ok (Wire.aMapBegin buf kt vt size) := by
  unfold Funcs.Binary_AppendMapBegin Wire.aMapBegin
  simp [appendInts, byteOf_wrap_toI8, wrap_i32_ofInt, Binary_AppendI32_eq]

theorem Binary_AppendListBegin_eq (buf : Bytes) (et : UInt8) (size : Int) :
    Funcs.Binary_AppendListBegin buf (toI8 et.toNat) size = .ok (Wire.aListBegin buf et size) := by
  unfold Funcs.Binary_AppendListBegin Wire.aListBegin
  simp [appendInts, byteOf_wrap_toI8, wrap_i32_ofInt, Binary_AppendI32_eq]

theorem Binary_AppendSetBegin_eq (buf : Bytes) (et : UInt8) (size : Int) :
    Funcs.Binary_AppendSetBegin buf (toI8 et.toNat) size = .ok (Wire.aSetBegin buf et size) := by
  unfold Funcs.Binary_AppendSetBegin Wire.aSetBegin
  simp [appendInts, byteOf_wrap_toI8, wrap_i32_ofInt, Binary_AppendI32_eq]

/-- `uint32(msgVersion1) | uint32(typeID & msgTypeMask)` (typeID an `int32`; true for every integer) -/
theorem msgHeader_eq_a (typ : Int) :
    bor .u32 2147549184 (wrap .u32 (band .i32 typ 65535)) = (Wire.msgHeader typ : Nat) := by
  have hx : ofInt 32 typ &&& 65535 ≤ 65535 := Nat.and_le_right
  have h1 : band .i32 typ 65535 = ((ofInt 32 typ &&& 65535 : Nat) : Int) := by
    have e1 : (toU (IT.bits .i32) typ).toNat = ofInt 32 typ := rfl
    have e2 : (toU (IT.bits .i32) 65535).toNat = 65535 := by decide
    unfold band
    rw [e1, e2]
    simp only [Int.ofNat_eq_natCast]
    exact wrap_i32_of_range _ (by omega) (by omega)
  have h2 : wrap .u32 ((ofInt 32 typ &&& 65535 : Nat) : Int) = ((ofInt 32 typ &&& 65535 : Nat) : Int) := by
    rw [wrap_u32_emod]; omega
  have hlt : 2147549184 ||| (ofInt 32 typ &&& 65535) < 2 ^ 32 :=
    Nat.or_lt_two_pow (by decide) (by omega)
  rw [h1, h2]
  have e3 : (toU (IT.bits .u32) 2147549184).toNat = 2147549184 := by decide
  have e4 : (toU (IT.bits .u32) ((ofInt 32 typ &&& 65535 : Nat) : Int)).toNat = ofInt 32 typ &&& 65535 := by
    rw [toU_of_range (by omega) (by simp [IT.bits]; omega)]; simp
  unfold bor
  rw [e3, e4, wrap_u32_emod]
  unfold Wire.msgHeader Facts.msgVersion1 Facts.msgTypeMask
  simp only [Int.ofNat_eq_natCast]
  omega

/-- the same with the operands of `|` swapped (Go's `|` commutes; a refactoring may swap them) -/
theorem msgHeader_eq_a' (typ : Int) :
    bor .u32 (wrap .u32 (band .i32 typ 65535)) 2147549184 = (Wire.msgHeader typ : Nat) := by
  have h : bor .u32 (wrap .u32 (band .i32 typ 65535)) 2147549184 = bor .u32 2147549184 (wrap .u32 (band .i32 typ 65535)) := by
    unfold bor; rw [Nat.or_comm]
  rw [h]; exact msgHeader_eq_a typ

theorem Binary_AppendMessageBegin_eq (buf name : Bytes) (typ seq : Int) :
    Funcs.Binary_AppendMessageBegin buf name typ seq = .ok (Wire.aMessageBegin buf name typ seq) := by
  unfold Funcs.Binary_AppendMessageBegin Wire.aMessageBegin
  simp [msgHeader_eq_a, msgHeader_eq_a', thrift_appendUint32_eq, Binary_AppendString_eq, Binary_AppendI32_eq]

/-! ## length functions: against `Wire.length` / `Wire.lenMessageBegin`.  Go `int` is 64 bits: `4 + len(v)` is exact for
    `len(v) < 2^62` (any real slice) -/

/-- the length functions over a byte string: unfold (also a sibling `*Length` the Go source may delegate to), remove
    every `int` wrap-around by its range condition (`omega`, from `len < 2^62`), compare the sums with `omega` — the
    order of the operands and any hoisted local play no role -/
macro "length_omega" h:ident : tactic => `(tactic| (
  have h' : List.length _ < 4611686018427387904 := $h
  repeat (first
    | unfold Funcs.Binary_MessageBeginLength | unfold Funcs.Binary_StringLength | unfold Funcs.Binary_BinaryLength
    | unfold Funcs.Binary_StringLengthNocopy | unfold Funcs.Binary_BinaryLengthNocopy)
  go_simp [wrap_i64_of_range, Wire.length, Wire.lenMessageBegin]
  all_goals omega))

theorem Binary_MessageBeginLength_eq (name : Bytes) (h : name.length < 2 ^ 62) :
    Funcs.Binary_MessageBeginLength name = .ok ((Wire.lenMessageBegin name : Nat) : Int) := by
  length_omega h

theorem Binary_FieldBeginLength_eq (t : UInt8) (id : Int) :
    Funcs.Binary_FieldBeginLength = .ok ((Wire.length (.fieldBegin t id) : Nat) : Int) := rfl
theorem Binary_FieldStopLength_eq :
    Funcs.Binary_FieldStopLength = .ok ((Wire.length .fieldStop : Nat) : Int) := rfl
theorem Binary_MapBeginLength_eq (kt vt : UInt8) (n : Nat) :
    Funcs.Binary_MapBeginLength = .ok ((Wire.length (.mapBegin kt vt n) : Nat) : Int) := rfl
theorem Binary_ListBeginLength_eq (et : UInt8) (n : Nat) :
    Funcs.Binary_ListBeginLength = .ok ((Wire.length (.listBegin et n) : Nat) : Int) := rfl
theorem Binary_SetBeginLength_eq (et : UInt8) (n : Nat) :
    Funcs.Binary_SetBeginLength = .ok ((Wire.length (.setBegin et n) : Nat) : Int) := rfl
theorem Binary_BoolLength_eq (v : Bool) :
    Funcs.Binary_BoolLength = .ok ((Wire.length (.bool v) : Nat) : Int) := rfl
theorem Binary_ByteLength_eq (v : Int) :
    Funcs.Binary_ByteLength = .ok ((Wire.length (.i8 v) : Nat) : Int) := rfl
theorem Binary_I16Length_eq (v : Int) :
    Funcs.Binary_I16Length = .ok ((Wire.length (.i16 v) : Nat) : Int) := rfl
theorem Binary_I32Length_eq (v : Int) :
    Funcs.Binary_I32Length = .ok ((Wire.length (.i32 v) : Nat) : Int) := rfl
theorem Binary_I64Length_eq (v : Int) :
    Funcs.Binary_I64Length = .ok ((Wire.length (.i64 v) : Nat) : Int) := rfl
theorem Binary_DoubleLength_eq (bits : Nat) :
    Funcs.Binary_DoubleLength = .ok ((Wire.length (.double bits) : Nat) : Int) := rfl

/-- `4 + len(v)` in Go `int` -/
theorem wrap_len4 (s : Bytes) (h : s.length < 2 ^ 62) : wrap .i64 (4 + len s) = ((4 + s.length : Nat) : Int) := by
  have h' : s.length < 4611686018427387904 := h
  simp only [len]
  simp (disch := omega) only [wrap_i64_of_range]
  omega

theorem Binary_StringLength_eq (s : Bytes) (h : s.length < 2 ^ 62) :
    Funcs.Binary_StringLength s = .ok ((Wire.length (.str s) : Nat) : Int) := by
  length_omega h

theorem Binary_BinaryLength_eq (s : Bytes) (h : s.length < 2 ^ 62) :
    Funcs.Binary_BinaryLength s = .ok ((Wire.length (.binary s) : Nat) : Int) := by
  length_omega h

theorem Binary_StringLengthNocopy_eq (s : Bytes) (h : s.length < 2 ^ 62) :
    Funcs.Binary_StringLengthNocopy s = .ok ((Wire.length (.str s) : Nat) : Int) := by
  length_omega h

theorem Binary_BinaryLengthNocopy_eq (s : Bytes) (h : s.length < 2 ^ 62) :
    Funcs.Binary_BinaryLengthNocopy s = .ok ((Wire.length (.binary s) : Nat) : Int) := by
  length_omega h

/-! ## the generated functions compute (closed instances).  No function of this group has an error result or a reachable
    panic (no indexing, slicing or division in their bodies), so there is no error/panic instance to exhibit: the
    corner cases are the two's-complement wrap-arounds below. -/

example : Funcs.thrift_appendUint32 [9] 0x01020304 = .ok [9, 1, 2, 3, 4] := by decide
example : Funcs.thrift_appendUint64 [] 0x0102030405060708 = .ok [1, 2, 3, 4, 5, 6, 7, 8] := by decide
example : Funcs.Binary_AppendBool [7] true = .ok [7, 1] := by decide
example : Funcs.Binary_AppendBool [7] false = .ok [7, 0] := by decide
example : Funcs.Binary_AppendByte [] (-128) = .ok [0x80] := by decide
example : Funcs.Binary_AppendI16 [] (-2) = .ok [0xff, 0xfe] := by decide
example : Funcs.Binary_AppendI32 [] (-2) = .ok [0xff, 0xff, 0xff, 0xfe] := by decide
example : Funcs.Binary_AppendI64 [] (-9223372036854775808) = .ok [0x80, 0, 0, 0, 0, 0, 0, 0] := by decide
example : Funcs.Binary_AppendDouble [] 0x7ff8000000000001 = .ok [0x7f, 0xf8, 0, 0, 0, 0, 0, 1] := by decide
example : Funcs.Binary_AppendString [] [0x68, 0x69, 0xff] = .ok [0, 0, 0, 3, 0x68, 0x69, 0xff] := by decide
example : Funcs.Binary_AppendBinary [1] [] = .ok [1, 0, 0, 0, 0] := by decide
example : Funcs.Binary_AppendFieldBegin [] 11 (-1) = .ok [11, 0xff, 0xff] := by decide
example : Funcs.Binary_AppendFieldBegin [] (-1) 0x0102 = .ok [0xff, 1, 2] := by decide   -- TType(-1) is the byte 0xff
example : Funcs.Binary_AppendFieldStop [5] = .ok [5, 0] := by decide
example : Funcs.Binary_AppendMapBegin [] 8 11 258 = .ok [8, 11, 0, 0, 1, 2] := by decide
example : Funcs.Binary_AppendMapBegin [] 8 11 4294967297 = .ok [8, 11, 0, 0, 0, 1] := by decide   -- int32(size) wraps
example : Funcs.Binary_AppendListBegin [] 12 (-1) = .ok [12, 0xff, 0xff, 0xff, 0xff] := by decide
example : Funcs.Binary_AppendSetBegin [] 10 3 = .ok [10, 0, 0, 0, 3] := by decide
example : Funcs.Binary_AppendMessageBegin [] [0x66] 1 7 = .ok [0x80, 0x01, 0, 1, 0, 0, 0, 1, 0x66, 0, 0, 0, 7] := by decide
example : Funcs.Binary_AppendMessageBegin [] [] 0x30002 (-1) = .ok [0x80, 0x01, 0, 2, 0, 0, 0, 0, 0xff, 0xff, 0xff, 0xff] := by
  decide   -- the message type is masked to 16 bits
example : Funcs.Binary_MessageBeginLength [0x66, 0x6f, 0x6f] = .ok 15 := by decide
example : Funcs.Binary_StringLength [1, 2, 3] = .ok 7 := by decide
example : Funcs.Binary_BinaryLengthNocopy [] = .ok 4 := by decide
example : Funcs.Binary_AppendMessageBegin [] [0x66] 1 7 = .ok (Wire.enc (.messageBegin [0x66] 1 7)) := by decide

end Verif.FuncsEq

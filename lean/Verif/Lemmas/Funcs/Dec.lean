/-
  Lemmas/Funcs/Dec: the two concrete skip decoders of protocol/thrift/skipdecoder.go, TRANSLATED from the Go source
  (`Verif.Funcs.BSD_SkipN / BSD_Reset / BSD_Next`: BytesSkipDecoder, receiver structure `S_thrift_BytesSkipDecoder`;
  `Verif.Funcs.SD_SkipN / SD_Next`: SkipDecoder over a bufiox.Reader, receiver `S_thrift_SkipDecoder ρ`, abstract reader
  `I : ReaderI ρ`), ARE the hand-written models of Model/SkipStream.lean:

      BSD_SkipN_eq : 0 ≤ p.n → 0 ≤ n → p.n + n < 2^63 →
                       liftSDec N.absE absB (Funcs.BSD_SkipN p n) = bytesBackend.skipN (absB p) n.toNat
      BSD_Reset_eq : liftSt absB (Funcs.BSD_Reset p b) = .ok ⟨b, 0⟩               (the model's fresh decoder)
      BSD_Next_eq  : |p.b| + 2^35 < 2^63 → |p.b| + 66 ≤ fuel →
                       liftSDec N.absE absB (Funcs.BSD_Next fuel p (toI8 t.toNat)) = bytesDecNext (absB p) t
      SD_SkipN_eq  : 0 ≤ p.rn → 0 ≤ n → p.rn + n < 2^63 →
                       liftSDec N.absE absD (Funcs.SD_SkipN (iOfRd (rawOf N)) p n) = bufioxBackend.skipN (absD p) n.toNat
      SD_Next_eq   : Inv p.r → |remaining| + ri + 2^35 < 2^63 → |remaining| + 66 ≤ fuel →
                       liftSDec N.absE (·.r) (Funcs.SD_Next (iOfRd (rawOf N)) fuel p (toI8 t.toNat)) = bufioxDecNext p.r t

  * abstraction maps: `absB p = ⟨p.b, p.n.toNat⟩ : BytesDec`, `absD p = ⟨p.r, p.rn.toNat⟩ : BufioxDec` (the Go `int` offset
    is the model's `Nat`; `0 ≤ p.n` / `0 ≤ p.rn` is the Go-side invariant — both fields only ever hold `0` or a sum of
    non-negative counts — that the `SkipN` theorems assume and the `Next` theorems do NOT need: `Next` resets the offset
    first, exactly like the model `{ s with n := 0 }` / `{ r := r, rn := 0 }`); for `SD_Next` the model returns the reader
    only, so the abstraction is `p ↦ p.r` (the stale `p.rn` is reset by the following `Next`).
  * `liftSDec absE α`: result `(p', buf, err)` ↦ `ok (buf, α p')` when `err = nil`, `err (absE err)` otherwise (the model
    drops the decoder state next to an error); Go panics carried over with their kind.
  * errors: as in Tpl.lean an `ErrNaming N` names the model's `TErr` values; the reader model's `RErr` `e` is handed to the
    translation as `rawOf N e = N.errOf (.raw e)`.  `BytesSkipDecoder.SkipN` returns the package-level `io.EOF`, which
    the translator renders `named "io.EOF"`: the naming must agree (`hE`; `stdNaming` does, `stdNaming_eof`).
  * `BSD_Next` / `SD_Next` call the translated generic `SkipDecoderTpl.Skip` with the interface value built from the
    receiver's own translated `SkipN`.  `ifB_impl` / `ifD_impl` show that this interface value implements the model back
    end (`TplG.Impl`: same bytes, related states, same error, same panic — from `BSD_SkipN_sim` / `SD_SkipN_sim`) and the
    generalised simulation `TplG.Tpl_Skip_simG` (Lemmas/Funcs/TplG.lean) does the rest; the measures are those of
    Tpl.lean (`bytes_dec`, `bufiox_meas`) with the no-wrap bound added to the invariant (`bytes_meas`, `bufiox_meas2`).
  * hypotheses: the size bounds keep `p.n + n` / `p.rn + n` from wrapping in a Go `int` (outside them the translation
    wraps to a negative number and then panics "slice" (bytes) / gets errNegativeCount from `Peek` (bufiox) where the
    model — over `Nat` — reports EOF: see the examples at the end; no real slice or stream is that long); `Inv` is the reader-model invariant; the fuel bounds are those of `Tpl_Skip_eq_bytes/_bufiox`.
-/
import Verif.Lemmas.Funcs.Tpl
import Verif.Lemmas.Funcs.RdI
set_option linter.unusedSimpArgs false
namespace Verif.FuncsEq
open Verif Verif.GoSem

/-! ## abstraction maps, lifts, the outcome relation -/

/-- the receiver of the translated `BytesSkipDecoder` methods as the model's decoder state -/
def absB (p : Funcs.S_thrift_BytesSkipDecoder) : BytesDec := { b := p.b, n := p.n.toNat }

/-- the receiver of the translated `SkipDecoder` methods (over the reader model) as the model's decoder state -/
def absD (p : Funcs.S_thrift_SkipDecoder Rd) : BufioxDec := { r := p.r, rn := p.rn.toNat }

/-- Go-side state `p` and model state `s`: `s` is the abstraction of `p` and the `int` offset is not negative -/
def RB (p : Funcs.S_thrift_BytesSkipDecoder) (s : BytesDec) : Prop := 0 ≤ p.n ∧ s = absB p
def RD (p : Funcs.S_thrift_SkipDecoder Rd) (s : BufioxDec) : Prop := 0 ≤ p.rn ∧ s = absD p

/-- result `(p', buf, err)` of a translated decoder method as the model's `TOut (Bytes × σ)` -/
def liftSDec {ρ σ : Type} (absE : GoErr → TErr) (α : ρ → σ) (x : GM (ρ × Bytes × GoErr)) : TOut (Bytes × σ) :=
  match x with
  | .ok r => if r.2.2 = GoErr.nil then .ok (r.2.1, α r.1) else .err (absE r.2.2)
  | .panic s => .panic s
  | .oob => .oob
  | .err e => nomatch e

/-- result `p'` of a translated method that only updates the receiver as the model's `TOut σ` -/
def liftSt {ρ σ : Type} (α : ρ → σ) (x : GM ρ) : TOut σ :=
  match x with
  | .ok p => .ok (α p)
  | .panic s => .panic s
  | .oob => .oob
  | .err e => nomatch e

/-- a reader-model error as the Go error value the naming `N` gives to the model's `raw e` -/
def rawOf (N : ErrNaming) (e : RErr) : GoErr := N.errOf (.raw e)

theorem stdNaming_eof : stdNaming.errOf (.raw .eof) = GoErr.named "io.EOF" := rfl

/-- outcome `x` of a translated decoder method against the model outcome `y`: the same bytes and `R`-related states, an
    error value `≠ nil` named like the model's error, the same panic -/
inductive DSim {ρ σ : Type} (N : ErrNaming) (R : ρ → σ → Prop) : GM (ρ × Bytes × GoErr) → TOut (Bytes × σ) → Prop where
  | ok (p : ρ) (b : Bytes) (s : σ) (h : R p s) : DSim N R (.ok (p, b, GoErr.nil)) (.ok (b, s))
  | err (p : ρ) (b : Bytes) (e : GoErr) (h : e ≠ GoErr.nil) : DSim N R (.ok (p, b, e)) (.err (N.absE e))
  | panic (m : String) : DSim N R (.panic m) (.panic m)
  | oob : DSim N R .oob .oob

theorem DSim.lift {ρ σ : Type} {N : ErrNaming} {R : ρ → σ → Prop} {α : ρ → σ} (hα : ∀ p s, R p s → s = α p)
    {x : GM (ρ × Bytes × GoErr)} {y : TOut (Bytes × σ)} (h : DSim N R x y) : liftSDec N.absE α x = y := by
  cases h with
  | ok p b s h => simp [liftSDec, hα p s h]
  | err p b e h => simp [liftSDec, h]
  | panic m => rfl
  | oob => rfl

theorem DSim.ok' {ρ σ : Type} {N : ErrNaming} {R : ρ → σ → Prop} (p : ρ) (b b' : Bytes) (s : σ) (hb : b = b')
    (h : R p s) : DSim N R (.ok (p, b, GoErr.nil)) (.ok (b', s)) := hb ▸ DSim.ok p b s h

theorem DSim.berr {ρ σ : Type} (N : ErrNaming) (R : ρ → σ → Prop) (p : ρ) (b : Bytes) (e : TErr) :
    DSim N R (.ok (p, b, N.errOf e)) (.err e) := by
  have := DSim.err (N := N) (R := R) p b (N.errOf e) (N.ne_nil e)
  rwa [N.inv] at this

/-- the interface value that `BSD_Next` / `SD_Next` build from the receiver's `SkipN` (results repackaged) -/
theorem DSim.pack {ρ σ : Type} {N : ErrNaming} {R : ρ → σ → Prop} {x : GM (ρ × Bytes × GoErr)}
    {y : TOut (Bytes × σ)} (h : DSim N R x y) :
    TplG.SSim N R (do let r ← x; pure ((r.2.1, r.2.2), r.1)) y := by
  cases h with
  | ok p b s h => exact TplG.SSim.ok b p s h
  | err p b e h => exact TplG.SSim.err b p e h
  | panic m => exact TplG.SSim.panic m
  | oob => exact TplG.SSim.oob

theorem RB_abs (p : Funcs.S_thrift_BytesSkipDecoder) (s : BytesDec) (h : RB p s) : s = absB p := h.2
theorem RD_abs (p : Funcs.S_thrift_SkipDecoder Rd) (s : BufioxDec) (h : RD p s) : s = absD p := h.2

/-- `b[lo:hi]` inside the slice -/
theorem slice_ok_x (b : Bytes) (lo hi : Int) (h0 : 0 ≤ lo) (h1 : lo ≤ hi) (h2 : hi ≤ (b.length : Int)) :
    slice b lo hi = .ok ((b.take hi.toNat).drop lo.toNat) := by
  unfold slice len
  have c1 : ¬ (hi < 0 ∨ hi > (b.length : Int)) := by omega
  have c2 : ¬ (lo < 0 ∨ lo > hi) := by omega
  simp only [c1, c2, if_false]

theorem sliceTo_ok (b : Bytes) (hi : Int) (h0 : 0 ≤ hi) (h : hi ≤ (b.length : Int)) :
    sliceTo b hi = .ok (b.take hi.toNat) := by
  unfold sliceTo len
  have c : ¬ (hi < 0 ∨ hi > (b.length : Int)) := by omega
  simp only [c, if_false]

theorem sliceTo_panic (b : Bytes) (hi : Int) (h : (b.length : Int) < hi) : sliceTo b hi = .panic "slice" := by
  unfold sliceTo len
  have c : (hi < 0 ∨ hi > (b.length : Int)) := by omega
  simp only [c, if_true]

theorem sliceFrom_ok' (b : Bytes) (lo : Int) (h0 : 0 ≤ lo) (h : lo ≤ (b.length : Int)) :
    sliceFrom b lo = .ok (b.drop lo.toNat) := by
  unfold sliceFrom len
  have c : ¬ (lo < 0 ∨ lo > (b.length : Int)) := by omega
  simp only [c, if_false]

theorem sliceFrom_panic (b : Bytes) (lo : Int) (h : (b.length : Int) < lo) : sliceFrom b lo = .panic "slice" := by
  unfold sliceFrom len
  have c : (lo < 0 ∨ lo > (b.length : Int)) := by omega
  simp only [c, if_true]

/-- `nil[lo:]` with `lo > 0` -/
theorem sliceFrom_nil_panic (lo : Int) (h : 0 < lo) : sliceFrom [] lo = .panic "slice" :=
  sliceFrom_panic [] lo (by simpa using h)

/-! ## BytesSkipDecoder -/

/-- `BytesSkipDecoder.SkipN`, outcome by outcome. `hn0`: the offset is not negative (Go-side invariant, see the header);
    `hk`: the model takes a `Nat` count (a negative count makes the Go code panic "slice": last examples);
    `hsz`: `p.n + n` does not wrap in a Go `int`. -/
theorem BSD_SkipN_sim (N : ErrNaming) (hE : N.errOf (.raw .eof) = GoErr.named "io.EOF")
    (p : Funcs.S_thrift_BytesSkipDecoder) (n : Int) (hn0 : 0 ≤ p.n) (hk : 0 ≤ n)
    (hsz : p.n + n < 9223372036854775808) :
    DSim N RB (Funcs.BSD_SkipN p n) (bytesBackend.skipN (absB p) n.toNat) := by
  obtain ⟨pn, b⟩ := p
  obtain ⟨m, rfl⟩ := Int.eq_ofNat_of_zero_le hn0
  obtain ⟨k, rfl⟩ := Int.eq_ofNat_of_zero_le hk
  simp only at hsz
  unfold Funcs.BSD_SkipN bytesBackend absB
  by_cases hlen : b.length ≥ m + k
  · go_simp [hlen, wrap_i64_of_range, slice_ok_x]
    refine DSim.ok' _ _ _ _ ?_ ⟨?_, ?_⟩
    · rw [List.take_drop]; congr_omega
    · simp only; omega
    · simp [absB]; omega
  · go_simp [hlen, wrap_i64_of_range]
    have := DSim.berr N RB ⟨(m : Int), b⟩ [] (.raw .eof)
    rwa [hE] at this

/-- `BytesSkipDecoder.SkipN` translated from the Go source IS the model back end's `skipN` -/
theorem BSD_SkipN_eq (N : ErrNaming) (hE : N.errOf (.raw .eof) = GoErr.named "io.EOF")
    (p : Funcs.S_thrift_BytesSkipDecoder) (n : Int) (hn0 : 0 ≤ p.n) (hk : 0 ≤ n)
    (hsz : p.n + n < 9223372036854775808) :
    liftSDec N.absE absB (Funcs.BSD_SkipN p n) = bytesBackend.skipN (absB p) n.toNat :=
  (BSD_SkipN_sim N hE p n hn0 hk hsz).lift RB_abs

/-- `BytesSkipDecoder.Reset(b)`: never fails, and the receiver afterwards is the model's fresh decoder `⟨b, 0⟩`, whatever
    it was before (there is no model FUNCTION for `Reset`: the models start from the literal `⟨b, 0⟩`) -/
theorem BSD_Reset_eq (p : Funcs.S_thrift_BytesSkipDecoder) (b : Bytes) :
    liftSt absB (Funcs.BSD_Reset p b) = .ok ({ b := b, n := 0 } : BytesDec) := by
  unfold Funcs.BSD_Reset
  simp [liftSt, absB]

/-- … and it satisfies the Go-side invariant that the `SkipN` theorems assume -/
theorem BSD_Reset_inv (p : Funcs.S_thrift_BytesSkipDecoder) (b : Bytes) :
    ∃ p', Funcs.BSD_Reset p b = .ok p' ∧ RB p' { b := b, n := 0 } := by
  unfold Funcs.BSD_Reset
  exact ⟨_, rfl, Int.le_refl 0, rfl⟩

/-- invariant of the bytes back end during one `Next(t)`: the offset inside the slice, and a slice short enough for
    `p.n + n` (`n ≤ 2^35`: the largest count the generic code passes) not to wrap in a Go `int` -/
def BytesOK (s : BytesDec) : Prop := s.n ≤ s.b.length ∧ s.b.length + 34359738368 < 9223372036854775808

theorem bytes_meas : Meas bytesBackend bytesBackend.avail BytesOK := by
  constructor
  · intro s n b s' hp _ h
    refine ⟨?_, bytes_dec s n b s' h⟩
    simp only [bytesBackend] at h
    by_cases hk : s.b.length ≥ s.n + n
    · simp only [hk, if_true, Out.ok.injEq, Prod.mk.injEq] at h
      obtain ⟨_, rfl⟩ := h
      exact ⟨hk, hp.2⟩
    · simp [hk] at h
  · intro s _; exact Nat.le_refl _

/-- the interface value `BSD_Next` hands to the generic skipper: the receiver's own translated `SkipN` -/
def ifB : SkipNI Funcs.S_thrift_BytesSkipDecoder :=
  { skipN := fun s n => do let r ← Funcs.BSD_SkipN s n; pure ((r.2.1, r.2.2), r.1) }

/-- … implements the model's bytes back end -/
theorem ifB_impl (N : ErrNaming) (hE : N.errOf (.raw .eof) = GoErr.named "io.EOF") :
    TplG.Impl N RB ifB bytesBackend BytesOK := by
  constructor
  intro p s n hR hp h0 hn
  obtain ⟨hp0, rfl⟩ := hR
  have hpn : (p.n.toNat : Int) = p.n := Int.toNat_of_nonneg hp0
  obtain ⟨h1, h2⟩ := hp
  simp only [absB] at h1 h2
  exact (BSD_SkipN_sim N hE p n hp0 h0 (by omega)).pack

/-- `BytesSkipDecoder.Next`, outcome by outcome -/
theorem BSD_Next_sim (N : ErrNaming) (hE : N.errOf (.raw .eof) = GoErr.named "io.EOF")
    (p : Funcs.S_thrift_BytesSkipDecoder) (t : UInt8) (fuel : Nat)
    (hsz : p.b.length + 34359738368 < 9223372036854775808) (hf : p.b.length + 66 ≤ fuel) :
    DSim N RB (Funcs.BSD_Next fuel p (toI8 t.toNat)) (bytesDecNext (absB p) t) := by
  have hS : TplG.GSim N RB (Funcs.Tpl_Skip ifB fuel { p with n := 0 } (toI8 t.toNat) 64)
      (skipTplAt bytesBackend Facts.defaultRecursionDepth t { absB p with n := 0 }) :=
    TplG.Tpl_Skip_simG N bytes_meas (ifB_impl N hE) 64 fuel { p with n := 0 } { absB p with n := 0 } t 64
      ⟨Int.le_refl 0, rfl⟩ (by omega) ⟨Nat.zero_le _, hsz⟩ (by simp only [bytesBackend, absB]; omega) rfl
  unfold Funcs.BSD_Next bytesDecNext
  simp only [Out.bind_eq]
  generalize hx : Funcs.Tpl_Skip _ fuel _ _ 64 = x
  have hS' : TplG.GSim N RB x
      (skipTplAt bytesBackend Facts.defaultRecursionDepth t { absB p with n := 0 }) := by rw [← hx]; exact hS
  clear hS hx
  generalize skipTplAt bytesBackend Facts.defaultRecursionDepth t { absB p with n := 0 } = y at hS'
  cases hS' with
  | ok p1 s1 hR =>
    obtain ⟨h0, rfl⟩ := hR
    obtain ⟨n1, b1⟩ := p1
    obtain ⟨m, rfl⟩ := Int.eq_ofNat_of_zero_le h0
    simp only [absB, Int.toNat_natCast, Out.bind_ok]
    by_cases hle : m ≤ b1.length
    · go_simp [sliceTo_ok, sliceFrom_ok', hle]
      exact DSim.ok _ _ _ (And.intro (Int.le_refl 0) rfl)
    · go_simp [sliceTo_panic, sliceFrom_panic, hle]
      exact DSim.panic _
  | err p1 e h =>
    simp only [Out.bind_ok, Out.bind_err, ne_eq, h, not_false_eq_true, decide_true, if_true, Out.pure_eq]
    exact DSim.err _ _ e h
  | panic m => exact DSim.panic m
  | oob => exact DSim.oob

/-- `BytesSkipDecoder.Next` translated from the Go source IS the model `bytesDecNext`, for EVERY receiver state (the stale
    offset is reset first, on both sides) and every type byte. `hsz`: the slice is short enough for the offset
    arithmetic not to wrap in a Go `int` (2^63 - 2^35 bytes); `hf`: the fuel of `Tpl_Skip_eq_bytes`. -/
theorem BSD_Next_eq (N : ErrNaming) (hE : N.errOf (.raw .eof) = GoErr.named "io.EOF")
    (p : Funcs.S_thrift_BytesSkipDecoder) (t : UInt8) (fuel : Nat)
    (hsz : p.b.length + 34359738368 < 9223372036854775808) (hf : p.b.length + 66 ≤ fuel) :
    liftSDec N.absE absB (Funcs.BSD_Next fuel p (toI8 t.toNat)) = bytesDecNext (absB p) t :=
  (BSD_Next_sim N hE p t fuel hsz hf).lift RB_abs

/-! ## SkipDecoder over a bufiox.Reader -/

theorem rawOf_ne_nil (N : ErrNaming) (e : RErr) : rawOf N e ≠ GoErr.nil := N.ne_nil _

/-- `SkipDecoder.SkipN` over the reader model, outcome by outcome: `Peek(p.rn + n)`, then the window `buf[p.rn:]`.
    `h0`: the window offset is not negative (Go-side invariant, see the header); `hk`: the model takes a `Nat` count;
    `hsz`: `p.rn + n` does not wrap in a Go `int`.  No reader invariant is needed: both sides make the same `Peek`. -/
theorem SD_SkipN_sim (N : ErrNaming) (p : Funcs.S_thrift_SkipDecoder Rd) (n : Int) (h0 : 0 ≤ p.rn) (hk : 0 ≤ n)
    (hsz : p.rn + n < 9223372036854775808) :
    DSim N RD (Funcs.SD_SkipN (iOfRd (rawOf N)) p n) (bufioxBackend.skipN (absD p) n.toNat) := by
  obtain ⟨r, rn⟩ := p
  obtain ⟨m, rfl⟩ := Int.eq_ofNat_of_zero_le h0
  obtain ⟨k, rfl⟩ := Int.eq_ofNat_of_zero_le hk
  simp only at hsz
  unfold Funcs.SD_SkipN bufioxBackend absD
  -- both sides make the same `Peek`: the request is brought to one normal form (no wrap, casts pushed, sums ordered)
  simp (disch := go_disch) only [iOfRd, Int.toNat_natCast, Int.natCast_add, wrap_i64_of_range, Int.add_comm]
  generalize r.peek _ = pk
  obtain ⟨res, r'⟩ := pk
  cases res with
  | ok buf =>
    by_cases hov : m > buf.length
    · go_simp [resI, hov, sliceFrom_panic]
      exact DSim.panic _
    · go_simp [resI, hov, sliceFrom_ok', wrap_i64_of_range]
      refine DSim.ok' _ _ _ _ rfl ⟨?_, ?_⟩
      · simp only; omega
      · simp [absD]; omega
  | fail oe =>
    cases oe with
    | some e =>
      go_simp [resI, rawOf_ne_nil]
      exact DSim.berr N RD _ _ (.raw e)
    | none =>
      by_cases hov : m > 0
      · go_simp [resI, hov, sliceFrom_nil_panic]
        exact DSim.panic _
      · have hm : m = 0 := by omega
        subst hm
        go_simp [resI, sliceFrom_ok', wrap_i64_of_range]
        refine DSim.ok' _ _ _ _ rfl ⟨?_, ?_⟩
        · simp only; omega
        · simp [absD]
  | nofuel =>
    simp only [resI, Out.bind_eq, Out.bind_panic, Out.bind]
    exact DSim.panic _

/-- `SkipDecoder.SkipN` translated from the Go source, over the reader model, IS the model back end's `skipN` -/
theorem SD_SkipN_eq (N : ErrNaming) (p : Funcs.S_thrift_SkipDecoder Rd) (n : Int) (h0 : 0 ≤ p.rn) (hk : 0 ≤ n)
    (hsz : p.rn + n < 9223372036854775808) :
    liftSDec N.absE absD (Funcs.SD_SkipN (iOfRd (rawOf N)) p n) = bufioxBackend.skipN (absD p) n.toNat :=
  (SD_SkipN_sim N p n h0 hk hsz).lift RD_abs

/-- a successful `SkipN` of the model back end only moves the window: what the reader owes is unchanged -/
theorem bufiox_skipN_rem (s : BufioxDec) (k : Nat) (b : Bytes) (s' : BufioxDec) (hp : BufioxOK s)
    (hk : k ≤ 34359738368) (h : bufioxBackend.skipN s k = .ok (b, s')) : s'.r.remaining = s.r.remaining := by
  obtain ⟨hinv, hrn, hsm⟩ := hp
  have hn : ((s.rn + k : Nat) : Int).toNat = s.rn + k := Int.toNat_natCast _
  simp only [bufioxBackend] at h
  rcases peek_cases s.r ((s.rn + k : Nat) : Int) hinv (by unfold Rd.Small; rw [hn]; omega) with
    ⟨hneg, _⟩ | ⟨_, m, r1, _, hpost, ⟨hgt, hpk⟩ | ⟨hle, hpk⟩⟩
  · omega
  · have he := (hpost.short hgt).1
    rw [hpk] at h
    cases hre : r1.err with
    | none => exact absurd hre he
    | some e => simp [hre] at h
  · rw [hpk] at h
    simp only at h
    by_cases hov : s.rn > ((r1.buf.drop r1.ri).take ((s.rn + k : Nat) : Int).toNat).length
    · rw [if_pos hov] at h; cases h
    · rw [if_neg hov] at h
      simp only [Out.ok.injEq, Prod.mk.injEq] at h
      obtain ⟨_, rfl⟩ := h
      exact hpost.remaining hinv.ri_le

/-- invariant of the bufiox back end during one `Next(t)`: `BufioxOK` of Tpl.lean and what the reader owes small enough
    for `p.rn + n` (`n ≤ 2^35`) not to wrap in a Go `int` -/
def BufioxOK2 (s : BufioxDec) : Prop := BufioxOK s ∧ s.r.remaining.length + 34359738368 < 9223372036854775808

theorem bufiox_meas2 : Meas bufioxBackend bufioxMu BufioxOK2 := by
  constructor
  · intro s n b s' hp hn h
    obtain ⟨h1, h2⟩ := bufiox_meas.dec s n b s' hp.1 hn h
    refine ⟨⟨h1, ?_⟩, h2⟩
    rw [bufiox_skipN_rem s n b s' hp.1 hn h]
    exact hp.2
  · intro s hp; exact bufiox_meas.le_avail s hp.1

/-- the interface value `SD_Next` hands to the generic skipper: the receiver's own translated `SkipN` -/
def ifD (N : ErrNaming) : SkipNI (Funcs.S_thrift_SkipDecoder Rd) :=
  { skipN := fun s n => do let r ← Funcs.SD_SkipN (iOfRd (rawOf N)) s n; pure ((r.2.1, r.2.2), r.1) }

/-- … implements the model's bufiox back end -/
theorem ifD_impl (N : ErrNaming) : TplG.Impl N RD (ifD N) bufioxBackend BufioxOK2 := by
  constructor
  intro p s n hR hp h0 hn
  obtain ⟨hp0, rfl⟩ := hR
  have hpn : (p.rn.toNat : Int) = p.rn := Int.toNat_of_nonneg hp0
  obtain ⟨⟨_, h1, _⟩, h2⟩ := hp
  simp only [absD] at h1 h2
  exact (SD_SkipN_sim N p n hp0 h0 (by omega)).pack

/-- `SkipDecoder.Next`, outcome by outcome (the model returns the reader afterwards: abstraction `p ↦ p.r`) -/
theorem SD_Next_sim (N : ErrNaming) (p : Funcs.S_thrift_SkipDecoder Rd) (t : UInt8) (fuel : Nat) (hinv : Inv p.r)
    (hsm : p.r.remaining.length + p.r.ri + 34359738368 < 9223372036854775808)
    (hf : p.r.remaining.length + 66 ≤ fuel) :
    DSim N (fun p r => r = p.r) (Funcs.SD_Next (iOfRd (rawOf N)) fuel p (toI8 t.toNat)) (bufioxDecNext p.r t) := by
  have hS : TplG.GSim N RD (Funcs.Tpl_Skip (ifD N) fuel { p with rn := 0 } (toI8 t.toNat) 64)
      (skipTplAt bufioxBackend Facts.defaultRecursionDepth t { r := p.r, rn := 0 }) :=
    TplG.Tpl_Skip_simG N bufiox_meas2 (ifD_impl N) 64 fuel { p with rn := 0 } { r := p.r, rn := 0 } t 64
      ⟨Int.le_refl 0, rfl⟩ (by omega) ⟨⟨hinv, Nat.zero_le _, by simp only; omega⟩, by simp only; omega⟩
      (by simp only [bufioxMu]; omega) rfl
  unfold Funcs.SD_Next bufioxDecNext
  simp only [Out.bind_eq]
  generalize hx : Funcs.Tpl_Skip _ fuel _ _ 64 = x
  have hS' : TplG.GSim N RD x
      (skipTplAt bufioxBackend Facts.defaultRecursionDepth t { r := p.r, rn := 0 }) := by rw [← hx]; exact hS
  clear hS hx
  generalize skipTplAt bufioxBackend Facts.defaultRecursionDepth t { r := p.r, rn := 0 } = y at hS'
  cases hS' with
  | ok p1 s1 hR =>
    obtain ⟨h0, rfl⟩ := hR
    obtain ⟨r1, rn1⟩ := p1
    obtain ⟨m, rfl⟩ := Int.eq_ofNat_of_zero_le h0
    simp only [absD, Int.toNat_natCast, Out.bind_ok, iOfRd]
    cases hnx : r1.next (m : Int) with
    | mk res r' =>
      cases res with
      | ok buf =>
        go_simp [resI]
        exact DSim.ok _ _ _ rfl
      | fail oe =>
        cases oe with
        | some e =>
          go_simp [resI]
          exact DSim.berr N _ _ _ (.raw e)
        | none =>
          go_simp [resI]
          exact DSim.ok _ _ _ rfl
      | nofuel =>
        simp only [resI, Out.bind_eq, Out.bind_panic, Out.bind]
        exact DSim.panic _
  | err p1 e h =>
    simp only [Out.bind_ok, Out.bind_err, ne_eq, h, not_false_eq_true, decide_true, if_true, Out.pure_eq]
    exact DSim.err _ _ e h
  | panic m => exact DSim.panic m
  | oob => exact DSim.oob

/-- `SkipDecoder.Next` translated from the Go source, over the reader model, IS the model `bufioxDecNext`, for EVERY
    receiver state (the stale window offset is reset first, on both sides) and every type byte. `hinv`: the invariant of
    the reader model; `hsm`: what the reader owes is small enough for the reader model to be well behaved (`Rd.Small`)
    and for `p.rn + n` not to wrap in a Go `int`; `hf`: the fuel of `Tpl_Skip_eq_bufiox`. -/
theorem SD_Next_eq (N : ErrNaming) (p : Funcs.S_thrift_SkipDecoder Rd) (t : UInt8) (fuel : Nat) (hinv : Inv p.r)
    (hsm : p.r.remaining.length + p.r.ri + 34359738368 < 9223372036854775808)
    (hf : p.r.remaining.length + 66 ≤ fuel) :
    liftSDec N.absE (fun p => p.r) (Funcs.SD_Next (iOfRd (rawOf N)) fuel p (toI8 t.toNat)) = bufioxDecNext p.r t :=
  (SD_Next_sim N p t fuel hinv hsm hf).lift (fun _ _ h => h)

/-! ## the generated decoders compute (non-vacuity) -/

/-- the returned bytes and the error of a decoder method, the offset and what is left of the slice -/
def outB (x : GM (Funcs.S_thrift_BytesSkipDecoder × Bytes × GoErr)) : GM (Bytes × GoErr × Int × Bytes) :=
  x.bind (fun r => .ok (r.2.1, r.2.2, r.1.n, r.1.b))
/-- the returned bytes and the error, the window offset, the reader's read index and sticky error -/
def outD (x : GM (Funcs.S_thrift_SkipDecoder Rd × Bytes × GoErr)) : GM (Bytes × GoErr × Int × Nat × Option RErr) :=
  x.bind (fun r => .ok (r.2.1, r.2.2, r.1.rn, r.1.r.ri, r.1.r.err))
/-- the reader model as the Go interface value, errors named by `stdNaming` -/
def stdI : ReaderI Rd := iOfRd (rawOf stdNaming)

-- BytesSkipDecoder: an i32 is skipped and returned, the slice moves on (whatever the stale offset was)
example : outB (Funcs.BSD_Next 80 { n := 0, b := [0, 0, 0, 1, 9] } 8) = .ok ([0, 0, 0, 1], GoErr.nil, 0, [9]) := by
  decide +kernel
example : outB (Funcs.BSD_Next 80 { n := -7, b := [0, 0, 0, 1, 9] } 8) = .ok ([0, 0, 0, 1], GoErr.nil, 0, [9]) := by
  decide +kernel
-- a struct {1: string "a"} followed by a byte
example : outB (Funcs.BSD_Next 80 { n := 0, b := [11, 0, 1, 0, 0, 0, 1, 97, 0, 5] } 12) =
    .ok ([11, 0, 1, 0, 0, 0, 1, 97, 0], GoErr.nil, 0, [5]) := by decide +kernel
-- an error: a struct whose first field value is cut short; io.EOF, no bytes, the offset of the failed attempt stays
example : outB (Funcs.BSD_Next 80 { n := 0, b := [8, 0, 1, 0, 0] } 12) =
    .ok ([], GoErr.named "io.EOF", 3, [8, 0, 1, 0, 0]) := by decide +kernel
-- reuse after the error: the next `Next` starts at 0 again (the commit for F16), on both sides
example : outB ((Funcs.BSD_Next 80 { n := 0, b := [8, 0, 1, 0, 0] } 12).bind (fun r => Funcs.BSD_Next 80 r.1 2)) =
    .ok ([8], GoErr.nil, 0, [0, 1, 0, 0]) := by decide +kernel
example : bytesDecNext { b := [8, 0, 1, 0, 0], n := 3 } 2 = .ok ([8], { b := [0, 1, 0, 0], n := 0 }) := by
  decide +kernel
-- through the lift: the model's outcome, error named by `stdNaming`
example : liftSDec absStd absB (Funcs.BSD_Next 80 { n := 0, b := [8, 0, 1, 0, 0] } 12) = .err (.raw .eof) := by
  decide +kernel
example : bytesDecNext { b := [8, 0, 1, 0, 0], n := 0 } 12 = .err (.raw .eof) := by decide +kernel
example : liftSDec absStd absB (Funcs.BSD_Next 80 { n := 0, b := [255, 255, 255, 255] } 11) = .err errNeg := by
  decide +kernel
-- SkipN and Reset
example : outB (Funcs.BSD_SkipN { n := 1, b := [5, 6, 7, 8] } 2) = .ok ([6, 7], GoErr.nil, 3, [5, 6, 7, 8]) := by
  decide +kernel
example : outB (Funcs.BSD_SkipN { n := 1, b := [5, 6, 7, 8] } 4) = .ok ([], GoErr.named "io.EOF", 1, [5, 6, 7, 8]) := by
  decide +kernel
example : Funcs.BSD_Reset { n := 3, b := [1, 2, 3] } [4, 5] = .ok { n := 0, b := [4, 5] } := by decide +kernel
-- panics: no fuel (excluded by `hf`); a negative count (`hk`: `p.b[p.n-n : p.n]` with `p.n-n > p.n`); and why `hsz` is
-- needed: `p.n + n` wraps to a negative number, the guard `len(p.b) >= p.n+n` holds and the slice expression panics,
-- where the model (offsets are `Nat`s) reports EOF
example : Funcs.BSD_Next 0 { n := 0, b := [0] } 8 = .panic "nofuel" := by decide +kernel
example : Funcs.BSD_SkipN { n := 1, b := [0, 0] } (-1) = .panic "slice" := by decide +kernel
example : Funcs.BSD_SkipN { n := 1, b := [0] } 9223372036854775807 = .panic "slice" := by decide +kernel
example : bytesBackend.skipN { b := [0], n := 1 } 9223372036854775807 = .err (.raw .eof) := by decide +kernel

-- SkipDecoder over a bufiox reader: an i32 is skipped and returned by `Next` (stale window offset 7 reset first)
example : outD (Funcs.SD_Next stdI 80 { r := Rd.newBytes [0, 0, 0, 1, 9] 5, rn := 7 } 8) =
    .ok ([0, 0, 0, 1], GoErr.nil, 4, 4, none) := by decide +kernel
example : (bufioxDecNext (Rd.newBytes [0, 0, 0, 1, 9] 5) 8).bind (fun r => .ok (r.1, r.2.ri)) = .ok ([0, 0, 0, 1], 4) := by
  decide +kernel
-- the same through the lift: the model's outcome, reader state included
example : liftSDec absStd (fun p => p.r) (Funcs.SD_Next stdI 80 { r := Rd.newBytes [0, 0, 0, 1, 9] 5, rn := 7 } 8) =
    bufioxDecNext (Rd.newBytes [0, 0, 0, 1, 9] 5) 8 := by decide +kernel
-- over a scripted source: 3 bytes, then 2 bytes together with the source error #7
example : outD (Funcs.SD_Next stdI 80
      { r := Rd.newDefault ⟨[1, 2, 3, 4, 5], [⟨3, none⟩, ⟨3, some (.src 7)⟩]⟩, rn := 0 } 8) =
    .ok ([1, 2, 3, 4], GoErr.nil, 4, 4, some (.src 7)) := by decide +kernel
-- errors: the source error reaches the caller by its name; EOF inside a struct
example : outD (Funcs.SD_Next stdI 80
      { r := Rd.newDefault ⟨[1, 2, 3, 4, 5], [⟨3, none⟩, ⟨3, some (.src 7)⟩]⟩, rn := 0 } 10) =
    .ok ([], GoErr.named "src#7", 0, 0, some (.src 7)) := by decide +kernel
example : liftSDec absStd (fun p => p.r) (Funcs.SD_Next stdI 80
      { r := Rd.newDefault ⟨[1, 2, 3, 4, 5], [⟨3, none⟩, ⟨3, some (.src 7)⟩]⟩, rn := 0 } 10) = .err (.raw (.src 7)) := by
  decide +kernel
example : outD (Funcs.SD_Next stdI 80 { r := Rd.newBytes [8, 0, 1, 0, 0] 5, rn := 0 } 12) =
    .ok ([], GoErr.named "io.EOF", 3, 0, some .eof) := by decide +kernel
-- reuse after the error: nothing was consumed, the window restarts at 0, the buffered byte is still served
example : outD ((Funcs.SD_Next stdI 80 { r := Rd.newBytes [8, 0, 1, 0, 0] 5, rn := 0 } 12).bind
      (fun r => Funcs.SD_Next stdI 80 r.1 2)) = .ok ([8], GoErr.nil, 1, 1, some .eof) := by decide +kernel
-- SkipN: the window grows, the reader does not move
example : outD (Funcs.SD_SkipN stdI { r := Rd.newBytes [5, 6, 7, 8] 4, rn := 1 } 2) = .ok ([6, 7], GoErr.nil, 3, 0, none) := by
  decide +kernel
-- panics / why `hsz` is needed: `p.rn + n` wraps to a negative number and `Peek` refuses it (errNegativeCount) where the
-- model (over `Nat`) runs into EOF
example : outD (Funcs.SD_Next stdI 0 { r := Rd.newBytes [0] 1, rn := 0 } 8) = .panic "nofuel" := by decide +kernel
example : outD (Funcs.SD_SkipN stdI { r := Rd.newBytes [1, 2, 3] 3, rn := 1 } 9223372036854775807) =
    .ok ([], GoErr.named "bufiox.errNegativeCount", 1, 0, none) := by decide +kernel
example : bufioxBackend.skipN { r := Rd.newBytes [1, 2, 3] 3, rn := 1 } 9223372036854775807 = .err (.raw .eof) := by
  decide +kernel

end Verif.FuncsEq

/-
  Lemmas/Funcs/BufioxRSD: `thrift.ReaderSkipDecoder` (protocol/thrift/skipdecoder.go) — `SkipN`, `Grow`, `growSlow`, `Reset`,
  `Release` as TRANSLATED from the Go source on every run (`Verif.Gen.BufioxRSD`, namespace `Verif.BufioxRSDGen`, over
  `Base/GoSemCap`) against the hand-written back end `readerBackend` over `ReaderDec` (Model/SkipStream.lean) that the
  skip properties use for the third back end of the generic skip decoder.

  * `absRSD` : generated receiver ↦ `ReaderDec` (`got` = `p.b[:p.n]`, `src` = the `io.Reader`, the model's scripted source).
  * invariant `RInv`: `0 ≤ n ≤ len(b) ≤ cap(b) ≤ 2^45`, the reader is not nil. Per call `n + k ≤ 2^44`, fuel ≥ the model's
    (`script.length + 2`).
  * `ReaderSkipDecoder_SkipN_sim`: the generated `SkipN(k)` returns what `readerBackend.skipN` returns — the `k` bytes (also
    when the last of them arrive together with io.EOF: `if i >= n { err = nil }`), or the source's error — and on success
    the abstraction of the receiver afterwards is the model state (`got` extended), invariant kept.
  The loop lemma is about ANY function satisfying the one-round equation (`FullStep`, shown for the generated loop by
  `full_step` at the use site); bounds are proved for any way of writing them.
-/
import Verif.Gen.BufioxRSD
import Verif.Lemmas.Funcs.BufioxR
import Verif.Model.SkipStream
import Verif.Lemmas.Funcs.TplG
namespace Verif.BufioxEq
open Verif Verif.GoSemCap Verif.BufioxRSDGen
open Verif.GoSem (GM wrap LoopR IT)
set_option linter.unusedSimpArgs false

abbrev RSD := S_ReaderSkipDecoder Src

def absRSD (g : RSD) : ReaderDec := { src := g.r.getD ⟨[], []⟩, got := g.b.mem.take g.n.toNat }

structure RInv (g : RSD) : Prop where
  n_nonneg : 0 ≤ g.n
  n_le : g.n ≤ g.b.len
  len_le : g.b.len ≤ g.b.mem.length
  cap_le : g.b.mem.length ≤ 2 ^ 45
  r_some : g.r.isSome

/-- `Reset(r)` / `Release()` -/
theorem ReaderSkipDecoder_Reset_eq (g : RSD) (r : Option Src) :
    ReaderSkipDecoder_Reset g r = .ok { g with r := r, n := 0 } := by
  simp [ReaderSkipDecoder_Reset]

theorem ReaderSkipDecoder_Release_eq (g : RSD) :
    ReaderSkipDecoder_Release g = .ok { g with r := none, n := 0 } := by
  simp [ReaderSkipDecoder_Release, ReaderSkipDecoder_Reset]

/-- after `Release` nothing is buffered: `p.b[:p.n]` is empty (the buffer itself is kept for reuse) -/
theorem Release_got (g : RSD) : ∃ g', ReaderSkipDecoder_Release g = .ok g' ∧ (absRSD g').got = [] ∧ g'.b = g.b :=
  ⟨_, ReaderSkipDecoder_Release_eq g, by simp [absRSD], rfl⟩

/-! ## Grow -/

/-- `Grow(k)`: room for `k` more bytes, what was read so far is kept -/
theorem Grow_post (O : Nat → Nat → Bytes) (g : RSD) (n k : Nat) (hn : g.n = (n : Int)) (hi : RInv g)
    (hk : k + n ≤ 2 ^ 44) :
    ∃ g1, ReaderSkipDecoder_Grow O g (k : Int) = .ok g1 ∧ RInv g1 ∧ g1.n = g.n ∧ g1.r = g.r ∧
      g1.b.mem.take n = g.b.mem.take n ∧ n + k ≤ g1.b.len := by
  have h0 := hi.n_nonneg; have h1 := hi.n_le; have h2 := hi.len_le; have h3 := hi.cap_le
  rw [hn] at h0 h1
  unfold ReaderSkipDecoder_Grow
  have hw : wrap .i64 (slen g.b - (n : Int)) = ((g.b.len - n : Nat) : Int) := by
    rw [wrap_i64_id] <;> simp [slen] <;> omega
  by_cases hfit : k ≤ g.b.len - n
  · have c1 : ((g.b.len - n : Nat) : Int) ≥ (k : Int) := by omega
    have c2 : ¬ ((g.b.len - n : Nat) : Int) < (k : Int) := by omega
    exact ⟨g, by simp [hn, hw, c1, c2], hi, rfl, rfl, rfl, by omega⟩
  · have c1 : ¬ ((g.b.len - n : Nat) : Int) ≥ (k : Int) := by omega
    have c2 : ((g.b.len - n : Nat) : Int) < (k : Int) := by omega
    have hwn : wrap .i64 ((n : Int) + (k : Int)) = ((n + k : Nat) : Int) := by rw [wrap_i64_id] <;> omega
    have hwn' : wrap .i64 ((k : Int) + (n : Int)) = ((n + k : Nat) : Int) := by rw [wrap_i64_id] <;> omega
    have hm := malloc1_ok (O 1) (n + k) (by omega)
    simp only [Int.natCast_add] at hm hwn hwn'
    have hs : ∀ hi' : Int, hi' = (n : Int) → sslice g.b 0 hi' = .ok { g.b with len := n } := by
      intro hi' e; subst e
      rw [sslice_ok _ _ _ (by omega) (by omega) (by simp [scap]; omega)]; simp
    have hcapge : n + k ≤ mcacheCap (n + k) := by
      rw [mcacheCap_eq _ (by omega)]; exact (pow2ceil_spec _ (by omega)).1
    have hcaple : mcacheCap (n + k) ≤ 2 ^ 45 := by
      rw [mcacheCap_eq _ (by omega)]; exact pow2ceil_le45 _ (by omega)
    refine ⟨{ g with b := ⟨g.b.mem.take n ++ (dirty (O 1) (mcacheCap (n + k))).drop n, n + k, true⟩ }, ?_, ?_, rfl, rfl, ?_, ?_⟩
    · simp [-Out.bind_ok, bind_ok_nr, hn, hw, c1, c2, ReaderSkipDecoder_growSlow, hwn, hwn', hm]
      rw [hs _ rfl]
      have hmin : min (n + k) n = n := by omega
      simp [-Out.bind_ok, bind_ok_nr, copySl, hmin]
    · refine ⟨hi.n_nonneg, by simp [hn]; omega, ?_, ?_, hi.r_some⟩
      · simp [Nat.min_eq_left (show n ≤ g.b.mem.length by omega)]; omega
      · simp [Nat.min_eq_left (show n ≤ g.b.mem.length by omega)]; omega
    · simp [List.take_append_of_le_length, Nat.min_eq_left (show n ≤ g.b.mem.length by omega)]
    · simp

/-! ## the io.ReadFull loop of SkipN -/

/-- `d` stored at `buf[i:]` -/
def bufPut (buf : Sl) (i : Nat) (d : Bytes) : Sl :=
  { buf with mem := buf.mem.take i ++ d ++ buf.mem.drop (i + d.length) }

/-- `nn, err = p.r.Read(buf[i:])` written back to `buf`, `i += nn` -/
theorem readInto_ok (buf : Sl) (i : Nat) (s : Src) (hi : i ≤ buf.len) (hl : buf.len ≤ buf.mem.length)
    (_hc : buf.mem.length ≤ 2 ^ 45) :
    let p : Sl := { buf with mem := buf.mem.drop i, len := buf.len - i }
    let r := ioRead srcReader s p
    let d := (s.read (buf.len - i)).1
    ssliceFrom buf (i : Int) = .ok p ∧ putBack buf (i : Int) r.1 = bufPut buf i d ∧ r.2.1 = (d.length : Int) ∧
    r.2.2.1 = errCon (s.read (buf.len - i)).2.1 ∧ r.2.2.2 = (s.read (buf.len - i)).2.2 := by
  have hrl := Src.read_len s (buf.len - i)
  generalize hd : (s.read (buf.len - i)).1 = d at hrl
  refine ⟨?_, ?_, ?_, ?_, ?_⟩
  · unfold ssliceFrom; rw [sslice_ok _ _ _ (by omega) (by simp [slen]; omega) (by simp [slen, scap]; omega)]; simp [slen]
  · simp only [ioRead, srcReader, putBack, bufPut, hd, Int.toNat_natCast]
    have e1 : d.take (buf.len - i) = d := List.take_of_length_le hrl
    simp [e1, List.drop_drop]
    omega
  · simp [ioRead, srcReader, hd]
  · simp [ioRead, srcReader]
  · simp [ioRead, srcReader]

abbrev FullLoopT := Nat → RSD → Sl → Err → Int → GM (RSD × Sl × Err × Int)

/-- one round of `for i < n && err == nil { nn, err = p.r.Read(buf[i:]); i += nn }` in normal form — what ANY function
    must satisfy to be that loop (shown for the generated loop function by `full_step` at the use site) -/
def FullStep (L : FullLoopT) (k : Nat) : Prop :=
  (∀ (f : Nat) (g : RSD) (buf : Sl) (i : Nat) (s : Src), g.r = some s → i < k → buf.len = k → k ≤ buf.mem.length →
    buf.mem.length ≤ 2 ^ 45 →
    L (f + 1) g buf Err.nil (i : Int) =
      L f { g with r := some (s.read (k - i)).2.2 } (bufPut buf i (s.read (k - i)).1) (errCon (s.read (k - i)).2.1)
        ((i + (s.read (k - i)).1.length : Nat) : Int)) ∧
  (∀ (f : Nat) (g : RSD) (buf : Sl) (e : Err) (i : Nat), (k ≤ i ∨ e ≠ Err.nil) →
    L (f + 1) g buf e (i : Int) = .ok (g, buf, e, (i : Int)))

set_option hygiene false in
/-- proves `FullStep (the generated ReadFull loop) k` -/
macro "full_step" : tactic => `(tactic| (
  refine ⟨?_, ?_⟩
  · intro f g buf i s hr hik hbl hbm hbc
    obtain ⟨q1, q2, q3, q4, q5⟩ := readInto_ok buf i s (by omega) (by omega) hbc
    rw [hbl] at q1 q2 q3 q4 q5
    have hrl := Src.read_len s (k - i)
    have c1 : (i : Int) < (k : Int) := by omega
    have c2 : ¬ (k : Int) ≤ (i : Int) := by omega
    have hw : wrap .i64 ((i : Int) + ((s.read (k - i)).1.length : Int)) = ((i + (s.read (k - i)).1.length : Nat) : Int) := by
      rw [wrap_i64_id] <;> omega
    have hw' : wrap .i64 (((s.read (k - i)).1.length : Int) + (i : Int)) = ((i + (s.read (k - i)).1.length : Nat) : Int) := by
      rw [wrap_i64_id] <;> omega
    rw [ReaderSkipDecoder_SkipN_loop1]
    simp [-Out.bind_ok, bind_ok_nr, c1, c2, q1, hr, ifaceGet, q2, q3, q4, q5, hw, hw']
  · intro f g buf e i h
    rw [ReaderSkipDecoder_SkipN_loop1]
    rcases h with h | h
    · have c1 : ¬ (i : Int) < (k : Int) := by omega
      have c2 : (k : Int) ≤ (i : Int) := by omega
      simp [c1, c2]
    · simp [h]))

theorem bufPut_take (buf : Sl) (i : Nat) (d : Bytes) (hi : i ≤ buf.mem.length) :
    (bufPut buf i d).mem.take (i + d.length) = buf.mem.take i ++ d := by
  simp only [bufPut]
  rw [List.take_append_of_le_length (by simp [Nat.min_eq_left hi])]
  apply List.take_of_length_le; simp [Nat.min_eq_left hi]

/-- the ReadFull loop is the model's `readFullLoop` (any fuel at least the model's) -/
theorem full_loop_sim (L : FullLoopT) (k : Nat) (hL : FullStep L k) :
    ∀ (fuel : Nat) (s : Src) (g : RSD) (buf : Sl) (i : Nat), g.r = some s → i ≤ k → buf.len = k →
      k ≤ buf.mem.length → buf.mem.length ≤ 2 ^ 45 → s.script.length + 2 ≤ fuel → ∀ f, fuel ≤ f →
      ∃ buf', L f g buf Err.nil (i : Int) =
          .ok ({ g with r := some (readFullLoop fuel s k (buf.mem.take i)).2.2 }, buf',
               errCon (readFullLoop fuel s k (buf.mem.take i)).2.1,
               ((readFullLoop fuel s k (buf.mem.take i)).1.length : Int)) ∧
        buf'.mem.take (readFullLoop fuel s k (buf.mem.take i)).1.length = (readFullLoop fuel s k (buf.mem.take i)).1 ∧
        buf'.len = k ∧ buf'.mem.length = buf.mem.length ∧ (readFullLoop fuel s k (buf.mem.take i)).1.length ≤ k := by
  intro fuel
  induction fuel with
  | zero => intro s g buf i _ _ _ _ _ h; omega
  | succ fu ih =>
    intro s g buf i hr hik hbl hbm hbc hfu f hf
    obtain ⟨f, rfl⟩ : ∃ f', f = f' + 1 := ⟨f - 1, by omega⟩
    have hti : (buf.mem.take i).length = i := by simp; omega
    unfold readFullLoop
    by_cases hge : i ≥ k
    · have hik' : i = k := by omega
      simp only [hti, hge, if_true]
      refine ⟨buf, ?_, by simp, hbl, rfl, by omega⟩
      rw [hL.2 f g buf Err.nil i (Or.inl hge)]
      have : ({ g with r := some s } : RSD) = g := by cases g; simp_all
      simp [this, errCon, hti]
    · have hlt : i < k := by omega
      have hrl := Src.read_len s (k - i)
      simp only [hti, hge, if_false]
      rw [hL.1 f g buf i s hr hlt hbl hbm hbc]
      generalize hres : s.read (k - i) = res at *
      have htake := bufPut_take buf i res.1 (by omega)
      have hml : (bufPut buf i res.1).mem.length = buf.mem.length := by
        simp [bufPut, Nat.min_eq_left (show i ≤ buf.mem.length by omega)]; omega
      have hmin : min i buf.mem.length = i := by omega
      cases he : res.2.1 with
      | some e =>
        -- the source failed (possibly with data): the loop stops
        obtain ⟨f, rfl⟩ : ∃ f', f = f' + 1 := ⟨f - 1, by omega⟩
        have hne : errCon (some e) ≠ Err.nil := by cases e <;> simp [errCon]
        refine ⟨bufPut buf i res.1, ?_, by simpa [hmin] using htake, hbl, hml, by simp [hmin]; omega⟩
        rw [hL.2 f _ _ _ _ (Or.inr hne)]
        simp [hmin]
      | none =>
        simp only []
        -- an answer without error consumed a script entry
        have hscr : res.2.2.script.length + 2 ≤ fu := by
          cases hsc : s.script with
          | nil => rw [← hres, Src.read_nil s _ hsc] at he; simp at he
          | cons r rest =>
            rw [← hres, Src.read_cons s _ r rest hsc]
            simp [hsc] at hfu ⊢; omega
        have := ih res.2.2 { g with r := some res.2.2 } (bufPut buf i res.1) (i + res.1.length) rfl (by omega) hbl
          (by rw [hml]; exact hbm) (by rw [hml]; exact hbc) hscr f (by omega)
        rw [htake] at this
        obtain ⟨buf', h1, h2, h3, h4, h5⟩ := this
        exact ⟨buf', by simpa [errCon] using h1, h2, h3, by rw [h4, hml], h5⟩

/-- the ReadFull loop ends without error only when all `k` bytes are there -/
theorem readFullLoop_none : ∀ (fuel : Nat) (s : Src) (k : Nat) (acc : Bytes),
    (readFullLoop fuel s k acc).2.1 = none → k ≤ (readFullLoop fuel s k acc).1.length := by
  intro fuel
  induction fuel with
  | zero => intro s k acc h; simp [readFullLoop] at h
  | succ f ih =>
    intro s k acc h
    unfold readFullLoop at h ⊢
    by_cases hge : acc.length ≥ k
    · simp only [hge, if_true]
    · simp only [hge, if_false] at h ⊢
      cases he : (s.read (k - acc.length)).2.1 with
      | some e => simp [he] at h
      | none => simp only [he] at h ⊢; exact ih _ _ _ h

/-- the result `(buf, err)` and the receiver of a generated `SkipN` against the model back end -/
def SkipNOK (x : GM (RSD × Sl × Err)) (y : TOut (Bytes × ReaderDec)) : Prop :=
  match y with
  | .ok (bytes, s') => ∃ g' buf, x = .ok (g', buf, Err.nil) ∧ buf.data = bytes ∧ absRSD g' = s' ∧ RInv g'
  | .err (.raw e) => ∃ g' buf, x = .ok (g', buf, errCon (some e)) ∧ RInv g'
  | _ => False

/-- the loop call followed by the rest of SkipN: `L` and the continuation are found by unification with the goal -/
theorem full_bind_ok (L : FullLoopT) (k : Nat) (hL : FullStep L k) (s : Src) (g : RSD) (buf : Sl)
    (hr : g.r = some s) (hbl : buf.len = k) (hbm : k ≤ buf.mem.length) (hbc : buf.mem.length ≤ 2 ^ 45) (f : Nat)
    (hf : s.script.length + 2 ≤ f) (K : RSD × Sl × Err × Int → GM (RSD × Sl × Err)) (y : TOut (Bytes × ReaderDec))
    (h : ∀ buf' : Sl,
      buf'.mem.take (readFullLoop (s.script.length + 2) s k []).1.length = (readFullLoop (s.script.length + 2) s k []).1 →
      buf'.len = k → buf'.mem.length = buf.mem.length → (readFullLoop (s.script.length + 2) s k []).1.length ≤ k →
      SkipNOK (K ({ g with r := some (readFullLoop (s.script.length + 2) s k []).2.2 }, buf',
           errCon (readFullLoop (s.script.length + 2) s k []).2.1,
           ((readFullLoop (s.script.length + 2) s k []).1.length : Int))) y) :
    SkipNOK ((L f g buf Err.nil 0).bind K) y := by
  obtain ⟨buf', h1, h2, h3, h4, h5⟩ := full_loop_sim L k hL (s.script.length + 2) s g buf 0 hr (by omega) hbl hbm hbc
    (Nat.le_refl _) f hf
  simp only [List.take_zero, Int.natCast_zero] at h1 h2 h5
  rw [h1]
  exact h buf' h2 h3 h4 h5

theorem ReaderSkipDecoder_SkipN_sim (O : Nat → Nat → Bytes) (fuel : Nat) (g : RSD) (k : Nat) (hi : RInv g)
    (hk : k + g.n.toNat ≤ 2 ^ 44) (hfuel : (absRSD g).src.script.length + 2 ≤ fuel) :
    SkipNOK (ReaderSkipDecoder_SkipN srcReader O fuel g (k : Int)) (readerBackend.skipN (absRSD g) k) := by
  obtain ⟨n, hn⟩ : ∃ n : Nat, g.n = (n : Int) := ⟨g.n.toNat, by have := hi.n_nonneg; omega⟩
  obtain ⟨s, hs⟩ := Option.isSome_iff_exists.mp hi.r_some
  have hsrc : (absRSD g).src = s := by simp [absRSD, hs]
  have hgot : (absRSD g).got = g.b.mem.take n := by simp [absRSD, hn]
  rw [hsrc] at hfuel
  rw [hn] at hk; simp only [Int.toNat_natCast] at hk
  obtain ⟨g1, hgrow, hi1, hn1, hr1, htk, hroom⟩ := Grow_post O g n k hn hi hk
  have h1 := hi1.len_le; have h2 := hi1.cap_le
  rw [hn] at hn1; rw [hs] at hr1
  -- `buf = p.b[p.n : p.n+n]`, however the bound is written
  have hsl : ∀ hi' : Int, hi' = ((n + k : Nat) : Int) →
      sslice g1.b (n : Int) hi' = .ok { g1.b with mem := g1.b.mem.drop n, len := k } := by
    intro hi' e; subst e
    rw [sslice_ok _ _ _ (by omega) (by omega) (by simp [scap]; omega)]; simp; omega
  unfold ReaderSkipDecoder_SkipN
  simp [-Out.bind_ok, bind_ok_nr, hgrow, hn1]
  rw [hsl]
  rotate_left
  · rw [wrap_i64_id] <;> omega
  simp [-Out.bind_ok, bind_ok_nr]
  -- the model
  simp only [readerBackend, hsrc, hgot]
  refine full_bind_ok _ k ?step s g1 { g1.b with mem := g1.b.mem.drop n, len := k } hr1 rfl (by simp; omega)
    (by simp; omega) fuel hfuel _ _ ?_
  case step => full_step
  intro buf' hb2 hb3 hb4 hb5
  have hnone := readFullLoop_none (s.script.length + 2) s k []
  generalize readFullLoop (s.script.length + 2) s k [] = res at *
  have hdl : (g1.b.mem.drop n).length = g1.b.mem.length - n := by simp
  simp only [hdl] at hb4
  by_cases hfull : res.1.length ≥ k
  · -- all `k` bytes are there (an error that came with the last of them belongs to the next read)
    have hlen : res.1.length = k := by omega
    have c1 : (k : Int) ≤ (res.1.length : Int) := by omega
    have c2 : ¬ (res.1.length : Int) < (k : Int) := by omega
    have hw : wrap .i64 ((n : Int) + (k : Int)) = ((n + k : Nat) : Int) := by rw [wrap_i64_id] <;> omega
    have hw' : wrap .i64 ((k : Int) + (n : Int)) = ((n + k : Nat) : Int) := by rw [wrap_i64_id] <;> omega
    simp only [hfull, if_true]
    have hmin' : min n g1.b.mem.length = n := by omega
    refine ⟨{ g1 with r := some res.2.2, b := putBack g1.b (n : Int) buf', n := ((n + k : Nat) : Int) }, buf', ?_, ?_, ?_, ?_⟩
    · simp [-Out.bind_ok, bind_ok_nr, c1, c2, hn1, hw, hw', ite_bind]
    · simp [Sl.data, hb3, ← hlen, hb2]
    · have hnl : n ≤ g1.b.mem.length := by omega
      have hmin : min n g1.b.mem.length = n := by omega
      have hl1 : (g1.b.mem.take n).length = n := by simp; omega
      have hbk : k ≤ buf'.mem.length := by omega
      have e1 : (g1.b.mem.take n ++ buf'.mem ++ g1.b.mem.drop (n + buf'.mem.length)).take (n + k)
          = g1.b.mem.take n ++ buf'.mem.take k := by
        rw [List.append_assoc, List.take_append, hl1, List.take_of_length_le (by omega), Nat.add_sub_cancel_left,
          List.take_append_of_le_length hbk]
      have e2 : buf'.mem.take k = res.1 := by rw [← hlen]; exact hb2
      simp only [absRSD, putBack, Int.toNat_natCast, Option.getD_some]
      rw [e1, e2, htk]
    · refine ⟨by simp; omega, by simp [putBack]; omega, ?_, ?_, rfl⟩
      · simp [putBack, hmin']; omega
      · simp [putBack, hmin']; omega
  · -- short: the source's error is returned, `p.n` stays
    have c1 : ¬ (k : Int) ≤ (res.1.length : Int) := by omega
    have c2 : (res.1.length : Int) < (k : Int) := by omega
    simp only [hfull, if_false]
    cases he : res.2.1 with
    | none => exact absurd (hnone he) hfull
    | some e =>
      have hne : errCon (some e) ≠ Err.nil := by cases e <;> simp [errCon]
      have hmin' : min n g1.b.mem.length = n := by omega
      refine ⟨{ g1 with r := some res.2.2, b := putBack g1.b (n : Int) buf' }, buf', ?_, ?_⟩
      · simp [-Out.bind_ok, bind_ok_nr, c1, c2, he, hne, ite_bind]
      · refine ⟨by simp [hn1], by simp [putBack, hn1]; omega, ?_, ?_, rfl⟩
        · simp [putBack, hmin']; omega
        · simp [putBack, hmin']; omega
/-! ## the third back end of the generic skip decoder: `TplG.Impl`, and `Next` through the template -/

open Verif.FuncsEq in
/-- a Go error of the translation under an error naming of the template lemmas -/
def errG (N : ErrNaming) (e : Err) : GoSem.GoErr :=
  match errAbs e with
  | none => GoSem.GoErr.nil
  | some r => N.errOf (.raw r)

open Verif.FuncsEq in
/-- the translated `SkipN` as the `SkipDecoderIface` value the translated template takes -/
def ifR (N : ErrNaming) (O : Nat → Nat → Bytes) (fuel : Nat) : GoSem.SkipNI RSD :=
  { skipN := fun p n => do
      let r ← ReaderSkipDecoder_SkipN srcReader O fuel p n
      pure ((r.2.1.data, errG N r.2.2), r.1) }

/-- what the loop read comes off the stream; the script only gets shorter; never more than asked for -/
theorem readFullLoop_acct : ∀ (fuel : Nat) (s : Src) (k : Nat) (acc : Bytes), acc.length ≤ k →
    (readFullLoop fuel s k acc).1.length + (readFullLoop fuel s k acc).2.2.stream.length = acc.length + s.stream.length ∧
    (readFullLoop fuel s k acc).2.2.script.length ≤ s.script.length ∧ (readFullLoop fuel s k acc).1.length ≤ k := by
  intro fuel
  induction fuel with
  | zero => intro s k acc h; simp [readFullLoop]; exact h
  | succ f ih =>
    intro s k acc h
    unfold readFullLoop
    by_cases hge : acc.length ≥ k
    · simp only [hge, if_true]; exact ⟨trivial, Nat.le_refl _, h⟩
    · simp only [hge, if_false]
      have h1 := Src.read_stream s (k - acc.length)
      have h2 := Src.read_len s (k - acc.length)
      have h3 : (s.read (k - acc.length)).2.2.script.length ≤ s.script.length := by
        unfold Src.read; split <;> simp_all
      have h1' := congrArg List.length h1
      simp only [List.length_append] at h1'
      cases he : (s.read (k - acc.length)).2.1 with
      | some e => simp only []; refine ⟨by simp; omega, h3, by simp; omega⟩
      | none =>
        simp only []
        have := ih (s.read (k - acc.length)).2.2 k (acc ++ (s.read (k - acc.length)).1) (by simp; omega)
        simp only [List.length_append] at this
        exact ⟨by omega, by omega, this.2.2⟩

/-- the states on which the translated back end is used: small enough for Go's `int`, fuel for the script -/
def ReaderOK (fuel : Nat) (s : ReaderDec) : Prop :=
  s.got.length + s.src.stream.length ≤ 2 ^ 43 ∧ s.src.script.length + 2 ≤ fuel

theorem reader_meas (fuel : Nat) : FuncsEq.Meas readerBackend (fun s => s.src.stream.length) (ReaderOK fuel) := by
  constructor
  · intro s n b s' hp hn h
    have ha := readFullLoop_acct (s.src.script.length + 2) s.src n [] (Nat.zero_le _)
    have hnone := readFullLoop_none (s.src.script.length + 2) s.src n []
    simp only [readerBackend] at h
    generalize readFullLoop (s.src.script.length + 2) s.src n [] = res at *
    have hlen : n ≤ res.1.length := by
      by_cases hge : res.1.length ≥ n
      · exact hge
      · simp only [hge, if_false] at h
        cases he : res.2.1 with
        | none => exact hnone he
        | some e => simp [he] at h
    have hs' : s' = { src := res.2.2, got := s.got ++ res.1 } := by
      by_cases hge : res.1.length ≥ n
      · simp [hge] at h; exact h.2.symm
      · simp only [hge, if_false] at h
        cases he : res.2.1 with
        | none => simp [he] at h; exact h.2.symm
        | some e => simp [he] at h
    subst hs'
    obtain ⟨h1, h2⟩ := hp
    simp only [List.length_nil, Nat.zero_add] at ha
    refine ⟨⟨by simp; omega, by simp; omega⟩, by simp; omega⟩
  · intro s _; exact Nat.le_refl _

/-- the relation of the template lemmas: the invariant holds and the model state is the abstraction -/
def RR (p : RSD) (s : ReaderDec) : Prop := RInv p ∧ s = absRSD p

open Verif.FuncsEq in
/-- the translated `SkipN` implements the model's reader back end -/
theorem ifR_impl (N : ErrNaming) (O : Nat → Nat → Bytes) (fuel : Nat) :
    TplG.Impl N RR (ifR N O fuel) readerBackend (ReaderOK fuel) := by
  constructor
  intro p s n hR hp h0 hn
  obtain ⟨hi, rfl⟩ := hR
  obtain ⟨k, rfl⟩ : ∃ k : Nat, n = (k : Int) := ⟨n.toNat, by omega⟩
  obtain ⟨hp1, hp2⟩ := hp
  have hgl : (absRSD p).got.length = p.n.toNat := by
    have := hi.n_nonneg; have := hi.n_le; have := hi.len_le
    simp [absRSD]; omega
  have hsim := ReaderSkipDecoder_SkipN_sim O fuel p k hi (by omega) hp2
  simp only [Int.toNat_natCast, ifR]
  generalize readerBackend.skipN (absRSD p) k = y at hsim
  match y, hsim with
  | .ok (bytes, s'), ⟨g', buf, hx, hb, ha, hi'⟩ =>
    rw [hx]
    simp only [Out.bind_eq, Out.bind_ok, Out.pure_eq, errG, errAbs, hb]
    exact TplG.SSim.ok bytes g' s' ⟨hi', ha.symm⟩
  | .err (.raw e), ⟨g', buf, hx, hi'⟩ =>
    rw [hx]
    simp only [Out.bind_eq, Out.bind_ok, Out.pure_eq, errG, errAbs_errCon]
    have := TplG.SSim.err (N := N) (R := RR) buf.data g' (N.errOf (.raw e)) (N.ne_nil _)
    rwa [N.inv] at this

open Verif.FuncsEq in
/-- `ReaderSkipDecoder.Next`'s call of the generic skip decoder (`p.n = 0; NewSkipDecoderTpl(p).Skip(t, depth)`), with the
    translated `SkipN` as its back end, IS the model's `skipTplAt readerBackend` — and what `Next` returns, `p.b[:p.n]`
    with the source afterwards, is the model's `readerDecNext` -/
theorem RSD_Next_eq (N : ErrNaming) (O : Nat → Nat → Bytes) (f fuel : Nat) (p : RSD) (src : Src) (t : UInt8)
    (hi : RInv p) (hr : p.r = some src) (hsm : src.stream.length ≤ 2 ^ 43) (hf : src.script.length + 2 ≤ f)
    (hfuel : src.stream.length + 66 ≤ fuel) :
    (TplG.liftTplG N.absE absRSD
        (Funcs.Tpl_Skip (ifR N O f) fuel { p with n := 0 } (toI8 t.toNat) (Facts.defaultRecursionDepth : Nat))).bind
      (fun s => .ok (s.got, s.src)) = readerDecNext src t := by
  have hi0 : RInv { p with n := 0 } :=
    ⟨Int.le_refl 0, by simp, hi.len_le, hi.cap_le, hi.r_some⟩
  have habs : absRSD { p with n := 0 } = { src := src, got := [] } := by simp [absRSD, hr]
  have := Tpl_Skip_eqG N (R := RR) (α := absRSD) (fun _ _ h => h.2) (reader_meas f) (ifR_impl N O f)
    { p with n := 0 } { src := src, got := [] } t Facts.defaultRecursionDepth fuel ⟨hi0, habs.symm⟩
    ⟨by simp; omega, by simpa using hf⟩ (by simp [Facts.defaultRecursionDepth]) (by simp [Facts.defaultRecursionDepth]; omega)
  rw [this]
  rfl

/-! ## the generated decoder runs -/

/-- `SkipN(k)` for every `k` of the list on a fresh decoder: bytes and error of each call, `p.b[:p.n]` and the source after -/
def exSkips (src : Src) (ks : List Int) : GM (List (Bytes × Err) × Bytes × Option Src) :=
  let rec go (g : RSD) (acc : List (Bytes × Err)) : List Int → GM (List (Bytes × Err) × Bytes × Option Src)
    | [] => pure (acc.reverse, (absRSD g).got, g.r)
    | k :: ks => do
      let r ← ReaderSkipDecoder_SkipN srcReader exO 50 g k
      go r.1 ((r.2.1.data, r.2.2) :: acc) ks
  go { r := some src } [] ks

-- chunked delivery, two calls: the buffer grows (copy, then the old one is freed), what was skipped stays in `p.b[:p.n]`
example : exSkips ⟨[1, 2, 3, 4, 5, 6, 7], [⟨2, none⟩, ⟨0, none⟩, ⟨9, none⟩, ⟨9, none⟩]⟩ [3, 4] =
    .ok ([([1, 2, 3], Err.nil), ([4, 5, 6, 7], Err.nil)], [1, 2, 3, 4, 5, 6, 7], some ⟨[], []⟩) := by decide +kernel

-- the last bytes arrive together with io.EOF: no error (`if i >= n { err = nil }`, the F9 fix); the next call sees EOF
-- (its buffer is what mcache handed out: 0xA1)
example : exSkips ⟨[1, 2, 3], [⟨2, none⟩, ⟨1, some .eof⟩]⟩ [3, 1] =
    .ok ([([1, 2, 3], Err.nil), ([161], Err.eof)], [1, 2, 3], some ⟨[], []⟩) := by decide +kernel

-- a source error in the middle is returned (the bytes read so far are in the returned slice, `p.n` stays)
example : exSkips ⟨[1, 2, 3], [⟨1, none⟩, ⟨1, some (.src 7)⟩]⟩ [3] =
    .ok ([([1, 2, 161], Err.src 7)], [], some ⟨[3], []⟩) := by decide +kernel

-- a nil reader panics; Release resets and keeps the buffer
example : ReaderSkipDecoder_SkipN srcReader exO 50 ({} : RSD) 1 = .panic "nilderef" := by decide +kernel
example : (do let g ← ReaderSkipDecoder_Release { r := some (⟨[1], []⟩ : Src), n := 3, b := Sl.ofBytes [7, 8, 9] }
              pure ((absRSD g).got, g.r, g.b.len)) = .ok ([], none, 3) := by decide +kernel

end Verif.BufioxEq

/-
  Lemmas/Funcs/TTHEncode: the WRITE side of TTHeader, TRANSLATED from protocol/ttheader/{utils.go, encode.go}
  (`Verif.Funcs.tth_WriteByte`, `tth_WriteUint16`, `tth_WriteUint32`, `tth_WriteString`, `tth_WriteString2BLen`,
  `tth_writeKVInfo`, `tth_Encode`; generated, over an abstract `bufiox.Writer` = `WriterI ρ`), is the hand-written model
  of `Model/TTHeader` (`TTH.writeByte`, `writeU16`, `writeU32`, `writeStr4`, `writeStr2`, `writeKVInfo`, `encode`) over the
  writer log `TTH.W`.

  * `twI ew : WriterI W` is the model's writer seen as the abstract Go interface: `malloc` appends a region with the
    model's arbitrary initial content (`w.dirt <region id>`) and hands out the region id as the handle; `commit w h bs`
    stores `bs` as the content of region `h` (what the translated function wrote through the slice `Malloc` returned —
    committed when the function returns, also when later `Malloc`s came in between: `Encode` keeps the header-meta region
    and fills its size field last); `writeBinary` appends the bytes. A broken writer (`w.broken`, the sticky error) returns
    the error `ew ≠ nil` and nothing else happens.
  * Go's map iteration order: the translated `writeKVInfo` / `Encode` take the two visited sequences as explicit
    parameters `ord1` (strKVMap) and `ord2` (intKVMap); the model takes the maps as the lists it iterates. The theorems hold
    for every pair of sequences and every pair of Go maps whose `len` and `[GDPRToken]` agree with the string sequence
    (`KVArgs`), which is what Go guarantees when the sequences are iteration orders of the maps (`kvArgs_of_order`).
  * lifts: a nil error is `.ok`, any other error is the model's `.writer` (or `.size` for Encode's own error); panics are
    carried over.

  Method: with the concrete instance every callee has a closed form (`if w.broken then (w, ew) else (w.push …, nil)`), so
  has every model function; the theorems split on `w.broken`, on the presence of the GDPR token and on the two sizes.
-/
import Verif.Lemmas.Funcs.TTH2
import Verif.Lemmas.Funcs.Write
import Verif.Lemmas.Funcs.FcW
-- the simp sets below are deliberately wider than any single use needs (they are shared by all cases)
set_option linter.unusedSimpArgs false
namespace Verif.FuncsEq
open Verif Verif.GoSem Verif.TTH

/-! ## the model's writer as a `WriterI` -/

/-- fresh memory of the next region -/
def _root_.Verif.TTH.W.fresh (w : W) (k : Nat) : Bytes := (List.range k).map (w.dirt w.n)

/-- one more item -/
def _root_.Verif.TTH.W.push (w : W) (r : Bytes) : W := { w with items := r :: w.items, n := w.n + 1 }

/-- the content of region `id` replaced -/
def _root_.Verif.TTH.W.setRegion (w : W) (id : Nat) (bs : Bytes) : W :=
  if id < w.n then { w with items := w.items.set (w.n - 1 - id) bs } else w

def twI (ew : GoErr) : WriterI W where
  malloc w n :=
    if w.broken then .ok (([], w.n, ew), w)
    else if n < 0 then .ok (([], w.n, ew), w)
    else .ok ((w.fresh n.toNat, w.n, GoErr.nil), w.push (w.fresh n.toNat))
  commit w h bs := w.setRegion h bs
  writeBinary w v :=
    if w.broken then .ok ((0, ew), w) else .ok (((v.length : Int), GoErr.nil), w.push v)
  writtenLen w := (w.bytes.length : Int)

@[simp] theorem _root_.Verif.TTH.W.fresh_length (w : W) (k : Nat) : (w.fresh k).length = k := by simp [W.fresh]
@[simp] theorem _root_.Verif.TTH.W.push_broken (w : W) (r : Bytes) : (w.push r).broken = w.broken := rfl
@[simp] theorem _root_.Verif.TTH.W.push_n (w : W) (r : Bytes) : (w.push r).n = w.n + 1 := rfl

theorem twI_malloc_ok (ew : GoErr) (w : W) (n : Int) (hb : w.broken = false) (hn : 0 ≤ n) :
    (twI ew).malloc w n = .ok ((w.fresh n.toNat, w.n, GoErr.nil), w.push (w.fresh n.toNat)) := by
  have : ¬ n < 0 := by omega
  simp [twI, hb, this]

theorem twI_malloc_broken (ew : GoErr) (w : W) (n : Int) (hb : w.broken = true) :
    (twI ew).malloc w n = .ok (([], w.n, ew), w) := by
  simp [twI, hb]

theorem twI_writeBinary_ok (ew : GoErr) (w : W) (v : Bytes) (hb : w.broken = false) :
    (twI ew).writeBinary w v = .ok (((v.length : Int), GoErr.nil), w.push v) := by
  simp [twI, hb]

theorem twI_writeBinary_broken (ew : GoErr) (w : W) (v : Bytes) (hb : w.broken = true) :
    (twI ew).writeBinary w v = .ok ((0, ew), w) := by
  simp [twI, hb]

/-- the region handed out last receives its final contents -/
theorem twI_commit_top (ew : GoErr) (w : W) (r r' : Bytes) : (twI ew).commit (w.push r) w.n r' = w.push r' := by
  simp [twI, W.setRegion, W.push]

/-- the handle returned next to an error names no region -/
theorem twI_commit_none (ew : GoErr) (w : W) (bs : Bytes) : (twI ew).commit w w.n bs = w := by
  simp [twI, W.setRegion]

/-! ## closed forms of the model's writers -/

theorem Out_bind_assoc' {ε α β γ : Type} (x : Out ε α) (f : α → Out ε β) (g : β → Out ε γ) :
    (x.bind f).bind g = x.bind fun a => (f a).bind g := by
  cases x <;> rfl

theorem malloc_put (w : W) (hb : w.broken = false) (k : Nat) (v : Bytes) (hv : v.length = k) :
    (w.malloc k).bind (fun r => r.2.put r.1 0 v) = .ok (w.push v) := by
  subst hv
  have h1 : ¬ (w.n + 1 ≤ w.n) := by omega
  have h2 : List.drop v.length (List.map (w.dirt w.n) (List.range v.length)) = [] := by simp
  simp [W.malloc, W.put, hb, W.push, h1, h2]

theorem malloc_put_bind {β : Type} (w : W) (hb : w.broken = false) (k : Nat) (v : Bytes) (hv : v.length = k)
    (f : W → Out EErr β) :
    (w.malloc k).bind (fun r => (r.2.put r.1 0 v).bind f) = f (w.push v) := by
  have := malloc_put w hb k v hv
  rw [← Out_bind_assoc', this]; rfl

theorem malloc_broken (w : W) (hb : w.broken = true) (k : Nat) : w.malloc k = .err .writer := by
  simp [W.malloc, hb]

theorem writeByte_cf (w : W) (v : Nat) :
    writeByte w v = if w.broken then .err .writer else .ok (w.push [UInt8.ofNat v]) := by
  unfold writeByte
  cases hb : w.broken
  · rw [malloc_put w hb 1 _ rfl]; simp
  · rw [malloc_broken w hb]; simp

theorem writeU16_cf (w : W) (v : Nat) :
    writeU16 w v = if w.broken then .err .writer else .ok (w.push (be16 v)) := by
  unfold writeU16
  cases hb : w.broken
  · rw [malloc_put w hb 2 _ rfl]; simp
  · rw [malloc_broken w hb]; simp

theorem writeU32_cf (w : W) (v : Nat) :
    writeU32 w v = if w.broken then .err .writer else .ok (w.push (be32 v)) := by
  unfold writeU32
  cases hb : w.broken
  · rw [malloc_put w hb 4 _ rfl]; simp
  · rw [malloc_broken w hb]; simp

theorem writeStr2_cf (w : W) (s : Bytes) :
    writeStr2 w s = if w.broken then .err .writer
      else .ok (s.length + 2, (w.push (be16 (s.length % 65536))).push s) := by
  unfold writeStr2
  rw [writeU16_cf]
  cases hb : w.broken
  · simp [W.writeBinary, hb, W.push]
  · simp

theorem writeStr4_cf (w : W) (s : Bytes) :
    writeStr4 w s = if w.broken then .err .writer
      else .ok (s.length + 4, (w.push (be32 (s.length % 4294967296))).push s) := by
  unfold writeStr4
  rw [writeU32_cf]
  cases hb : w.broken
  · simp [W.writeBinary, hb, W.push]
  · simp

/-! ## lifts -/

/-- `(writer, err)` of a translated writer as the model's outcome -/
def liftE (x : GM (W × GoErr)) : Out EErr W :=
  match x with
  | .ok r => if r.2 = .nil then .ok r.1 else .err .writer
  | .panic s => .panic s
  | .oob => .oob
  | .err e => nomatch e

/-- `(writer, n, err)` as the model's `(n, writer)` -/
def liftEN (x : GM (W × Int × GoErr)) : Out EErr (Nat × W) :=
  match x with
  | .ok r => if r.2.2 = .nil then .ok (r.2.1.toNat, r.1) else .err .writer
  | .panic s => .panic s
  | .oob => .oob
  | .err e => nomatch e

theorem be16_ofInt_nat (n : Nat) : be16 (ofInt 16 (n : Int)) = be16 n := by
  have : ofInt 16 (n : Int) = n % 65536 := by unfold ofInt; omega
  rw [this]
  unfold be16
  congr 1
  · apply ofNat_congr; omega
  congr 1
  · apply ofNat_congr; omega

theorem be16_toU (x : Int) : be16 (toU 16 x).toNat = be16 (ofInt 16 x) := by
  rw [toU_ofInt]; simp
theorem be32_toU (x : Int) : be32 (toU 32 x).toNat = be32 (ofInt 32 x) := by
  rw [toU_ofInt]; simp

/-! ## utils.go: closed forms of the translated writers over `twI` -/

/-- stores that fill a whole local slice -/
theorem vset_whole1 (b : Bytes) (h : b.length = 1) (x : Int) : vset b 0 0 x = .ok [byteOf x] := by
  match b, h with
  | [a], _ => simp [vset, vlen, len, putAt]

theorem vputU16_whole (b : Bytes) (h : b.length = 2) (x : Int) : vputU16 b 0 x = .ok (be16 (ofInt 16 x)) := by
  match b, h with
  | [a, c], _ => simp [vputU16, vlen, len, putAt, be16_toU]

theorem vputU32_whole (b : Bytes) (h : b.length = 4) (x : Int) : vputU32 b 0 x = .ok (be32 (ofInt 32 x)) := by
  match b, h with
  | [a, c, d, f], _ => simp [vputU32, vlen, len, putAt, be32_toU]

section writers
variable (ew : GoErr) (hew : ew ≠ GoErr.nil)
include hew

theorem tth_WriteByte_cf (w : W) (v : Int) :
    Funcs.tth_WriteByte (twI ew) v w =
      if w.broken then .ok (w, ew) else .ok (w.push [byteOf v], GoErr.nil) := by
  unfold Funcs.tth_WriteByte
  cases hb : w.broken
  · rw [twI_malloc_ok ew w 1 hb (by omega)]
    simp [vset_whole1, twI_commit_top]
  · rw [twI_malloc_broken ew w 1 hb]
    simp [hew, twI_commit_none]

theorem tth_WriteUint16_cf (w : W) (v : Int) :
    Funcs.tth_WriteUint16 (twI ew) v w =
      if w.broken then .ok (w, ew) else .ok (w.push (be16 (ofInt 16 v)), GoErr.nil) := by
  unfold Funcs.tth_WriteUint16
  cases hb : w.broken
  · rw [twI_malloc_ok ew w 2 hb (by omega)]
    simp [vputU16_whole, twI_commit_top]
  · rw [twI_malloc_broken ew w 2 hb]
    simp [hew, twI_commit_none]

theorem tth_WriteUint32_cf (w : W) (v : Int) :
    Funcs.tth_WriteUint32 (twI ew) v w =
      if w.broken then .ok (w, ew) else .ok (w.push (be32 (ofInt 32 v)), GoErr.nil) := by
  unfold Funcs.tth_WriteUint32
  cases hb : w.broken
  · rw [twI_malloc_ok ew w 4 hb (by omega)]
    simp [vputU32_whole, twI_commit_top]
  · rw [twI_malloc_broken ew w 4 hb]
    simp [hew, twI_commit_none]

theorem tth_WriteString2BLen_cf (w : W) (s : Bytes) (hs : s.length < 2 ^ 62) :
    Funcs.tth_WriteString2BLen (twI ew) s w =
      if w.broken then .ok (w, 0, ew)
      else .ok ((w.push (be16 (s.length % 65536))).push s, ((s.length + 2 : Nat) : Int), GoErr.nil) := by
  simp only [Funcs.tth_WriteString2BLen, tth_WriteUint16_cf ew hew]
  cases hb : w.broken
  · have e1 : be16 (ofInt 16 (wrap .u16 (len s))) = be16 (s.length % 65536) := by
      rw [ofInt_wrap 16 .u16 _ (by decide)]; unfold len; rw [be16_ofInt_nat]
      unfold be16; congr 1
      · apply ofNat_congr; omega
      congr 1
      · apply ofNat_congr; omega
    have hb' : (w.push (be16 (s.length % 65536))).broken = false := by simp [hb]
    simp only [Bool.false_eq_true, if_false, Out.bind_ok, Out.bind_eq, Out.pure_eq, ne_eq, not_true_eq_false,
      decide_false, e1, twI_writeBinary_ok ew _ s hb']
    rw [wrap_i64_of_range _ (by omega) (by omega)]
    simp
  · simp [hew]

theorem tth_WriteString_cf (w : W) (s : Bytes) (hs : s.length < 2 ^ 62) :
    Funcs.tth_WriteString (twI ew) s w =
      if w.broken then .ok (w, 0, ew)
      else .ok ((w.push (be32 (s.length % 4294967296))).push s, ((s.length + 4 : Nat) : Int), GoErr.nil) := by
  simp only [Funcs.tth_WriteString, tth_WriteUint32_cf ew hew]
  cases hb : w.broken
  · have e1 : be32 (ofInt 32 (wrap .u32 (len s))) = be32 (s.length % 4294967296) := by
      rw [ofInt_wrap 32 .u32 _ (by decide)]; unfold len; rw [be32_ofInt_nat, be32_mod]
    have hb' : (w.push (be32 (s.length % 4294967296))).broken = false := by simp [hb]
    simp only [Bool.false_eq_true, if_false, Out.bind_ok, Out.bind_eq, Out.pure_eq, ne_eq, not_true_eq_false,
      decide_false, e1, twI_writeBinary_ok ew _ s hb']
    rw [wrap_i64_of_range _ (by omega) (by omega)]
    simp
  · simp [hew]

/-! ### the five writers of utils.go ARE the model's writers -/

omit hew in
theorem byteOf_nat (v : Nat) : byteOf (v : Int) = UInt8.ofNat v := by
  rw [byteOf_eq]; apply ofNat_congr; unfold ofInt; omega

theorem tth_WriteByte_eq (w : W) (v : Nat) : liftE (Funcs.tth_WriteByte (twI ew) (v : Int) w) = writeByte w v := by
  rw [tth_WriteByte_cf ew hew, writeByte_cf, byteOf_nat]
  cases w.broken <;> simp [liftE, hew]

theorem tth_WriteUint16_eq (w : W) (v : Nat) : liftE (Funcs.tth_WriteUint16 (twI ew) (v : Int) w) = writeU16 w v := by
  rw [tth_WriteUint16_cf ew hew, writeU16_cf, be16_ofInt_nat]
  cases w.broken <;> simp [liftE, hew]

theorem tth_WriteUint32_eq (w : W) (v : Nat) : liftE (Funcs.tth_WriteUint32 (twI ew) (v : Int) w) = writeU32 w v := by
  rw [tth_WriteUint32_cf ew hew, writeU32_cf, be32_ofInt_nat]
  cases w.broken <;> simp [liftE, hew]

theorem tth_WriteString2BLen_eq (w : W) (s : Bytes) (hs : s.length < 2 ^ 62) :
    liftEN (Funcs.tth_WriteString2BLen (twI ew) s w) = writeStr2 w s := by
  rw [tth_WriteString2BLen_cf ew hew w s hs, writeStr2_cf]
  cases w.broken <;> simp [liftEN, hew]
  omega

theorem tth_WriteString_eq (w : W) (s : Bytes) (hs : s.length < 2 ^ 62) :
    liftEN (Funcs.tth_WriteString (twI ew) s w) = writeStr4 w s := by
  rw [tth_WriteString_cf ew hew w s hs, writeStr4_cf]
  cases w.broken <;> simp [liftEN, hew]
  omega

end writers

/-! ## encode.go: writeKVInfo -/

/-- bytes the string / int key-value sections can take (an upper bound; used to keep Go's `int` arithmetic exact) -/
def strSz (it : List (Bytes × Bytes)) : Nat := (it.map fun kv => kv.1.length + kv.2.length + 4).sum
def intSz (it : List (Nat × Bytes)) : Nat := (it.map fun kv => kv.2.length + 4).sum

theorem strSz_cons (kv : Bytes × Bytes) (r : List (Bytes × Bytes)) :
    strSz (kv :: r) = kv.1.length + kv.2.length + 4 + strSz r := by simp [strSz]
theorem intSz_cons (kv : Nat × Bytes) (r : List (Nat × Bytes)) :
    intSz (kv :: r) = kv.2.length + 4 + intSz r := by simp [intSz]

theorem lookup_le_strSz (it : List (Bytes × Bytes)) (k v : Bytes) (h : it.lookup k = some v) :
    v.length + 4 ≤ strSz it := by
  induction it with
  | nil => simp at h
  | cons kv r ih =>
    obtain ⟨a, b⟩ := kv
    rw [strSz_cons]
    simp only [List.lookup_cons] at h
    split at h
    · simp only [Option.some.injEq] at h; subst h; simp only; omega
    · have := ih h; omega

/-- a writer that works: what the two key-value loops append, and how many bytes they count -/
def _root_.Verif.TTH.W.pushAll (w : W) (items : List Bytes) : W := items.foldl W.push w

@[simp] theorem _root_.Verif.TTH.W.pushAll_nil (w : W) : w.pushAll [] = w := rfl
@[simp] theorem _root_.Verif.TTH.W.pushAll_cons (w : W) (x : Bytes) (r : List Bytes) :
    w.pushAll (x :: r) = (w.push x).pushAll r := rfl
@[simp] theorem _root_.Verif.TTH.W.pushAll_broken (w : W) (items : List Bytes) : (w.pushAll items).broken = w.broken := by
  induction items generalizing w with
  | nil => rfl
  | cons x r ih => simp [ih]

def strItems : List (Bytes × Bytes) → List Bytes
  | [] => []
  | kv :: r =>
    if kv.1 = gdprKey then strItems r
    else be16 (kv.1.length % 65536) :: kv.1 :: be16 (kv.2.length % 65536) :: kv.2 :: strItems r

def strBytes : List (Bytes × Bytes) → Nat
  | [] => 0
  | kv :: r => if kv.1 = gdprKey then strBytes r else (kv.1.length + 2) + (kv.2.length + 2) + strBytes r

def intItems : IntMap → List Bytes
  | [] => []
  | kv :: r => be16 kv.1 :: be16 (kv.2.length % 65536) :: kv.2 :: intItems r

def intBytes : IntMap → Nat
  | [] => 0
  | kv :: r => 2 + (kv.2.length + 2) + intBytes r

/-- the token's entry is not counted by the loop -/
theorem lookup_strBytes (it : List (Bytes × Bytes)) (v : Bytes) (h : it.lookup gdprKey = some v) :
    strBytes it + v.length + 4 ≤ strSz it := by
  induction it with
  | nil => simp at h
  | cons kv r ih =>
    obtain ⟨a, b⟩ := kv
    rw [strSz_cons]
    simp only [List.lookup_cons] at h
    by_cases hk : a = gdprKey
    · have hk' : (gdprKey == a) = true := by simp [hk]
      simp only [hk', Option.some.injEq] at h
      subst h
      have hle : strBytes r ≤ strSz r := by
        clear ih
        induction r with
        | nil => simp [strBytes, strSz]
        | cons kv r ih => rw [strSz_cons]; simp only [strBytes]; split <;> omega
      simp only [strBytes, hk, if_true]; omega
    · have hk' : (gdprKey == a) = false := by simp; exact fun e => hk e.symm
      simp only [hk'] at h
      have := ih h
      simp only [strBytes, hk, if_false]; omega

theorem strSz_ge_len (it : List (Bytes × Bytes)) : 4 * it.length ≤ strSz it := by
  induction it with
  | nil => simp [strSz]
  | cons kv r ih => rw [strSz_cons]; simp only [List.length_cons]; omega

theorem intSz_ge_len (it : IntMap) : 4 * it.length ≤ intSz it := by
  induction it with
  | nil => simp [intSz]
  | cons kv r ih => rw [intSz_cons]; simp only [List.length_cons]; omega

theorem strBytes_le (it : List (Bytes × Bytes)) : strBytes it ≤ strSz it := by
  induction it with
  | nil => simp [strBytes, strSz]
  | cons kv r ih => rw [strSz_cons]; simp only [strBytes]; split <;> omega

theorem intBytes_le (it : IntMap) : intBytes it ≤ intSz it := by
  induction it with
  | nil => simp [intBytes, intSz]
  | cons kv r ih => rw [intSz_cons]; simp only [intBytes]; omega

theorem writeStrKVs_cf (it : List (Bytes × Bytes)) (sz : Nat) (w : W) (hb : w.broken = false) :
    writeStrKVs it sz w = .ok (sz + strBytes it, w.pushAll (strItems it)) := by
  induction it generalizing sz w with
  | nil => rfl
  | cons kv r ih =>
    by_cases hk : kv.1 = gdprKey
    · simp only [writeStrKVs, strBytes, strItems, hk, if_true, ih sz w hb]
    · have hb1 : ((w.push (be16 (kv.1.length % 65536))).push kv.1).broken = false := by simp [hb]
      simp only [writeStrKVs, strBytes, strItems, hk, if_false, writeStr2_cf, hb, hb1, Bool.false_eq_true,
        Out.bind_ok, W.pushAll_cons]
      rw [ih _ _ (by simp [hb])]
      congr 2; omega

theorem writeIntKVs_cf (it : IntMap) (sz : Nat) (w : W) (hb : w.broken = false) :
    writeIntKVs it sz w = .ok (sz + intBytes it, w.pushAll (intItems it)) := by
  induction it generalizing sz w with
  | nil => rfl
  | cons kv r ih =>
    have hb1 : (w.push (be16 kv.1)).broken = false := by simp [hb]
    simp only [writeIntKVs, intBytes, intItems, writeU16_cf, writeStr2_cf, hb, hb1, Bool.false_eq_true, if_false,
      Out.bind_ok, W.pushAll_cons]
    rw [ih _ _ (by simp [hb])]
    congr 2; omega

/-- the translated loops (`for … range strKVMap`, `for … range intKVMap`, the padding loop) on a writer that works -/
theorem strLoop_cf (ew : GoErr) (hew : ew ≠ GoErr.nil) :
    ∀ (it : List (Bytes × Bytes)) (fuel : Nat) (w : W) (szi : Int), it.length < fuel → w.broken = false →
      0 ≤ szi → szi + strBytes it < 2 ^ 62 →
      Funcs.tth_writeKVInfo_loop1 (twI ew) fuel it w szi =
        .ok (.done ([], w.pushAll (strItems it), szi + (strBytes it : Int))) := by
  intro it
  induction it with
  | nil =>
    intro fuel w szi hf hb _ _
    obtain ⟨fuel, rfl⟩ : ∃ k, fuel = k + 1 := ⟨fuel - 1, by simp at hf; omega⟩
    simp [Funcs.tth_writeKVInfo_loop1, strItems, strBytes]
  | cons kv rest ih =>
    intro fuel w szi hf hb h0 hsz
    obtain ⟨fuel, rfl⟩ : ∃ k, fuel = k + 1 := ⟨fuel - 1, by simp at hf; omega⟩
    obtain ⟨k, v⟩ := kv
    by_cases hk : k = gdprKey
    · simp only [strBytes, hk, if_true] at hsz
      simp only [Funcs.tth_writeKVInfo_loop1, gdprKey_utf8, hk, decide_true, if_true, Out.bind_eq, strItems,
        strBytes]
      exact ih fuel w szi (by simp at hf; omega) hb h0 (by omega)
    · simp only [strBytes, hk, if_false] at hsz
      have hb1 : ((w.push (be16 (k.length % 65536))).push k).broken = false := by simp [hb]
      simp only [Funcs.tth_writeKVInfo_loop1, gdprKey_utf8, hk, decide_false, Bool.false_eq_true, if_false,
        tth_WriteString2BLen_cf ew hew _ k (by omega), tth_WriteString2BLen_cf ew hew _ v (by omega), hb, hb1,
        Out.bind_ok, Out.bind_eq, Out.pure_eq, ne_eq, not_true_eq_false, strItems, strBytes, W.pushAll_cons]
      rw [wrap_i64_of_range (szi + ((k.length + 2 : Nat) : Int)) (by omega) (by omega),
        wrap_i64_of_range _ (by omega) (by omega),
        ih fuel _ _ (by simp at hf; omega) (by simp [hb]) (by omega) (by omega)]
      congr 4; omega

/-- the visited sequence of `map[uint16]string` as the translation takes it -/
def intOrd (it : IntMap) : List (Int × Bytes) := it.map fun kv => ((kv.1 : Int), kv.2)

theorem intLoop_cf (ew : GoErr) (hew : ew ≠ GoErr.nil) :
    ∀ (it : IntMap) (fuel : Nat) (w : W) (szi : Int), it.length < fuel → w.broken = false →
      0 ≤ szi → szi + intSz it < 2 ^ 62 →
      Funcs.tth_writeKVInfo_loop2 (twI ew) fuel (intOrd it) w szi GoErr.nil =
        .ok (.done ([], w.pushAll (intItems it), szi + (intBytes it : Int), GoErr.nil)) := by
  intro it
  induction it with
  | nil =>
    intro fuel w szi hf hb _ _
    obtain ⟨fuel, rfl⟩ : ∃ k, fuel = k + 1 := ⟨fuel - 1, by simp at hf; omega⟩
    simp [Funcs.tth_writeKVInfo_loop2, intOrd, intItems, intBytes]
  | cons kv rest ih =>
    intro fuel w szi hf hb h0 hsz
    obtain ⟨fuel, rfl⟩ : ∃ k, fuel = k + 1 := ⟨fuel - 1, by simp at hf; omega⟩
    obtain ⟨k, v⟩ := kv
    rw [intSz_cons] at hsz
    simp only at hsz
    have hle := intBytes_le rest
    have hb1 : (w.push (be16 k)).broken = false := by simp [hb]
    have h4 := ih fuel (((w.push (be16 k)).push (be16 (v.length % 65536))).push v)
      (szi + 2 + ((v.length + 2 : Nat) : Int)) (by simp at hf; omega) (by simp [hb]) (by omega) (by omega)
    simp only [intOrd, List.map_cons, Funcs.tth_writeKVInfo_loop2, tth_WriteUint16_cf ew hew,
      tth_WriteString2BLen_cf ew hew _ v (by omega), hb, hb1, Bool.false_eq_true, if_false, Out.bind_ok,
      Out.bind_eq, Out.pure_eq, ne_eq, not_true_eq_false, decide_false, be16_ofInt_nat, intItems, intBytes,
      W.pushAll_cons]
    rw [wrap_i64_of_range (szi + 2) (by omega) (by omega), wrap_i64_of_range _ (by omega) (by omega)]
    rw [intOrd] at h4
    rw [h4]
    congr 5; omega

theorem vset_local (b : Bytes) (i : Nat) (x : Int) (h : i < b.length) :
    vset b 0 (i : Int) x = .ok (b.take i ++ byteOf x :: b.drop (i + 1)) := by
  have := vset_nf b 0 (i : Int) x (by omega)
  simp only [Int.natCast_zero, Nat.zero_add, Int.toNat_natCast, if_pos h] at this
  rw [this]; simp [Wire.putAt]

theorem padLoop_ok {ρ : Type} (I : WriterI ρ) (st : ρ) (hd : Nat) :
    ∀ (fuel : Nat) (b : Bytes) (i : Nat), i ≤ b.length → b.length - i < fuel → b.length < 2 ^ 62 →
      Funcs.tth_writeKVInfo_loop3 I st hd fuel b (i : Int) =
        .ok (.done (b.take i ++ List.replicate (b.length - i) 0, (b.length : Int))) := by
  intro fuel
  induction fuel with
  | zero => intro b i _ hf _; omega
  | succ fuel ih =>
    intro b i hi hf hl
    by_cases c : i < b.length
    · have hc : decide ((i : Int) < len b) = true := by unfold len; simp; omega
      simp only [Funcs.tth_writeKVInfo_loop3, hc, if_true, vset_local b i 0 c, Out.bind_ok, Out.bind_eq]
      rw [wrap_i64_of_range _ (by omega) (by omega)]
      have hlen : (b.take i ++ byteOf 0 :: b.drop (i + 1)).length = b.length := by simp; omega
      have e : (i : Int) + 1 = ((i + 1 : Nat) : Int) := by omega
      rw [e, ih _ (i + 1) (by rw [hlen]; omega) (by rw [hlen]; omega) (by rw [hlen]; exact hl), hlen]
      have hA : (b.take i).length = i := by simp; omega
      have ht : (b.take i ++ byteOf 0 :: b.drop (i + 1)).take (i + 1) = b.take i ++ [0] := by
        rw [List.take_append, hA, List.take_of_length_le (by omega)]
        simp [byteOf_zero]
      rw [ht, List.append_assoc]
      have hr : b.length - i = (b.length - (i + 1)) + 1 := by omega
      rw [hr, List.replicate_succ]
      simp
    · have hi' : i = b.length := by omega
      have hc : decide ((i : Int) < len b) = false := by unfold len; simp; omega
      simp only [Funcs.tth_writeKVInfo_loop3, hc, Bool.false_eq_true, if_false, Out.pure_eq]
      subst hi'
      simp

/-- what `writeKVInfo` reads of its two Go maps, in terms of the sequences the two `range` loops visit: `len(strKVMap)`,
    `strKVMap[GDPRToken]`, `len(intKVMap)` -/
structure KVArgs (mS : GoMap Bytes Bytes) (mI : GoMap Int Bytes) (strKV : StrMap) (intKV : IntMap) : Prop where
  lenS : mapLen mS = (strKV.length : Int)
  getS : mapGet mS gdprKey = strKV.lookup gdprKey
  lenI : mapLen mI = (intKV.length : Int)

theorem u16OfInt_eq (x : Int) : u16OfInt x = ofInt 16 x := rfl

theorem pad_eq (x : Int) (h0 : 0 ≤ x) :
    wrap .i64 (Int.tmod (wrap .i64 (4 - wrap .i64 (Int.tmod x 4))) 4) = (4 - x % 4) % 4 := by
  have e1 : Int.tmod x 4 = x % 4 := Int.tmod_eq_emod_of_nonneg h0
  rw [e1, wrap_i64_of_range (x % 4) (by omega) (by omega),
    wrap_i64_of_range (4 - x % 4) (by omega) (by omega), Int.tmod_eq_emod_of_nonneg (by omega),
    wrap_i64_of_range _ (by omega) (by omega)]

/-- the padding block on a writer that works -/
theorem padding_ok (ew : GoErr) (w : W) (fuel : Nat) (hf : 4 ≤ fuel) (p : Nat) (hp : p < 4) :
    Funcs.tth_writeKVInfo_loop3 (twI ew) (w.push (w.fresh p)) w.n fuel (w.fresh p) 0 =
      .ok (.done (List.replicate p 0, (p : Int))) := by
  have := padLoop_ok (twI ew) (w.push (w.fresh p)) w.n fuel (w.fresh p) 0 (by omega) (by simp; omega) (by simp; omega)
  simpa using this

/-! ### the generated `writeKVInfo` as blocks (the code after an `if` is duplicated by the translator; every copy is the
    same block) -/

/-- `padding := (4 - writeSize%4) % 4; paddingBuf, err := out.Malloc(padding); for i … paddingBuf[i] = 0; writeSize +=
    padding; return` -/
def gPad {ρ : Type} (I : WriterI ρ) (fuel : Nat) (v_out : ρ) (v_writeSize : Int) : GM (ρ × Int × GoErr) := do
  let v_padding := wrap .i64 (Int.tmod (wrap .i64 (4 - (wrap .i64 (Int.tmod v_writeSize 4)))) 4)
  let t18 ← I.malloc v_out v_padding
  let v_out := t18.2
  let v_paddingBuf := t18.1.1
  let v_err := t18.1.2.2
  let t19 := t18.1.2.1
  if decide (v_err ≠ GoErr.nil) then do
    let v_out := I.commit v_out t19 v_paddingBuf
    pure (v_out, v_writeSize, v_err)
  else do
    let v_i := 0
    let t20 ← Funcs.tth_writeKVInfo_loop3 I v_out t19 fuel v_paddingBuf v_i
    match t20 with
    | LoopR.ret r => pure r
    | LoopR.done s => do
      let v_paddingBuf := s.1
      let _v_i := s.2
      let v_writeSize := wrap .i64 (v_writeSize + v_padding)
      let v_out := I.commit v_out t19 v_paddingBuf
      pure (v_out, v_writeSize, v_err)

/-- the int key-value section, then the padding -/
def gIntSec {ρ : Type} (I : WriterI ρ) (fuel : Nat) (ord2 : List (Int × Bytes)) (v_intKVMap : GoMap Int Bytes)
    (v_out : ρ) (v_writeSize : Int) : GM (ρ × Int × GoErr) := do
  let v_intKVSize := mapLen v_intKVMap
  if decide (v_intKVSize > 0) then do
    let t11 ← Funcs.tth_WriteByte I 16 v_out
    let v_out := t11.1
    let v_err := t11.2
    if decide (v_err ≠ GoErr.nil) then do
      pure (v_out, v_writeSize, v_err)
    else do
      let t12 ← Funcs.tth_WriteUint16 I (wrap .u16 v_intKVSize) v_out
      let v_out := t12.1
      let v_err := t12.2
      if decide (v_err ≠ GoErr.nil) then do
        pure (v_out, v_writeSize, v_err)
      else do
        let v_writeSize := wrap .i64 (v_writeSize + 3)
        let t13 := ord2
        let t17 ← Funcs.tth_writeKVInfo_loop2 I fuel t13 v_out v_writeSize v_err
        match t17 with
        | LoopR.ret r => pure r
        | LoopR.done s => gPad I fuel s.2.1 s.2.2.1
  else gPad I fuel v_out v_writeSize

/-- the string key-value section, then the rest -/
def gStrSec {ρ : Type} (I : WriterI ρ) (fuel : Nat) (ord1 : List (Bytes × Bytes)) (ord2 : List (Int × Bytes))
    (v_intKVMap : GoMap Int Bytes) (v_strKVSize : Int) (v_out : ρ) (v_writeSize : Int) : GM (ρ × Int × GoErr) := do
  if decide (v_strKVSize > 0) then do
    let t4 ← Funcs.tth_WriteByte I 1 v_out
    let v_out := t4.1
    let v_err := t4.2
    if decide (v_err ≠ GoErr.nil) then do
      pure (v_out, v_writeSize, v_err)
    else do
      let t5 ← Funcs.tth_WriteUint16 I (wrap .u16 v_strKVSize) v_out
      let v_out := t5.1
      let v_err := t5.2
      if decide (v_err ≠ GoErr.nil) then do
        pure (v_out, v_writeSize, v_err)
      else do
        let v_writeSize := wrap .i64 (v_writeSize + 3)
        let t6 := ord1
        let t10 ← Funcs.tth_writeKVInfo_loop1 I fuel t6 v_out v_writeSize
        match t10 with
        | LoopR.ret r => pure r
        | LoopR.done s => gIntSec I fuel ord2 v_intKVMap s.2.1 s.2.2
  else gIntSec I fuel ord2 v_intKVMap v_out v_writeSize

/-- the shape of the translator's output (definitional) -/
theorem tth_writeKVInfo_blocks {ρ : Type} (I : WriterI ρ) (fuel : Nat) (ord1 : List (Bytes × Bytes))
    (ord2 : List (Int × Bytes)) (sz : Int) (mI : GoMap Int Bytes) (mS : GoMap Bytes Bytes) (w : ρ) :
    Funcs.tth_writeKVInfo I fuel ord1 ord2 sz mI mS w =
      (let t1 := mapGet mS ("RPC_TRANSIT_gdpr-token".toUTF8.toList : Bytes)
       if Option.isSome t1 then do
         let t2 ← Funcs.tth_WriteByte I 17 w
         if decide (t2.2 ≠ GoErr.nil) then pure (t2.1, sz, t2.2)
         else do
           let t3 ← Funcs.tth_WriteString2BLen I (Option.getD t1 ([] : Bytes)) t2.1
           if decide (t3.2.2 ≠ GoErr.nil) then pure (t3.1, wrap .i64 (sz + 1), t3.2.2)
           else gStrSec I fuel ord1 ord2 mI (wrap .i64 (mapLen mS - 1)) t3.1 (wrap .i64 (wrap .i64 (sz + 1) + t3.2.1))
       else gStrSec I fuel ord1 ord2 mI (mapLen mS) w sz) := rfl

theorem byteOf_kv : byteOf 1 = UInt8.ofNat Facts.ttInfoKeyValue := by decide
theorem byteOf_intkv : byteOf 16 = UInt8.ofNat Facts.ttInfoIntKeyValue := by decide
theorem byteOf_acl : byteOf 17 = UInt8.ofNat Facts.ttInfoACLToken := by decide

/-- the simp set for the blocks on a writer that works: callees and loops to their closed forms, Go's `int` arithmetic
    exact; side conditions by `omega` from the context or by `simp` with the writer's state -/
macro "kv_simp" hb:ident ew:ident hew:ident : tactic => `(tactic| (
  simp (disch := first | omega | (show _ ≤ IT.bits _; decide) | (simp [$hb:ident]; done)) only
    [tth_WriteByte_cf $ew $hew, tth_WriteUint16_cf $ew $hew, tth_WriteString2BLen_cf $ew $hew,
     strLoop_cf $ew $hew, intLoop_cf $ew $hew, padding_ok, pad_eq, Int.tmod_eq_emod_of_nonneg, twI_malloc_ok,
     twI_commit_top, wrap_i64_of_range, $hb:ident, W.push_broken,
     W.pushAll_broken, Bool.false_eq_true, if_false, if_true, Out.bind_ok, Out.bind_eq, Out.pure_eq, ne_eq,
     not_true_eq_false, decide_false, decide_true, not_false_eq_true]))

section kv
variable (ew : GoErr) (hew : ew ≠ GoErr.nil)
include hew

omit hew in
theorem gPad_cf (fuel : Nat) (hf : 4 ≤ fuel) (w : W) (hb : w.broken = false) (szi : Int) (h0 : 0 ≤ szi)
    (h1 : szi < 2 ^ 62) :
    gPad (twI ew) fuel w szi =
      .ok (w.push (List.replicate ((4 - szi % 4) % 4).toNat 0), szi + (4 - szi % 4) % 4, GoErr.nil) := by
  unfold gPad
  simp (disch := first | omega | (simp [hb]; done)) only
    [padding_ok, pad_eq, twI_malloc_ok, twI_commit_top, wrap_i64_of_range, Out.bind_ok, Out.bind_eq, Out.pure_eq,
     ne_eq, not_true_eq_false, decide_false, Bool.false_eq_true, if_false]

theorem gPad_broken (fuel : Nat) (w : W) (hb : w.broken = true) (szi : Int) :
    gPad (twI ew) fuel w szi = .ok (w, szi, ew) := by
  simp [gPad, twI_malloc_broken ew w _ hb, twI_commit_none, hew]

theorem gIntSec_cf (fuel : Nat) (intKV : IntMap) (hfi : intKV.length < fuel) (mI : GoMap Int Bytes)
    (hI : mapLen mI = (intKV.length : Int)) (w : W) (hb : w.broken = false) (szi : Int) (h0 : 0 ≤ szi)
    (h1 : szi + intSz intKV + 8 < 2 ^ 62) :
    gIntSec (twI ew) fuel (intOrd intKV) mI w szi =
      if 0 < intKV.length then
        gPad (twI ew) fuel
          (((w.push [UInt8.ofNat Facts.ttInfoIntKeyValue]).push (be16 (ofInt 16 (intKV.length : Int)))).pushAll
            (intItems intKV)) (szi + 3 + (intBytes intKV : Int))
      else gPad (twI ew) fuel w szi := by
  have hle := intBytes_le intKV
  have hle4 := intSz_ge_len intKV
  unfold gIntSec
  by_cases c : 0 < intKV.length
  · have c' : ((intKV.length : Int) > 0) := by omega
    simp only [hI, c, c', decide_true, if_true]
    kv_simp hb ew hew
    simp only [byteOf_intkv, ofInt_wrap 16 .u16 _ (by decide)]
  · have c' : ¬ ((intKV.length : Int) > 0) := by omega
    simp only [hI, c, c', decide_false, if_false, Bool.false_eq_true]

theorem gIntSec_broken (fuel : Nat) (o2 : List (Int × Bytes)) (mI : GoMap Int Bytes) (w : W) (hb : w.broken = true)
    (szi : Int) : gIntSec (twI ew) fuel o2 mI w szi = .ok (w, szi, ew) := by
  unfold gIntSec
  by_cases c : mapLen mI > 0
  · simp [c, tth_WriteByte_cf ew hew, hb, hew]
  · simp [c, gPad_broken ew hew fuel w hb]

theorem gStrSec_cf (fuel : Nat) (strKV : StrMap) (hfs : strKV.length < fuel) (o2 : List (Int × Bytes))
    (mI : GoMap Int Bytes) (n : Int) (w : W) (hb : w.broken = false) (szi : Int)
    (h0 : 0 ≤ szi) (h1 : szi + strBytes strKV + 8 < 2 ^ 62) :
    gStrSec (twI ew) fuel strKV o2 mI n w szi =
      if n > 0 then
        gIntSec (twI ew) fuel o2 mI
          (((w.push [UInt8.ofNat Facts.ttInfoKeyValue]).push (be16 (ofInt 16 n))).pushAll (strItems strKV))
          (szi + 3 + (strBytes strKV : Int))
      else gIntSec (twI ew) fuel o2 mI w szi := by
  unfold gStrSec
  by_cases c : n > 0
  · simp only [c, decide_true, if_true]
    kv_simp hb ew hew
    simp only [byteOf_kv, ofInt_wrap 16 .u16 _ (by decide)]
  · simp only [c, decide_false, if_false, Bool.false_eq_true]

theorem gStrSec_broken (fuel : Nat) (o1 : List (Bytes × Bytes)) (o2 : List (Int × Bytes)) (mI : GoMap Int Bytes)
    (n : Int) (w : W) (hb : w.broken = true) (szi : Int) :
    gStrSec (twI ew) fuel o1 o2 mI n w szi = .ok (w, szi, ew) := by
  unfold gStrSec
  by_cases c : n > 0
  · simp [c, tth_WriteByte_cf ew hew, hb, hew]
  · simp [c, gIntSec_broken ew hew fuel o2 mI w hb]

/-! ### the model's sections in closed form -/

omit hew in
theorem writeKVInfo_broken (sz : Nat) (intKV : IntMap) (strKV : StrMap) (w : W) (hb : w.broken = true) :
    TTH.writeKVInfo sz intKV strKV w = .err .writer := by
  unfold TTH.writeKVInfo writeACL writeStrSection writeIntSection writePadding
  cases hl : strKV.lookup gdprKey with
  | some tok => simp [writeByte_cf, hb]
  | none =>
    by_cases c1 : 0 < strKV.length
    · simp [writeByte_cf, hb, c1]
    · by_cases c2 : 0 < intKV.length
      · simp [writeByte_cf, hb, c1, c2]
      · simp [c1, c2, malloc_broken w hb]

omit hew in
theorem writePadding_cf (sz : Nat) (w : W) (hb : w.broken = false) :
    writePadding sz w = .ok (sz + (4 - sz % 4) % 4, w.push (List.replicate ((4 - sz % 4) % 4) 0)) := by
  unfold writePadding
  simp only [malloc_put_bind w hb _ _ (List.length_replicate ..)]

omit hew in
theorem writeIntSection_cf (sz : Nat) (intKV : IntMap) (w : W) (hb : w.broken = false) :
    writeIntSection sz intKV w =
      if 0 < intKV.length then
        .ok (sz + 3 + intBytes intKV,
          ((w.push [UInt8.ofNat Facts.ttInfoIntKeyValue]).push (be16 (ofInt 16 (intKV.length : Int)))).pushAll
            (intItems intKV))
      else .ok (sz, w) := by
  unfold writeIntSection
  by_cases c : 0 < intKV.length
  · have c' : ((intKV.length : Int) > 0) := by omega
    simp only [c, c', if_true, writeByte_cf, writeU16_cf, hb, W.push_broken, Bool.false_eq_true, if_false, Out.bind_ok,
      u16OfInt_eq]
    rw [writeIntKVs_cf _ _ _ (by simp [hb])]
  · have c' : ¬ ((intKV.length : Int) > 0) := by omega
    simp only [c, c', if_false]

omit hew in
theorem writeStrSection_cf (n : Int) (sz : Nat) (strKV : StrMap) (w : W) (hb : w.broken = false) :
    writeStrSection n sz strKV w =
      if n > 0 then
        .ok (sz + 3 + strBytes strKV,
          ((w.push [UInt8.ofNat Facts.ttInfoKeyValue]).push (be16 (ofInt 16 n))).pushAll (strItems strKV))
      else .ok (sz, w) := by
  unfold writeStrSection
  by_cases c : n > 0
  · simp only [c, if_true, writeByte_cf, writeU16_cf, hb, W.push_broken, Bool.false_eq_true, if_false, Out.bind_ok,
      u16OfInt_eq]
    rw [writeStrKVs_cf _ _ _ (by simp [hb])]
  · simp only [c, if_false]

omit hew in
theorem writeACL_cf (sz : Nat) (strKV : StrMap) (w : W) (hb : w.broken = false) :
    writeACL sz strKV w =
      match strKV.lookup gdprKey with
      | some tok => .ok ((strKV.length : Int) - 1, sz + 1 + (tok.length + 2),
          ((w.push [UInt8.ofNat Facts.ttInfoACLToken]).push (be16 (tok.length % 65536))).push tok)
      | none => .ok ((strKV.length : Int), sz, w) := by
  unfold writeACL
  cases strKV.lookup gdprKey with
  | none => rfl
  | some tok =>
    simp only [writeByte_cf, writeStr2_cf, hb, W.push_broken, Bool.false_eq_true, if_false, Out.bind_ok]

omit hew in
theorem _root_.Verif.TTH.W.pushAll_append (w : W) (a b : List Bytes) : w.pushAll (a ++ b) = (w.pushAll a).pushAll b := by
  simp [W.pushAll, List.foldl_append]

/-- what `writeKVInfo` does on a writer that works, independently of the writer: the size it returns and the items it
    appends (ACL token, string section, int section, padding) -/
def kvRun (sz : Nat) (intKV : IntMap) (strKV : StrMap) : Nat × List Bytes :=
  let a : Int × Nat × List Bytes :=
    match strKV.lookup gdprKey with
    | some tok => ((strKV.length : Int) - 1, sz + 1 + (tok.length + 2),
        [[UInt8.ofNat Facts.ttInfoACLToken], be16 (tok.length % 65536), tok])
    | none => ((strKV.length : Int), sz, [])
  let s : Nat × List Bytes :=
    if a.1 > 0 then (a.2.1 + 3 + strBytes strKV,
      a.2.2 ++ ([UInt8.ofNat Facts.ttInfoKeyValue] :: be16 (ofInt 16 a.1) :: strItems strKV))
    else (a.2.1, a.2.2)
  let i : Nat × List Bytes :=
    if 0 < intKV.length then (s.1 + 3 + intBytes intKV,
      s.2 ++ ([UInt8.ofNat Facts.ttInfoIntKeyValue] :: be16 (ofInt 16 (intKV.length : Int)) :: intItems intKV))
    else (s.1, s.2)
  (i.1 + (4 - i.1 % 4) % 4, i.2 ++ [List.replicate ((4 - i.1 % 4) % 4) 0])

omit hew in
/-- the model in closed form -/
theorem writeKVInfo_cf (sz : Nat) (intKV : IntMap) (strKV : StrMap) (w : W) (hb : w.broken = false) :
    TTH.writeKVInfo sz intKV strKV w = .ok ((kvRun sz intKV strKV).1, w.pushAll (kvRun sz intKV strKV).2) := by
  unfold TTH.writeKVInfo kvRun
  rw [writeACL_cf sz strKV w hb]
  cases strKV.lookup gdprKey with
  | none =>
    simp only [Out.bind_ok]
    rw [writeStrSection_cf _ _ _ _ hb]
    by_cases c1 : ((strKV.length : Int) > 0)
    · simp only [c1, if_true, Out.bind_ok]
      rw [writeIntSection_cf _ _ _ (by simp [hb])]
      by_cases c2 : 0 < intKV.length
      · simp only [c2, if_true, Out.bind_ok]
        rw [writePadding_cf _ _ (by simp [hb])]
        simp [W.pushAll_append]
      · simp only [c2, if_false, Out.bind_ok]
        rw [writePadding_cf _ _ (by simp [hb])]
        simp [W.pushAll_append]
    · simp only [c1, if_false, Out.bind_ok]
      rw [writeIntSection_cf _ _ _ hb]
      by_cases c2 : 0 < intKV.length
      · simp only [c2, if_true, Out.bind_ok]
        rw [writePadding_cf _ _ (by simp [hb])]
        simp [W.pushAll_append]
      · simp only [c2, if_false, Out.bind_ok]
        rw [writePadding_cf _ _ hb]
        simp [W.pushAll_append]
  | some tok =>
    simp only [Out.bind_ok]
    rw [writeStrSection_cf _ _ _ _ (by simp [hb])]
    by_cases c1 : ((strKV.length : Int) - 1 > 0)
    · simp only [c1, if_true, Out.bind_ok]
      rw [writeIntSection_cf _ _ _ (by simp [hb])]
      by_cases c2 : 0 < intKV.length
      · simp only [c2, if_true, Out.bind_ok]
        rw [writePadding_cf _ _ (by simp [hb])]
        simp [W.pushAll_append]
      · simp only [c2, if_false, Out.bind_ok]
        rw [writePadding_cf _ _ (by simp [hb])]
        simp [W.pushAll_append]
    · simp only [c1, if_false, Out.bind_ok]
      rw [writeIntSection_cf _ _ _ (by simp [hb])]
      by_cases c2 : 0 < intKV.length
      · simp only [c2, if_true, Out.bind_ok]
        rw [writePadding_cf _ _ (by simp [hb])]
        simp [W.pushAll_append]
      · simp only [c2, if_false, Out.bind_ok]
        rw [writePadding_cf _ _ (by simp [hb])]
        simp [W.pushAll_append]

/-- the translation in closed form: the same size and the same items as the model, on every writer that works -/
theorem tth_writeKVInfo_cf (fuel : Nat) (sz : Nat) (mI : GoMap Int Bytes) (mS : GoMap Bytes Bytes) (intKV : IntMap)
    (strKV : StrMap) (w : W) (H : KVArgs mS mI strKV intKV) (hf1 : strKV.length < fuel) (hf2 : intKV.length < fuel)
    (hf3 : 4 ≤ fuel) (hsz : sz + strSz strKV + intSz intKV + 32 < 2 ^ 62) (hb : w.broken = false) :
    Funcs.tth_writeKVInfo (twI ew) fuel strKV (intOrd intKV) (sz : Int) mI mS w =
      .ok (w.pushAll (kvRun sz intKV strKV).2, ((kvRun sz intKV strKV).1 : Int), GoErr.nil) := by
  obtain ⟨hS, hG, hI⟩ := H
  have hle1 := strBytes_le strKV
  have hle2 := intBytes_le intKV
  have hle3 := strSz_ge_len strKV
  have hle4 := intSz_ge_len intKV
  rw [tth_writeKVInfo_blocks]
  simp only [gdprKey_utf8, hG, hS]
  unfold kvRun
  cases hl : strKV.lookup gdprKey with
  | none =>
    simp only [Option.isSome_none, Bool.false_eq_true, if_false]
    rw [gStrSec_cf ew hew fuel strKV hf1 _ mI _ w hb _ (by omega) (by omega)]
    by_cases c1 : ((strKV.length : Int) > 0)
    · simp only [c1, if_true]
      rw [gIntSec_cf ew hew fuel intKV hf2 mI hI _ (by simp [hb]) _ (by omega) (by omega)]
      by_cases c2 : 0 < intKV.length
      · simp only [c2, if_true]
        rw [gPad_cf ew fuel hf3 _ (by simp [hb]) _ (by omega) (by omega)]
        simp only [W.pushAll_append, W.pushAll_cons, W.pushAll_nil, List.nil_append]
        congr_omega
      · simp only [c2, if_false]
        rw [gPad_cf ew fuel hf3 _ (by simp [hb]) _ (by omega) (by omega)]
        simp only [W.pushAll_append, W.pushAll_cons, W.pushAll_nil, List.nil_append]
        congr_omega
    · simp only [c1, if_false]
      rw [gIntSec_cf ew hew fuel intKV hf2 mI hI _ hb _ (by omega) (by omega)]
      by_cases c2 : 0 < intKV.length
      · simp only [c2, if_true]
        rw [gPad_cf ew fuel hf3 _ (by simp [hb]) _ (by omega) (by omega)]
        simp only [W.pushAll_append, W.pushAll_cons, W.pushAll_nil, List.nil_append]
        congr_omega
      · simp only [c2, if_false]
        rw [gPad_cf ew fuel hf3 _ hb _ (by omega) (by omega)]
        simp only [W.pushAll_append, W.pushAll_cons, W.pushAll_nil, List.nil_append]
        congr_omega
  | some tok =>
    have htok := lookup_strBytes strKV tok hl
    simp (disch := omega) only [Option.isSome_some, if_true, Option.getD_some, tth_WriteByte_cf ew hew,
      tth_WriteString2BLen_cf ew hew, hb, W.push_broken, Bool.false_eq_true, if_false, Out.bind_ok, Out.bind_eq,
      Out.pure_eq, ne_eq, not_true_eq_false, decide_false, wrap_i64_of_range, byteOf_acl]
    rw [gStrSec_cf ew hew fuel strKV hf1 _ mI _ _ (by simp [hb]) _ (by omega) (by omega)]
    by_cases c1 : ((strKV.length : Int) - 1 > 0)
    · simp only [c1, if_true]
      rw [gIntSec_cf ew hew fuel intKV hf2 mI hI _ (by simp [hb]) _ (by omega) (by omega)]
      by_cases c2 : 0 < intKV.length
      · simp only [c2, if_true]
        rw [gPad_cf ew fuel hf3 _ (by simp [hb]) _ (by omega) (by omega)]
        simp only [W.pushAll_append, W.pushAll_cons, W.pushAll_nil, List.nil_append]
        congr_omega
      · simp only [c2, if_false]
        rw [gPad_cf ew fuel hf3 _ (by simp [hb]) _ (by omega) (by omega)]
        simp only [W.pushAll_append, W.pushAll_cons, W.pushAll_nil, List.nil_append]
        congr_omega
    · simp only [c1, if_false]
      rw [gIntSec_cf ew hew fuel intKV hf2 mI hI _ (by simp [hb]) _ (by omega) (by omega)]
      by_cases c2 : 0 < intKV.length
      · simp only [c2, if_true]
        rw [gPad_cf ew fuel hf3 _ (by simp [hb]) _ (by omega) (by omega)]
        simp only [W.pushAll_append, W.pushAll_cons, W.pushAll_nil, List.nil_append]
        congr_omega
      · simp only [c2, if_false]
        rw [gPad_cf ew fuel hf3 _ (by simp [hb]) _ (by omega) (by omega)]
        simp only [W.pushAll_append, W.pushAll_cons, W.pushAll_nil, List.nil_append]
        congr_omega

theorem tth_writeKVInfo_broken (fuel : Nat) (szi : Int) (mI : GoMap Int Bytes) (mS : GoMap Bytes Bytes)
    (o1 : List (Bytes × Bytes)) (o2 : List (Int × Bytes)) (w : W) (hb : w.broken = true) :
    ∃ n, Funcs.tth_writeKVInfo (twI ew) fuel o1 o2 szi mI mS w = .ok (w, n, ew) := by
  rw [tth_writeKVInfo_blocks]
  cases mapGet mS ("RPC_TRANSIT_gdpr-token".toUTF8.toList : Bytes) with
  | none => exact ⟨szi, by simp [gStrSec_broken ew hew _ _ _ _ _ w hb]⟩
  | some tok => exact ⟨szi, by simp [tth_WriteByte_cf ew hew, hb, hew]⟩

/-- `writeKVInfo` translated from the Go source IS the model `TTH.writeKVInfo`: for every pair of visited sequences
    `strKV` / `intKV` (the iteration orders) and every pair of Go maps that agree with them in `len` and `[GDPRToken]`, on
    a writer that works or is broken; `fuel` above the lengths of the sequences (and 4, for the padding loop), sizes far
    below 2^62 so that Go's `int` arithmetic is exact -/
theorem tth_writeKVInfo_eq (fuel : Nat) (sz : Nat) (mI : GoMap Int Bytes) (mS : GoMap Bytes Bytes) (intKV : IntMap)
    (strKV : StrMap) (w : W) (H : KVArgs mS mI strKV intKV) (hf1 : strKV.length < fuel) (hf2 : intKV.length < fuel)
    (hf3 : 4 ≤ fuel) (hsz : sz + strSz strKV + intSz intKV + 32 < 2 ^ 62) :
    liftEN (Funcs.tth_writeKVInfo (twI ew) fuel strKV (intOrd intKV) (sz : Int) mI mS w) =
      TTH.writeKVInfo sz intKV strKV w := by
  cases hb : w.broken with
  | true =>
    obtain ⟨n, hn⟩ := tth_writeKVInfo_broken ew hew fuel sz mI mS strKV (intOrd intKV) w hb
    rw [hn, writeKVInfo_broken sz intKV strKV w hb]
    simp [liftEN, hew]
  | false =>
    rw [tth_writeKVInfo_cf ew hew fuel sz mI mS intKV strKV w H hf1 hf2 hf3 hsz hb,
      writeKVInfo_cf sz intKV strKV w hb]
    simp [liftEN]

end kv

/-! ## encode.go: Encode -/

theorem W.eq_of {a b : W} (h1 : a.items = b.items) (h2 : a.n = b.n) (h3 : a.broken = b.broken)
    (h4 : a.dirt = b.dirt) : a = b := by
  cases a; cases b; simp_all

theorem pushAll_items (w : W) (L : List Bytes) : (w.pushAll L).items = L.reverse ++ w.items := by
  induction L generalizing w with
  | nil => rfl
  | cons x r ih => simp [ih, W.push]

theorem pushAll_n (w : W) (L : List Bytes) : (w.pushAll L).n = w.n + L.length := by
  induction L generalizing w with
  | nil => rfl
  | cons x r ih => simp [ih, W.push]; omega

theorem pushAll_dirt (w : W) (L : List Bytes) : (w.pushAll L).dirt = w.dirt := by
  induction L generalizing w with
  | nil => rfl
  | cons x r ih => simp [ih, W.push]

theorem set_mid (l : List Bytes) (x y : Bytes) (rest : List Bytes) :
    (l ++ x :: rest).set l.length y = l ++ y :: rest := by
  induction l with
  | nil => rfl
  | cons a l ih => simp [ih]

theorem get_mid (l : List Bytes) (x : Bytes) (rest : List Bytes) : (l ++ x :: rest)[l.length]? = some x := by
  induction l with
  | nil => rfl
  | cons a l ih => simp [ih]

/-- a store into a region that was handed out earlier (later items on top of it): the model's `put` -/
theorem put_deep (w : W) (r : Bytes) (L : List Bytes) (off : Nat) (v : Bytes) (h : off + v.length ≤ r.length) :
    ((w.push r).pushAll L).put w.n off v =
      .ok ((w.push (r.take off ++ v ++ r.drop (off + v.length))).pushAll L) := by
  unfold W.put
  have hn : ((w.push r).pushAll L).n = w.n + 1 + L.length := by rw [pushAll_n]; rfl
  have hi : ((w.push r).pushAll L).n - 1 - w.n = L.reverse.length := by rw [hn]; simp
  have hit : ((w.push r).pushAll L).items = L.reverse ++ r :: w.items := by rw [pushAll_items]; rfl
  rw [if_neg (by rw [hn]; omega), hi, hit, get_mid]
  simp only
  rw [if_neg (by omega)]
  congr 1
  apply W.eq_of
  · simp only [set_mid, pushAll_items]; rfl
  · simp only [pushAll_n]; rfl
  · simp
  · simp only [pushAll_dirt]; rfl

/-- … and the translation's `commit` of such a region -/
theorem setRegion_deep (w : W) (r bs : Bytes) (L : List Bytes) :
    ((w.push r).pushAll L).setRegion w.n bs = (w.push bs).pushAll L := by
  unfold W.setRegion
  have hn : ((w.push r).pushAll L).n = w.n + 1 + L.length := by rw [pushAll_n]; rfl
  have hi : ((w.push r).pushAll L).n - 1 - w.n = L.reverse.length := by rw [hn]; simp
  have hit : ((w.push r).pushAll L).items = L.reverse ++ r :: w.items := by rw [pushAll_items]; rfl
  rw [if_pos (by rw [hn]; omega), hi, hit]
  apply W.eq_of
  · simp only [set_mid, pushAll_items]; rfl
  · simp only [pushAll_n]; rfl
  · simp
  · simp only [pushAll_dirt]; rfl

/-- the `EncodeParam` the translation takes, from the model's parameter and the two Go maps -/
def toEncParam (p : EncParam) (mI : GoMap Int Bytes) (mS : GoMap Bytes Bytes) : Funcs.S_ttheader_EncodeParam :=
  { Flags := (p.flags : Int), SeqID := p.seq, ProtocolID := (p.proto : Int), IntInfo := mI, StrInfo := mS }

theorem toEncParam_Flags (p : EncParam) (mI mS) : (toEncParam p mI mS).Flags = (p.flags : Int) := rfl
theorem toEncParam_SeqID (p : EncParam) (mI mS) : (toEncParam p mI mS).SeqID = p.seq := rfl
theorem toEncParam_ProtocolID (p : EncParam) (mI mS) : (toEncParam p mI mS).ProtocolID = (p.proto : Int) := rfl

/-- the 14 bytes of the header-meta region when `Encode` returns: fresh memory with the magic/flags word, the sequence
    id and — last — the size field stored (`[0:4]`, the total length, belongs to the caller) -/
def metaBytes (p : EncParam) (w : W) (size : Nat) : Bytes :=
  putAt (putAt (putAt (w.fresh 14) 4 (be32 ((Facts.ttMagic + p.flags) % 4294967296))) 8 (be32 (ofInt 32 p.seq))) 12
    (be16 ((size / 4) % 65536))

/-- result `(writer, totalLenField, err)` of the translated `Encode` as the model's outcome `(region id, writer)`: the
    returned slice must hold what bytes `[0:4]` of the meta region hold; Encode's own error is `.size`, any other error
    comes from the writer -/
def liftEnc (w0 : W) (x : GM (W × Bytes × GoErr)) : Out EErr (Nat × W) :=
  match x with
  | .ok r =>
    if r.2.2 = .nil then
      if (r.1.items[r.1.n - 1 - w0.n]?).map (fun m => m.take 4) = some r.2.1 then .ok (w0.n, r.1)
      else .panic "liftEnc: totalLenField is not meta[0:4]"
    else if r.2.2 = .named "fmt.Errorf:invalid header length[%d]" then .err .size
    else .err .writer
  | .panic s => .panic s
  | .oob => .oob
  | .err e => nomatch e

theorem be16_mod (n : Nat) : be16 (n % 65536) = be16 n := by
  unfold be16
  congr 1
  · apply ofNat_congr; omega
  congr 1
  · apply ofNat_congr; omega

theorem bput32_ok (b : Bytes) (off : Int) (x : Int) : bputU32 b off 4 x = .ok (putAt b off.toNat (be32 (ofInt 32 x))) := by
  simp [bputU32, be32_toU]

theorem bput16_ok (b : Bytes) (off : Int) (x : Int) : bputU16 b off 2 x = .ok (putAt b off.toNat (be16 (ofInt 16 x))) := by
  simp [bputU16, be16_toU]

theorem putAt_len (b : Bytes) (o : Nat) (bs : Bytes) (h : o + bs.length ≤ b.length) :
    (putAt b o bs).length = b.length := by
  simp [putAt]; omega

theorem bchk_ok (n lo hi : Int) (h1 : 0 ≤ lo) (h2 : lo ≤ hi) (h3 : hi ≤ n) : bchk n lo hi = .ok () := by
  unfold bchk
  rw [if_neg (by omega), if_neg (by omega)]

/-- the model's `Encode` on a writer that works, in closed form -/
theorem encode_cf (p : EncParam) (w : W) (hb : w.broken = false) :
    encode p w =
      if (kvRun 2 p.intKV p.strKV).1 % 2 ^ Facts.ttEncodeSizeCheckBits > Facts.ttMaxHeaderSize then .err .size
      else .ok (w.n, (((w.push (metaBytes p w (kvRun 2 p.intKV p.strKV).1)).push [UInt8.ofNat p.proto]).push
        [UInt8.ofNat 0]).pushAll (kvRun 2 p.intKV p.strKV).2) := by
  unfold encode
  have hm : w.malloc Facts.ttMetaSize = .ok (w.n, w.push (w.fresh 14)) := by
    simp [W.malloc, hb, W.push, W.fresh, Facts.ttMetaSize]
  have hp := put_deep w (w.fresh 14) [] 4 (be32 ((Facts.ttMagic + p.flags) % 4294967296)) (by simp)
  simp only [W.pushAll_nil] at hp
  rw [hm, Out.bind_ok]
  simp only [hp, Out.bind_ok]
  have hp2 := put_deep w (List.take 4 (w.fresh 14) ++ be32 ((Facts.ttMagic + p.flags) % 4294967296) ++
    List.drop (4 + (be32 ((Facts.ttMagic + p.flags) % 4294967296)).length) (w.fresh 14)) [] 8 (be32 (ofInt 32 p.seq))
    (by simp)
  simp only [W.pushAll_nil] at hp2
  simp only [hp2, Out.bind_ok, writeByte_cf, hb, W.push_broken, Bool.false_eq_true, if_false]
  rw [writeKVInfo_cf 2 p.intKV p.strKV _ (by simp [hb])]
  simp only [Out.bind_ok]
  split
  · rfl
  · have hp3 := put_deep w (List.take 8 (List.take 4 (w.fresh 14) ++ be32 ((Facts.ttMagic + p.flags) % 4294967296) ++
        List.drop (4 + (be32 ((Facts.ttMagic + p.flags) % 4294967296)).length) (w.fresh 14)) ++ be32 (ofInt 32 p.seq) ++
        List.drop (8 + (be32 (ofInt 32 p.seq)).length) (List.take 4 (w.fresh 14) ++
          be32 ((Facts.ttMagic + p.flags) % 4294967296) ++
          List.drop (4 + (be32 ((Facts.ttMagic + p.flags) % 4294967296)).length) (w.fresh 14)))
      ([UInt8.ofNat p.proto] :: [UInt8.ofNat 0] :: (kvRun 2 p.intKV p.strKV).2) 12
      (be16 ((kvRun 2 p.intKV p.strKV).1 / 4 % 65536)) (by simp)
    simp only [W.pushAll_cons] at hp3
    rw [hp3]
    rfl

/-! ### the generated `Encode` as blocks -/

/-- `headerInfoSize, err = writeKVInfo(…)`, the size check, the size field, return -/
def gEncKV {ρ : Type} (I : WriterI ρ) (fuel : Nat) (ord1 : List (Bytes × Bytes)) (ord2 : List (Int × Bytes))
    (v_param : Funcs.S_ttheader_EncodeParam) (v_headerMeta : Bytes) (t2 : Nat) (v_transformIDs : Bytes) (v_out : ρ) :
    GM (ρ × Bytes × GoErr) := do
  let v_headerInfoSize := wrap .i64 (2 + (len v_transformIDs))
  let t9 ← Funcs.tth_writeKVInfo I fuel ord1 ord2 v_headerInfoSize v_param.IntInfo v_param.StrInfo v_out
  let v_out := t9.1
  let v_headerInfoSize := t9.2.1
  let v_err := t9.2.2
  if decide (v_err ≠ GoErr.nil) then do
    let v_out := I.commit v_out t2 v_headerMeta
    pure (v_out, ([] : Bytes), (GoErr.named "fmt.Errorf:ttHeader write kv info failed, %s"))
  else do
    if decide (v_headerInfoSize > 65536) then do
      let v_out := I.commit v_out t2 v_headerMeta
      pure (v_out, ([] : Bytes), (GoErr.named "fmt.Errorf:invalid header length[%d]"))
    else do
      let v_headerMeta ← bputU16 v_headerMeta 12 2 (wrap .u16 (wrap .i64 (Int.tdiv v_headerInfoSize 4)))
      let v_out := I.commit v_out t2 v_headerMeta
      pure (v_out, (bsub v_headerMeta 0 4), GoErr.nil)

/-- protocol id, number of transform ids, the (empty) loop over them, then the rest -/
def gEncInfo {ρ : Type} (I : WriterI ρ) (fuel : Nat) (ord1 : List (Bytes × Bytes)) (ord2 : List (Int × Bytes))
    (v_param : Funcs.S_ttheader_EncodeParam) (v_headerMeta : Bytes) (t2 : Nat) (v_out : ρ) : GM (ρ × Bytes × GoErr) := do
  let v_transformIDs := ([] : Bytes)
  let t3 ← Funcs.tth_WriteByte I v_param.ProtocolID v_out
  let v_out := t3.1
  let v_err := t3.2
  if decide (v_err ≠ GoErr.nil) then do
    let v_out := I.commit v_out t2 v_headerMeta
    pure (v_out, ([] : Bytes), (GoErr.named "fmt.Errorf:ttHeader write protocol id failed, %s"))
  else do
    let t4 ← Funcs.tth_WriteByte I (wrap .u8 (len v_transformIDs)) v_out
    let v_out := t4.1
    let v_err := t4.2
    if decide (v_err ≠ GoErr.nil) then do
      let v_out := I.commit v_out t2 v_headerMeta
      pure (v_out, ([] : Bytes), (GoErr.named "fmt.Errorf:ttHeader write transformIDs length failed, %s"))
    else do
      let t5 := v_transformIDs
      let t6 := len t5
      let v_tid := 0
      let t8 ← Funcs.tth_Encode_loop1 I v_headerMeta t5 t6 t2 fuel v_out v_err v_tid
      match t8 with
      | LoopR.ret r => pure r
      | LoopR.done s => gEncKV I fuel ord1 ord2 v_param v_headerMeta t2 v_transformIDs s.1

theorem tth_Encode_blocks {ρ : Type} (I : WriterI ρ) (fuel : Nat) (ord1 : List (Bytes × Bytes))
    (ord2 : List (Int × Bytes)) (v_param : Funcs.S_ttheader_EncodeParam) (w : ρ) :
    Funcs.tth_Encode I fuel ord1 ord2 v_param w =
      (I.malloc w 14).bind fun t1 =>
        if decide (t1.1.2.2 ≠ GoErr.nil) then
          .ok (I.commit t1.2 t1.1.2.1 t1.1.1, ([] : Bytes),
            GoErr.named "fmt.Errorf:ttHeader malloc header meta failed, %s")
        else
          (bchk (len t1.1.1) 0 4).bind fun _ => (bchk (len t1.1.1) 12 14).bind fun _ =>
          (bchk (len t1.1.1) 4 8).bind fun _ =>
          (bputU32 t1.1.1 4 4 (wrap .u32 (268435456 + v_param.Flags))).bind fun hm =>
          (bchk (len hm) 8 12).bind fun _ =>
          (bputU32 hm 8 4 (wrap .u32 v_param.SeqID)).bind fun hm =>
          gEncInfo I fuel ord1 ord2 v_param hm t1.1.2.1 t1.2 := rfl

section enc
variable (ew : GoErr) (hew : ew ≠ GoErr.nil)
include hew

theorem gEncKV_cf (fuel : Nat) (p : EncParam) (mI : GoMap Int Bytes) (mS : GoMap Bytes Bytes) (w : W)
    (H : KVArgs mS mI p.strKV p.intKV) (hf1 : p.strKV.length < fuel) (hf2 : p.intKV.length < fuel) (hf3 : 4 ≤ fuel)
    (hsz : strSz p.strKV + intSz p.intKV + 64 < 2 ^ 62) (hm : Bytes) (hlen : hm.length = 14) (hd : Nat) (hb : w.broken = false) :
    gEncKV (twI ew) fuel p.strKV (intOrd p.intKV) (toEncParam p mI mS) hm hd [] w =
      if ((kvRun 2 p.intKV p.strKV).1 : Int) > 65536 then
        .ok ((w.pushAll (kvRun 2 p.intKV p.strKV).2).setRegion hd hm, [],
          GoErr.named "fmt.Errorf:invalid header length[%d]")
      else
        .ok ((w.pushAll (kvRun 2 p.intKV p.strKV).2).setRegion hd
            (putAt hm 12 (be16 (((kvRun 2 p.intKV p.strKV).1 / 4) % 65536))),
          (putAt hm 12 (be16 (((kvRun 2 p.intKV p.strKV).1 / 4) % 65536))).take 4, GoErr.nil) := by
  unfold gEncKV
  have h2 : wrap .i64 (2 + len ([] : Bytes)) = ((2 : Nat) : Int) := by decide
  simp only [toEncParam, h2]
  rw [tth_writeKVInfo_cf ew hew fuel 2 mI mS p.intKV p.strKV w H hf1 hf2 hf3 (by omega) hb]
  simp only [Out.bind_ok, Out.bind_eq, Out.pure_eq, ne_eq, not_true_eq_false, decide_false, Bool.false_eq_true,
    if_false]
  by_cases c : ((kvRun 2 p.intKV p.strKV).1 : Int) > 65536
  · simp only [c, decide_true, if_true]; rfl
  · simp only [c, decide_false, if_false, Bool.false_eq_true, bput16_ok, Out.bind_ok]
    have e : be16 (ofInt 16 (wrap .u16 (wrap .i64 (Int.tdiv ((kvRun 2 p.intKV p.strKV).1 : Int) 4)))) =
        be16 (((kvRun 2 p.intKV p.strKV).1 / 4) % 65536) := by
      rw [ofInt_wrap 16 .u16 _ (by decide), Int.tdiv_eq_ediv_of_nonneg (by omega),
        wrap_i64_of_range _ (by omega) (by omega), be16_mod]
      have : ((kvRun 2 p.intKV p.strKV).1 : Int) / 4 = (((kvRun 2 p.intKV p.strKV).1 / 4 : Nat) : Int) := by omega
      rw [this, be16_ofInt_nat]
    rw [e]
    have hl : (putAt hm 12 (be16 (((kvRun 2 p.intKV p.strKV).1 / 4) % 65536))).length = 14 := by
      rw [putAt_len _ _ _ (by simp [hlen])]; exact hlen
    simp [bsub, twI, List.take_of_length_le, hl]

theorem tth_Encode_cf (fuel : Nat) (p : EncParam) (mI : GoMap Int Bytes) (mS : GoMap Bytes Bytes) (w : W)
    (H : KVArgs mS mI p.strKV p.intKV) (hf1 : p.strKV.length < fuel) (hf2 : p.intKV.length < fuel) (hf3 : 4 ≤ fuel)
    (hsz : strSz p.strKV + intSz p.intKV + 64 < 2 ^ 62) (hb : w.broken = false) :
    Funcs.tth_Encode (twI ew) fuel p.strKV (intOrd p.intKV) (toEncParam p mI mS) w =
      if ((kvRun 2 p.intKV p.strKV).1 : Int) > 65536 then
        .ok ((((w.push (putAt (putAt (w.fresh 14) 4 (be32 ((Facts.ttMagic + p.flags) % 4294967296))) 8
            (be32 (ofInt 32 p.seq)))).push [UInt8.ofNat p.proto]).push [UInt8.ofNat 0]).pushAll
            (kvRun 2 p.intKV p.strKV).2, [], GoErr.named "fmt.Errorf:invalid header length[%d]")
      else
        .ok ((((w.push (metaBytes p w (kvRun 2 p.intKV p.strKV).1)).push [UInt8.ofNat p.proto]).push
            [UInt8.ofNat 0]).pushAll (kvRun 2 p.intKV p.strKV).2,
          (metaBytes p w (kvRun 2 p.intKV p.strKV).1).take 4, GoErr.nil) := by
  obtain ⟨k, rfl⟩ : ∃ k, fuel = k + 1 := ⟨fuel - 1, by omega⟩
  rw [tth_Encode_blocks, twI_malloc_ok ew w 14 hb (by omega)]
  have hl0 : len (w.fresh 14) = 14 := by simp [len]
  have e1 : be32 (ofInt 32 (268435456 + (p.flags : Int))) = be32 ((Facts.ttMagic + p.flags) % 4294967296) := by
    have : (268435456 : Int) + (p.flags : Int) = ((Facts.ttMagic + p.flags : Nat) : Int) := by
      simp [Facts.ttMagic]
    rw [this, be32_ofInt_nat, be32_mod]
  have hl1 : len (putAt (w.fresh 14) 4 (be32 ((Facts.ttMagic + p.flags) % 4294967296))) = 14 := by
    unfold len; rw [putAt_len _ _ _ (by simp)]; simp
  simp only [Out.bind_ok, ne_eq, not_true_eq_false, decide_false, Bool.false_eq_true, if_false, hl0,
    bchk_ok 14 0 4 (by omega) (by omega) (by omega), bchk_ok 14 12 14 (by omega) (by omega) (by omega),
    bchk_ok 14 4 8 (by omega) (by omega) (by omega), bchk_ok 14 8 12 (by omega) (by omega) (by omega), bput32_ok,
    toEncParam_Flags, toEncParam_SeqID, ofInt_wrap 32 .u32 _ (by decide : 32 ≤ IT.bits .u32), e1, hl1,
    Int.reduceToNat]
  -- protocol id, the number of transform ids, the empty loop
  unfold gEncInfo
  have hz : wrap .u8 (len ([] : Bytes)) = 0 := by decide
  have hb1 : (w.push (w.fresh 14)).broken = false := by simp [hb]
  simp only [hz, toEncParam_ProtocolID, tth_WriteByte_cf ew hew, hb, W.push_broken, Bool.false_eq_true, if_false, Out.bind_ok, Out.bind_eq,
    Out.pure_eq, ne_eq, not_true_eq_false, decide_false, Funcs.tth_Encode_loop1, len, List.length_nil,
    Int.natCast_zero, Int.lt_irrefl, byteOf_nat, byteOf_zero]
  have hm2l : (putAt (putAt (w.fresh 14) 4 (be32 ((Facts.ttMagic + p.flags) % 4294967296))) 8
      (be32 (ofInt 32 p.seq))).length = 14 := by
    rw [putAt_len _ _ _ (by rw [putAt_len _ _ _ (by simp)]; simp), putAt_len _ _ _ (by simp)]; simp
  rw [gEncKV_cf ew hew (k + 1) p mI mS _ H hf1 hf2 hf3 hsz _ hm2l w.n (by simp [hb])]
  have hs := fun bs => setRegion_deep w (w.fresh 14) bs
    ([UInt8.ofNat p.proto] :: [UInt8.ofNat 0] :: (kvRun 2 p.intKV p.strKV).2)
  simp only [W.pushAll_cons] at hs
  simp only [show byteOf (wrap .u8 0) = UInt8.ofNat 0 from by decide, hs]
  rfl

omit hew in
theorem kvRun_bound (sz : Nat) (intKV : IntMap) (strKV : StrMap) :
    (kvRun sz intKV strKV).1 ≤ sz + strSz strKV + intSz intKV + 16 := by
  have hle1 := strBytes_le strKV
  have hle2 := intBytes_le intKV
  unfold kvRun
  cases hl : strKV.lookup gdprKey with
  | none => simp only; split <;> split <;> simp only <;> omega
  | some tok =>
    have htok := lookup_strBytes strKV tok hl
    simp only; split <;> split <;> simp only <;> omega

omit hew in
theorem encode_broken (p : EncParam) (w : W) (hb : w.broken = true) : encode p w = .err .writer := by
  simp [encode, W.malloc, hb]

/-- `Encode` translated from the Go source IS the model `TTH.encode`: for every pair of visited sequences (the iteration
    orders of `param.StrInfo` and `param.IntInfo`) and every pair of Go maps that agree with them, on a writer that works
    or is broken. The header-meta region is kept across the later `Malloc`s and its size field is filled last (`commit`
    of region `w.n` after everything else was appended); the returned `totalLenField` holds bytes `[0:4]` of that region -/
theorem tth_Encode_eq (fuel : Nat) (p : EncParam) (mI : GoMap Int Bytes) (mS : GoMap Bytes Bytes) (w : W)
    (H : KVArgs mS mI p.strKV p.intKV) (hf1 : p.strKV.length < fuel) (hf2 : p.intKV.length < fuel) (hf3 : 4 ≤ fuel)
    (hsz : strSz p.strKV + intSz p.intKV + 64 < 2 ^ 62) :
    liftEnc w (Funcs.tth_Encode (twI ew) fuel p.strKV (intOrd p.intKV) (toEncParam p mI mS) w) = encode p w := by
  cases hb : w.broken with
  | true =>
    rw [encode_broken p w hb, tth_Encode_blocks, twI_malloc_broken ew w 14 hb]
    simp [liftEnc, hew]
  | false =>
    have hbd := kvRun_bound 2 p.intKV p.strKV
    rw [tth_Encode_cf ew hew fuel p mI mS w H hf1 hf2 hf3 hsz hb, encode_cf p w hb]
    have hmod : (kvRun 2 p.intKV p.strKV).1 % 2 ^ Facts.ttEncodeSizeCheckBits = (kvRun 2 p.intKV p.strKV).1 := by
      apply Nat.mod_eq_of_lt
      have : (2 : Nat) ^ 62 < 2 ^ Facts.ttEncodeSizeCheckBits := by decide
      omega
    rw [hmod]
    by_cases c : (kvRun 2 p.intKV p.strKV).1 > Facts.ttMaxHeaderSize
    · have c' : ((kvRun 2 p.intKV p.strKV).1 : Int) > 65536 := by
        have : Facts.ttMaxHeaderSize = 65536 := rfl
        omega
      rw [if_pos c, if_pos c']
      simp [liftEnc]
    · have c' : ¬ ((kvRun 2 p.intKV p.strKV).1 : Int) > 65536 := by
        have : Facts.ttMaxHeaderSize = 65536 := rfl
        omega
      rw [if_neg c, if_neg c']
      -- the returned slice is bytes [0:4] of region `w.n`
      have hidx : ((((w.push (metaBytes p w (kvRun 2 p.intKV p.strKV).1)).push [UInt8.ofNat p.proto]).push
          [UInt8.ofNat 0]).pushAll (kvRun 2 p.intKV p.strKV).2) =
          (w.push (metaBytes p w (kvRun 2 p.intKV p.strKV).1)).pushAll
            ([UInt8.ofNat p.proto] :: [UInt8.ofNat 0] :: (kvRun 2 p.intKV p.strKV).2) := rfl
      have hn : ((w.push (metaBytes p w (kvRun 2 p.intKV p.strKV).1)).pushAll
            ([UInt8.ofNat p.proto] :: [UInt8.ofNat 0] :: (kvRun 2 p.intKV p.strKV).2)).n - 1 - w.n =
          ([UInt8.ofNat p.proto] :: [UInt8.ofNat 0] :: (kvRun 2 p.intKV p.strKV).2).reverse.length := by
        rw [pushAll_n]; simp only [W.push_n, List.length_reverse]; omega
      have hit : ((w.push (metaBytes p w (kvRun 2 p.intKV p.strKV).1)).pushAll
            ([UInt8.ofNat p.proto] :: [UInt8.ofNat 0] :: (kvRun 2 p.intKV p.strKV).2)).items =
          ([UInt8.ofNat p.proto] :: [UInt8.ofNat 0] :: (kvRun 2 p.intKV p.strKV).2).reverse ++
            metaBytes p w (kvRun 2 p.intKV p.strKV).1 :: w.items := by
        rw [pushAll_items]; rfl
      simp only [liftEnc, if_true, hidx, hn, hit, get_mid, Option.map_some]

end enc

/-! ## what Go guarantees about the two visited sequences gives `KVArgs` -/

theorem lookup_cons_eq (k : Bytes) (e : Bytes × Bytes) (r : List (Bytes × Bytes)) :
    (e :: r).lookup k = if k = e.1 then some e.2 else r.lookup k := by
  obtain ⟨a, b⟩ := e
  by_cases h : k = a
  · subst h; simp [List.lookup]
  · have : (k == a) = false := by simp [h]
    simp [List.lookup, this, h]

theorem lookup_filter_ne (l : List (Bytes × Bytes)) (k a : Bytes) (h : k ≠ a) :
    (l.filter (fun x => !(x.1 == a))).lookup k = l.lookup k := by
  induction l with
  | nil => rfl
  | cons e r ih =>
    by_cases he : e.1 = a
    · have hf : (e :: r).filter (fun x => !(x.1 == a)) = r.filter (fun x => !(x.1 == a)) := by
        simp [List.filter_cons, he]
      have hk : ¬ k = e.1 := by rw [he]; exact h
      rw [hf, ih, lookup_cons_eq, if_neg hk]
    · have hf : (e :: r).filter (fun x => !(x.1 == a)) = e :: r.filter (fun x => !(x.1 == a)) := by
        simp [List.filter_cons, he]
      rw [hf, lookup_cons_eq, lookup_cons_eq, ih]

theorem lookup_mapEntriesL (l : List (Bytes × Bytes)) (k : Bytes) : (mapEntriesL l).lookup k = l.lookup k := by
  induction l with
  | nil => rfl
  | cons e r ih =>
    simp only [mapEntriesL]
    rw [lookup_cons_eq, lookup_cons_eq]
    by_cases hk : k = e.1
    · rw [if_pos hk, if_pos hk]
    · rw [if_neg hk, if_neg hk, lookup_filter_ne _ _ _ hk, ih]

theorem perm_lookup {l1 l2 : List (Bytes × Bytes)} (h : l1.Perm l2) (hn : (l1.map Prod.fst).Nodup) (k : Bytes) :
    l1.lookup k = l2.lookup k := by
  induction h with
  | nil => rfl
  | cons x _ ih =>
    simp only [List.map_cons, List.nodup_cons] at hn
    rw [lookup_cons_eq, lookup_cons_eq, ih hn.2]
  | swap x y l =>
    simp only [List.map_cons, List.nodup_cons, List.mem_cons, not_or] at hn
    rw [lookup_cons_eq, lookup_cons_eq, lookup_cons_eq, lookup_cons_eq]
    by_cases h1 : k = y.1
    · have h2 : ¬ k = x.1 := by rw [h1]; exact hn.1.1
      rw [if_pos h1, if_neg h2, if_pos h1]
    · rw [if_neg h1, if_neg h1]
  | trans h1 _ ih1 ih2 =>
    rw [ih1 hn, ih2 ((h1.map Prod.fst).nodup_iff.mp hn)]

/-- when `strKV` is an iteration order of the Go map `mS` and `intOrd intKV` one of `mI` (`GoSem.MapOrder`: a permutation
    of the map's entries — what Go guarantees), the hypotheses of the theorems above hold -/
theorem kvArgs_of_order (mS : GoMap Bytes Bytes) (mI : GoMap Int Bytes) (strKV : StrMap) (intKV : IntMap)
    (h1 : MapOrder mS strKV) (h2 : MapOrder mI (intOrd intKV)) : KVArgs mS mI strKV intKV where
  lenS := by unfold mapLen; rw [← h1.length_eq]
  lenI := by unfold mapLen; rw [← h2.length_eq]; simp [intOrd]
  getS := by
    cases mS with
    | none =>
      have : strKV = [] := by simpa [MapOrder, mapEntries] using h1
      subst this; rfl
    | some l =>
      have hp : strKV.Perm (mapEntriesL l) := h1
      rw [perm_lookup hp ((hp.map Prod.fst).nodup_iff.mpr (mapEntriesL_nodup l)), lookup_mapEntriesL]
      rfl

/-! ## the generated functions compute (non-vacuity) -/

/-- a fresh writer whose memory is filled with 0xAA -/
def exW : W := ⟨[], 0, false, fun _ _ => 170⟩
def exErr : GoErr := .named "sink"

-- WriteByte / WriteUint16 / WriteString2BLen: what Flush would hand to the sink
example : (Funcs.tth_WriteByte (twI exErr) 7 exW).bind (fun r => .ok (r.1.bytes, r.2)) = .ok ([7], .nil) := by
  decide +kernel
example : (Funcs.tth_WriteString2BLen (twI exErr) [104, 105] exW).bind (fun r => .ok (r.1.bytes, r.2)) =
    .ok ([0, 2, 104, 105], 4, .nil) := by decide +kernel
example : (Funcs.tth_WriteString (twI exErr) [104, 105] exW).bind (fun r => .ok (r.1.bytes, r.2)) =
    .ok ([0, 0, 0, 2, 104, 105], 6, .nil) := by decide +kernel
-- an error from the writer (the sticky error): nothing is appended
example : (Funcs.tth_WriteUint16 (twI exErr) 513 { exW with broken := true }).bind (fun r => .ok (r.1.bytes, r.2)) =
    .ok ([], exErr) := by decide +kernel

-- Encode: flags 2, seq 9, protocol 0, one int KV (7 ↦ "x"), three string KVs ("k" ↦ "v", the GDPR token ↦ "t",
-- "a" ↦ "b"), the same string map visited in two orders. The translated constant `GDPRToken` (`"…".toUTF8.toList`) does not evaluate in the
-- kernel, so these go through the theorem and evaluate the model:
--   meta = [4 dirty bytes | 0x1000 0002 | seq 9 | size/4 = 8], info = proto 0, 0 transforms, 11 0001 "t" (ACL),
--   01 0002 <the two pairs in the visited order>, 10 0001 0007 "x", padding to a multiple of 4
def exP (strKV : StrMap) : EncParam := ⟨2, 9, 0, [(7, [120])], strKV⟩
def exStr1 : StrMap := [([107], [118]), (gdprKey, [116]), ([97], [98])]
def exStr2 : StrMap := [([97], [98]), (gdprKey, [116]), ([107], [118])]

theorem exArgs (strKV : StrMap) (h : strKV = exStr1 ∨ strKV = exStr2) :
    KVArgs (some exStr1) (some [(7, [120])]) strKV [(7, [120])] := by
  rcases h with rfl | rfl
  · exact ⟨by decide, by decide, by decide⟩
  · exact ⟨by decide, by decide, by decide⟩

example : (liftEnc exW (Funcs.tth_Encode (twI exErr) 5 (exP exStr1).strKV (intOrd (exP exStr1).intKV)
      (toEncParam (exP exStr1) (some [(7, [120])]) (some exStr1)) exW)).bind (fun r => .ok (r.1, r.2.bytes)) =
    .ok (0, [170, 170, 170, 170, 16, 0, 0, 2, 0, 0, 0, 9, 0, 8,
             0, 0,  17, 0, 1, 116,  1, 0, 2, 0, 1, 107, 0, 1, 118, 0, 1, 97, 0, 1, 98,
             16, 0, 1, 0, 7, 0, 1, 120,  0, 0, 0]) := by
  rw [tth_Encode_eq exErr (by decide) 5 (exP exStr1) _ _ exW (exArgs _ (Or.inl rfl)) (by decide) (by decide)
    (by decide) (by decide)]
  decide +kernel
example : (liftEnc exW (Funcs.tth_Encode (twI exErr) 5 (exP exStr2).strKV (intOrd (exP exStr2).intKV)
      (toEncParam (exP exStr2) (some [(7, [120])]) (some exStr1)) exW)).bind (fun r => .ok (r.1, r.2.bytes)) =
    .ok (0, [170, 170, 170, 170, 16, 0, 0, 2, 0, 0, 0, 9, 0, 8,
             0, 0,  17, 0, 1, 116,  1, 0, 2, 0, 1, 97, 0, 1, 98, 0, 1, 107, 0, 1, 118,
             16, 0, 1, 0, 7, 0, 1, 120,  0, 0, 0]) := by
  rw [tth_Encode_eq exErr (by decide) 5 (exP exStr2) _ _ exW (exArgs _ (Or.inr rfl)) (by decide) (by decide)
    (by decide) (by decide)]
  decide +kernel
-- the first Malloc fails: Encode returns its own error, nothing is appended (no map is touched: this evaluates directly)
example : (liftEnc { exW with broken := true } (Funcs.tth_Encode (twI exErr) 5 exStr1 (intOrd [(7, [120])])
      (toEncParam (exP exStr1) (some [(7, [120])]) (some exStr1)) { exW with broken := true })).bind
        (fun r => .ok r.1) = .err .writer := by decide +kernel
example : (Funcs.tth_Encode (twI exErr) 5 exStr1 (intOrd [(7, [120])])
      (toEncParam (exP exStr1) (some [(7, [120])]) (some exStr1)) { exW with broken := true }).bind
        (fun r => .ok (r.1.bytes, r.2)) =
    .ok ([], [], .named "fmt.Errorf:ttHeader malloc header meta failed, %s") := by decide +kernel
-- the loops run out of fuel (an artefact of the translation, excluded by the `fuel` hypotheses)
example : (Funcs.tth_writeKVInfo_loop2 (twI exErr) 1 [(7, [120])] exW 0 .nil).bind (fun _ => .ok ()) =
    .panic "nofuel" := by decide +kernel

end Verif.FuncsEq

/-
  Lemmas/Funcs/TTHEncode: the WRITE side of TTHeader, TRANSLATED from protocol/ttheader/{utils.go, encode.go}
  (`Verif.Funcs.tth_WriteByte`, `tth_WriteUint16`, `tth_WriteUint32`, `tth_WriteString`, `tth_WriteString2BLen`,
  `tth_writeKVInfo`, `tth_Encode`; generated, over an abstract `bufiox.Writer` = `WriterI ρ`), is the hand-written model
  of `Model/TTHeader` (`TTH.writeByte`, `writeU16`, `writeU32`, `writeStr4`, `writeStr2`, `writeKVInfo`, `encode`) over the
  writer log `TTH.W`.

  * `twI ew : WriterI W` is the model's writer seen as the abstract Go interface: `malloc` appends a region with the
    model's arbitrary initial content (`w.dirt <region id>`) and hands out the region id as the handle; `commit w h bs`
    stores `bs` as the content of region `h` (what the translated function wrote through the slice `Malloc` returned —
    committed when the function returns, also when later `Malloc`s came in between: `Encode` keeps the header-meta region
    and fills its size field last); `writeBinary` appends the bytes. A broken writer (`w.broken`, the sticky error) returns
    the error `ew ≠ nil` and nothing else happens.
  * Go's map iteration order: the translated `writeKVInfo` / `Encode` take the two visited sequences as explicit
    parameters `ord1` (strKVMap) and `ord2` (intKVMap); the model takes the maps as the lists it iterates. The theorems hold
    for every pair of sequences and every pair of Go maps whose `len` and `[GDPRToken]` agree with the string sequence
    (`KVArgs`), which is what Go guarantees when the sequences are iteration orders of the maps (`kvArgs_of_order`).
  * lifts: a nil error is `.ok`, any other error is the model's `.writer` (or `.size` for Encode's own error); panics are
    carried over.

  Method: with the concrete instance every callee has a closed form (`if w.broken then (w, ew) else (w.push …, nil)`), so
  has every model function; the theorems split on `w.broken`, on the presence of the GDPR token and on the two sizes —
  semantic conditions, before anything is simplified. The generated `writeKVInfo` / `Encode` are then WALKED from the
  head (`tth_step`, `enc_step`, `brk_step`): the shape of the generated code is never written down (no generated loop
  function, parameter list or statement order appears in a lemma statement; the three loops are handled by lemmas about
  ANY function with the loop's round, `strLoop_gen`, `intLoop_gen`, `padLoop_gen`), so a behaviour-preserving
  refactoring of the Go source (hoisted locals, commuted operands, inverted guards, un-nested returns, other loop
  forms) leaves the proofs standing.
-/
import Verif.Lemmas.Funcs.TTH2
import Verif.Lemmas.Funcs.Write
import Verif.Lemmas.Funcs.FcW
-- the simp sets below are deliberately wider than any single use needs (they are shared by all cases)
set_option linter.unusedSimpArgs false
namespace Verif.FuncsEq
open Verif Verif.GoSem Verif.TTH

/-! ## the model's writer as a `WriterI` -/

/-- fresh memory of the next region -/
def _root_.Verif.TTH.W.fresh (w : W) (k : Nat) : Bytes := (List.range k).map (w.dirt w.n)

/-- one more item -/
def _root_.Verif.TTH.W.push (w : W) (r : Bytes) : W := { w with items := r :: w.items, n := w.n + 1 }

/-- the content of region `id` replaced -/
def _root_.Verif.TTH.W.setRegion (w : W) (id : Nat) (bs : Bytes) : W :=
  if id < w.n then { w with items := w.items.set (w.n - 1 - id) bs } else w

def twI (ew : GoErr) : WriterI W where
  malloc w n :=
    if w.broken then .ok (([], w.n, ew), w)
    else if n < 0 then .ok (([], w.n, ew), w)
    else .ok ((w.fresh n.toNat, w.n, GoErr.nil), w.push (w.fresh n.toNat))
  commit w h bs := w.setRegion h bs
  writeBinary w v :=
    if w.broken then .ok ((0, ew), w) else .ok (((v.length : Int), GoErr.nil), w.push v)
  writtenLen w := (w.bytes.length : Int)

@[simp] theorem _root_.Verif.TTH.W.fresh_length (w : W) (k : Nat) : (w.fresh k).length = k := by simp [W.fresh]
@[simp] theorem _root_.Verif.TTH.W.push_broken (w : W) (r : Bytes) : (w.push r).broken = w.broken := rfl
@[simp] theorem _root_.Verif.TTH.W.push_n (w : W) (r : Bytes) : (w.push r).n = w.n + 1 := rfl

theorem twI_malloc_ok (ew : GoErr) (w : W) (n : Int) (hb : w.broken = false) (hn : 0 ≤ n) :
    (twI ew).malloc w n = .ok ((w.fresh n.toNat, w.n, GoErr.nil), w.push (w.fresh n.toNat)) := by
  have : ¬ n < 0 := by omega
  simp [twI, hb, this]

theorem twI_malloc_broken (ew : GoErr) (w : W) (n : Int) (hb : w.broken = true) :
    (twI ew).malloc w n = .ok (([], w.n, ew), w) := by
  simp [twI, hb]

theorem twI_writeBinary_ok (ew : GoErr) (w : W) (v : Bytes) (hb : w.broken = false) :
    (twI ew).writeBinary w v = .ok (((v.length : Int), GoErr.nil), w.push v) := by
  simp [twI, hb]

theorem twI_writeBinary_broken (ew : GoErr) (w : W) (v : Bytes) (hb : w.broken = true) :
    (twI ew).writeBinary w v = .ok ((0, ew), w) := by
  simp [twI, hb]

/-- the region handed out last receives its final contents -/
theorem twI_commit_top (ew : GoErr) (w : W) (r r' : Bytes) : (twI ew).commit (w.push r) w.n r' = w.push r' := by
  simp [twI, W.setRegion, W.push]

/-- the handle returned next to an error names no region -/
theorem twI_commit_none (ew : GoErr) (w : W) (bs : Bytes) : (twI ew).commit w w.n bs = w := by
  simp [twI, W.setRegion]

/-! ## closed forms of the model's writers -/

theorem Out_bind_assoc' {ε α β γ : Type} (x : Out ε α) (f : α → Out ε β) (g : β → Out ε γ) :
    (x.bind f).bind g = x.bind fun a => (f a).bind g := by
  cases x <;> rfl

theorem malloc_put (w : W) (hb : w.broken = false) (k : Nat) (v : Bytes) (hv : v.length = k) :
    (w.malloc k).bind (fun r => r.2.put r.1 0 v) = .ok (w.push v) := by
  subst hv
  have h1 : ¬ (w.n + 1 ≤ w.n) := by omega
  have h2 : List.drop v.length (List.map (w.dirt w.n) (List.range v.length)) = [] := by simp
  simp [W.malloc, W.put, hb, W.push, h1, h2]

theorem malloc_put_bind {β : Type} (w : W) (hb : w.broken = false) (k : Nat) (v : Bytes) (hv : v.length = k)
    (f : W → Out EErr β) :
    (w.malloc k).bind (fun r => (r.2.put r.1 0 v).bind f) = f (w.push v) := by
  have := malloc_put w hb k v hv
  rw [← Out_bind_assoc', this]; rfl

theorem malloc_broken (w : W) (hb : w.broken = true) (k : Nat) : w.malloc k = .err .writer := by
  simp [W.malloc, hb]

theorem writeByte_cf (w : W) (v : Nat) :
    writeByte w v = if w.broken then .err .writer else .ok (w.push [UInt8.ofNat v]) := by
  unfold writeByte
  cases hb : w.broken
  · rw [malloc_put w hb 1 _ rfl]; simp
  · rw [malloc_broken w hb]; simp

theorem writeU16_cf (w : W) (v : Nat) :
    writeU16 w v = if w.broken then .err .writer else .ok (w.push (be16 v)) := by
  unfold writeU16
  cases hb : w.broken
  · rw [malloc_put w hb 2 _ rfl]; simp
  · rw [malloc_broken w hb]; simp

theorem writeU32_cf (w : W) (v : Nat) :
    writeU32 w v = if w.broken then .err .writer else .ok (w.push (be32 v)) := by
  unfold writeU32
  cases hb : w.broken
  · rw [malloc_put w hb 4 _ rfl]; simp
  · rw [malloc_broken w hb]; simp

theorem writeStr2_cf (w : W) (s : Bytes) :
    writeStr2 w s = if w.broken then .err .writer
      else .ok (s.length + 2, (w.push (be16 (s.length % 65536))).push s) := by
  unfold writeStr2
  rw [writeU16_cf]
  cases hb : w.broken
  · simp [W.writeBinary, hb, W.push]
  · simp

theorem writeStr4_cf (w : W) (s : Bytes) :
    writeStr4 w s = if w.broken then .err .writer
      else .ok (s.length + 4, (w.push (be32 (s.length % 4294967296))).push s) := by
  unfold writeStr4
  rw [writeU32_cf]
  cases hb : w.broken
  · simp [W.writeBinary, hb, W.push]
  · simp

/-! ## lifts -/

/-- `(writer, err)` of a translated writer as the model's outcome -/
def liftE (x : GM (W × GoErr)) : Out EErr W :=
  match x with
  | .ok r => if r.2 = .nil then .ok r.1 else .err .writer
  | .panic s => .panic s
  | .oob => .oob
  | .err e => nomatch e

/-- `(writer, n, err)` as the model's `(n, writer)` -/
def liftEN (x : GM (W × Int × GoErr)) : Out EErr (Nat × W) :=
  match x with
  | .ok r => if r.2.2 = .nil then .ok (r.2.1.toNat, r.1) else .err .writer
  | .panic s => .panic s
  | .oob => .oob
  | .err e => nomatch e

theorem be16_ofInt_nat (n : Nat) : be16 (ofInt 16 (n : Int)) = be16 n := by
  have : ofInt 16 (n : Int) = n % 65536 := by unfold ofInt; omega
  rw [this]
  unfold be16
  congr 1
  · apply ofNat_congr; omega
  congr 1
  · apply ofNat_congr; omega

theorem be16_toU (x : Int) : be16 (toU 16 x).toNat = be16 (ofInt 16 x) := by
  rw [toU_ofInt]; simp
theorem be32_toU (x : Int) : be32 (toU 32 x).toNat = be32 (ofInt 32 x) := by
  rw [toU_ofInt]; simp

/-! ## utils.go: closed forms of the translated writers over `twI` -/

/-- stores that fill a whole local slice -/
theorem vset_whole1 (b : Bytes) (h : b.length = 1) (x : Int) : vset b 0 0 x = .ok [byteOf x] := by
  match b, h with
  | [a], _ => simp [vset, vlen, len, putAt]

theorem vputU16_whole (b : Bytes) (h : b.length = 2) (x : Int) : vputU16 b 0 x = .ok (be16 (ofInt 16 x)) := by
  match b, h with
  | [a, c], _ => simp [vputU16, vlen, len, putAt, be16_toU]

theorem vputU32_whole (b : Bytes) (h : b.length = 4) (x : Int) : vputU32 b 0 x = .ok (be32 (ofInt 32 x)) := by
  match b, h with
  | [a, c, d, f], _ => simp [vputU32, vlen, len, putAt, be32_toU]

theorem vset_fresh1 (w : W) (x : Int) : vset (w.fresh 1) 0 0 x = .ok [byteOf x] := vset_whole1 _ (by simp) x
theorem vputU16_fresh2 (w : W) (x : Int) : vputU16 (w.fresh 2) 0 x = .ok (be16 (ofInt 16 x)) :=
  vputU16_whole _ (by simp) x
theorem vputU32_fresh4 (w : W) (x : Int) : vputU32 (w.fresh 4) 0 x = .ok (be32 (ofInt 32 x)) :=
  vputU32_whole _ (by simp) x

section writers
variable (ew : GoErr) (hew : ew ≠ GoErr.nil)
include hew

theorem tth_WriteByte_cf (w : W) (v : Int) :
    Funcs.tth_WriteByte (twI ew) v w =
      if w.broken then .ok (w, ew) else .ok (w.push [byteOf v], GoErr.nil) := by
  unfold Funcs.tth_WriteByte
  cases hb : w.broken
  · bsimp [twI_malloc_ok ew w 1 hb (by omega), vset_fresh1, Int.reduceToNat, twI_commit_top]
  · bsimp [twI_malloc_broken ew w 1 hb, hew, twI_commit_none]

theorem tth_WriteUint16_cf (w : W) (v : Int) :
    Funcs.tth_WriteUint16 (twI ew) v w =
      if w.broken then .ok (w, ew) else .ok (w.push (be16 (ofInt 16 v)), GoErr.nil) := by
  unfold Funcs.tth_WriteUint16
  cases hb : w.broken
  · bsimp [twI_malloc_ok ew w 2 hb (by omega), vputU16_fresh2, Int.reduceToNat, twI_commit_top]
  · bsimp [twI_malloc_broken ew w 2 hb, hew, twI_commit_none]

theorem tth_WriteUint32_cf (w : W) (v : Int) :
    Funcs.tth_WriteUint32 (twI ew) v w =
      if w.broken then .ok (w, ew) else .ok (w.push (be32 (ofInt 32 v)), GoErr.nil) := by
  unfold Funcs.tth_WriteUint32
  cases hb : w.broken
  · bsimp [twI_malloc_ok ew w 4 hb (by omega), vputU32_fresh4, Int.reduceToNat, twI_commit_top]
  · bsimp [twI_malloc_broken ew w 4 hb, hew, twI_commit_none]

theorem tth_WriteString2BLen_cf (w : W) (s : Bytes) (hs : s.length < 2 ^ 62) :
    Funcs.tth_WriteString2BLen (twI ew) s w =
      if w.broken then .ok (w, 0, ew)
      else .ok ((w.push (be16 (s.length % 65536))).push s, ((s.length + 2 : Nat) : Int), GoErr.nil) := by
  have hl : len s = (s.length : Int) := rfl
  unfold Funcs.tth_WriteString2BLen
  cases hb : w.broken
  · have e1 : be16 (ofInt 16 (wrap .u16 (s.length : Int))) = be16 (s.length % 65536) := by
      rw [ofInt_wrap 16 .u16 _ (by decide), be16_ofInt_nat]
      unfold be16; congr 1
      · apply ofNat_congr; omega
      congr 1
      · apply ofNat_congr; omega
    have hb' : (w.push (be16 (s.length % 65536))).broken = false := by simp [hb]
    bsimp [hl, tth_WriteUint16_cf ew hew, hb, e1, twI_writeBinary_ok ew (w.push (be16 (s.length % 65536))) s hb',
      wrap_i64_of_range]
    congr_omega
  · bsimp [hl, tth_WriteUint16_cf ew hew, hb, hew]

theorem tth_WriteString_cf (w : W) (s : Bytes) (hs : s.length < 2 ^ 62) :
    Funcs.tth_WriteString (twI ew) s w =
      if w.broken then .ok (w, 0, ew)
      else .ok ((w.push (be32 (s.length % 4294967296))).push s, ((s.length + 4 : Nat) : Int), GoErr.nil) := by
  have hl : len s = (s.length : Int) := rfl
  unfold Funcs.tth_WriteString
  cases hb : w.broken
  · have e1 : be32 (ofInt 32 (wrap .u32 (s.length : Int))) = be32 (s.length % 4294967296) := by
      rw [ofInt_wrap 32 .u32 _ (by decide), be32_ofInt_nat, be32_mod]
    have hb' : (w.push (be32 (s.length % 4294967296))).broken = false := by simp [hb]
    bsimp [hl, tth_WriteUint32_cf ew hew, hb, e1, twI_writeBinary_ok ew (w.push (be32 (s.length % 4294967296))) s hb',
      wrap_i64_of_range]
    congr_omega
  · bsimp [hl, tth_WriteUint32_cf ew hew, hb, hew]

/-! ### the five writers of utils.go ARE the model's writers -/

omit hew in
theorem byteOf_nat (v : Nat) : byteOf (v : Int) = UInt8.ofNat v := by
  rw [byteOf_eq]; apply ofNat_congr; unfold ofInt; omega

theorem tth_WriteByte_eq (w : W) (v : Nat) : liftE (Funcs.tth_WriteByte (twI ew) (v : Int) w) = writeByte w v := by
  rw [tth_WriteByte_cf ew hew, writeByte_cf, byteOf_nat]
  cases w.broken <;> simp [liftE, hew]

theorem tth_WriteUint16_eq (w : W) (v : Nat) : liftE (Funcs.tth_WriteUint16 (twI ew) (v : Int) w) = writeU16 w v := by
  rw [tth_WriteUint16_cf ew hew, writeU16_cf, be16_ofInt_nat]
  cases w.broken <;> simp [liftE, hew]

theorem tth_WriteUint32_eq (w : W) (v : Nat) : liftE (Funcs.tth_WriteUint32 (twI ew) (v : Int) w) = writeU32 w v := by
  rw [tth_WriteUint32_cf ew hew, writeU32_cf, be32_ofInt_nat]
  cases w.broken <;> simp [liftE, hew]

theorem tth_WriteString2BLen_eq (w : W) (s : Bytes) (hs : s.length < 2 ^ 62) :
    liftEN (Funcs.tth_WriteString2BLen (twI ew) s w) = writeStr2 w s := by
  rw [tth_WriteString2BLen_cf ew hew w s hs, writeStr2_cf]
  cases w.broken <;> simp [liftEN, hew]
  omega

theorem tth_WriteString_eq (w : W) (s : Bytes) (hs : s.length < 2 ^ 62) :
    liftEN (Funcs.tth_WriteString (twI ew) s w) = writeStr4 w s := by
  rw [tth_WriteString_cf ew hew w s hs, writeStr4_cf]
  cases w.broken <;> simp [liftEN, hew]
  omega

end writers

/-! ## encode.go: writeKVInfo -/

/-- bytes the string / int key-value sections can take (an upper bound; used to keep Go's `int` arithmetic exact) -/
def strSz (it : List (Bytes × Bytes)) : Nat := (it.map fun kv => kv.1.length + kv.2.length + 4).sum
def intSz (it : List (Nat × Bytes)) : Nat := (it.map fun kv => kv.2.length + 4).sum

theorem strSz_cons (kv : Bytes × Bytes) (r : List (Bytes × Bytes)) :
    strSz (kv :: r) = kv.1.length + kv.2.length + 4 + strSz r := by simp [strSz]
theorem intSz_cons (kv : Nat × Bytes) (r : List (Nat × Bytes)) :
    intSz (kv :: r) = kv.2.length + 4 + intSz r := by simp [intSz]

theorem lookup_le_strSz (it : List (Bytes × Bytes)) (k v : Bytes) (h : it.lookup k = some v) :
    v.length + 4 ≤ strSz it := by
  induction it with
  | nil => simp at h
  | cons kv r ih =>
    obtain ⟨a, b⟩ := kv
    rw [strSz_cons]
    simp only [List.lookup_cons] at h
    split at h
    · simp only [Option.some.injEq] at h; subst h; simp only; omega
    · have := ih h; omega

/-- a writer that works: what the two key-value loops append, and how many bytes they count -/
def _root_.Verif.TTH.W.pushAll (w : W) (items : List Bytes) : W := items.foldl W.push w

@[simp] theorem _root_.Verif.TTH.W.pushAll_nil (w : W) : w.pushAll [] = w := rfl
@[simp] theorem _root_.Verif.TTH.W.pushAll_cons (w : W) (x : Bytes) (r : List Bytes) :
    w.pushAll (x :: r) = (w.push x).pushAll r := rfl
@[simp] theorem _root_.Verif.TTH.W.pushAll_broken (w : W) (items : List Bytes) : (w.pushAll items).broken = w.broken := by
  induction items generalizing w with
  | nil => rfl
  | cons x r ih => simp [ih]

def strItems : List (Bytes × Bytes) → List Bytes
  | [] => []
  | kv :: r =>
    if kv.1 = gdprKey then strItems r
    else be16 (kv.1.length % 65536) :: kv.1 :: be16 (kv.2.length % 65536) :: kv.2 :: strItems r

def strBytes : List (Bytes × Bytes) → Nat
  | [] => 0
  | kv :: r => if kv.1 = gdprKey then strBytes r else (kv.1.length + 2) + (kv.2.length + 2) + strBytes r

def intItems : IntMap → List Bytes
  | [] => []
  | kv :: r => be16 kv.1 :: be16 (kv.2.length % 65536) :: kv.2 :: intItems r

def intBytes : IntMap → Nat
  | [] => 0
  | kv :: r => 2 + (kv.2.length + 2) + intBytes r

/-- the token's entry is not counted by the loop -/
theorem lookup_strBytes (it : List (Bytes × Bytes)) (v : Bytes) (h : it.lookup gdprKey = some v) :
    strBytes it + v.length + 4 ≤ strSz it := by
  induction it with
  | nil => simp at h
  | cons kv r ih =>
    obtain ⟨a, b⟩ := kv
    rw [strSz_cons]
    simp only [List.lookup_cons] at h
    by_cases hk : a = gdprKey
    · have hk' : (gdprKey == a) = true := by simp [hk]
      simp only [hk', Option.some.injEq] at h
      subst h
      have hle : strBytes r ≤ strSz r := by
        clear ih
        induction r with
        | nil => simp [strBytes, strSz]
        | cons kv r ih => rw [strSz_cons]; simp only [strBytes]; split <;> omega
      simp only [strBytes, hk, if_true]; omega
    · have hk' : (gdprKey == a) = false := by simp; exact fun e => hk e.symm
      simp only [hk'] at h
      have := ih h
      simp only [strBytes, hk, if_false]; omega

theorem strSz_ge_len (it : List (Bytes × Bytes)) : 4 * it.length ≤ strSz it := by
  induction it with
  | nil => simp [strSz]
  | cons kv r ih => rw [strSz_cons]; simp only [List.length_cons]; omega

theorem intSz_ge_len (it : IntMap) : 4 * it.length ≤ intSz it := by
  induction it with
  | nil => simp [intSz]
  | cons kv r ih => rw [intSz_cons]; simp only [List.length_cons]; omega

theorem strBytes_le (it : List (Bytes × Bytes)) : strBytes it ≤ strSz it := by
  induction it with
  | nil => simp [strBytes, strSz]
  | cons kv r ih => rw [strSz_cons]; simp only [strBytes]; split <;> omega

theorem intBytes_le (it : IntMap) : intBytes it ≤ intSz it := by
  induction it with
  | nil => simp [intBytes, intSz]
  | cons kv r ih => rw [intSz_cons]; simp only [intBytes]; omega

theorem writeStrKVs_cf (it : List (Bytes × Bytes)) (sz : Nat) (w : W) (hb : w.broken = false) :
    writeStrKVs it sz w = .ok (sz + strBytes it, w.pushAll (strItems it)) := by
  induction it generalizing sz w with
  | nil => rfl
  | cons kv r ih =>
    by_cases hk : kv.1 = gdprKey
    · simp only [writeStrKVs, strBytes, strItems, hk, if_true, ih sz w hb]
    · have hb1 : ((w.push (be16 (kv.1.length % 65536))).push kv.1).broken = false := by simp [hb]
      simp only [writeStrKVs, strBytes, strItems, hk, if_false, writeStr2_cf, hb, hb1, Bool.false_eq_true,
        Out.bind_ok, W.pushAll_cons]
      rw [ih _ _ (by simp [hb])]
      congr 2; omega

theorem writeIntKVs_cf (it : IntMap) (sz : Nat) (w : W) (hb : w.broken = false) :
    writeIntKVs it sz w = .ok (sz + intBytes it, w.pushAll (intItems it)) := by
  induction it generalizing sz w with
  | nil => rfl
  | cons kv r ih =>
    have hb1 : (w.push (be16 kv.1)).broken = false := by simp [hb]
    simp only [writeIntKVs, intBytes, intItems, writeU16_cf, writeStr2_cf, hb, hb1, Bool.false_eq_true, if_false,
      Out.bind_ok, W.pushAll_cons]
    rw [ih _ _ (by simp [hb])]
    congr 2; omega

/-- the visited sequence of `map[uint16]string` as the translation takes it -/
def intOrd (it : IntMap) : List (Int × Bytes) := it.map fun kv => ((kv.1 : Int), kv.2)

theorem vset_local (b : Bytes) (i : Nat) (x : Int) (h : i < b.length) :
    vset b 0 (i : Int) x = .ok (b.take i ++ byteOf x :: b.drop (i + 1)) := by
  have := vset_nf b 0 (i : Int) x (by omega)
  simp only [Int.natCast_zero, Nat.zero_add, Int.toNat_natCast, if_pos h] at this
  rw [this]; simp [Wire.putAt]

/-- what `writeKVInfo` reads of its two Go maps, in terms of the sequences the two `range` loops visit: `len(strKVMap)`,
    `strKVMap[GDPRToken]`, `len(intKVMap)` -/
structure KVArgs (mS : GoMap Bytes Bytes) (mI : GoMap Int Bytes) (strKV : StrMap) (intKV : IntMap) : Prop where
  lenS : mapLen mS = (strKV.length : Int)
  getS : mapGet mS gdprKey = strKV.lookup gdprKey
  lenI : mapLen mI = (intKV.length : Int)

theorem u16OfInt_eq (x : Int) : u16OfInt x = ofInt 16 x := rfl

theorem byteOf_kv : byteOf 1 = UInt8.ofNat Facts.ttInfoKeyValue := by decide
theorem byteOf_intkv : byteOf 16 = UInt8.ofNat Facts.ttInfoIntKeyValue := by decide
theorem byteOf_acl : byteOf 17 = UInt8.ofNat Facts.ttInfoACLToken := by decide

/-! ### the three loops of `writeKVInfo`, for ANY function with the loop's step behaviour

  The generated loop functions are never named in a statement: a lemma speaks of any `L` whose round (on a writer that
  works) appends the items and adds the byte counts the model's round does; the generated function is found by
  unification where the lemma is used, and the round is proved there by unfolding it. -/

theorem strLoop_gen {R : Type} {L : Nat → List (Bytes × Bytes) → W → Int → GM (LoopR R (List (Bytes × Bytes) × W × Int))}
    (hnil : ∀ f w szi, L (f + 1) [] w szi = .ok (.done ([], w, szi)))
    (hskip : ∀ f (kv : Bytes × Bytes) rest w szi, kv.1 = gdprKey → L (f + 1) (kv :: rest) w szi = L f rest w szi)
    (hcons : ∀ f (kv : Bytes × Bytes) rest (w : W) (szi : Int), kv.1 ≠ gdprKey → w.broken = false → 0 ≤ szi →
      szi + (kv.1.length + 2) + (kv.2.length + 2) < 2 ^ 62 →
      L (f + 1) (kv :: rest) w szi =
        L f rest ((((w.push (be16 (kv.1.length % 65536))).push kv.1).push (be16 (kv.2.length % 65536))).push kv.2)
          (szi + ((kv.1.length + 2 + (kv.2.length + 2) : Nat) : Int))) :
    ∀ (it : List (Bytes × Bytes)) (fuel : Nat) (w : W) (szi : Int), it.length < fuel → w.broken = false →
      0 ≤ szi → szi + strBytes it < 2 ^ 62 →
      L fuel it w szi = .ok (.done ([], w.pushAll (strItems it), szi + (strBytes it : Int))) := by
  intro it
  induction it with
  | nil =>
    intro fuel w szi hf hb _ _
    obtain ⟨fuel, rfl⟩ : ∃ k, fuel = k + 1 := ⟨fuel - 1, by simp at hf; omega⟩
    rw [hnil]; simp [strItems, strBytes]
  | cons kv rest ih =>
    intro fuel w szi hf hb h0 hsz
    obtain ⟨fuel, rfl⟩ : ∃ k, fuel = k + 1 := ⟨fuel - 1, by simp at hf; omega⟩
    by_cases hk : kv.1 = gdprKey
    · simp only [strBytes, strItems, hk, if_true] at hsz ⊢
      rw [hskip _ _ _ _ _ hk]
      exact ih fuel w szi (by simp at hf; omega) hb h0 hsz
    · simp only [strBytes, strItems, hk, if_false, W.pushAll_cons] at hsz ⊢
      rw [hcons _ _ _ _ _ hk hb h0 (by omega), ih fuel _ _ (by simp at hf; omega) (by simp [hb]) (by omega) (by omega)]
      congr 4; omega

theorem intLoop_gen {R σ : Type}
    {L : Nat → List (Int × Bytes) → W → Int → σ → GM (LoopR R (List (Int × Bytes) × W × Int × σ))}
    {E : Nat → Nat × Bytes → List (Int × Bytes) → W → Int → σ → σ}
    (hnil : ∀ f w szi e, L (f + 1) [] w szi e = .ok (.done ([], w, szi, e)))
    (hcons : ∀ f (kv : Nat × Bytes) (rest : List (Int × Bytes)) (w : W) (szi : Int) e, w.broken = false → 0 ≤ szi →
      szi + 2 + (kv.2.length + 2) < 2 ^ 62 →
      L (f + 1) (((kv.1 : Int), kv.2) :: rest) w szi e =
        L f rest (((w.push (be16 kv.1)).push (be16 (kv.2.length % 65536))).push kv.2)
          (szi + ((2 + (kv.2.length + 2) : Nat) : Int)) (E f kv rest w szi e)) :
    ∀ (it : IntMap) (fuel : Nat) (w : W) (szi : Int) (e : σ), it.length < fuel → w.broken = false →
      0 ≤ szi → szi + intBytes it < 2 ^ 62 →
      ∃ e', L fuel (intOrd it) w szi e = .ok (.done ([], w.pushAll (intItems it), szi + (intBytes it : Int), e')) := by
  intro it
  induction it with
  | nil =>
    intro fuel w szi e hf hb _ _
    obtain ⟨fuel, rfl⟩ : ∃ k, fuel = k + 1 := ⟨fuel - 1, by simp at hf; omega⟩
    exact ⟨e, by rw [intOrd, List.map_nil, hnil]; simp [intItems, intBytes]⟩
  | cons kv rest ih =>
    intro fuel w szi e hf hb h0 hsz
    obtain ⟨fuel, rfl⟩ : ∃ k, fuel = k + 1 := ⟨fuel - 1, by simp at hf; omega⟩
    simp only [intBytes, intItems, W.pushAll_cons] at hsz ⊢
    have h1 := hcons fuel kv (intOrd rest) w szi e hb h0 (by omega)
    obtain ⟨e2, h2⟩ := ih fuel (((w.push (be16 kv.1)).push (be16 (kv.2.length % 65536))).push kv.2)
      (szi + ((2 + (kv.2.length + 2) : Nat) : Int)) (E fuel kv (intOrd rest) w szi e) (by simp at hf; omega)
      (by simp [hb]) (by omega) (by omega)
    refine ⟨e2, ?_⟩
    rw [intOrd, List.map_cons, ← intOrd, h1, h2]
    congr 5; omega

/-- the padding loop from index 0: every byte of the region is set to 0 (`hstep`: one round below the length, `hdone`:
    done at the length; both about any buffer of the region's length) -/
theorem padLoop_gen {R : Type} {L : Nat → Bytes → Int → GM (LoopR R (Bytes × Int))} (b0 : Bytes)
    (hstep : ∀ f (b : Bytes) (i : Nat), b.length = b0.length → i < b0.length →
      L (f + 1) b (i : Int) = L f (b.take i ++ 0 :: b.drop (i + 1)) ((i + 1 : Nat) : Int))
    (hdone : ∀ f (b : Bytes), b.length = b0.length → L (f + 1) b (b0.length : Int) = .ok (.done (b, (b0.length : Int))))
    (fuel : Nat) (hf : b0.length < fuel) :
    L fuel b0 ((0 : Nat) : Int) = .ok (.done (List.replicate b0.length 0, (b0.length : Int))) := by
  have key : ∀ (k fuel : Nat) (b : Bytes) (i : Nat), b.length = b0.length → i + k = b0.length → k < fuel →
      L fuel b (i : Int) = .ok (.done (b.take i ++ List.replicate k 0, (b0.length : Int))) := by
    intro k
    induction k with
    | zero =>
      intro fuel b i hb hi hf
      obtain ⟨fuel, rfl⟩ : ∃ k, fuel = k + 1 := ⟨fuel - 1, by omega⟩
      have : i = b0.length := by omega
      subst this
      rw [hdone _ _ hb]
      simp [← hb]
    | succ k ih =>
      intro fuel b i hb hi hf
      obtain ⟨fuel, rfl⟩ : ∃ k, fuel = k + 1 := ⟨fuel - 1, by omega⟩
      rw [hstep _ _ _ hb (by omega)]
      have hlen : (b.take i ++ 0 :: b.drop (i + 1)).length = b0.length := by simp; omega
      rw [ih fuel _ (i + 1) hlen (by omega) (by omega)]
      have hA : (b.take i).length = i := by simp; omega
      have ht : (b.take i ++ 0 :: b.drop (i + 1)).take (i + 1) = b.take i ++ [0] := by
        rw [List.take_append, hA, List.take_of_length_le (by omega)]
        simp
      rw [ht, List.append_assoc]
      simp [List.replicate_succ]
  have := key b0.length fuel b0 0 rfl (by omega) hf
  simpa using this

theorem intLoop_bind {R σ β : Type}
    {L : Nat → List (Int × Bytes) → W → Int → σ → GM (LoopR R (List (Int × Bytes) × W × Int × σ))}
    {F : LoopR R (List (Int × Bytes) × W × Int × σ) → GM β} {Res : GM β}
    {E : Nat → Nat × Bytes → List (Int × Bytes) → W → Int → σ → σ}
    (hnil : ∀ f w szi e, L (f + 1) [] w szi e = .ok (.done ([], w, szi, e)))
    (hcons : ∀ f (kv : Nat × Bytes) (rest : List (Int × Bytes)) (w : W) (szi : Int) e, w.broken = false → 0 ≤ szi →
      szi + 2 + (kv.2.length + 2) < 2 ^ 62 →
      L (f + 1) (((kv.1 : Int), kv.2) :: rest) w szi e =
        L f rest (((w.push (be16 kv.1)).push (be16 (kv.2.length % 65536))).push kv.2)
          (szi + ((2 + (kv.2.length + 2) : Nat) : Int)) (E f kv rest w szi e))
    (it : IntMap) (fuel : Nat) (w : W) (szi : Int) (e : σ) (hf : it.length < fuel) (hb : w.broken = false)
    (h0 : 0 ≤ szi) (hsz : szi + intBytes it < 2 ^ 62)
    (hF : ∀ e', F (.done ([], w.pushAll (intItems it), szi + (intBytes it : Int), e')) = Res) :
    (L fuel (intOrd it) w szi e).bind F = Res := by
  obtain ⟨e', h⟩ := intLoop_gen hnil hcons it fuel w szi e hf hb h0 hsz
  rw [h, Out.bind_ok, hF]

theorem bind_eq_of {α β : Type} {x : GM α} {v : α} {K : α → GM β} {R : GM β} (h : x = .ok v) (hK : K v = R) :
    x.bind K = R := by
  rw [h]; exact hK

/-! ### walking the generated `writeKVInfo` / `Encode` on a writer that works

  The generated function is unfolded, its guards are decided from the semantic case split (`bsimp` with the facts in the
  context), and then it is walked from the head: the call at the head has a closed form (`tth_*_ok`, `twI_malloc_ok`,
  the loop lemmas — chosen by unification, `tth_step`), `bind_eq_of` applies the continuation to its value and `tth_norm`
  decides the error test that follows. Only the head is ever rewritten: statements under a binder are not touched until
  they are reached, so the order of `let`s, hoisted sub-expressions, inverted error tests or un-nested returns do not
  matter. -/

section kv
variable (ew : GoErr) (hew : ew ≠ GoErr.nil)
include hew

theorem tth_WriteByte_ok (w : W) (v : Int) (hb : w.broken = false) :
    Funcs.tth_WriteByte (twI ew) v w = .ok (w.push [byteOf v], GoErr.nil) := by
  rw [tth_WriteByte_cf ew hew, hb]; rfl

theorem tth_WriteUint16_ok (w : W) (v : Int) (hb : w.broken = false) :
    Funcs.tth_WriteUint16 (twI ew) v w = .ok (w.push (be16 (ofInt 16 v)), GoErr.nil) := by
  rw [tth_WriteUint16_cf ew hew, hb]; rfl

theorem tth_WriteString2BLen_ok (w : W) (s : Bytes) (hb : w.broken = false) (hs : s.length < 2 ^ 62) :
    Funcs.tth_WriteString2BLen (twI ew) s w =
      .ok ((w.push (be16 (s.length % 65536))).push s, ((s.length + 2 : Nat) : Int), GoErr.nil) := by
  rw [tth_WriteString2BLen_cf ew hew w s hs, hb]; rfl

/-! ### the model's sections in closed form -/

omit hew in
theorem writeKVInfo_broken (sz : Nat) (intKV : IntMap) (strKV : StrMap) (w : W) (hb : w.broken = true) :
    TTH.writeKVInfo sz intKV strKV w = .err .writer := by
  unfold TTH.writeKVInfo writeACL writeStrSection writeIntSection writePadding
  cases hl : strKV.lookup gdprKey with
  | some tok => simp [writeByte_cf, hb]
  | none =>
    by_cases c1 : 0 < strKV.length
    · simp [writeByte_cf, hb, c1]
    · by_cases c2 : 0 < intKV.length
      · simp [writeByte_cf, hb, c1, c2]
      · simp [c1, c2, malloc_broken w hb]

omit hew in
theorem writePadding_cf (sz : Nat) (w : W) (hb : w.broken = false) :
    writePadding sz w = .ok (sz + (4 - sz % 4) % 4, w.push (List.replicate ((4 - sz % 4) % 4) 0)) := by
  unfold writePadding
  simp only [malloc_put_bind w hb _ _ (List.length_replicate ..)]

omit hew in
theorem writeIntSection_cf (sz : Nat) (intKV : IntMap) (w : W) (hb : w.broken = false) :
    writeIntSection sz intKV w =
      if 0 < intKV.length then
        .ok (sz + 3 + intBytes intKV,
          ((w.push [UInt8.ofNat Facts.ttInfoIntKeyValue]).push (be16 (ofInt 16 (intKV.length : Int)))).pushAll
            (intItems intKV))
      else .ok (sz, w) := by
  unfold writeIntSection
  by_cases c : 0 < intKV.length
  · have c' : ((intKV.length : Int) > 0) := by omega
    simp only [c, c', if_true, writeByte_cf, writeU16_cf, hb, W.push_broken, Bool.false_eq_true, if_false, Out.bind_ok,
      u16OfInt_eq]
    rw [writeIntKVs_cf _ _ _ (by simp [hb])]
  · have c' : ¬ ((intKV.length : Int) > 0) := by omega
    simp only [c, c', if_false]

omit hew in
theorem writeStrSection_cf (n : Int) (sz : Nat) (strKV : StrMap) (w : W) (hb : w.broken = false) :
    writeStrSection n sz strKV w =
      if n > 0 then
        .ok (sz + 3 + strBytes strKV,
          ((w.push [UInt8.ofNat Facts.ttInfoKeyValue]).push (be16 (ofInt 16 n))).pushAll (strItems strKV))
      else .ok (sz, w) := by
  unfold writeStrSection
  by_cases c : n > 0
  · simp only [c, if_true, writeByte_cf, writeU16_cf, hb, W.push_broken, Bool.false_eq_true, if_false, Out.bind_ok,
      u16OfInt_eq]
    rw [writeStrKVs_cf _ _ _ (by simp [hb])]
  · simp only [c, if_false]

omit hew in
theorem writeACL_cf (sz : Nat) (strKV : StrMap) (w : W) (hb : w.broken = false) :
    writeACL sz strKV w =
      match strKV.lookup gdprKey with
      | some tok => .ok ((strKV.length : Int) - 1, sz + 1 + (tok.length + 2),
          ((w.push [UInt8.ofNat Facts.ttInfoACLToken]).push (be16 (tok.length % 65536))).push tok)
      | none => .ok ((strKV.length : Int), sz, w) := by
  unfold writeACL
  cases strKV.lookup gdprKey with
  | none => rfl
  | some tok =>
    simp only [writeByte_cf, writeStr2_cf, hb, W.push_broken, Bool.false_eq_true, if_false, Out.bind_ok]

omit hew in
theorem _root_.Verif.TTH.W.pushAll_append (w : W) (a b : List Bytes) : w.pushAll (a ++ b) = (w.pushAll a).pushAll b := by
  simp [W.pushAll, List.foldl_append]

/-- what `writeKVInfo` does on a writer that works, independently of the writer: the size it returns and the items it
    appends (ACL token, string section, int section, padding) -/
def kvRun (sz : Nat) (intKV : IntMap) (strKV : StrMap) : Nat × List Bytes :=
  let a : Int × Nat × List Bytes :=
    match strKV.lookup gdprKey with
    | some tok => ((strKV.length : Int) - 1, sz + 1 + (tok.length + 2),
        [[UInt8.ofNat Facts.ttInfoACLToken], be16 (tok.length % 65536), tok])
    | none => ((strKV.length : Int), sz, [])
  let s : Nat × List Bytes :=
    if a.1 > 0 then (a.2.1 + 3 + strBytes strKV,
      a.2.2 ++ ([UInt8.ofNat Facts.ttInfoKeyValue] :: be16 (ofInt 16 a.1) :: strItems strKV))
    else (a.2.1, a.2.2)
  let i : Nat × List Bytes :=
    if 0 < intKV.length then (s.1 + 3 + intBytes intKV,
      s.2 ++ ([UInt8.ofNat Facts.ttInfoIntKeyValue] :: be16 (ofInt 16 (intKV.length : Int)) :: intItems intKV))
    else (s.1, s.2)
  (i.1 + (4 - i.1 % 4) % 4, i.2 ++ [List.replicate ((4 - i.1 % 4) % 4) 0])

omit hew in
/-- the model in closed form -/
theorem writeKVInfo_cf (sz : Nat) (intKV : IntMap) (strKV : StrMap) (w : W) (hb : w.broken = false) :
    TTH.writeKVInfo sz intKV strKV w = .ok ((kvRun sz intKV strKV).1, w.pushAll (kvRun sz intKV strKV).2) := by
  unfold TTH.writeKVInfo kvRun
  rw [writeACL_cf sz strKV w hb]
  cases strKV.lookup gdprKey with
  | none =>
    simp only [Out.bind_ok]
    rw [writeStrSection_cf _ _ _ _ hb]
    by_cases c1 : ((strKV.length : Int) > 0)
    · simp only [c1, if_true, Out.bind_ok]
      rw [writeIntSection_cf _ _ _ (by simp [hb])]
      by_cases c2 : 0 < intKV.length
      · simp only [c2, if_true, Out.bind_ok]
        rw [writePadding_cf _ _ (by simp [hb])]
        simp [W.pushAll_append]
      · simp only [c2, if_false, Out.bind_ok]
        rw [writePadding_cf _ _ (by simp [hb])]
        simp [W.pushAll_append]
    · simp only [c1, if_false, Out.bind_ok]
      rw [writeIntSection_cf _ _ _ hb]
      by_cases c2 : 0 < intKV.length
      · simp only [c2, if_true, Out.bind_ok]
        rw [writePadding_cf _ _ (by simp [hb])]
        simp [W.pushAll_append]
      · simp only [c2, if_false, Out.bind_ok]
        rw [writePadding_cf _ _ hb]
        simp [W.pushAll_append]
  | some tok =>
    simp only [Out.bind_ok]
    rw [writeStrSection_cf _ _ _ _ (by simp [hb])]
    by_cases c1 : ((strKV.length : Int) - 1 > 0)
    · simp only [c1, if_true, Out.bind_ok]
      rw [writeIntSection_cf _ _ _ (by simp [hb])]
      by_cases c2 : 0 < intKV.length
      · simp only [c2, if_true, Out.bind_ok]
        rw [writePadding_cf _ _ (by simp [hb])]
        simp [W.pushAll_append]
      · simp only [c2, if_false, Out.bind_ok]
        rw [writePadding_cf _ _ (by simp [hb])]
        simp [W.pushAll_append]
    · simp only [c1, if_false, Out.bind_ok]
      rw [writeIntSection_cf _ _ _ (by simp [hb])]
      by_cases c2 : 0 < intKV.length
      · simp only [c2, if_true, Out.bind_ok]
        rw [writePadding_cf _ _ (by simp [hb])]
        simp [W.pushAll_append]
      · simp only [c2, if_false, Out.bind_ok]
        rw [writePadding_cf _ _ (by simp [hb])]
        simp [W.pushAll_append]

-- the closed forms are selected by unification with the call at the head: a mismatch must fail at once
attribute [local irreducible] Funcs.tth_WriteByte Funcs.tth_WriteUint16 Funcs.tth_WriteUint32
  Funcs.tth_WriteString2BLen Funcs.tth_WriteString Funcs.tth_writeKVInfo Funcs.tth_writeKVInfo_loop1
  Funcs.tth_writeKVInfo_loop2 Funcs.tth_writeKVInfo_loop3 Funcs.tth_Encode_loop1

/-- the empty round of a generated loop -/
macro "kv_nil" : tactic => `(tactic| (intros; simp only [Funcs.tth_writeKVInfo_loop1, Funcs.tth_writeKVInfo_loop2,
  Funcs.tth_writeKVInfo_loop3, Out.pure_eq]))

/-- `bsimp` with every hypothesis of the context as a rewrite rule -/
macro "bsimps" : tactic =>
  `(tactic| simp (disch := omega) only [if_pos, if_neg, if_true, if_false, Out.bind_ok, Out.bind_panic, Out.pure_eq,
      Out.bind_eq, Option.isNone_none, Option.isNone_some, Option.isSome_none, Option.isSome_some, Bool.or_eq_true,
      Bool.and_eq_true, Bool.not_eq_true', Bool.not_eq_true, decide_eq_true_eq, decide_eq_false_iff_not,
      Bool.false_eq_true, Bool.true_eq_false, true_or, or_true, false_or, or_false, true_and, and_true, false_and,
      and_false, not_true_eq_false, not_false_eq_true, eq_self, ne_eq, Classical.not_not, ge_iff_le, gt_iff_lt,
      Nat.not_lt, Nat.not_le, Int.not_lt, Int.not_le, Bool.not_true, Bool.not_false, decide_true, decide_false,
      reduceCtorEq, gdprKey_utf8, wrap_i64_of_range, Option.getD_none, Option.getD_some, *])

/-- a guard at the head of the generated code holds / fails: decided from the facts in the context -/
macro "guard_tac" : tactic => `(tactic| ((try bsimps); first | done | omega))

/-- the writer still works -/
macro "hb_tac" : tactic => `(tactic| ((try simp only [W.push_broken, W.pushAll_broken]); assumption))

/-- a size expression of the generated code is in range: `wrap`s and `%` removed, then arithmetic -/
macro "rng_tac" : tactic => `(tactic| first
  | omega
  | (simp (disch := omega) only [wrap_i64_of_range, Int.tmod_eq_emod_of_nonneg]; omega))

/-- after a step: the continuation applied to the value, the error test that follows decided -/
macro "tth_norm" : tactic => `(tactic| try (simp only [Out.bind_ok, Out.pure_eq, ne_eq, not_true_eq_false,
  not_false_eq_true, eq_self, decide_true, decide_false, Bool.false_eq_true, Bool.not_true, Bool.not_false, if_true,
  if_false, twI_commit_top, reduceCtorEq]))

set_option hygiene false in
/-- the round of the generated padding loop (`hstep` / `hdone` of `padLoop_gen`): unfold whichever loop function it is -/
macro "pad_round" : tactic => `(tactic| (
  intros
  simp only [W.fresh_length] at *
  simp only [Funcs.tth_writeKVInfo_loop1, Funcs.tth_writeKVInfo_loop2, Funcs.tth_writeKVInfo_loop3]
  (try unfold len)
  bsimp [vset_local, byteOf_zero, wrap_i64_of_range, Int.natCast_add, Int.natCast_one, W.fresh_length]
  first | done | (with_reducible rfl) | congr_omega))

set_option hygiene false in
/-- one call at the head of generated code on a writer that works (the closed form is chosen by the TYPE of the value
    the call returns and, among the writers, by the irreducible head constant: a mismatch fails at once) -/
macro "tth_call" : tactic => `(tactic| (first
  | (show @Out.bind Empty (W × GoErr) _ _ _ = _; first
      | refine bind_eq_of (tth_WriteByte_ok ew hew _ _ (by hb_tac)) ?_
      | refine bind_eq_of (tth_WriteUint16_ok ew hew _ _ (by hb_tac)) ?_)
  | (show @Out.bind Empty (W × Int × GoErr) _ _ _ = _
     refine bind_eq_of (tth_WriteString2BLen_ok ew hew _ _ (by hb_tac) (by omega)) ?_)
  | (show @Out.bind Empty ((Bytes × Nat × GoErr) × W) _ _ _ = _
     (try simp (disch := omega) only [wrap_i64_of_range, Int.tmod_eq_emod_of_nonneg])
     refine bind_eq_of (twI_malloc_ok ew _ _ (by hb_tac) (by rng_tac)) ?_)
  | (show @Out.bind Empty (LoopR _ (Bytes × Int)) _ _ _ = _
     refine bind_eq_of (padLoop_gen _ (by pad_round) (by pad_round) _ (by simp only [W.fresh_length]; rng_tac)) ?_)))

set_option hygiene false in
/-- the rounds of the two key-value loops (hypotheses of `strLoop_gen` / `intLoop_bind`) -/
macro "kv_round" : tactic => `(tactic| (
  intros
  -- the key comparison may be written either way round
  (try (have hne' := Ne.symm (by assumption : _ ≠ gdprKey)))
  simp only [Funcs.tth_writeKVInfo_loop1, Funcs.tth_writeKVInfo_loop2, Funcs.tth_writeKVInfo_loop3]
  (try bsimps)
  repeat (tth_call; tth_norm)
  (try (simp (disch := omega) only [wrap_i64_of_range, be16_ofInt_nat]))
  first | done | (with_reducible rfl) | congr_omega))

set_option hygiene false in
macro "kv_skip" : tactic => `(tactic| (
  intros
  simp only [Funcs.tth_writeKVInfo_loop1, Funcs.tth_writeKVInfo_loop2, Funcs.tth_writeKVInfo_loop3]
  (try bsimps)))

set_option hygiene false in
/-- one statement at the head: a call, or one of the two key-value loops -/
macro "tth_step1" : tactic => `(tactic| (first
  | refine Eq.trans (if_pos (by guard_tac)) ?_
  | refine Eq.trans (if_neg (by guard_tac)) ?_
  | tth_call
  | (show @Out.bind Empty (LoopR _ (List (Bytes × Bytes) × W × Int)) _ _ _ = _
     refine bind_eq_of (strLoop_gen (by kv_nil) (by kv_skip) (by kv_round) _ _ _ _ (by omega) (by hb_tac)
       (by rng_tac) (by rng_tac)) ?_)
  | (show @Out.bind Empty (LoopR _ (List (Int × Bytes) × W × Int × _)) _ _ _ = _
     refine intLoop_bind (by kv_nil) (by kv_round) _ _ _ _ _ (by omega) (by hb_tac) (by rng_tac) (by rng_tac) ?_
     intro _)))

macro "tth_step" : tactic => `(tactic| (tth_step1; tth_norm))

/-- the statement of `tth_writeKVInfo_cf` (proved case by case: token or not, string section or not, int section or not) -/
def KVcf (fuel : Nat) (sz : Nat) (mI : GoMap Int Bytes) (mS : GoMap Bytes Bytes) (intKV : IntMap) (strKV : StrMap)
    (w : W) : Prop :=
  Funcs.tth_writeKVInfo (twI ew) fuel strKV (intOrd intKV) (sz : Int) mI mS w =
    .ok (w.pushAll (kvRun sz intKV strKV).2, ((kvRun sz intKV strKV).1 : Int), GoErr.nil)

set_option hygiene false in
/-- one case of `writeKVInfo`: the model's side with its guards decided, the map lookups of the generated code replaced
    by what `KVArgs` says of them, then the walk through the generated code, then the two results compared (constants,
    `len` of the maps, arithmetic) -/
macro "kv_leaf" : tactic => `(tactic| (
  obtain ⟨hS, hG, hI⟩ := H
  have hle1 := strBytes_le strKV
  have hle2 := intBytes_le intKV
  have hle3 := strSz_ge_len strKV
  have hle4 := intSz_ge_len intKV
  (try (have htok := lookup_strBytes strKV _ hl; have htok2 := lookup_le_strSz strKV gdprKey _ hl))
  unfold KVcf kvRun
  simp (disch := omega) only [hl, if_pos, if_neg, gt_iff_lt, List.nil_append, List.cons_append, W.pushAll_append,
    W.pushAll_cons, W.pushAll_nil]
  unfold Funcs.tth_writeKVInfo
  simp only [Out.bind_eq, Out.pure_eq, gdprKey_utf8, hG, hl, Option.getD_some, Option.getD_none]
  repeat tth_step
  simp only [byteOf_kv, byteOf_intkv, byteOf_acl, ofInt_wrap 16 .u16 _ (by decide), W.fresh_length, hS, hI]
  first | done | (with_reducible rfl) | congr_omega))

set_option linter.unusedSectionVars false

section cases
variable (fuel : Nat) (sz : Nat) (mI : GoMap Int Bytes) (mS : GoMap Bytes Bytes) (intKV : IntMap) (strKV : StrMap)
  (w : W) (H : KVArgs mS mI strKV intKV) (hf1 : strKV.length < fuel) (hf2 : intKV.length < fuel) (hf3 : 4 ≤ fuel)
  (hsz : sz + strSz strKV + intSz intKV + 32 < 2 ^ 62) (hb : w.broken = false)
include H hf1 hf2 hf3 hsz hb

theorem kvcf_n11 (hl : strKV.lookup gdprKey = none) (c1 : 0 < strKV.length) (c2 : 0 < intKV.length) :
    KVcf ew fuel sz mI mS intKV strKV w := by kv_leaf
theorem kvcf_n10 (hl : strKV.lookup gdprKey = none) (c1 : 0 < strKV.length) (c2 : ¬ 0 < intKV.length) :
    KVcf ew fuel sz mI mS intKV strKV w := by kv_leaf
theorem kvcf_n01 (hl : strKV.lookup gdprKey = none) (c1 : ¬ 0 < strKV.length) (c2 : 0 < intKV.length) :
    KVcf ew fuel sz mI mS intKV strKV w := by kv_leaf
theorem kvcf_n00 (hl : strKV.lookup gdprKey = none) (c1 : ¬ 0 < strKV.length) (c2 : ¬ 0 < intKV.length) :
    KVcf ew fuel sz mI mS intKV strKV w := by kv_leaf
theorem kvcf_t11 (tok : Bytes) (hl : strKV.lookup gdprKey = some tok) (c1 : 1 < strKV.length) (c2 : 0 < intKV.length) :
    KVcf ew fuel sz mI mS intKV strKV w := by kv_leaf
theorem kvcf_t10 (tok : Bytes) (hl : strKV.lookup gdprKey = some tok) (c1 : 1 < strKV.length)
    (c2 : ¬ 0 < intKV.length) : KVcf ew fuel sz mI mS intKV strKV w := by kv_leaf
theorem kvcf_t01 (tok : Bytes) (hl : strKV.lookup gdprKey = some tok) (c1 : ¬ 1 < strKV.length)
    (c2 : 0 < intKV.length) : KVcf ew fuel sz mI mS intKV strKV w := by kv_leaf
theorem kvcf_t00 (tok : Bytes) (hl : strKV.lookup gdprKey = some tok) (c1 : ¬ 1 < strKV.length)
    (c2 : ¬ 0 < intKV.length) : KVcf ew fuel sz mI mS intKV strKV w := by kv_leaf

end cases

/-- the translation in closed form: the same size and the same items as the model, on every writer that works -/
theorem tth_writeKVInfo_cf (fuel : Nat) (sz : Nat) (mI : GoMap Int Bytes) (mS : GoMap Bytes Bytes) (intKV : IntMap)
    (strKV : StrMap) (w : W) (H : KVArgs mS mI strKV intKV) (hf1 : strKV.length < fuel) (hf2 : intKV.length < fuel)
    (hf3 : 4 ≤ fuel) (hsz : sz + strSz strKV + intSz intKV + 32 < 2 ^ 62) (hb : w.broken = false) :
    Funcs.tth_writeKVInfo (twI ew) fuel strKV (intOrd intKV) (sz : Int) mI mS w =
      .ok (w.pushAll (kvRun sz intKV strKV).2, ((kvRun sz intKV strKV).1 : Int), GoErr.nil) := by
  cases hl : strKV.lookup gdprKey with
  | none =>
    by_cases c1 : 0 < strKV.length <;> by_cases c2 : 0 < intKV.length
    · exact kvcf_n11 ew hew fuel sz mI mS intKV strKV w H hf1 hf2 hf3 hsz hb hl c1 c2
    · exact kvcf_n10 ew hew fuel sz mI mS intKV strKV w H hf1 hf2 hf3 hsz hb hl c1 c2
    · exact kvcf_n01 ew hew fuel sz mI mS intKV strKV w H hf1 hf2 hf3 hsz hb hl c1 c2
    · exact kvcf_n00 ew hew fuel sz mI mS intKV strKV w H hf1 hf2 hf3 hsz hb hl c1 c2
  | some tok =>
    by_cases c1 : 1 < strKV.length <;> by_cases c2 : 0 < intKV.length
    · exact kvcf_t11 ew hew fuel sz mI mS intKV strKV w H hf1 hf2 hf3 hsz hb tok hl c1 c2
    · exact kvcf_t10 ew hew fuel sz mI mS intKV strKV w H hf1 hf2 hf3 hsz hb tok hl c1 c2
    · exact kvcf_t01 ew hew fuel sz mI mS intKV strKV w H hf1 hf2 hf3 hsz hb tok hl c1 c2
    · exact kvcf_t00 ew hew fuel sz mI mS intKV strKV w H hf1 hf2 hf3 hsz hb tok hl c1 c2

/-! ### … and on a broken writer: whichever call comes first fails, the error is returned at once -/

/-- stops with the writer's error, the writer unchanged -/
def Brk (w : W) (x : GM (W × Int × GoErr)) : Prop := ∃ n, x = .ok (w, n, ew)

omit hew in
theorem brk_ret (w : W) (n : Int) : Brk ew w (.ok (w, n, ew)) := ⟨n, rfl⟩

omit hew in
theorem brk_ite (w : W) {c : Prop} [Decidable c] {A B : GM (W × Int × GoErr)} (hA : c → Brk ew w A)
    (hB : ¬ c → Brk ew w B) : Brk ew w (if c then A else B) := by
  by_cases h : c
  · rw [if_pos h]; exact hA h
  · rw [if_neg h]; exact hB h

omit hew in
theorem brk_bind (w : W) {α : Type} {x : GM α} {v : α} {K : α → GM (W × Int × GoErr)} (h : x = .ok v)
    (hK : Brk ew w (K v)) : Brk ew w (x.bind K) := by
  rw [h]; exact hK

theorem tth_WriteByte_brk (w : W) (v : Int) (hb : w.broken = true) : Funcs.tth_WriteByte (twI ew) v w = .ok (w, ew) := by
  rw [tth_WriteByte_cf ew hew, hb]; rfl

theorem tth_WriteUint16_brk (w : W) (v : Int) (hb : w.broken = true) :
    Funcs.tth_WriteUint16 (twI ew) v w = .ok (w, ew) := by
  rw [tth_WriteUint16_cf ew hew, hb]; rfl

set_option hygiene false in
/-- the first call on a broken writer fails -/
macro "brk_call" : tactic => `(tactic| (first
  | refine brk_bind ew _ (tth_WriteByte_brk ew hew _ _ hb) ?_
  | refine brk_bind ew _ (tth_WriteUint16_brk ew hew _ _ hb) ?_
  | refine brk_bind ew _ (twI_malloc_broken ew _ _ hb) ?_))

set_option hygiene false in
/-- … and the error test after it is decided -/
macro "brk_norm" : tactic => `(tactic| try (simp only [Out.bind_ok, Out.pure_eq, hew, ne_eq, not_true_eq_false,
  not_false_eq_true, eq_self, decide_true, decide_false, Bool.false_eq_true, Bool.not_true, Bool.not_false, if_true,
  if_false, twI_commit_none, reduceCtorEq]))

set_option hygiene false in
/-- one step on a broken writer: the error returned, a guard (both ways), or the first call -/
macro "brk_step" : tactic => `(tactic| (first
  | exact brk_ret ew _ _
  | refine brk_ite ew _ (fun _ => ?_) (fun _ => ?_)
  | (brk_call; brk_norm)))

theorem tth_writeKVInfo_broken (fuel : Nat) (szi : Int) (mI : GoMap Int Bytes) (mS : GoMap Bytes Bytes)
    (o1 : List (Bytes × Bytes)) (o2 : List (Int × Bytes)) (w : W) (hb : w.broken = true) :
    ∃ n, Funcs.tth_writeKVInfo (twI ew) fuel o1 o2 szi mI mS w = .ok (w, n, ew) := by
  show Brk ew w _
  unfold Funcs.tth_writeKVInfo
  simp only [Out.bind_eq, Out.pure_eq]
  repeat' brk_step

/-- `writeKVInfo` translated from the Go source IS the model `TTH.writeKVInfo`: for every pair of visited sequences
    `strKV` / `intKV` (the iteration orders) and every pair of Go maps that agree with them in `len` and `[GDPRToken]`, on
    a writer that works or is broken; `fuel` above the lengths of the sequences (and 4, for the padding loop), sizes far
    below 2^62 so that Go's `int` arithmetic is exact -/
theorem tth_writeKVInfo_eq (fuel : Nat) (sz : Nat) (mI : GoMap Int Bytes) (mS : GoMap Bytes Bytes) (intKV : IntMap)
    (strKV : StrMap) (w : W) (H : KVArgs mS mI strKV intKV) (hf1 : strKV.length < fuel) (hf2 : intKV.length < fuel)
    (hf3 : 4 ≤ fuel) (hsz : sz + strSz strKV + intSz intKV + 32 < 2 ^ 62) :
    liftEN (Funcs.tth_writeKVInfo (twI ew) fuel strKV (intOrd intKV) (sz : Int) mI mS w) =
      TTH.writeKVInfo sz intKV strKV w := by
  cases hb : w.broken with
  | true =>
    obtain ⟨n, hn⟩ := tth_writeKVInfo_broken ew hew fuel sz mI mS strKV (intOrd intKV) w hb
    rw [hn, writeKVInfo_broken sz intKV strKV w hb]
    simp [liftEN, hew]
  | false =>
    rw [tth_writeKVInfo_cf ew hew fuel sz mI mS intKV strKV w H hf1 hf2 hf3 hsz hb,
      writeKVInfo_cf sz intKV strKV w hb]
    simp [liftEN]

end kv

/-! ## encode.go: Encode -/

theorem W.eq_of {a b : W} (h1 : a.items = b.items) (h2 : a.n = b.n) (h3 : a.broken = b.broken)
    (h4 : a.dirt = b.dirt) : a = b := by
  cases a; cases b; simp_all

theorem pushAll_items (w : W) (L : List Bytes) : (w.pushAll L).items = L.reverse ++ w.items := by
  induction L generalizing w with
  | nil => rfl
  | cons x r ih => simp [ih, W.push]

theorem pushAll_n (w : W) (L : List Bytes) : (w.pushAll L).n = w.n + L.length := by
  induction L generalizing w with
  | nil => rfl
  | cons x r ih => simp [ih, W.push]; omega

theorem pushAll_dirt (w : W) (L : List Bytes) : (w.pushAll L).dirt = w.dirt := by
  induction L generalizing w with
  | nil => rfl
  | cons x r ih => simp [ih, W.push]

theorem set_mid (l : List Bytes) (x y : Bytes) (rest : List Bytes) :
    (l ++ x :: rest).set l.length y = l ++ y :: rest := by
  induction l with
  | nil => rfl
  | cons a l ih => simp [ih]

theorem get_mid (l : List Bytes) (x : Bytes) (rest : List Bytes) : (l ++ x :: rest)[l.length]? = some x := by
  induction l with
  | nil => rfl
  | cons a l ih => simp [ih]

/-- a store into a region that was handed out earlier (later items on top of it): the model's `put` -/
theorem put_deep (w : W) (r : Bytes) (L : List Bytes) (off : Nat) (v : Bytes) (h : off + v.length ≤ r.length) :
    ((w.push r).pushAll L).put w.n off v =
      .ok ((w.push (r.take off ++ v ++ r.drop (off + v.length))).pushAll L) := by
  unfold W.put
  have hn : ((w.push r).pushAll L).n = w.n + 1 + L.length := by rw [pushAll_n]; rfl
  have hi : ((w.push r).pushAll L).n - 1 - w.n = L.reverse.length := by rw [hn]; simp
  have hit : ((w.push r).pushAll L).items = L.reverse ++ r :: w.items := by rw [pushAll_items]; rfl
  rw [if_neg (by rw [hn]; omega), hi, hit, get_mid]
  simp only
  rw [if_neg (by omega)]
  congr 1
  apply W.eq_of
  · simp only [set_mid, pushAll_items]; rfl
  · simp only [pushAll_n]; rfl
  · simp
  · simp only [pushAll_dirt]; rfl

/-- … and the translation's `commit` of such a region -/
theorem setRegion_deep (w : W) (r bs : Bytes) (L : List Bytes) :
    ((w.push r).pushAll L).setRegion w.n bs = (w.push bs).pushAll L := by
  unfold W.setRegion
  have hn : ((w.push r).pushAll L).n = w.n + 1 + L.length := by rw [pushAll_n]; rfl
  have hi : ((w.push r).pushAll L).n - 1 - w.n = L.reverse.length := by rw [hn]; simp
  have hit : ((w.push r).pushAll L).items = L.reverse ++ r :: w.items := by rw [pushAll_items]; rfl
  rw [if_pos (by rw [hn]; omega), hi, hit]
  apply W.eq_of
  · simp only [set_mid, pushAll_items]; rfl
  · simp only [pushAll_n]; rfl
  · simp
  · simp only [pushAll_dirt]; rfl

/-- the `EncodeParam` the translation takes, from the model's parameter and the two Go maps -/
def toEncParam (p : EncParam) (mI : GoMap Int Bytes) (mS : GoMap Bytes Bytes) : Funcs.S_ttheader_EncodeParam :=
  { Flags := (p.flags : Int), SeqID := p.seq, ProtocolID := (p.proto : Int), IntInfo := mI, StrInfo := mS }

theorem toEncParam_Flags (p : EncParam) (mI mS) : (toEncParam p mI mS).Flags = (p.flags : Int) := rfl
theorem toEncParam_SeqID (p : EncParam) (mI mS) : (toEncParam p mI mS).SeqID = p.seq := rfl
theorem toEncParam_ProtocolID (p : EncParam) (mI mS) : (toEncParam p mI mS).ProtocolID = (p.proto : Int) := rfl
theorem toEncParam_IntInfo (p : EncParam) (mI mS) : (toEncParam p mI mS).IntInfo = mI := rfl
theorem toEncParam_StrInfo (p : EncParam) (mI mS) : (toEncParam p mI mS).StrInfo = mS := rfl

/-- the 14 bytes of the header-meta region when `Encode` returns: fresh memory with the magic/flags word, the sequence
    id and — last — the size field stored (`[0:4]`, the total length, belongs to the caller) -/
def metaBytes (p : EncParam) (w : W) (size : Nat) : Bytes :=
  putAt (putAt (putAt (w.fresh 14) 4 (be32 ((Facts.ttMagic + p.flags) % 4294967296))) 8 (be32 (ofInt 32 p.seq))) 12
    (be16 ((size / 4) % 65536))

/-- result `(writer, totalLenField, err)` of the translated `Encode` as the model's outcome `(region id, writer)`: the
    returned slice must hold what bytes `[0:4]` of the meta region hold; Encode's own error is `.size`, any other error
    comes from the writer -/
def liftEnc (w0 : W) (x : GM (W × Bytes × GoErr)) : Out EErr (Nat × W) :=
  match x with
  | .ok r =>
    if r.2.2 = .nil then
      if (r.1.items[r.1.n - 1 - w0.n]?).map (fun m => m.take 4) = some r.2.1 then .ok (w0.n, r.1)
      else .panic "liftEnc: totalLenField is not meta[0:4]"
    else if r.2.2 = .named "fmt.Errorf:invalid header length[%d]" then .err .size
    else .err .writer
  | .panic s => .panic s
  | .oob => .oob
  | .err e => nomatch e

theorem be16_mod (n : Nat) : be16 (n % 65536) = be16 n := by
  unfold be16
  congr 1
  · apply ofNat_congr; omega
  congr 1
  · apply ofNat_congr; omega

theorem bput32_ok (b : Bytes) (off n : Int) (x : Int) (hn : 4 ≤ n) :
    bputU32 b off n x = .ok (putAt b off.toNat (be32 (ofInt 32 x))) := by
  have : ¬ n < 4 := by omega
  simp [bputU32, be32_toU, this]

theorem bput16_ok (b : Bytes) (off n : Int) (x : Int) (hn : 2 ≤ n) :
    bputU16 b off n x = .ok (putAt b off.toNat (be16 (ofInt 16 x))) := by
  have : ¬ n < 2 := by omega
  simp [bputU16, be16_toU, this]

theorem putAt_len (b : Bytes) (o : Nat) (bs : Bytes) (h : o + bs.length ≤ b.length) :
    (putAt b o bs).length = b.length := by
  simp [putAt]; omega

theorem bchk_ok (n lo hi : Int) (h1 : 0 ≤ lo) (h2 : lo ≤ hi) (h3 : hi ≤ n) : bchk n lo hi = .ok () := by
  unfold bchk
  rw [if_neg (by omega), if_neg (by omega)]

/-- the model's `Encode` on a writer that works, in closed form -/
theorem encode_cf (p : EncParam) (w : W) (hb : w.broken = false) :
    encode p w =
      if (kvRun 2 p.intKV p.strKV).1 % 2 ^ Facts.ttEncodeSizeCheckBits > Facts.ttMaxHeaderSize then .err .size
      else .ok (w.n, (((w.push (metaBytes p w (kvRun 2 p.intKV p.strKV).1)).push [UInt8.ofNat p.proto]).push
        [UInt8.ofNat 0]).pushAll (kvRun 2 p.intKV p.strKV).2) := by
  unfold encode
  have hm : w.malloc Facts.ttMetaSize = .ok (w.n, w.push (w.fresh 14)) := by
    simp [W.malloc, hb, W.push, W.fresh, Facts.ttMetaSize]
  have hp := put_deep w (w.fresh 14) [] 4 (be32 ((Facts.ttMagic + p.flags) % 4294967296)) (by simp)
  simp only [W.pushAll_nil] at hp
  rw [hm, Out.bind_ok]
  simp only [hp, Out.bind_ok]
  have hp2 := put_deep w (List.take 4 (w.fresh 14) ++ be32 ((Facts.ttMagic + p.flags) % 4294967296) ++
    List.drop (4 + (be32 ((Facts.ttMagic + p.flags) % 4294967296)).length) (w.fresh 14)) [] 8 (be32 (ofInt 32 p.seq))
    (by simp)
  simp only [W.pushAll_nil] at hp2
  simp only [hp2, Out.bind_ok, writeByte_cf, hb, W.push_broken, Bool.false_eq_true, if_false]
  rw [writeKVInfo_cf 2 p.intKV p.strKV _ (by simp [hb])]
  simp only [Out.bind_ok]
  split
  · rfl
  · have hp3 := put_deep w (List.take 8 (List.take 4 (w.fresh 14) ++ be32 ((Facts.ttMagic + p.flags) % 4294967296) ++
        List.drop (4 + (be32 ((Facts.ttMagic + p.flags) % 4294967296)).length) (w.fresh 14)) ++ be32 (ofInt 32 p.seq) ++
        List.drop (8 + (be32 (ofInt 32 p.seq)).length) (List.take 4 (w.fresh 14) ++
          be32 ((Facts.ttMagic + p.flags) % 4294967296) ++
          List.drop (4 + (be32 ((Facts.ttMagic + p.flags) % 4294967296)).length) (w.fresh 14)))
      ([UInt8.ofNat p.proto] :: [UInt8.ofNat 0] :: (kvRun 2 p.intKV p.strKV).2) 12
      (be16 ((kvRun 2 p.intKV p.strKV).1 / 4 % 65536)) (by simp)
    simp only [W.pushAll_cons] at hp3
    rw [hp3]
    rfl

/-! ### walking the generated `Encode` -/

theorem twI_commit (ew : GoErr) (w : W) (h : Nat) (bs : Bytes) : (twI ew).commit w h bs = w.setRegion h bs := rfl

/-- the magic/flags word, whichever way round the sum is written -/
theorem be32_magic (f : Nat) :
    be32 (ofInt 32 (268435456 + (f : Int))) = be32 ((Facts.ttMagic + f) % 4294967296) := by
  have : (268435456 : Int) + (f : Int) = ((Facts.ttMagic + f : Nat) : Int) := by simp [Facts.ttMagic]
  rw [this, be32_ofInt_nat, be32_mod]

theorem be32_magic' (f : Nat) :
    be32 (ofInt 32 ((f : Int) + 268435456)) = be32 ((Facts.ttMagic + f) % 4294967296) := by
  rw [Int.add_comm, be32_magic]

/-- the size field: `uint16(size / 4)` -/
theorem be16_size (N : Nat) (h : N < 2 ^ 62) :
    be16 (ofInt 16 (wrap .i64 (Int.tdiv (N : Int) 4))) = be16 ((N / 4) % 65536) := by
  rw [Int.tdiv_eq_ediv_of_nonneg (by omega), wrap_i64_of_range _ (by omega) (by omega), be16_mod]
  have : (N : Int) / 4 = ((N / 4 : Nat) : Int) := by omega
  rw [this, be16_ofInt_nat]

/-- `writeKVInfo` called with a size expression that IS the number `sz` -/
theorem tth_writeKVInfo_call (ew : GoErr) (hew : ew ≠ GoErr.nil) (fuel : Nat) (szi : Int) (sz : Nat)
    (hszi : szi = (sz : Int)) (mI : GoMap Int Bytes) (mS : GoMap Bytes Bytes) (intKV : IntMap)
    (strKV : StrMap) (w : W) (H : KVArgs mS mI strKV intKV) (hf1 : strKV.length < fuel) (hf2 : intKV.length < fuel)
    (hf3 : 4 ≤ fuel) (hsz : sz + strSz strKV + intSz intKV + 32 < 2 ^ 62) (hb : w.broken = false) :
    Funcs.tth_writeKVInfo (twI ew) fuel strKV (intOrd intKV) szi mI mS w =
      .ok (w.pushAll (kvRun sz intKV strKV).2, ((kvRun sz intKV strKV).1 : Int), GoErr.nil) := by
  subst hszi
  exact tth_writeKVInfo_cf ew hew fuel sz mI mS intKV strKV w H hf1 hf2 hf3 hsz hb

theorem kvRun_bound (sz : Nat) (intKV : IntMap) (strKV : StrMap) :
    (kvRun sz intKV strKV).1 ≤ sz + strSz strKV + intSz intKV + 16 := by
  have hle1 := strBytes_le strKV
  have hle2 := intBytes_le intKV
  unfold kvRun
  cases hl : strKV.lookup gdprKey with
  | none => simp only; split <;> split <;> simp only <;> omega
  | some tok =>
    have htok := lookup_strBytes strKV tok hl
    simp only; split <;> split <;> simp only <;> omega


section enc
variable (ew : GoErr) (hew : ew ≠ GoErr.nil)
include hew

attribute [local irreducible] Funcs.tth_WriteByte Funcs.tth_WriteUint16 Funcs.tth_WriteUint32
  Funcs.tth_WriteString2BLen Funcs.tth_WriteString Funcs.tth_writeKVInfo Funcs.tth_writeKVInfo_loop1
  Funcs.tth_writeKVInfo_loop2 Funcs.tth_writeKVInfo_loop3 Funcs.tth_Encode_loop1 bchk bputU16 bputU32

/-- a bound of a slice expression on the header-meta buffer -/
macro "len_tac" : tactic => `(tactic| first
  | omega
  | (simp [len, putAt]; done)
  | (simp [len, putAt]; omega))

set_option hygiene false in
/-- one statement of `Encode` at the head that is not a writer call: a bounds check of a slice expression, a store into
    the header-meta buffer, the (empty) loop over the transform ids, the call of `writeKVInfo` -/
macro "enc_call" : tactic => `(tactic| (first
  | (show @Out.bind Empty Unit _ _ _ = _
     refine bind_eq_of (bchk_ok _ _ _ (by len_tac) (by len_tac) (by len_tac)) ?_)
  | (show @Out.bind Empty Bytes _ _ _ = _; first
      | refine bind_eq_of (bput32_ok _ _ _ _ (by omega)) ?_
      | refine bind_eq_of (bput16_ok _ _ _ _ (by omega)) ?_)
  | (show @Out.bind Empty (LoopR _ (W × GoErr × Int)) _ _ _ = _
     refine bind_eq_of (by
       simp only [Funcs.tth_Encode_loop1, len, List.length_nil, Int.natCast_zero, Int.lt_irrefl, decide_false,
         Bool.false_eq_true, if_false, Out.pure_eq]
       rfl) ?_)
  | (show @Out.bind Empty (W × Int × GoErr) _ _ _ = _
     refine bind_eq_of (tth_writeKVInfo_call ew hew _ _ 2 (by first | rfl | decide) _ _ _ _ _ H hf1 hf2 hf3 (by omega)
       (by hb_tac)) ?_)))

set_option hygiene false in
macro "enc_step1" : tactic => `(tactic| (first
  | refine Eq.trans (if_pos (by guard_tac)) ?_
  | refine Eq.trans (if_neg (by guard_tac)) ?_
  | tth_call
  | enc_call))

macro "enc_step" : tactic => `(tactic| (enc_step1; tth_norm))

set_option hygiene false in
/-- `Encode` on a writer that works, one side of the size check: parameters read off, the walk, then the header-meta
    region — handed out first, committed last — and the constants compared -/
macro "enc_leaf" : tactic => `(tactic| (
  unfold Funcs.tth_Encode
  simp only [Out.bind_eq, Out.pure_eq, toEncParam_Flags, toEncParam_SeqID, toEncParam_ProtocolID, toEncParam_IntInfo,
    toEncParam_StrInfo]
  repeat enc_step
  have hs := fun bs => setRegion_deep w (w.fresh 14) bs
    ([UInt8.ofNat p.proto] :: [UInt8.ofNat 0] :: (kvRun 2 p.intKV p.strKV).2)
  simp only [W.pushAll_cons] at hs
  simp (disch := omega) only [twI_commit, byteOf_nat, show byteOf (wrap .u8 (len ([] : Bytes))) = UInt8.ofNat 0 from by decide,
    show byteOf (wrap .u8 0) = UInt8.ofNat 0 from by decide,
    ofInt_wrap 32 .u32 _ (by decide), ofInt_wrap 16 .u16 _ (by decide), be32_magic, be32_magic', be16_size, hs,
    metaBytes, Int.reduceToNat]
  first | done | rfl | exact hs _ | (simp [bsub, hs]; done)))

theorem tth_Encode_cf (fuel : Nat) (p : EncParam) (mI : GoMap Int Bytes) (mS : GoMap Bytes Bytes) (w : W)
    (H : KVArgs mS mI p.strKV p.intKV) (hf1 : p.strKV.length < fuel) (hf2 : p.intKV.length < fuel) (hf3 : 4 ≤ fuel)
    (hsz : strSz p.strKV + intSz p.intKV + 64 < 2 ^ 62) (hb : w.broken = false) :
    Funcs.tth_Encode (twI ew) fuel p.strKV (intOrd p.intKV) (toEncParam p mI mS) w =
      if ((kvRun 2 p.intKV p.strKV).1 : Int) > 65536 then
        .ok ((((w.push (putAt (putAt (w.fresh 14) 4 (be32 ((Facts.ttMagic + p.flags) % 4294967296))) 8
            (be32 (ofInt 32 p.seq)))).push [UInt8.ofNat p.proto]).push [UInt8.ofNat 0]).pushAll
            (kvRun 2 p.intKV p.strKV).2, [], GoErr.named "fmt.Errorf:invalid header length[%d]")
      else
        .ok ((((w.push (metaBytes p w (kvRun 2 p.intKV p.strKV).1)).push [UInt8.ofNat p.proto]).push
            [UInt8.ofNat 0]).pushAll (kvRun 2 p.intKV p.strKV).2,
          (metaBytes p w (kvRun 2 p.intKV p.strKV).1).take 4, GoErr.nil) := by
  obtain ⟨k, rfl⟩ : ∃ k, fuel = k + 1 := ⟨fuel - 1, by omega⟩
  have hbd := kvRun_bound 2 p.intKV p.strKV
  by_cases c : ((kvRun 2 p.intKV p.strKV).1 : Int) > 65536
  · rw [if_pos c]
    enc_leaf
  · rw [if_neg c]
    enc_leaf

omit hew in
theorem encode_broken (p : EncParam) (w : W) (hb : w.broken = true) : encode p w = .err .writer := by
  simp [encode, W.malloc, hb]

/-- `Encode` translated from the Go source IS the model `TTH.encode`: for every pair of visited sequences (the iteration
    orders of `param.StrInfo` and `param.IntInfo`) and every pair of Go maps that agree with them, on a writer that works
    or is broken. The header-meta region is kept across the later `Malloc`s and its size field is filled last (`commit`
    of region `w.n` after everything else was appended); the returned `totalLenField` holds bytes `[0:4]` of that region -/
theorem tth_Encode_eq (fuel : Nat) (p : EncParam) (mI : GoMap Int Bytes) (mS : GoMap Bytes Bytes) (w : W)
    (H : KVArgs mS mI p.strKV p.intKV) (hf1 : p.strKV.length < fuel) (hf2 : p.intKV.length < fuel) (hf3 : 4 ≤ fuel)
    (hsz : strSz p.strKV + intSz p.intKV + 64 < 2 ^ 62) :
    liftEnc w (Funcs.tth_Encode (twI ew) fuel p.strKV (intOrd p.intKV) (toEncParam p mI mS) w) = encode p w := by
  cases hb : w.broken with
  | true =>
    obtain ⟨r, hr, h1, h2⟩ : ∃ r, Funcs.tth_Encode (twI ew) fuel p.strKV (intOrd p.intKV) (toEncParam p mI mS) w = .ok r ∧
        r.2.2 ≠ GoErr.nil ∧ r.2.2 ≠ GoErr.named "fmt.Errorf:invalid header length[%d]" := by
      unfold Funcs.tth_Encode
      simp only [Out.bind_eq, Out.pure_eq]
      refine ⟨?r, ?h1, ?h2, ?h3⟩
      case h1 => exact bind_eq_of (twI_malloc_broken ew w _ hb) (by brk_norm; rfl)
      case h2 => simp
      case h3 => simp
    rw [encode_broken p w hb, hr]
    simp [liftEnc, h1, h2]
  | false =>
    have hbd := kvRun_bound 2 p.intKV p.strKV
    rw [tth_Encode_cf ew hew fuel p mI mS w H hf1 hf2 hf3 hsz hb, encode_cf p w hb]
    have hmod : (kvRun 2 p.intKV p.strKV).1 % 2 ^ Facts.ttEncodeSizeCheckBits = (kvRun 2 p.intKV p.strKV).1 := by
      apply Nat.mod_eq_of_lt
      have : (2 : Nat) ^ 62 < 2 ^ Facts.ttEncodeSizeCheckBits := by decide
      omega
    rw [hmod]
    by_cases c : (kvRun 2 p.intKV p.strKV).1 > Facts.ttMaxHeaderSize
    · have c' : ((kvRun 2 p.intKV p.strKV).1 : Int) > 65536 := by
        have : Facts.ttMaxHeaderSize = 65536 := rfl
        omega
      rw [if_pos c, if_pos c']
      simp [liftEnc]
    · have c' : ¬ ((kvRun 2 p.intKV p.strKV).1 : Int) > 65536 := by
        have : Facts.ttMaxHeaderSize = 65536 := rfl
        omega
      rw [if_neg c, if_neg c']
      -- the returned slice is bytes [0:4] of region `w.n`
      have hidx : ((((w.push (metaBytes p w (kvRun 2 p.intKV p.strKV).1)).push [UInt8.ofNat p.proto]).push
          [UInt8.ofNat 0]).pushAll (kvRun 2 p.intKV p.strKV).2) =
          (w.push (metaBytes p w (kvRun 2 p.intKV p.strKV).1)).pushAll
            ([UInt8.ofNat p.proto] :: [UInt8.ofNat 0] :: (kvRun 2 p.intKV p.strKV).2) := rfl
      have hn : ((w.push (metaBytes p w (kvRun 2 p.intKV p.strKV).1)).pushAll
            ([UInt8.ofNat p.proto] :: [UInt8.ofNat 0] :: (kvRun 2 p.intKV p.strKV).2)).n - 1 - w.n =
          ([UInt8.ofNat p.proto] :: [UInt8.ofNat 0] :: (kvRun 2 p.intKV p.strKV).2).reverse.length := by
        rw [pushAll_n]; simp only [W.push_n, List.length_reverse]; omega
      have hit : ((w.push (metaBytes p w (kvRun 2 p.intKV p.strKV).1)).pushAll
            ([UInt8.ofNat p.proto] :: [UInt8.ofNat 0] :: (kvRun 2 p.intKV p.strKV).2)).items =
          ([UInt8.ofNat p.proto] :: [UInt8.ofNat 0] :: (kvRun 2 p.intKV p.strKV).2).reverse ++
            metaBytes p w (kvRun 2 p.intKV p.strKV).1 :: w.items := by
        rw [pushAll_items]; rfl
      simp only [liftEnc, if_true, hidx, hn, hit, get_mid, Option.map_some]

end enc

/-! ## what Go guarantees about the two visited sequences gives `KVArgs` -/

theorem lookup_cons_eq (k : Bytes) (e : Bytes × Bytes) (r : List (Bytes × Bytes)) :
    (e :: r).lookup k = if k = e.1 then some e.2 else r.lookup k := by
  obtain ⟨a, b⟩ := e
  by_cases h : k = a
  · subst h; simp [List.lookup]
  · have : (k == a) = false := by simp [h]
    simp [List.lookup, this, h]

theorem lookup_filter_ne (l : List (Bytes × Bytes)) (k a : Bytes) (h : k ≠ a) :
    (l.filter (fun x => !(x.1 == a))).lookup k = l.lookup k := by
  induction l with
  | nil => rfl
  | cons e r ih =>
    by_cases he : e.1 = a
    · have hf : (e :: r).filter (fun x => !(x.1 == a)) = r.filter (fun x => !(x.1 == a)) := by
        simp [List.filter_cons, he]
      have hk : ¬ k = e.1 := by rw [he]; exact h
      rw [hf, ih, lookup_cons_eq, if_neg hk]
    · have hf : (e :: r).filter (fun x => !(x.1 == a)) = e :: r.filter (fun x => !(x.1 == a)) := by
        simp [List.filter_cons, he]
      rw [hf, lookup_cons_eq, lookup_cons_eq, ih]

theorem lookup_mapEntriesL (l : List (Bytes × Bytes)) (k : Bytes) : (mapEntriesL l).lookup k = l.lookup k := by
  induction l with
  | nil => rfl
  | cons e r ih =>
    simp only [mapEntriesL]
    rw [lookup_cons_eq, lookup_cons_eq]
    by_cases hk : k = e.1
    · rw [if_pos hk, if_pos hk]
    · rw [if_neg hk, if_neg hk, lookup_filter_ne _ _ _ hk, ih]

theorem perm_lookup {l1 l2 : List (Bytes × Bytes)} (h : l1.Perm l2) (hn : (l1.map Prod.fst).Nodup) (k : Bytes) :
    l1.lookup k = l2.lookup k := by
  induction h with
  | nil => rfl
  | cons x _ ih =>
    simp only [List.map_cons, List.nodup_cons] at hn
    rw [lookup_cons_eq, lookup_cons_eq, ih hn.2]
  | swap x y l =>
    simp only [List.map_cons, List.nodup_cons, List.mem_cons, not_or] at hn
    rw [lookup_cons_eq, lookup_cons_eq, lookup_cons_eq, lookup_cons_eq]
    by_cases h1 : k = y.1
    · have h2 : ¬ k = x.1 := by rw [h1]; exact hn.1.1
      rw [if_pos h1, if_neg h2, if_pos h1]
    · rw [if_neg h1, if_neg h1]
  | trans h1 _ ih1 ih2 =>
    rw [ih1 hn, ih2 ((h1.map Prod.fst).nodup_iff.mp hn)]

/-- when `strKV` is an iteration order of the Go map `mS` and `intOrd intKV` one of `mI` (`GoSem.MapOrder`: a permutation
    of the map's entries — what Go guarantees), the hypotheses of the theorems above hold -/
theorem kvArgs_of_order (mS : GoMap Bytes Bytes) (mI : GoMap Int Bytes) (strKV : StrMap) (intKV : IntMap)
    (h1 : MapOrder mS strKV) (h2 : MapOrder mI (intOrd intKV)) : KVArgs mS mI strKV intKV where
  lenS := by unfold mapLen; rw [← h1.length_eq]
  lenI := by unfold mapLen; rw [← h2.length_eq]; simp [intOrd]
  getS := by
    cases mS with
    | none =>
      have : strKV = [] := by simpa [MapOrder, mapEntries] using h1
      subst this; rfl
    | some l =>
      have hp : strKV.Perm (mapEntriesL l) := h1
      rw [perm_lookup hp ((hp.map Prod.fst).nodup_iff.mpr (mapEntriesL_nodup l)), lookup_mapEntriesL]
      rfl

/-! ## the generated functions compute (non-vacuity) -/

/-- a fresh writer whose memory is filled with 0xAA -/
def exW : W := ⟨[], 0, false, fun _ _ => 170⟩
def exErr : GoErr := .named "sink"

-- WriteByte / WriteUint16 / WriteString2BLen: what Flush would hand to the sink
example : (Funcs.tth_WriteByte (twI exErr) 7 exW).bind (fun r => .ok (r.1.bytes, r.2)) = .ok ([7], .nil) := by
  decide +kernel
example : (Funcs.tth_WriteString2BLen (twI exErr) [104, 105] exW).bind (fun r => .ok (r.1.bytes, r.2)) =
    .ok ([0, 2, 104, 105], 4, .nil) := by decide +kernel
example : (Funcs.tth_WriteString (twI exErr) [104, 105] exW).bind (fun r => .ok (r.1.bytes, r.2)) =
    .ok ([0, 0, 0, 2, 104, 105], 6, .nil) := by decide +kernel
-- an error from the writer (the sticky error): nothing is appended
example : (Funcs.tth_WriteUint16 (twI exErr) 513 { exW with broken := true }).bind (fun r => .ok (r.1.bytes, r.2)) =
    .ok ([], exErr) := by decide +kernel

-- Encode: flags 2, seq 9, protocol 0, one int KV (7 ↦ "x"), three string KVs ("k" ↦ "v", the GDPR token ↦ "t",
-- "a" ↦ "b"), the same string map visited in two orders. The translated constant `GDPRToken` (`"…".toUTF8.toList`) does not evaluate in the
-- kernel, so these go through the theorem and evaluate the model:
--   meta = [4 dirty bytes | 0x1000 0002 | seq 9 | size/4 = 8], info = proto 0, 0 transforms, 11 0001 "t" (ACL),
--   01 0002 <the two pairs in the visited order>, 10 0001 0007 "x", padding to a multiple of 4
def exP (strKV : StrMap) : EncParam := ⟨2, 9, 0, [(7, [120])], strKV⟩
def exStr1 : StrMap := [([107], [118]), (gdprKey, [116]), ([97], [98])]
def exStr2 : StrMap := [([97], [98]), (gdprKey, [116]), ([107], [118])]

theorem exArgs (strKV : StrMap) (h : strKV = exStr1 ∨ strKV = exStr2) :
    KVArgs (some exStr1) (some [(7, [120])]) strKV [(7, [120])] := by
  rcases h with rfl | rfl
  · exact ⟨by decide, by decide, by decide⟩
  · exact ⟨by decide, by decide, by decide⟩

example : (liftEnc exW (Funcs.tth_Encode (twI exErr) 5 (exP exStr1).strKV (intOrd (exP exStr1).intKV)
      (toEncParam (exP exStr1) (some [(7, [120])]) (some exStr1)) exW)).bind (fun r => .ok (r.1, r.2.bytes)) =
    .ok (0, [170, 170, 170, 170, 16, 0, 0, 2, 0, 0, 0, 9, 0, 8,
             0, 0,  17, 0, 1, 116,  1, 0, 2, 0, 1, 107, 0, 1, 118, 0, 1, 97, 0, 1, 98,
             16, 0, 1, 0, 7, 0, 1, 120,  0, 0, 0]) := by
  rw [tth_Encode_eq exErr (by decide) 5 (exP exStr1) _ _ exW (exArgs _ (Or.inl rfl)) (by decide) (by decide)
    (by decide) (by decide)]
  decide +kernel
example : (liftEnc exW (Funcs.tth_Encode (twI exErr) 5 (exP exStr2).strKV (intOrd (exP exStr2).intKV)
      (toEncParam (exP exStr2) (some [(7, [120])]) (some exStr1)) exW)).bind (fun r => .ok (r.1, r.2.bytes)) =
    .ok (0, [170, 170, 170, 170, 16, 0, 0, 2, 0, 0, 0, 9, 0, 8,
             0, 0,  17, 0, 1, 116,  1, 0, 2, 0, 1, 97, 0, 1, 98, 0, 1, 107, 0, 1, 118,
             16, 0, 1, 0, 7, 0, 1, 120,  0, 0, 0]) := by
  rw [tth_Encode_eq exErr (by decide) 5 (exP exStr2) _ _ exW (exArgs _ (Or.inr rfl)) (by decide) (by decide)
    (by decide) (by decide)]
  decide +kernel
-- the first Malloc fails: Encode returns its own error, nothing is appended (no map is touched: this evaluates directly)
example : (liftEnc { exW with broken := true } (Funcs.tth_Encode (twI exErr) 5 exStr1 (intOrd [(7, [120])])
      (toEncParam (exP exStr1) (some [(7, [120])]) (some exStr1)) { exW with broken := true })).bind
        (fun r => .ok r.1) = .err .writer := by decide +kernel
example : (Funcs.tth_Encode (twI exErr) 5 exStr1 (intOrd [(7, [120])])
      (toEncParam (exP exStr1) (some [(7, [120])]) (some exStr1)) { exW with broken := true }).bind
        (fun r => .ok (r.1.bytes, r.2)) =
    .ok ([], [], .named "fmt.Errorf:ttHeader malloc header meta failed, %s") := by decide +kernel
-- the loops run out of fuel (an artefact of the translation, excluded by the `fuel` hypotheses)
example : (Funcs.tth_writeKVInfo_loop2 (twI exErr) 1 [(7, [120])] exW 0 .nil).bind (fun _ => .ok ()) =
    .panic "nofuel" := by decide +kernel

end Verif.FuncsEq

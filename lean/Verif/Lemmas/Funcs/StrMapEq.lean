/-
  Lemmas/Funcs/StrMapEq: the functions of container/strmap translated from the source on every run
  (`Verif/Gen/StrMapGen.lean`, translator `extract/strmap.go`, semantics `Base/GoSemSM.lean`) are EQUAL to the
  hand-written model `Model/StrMap.lean` that the C07 theorems are about — through the explicit abstraction `absMap`
  of the generated receiver structure, for all receiver states satisfying the representation invariant `Inv`, all
  arguments, every hash `h`, every `sorter`.

  `absMap`: data = `data[0:len]`, items = the items with their `int`/`uint32` fields as naturals, ht = `hashtable[0:len]`,
  spare = `hashtable[len:cap]`; the spare capacity of `data` and `items` is dropped (the model does not have it).
-/
import Verif.Gen.StrMapGen
import Verif.Model.StrMap
namespace Verif.StrMapEq
open Verif Verif.GoSemSM Verif.StrMapGen
open Verif.GoSem (GM wrap LoopR goMod IT toU)

variable {V α : Type}

/-! ## abstraction -/

def absItem (e : S_mapItem V) : SMap.Item V := ⟨e.off.toNat, e.sz.toNat, e.slot.toNat, e.v⟩
def repItem (e : SMap.Item V) : S_mapItem V := ⟨(e.off : Int), (e.sz : Int), (e.slot : Int), e.v⟩

def absMap (m : S_StrMap V) : SMap.StrMap V :=
  ⟨m.data.arr, m.items.arr.map absItem, m.hashtable.arr.toArray, m.hashtable.spare.toArray⟩

/-- outcome of a translated call as an outcome of the model (a `GM` has no error outcome) -/
def liftG {α β : Type} (f : α → β) : GM α → Out SMap.LErr β
  | .ok a => .ok (f a)
  | .panic s => .panic s
  | .oob => .oob
  | .err e => nomatch e

/-- Go's `(v, ok)` as the model's `Option` -/
def optOf (r : V × Bool) : Option V := if r.2 then some r.1 else none

@[simp] theorem absItem_repItem (e : SMap.Item V) : absItem (repItem e) = e := by
  cases e; simp [absItem, repItem]

/-! ## representation invariant -/

/-- an item as the code can hold it: `off` a non-negative int below 2^62, `sz`/`slot` uint32, and the key range
    `[off, off+sz)` does not END in the spare capacity of `data` (Go's slice expression is legal up to the capacity and
    would read stale bytes there; the model checks against the length) -/
structure ItemOK (d : Sl UInt8) (e : S_mapItem V) : Prop where
  off0 : 0 ≤ e.off
  offB : e.off < 4611686018427387904
  sz0 : 0 ≤ e.sz
  szB : e.sz < 4294967296
  slot0 : 0 ≤ e.slot
  key : e.off + e.sz ≤ slen d ∨ scap d < e.off + e.sz

structure Inv (m : S_StrMap V) : Prop where
  items : ∀ e ∈ m.items.arr, ItemOK m.data e
  nItems : m.items.arr.length < 2147483648

/-! ## integer facts -/

theorem wrap64 (x : Int) (h0 : -9223372036854775808 ≤ x) (h1 : x < 9223372036854775808) : wrap .i64 x = x := by
  simp only [wrap, toU, IT.bits, IT.signed]
  simp
  split <;> omega

theorem wrap32 (x : Int) (h0 : -2147483648 ≤ x) (h1 : x < 2147483648) : wrap .i32 x = x := by
  simp only [wrap, toU, IT.bits, IT.signed]
  simp
  split <;> omega

theorem wrapU32 (x : Int) : wrap .u32 x = x % 4294967296 := by
  simp [wrap, toU, IT.bits, IT.signed]

theorem wrapU32_id (x : Int) (h0 : 0 ≤ x) (h1 : x < 4294967296) : wrap .u32 x = x := by
  rw [wrapU32]; omega

theorem wrapU32_hash (h : Bytes → Nat) (s : Bytes) :
    wrap .u32 (hashStr h s) = ((h s % SMap.two32 : Nat) : Int) := by
  rw [wrapU32]; unfold hashStr SMap.two32
  have : h s % 18446744073709551616 % 4294967296 = h s % 4294967296 :=
    Nat.mod_mod_of_dvd _ (by decide)
  omega

/-! ## Len -/

theorem Len_eq (zV : V) (m : S_StrMap V) : StrMap_Len zV m = .ok ((SMap.len (absMap m) : Nat) : Int) := by
  simp [StrMap_Len, SMap.len, absMap, slen]

/-! ## the key of an item -/

/-- `m.data[e.off : e.off+int(e.sz)]` against the model's `keyAt` -/
theorem key_eq (d : Sl UInt8) (e : S_mapItem V) (he : ItemOK d e) :
    (∃ t, sslice d e.off (wrap .i64 (e.off + wrap .i64 e.sz)) = .ok t ∧
          SMap.keyAt d.arr (absItem e) = some (strOf t)) ∨
    (sslice d e.off (wrap .i64 (e.off + wrap .i64 e.sz)) = .panic "slice" ∧
          SMap.keyAt d.arr (absItem e) = none) := by
  obtain ⟨h0, h1, h2, h3, _, hk⟩ := he
  have w1 : wrap .i64 e.sz = e.sz := wrap64 _ (by omega) (by omega)
  have w2 : wrap .i64 (e.off + e.sz) = e.off + e.sz := wrap64 _ (by omega) (by omega)
  rw [w1, w2]
  unfold slen scap at hk
  rcases hk with hk | hk
  · left
    have c1 : ¬ (e.off + e.sz < 0 ∨ e.off + e.sz > scap d) := by unfold scap; omega
    have c2 : ¬ (e.off < 0 ∨ e.off > e.off + e.sz) := by omega
    have hn : e.off.toNat + e.sz.toNat ≤ d.arr.length := by omega
    refine ⟨_, by simp only [sslice, c1, c2, if_false]; rfl, ?_⟩
    simp only [SMap.keyAt, absItem, hn, if_true, strOf, Sl.mem]
    congr 1
    have e1 : (e.off + e.sz).toNat = e.off.toNat + e.sz.toNat := by omega
    rw [e1, List.take_append_of_le_length hn, List.drop_take]
    congr 1; omega
  · right
    have c1 : (e.off + e.sz < 0 ∨ e.off + e.sz > scap d) := by unfold scap; omega
    have hn : ¬ e.off.toNat + e.sz.toNat ≤ d.arr.length := by omega
    exact ⟨by simp only [sslice, c1, if_true], by simp only [SMap.keyAt, absItem, hn, if_false]⟩

/-! ## Item -/

theorem Item_eq (zV : V) (m : S_StrMap V) (hI : Inv m) (i : Int) :
    liftG id (StrMap_Item zV m i) = SMap.item (absMap m) i := by
  unfold StrMap_Item SMap.item sget
  by_cases hi : i < 0
  · simp [hi, liftG]
  · simp only [hi, if_false, absMap, List.getElem?_map]
    cases hg : m.items.arr[i.toNat]? with
    | none => simp [liftG]
    | some e =>
      have he := hI.items e (List.mem_of_getElem? hg)
      rcases key_eq m.data e he with ⟨t, h1, h2⟩ | ⟨h1, h2⟩
      · simp [h1, h2, liftG]; rfl
      · simp [h1, h2, liftG]

/-! ## Get -/

/-- outcome of the collision loop: `return e.v, true` ↦ `some`, leaving the loop ↦ `none` (the code then returns `t, false`) -/
def absScan {σ : Type} : GM (LoopR (V × Bool) σ) → Out SMap.LErr (Option V)
  | .ok (.ret r) => .ok (optOf r)
  | .ok (.done _) => .ok none
  | .panic s => .panic s
  | .oob => .oob
  | .err e => nomatch e

theorem drop_cons_of_getElem? {α : Type} (l : List α) (n : Nat) (x : α) (h : l[n]? = some x) :
    l.drop n = x :: l.drop (n + 1) := by
  obtain ⟨hl, hx⟩ := List.getElem?_eq_some_iff.mp h
  rw [List.drop_eq_getElem_cons hl, hx]

/-- the collision loop of `Get` is the model's `scan` over the items from `j` on -/
theorem Get_loop_eq (zV : V) (h : Bytes → Nat) (m : S_StrMap V) (hI : Inv m) (s : Bytes) (slot : Int) (hs : 0 ≤ slot) :
    ∀ (fuel : Nat) (e0 : S_mapItem V) (j : Int), 0 ≤ j → m.items.arr.length - j.toNat < fuel →
      absScan (StrMap_Get_loop1 zV h m s slot fuel e0 j) =
        SMap.scan m.data.arr ((m.items.arr.map absItem).drop j.toNat) slot.toNat s := by
  intro fuel
  induction fuel with
  | zero => intro e0 j _ hf; omega
  | succ fuel ih =>
    intro e0 j hj hf
    have hn := hI.nItems
    have wl : wrap .i32 (slen m.items) = (m.items.arr.length : Int) := by
      unfold slen; exact wrap32 _ (by omega) (by omega)
    unfold StrMap_Get_loop1
    rw [wl]
    by_cases hlt : j < (m.items.arr.length : Int)
    · have hjl : j.toNat < m.items.arr.length := by omega
      have hg : m.items.arr[j.toNat]? = some m.items.arr[j.toNat] := List.getElem?_eq_getElem hjl
      generalize m.items.arr[j.toNat] = e at hg
      have he := hI.items e (List.mem_of_getElem? hg)
      have hd : (m.items.arr.map absItem).drop j.toNat = absItem e :: (m.items.arr.map absItem).drop (j.toNat + 1) :=
        drop_cons_of_getElem? _ _ _ (by simp [hg])
      have hj0 : ¬ j < 0 := by omega
      have wj : wrap .i32 (j + 1) = j + 1 := wrap32 _ (by omega) (by omega)
      have hj1 : (j + 1).toNat = j.toNat + 1 := by omega
      have hslot : (e.slot = slot) ↔ ((absItem e).slot = slot.toNat) := by
        have := he.slot0
        simp only [absItem]; omega
      rw [hd]
      unfold SMap.scan
      by_cases hsl : e.slot = slot
      · have hsl' := hslot.mp hsl
        rcases key_eq m.data e he with ⟨t, h1, h2⟩ | ⟨h1, h2⟩
        · by_cases hk : strOf t = s
          · simp [hlt, sget, hj0, hg, hsl, hsl', h1, h2, hk, absScan, optOf]; rfl
          · have := ih e (j + 1) (by omega) (by omega)
            rw [hj1] at this
            simp [hlt, sget, hj0, hg, hsl, hsl', h1, h2, hk, wj, this]
        · simp [hlt, sget, hj0, hg, hsl, hsl', h1, h2, absScan]
      · have hsl' : ¬ (absItem e).slot = slot.toNat := fun c => hsl (hslot.mpr c)
        simp [hlt, sget, hj0, hg, hsl, hsl', absScan]
    · have hd : (m.items.arr.map absItem).drop j.toNat = [] := by
        apply List.drop_eq_nil_of_le; simp; omega
      simp [hlt, hd, absScan, SMap.scan]

theorem toI32_small (n : Nat) (h : n < 2147483648) : toI32 (n % SMap.two32) = (n : Int) := by
  unfold toI32 SMap.two32
  have : n % 4294967296 = n := Nat.mod_eq_of_lt (by omega)
  rw [this]; simp [h]

/-- `(*StrMap[V]).Get` is the model's `get`, for every state with `Inv`, every hash, every key; the fuel only has to
    exceed the number of items -/
theorem Get_eq (zV : V) (h : Bytes → Nat) (fuel : Nat) (m : S_StrMap V) (hI : Inv m) (hf : m.items.arr.length < fuel)
    (s : Bytes) : liftG optOf (StrMap_Get zV h fuel m s) = SMap.get h (absMap m) s := by
  unfold StrMap_Get SMap.get
  have hsz : (absMap m).ht.size = m.hashtable.arr.length := by simp [absMap]
  rw [hsz]
  by_cases h0 : m.hashtable.arr.length = 0
  · simp [h0, slen, liftG, optOf]
  · have h0' : ¬ slen m.hashtable = 0 := by unfold slen; omega
    have wlen : wrap .u32 (slen m.hashtable) = ((m.hashtable.arr.length % SMap.two32 : Nat) : Int) := by
      rw [wrapU32]; unfold slen SMap.two32; omega
    rw [wrapU32_hash, wlen]
    by_cases hz : m.hashtable.arr.length % SMap.two32 = 0
    · simp [h0, h0', hz, goMod, liftG]
    · have hzI : ¬ ((m.hashtable.arr.length % SMap.two32 : Nat) : Int) = 0 := by omega
      have hmod : wrap .u32 (Int.tmod ((h s % SMap.two32 : Nat) : Int) ((m.hashtable.arr.length % SMap.two32 : Nat) : Int))
          = ((h s % SMap.two32 % (m.hashtable.arr.length % SMap.two32) : Nat) : Int) := by
        rw [Int.tmod_eq_emod_of_nonneg (by omega)]
        have hb : h s % SMap.two32 % (m.hashtable.arr.length % SMap.two32) < 4294967296 := by
          have := Nat.mod_lt (h s) (show 0 < SMap.two32 by decide)
          have := Nat.mod_le (h s % SMap.two32) (m.hashtable.arr.length % SMap.two32)
          unfold SMap.two32 at *; omega
        rw [wrapU32_id _ (by omega) (by omega)]; rfl
      simp only [h0, h0', hz, if_false, decide_false, goMod, hzI, hmod, Out.bind_eq, Out.bind_ok, Bool.false_eq_true]
      generalize h s % SMap.two32 % (m.hashtable.arr.length % SMap.two32) = slot
      have hslot0 : ¬ ((slot : Nat) : Int) < 0 := by omega
      have hht : (absMap m).ht[slot]? = m.hashtable.arr[slot]? := by simp [absMap]
      rw [hht]
      simp only [sget, hslot0, if_false, Int.toNat_natCast]
      cases hg : m.hashtable.arr[slot]? with
      | none => simp [liftG]
      | some i =>
        by_cases hi : i < 0
        · simp [hi, liftG, optOf]
        · have hit : (absMap m).items[i.toNat]? = (m.items.arr[i.toNat]?).map absItem := by simp [absMap]
          simp only [hi, if_false, decide_false, Out.bind_ok, hit, Bool.false_eq_true]
          cases hge : m.items.arr[i.toNat]? with
          | none => simp [liftG]
          | some e =>
            have he := hI.items e (List.mem_of_getElem? hge)
            have hil : i.toNat < m.items.arr.length := (List.getElem?_eq_some_iff.mp hge).1
            have hn := hI.nItems
            have hdata : (absMap m).data = m.data.arr := rfl
            rcases key_eq m.data e he with ⟨t, h1, h2⟩ | ⟨h1, h2⟩
            · by_cases hk : strOf t = s
              · simp [h1, h2, hk, hdata, liftG, optOf]; rfl
              · have wj : wrap .i32 (i + 1) = i + 1 := wrap32 _ (by omega) (by omega)
                have hloop := Get_loop_eq zV h m hI s (slot : Int) (by omega) fuel e (i + 1) (by omega) (by omega)
                have hj1 : (i + 1).toNat = i.toNat + 1 := by omega
                have hlim : toI32 ((List.map absItem m.items.arr).length % SMap.two32) = (m.items.arr.length : Int) := by
                  rw [List.length_map]; exact toI32_small _ hn
                have hitems : (absMap m).items = m.items.arr.map absItem := rfl
                rw [hj1, Int.toNat_natCast] at hloop
                simp only [Option.map_some, h1, h2, hk, hdata, wj, Out.bind_ok, decide_false, if_false,
                  hitems, Bool.false_eq_true]
                rw [hlim, Int.toNat_natCast, List.take_of_length_le (by simp), ← hloop]
                cases StrMap_Get_loop1 zV h m s (slot : Int) fuel e (i + 1) with
                | ok r => cases r <;> simp [absScan, liftG, optOf]
                | panic w => simp [absScan, liftG]
                | oob => simp [absScan, liftG]
                | err x => exact nomatch x
            · simp [h1, h2, hdata, liftG]

/-! ## calcHashtableSlots (utils.go) -/

theorem tbl_eq : StrMapGen.bits2primes = Facts.bits2primes := by decide

theorem tbl_pos : ∀ p ∈ Facts.bits2primes, 0 < p ∧ p < 2147483648 := by decide

theorem bitsLen64_nat (k : Nat) : bitsLen64 (k : Int) = ((SMap.bitLen k : Nat) : Int) := by
  unfold bitsLen64 SMap.bitLen
  by_cases hk : k = 0 <;> simp [hk]

/-- the translation and the model agree on `calcHashtableSlots(n)`, `n` a length: the same prime (positive, below 2^31)
    or the same panic -/
theorem calcSlots_cases (n : Nat) :
    (∃ p : Nat, calcHashtableSlots (n : Int) = .ok (p : Int) ∧ SMap.calcSlots n = .ok p ∧ 0 < p ∧ p < 2147483648) ∨
    (∃ w, calcHashtableSlots (n : Int) = .panic w ∧ SMap.calcSlots n = .panic w) := by
  unfold calcHashtableSlots SMap.calcSlots
  have e1 : f64DivToU64 (n : Int) 3 4 = ((SMap.scaled n : Nat) : Int) := by
    simp [f64DivToU64, SMap.scaled, Facts.loadfactorDen, Facts.loadfactorNum]
  have hl : Facts.bits2primes.length = 32 := by decide
  rw [e1, bitsLen64_nat, tbl_eq, hl]
  generalize SMap.bitLen (SMap.scaled n) = b
  by_cases hb : b ≥ 32
  · right
    have : ((b : Nat) : Int) ≥ 32 := by omega
    exact ⟨"too many items", by simp [this], by simp [hb]⟩
  · left
    have hb' : ¬ ((b : Nat) : Int) ≥ 32 := by omega
    have hlt : b < Facts.bits2primes.length := by omega
    have hg : Facts.bits2primes[b]? = some Facts.bits2primes[b] := List.getElem?_eq_getElem hlt
    have hp := tbl_pos _ (List.getElem_mem hlt)
    generalize Facts.bits2primes[b] = p at hg hp
    have hb0 : ¬ ((b : Nat) : Int) < 0 := by omega
    refine ⟨p.toNat, ?_, ?_, by omega, by omega⟩
    · have : ((p.toNat : Nat) : Int) = p := by omega
      simp [hb', tblGet, hb0, hg, this]
    · simp [hb, hg]

theorem calcHashtableSlots_eq (n : Nat) : liftG Int.toNat (calcHashtableSlots (n : Int)) = SMap.calcSlots n := by
  rcases calcSlots_cases n with ⟨p, h1, h2, _, _⟩ | ⟨w, h1, h2⟩
  · rw [h1, h2]; simp [liftG]
  · rw [h1, h2]; simp [liftG]

/-! ## makeHashtable -/

/-- result and final state of a model call as one outcome (the state after a panic is not observable in the translation) -/
def outOf {σ : Type} (r : Out SMap.LErr Unit × σ) : Out SMap.LErr σ :=
  match r.1 with
  | .ok _ => .ok r.2
  | .panic w => .panic w
  | .err e => .err e
  | .oob => .oob

/-- the model's sorter (on model items) as a sorter of generated items -/
def liftSorter (sorter : List (SMap.Item V) → List (SMap.Item V)) (l : List (S_mapItem V)) : List (S_mapItem V) :=
  (sorter (l.map absItem)).map repItem

theorem wrapI32_nat (i : Nat) : wrap .i32 (i : Int) = toI32 (i % SMap.two32) := by
  simp only [wrap, toU, IT.bits, IT.signed, toI32, SMap.two32]
  by_cases hi : i % 4294967296 < 2147483648
  · simp [hi]; omega
  · simp [hi]; omega

theorem sget_append (m : Sl α) (pre rest : List α) (e : α) (h : m.arr = pre ++ e :: rest) :
    sget m (pre.length : Int) = .ok e := by
  have : ¬ ((pre.length : Nat) : Int) < 0 := by omega
  simp [sget, this, h]

theorem sset_append (m : Sl α) (pre rest : List α) (e e' : α) (h : m.arr = pre ++ e :: rest) :
    sset m (pre.length : Int) e' = .ok { m with arr := (pre ++ [e']) ++ rest } := by
  have : ¬ (((pre.length : Nat) : Int) < 0 ∨ ((pre.length : Nat) : Int) ≥ slen m) := by
    unfold slen; rw [h]; simp; omega
  simp [sset, this, h]

/-- first loop: `items[i].slot = items[i].slot % uint32(slots)` for every item -/
theorem mh_loop1 (zV : V) (sorter : List (S_mapItem V) → List (S_mapItem V)) (fuel : Nat) (S : Nat)
    (hS0 : 0 < S) (hS1 : S < 4294967296) :
    ∀ (rest pre : List (S_mapItem V)) (m : S_StrMap V), m.items.arr = pre ++ rest → (∀ e ∈ rest, 0 ≤ e.slot) →
      StrMap_makeHashtable_loop1 zV sorter fuel (S : Int) rest (pre.length : Int) m =
        .ok { m with items := { m.items with arr := pre ++ rest.map (fun e => { e with slot := e.slot % (S : Int) }) } } := by
  intro rest
  induction rest with
  | nil => intro pre m h _; simp [StrMap_makeHashtable_loop1, ← h]
  | cons e rest ih =>
    intro pre m h hs
    have he : 0 ≤ e.slot := hs e (by simp)
    unfold StrMap_makeHashtable_loop1
    have wS : wrap .u32 (S : Int) = (S : Int) := wrapU32_id _ (by omega) (by omega)
    have hS : ¬ ((S : Nat) : Int) = 0 := by omega
    have hm : wrap .u32 (Int.tmod e.slot (S : Int)) = e.slot % (S : Int) := by
      rw [Int.tmod_eq_emod_of_nonneg he]
      have := Int.emod_lt_of_pos e.slot (show (0 : Int) < (S : Int) by omega)
      have := Int.emod_nonneg e.slot hS
      exact wrapU32_id _ (by omega) (by omega)
    have hc : ((pre.length : Nat) : Int) + 1 = (((pre ++ [({ e with slot := e.slot % (S : Int) } : S_mapItem V)]).length : Nat) : Int) := by
      simp
    simp only [sget_append m.items pre rest e h, sset_append m.items pre rest e _ h, Out.bind_eq, Out.bind_ok, goMod, wS, hS,
      if_false, hm]
    rw [hc, ih _ _ (by simp) (fun x hx => hs x (by simp [hx]))]
    simp

/-- second loop: `hashtable[i] = -1` for every cell -/
theorem mh_loop2 (zV : V) (sorter : List (S_mapItem V) → List (S_mapItem V)) :
    ∀ (fuel : Nat) (tail : List Int) (k : Nat) (m : S_StrMap V),
      m.hashtable.arr = List.replicate k (-1) ++ tail → tail.length < fuel → k + tail.length < 4611686018427387904 →
      StrMap_makeHashtable_loop2 zV sorter fuel m (k : Int) =
        .ok ({ m with hashtable := { m.hashtable with arr := List.replicate (k + tail.length) (-1) } },
             ((k + tail.length : Nat) : Int)) := by
  intro fuel
  induction fuel with
  | zero => intro tail k m _ hf; omega
  | succ fuel ih =>
    intro tail k m h hf hb
    unfold StrMap_makeHashtable_loop2
    cases tail with
    | nil =>
      have : ¬ ((k : Nat) : Int) < slen m.hashtable := by unfold slen; rw [h]; simp
      have h' : List.replicate k (-1 : Int) = m.hashtable.arr := by simpa using h.symm
      simp [this, h']
    | cons x tail =>
      have hlt : ((k : Nat) : Int) < slen m.hashtable := by unfold slen; rw [h]; simp; omega
      have hk : k = (List.replicate k (-1 : Int)).length := by simp
      have hset := sset_append m.hashtable (List.replicate k (-1)) tail x (-1) h
      rw [← hk] at hset
      have w : wrap .i64 ((k : Int) + 1) = ((k + 1 : Nat) : Int) := by
        rw [wrap64 _ (by omega) (by simp at hb; omega)]; simp
      simp only [hlt, decide_true, if_true, hset, Out.bind_eq, Out.bind_ok, w]
      rw [ih tail (k + 1) _ (by simp [List.replicate_succ']) (by simp at hf; omega) (by simp at hb ⊢; omega)]
      simp; try omega

/-- third loop: the model's `fillFirst` on the hashtable; nothing else changes -/
theorem mh_loop3 (zV : V) (sorter : List (S_mapItem V) → List (S_mapItem V)) (fuel : Nat) :
    ∀ (rest pre : List (S_mapItem V)) (m : S_StrMap V), m.items.arr = pre ++ rest → (∀ e ∈ rest, 0 ≤ e.slot) →
      liftG (fun m' => m'.hashtable.arr.toArray) (StrMap_makeHashtable_loop3 zV sorter fuel rest (pre.length : Int) m) =
        SMap.fillFirst (rest.map absItem) pre.length m.hashtable.arr.toArray ∧
      ∀ m', StrMap_makeHashtable_loop3 zV sorter fuel rest (pre.length : Int) m = .ok m' →
        m'.items = m.items ∧ m'.data = m.data ∧ m'.hashtable.spare = m.hashtable.spare := by
  intro rest
  induction rest with
  | nil => intro pre m _ _; simp [StrMap_makeHashtable_loop3, SMap.fillFirst, liftG]
  | cons e rest ih =>
    intro pre m h hs
    have he : 0 ≤ e.slot := hs e (by simp)
    have he' : ¬ e.slot < 0 := by omega
    unfold StrMap_makeHashtable_loop3 SMap.fillFirst
    have hc : ((pre.length : Nat) : Int) + 1 = (((pre ++ [e]).length : Nat) : Int) := by simp
    have hl : pre.length + 1 = (pre ++ [e]).length := by simp
    simp only [sget_append m.items pre rest e h, Out.bind_eq, Out.bind_ok, List.map_cons]
    have hslot : (absItem e).slot = e.slot.toNat := rfl
    rw [hslot, List.getElem?_toArray]
    simp only [sget, he', if_false]
    cases hg : m.hashtable.arr[e.slot.toNat]? with
    | none => simp [liftG]
    | some x =>
      have hlen : e.slot.toNat < m.hashtable.arr.length := (List.getElem?_eq_some_iff.mp hg).1
      by_cases hx : x < 0
      · have hin : ¬ (e.slot < 0 ∨ e.slot ≥ slen m.hashtable) := by unfold slen; omega
        simp only [hx, decide_true, if_true, sset, hin, if_false, Out.bind_ok, Out.pure_eq]
        have := ih (pre ++ [e]) { m with hashtable := { m.hashtable with arr := m.hashtable.arr.set e.slot.toNat (wrap .i32 (pre.length : Int)) } }
          (by simp [h]) (fun y hy => hs y (by simp [hy]))
        rw [wrapI32_nat] at this
        rw [hc, hl, wrapI32_nat]
        simpa using this
      · simp only [hx, decide_false, if_false, Out.bind_ok, Out.pure_eq, Bool.false_eq_true]
        have := ih (pre ++ [e]) m (by simp [h]) (fun y hy => hs y (by simp [hy]))
        rw [hc, hl]
        exact this

/-! `makeHashtable_eq` (the composition of `calcSlots_cases`, `mh_loop1`, `mh_loop2`, `mh_loop3` with the model's
    `makeHashtable`) and `LoadFromSlice_eq` are not proved yet; the three loop lemmas above are what they need. -/

/-! ## closed examples: the GENERATED LoadFromSlice / Get / Item / Len run on a map all of whose keys collide -/

/-- a structurally recursive slot sorter (insertion sort) for kernel evaluation -/
def insBySlot (x : S_mapItem Nat) : List (S_mapItem Nat) → List (S_mapItem Nat)
  | [] => [x]
  | y :: r => if x.slot ≤ y.slot then x :: y :: r else y :: insBySlot x r
def isortBySlot : List (S_mapItem Nat) → List (S_mapItem Nat)
  | [] => []
  | x :: r => insBySlot x (isortBySlot r)

def exKeys : List Bytes := [[97], [98, 99], [], [100, 101, 102]]
def exVals : List Nat := [10, 20, 30, 40]
/-- every key hashes to 5: one chain -/
def exHash : Bytes → Nat := fun _ => 5
/-- two chains: the hash is the key's length mod 2 -/
def exHash2 : Bytes → Nat := fun k => k.length % 2
def exEmpty : S_StrMap Nat := ⟨Sl.nil, Sl.nil, Sl.nil⟩

def exLoad (h : Bytes → Nat) : GM (S_StrMap Nat) :=
  (StrMap_LoadFromSlice 0 h isortBySlot 64 exEmpty exKeys exVals).bind fun r =>
    if r.2 = SErr.nil then .ok r.1 else .panic "load failed"

def exGet (h : Bytes → Nat) (k : Bytes) : GM (Nat × Bool) := (exLoad h).bind fun m => StrMap_Get 0 h 64 m k

example : exGet exHash [97] = .ok (10, true) := by decide +kernel
example : exGet exHash [98, 99] = .ok (20, true) := by decide +kernel
example : exGet exHash [] = .ok (30, true) := by decide +kernel
example : exGet exHash [100, 101, 102] = .ok (40, true) := by decide +kernel
example : exGet exHash [98] = .ok (0, false) := by decide +kernel
example : exGet exHash2 [100, 101, 102] = .ok (40, true) := by decide +kernel
example : exGet exHash2 [98, 99] = .ok (20, true) := by decide +kernel
example : exGet exHash2 [99] = .ok (0, false) := by decide +kernel
example : ((exLoad exHash).bind fun m => StrMap_Len 0 m) = .ok 4 := by decide +kernel
example : ((exLoad exHash).bind fun m => StrMap_Item 0 m 1) = .ok ([98, 99], 20) := by decide +kernel
example : ((exLoad exHash).bind fun m => StrMap_Item 0 m 4) = .panic "index" := by decide +kernel
example : ((exLoad exHash).bind fun m => pure (slen m.hashtable)) = .ok 17 := by decide +kernel
/-- a never-loaded map answers "not found" (the `len(hashtable) == 0` guard) -/
example : StrMap_Get 0 exHash 64 exEmpty [97] = .ok (0, false) := by decide +kernel
/-- mismatched lengths: the error, the map untouched -/
example : ((StrMap_LoadFromSlice 0 exHash isortBySlot 64 exEmpty exKeys [1]).bind fun r => pure r.2)
    = .ok (SErr.new "kv len not match") := by decide +kernel

end Verif.StrMapEq

/-
  Lemmas/Funcs/StrMapEq: the functions of container/strmap translated from the source on every run
  (`Verif/Gen/StrMapGen.lean`, translator `extract/strmap.go`, semantics `Base/GoSemSM.lean`) are EQUAL to the
  hand-written model `Model/StrMap.lean` that the C07 theorems are about — through the explicit abstraction `absMap`
  of the generated receiver structure, for all receiver states satisfying the representation invariant `Inv`, all
  arguments, every hash `h`, every `sorter`.

  `absMap`: data = `data[0:len]`, items = the items with their `int`/`uint32` fields as naturals, ht = `hashtable[0:len]`,
  spare = `hashtable[len:cap]`; the spare capacity of `data` and `items` is dropped (the model does not have it).
-/
import Verif.Gen.StrMapGen
import Verif.Model.StrMap
namespace Verif.StrMapEq
open Verif Verif.GoSemSM Verif.StrMapGen
open Verif.GoSem (GM wrap LoopR goMod IT toU)

variable {V α : Type}

/-! ## abstraction -/

def absItem (e : S_mapItem V) : SMap.Item V := ⟨e.off.toNat, e.sz.toNat, e.slot.toNat, e.v⟩
def repItem (e : SMap.Item V) : S_mapItem V := ⟨(e.off : Int), (e.sz : Int), (e.slot : Int), e.v⟩

def absMap (m : S_StrMap V) : SMap.StrMap V :=
  ⟨m.data.arr, m.items.arr.map absItem, m.hashtable.arr.toArray, m.hashtable.spare.toArray⟩

/-- outcome of a translated call as an outcome of the model (a `GM` has no error outcome) -/
def liftG {α β : Type} (f : α → β) : GM α → Out SMap.LErr β
  | .ok a => .ok (f a)
  | .panic s => .panic s
  | .oob => .oob
  | .err e => nomatch e

/-- Go's `(v, ok)` as the model's `Option` -/
def optOf (r : V × Bool) : Option V := if r.2 then some r.1 else none

@[simp] theorem absItem_repItem (e : SMap.Item V) : absItem (repItem e) = e := by
  cases e; simp [absItem, repItem]

/-! ## representation invariant -/

/-- an item as the code can hold it: `off` a non-negative int below 2^62, `sz`/`slot` uint32, and the key range
    `[off, off+sz)` does not END in the spare capacity of `data` (Go's slice expression is legal up to the capacity and
    would read stale bytes there; the model checks against the length) -/
structure ItemOK (d : Sl UInt8) (e : S_mapItem V) : Prop where
  off0 : 0 ≤ e.off
  offB : e.off < 4611686018427387904
  sz0 : 0 ≤ e.sz
  szB : e.sz < 4294967296
  slot0 : 0 ≤ e.slot
  key : e.off + e.sz ≤ slen d ∨ scap d < e.off + e.sz

structure Inv (m : S_StrMap V) : Prop where
  items : ∀ e ∈ m.items.arr, ItemOK m.data e
  nItems : m.items.arr.length < 2147483648

/-! ## integer facts -/

theorem wrap64 (x : Int) (h0 : -9223372036854775808 ≤ x) (h1 : x < 9223372036854775808) : wrap .i64 x = x := by
  simp only [wrap, toU, IT.bits, IT.signed]
  simp
  split <;> omega

theorem wrap32 (x : Int) (h0 : -2147483648 ≤ x) (h1 : x < 2147483648) : wrap .i32 x = x := by
  simp only [wrap, toU, IT.bits, IT.signed]
  simp
  split <;> omega

theorem wrapU32 (x : Int) : wrap .u32 x = x % 4294967296 := by
  simp [wrap, toU, IT.bits, IT.signed]

theorem wrapU32_id (x : Int) (h0 : 0 ≤ x) (h1 : x < 4294967296) : wrap .u32 x = x := by
  rw [wrapU32]; omega

theorem wrapU32_hash (h : Bytes → Nat) (s : Bytes) :
    wrap .u32 (hashStr h s) = ((h s % SMap.two32 : Nat) : Int) := by
  rw [wrapU32]; unfold hashStr SMap.two32
  have : h s % 18446744073709551616 % 4294967296 = h s % 4294967296 :=
    Nat.mod_mod_of_dvd _ (by decide)
  omega

/-! ## Len -/

theorem Len_eq (zV : V) (m : S_StrMap V) : StrMap_Len zV m = .ok ((SMap.len (absMap m) : Nat) : Int) := by
  simp [StrMap_Len, SMap.len, absMap, slen]

/-! ## the key of an item -/

/-- `m.data[e.off : e.off+int(e.sz)]` against the model's `keyAt` -/
theorem key_eq (d : Sl UInt8) (e : S_mapItem V) (he : ItemOK d e) :
    (∃ t, sslice d e.off (wrap .i64 (e.off + wrap .i64 e.sz)) = .ok t ∧
          SMap.keyAt d.arr (absItem e) = some (strOf t)) ∨
    (sslice d e.off (wrap .i64 (e.off + wrap .i64 e.sz)) = .panic "slice" ∧
          SMap.keyAt d.arr (absItem e) = none) := by
  obtain ⟨h0, h1, h2, h3, _, hk⟩ := he
  have w1 : wrap .i64 e.sz = e.sz := wrap64 _ (by omega) (by omega)
  have w2 : wrap .i64 (e.off + e.sz) = e.off + e.sz := wrap64 _ (by omega) (by omega)
  rw [w1, w2]
  unfold slen scap at hk
  rcases hk with hk | hk
  · left
    have c1 : ¬ (e.off + e.sz < 0 ∨ e.off + e.sz > scap d) := by unfold scap; omega
    have c2 : ¬ (e.off < 0 ∨ e.off > e.off + e.sz) := by omega
    have hn : e.off.toNat + e.sz.toNat ≤ d.arr.length := by omega
    refine ⟨_, by simp only [sslice, c1, c2, if_false]; rfl, ?_⟩
    simp only [SMap.keyAt, absItem, hn, if_true, strOf, Sl.mem]
    congr 1
    have e1 : (e.off + e.sz).toNat = e.off.toNat + e.sz.toNat := by omega
    rw [e1, List.take_append_of_le_length hn, List.drop_take]
    congr 1; omega
  · right
    have c1 : (e.off + e.sz < 0 ∨ e.off + e.sz > scap d) := by unfold scap; omega
    have hn : ¬ e.off.toNat + e.sz.toNat ≤ d.arr.length := by omega
    exact ⟨by simp only [sslice, c1, if_true], by simp only [SMap.keyAt, absItem, hn, if_false]⟩

/-! ## Item -/

theorem Item_eq (zV : V) (m : S_StrMap V) (hI : Inv m) (i : Int) :
    liftG id (StrMap_Item zV m i) = SMap.item (absMap m) i := by
  unfold StrMap_Item SMap.item sget
  by_cases hi : i < 0
  · simp [hi, liftG]
  · simp only [hi, if_false, absMap, List.getElem?_map]
    cases hg : m.items.arr[i.toNat]? with
    | none => simp [liftG]
    | some e =>
      have he := hI.items e (List.mem_of_getElem? hg)
      rcases key_eq m.data e he with ⟨t, h1, h2⟩ | ⟨h1, h2⟩
      · simp [h1, h2, liftG]; rfl
      · simp [h1, h2, liftG]

/-! ## Get -/

/-- outcome of the collision loop: `return e.v, true` ↦ `some`, leaving the loop ↦ `none` (the code then returns `t, false`) -/
def absScan {σ : Type} : GM (LoopR (V × Bool) σ) → Out SMap.LErr (Option V)
  | .ok (.ret r) => .ok (optOf r)
  | .ok (.done _) => .ok none
  | .panic s => .panic s
  | .oob => .oob
  | .err e => nomatch e

theorem drop_cons_of_getElem? {α : Type} (l : List α) (n : Nat) (x : α) (h : l[n]? = some x) :
    l.drop n = x :: l.drop (n + 1) := by
  obtain ⟨hl, hx⟩ := List.getElem?_eq_some_iff.mp h
  rw [List.drop_eq_getElem_cons hl, hx]

/-- one iteration of the collision loop of `Get`, as a function of "the rest of the loop" `rec` — the generated loop
    function (whatever its read-only parameters are) satisfies `L (f+1) = getStep … (L f)` -/
def getStep (m : S_StrMap V) (s : Bytes) (slot lim : Int)
    (rec : S_mapItem V → Int → GM (LoopR (V × Bool) (S_mapItem V × Int)))
    (e0 : S_mapItem V) (j : Int) : GM (LoopR (V × Bool) (S_mapItem V × Int)) :=
  if j < lim then
    (sget m.items j).bind fun e =>
      if e.slot = slot then
        (sslice m.data e.off (wrap .i64 (e.off + wrap .i64 e.sz))).bind fun t =>
          if strOf t = s then .ok (.ret (e.v, true)) else rec e (wrap .i32 (j + 1))
      else .ok (.done (e, j))
  else .ok (.done (e0, j))

/-- the collision loop of `Get` is the model's `scan` over the items from `j` on — for ANY function `L` with the step
    equation `hstep` (the generated loop function is found by unification where this is used) -/
theorem Get_loop_eq (m : S_StrMap V) (hI : Inv m) (s : Bytes) (slot : Int) (hs : 0 ≤ slot)
    (lim : Int) (hlim : lim = (m.items.arr.length : Int))
    (L : Nat → S_mapItem V → Int → GM (LoopR (V × Bool) (S_mapItem V × Int)))
    (hstep : ∀ f e j, L (f + 1) e j = getStep m s slot lim (L f) e j) :
    ∀ (fuel : Nat) (e0 : S_mapItem V) (j : Int), 0 ≤ j → m.items.arr.length - j.toNat < fuel →
      absScan (L fuel e0 j) =
        SMap.scan m.data.arr ((m.items.arr.map absItem).drop j.toNat) slot.toNat s := by
  intro fuel
  induction fuel with
  | zero => intro e0 j _ hf; omega
  | succ fuel ih =>
    intro e0 j hj hf
    have hn := hI.nItems
    rw [hstep, hlim]
    unfold getStep
    by_cases hlt : j < (m.items.arr.length : Int)
    · have hjl : j.toNat < m.items.arr.length := by omega
      have hg : m.items.arr[j.toNat]? = some m.items.arr[j.toNat] := List.getElem?_eq_getElem hjl
      generalize m.items.arr[j.toNat] = e at hg
      have he := hI.items e (List.mem_of_getElem? hg)
      have hd : (m.items.arr.map absItem).drop j.toNat = absItem e :: (m.items.arr.map absItem).drop (j.toNat + 1) :=
        drop_cons_of_getElem? _ _ _ (by simp [hg])
      have hj0 : ¬ j < 0 := by omega
      have wj : wrap .i32 (j + 1) = j + 1 := wrap32 _ (by omega) (by omega)
      have hj1 : (j + 1).toNat = j.toNat + 1 := by omega
      have hslot : (e.slot = slot) ↔ ((absItem e).slot = slot.toNat) := by
        have := he.slot0
        simp only [absItem]; omega
      rw [hd]
      unfold SMap.scan
      by_cases hsl : e.slot = slot
      · have hsl' := hslot.mp hsl
        rcases key_eq m.data e he with ⟨t, h1, h2⟩ | ⟨h1, h2⟩
        · by_cases hk : strOf t = s
          · simp [hlt, sget, hj0, hg, hsl, hsl', h1, h2, hk, absScan, optOf]; rfl
          · have := ih e (j + 1) (by omega) (by omega)
            rw [hj1] at this
            simp [hlt, sget, hj0, hg, hsl, hsl', h1, h2, hk, wj, this]
        · simp [hlt, sget, hj0, hg, hsl, hsl', h1, h2, absScan]
      · have hsl' : ¬ (absItem e).slot = slot.toNat := fun c => hsl (hslot.mpr c)
        simp [hlt, sget, hj0, hg, hsl, hsl', absScan]
    · have hd : (m.items.arr.map absItem).drop j.toNat = [] := by
        apply List.drop_eq_nil_of_le; simp; omega
      simp [hlt, hd, absScan, SMap.scan]

/-- what `Get` does with the outcome of its collision loop: `return` of the hit, `return t, false` after the loop -/
theorem Get_tail (zV : V) (m : S_StrMap V) (hI : Inv m) (s : Bytes) (slot : Int) (hs : 0 ≤ slot)
    (lim : Int) (hlim : lim = (m.items.arr.length : Int))
    (L : Nat → S_mapItem V → Int → GM (LoopR (V × Bool) (S_mapItem V × Int)))
    (K : LoopR (V × Bool) (S_mapItem V × Int) → GM (V × Bool))
    (fuel : Nat) (e0 : S_mapItem V) (j : Int) (hj : 0 ≤ j) (hf : m.items.arr.length - j.toNat < fuel)
    (hstep : ∀ f e j, L (f + 1) e j = getStep m s slot lim (L f) e j)
    (hK1 : ∀ x, K (LoopR.ret x) = .ok x) (hK2 : ∀ st, K (LoopR.done st) = .ok (zV, false)) :
    liftG optOf ((L fuel e0 j).bind K) =
      SMap.scan m.data.arr ((m.items.arr.map absItem).drop j.toNat) slot.toNat s := by
  rw [← Get_loop_eq m hI s slot hs lim hlim L hstep fuel e0 j hj hf]
  cases L fuel e0 j with
  | ok r => cases r <;> simp [absScan, liftG, optOf, hK1, hK2]
  | panic w => simp [absScan, liftG]
  | oob => simp [absScan, liftG]
  | err x => exact nomatch x

theorem toI32_small (n : Nat) (h : n < 2147483648) : toI32 (n % SMap.two32) = (n : Int) := by
  unfold toI32 SMap.two32
  have : n % 4294967296 = n := Nat.mod_eq_of_lt (by omega)
  rw [this]; simp [h]

/-- `(*StrMap[V]).Get` is the model's `get`, for every state with `Inv`, every hash, every key; the fuel only has to
    exceed the number of items -/
theorem Get_eq (zV : V) (h : Bytes → Nat) (fuel : Nat) (m : S_StrMap V) (hI : Inv m) (hf : m.items.arr.length < fuel)
    (s : Bytes) : liftG optOf (StrMap_Get zV h fuel m s) = SMap.get h (absMap m) s := by
  have hsz : (absMap m).ht.size = m.hashtable.arr.length := by simp [absMap]
  have hn := hI.nItems
  have hdata : (absMap m).data = m.data.arr := rfl
  have hitems : (absMap m).items = m.items.arr.map absItem := rfl
  have wlen : wrap .u32 (slen m.hashtable) = ((m.hashtable.arr.length % SMap.two32 : Nat) : Int) := by
    rw [wrapU32]; unfold slen SMap.two32; omega
  have wl : wrap .i32 (slen m.items) = (m.items.arr.length : Int) := by
    unfold slen; exact wrap32 _ (by omega) (by omega)
  unfold SMap.get
  rw [hsz]
  -- semantic case splits first; every leaf is closed by one `simp` from facts about the primitives
  by_cases h0 : m.hashtable.arr.length = 0
  · have h0' : slen m.hashtable = 0 := by unfold slen; omega
    have h0s : 0 = slen m.hashtable := h0'.symm
    simp [StrMap_Get, h0, h0', ← h0s, liftG, optOf]
  · have h0' : ¬ slen m.hashtable = 0 := by unfold slen; omega
    have h0s : ¬ 0 = slen m.hashtable := fun c => h0' c.symm
    by_cases hz : m.hashtable.arr.length % SMap.two32 = 0
    · have hgm : ∀ a, goMod .u32 a (wrap .u32 (slen m.hashtable)) = .panic "divzero" := by
        intro a; rw [wlen]; simp [goMod, hz]
      simp [StrMap_Get, h0, h0', h0s, hz, hgm, liftG]
    · have hzI : ¬ ((m.hashtable.arr.length % SMap.two32 : Nat) : Int) = 0 := by omega
      have hmod : wrap .u32 (Int.tmod ((h s % SMap.two32 : Nat) : Int) ((m.hashtable.arr.length % SMap.two32 : Nat) : Int))
          = ((h s % SMap.two32 % (m.hashtable.arr.length % SMap.two32) : Nat) : Int) := by
        rw [Int.tmod_eq_emod_of_nonneg (by omega)]
        have hb : h s % SMap.two32 % (m.hashtable.arr.length % SMap.two32) < 4294967296 := by
          have := Nat.mod_lt (h s) (show 0 < SMap.two32 by decide)
          have := Nat.mod_le (h s % SMap.two32) (m.hashtable.arr.length % SMap.two32)
          unfold SMap.two32 at *; omega
        rw [wrapU32_id _ (by omega) (by omega)]; rfl
      have hgm : goMod .u32 (wrap .u32 (hashStr h s)) (wrap .u32 (slen m.hashtable))
          = .ok ((h s % SMap.two32 % (m.hashtable.arr.length % SMap.two32) : Nat) : Int) := by
        rw [wrapU32_hash, wlen]
        simp only [goMod, hzI, if_false, hmod]
      simp only [h0, hz, if_false]
      generalize h s % SMap.two32 % (m.hashtable.arr.length % SMap.two32) = slot at hgm
      have hslot0 : ¬ ((slot : Nat) : Int) < 0 := by omega
      have hht : (absMap m).ht[slot]? = m.hashtable.arr[slot]? := by simp [absMap]
      rw [hht]
      cases hg : m.hashtable.arr[slot]? with
      | none =>
        have hsg : sget m.hashtable (slot : Int) = .panic "index" := by simp [sget, hg]
        simp [StrMap_Get, h0', h0s, hgm, hsg, liftG]
      | some i =>
        have hsg : sget m.hashtable (slot : Int) = .ok i := by simp [sget, hg]
        by_cases hi : i < 0
        · simp [StrMap_Get, h0', h0s, hgm, hsg, hi, liftG, optOf]
        · have hit : (absMap m).items[i.toNat]? = (m.items.arr[i.toNat]?).map absItem := by simp [absMap]
          simp only [hi, if_false, hit]
          cases hge : m.items.arr[i.toNat]? with
          | none =>
            have hsi : sget m.items i = .panic "index" := by simp [sget, hi, hge]
            simp [StrMap_Get, h0', h0s, hgm, hsg, hi, hsi, liftG]
          | some e =>
            have hsi : sget m.items i = .ok e := by simp [sget, hi, hge]
            have he := hI.items e (List.mem_of_getElem? hge)
            have hil : i.toNat < m.items.arr.length := (List.getElem?_eq_some_iff.mp hge).1
            rcases key_eq m.data e he with ⟨t, h1, h2⟩ | ⟨h1, h2⟩
            · by_cases hk : strOf t = s
              · have hks : s = strOf t := hk.symm
                simp [StrMap_Get, h0', h0s, hgm, hsg, hi, hsi, h1, h2, hk, ← hks, hdata, liftG, optOf]; rfl
              · have hks : ¬ s = strOf t := fun c => hk c.symm
                have wj : wrap .i32 (i + 1) = i + 1 := wrap32 _ (by omega) (by omega)
                have hj1 : (i + 1).toNat = i.toNat + 1 := by omega
                have hlim : toI32 ((List.map absItem m.items.arr).length % SMap.two32) = (m.items.arr.length : Int) := by
                  rw [List.length_map]; exact toI32_small _ hn
                simp only [Option.map_some, h2, hk, hdata, if_false, hitems]
                rw [hlim, Int.toNat_natCast, List.take_of_length_le (by simp), ← hj1, ← Int.toNat_natCast slot]
                generalize hR : SMap.scan m.data.arr _ _ s = R
                simp [StrMap_Get, h0', h0s, hgm, hsg, hi, hsi, h1, hk, hks, wj]
                rw [← hR]
                apply Get_tail zV m hI s (slot : Int) (by omega) (wrap .i32 (slen m.items)) wl
                · omega
                · omega
                · -- the generated loop function satisfies the step equation, in whatever shape it was written
                  intro f e0 j
                  by_cases hc : j < wrap .i32 (slen m.items)
                  · cases hsj : sget m.items j with
                    | ok e' =>
                      by_cases hsl : e'.slot = (slot : Int)
                      · have hsls : (slot : Int) = e'.slot := hsl.symm
                        cases hss : sslice m.data e'.off (wrap .i64 (e'.off + wrap .i64 e'.sz)) with
                        | ok t' =>
                          by_cases hk' : strOf t' = s
                          · simp [StrMap_Get_loop1, getStep, hc, hsj, hsl, hss, hk']
                          · have hk's : ¬ s = strOf t' := fun c => hk' c.symm
                            simp [StrMap_Get_loop1, getStep, hc, hsj, hsl, hss, hk', hk's]
                        | panic w => simp [StrMap_Get_loop1, getStep, hc, hsj, hsl, hss]
                        | oob => simp [StrMap_Get_loop1, getStep, hc, hsj, hsl, hss]
                        | err x => exact nomatch x
                      · have hsls : ¬ (slot : Int) = e'.slot := fun c => hsl c.symm
                        simp [StrMap_Get_loop1, getStep, hc, hsj, hsl, hsls]
                    | panic w => simp [StrMap_Get_loop1, getStep, hc, hsj]
                    | oob => simp [StrMap_Get_loop1, getStep, hc, hsj]
                    | err x => exact nomatch x
                  · simp [StrMap_Get_loop1, getStep, hc]
                · intro x; rfl
                · intro st; rfl
            · simp [StrMap_Get, h0', h0s, hgm, hsg, hi, hsi, h1, h2, hdata, liftG]

/-! ## calcHashtableSlots (utils.go) -/

theorem tbl_eq : StrMapGen.bits2primes = Facts.bits2primes := by decide

theorem tbl_pos : ∀ p ∈ Facts.bits2primes, 0 < p ∧ p < 2147483648 := by decide

theorem bitsLen64_nat (k : Nat) : bitsLen64 (k : Int) = ((SMap.bitLen k : Nat) : Int) := by
  unfold bitsLen64 SMap.bitLen
  by_cases hk : k = 0 <;> simp [hk]

/-- the translation and the model agree on `calcHashtableSlots(n)`, `n` a length: the same prime (positive, below 2^31)
    or the same panic -/
theorem calcSlots_cases (n : Nat) :
    (∃ p : Nat, calcHashtableSlots (n : Int) = .ok (p : Int) ∧ SMap.calcSlots n = .ok p ∧ 0 < p ∧ p < 2147483648) ∨
    (∃ w, calcHashtableSlots (n : Int) = .panic w ∧ SMap.calcSlots n = .panic w) := by
  have e1 : f64DivToU64 (n : Int) 3 4 = ((SMap.scaled n : Nat) : Int) := by
    simp [f64DivToU64, SMap.scaled, Facts.loadfactorDen, Facts.loadfactorNum]
  have hl : Facts.bits2primes.length = 32 := by decide
  -- `simp only` also substitutes the `let`s of a hoisted sub-expression
  simp only [calcHashtableSlots, SMap.calcSlots, e1, bitsLen64_nat, tbl_eq, hl]
  generalize SMap.bitLen (SMap.scaled n) = b
  by_cases hb : b ≥ 32
  · right
    have : ((b : Nat) : Int) ≥ 32 := by omega
    have this2 : ¬ ((b : Nat) : Int) < 32 := by omega
    exact ⟨"too many items", by simp [this, this2], by simp [hb]⟩
  · left
    have hb' : ¬ ((b : Nat) : Int) ≥ 32 := by omega
    have hlt : b < Facts.bits2primes.length := by omega
    have hg : Facts.bits2primes[b]? = some Facts.bits2primes[b] := List.getElem?_eq_getElem hlt
    have hp := tbl_pos _ (List.getElem_mem hlt)
    generalize Facts.bits2primes[b] = p at hg hp
    have hb0 : ¬ ((b : Nat) : Int) < 0 := by omega
    refine ⟨p.toNat, ?_, ?_, by omega, by omega⟩
    · have : ((p.toNat : Nat) : Int) = p := by omega
      have hb2 : ((b : Nat) : Int) < 32 := by omega
      simp [hb', hb2, tblGet, hb0, hg, this]
    · simp [hb, hg]

theorem calcHashtableSlots_eq (n : Nat) : liftG Int.toNat (calcHashtableSlots (n : Int)) = SMap.calcSlots n := by
  rcases calcSlots_cases n with ⟨p, h1, h2, _, _⟩ | ⟨w, h1, h2⟩
  · rw [h1, h2]; simp [liftG]
  · rw [h1, h2]; simp [liftG]

/-! ## makeHashtable -/

/-- result and final state of a model call as one outcome (the state after a panic is not observable in the translation) -/
def outOf {σ : Type} (r : Out SMap.LErr Unit × σ) : Out SMap.LErr σ :=
  match r.1 with
  | .ok _ => .ok r.2
  | .panic w => .panic w
  | .err e => .err e
  | .oob => .oob

/-- the model's sorter (on model items) as a sorter of generated items -/
def liftSorter (sorter : List (SMap.Item V) → List (SMap.Item V)) (l : List (S_mapItem V)) : List (S_mapItem V) :=
  (sorter (l.map absItem)).map repItem

theorem wrapI32_nat (i : Nat) : wrap .i32 (i : Int) = toI32 (i % SMap.two32) := by
  simp only [wrap, toU, IT.bits, IT.signed, toI32, SMap.two32]
  by_cases hi : i % 4294967296 < 2147483648
  · simp [hi]; omega
  · simp [hi]; omega

theorem sget_append (m : Sl α) (pre rest : List α) (e : α) (h : m.arr = pre ++ e :: rest) :
    sget m (pre.length : Int) = .ok e := by
  have : ¬ ((pre.length : Nat) : Int) < 0 := by omega
  simp [sget, this, h]

theorem sset_append (m : Sl α) (pre rest : List α) (e e' : α) (h : m.arr = pre ++ e :: rest) :
    sset m (pre.length : Int) e' = .ok { m with arr := (pre ++ [e']) ++ rest } := by
  have : ¬ (((pre.length : Nat) : Int) < 0 ∨ ((pre.length : Nat) : Int) ≥ slen m) := by
    unfold slen; rw [h]; simp; omega
  simp [sset, this, h]

/-- `s[i] = v` succeeds wherever `s[i]` does -/
theorem sset_of_sget (s : Sl α) (i : Int) (e v : α) (h : sget s i = .ok e) :
    sset s i v = .ok { s with arr := s.arr.set i.toNat v } := by
  unfold sget at h
  by_cases hi : i < 0
  · simp [hi] at h
  · simp only [hi, if_false] at h
    cases hg : s.arr[i.toNat]? with
    | none => simp [hg] at h
    | some x =>
      have hl : i.toNat < s.arr.length := (List.getElem?_eq_some_iff.mp hg).1
      have : ¬ (i < 0 ∨ i ≥ slen s) := by unfold slen; omega
      simp [sset, this]

/-- first loop: `items[i].slot = items[i].slot % uint32(slots)` for every item — for ANY function `L` that, on a
    non-empty rest, stores the reduced slot into item `i` and goes on with `i+1` -/
theorem mh_loop1 (S : Nat) (L : List (S_mapItem V) → Int → S_StrMap V → GM (S_StrMap V))
    (hnil : ∀ i m, L [] i m = .ok m)
    (hcons : ∀ x rest (i : Int) m e, sget m.items i = .ok e → 0 ≤ e.slot →
      L (x :: rest) i m =
        L rest (i + 1) { m with items := { m.items with arr := m.items.arr.set i.toNat { e with slot := e.slot % (S : Int) } } }) :
    ∀ (rest pre : List (S_mapItem V)) (i : Int) (m : S_StrMap V), i = (pre.length : Int) → m.items.arr = pre ++ rest →
      (∀ e ∈ rest, 0 ≤ e.slot) →
      L rest i m =
        .ok { m with items := { m.items with arr := pre ++ rest.map (fun e => { e with slot := e.slot % (S : Int) }) } } := by
  intro rest
  induction rest with
  | nil => intro pre i m _ h _; simp [hnil, ← h]
  | cons e rest ih =>
    intro pre i m hi h hs
    have he : 0 ≤ e.slot := hs e (by simp)
    subst hi
    rw [hcons e rest _ m e (sget_append m.items pre rest e h) he]
    rw [ih (pre ++ [({ e with slot := e.slot % (S : Int) } : S_mapItem V)]) _ _ (by simp) (by simp [h])
      (fun x hx => hs x (by simp [hx]))]
    simp

/-- second loop: `hashtable[i] = -1` for every cell — for ANY function `L` that stores -1 at `i` and goes on with
    `i+1` while `i < lim`, `lim` being the length of the table (read every time round or hoisted) -/
theorem mh_loop2 (lim : Int) (L : Nat → S_StrMap V → Int → GM (S_StrMap V × Int))
    (hlt : ∀ f m (i : Int), slen m.hashtable = lim → 0 ≤ i → i < lim → i < 4611686018427387904 →
      L (f + 1) m i = L f { m with hashtable := { m.hashtable with arr := m.hashtable.arr.set i.toNat (-1) } } (i + 1))
    (hge : ∀ f m (i : Int), slen m.hashtable = lim → ¬ i < lim → L (f + 1) m i = .ok (m, i)) :
    ∀ (fuel : Nat) (tail : List Int) (k : Nat) (m : S_StrMap V) (i0 : Int), i0 = (k : Int) → slen m.hashtable = lim →
      m.hashtable.arr = List.replicate k (-1) ++ tail → tail.length < fuel → k + tail.length < 4611686018427387904 →
      L fuel m i0 =
        .ok ({ m with hashtable := { m.hashtable with arr := List.replicate (k + tail.length) (-1) } },
             ((k + tail.length : Nat) : Int)) := by
  intro fuel
  induction fuel with
  | zero => intro tail k m _ _ _ _ hf; omega
  | succ fuel ih =>
    intro tail k m i0 hi0 hl h hf hb
    subst hi0
    cases tail with
    | nil =>
      have : ¬ ((k : Nat) : Int) < lim := by rw [← hl]; unfold slen; rw [h]; simp
      have h' : List.replicate k (-1 : Int) = m.hashtable.arr := by simpa using h.symm
      rw [hge fuel m _ hl this]
      simp [h']
    | cons x tail =>
      have hlt' : ((k : Nat) : Int) < lim := by rw [← hl]; unfold slen; rw [h]; simp; omega
      rw [hlt fuel m _ hl (by omega) hlt' (by simp at hb; omega)]
      have hset : m.hashtable.arr.set ((k : Nat) : Int).toNat (-1) = List.replicate (k + 1) (-1) ++ tail := by
        rw [h]; simp [List.replicate_succ']
      have hc : ((k : Nat) : Int) + 1 = ((k + 1 : Nat) : Int) := by simp
      rw [hset, hc, ih tail (k + 1) _ _ rfl (by rw [← hl]; unfold slen; rw [h]; simp; omega) rfl (by simp at hf; omega)
        (by simp at hb ⊢; omega)]
      have e1 : k + 1 + tail.length = k + (x :: tail).length := by simp; omega
      rw [e1]

/-- third loop: the model's `fillFirst` on the hashtable; nothing else changes — for ANY function `L` that, on a
    non-empty rest, reads item `i`, looks at `hashtable[e.slot]` and stores `int32(i)` there when it is negative -/
theorem mh_loop3 (L : List (S_mapItem V) → Int → S_StrMap V → GM (S_StrMap V))
    (hnil : ∀ i m, L [] i m = .ok m)
    (hcons : ∀ x rest (i : Int) m e, sget m.items i = .ok e → 0 ≤ e.slot →
      L (x :: rest) i m =
        (sget m.hashtable e.slot).bind fun c =>
          if c < 0 then
            L rest (i + 1) { m with hashtable := { m.hashtable with arr := m.hashtable.arr.set e.slot.toNat (wrap .i32 i) } }
          else L rest (i + 1) m) :
    ∀ (rest pre : List (S_mapItem V)) (i : Int) (m : S_StrMap V), i = (pre.length : Int) → m.items.arr = pre ++ rest →
      (∀ e ∈ rest, 0 ≤ e.slot) →
      liftG (fun m' => m'.hashtable.arr.toArray) (L rest i m) =
        SMap.fillFirst (rest.map absItem) pre.length m.hashtable.arr.toArray ∧
      ∀ m', L rest i m = .ok m' →
        m'.items = m.items ∧ m'.data = m.data ∧ m'.hashtable.spare = m.hashtable.spare := by
  intro rest
  induction rest with
  | nil => intro pre i m _ _ _; simp [hnil, SMap.fillFirst, liftG]
  | cons e rest ih =>
    intro pre i m hi h hs
    subst hi
    have he : 0 ≤ e.slot := hs e (by simp)
    have he' : ¬ e.slot < 0 := by omega
    rw [hcons e rest _ m e (sget_append m.items pre rest e h) he]
    unfold SMap.fillFirst
    have hc : ((pre.length : Nat) : Int) + 1 = (((pre ++ [e]).length : Nat) : Int) := by simp
    have hl : pre.length + 1 = (pre ++ [e]).length := by simp
    simp only [List.map_cons]
    have hslot : (absItem e).slot = e.slot.toNat := rfl
    rw [hslot, List.getElem?_toArray]
    simp only [sget, he', if_false]
    cases hg : m.hashtable.arr[e.slot.toNat]? with
    | none => simp [liftG]
    | some x =>
      by_cases hx : x < 0
      · simp only [hx, if_true, Out.bind_ok]
        have := ih (pre ++ [e]) _ { m with hashtable := { m.hashtable with arr := m.hashtable.arr.set e.slot.toNat (wrap .i32 (pre.length : Int)) } }
          hc (by simp [h]) (fun y hy => hs y (by simp [hy]))
        rw [wrapI32_nat] at this
        rw [hl, wrapI32_nat]
        simpa using this
      · simp only [hx, if_false, Out.bind_ok]
        have := ih (pre ++ [e]) _ m hc (by simp [h]) (fun y hy => hs y (by simp [hy]))
        rw [hl]
        exact this

theorem lift_bind_ok {α β γ : Type} {f : β → γ} {x : GM α} {a : α} {K : α → GM β} {R : Out SMap.LErr γ}
    (hx : x = .ok a) (hk : liftG f (K a) = R) : liftG f (x.bind K) = R := by
  subst hx; simpa using hk

theorem absItem_mod (e : S_mapItem V) (he : 0 ≤ e.slot) (p : Nat) :
    absItem ({ e with slot := e.slot % (p : Int) } : S_mapItem V) = { absItem e with slot := (absItem e).slot % p } := by
  simp only [absItem]
  congr 1
  obtain ⟨n, hn⟩ : ∃ n : Nat, e.slot = (n : Int) := ⟨e.slot.toNat, by omega⟩
  rw [hn]
  simp only [Int.toNat_natCast]
  omega

/-- the model state after `fillFirst` -/
def finishOut (d : Bytes) (its : List (SMap.Item V)) (sp : Array Int) :
    Out SMap.LErr (Array Int) → Out SMap.LErr (SMap.StrMap V)
  | .ok ht2 => .ok ⟨d, its, ht2, sp⟩
  | .panic w => .panic w
  | .err e => .err e
  | .oob => .oob

/-- what `makeHashtable` returns after its last loop, given what the loop does to the table -/
theorem mh_finish {x : GM (S_StrMap V)} {K : S_StrMap V → GM (S_StrMap V)} (hK : ∀ a, K a = .ok a)
    {R : Out SMap.LErr (Array Int)} {m4 : S_StrMap V}
    (h3 : liftG (fun m' => m'.hashtable.arr.toArray) x = R ∧
      ∀ m', x = .ok m' → m'.items = m4.items ∧ m'.data = m4.data ∧ m'.hashtable.spare = m4.hashtable.spare) :
    liftG absMap (x.bind K) =
      finishOut m4.data.arr (m4.items.arr.map absItem) m4.hashtable.spare.toArray R := by
  obtain ⟨h3a, h3b⟩ := h3
  subst h3a
  cases x with
  | ok m' =>
    obtain ⟨q1, q2, q3⟩ := h3b m' rfl
    simp [liftG, hK, absMap, q1, q2, q3, finishOut]
  | panic w => simp [liftG, finishOut]
  | oob => simp [liftG, finishOut]
  | err e => exact nomatch e

/-- `makeHashtable` is the model's `makeHashtable` (result, and the state when it returns normally) for every state whose
    items carry non-negative slots, EVERY sorter; the fuel only has to exceed the number of slots -/
theorem makeHashtable_eq (zV : V) (sorter : List (SMap.Item V) → List (SMap.Item V)) (fuel : Nat) (m : S_StrMap V)
    (hs : ∀ e ∈ m.items.arr, 0 ≤ e.slot) (hf : ∀ p, SMap.calcSlots m.items.arr.length = .ok p → p < fuel) :
    liftG absMap (StrMap_makeHashtable zV (liftSorter sorter) fuel m) = outOf (SMap.makeHashtable sorter (absMap m)) := by
  have hlen : (absMap m).items.length = m.items.arr.length := by simp [absMap]
  have hsl : slen m.items = ((m.items.arr.length : Nat) : Int) := rfl
  rcases calcSlots_cases m.items.arr.length with ⟨p, h1, h2, hp0, hp1⟩ | ⟨w, h1, h2⟩
  · have hfp := hf p h2
    have wp : wrap .i64 (p : Int) = (p : Int) := wrap64 _ (by omega) (by omega)
    have hp32 : p % SMap.two32 = p := Nat.mod_eq_of_lt (by unfold SMap.two32; omega)
    have hpz : ¬ p = 0 := by omega
    have hsz : ((absMap m).ht ++ (absMap m).spare).size = m.hashtable.arr.length + m.hashtable.spare.length := by
      simp [absMap]
    -- the re-sized table: facts about the primitives in either case
    obtain ⟨htA, hAl, hA1, hA2, hfacts⟩ : ∃ htA : Sl Int, htA.arr.length = p ∧
        htA.arr.toArray = (if ((absMap m).ht ++ (absMap m).spare).size < p then Array.replicate p (0 : Int)
            else ((absMap m).ht ++ (absMap m).spare).extract 0 p) ∧
        htA.spare.toArray = (if ((absMap m).ht ++ (absMap m).spare).size < p then #[]
            else ((absMap m).ht ++ (absMap m).spare).extract p ((absMap m).ht ++ (absMap m).spare).size) ∧
        ((scap m.hashtable < (p : Int) ∧ ¬ (p : Int) ≤ scap m.hashtable ∧ smake 0 (p : Int) (p : Int) = .ok htA) ∨
         (¬ scap m.hashtable < (p : Int) ∧ (p : Int) ≤ scap m.hashtable ∧ sslice m.hashtable 0 (p : Int) = .ok htA)) := by
      rw [hsz]
      by_cases hc : m.hashtable.arr.length + m.hashtable.spare.length < p
      · have hc' : scap m.hashtable < (p : Int) := by unfold scap; omega
        have c1 : ¬ ((p : Int) < 0) := by omega
        exact ⟨⟨List.replicate p 0, []⟩, by simp, by simp [hc], by simp [hc], Or.inl ⟨hc', by omega, by simp [smake, c1]⟩⟩
      · have hc' : ¬ scap m.hashtable < (p : Int) := by unfold scap; omega
        have c1 : ¬ ((p : Int) < 0 ∨ (p : Int) > scap m.hashtable) := by unfold scap; omega
        refine ⟨⟨(m.hashtable.arr ++ m.hashtable.spare).take p, (m.hashtable.arr ++ m.hashtable.spare).drop p⟩,
          by simp; omega, ?_, ?_, Or.inr ⟨hc', by omega, by simp [sslice, c1, Sl.mem]⟩⟩
        · simp [hc, absMap, List.take_append]
        · simp only [hc, absMap, if_false, List.append_toArray, List.extract_toArray, List.extract_eq_take_drop]
          rw [List.take_of_length_le (by simp)]
    have hitems1 : (m.items.arr.map (fun e => ({ e with slot := e.slot % (p : Int) } : S_mapItem V))).map absItem
        = (absMap m).items.map (fun e => { e with slot := e.slot % p }) := by
      simp only [absMap, List.map_map]
      apply List.map_congr_left
      intro e he
      exact absItem_mod e (hs e he) p
    have hsorted : (liftSorter sorter (m.items.arr.map (fun e => ({ e with slot := e.slot % (p : Int) } : S_mapItem V)))).map absItem
        = sorter ((absMap m).items.map (fun e => { e with slot := e.slot % p })) := by
      simp only [liftSorter, List.map_map, hitems1]
      rw [← hitems1]
      simp [Function.comp_def]
    have hgm : ∀ a : Int, 0 ≤ a → goMod .u32 a (wrap .u32 (p : Int)) = .ok (a % (p : Int)) := by
      intro a ha
      have wS : wrap .u32 (p : Int) = (p : Int) := wrapU32_id _ (by omega) (by omega)
      have hS : ¬ ((p : Nat) : Int) = 0 := by omega
      rw [wS]
      simp only [goMod, hS, if_false]
      rw [Int.tmod_eq_emod_of_nonneg ha]
      have := Int.emod_lt_of_pos a (show (0 : Int) < (p : Int) by omega)
      have := Int.emod_nonneg a hS
      rw [wrapU32_id _ (by omega) (by omega)]
    have hRHS : outOf (SMap.makeHashtable sorter (absMap m)) =
        finishOut m.data.arr (sorter ((absMap m).items.map (fun e => { e with slot := e.slot % p }))) htA.spare.toArray
          (SMap.fillFirst (sorter ((absMap m).items.map (fun e => { e with slot := e.slot % p }))) 0
            (Array.replicate p (-1))) := by
      have hsz0 : (if ((absMap m).ht ++ (absMap m).spare).size < p then Array.replicate p (0 : Int)
            else ((absMap m).ht ++ (absMap m).spare).extract 0 p).size = p := by
        rw [← hA1]; simp [hAl]
      simp only [SMap.makeHashtable, hlen, h2, hp32, hpz, if_false, hsz0, ← hA2]
      cases SMap.fillFirst (sorter ((absMap m).items.map (fun e => { e with slot := e.slot % p }))) 0
          (Array.replicate p (-1)) <;> simp [outOf, absMap, finishOut]
    rw [hRHS]
    rcases hfacts with ⟨c, c2, hm⟩ | ⟨c, c2, hm⟩ <;>
    ( simp only [StrMap_makeHashtable, hsl, h1, wp, c, c2, hm, Out.bind_eq, Out.bind_ok, Out.pure_eq, decide_true, decide_false,
        if_true, if_false, Bool.false_eq_true, ge_iff_le, gt_iff_lt]
      -- first loop
      refine lift_bind_ok (mh_loop1 p _ ?_ ?_ m.items.arr [] 0 _ rfl (by simp) hs) ?_
      · intro i m; simp [StrMap_makeHashtable_loop1]
      · intro x rest i m e hsg he
        have hss := fun v => sset_of_sget m.items i e v hsg
        simp [StrMap_makeHashtable_loop1, hsg, hgm _ he, hss]
      -- second loop
      refine lift_bind_ok (mh_loop2 (slen htA) _ ?_ ?_ fuel htA.arr 0 _ 0 rfl rfl (by simp) (by omega) (by omega)) ?_
      · intro f m i hl h0 hc hb
        have hi0 : ¬ (i < 0 ∨ i ≥ slen m.hashtable) := by omega
        have hi1 : ¬ (i < 0 ∨ slen htA ≤ i) := by omega
        have w : wrap .i64 (i + 1) = i + 1 := wrap64 _ (by omega) (by omega)
        simp [StrMap_makeHashtable_loop2, hl, hc, sset, hi1, w]
      · intro f m i hl hc
        simp [StrMap_makeHashtable_loop2, hl, hc]
      -- third loop and the return
      refine (mh_finish (fun a => rfl)
        (mh_loop3 _ ?_ ?_ (liftSorter sorter (m.items.arr.map (fun e => ({ e with slot := e.slot % (p : Int) } : S_mapItem V))))
          [] 0 _ rfl ?_ ?_)).trans ?_
      · intro i m; simp [StrMap_makeHashtable_loop3]
      · intro x rest i m e hsg he
        cases hsh : sget m.hashtable e.slot with
        | ok c =>
          have hss := fun v => sset_of_sget m.hashtable e.slot c v hsh
          by_cases hc : c < 0 <;> simp [StrMap_makeHashtable_loop3, hsg, hsh, hc, hss]
        | panic w => simp [StrMap_makeHashtable_loop3, hsg, hsh]
        | oob => simp [StrMap_makeHashtable_loop3, hsg, hsh]
        | err x => exact nomatch x
      · simp [sortSl]
      · intro e he
        simp only [liftSorter, List.mem_map] at he
        obtain ⟨x, _, rfl⟩ := he
        simp [repItem]
      · simp [sortSl, hsorted, hAl] )
  · simp [StrMap_makeHashtable, SMap.makeHashtable, hlen, hsl, h1, h2, liftG, outOf]

/-! ## LoadFromSlice -/

/-- total length of the keys -/
def totalLen : List Bytes → Nat
  | [] => 0
  | k :: r => k.length + totalLen r

/-- first loop (the size check): for ANY function `L` that returns the error at the first over-long key and otherwise
    adds the key's length -/
theorem lfs_loop1 (m : S_StrMap V) (L : List Bytes → Int → GM (LoopR (S_StrMap V × SErr) Int))
    (hnil : ∀ sz, L [] sz = .ok (.done sz))
    (hbig : ∀ k rest sz, k.length > SMap.maxU32 → L (k :: rest) sz = .ok (.ret (m, SErr.new "key too large")))
    (hsmall : ∀ k rest sz, ¬ k.length > SMap.maxU32 → L (k :: rest) sz = L rest (wrap .i64 (sz + llen k))) :
    ∀ (kk : List Bytes) (sz : Int), 0 ≤ sz → sz + (totalLen kk : Int) < 4611686018427387904 →
      L kk sz = if SMap.anyKeyTooLarge kk then .ok (.ret (m, SErr.new "key too large"))
                else .ok (.done (sz + (totalLen kk : Int))) := by
  intro kk
  induction kk with
  | nil => intro sz _ _; simp [hnil, SMap.anyKeyTooLarge, totalLen]
  | cons k rest ih =>
    intro sz h0 hb
    simp only [totalLen] at hb
    by_cases hk : k.length > SMap.maxU32
    · simp [hbig k rest sz hk, SMap.anyKeyTooLarge, hk]
    · have w : wrap .i64 (sz + llen k) = sz + (k.length : Int) := by
        unfold llen; exact wrap64 _ (by omega) (by omega)
      rw [hsmall k rest sz hk, w, ih _ (by omega) (by omega)]
      have : SMap.anyKeyTooLarge (k :: rest) = SMap.anyKeyTooLarge rest := by
        simp [SMap.anyKeyTooLarge, hk]
      simp only [this, totalLen]
      split <;> simp <;> omega

/-- second loop (the appends): for ANY function `L` that appends the item and the key's bytes -/
theorem lfs_loop2 (h : Bytes → Nat) (vv : List V) (L : List Bytes → Int → S_StrMap V → GM (S_StrMap V))
    (hnil : ∀ i m, L [] i m = .ok m)
    (hcons : ∀ k rest (i : Int) m v, lget vv i = .ok v →
      L (k :: rest) i m = L rest (i + 1)
        { m with items := sappend m.items ⟨slen m.data, wrap .u32 (llen k), wrap .u32 (hashStr h k), v⟩,
                 data := sappendAll m.data k }) :
    ∀ (kk : List Bytes) (pre vs : List V) (i : Int) (m : S_StrMap V), i = (pre.length : Int) → vv = pre ++ vs →
      kk.length = vs.length →
      ∃ m', L kk i m = .ok m' ∧
        m'.items.arr = m.items.arr ++ (SMap.appendLoop h (kk.zip vs) m.data.arr.length).2.map repItem ∧
        m'.data.arr = m.data.arr ++ (SMap.appendLoop h (kk.zip vs) m.data.arr.length).1 ∧
        m'.hashtable = m.hashtable := by
  intro kk
  induction kk with
  | nil => intro pre vs i m _ _ _; exact ⟨m, hnil i m, by simp [SMap.appendLoop], by simp [SMap.appendLoop], rfl⟩
  | cons k rest ih =>
    intro pre vs i m hi hv hl
    cases vs with
    | nil => simp at hl
    | cons v vs =>
      subst hi
      have hg : lget vv (pre.length : Int) = .ok v := by
        have : ¬ ((pre.length : Nat) : Int) < 0 := by omega
        simp [lget, this, hv]
      rw [hcons k rest _ m v hg]
      obtain ⟨m', h1, h2, h3, h4⟩ := ih (pre ++ [v]) vs (((pre.length : Nat) : Int) + 1) _ (by simp) (by simp [hv])
        (by simpa using hl)
      refine ⟨m', h1, ?_, ?_, ?_⟩
      · rw [h2]
        simp only [sappend, sappendAll, List.zip_cons_cons, SMap.appendLoop, List.map_cons, List.length_append,
          List.append_assoc, List.singleton_append]
        congr 2
        simp only [repItem, slen]
        congr 1
        all_goals first | exact wrapU32_hash h k | (rw [wrapU32]; unfold llen SMap.two32; omega) | rfl
      · rw [h3]
        simp [sappendAll, SMap.appendLoop]
      · rw [h4]

/-- errors of the loaders, by their text -/
def errOf {σ : Type} (e : SErr) : Out SMap.LErr σ :=
  match e with
  | .nil => .panic "nil error"
  | .new t => if t = SMap.LErr.kvLen.msg then .err .kvLen
              else if t = SMap.LErr.keyTooLarge.msg then .err .keyTooLarge else .panic t

/-- outcome of `LoadFromSlice`: the loaded map, or the model's error for the returned Go error -/
def absLoad : GM (S_StrMap V × SErr) → Out SMap.LErr (SMap.StrMap V)
  | .ok (m, .nil) => .ok (absMap m)
  | .ok (_, .new t) => errOf (.new t)
  | .panic w => .panic w
  | .oob => .oob
  | .err e => nomatch e

theorem absLoad_bind_congr {α : Type} {x y : GM α} {K : α → GM (S_StrMap V × SErr)} {R : Out SMap.LErr (SMap.StrMap V)}
    (hxy : x = y) (hk : absLoad (y.bind K) = R) : absLoad (x.bind K) = R := by
  subst hxy; exact hk

theorem absLoad_bind_ex {α : Type} {x : GM α} {K : α → GM (S_StrMap V × SErr)} {R : Out SMap.LErr (SMap.StrMap V)}
    {P : α → Prop} (hx : ∃ a, x = .ok a ∧ P a) (hk : ∀ a, P a → absLoad (K a) = R) : absLoad (x.bind K) = R := by
  obtain ⟨a, rfl, hp⟩ := hx
  simpa using hk a hp

theorem absLoad_ret (x : GM (S_StrMap V)) : absLoad (x.bind fun t => .ok (t, SErr.nil)) = liftG absMap x := by
  cases x with
  | ok a => simp [absLoad, liftG]
  | panic w => simp [absLoad, liftG]
  | oob => simp [absLoad, liftG]
  | err e => exact nomatch e

theorem items_repItem_slot (l : List (SMap.Item V)) : ∀ e ∈ l.map repItem, 0 ≤ (e : S_mapItem V).slot := by
  intro e he
  simp only [List.mem_map] at he
  obtain ⟨x, _, rfl⟩ := he
  simp [repItem]

/-- the two error returns of `LoadFromSlice` ("kv len not match", "key too large" for the first over-long key, checked
    before anything is reset) are the model's, for EVERY receiver state, hash and sorter. The success path
    (`lfs_loop2` + `makeHashtable_eq`) is not composed yet. -/
theorem LoadFromSlice_err_eq (zV : V) (h : Bytes → Nat) (sorter : List (SMap.Item V) → List (SMap.Item V)) (fuel : Nat)
    (m : S_StrMap V) (kk : List Bytes) (vv : List V) (hb : totalLen kk < 4611686018427387904)
    (herr : kk.length ≠ vv.length ∨ SMap.anyKeyTooLarge kk = true) :
    absLoad (StrMap_LoadFromSlice zV h (liftSorter sorter) fuel m kk vv) =
      outOf (SMap.loadFromSlice h sorter (absMap m) kk vv) := by
  unfold SMap.loadFromSlice
  by_cases hlen : kk.length = vv.length
  · have hlen' : llen kk = llen vv := by unfold llen; omega
    have hbig : SMap.anyKeyTooLarge kk = true := by
      rcases herr with c | c
      · exact absurd hlen c
      · exact c
    simp only [StrMap_LoadFromSlice, hlen', hlen, ne_eq, not_true_eq_false, decide_false, if_false, hbig, if_true,
      Bool.false_eq_true, Out.bind_eq]
    have hl1 := fun L a b c => lfs_loop1 m L a b c kk 0 (by omega) (by omega)
    simp only [hbig, if_true] at hl1
    refine absLoad_bind_congr (hl1 _ ?_ ?_ ?_) ?_
    · intro sz; simp [StrMap_LoadFromSlice_loop1]
    · intro k rest sz hk
      have : llen k > 4294967295 := by unfold llen; unfold SMap.maxU32 at hk; omega
      simp [StrMap_LoadFromSlice_loop1, this]
    · intro k rest sz hk
      have : ¬ llen k > 4294967295 := by unfold llen; unfold SMap.maxU32 at hk; omega
      have ec : llen k + sz = sz + llen k := Int.add_comm _ _
      simp [StrMap_LoadFromSlice_loop1, this, ec]
    · simp [absLoad, errOf, outOf, SMap.LErr.msg]
  · have hlen' : ¬ llen kk = llen vv := by unfold llen; omega
    have hlen'' : ¬ llen vv = llen kk := by unfold llen; omega
    simp [StrMap_LoadFromSlice, hlen, hlen', hlen'', absLoad, errOf, outOf, SMap.LErr.msg]

theorem bind_congr_left {α β : Type} {x y : GM α} {K : α → GM β} {R : GM β} (hxy : x = y) (hk : y.bind K = R) :
    x.bind K = R := by
  subst hxy; exact hk

/-- a failed `LoadFromSlice` returns its error with the receiver exactly as it was -/
theorem LoadFromSlice_err_state (zV : V) (h : Bytes → Nat) (sorter : List (S_mapItem V) → List (S_mapItem V)) (fuel : Nat)
    (m : S_StrMap V) (kk : List Bytes) (vv : List V) (hb : totalLen kk < 4611686018427387904)
    (herr : kk.length ≠ vv.length ∨ SMap.anyKeyTooLarge kk = true) :
    ∃ t, StrMap_LoadFromSlice zV h sorter fuel m kk vv = .ok (m, SErr.new t) := by
  by_cases hlen : kk.length = vv.length
  · have hlen' : llen kk = llen vv := by unfold llen; omega
    have hbig : SMap.anyKeyTooLarge kk = true := by
      rcases herr with c | c
      · exact absurd hlen c
      · exact c
    refine ⟨"key too large", ?_⟩
    simp only [StrMap_LoadFromSlice, hlen', ne_eq, not_true_eq_false, decide_false, if_false,
      Bool.false_eq_true, Out.bind_eq]
    have hl1 := fun L a b c => lfs_loop1 m L a b c kk 0 (by omega) (by omega)
    simp only [hbig, if_true] at hl1
    refine bind_congr_left (hl1 _ ?_ ?_ ?_) ?_
    · intro sz; simp [StrMap_LoadFromSlice_loop1]
    · intro k rest sz hk
      have : llen k > 4294967295 := by unfold llen; unfold SMap.maxU32 at hk; omega
      simp [StrMap_LoadFromSlice_loop1, this]
    · intro k rest sz hk
      have : ¬ llen k > 4294967295 := by unfold llen; unfold SMap.maxU32 at hk; omega
      have ec : llen k + sz = sz + llen k := Int.add_comm _ _
      simp [StrMap_LoadFromSlice_loop1, this, ec]
    · simp
  · have hlen' : ¬ llen kk = llen vv := by unfold llen; omega
    have hlen'' : ¬ llen vv = llen kk := by unfold llen; omega
    exact ⟨"kv len not match", by simp [StrMap_LoadFromSlice, hlen', hlen'']⟩

theorem appendLoop_len (h : Bytes → Nat) : ∀ (l : List (Bytes × V)) (off : Nat),
    (SMap.appendLoop h l off).2.length = l.length := by
  intro l
  induction l with
  | nil => intro off; simp [SMap.appendLoop]
  | cons x r ih => intro off; simp [SMap.appendLoop, ih]

set_option linter.unusedSimpArgs false in
/-- `LoadFromSlice` is the model's `loadFromSlice` — both error returns and the success path — for EVERY receiver state,
    every hash, every sorter, provided the keys are shorter than 2^62 bytes in total and the fuel exceeds the number of
    slots -/
theorem LoadFromSlice_eq (zV : V) (h : Bytes → Nat) (sorter : List (SMap.Item V) → List (SMap.Item V)) (fuel : Nat)
    (m : S_StrMap V) (kk : List Bytes) (vv : List V) (hb : totalLen kk < 4611686018427387904)
    (hf : ∀ p, SMap.calcSlots kk.length = .ok p → p < fuel) :
    absLoad (StrMap_LoadFromSlice zV h (liftSorter sorter) fuel m kk vv) =
      outOf (SMap.loadFromSlice h sorter (absMap m) kk vv) := by
  by_cases herr : kk.length ≠ vv.length ∨ SMap.anyKeyTooLarge kk = true
  · exact LoadFromSlice_err_eq zV h sorter fuel m kk vv hb herr
  · have hlen : kk.length = vv.length := by
      by_cases c : kk.length = vv.length
      · exact c
      · exact absurd (Or.inl c) herr
    have hbig : ¬ SMap.anyKeyTooLarge kk = true := fun c => herr (Or.inr c)
    have hlen' : llen kk = llen vv := by unfold llen; omega
    have hvv : llen vv = ((vv.length : Nat) : Int) := rfl
    have hs1 : ∀ {β : Type} (d : Sl β), sslice d 0 0 = .ok ⟨[], d.mem⟩ := by
      intro β d
      simp only [sslice]
      rw [if_neg (by unfold scap; omega), if_neg (by omega)]
      simp
    have hmk : ∀ {β : Type} (z : β) (n : Nat), smake z 0 (n : Int) = .ok ⟨[], List.replicate n z⟩ := by
      intro β z n
      have : ¬ ((n : Int) < 0) := by omega
      simp [smake, this]
    have hR : outOf (SMap.loadFromSlice h sorter (absMap m) kk vv) =
        outOf (SMap.makeHashtable sorter ⟨(SMap.appendLoop h (kk.zip vv) 0).1, (SMap.appendLoop h (kk.zip vv) 0).2, #[],
          (absMap m).ht ++ (absMap m).spare⟩) := by
      simp [SMap.loadFromSlice, hlen, hbig]
    rw [hR]
    simp only [StrMap_LoadFromSlice, hlen', ne_eq, not_true_eq_false, decide_false, if_false,
      Bool.false_eq_true, Out.bind_eq]
    have hl1 := fun L a b c => lfs_loop1 m L a b c kk 0 (by omega) (by omega)
    simp only [hbig, if_false, Bool.false_eq_true, Int.zero_add] at hl1
    refine absLoad_bind_congr (hl1 _ ?_ ?_ ?_) ?_
    · intro sz; simp [StrMap_LoadFromSlice_loop1]
    · intro k rest sz hk
      have : llen k > 4294967295 := by unfold llen; unfold SMap.maxU32 at hk; omega
      simp [StrMap_LoadFromSlice_loop1, this]
    · intro k rest sz hk
      have : ¬ llen k > 4294967295 := by unfold llen; unfold SMap.maxU32 at hk; omega
      have ec : llen k + sz = sz + llen k := Int.add_comm _ _
      simp [StrMap_LoadFromSlice_loop1, this, ec]
    · -- the three `[:0]` resets, then the two capacity tests: in all four cases data and items are empty
      simp only [Out.bind_ok, hs1, hvv, Out.bind_eq, Out.pure_eq]
      split <;> simp only [hmk, Out.bind_ok, Out.pure_eq] <;> split <;>
      ( simp only [hmk, Out.bind_ok, Out.pure_eq]
        refine absLoad_bind_ex (lfs_loop2 h vv _ ?_ ?_ kk [] vv 0 _ rfl rfl hlen) ?_
        · intro i m; simp [StrMap_LoadFromSlice_loop2]
        · intro k rest i m v hg; simp [StrMap_LoadFromSlice_loop2, hg]
        · intro m' hm'
          obtain ⟨q1, q2, q3⟩ := hm'
          simp only [List.nil_append, List.length_nil] at q1 q2
          have hil : m'.items.arr.length = kk.length := by
            rw [q1, List.length_map, appendLoop_len, List.length_zip, hlen, Nat.min_self]
          have hmh := makeHashtable_eq zV sorter fuel m' (by rw [q1]; exact items_repItem_slot _)
            (by rw [hil]; exact hf)
          have habs : absMap m' = ⟨(SMap.appendLoop h (kk.zip vv) 0).1, (SMap.appendLoop h (kk.zip vv) 0).2, #[],
              (absMap m).ht ++ (absMap m).spare⟩ := by
            simp [absMap, q1, q2, q3, Sl.mem, Function.comp_def]
          rw [← habs, ← hmh]
          exact absLoad_ret _ )

/-! ## internal/strstore: Get, Len -/

def absStore (s : S_StrStore) : SMap.StrStore := ⟨s.buf.arr⟩

theorem StrStore_Len_eq (s : S_StrStore) : StrStore_Len s = .ok ((absStore s).buf.length : Int) := by
  simp [StrStore_Len, absStore, slen]

/-- the entry a (possibly bogus) index points at does not END in the spare capacity of `buf` (Go's slice expression is
    legal up to the capacity and would return stale bytes there; the model checks against the length) -/
def EntryOK (s : S_StrStore) (idx : Int) : Prop :=
  ∀ n, uload32 s.buf idx = .ok n → idx + 4 + n ≤ slen s.buf ∨ scap s.buf < idx + 4 + n

theorem drop4 (l : List UInt8) (i : Nat) (h : i + 4 ≤ l.length) :
    ∃ a c d e r, l.drop i = a :: c :: d :: e :: r := by
  have hl : (l.drop i).length = l.length - i := List.length_drop
  match hd : l.drop i with
  | a :: c :: d :: e :: r => exact ⟨a, c, d, e, r, rfl⟩
  | [] => rw [hd] at hl; simp at hl; omega
  | [_] => rw [hd] at hl; simp at hl; omega
  | [_, _] => rw [hd] at hl; simp at hl; omega
  | [_, _, _] => rw [hd] at hl; simp at hl; omega

/-- `(*StrStore).Get` is the model's `storeGet` — "" outside the buffer, `oob` when the unsafe 4-byte load leaves the
    buffer, the slice panic, the string — for every buffer below 2^62 bytes and every index whose entry is `EntryOK` -/
theorem StrStore_Get_eq (s : S_StrStore) (idx : Int) (hcap : scap s.buf < 4611686018427387904) (hk : EntryOK s idx) :
    liftG id (StrStore_Get s idx) = SMap.storeGet (absStore s) idx := by
  have hlc : slen s.buf ≤ scap s.buf := by unfold slen scap; omega
  unfold SMap.storeGet
  have hbuf : (absStore s).buf = s.buf.arr := rfl
  rw [hbuf]
  by_cases h0 : idx < 0 ∨ idx ≥ (s.buf.arr.length : Int)
  · have h0' : idx < 0 ∨ idx ≥ slen s.buf := h0
    rcases h0' with c | c
    · have c' : ¬ 0 ≤ idx := by omega
      simp [StrStore_Get, h0, c, c', liftG]
    · have c' : ¬ idx < slen s.buf := by omega
      simp [StrStore_Get, h0, c, c', liftG]
  · have hA : ¬ idx < 0 := by omega
    have hB : ¬ idx ≥ slen s.buf := by unfold slen; omega
    have hC : ¬ (idx < 0 ∨ idx ≥ slen s.buf) := by omega
    have hA' : 0 ≤ idx := by omega
    have hB' : idx < slen s.buf := by omega
    simp only [h0, if_false, SMap.u32Size, Facts.strlenSize]
    by_cases h4 : idx.toNat + 4 > s.buf.arr.length
    · have h4' : idx + 4 > slen s.buf := by unfold slen; omega
      have hu : uload32 s.buf idx = .oob := by simp [uload32, hC, h4']
      simp [StrStore_Get, hA, hB, hA', hB', hu, h4, liftG]
    · have h4' : ¬ idx + 4 > slen s.buf := by unfold slen; omega
      obtain ⟨a, c, d, e, r, hd⟩ := drop4 s.buf.arr idx.toNat (by omega)
      have hu : uload32 s.buf idx =
          .ok ((a.toNat + c.toNat * 256 + d.toNat * 65536 + e.toNat * 16777216 : Nat) : Int) := by
        simp [uload32, hC, h4', hd]
      have hrd : SMap.rdle32 (s.buf.arr.drop idx.toNat) = a.toNat + c.toNat * 256 + d.toNat * 65536 + e.toNat * 16777216 := by
        rw [hd]; rfl
      have hkk := hk _ hu
      generalize a.toNat + c.toNat * 256 + d.toNat * 65536 + e.toNat * 16777216 = n at hu hrd hkk
      have hn : n < 4294967296 := by
        have := a.toNat_lt; have := c.toNat_lt; have := d.toNat_lt; have := e.toNat_lt
        rw [← hrd, hd]; simp only [SMap.rdle32]; omega
      have hB2 : ¬ idx ≥ (s.buf.arr.length : Int) := hB
      have h42 : ¬ idx + 4 > (s.buf.arr.length : Int) := h4'
      unfold scap at hcap
      unfold slen scap at hkk
      have w1 : wrap .i64 (idx + 4) = idx + 4 := wrap64 _ (by omega) (by omega)
      have w2 : wrap .i64 (n : Int) = (n : Int) := wrap64 _ (by omega) (by omega)
      have w3 : wrap .i64 (idx + 4 + (n : Int)) = idx + 4 + (n : Int) := wrap64 _ (by omega) (by omega)
      simp only [h4, if_false, hrd]
      rcases hkk with hkk | hkk
      · have c1 : ¬ (idx + 4 + (n : Int) < 0 ∨ idx + 4 + (n : Int) > scap s.buf) := by unfold scap; omega
        have c2 : ¬ (idx + 4 < 0 ∨ idx + 4 > idx + 4 + (n : Int)) := by omega
        have hm : ¬ idx.toNat + 4 + n > s.buf.arr.length := by omega
        have hss : sslice s.buf (idx + 4) (idx + 4 + (n : Int)) =
            .ok ⟨((s.buf.mem).take (idx + 4 + (n : Int)).toNat).drop (idx + 4).toNat, (s.buf.mem).drop (idx + 4 + (n : Int)).toNat⟩ := by
          simp only [sslice, c1, c2, if_false]
        have e1 : (idx + 4 + (n : Int)).toNat = idx.toNat + 4 + n := by omega
        have e2 : (idx + 4).toNat = idx.toNat + 4 := by omega
        have hres : StrStore_Get s idx =
            .ok (((s.buf.mem).take (idx + 4 + (n : Int)).toNat).drop (idx + 4).toNat) := by
          simp [StrStore_Get, hA, hB, hA', hB', hu, w1, w2, w3, hss, strOf]
        rw [hres]
        simp only [liftG, id, hm, if_false]
        congr 1
        have hm' : idx.toNat + 4 + n ≤ s.buf.arr.length := by omega
        rw [e1, e2, Sl.mem, List.take_append_of_le_length hm', List.drop_take]
        congr 1; omega
      · have c1 : (idx + 4 + (n : Int) < 0 ∨ idx + 4 + (n : Int) > scap s.buf) := by unfold scap; omega
        have hm : idx.toNat + 4 + n > s.buf.arr.length := by omega
        have hss : sslice s.buf (idx + 4) (idx + 4 + (n : Int)) = .panic "slice" := by
          simp only [sslice, c1, if_true]
        simp [StrStore_Get, hA, hB, hA', hB', hu, w1, w2, w3, hss, liftG, hm]

/-! ## internal/strstore: Load -/

/-- bytes `Load` packs for these strings -/
def packLen : List Bytes → Nat
  | [] => 0
  | x :: r => 4 + x.length + packLen r

theorem packLoop_len : ∀ (l : List Bytes) (off : Nat), (SMap.packLoop l off).1.length = packLen l := by
  intro l
  induction l with
  | nil => intro off; simp [SMap.packLoop, packLen]
  | cons x r ih =>
    intro off
    simp [SMap.packLoop, packLen, ih, SMap.hdr, SMap.le32, Facts.strlenSize, SMap.u32Size]
    omega

theorem le32_eq (n : Nat) : GoSemSM.le32 (wrap .u32 (llen (α := UInt8) (List.replicate n 0))) = SMap.hdr (n % SMap.two32) := by
  have : (toU 32 (wrap .u32 ((n : Nat) : Int))).toNat = n % 4294967296 := by
    rw [wrapU32]; simp only [toU]; omega
  simp [GoSemSM.le32, llen, SMap.hdr, SMap.le32, Facts.strlenSize, SMap.u32Size, this, SMap.two32]

theorem le32_len (x : Bytes) : GoSemSM.le32 (wrap .u32 (llen x)) = SMap.hdr (x.length % SMap.two32) := by
  have := le32_eq x.length
  simpa [llen] using this

theorem hdr_len (n : Nat) : (SMap.hdr n).length = 4 := by
  simp [SMap.hdr, SMap.le32, Facts.strlenSize, SMap.u32Size]

/-- the unsafe 4-byte store at the end of the packed prefix `P` -/
theorem ustore_at (b : Sl UInt8) (P J : Bytes) (off : Int) (v : Int) (hb : b.arr = P ++ J) (ho : off = (P.length : Int))
    (hJ : 4 ≤ J.length) : ustore32 b off v = .ok { b with arr := P ++ GoSemSM.le32 v ++ J.drop 4 } := by
  subst ho
  have c1 : ¬ (((P.length : Nat) : Int) < 0 ∨ ((P.length : Nat) : Int) ≥ slen b) := by unfold slen; rw [hb]; simp; omega
  have c2 : ¬ (((P.length : Nat) : Int) + 4 > slen b) := by unfold slen; rw [hb]; simp; omega
  simp only [ustore32, c1, c2, if_false, Int.toNat_natCast, hb]
  congr 2
  rw [List.take_left', List.drop_append]
  · simp
  · rfl

/-- `copy(b[lo:hi], x)` right after the packed prefix `P` -/
theorem copy_at (b : Sl UInt8) (P J x : Bytes) (lo hi : Int) (hb : b.arr = P ++ J) (hlo : lo = (P.length : Int))
    (hhi : hi = ((P.length + x.length : Nat) : Int)) (hJ : x.length ≤ J.length) :
    scopyInto b lo hi x = .ok { b with arr := P ++ x ++ J.drop x.length } := by
  subst hlo hhi
  have c1 : ¬ (((P.length + x.length : Nat) : Int) < 0 ∨ ((P.length + x.length : Nat) : Int) > scap b) := by
    unfold scap; rw [hb]; simp; omega
  have c2 : ¬ (((P.length : Nat) : Int) < 0 ∨ ((P.length : Nat) : Int) > ((P.length + x.length : Nat) : Int)) := by omega
  have hmin : min (P.length + x.length - P.length) x.length = x.length := by omega
  simp only [scopyInto, c1, c2, if_false, Int.toNat_natCast, hmin, Sl.mem, hb, List.take_length]
  have e1 : List.take P.length (P ++ J ++ b.spare) = P := by
    rw [List.append_assoc, List.take_left']; rfl
  have e2 : List.drop (P.length + x.length) (P ++ J ++ b.spare) = J.drop x.length ++ b.spare := by
    rw [← List.drop_drop, List.append_assoc, List.drop_left' rfl, List.drop_append_of_le_length hJ]
  rw [e1, e2]
  have hl' : (P ++ (x ++ J.drop x.length)).length = P.length + (x.length + (J.length - x.length)) := by simp
  have ht := List.take_left' (l₁ := P ++ (x ++ J.drop x.length)) (l₂ := b.spare) hl'
  have hd := List.drop_left' (l₁ := P ++ (x ++ J.drop x.length)) (l₂ := b.spare) hl'
  have hlen : (P ++ J).length = P.length + (x.length + (J.length - x.length)) := by simp; omega
  simp only [List.append_assoc] at ht hd ⊢
  rw [hlen, ht, hd]

theorem lget_append (pre rest : List α) (x : α) (l : List α) (i : Int) (hl : l = pre ++ x :: rest)
    (hi : i = (pre.length : Int)) : lget l i = .ok x := by
  subst hi hl
  have : ¬ ((pre.length : Nat) : Int) < 0 := by omega
  simp [lget, this]

/-- first loop of `Load` (length check and total): for ANY function `L` with these steps -/
theorem sl_loop1 (ss : List Bytes) (L : Nat → Int → Int → GM (Int × Int))
    (hge : ∀ f t (i : Int), ¬ i < (ss.length : Int) → L (f + 1) t i = .ok (t, i))
    (hbig : ∀ f t (i : Int) x, lget ss i = .ok x → x.length > SMap.maxU32 → L (f + 1) t i = .panic "string too long")
    (hsmall : ∀ f t (i : Int) x, i < (ss.length : Int) → lget ss i = .ok x → ¬ x.length > SMap.maxU32 →
      L (f + 1) t i = L f (wrap .i64 (t + llen x)) (wrap .i64 (i + 1))) :
    ∀ (fuel : Nat) (rest pre : List Bytes) (t i : Int), ss = pre ++ rest → i = (pre.length : Int) → rest.length < fuel →
      0 ≤ t → t + (totalLen rest : Int) < 4611686018427387904 → ss.length < 4611686018427387904 →
      L fuel t i = if rest.any (fun x => decide (x.length > SMap.maxU32)) then .panic "string too long"
                   else .ok (t + (totalLen rest : Int), (ss.length : Int)) := by
  intro fuel
  induction fuel with
  | zero => intro rest pre t i _ _ hf; omega
  | succ fuel ih =>
    intro rest pre t i hs hi hf h0 hb hn
    cases rest with
    | nil =>
      have : ¬ i < (ss.length : Int) := by rw [hs, hi]; simp
      have e : (ss.length : Int) = i := by rw [hs, hi]; simp
      simp [hge fuel t i this, totalLen, e]
    | cons x rest =>
      have hg := lget_append pre rest x ss i hs hi
      have hlt : i < (ss.length : Int) := by rw [hs, hi]; simp; omega
      simp only [totalLen] at hb
      by_cases hx : x.length > SMap.maxU32
      · simp [hbig fuel t i x hg hx, hx]
      · have w1 : wrap .i64 (t + llen x) = t + (x.length : Int) := by unfold llen; exact wrap64 _ (by omega) (by omega)
        have w2 : wrap .i64 (i + 1) = i + 1 := wrap64 _ (by omega) (by omega)
        rw [hsmall fuel t i x hlt hg hx, w1, w2,
          ih rest (pre ++ [x]) _ _ (by simp [hs]) (by simp [hi]) (by simp at hf; omega) (by omega) (by omega) hn]
        simp only [List.any_cons, hx, decide_false, Bool.false_or, totalLen]
        split <;> simp <;> omega

/-- second loop of `Load` (the packing): for ANY function `L` that records the offset, stores the length, copies the
    string and advances -/
theorem sl_loop2 (ss : List Bytes) (L : Nat → S_StrStore → List Int → Int → Int → GM (S_StrStore × List Int × Int × Int))
    (hge : ∀ f s ix off (i : Int), ¬ i < (ss.length : Int) → L (f + 1) s ix off i = .ok (s, ix, off, i))
    (hlt : ∀ f s ix (off i : Int) x, 0 ≤ i → i < (ss.length : Int) → ss.length < 4611686018427387904 → 0 ≤ off →
      off + 4 + (x.length : Int) < 4611686018427387904 → lget ss i = .ok x →
      L (f + 1) s ix off i =
        (lset ix i off).bind fun ix' =>
          (ustore32 s.buf off (wrap .u32 (llen x))).bind fun b1 =>
            (scopyInto b1 (off + 4) (off + 4 + llen x) x).bind fun b2 =>
              L f ⟨b2⟩ ix' (off + (4 + llen x)) (i + 1)) :
    ∀ (fuel : Nat) (rest pre : List Bytes) (s : S_StrStore) (D : List Int) (P J : Bytes) (i off : Int),
      ss = pre ++ rest → i = (pre.length : Int) → off = (P.length : Int) → s.buf.arr = P ++ J → J.length = packLen rest →
      D.length = pre.length → rest.length < fuel → P.length + packLen rest < 4611686018427387904 →
      ss.length < 4611686018427387904 →
      L fuel s (D ++ List.replicate rest.length 0) off i =
        .ok (⟨{ s.buf with arr := P ++ (SMap.packLoop rest P.length).1 }⟩,
             D ++ (SMap.packLoop rest P.length).2, off + (packLen rest : Int), (ss.length : Int)) := by
  intro fuel
  induction fuel with
  | zero => intro rest pre s D P J i off _ _ _ _ _ _ hf; omega
  | succ fuel ih =>
    intro rest pre s D P J i off hs hi ho hb hJ hD hf hbd hn
    cases rest with
    | nil =>
      have : ¬ i < (ss.length : Int) := by rw [hs, hi]; simp
      have e : (ss.length : Int) = i := by rw [hs, hi]; simp
      have hJ0 : J = [] := by simpa [packLen] using hJ
      rw [hge fuel s _ off i this]
      have hP : s.buf.arr = P := by rw [hb, hJ0]; simp
      have hsP : s = ⟨{ s.buf with arr := P }⟩ := by
        cases s with
        | mk buf => cases buf with
          | mk a sp => simp at hP; simp [hP]
      simp [SMap.packLoop, packLen, e]
      exact hsP
    | cons x rest =>
      have hg := lget_append pre rest x ss i hs hi
      have hlti : i < (ss.length : Int) := by rw [hs, hi]; simp; omega
      simp only [packLen] at hbd hJ
      rw [hlt fuel s _ off i x (by omega) hlti hn (by omega) (by omega) hg]
      -- idxes[i] = offset
      have hset : lset (D ++ List.replicate (x :: rest).length (0 : Int)) i off = .ok ((D ++ [off]) ++ List.replicate rest.length 0) := by
        have c : ¬ (i < 0 ∨ i ≥ llen (D ++ List.replicate (x :: rest).length (0 : Int))) := by
          unfold llen; simp; omega
        have hit : i.toNat = D.length := by omega
        have c' : 0 ≤ i ∧ i < llen (D ++ 0 :: List.replicate rest.length (0 : Int)) := by
          unfold llen; simp; omega
        simp [lset, hit, List.replicate_succ, c']
      -- the length, then the bytes
      have hst := ustore_at s.buf P J off (wrap .u32 (llen x)) hb ho (by omega)
      have hcp := copy_at { s.buf with arr := P ++ GoSemSM.le32 (wrap .u32 (llen x)) ++ J.drop 4 }
        (P ++ GoSemSM.le32 (wrap .u32 (llen x))) (J.drop 4) x (off + 4) (off + 4 + llen x) (by simp)
        (by rw [le32_len]; simp [hdr_len]; omega) (by rw [le32_len]; simp [hdr_len, llen]; omega) (by simp; omega)
      simp only [hset, hst, hcp, Out.bind_ok]
      have hoff : off + (4 + llen x) = (((P ++ GoSemSM.le32 (wrap .u32 (llen x)) ++ x).length : Nat) : Int) := by
        rw [le32_len]; simp [hdr_len, llen]; omega
      rw [hoff, ih rest (pre ++ [x]) _ (D ++ [off]) (P ++ GoSemSM.le32 (wrap .u32 (llen x)) ++ x) ((J.drop 4).drop x.length)
        (i + 1) _ (by simp [hs]) (by simp [hi]) rfl (by simp) (by simp; omega) (by simp [hD]) (by simp at hf; omega)
        (by rw [le32_len]; simp [hdr_len]; omega) hn]
      have hpl : (P ++ GoSemSM.le32 (wrap .u32 (llen x)) ++ x).length = P.length + Facts.strlenSize + x.length := by
        rw [le32_len]; simp [hdr_len, Facts.strlenSize]; omega
      simp only [SMap.packLoop, le32_len, ho]
      simp [packLen, hdr_len]
      have e4 : P.length + (4 + x.length) = P.length + Facts.strlenSize + x.length := by simp [Facts.strlenSize]; omega
      rw [e4]
      exact ⟨rfl, rfl, by omega⟩

theorem lget_lt {l : List α} {i : Int} {x : α} (h : lget l i = .ok x) : 0 ≤ i ∧ i < (l.length : Int) := by
  unfold lget at h
  by_cases hi : i < 0
  · simp [hi] at h
  · simp only [hi, if_false] at h
    cases hg : l[i.toNat]? with
    | none => simp [hg] at h
    | some y =>
      have := (List.getElem?_eq_some_iff.mp hg).1
      omega

theorem packLen_eq : ∀ l : List Bytes, packLen l = 4 * l.length + totalLen l := by
  intro l
  induction l with
  | nil => rfl
  | cons x r ih => simp [packLen, totalLen, ih]; omega

theorem abs_bind_congr {α β γ : Type} {A : GM β → γ} {x y : GM α} {K : α → GM β} {R : γ}
    (hxy : x = y) (hk : A (y.bind K) = R) : A (x.bind K) = R := by
  subst hxy; exact hk

/-- outcome of `Load`: the indexes and the store afterwards -/
def absLd : GM (S_StrStore × List Int × SErr) → Out SMap.LErr (List Int × SMap.StrStore)
  | .ok (s, ix, .nil) => .ok (ix, absStore s)
  | .ok (_, _, .new t) => .panic t
  | .panic w => .panic w
  | .oob => .oob
  | .err e => nomatch e

def ldOut (r : Out SMap.LErr (List Int) × SMap.StrStore) : Out SMap.LErr (List Int × SMap.StrStore) :=
  match r.1 with
  | .ok ix => .ok (ix, r.2)
  | .panic w => .panic w
  | .err e => .err e
  | .oob => .oob

set_option linter.unusedSimpArgs false in
/-- `(*StrStore).Load` is the model's `storeLoad` — the "string too long" panic, the indexes, the packed buffer whatever
    the previous buffer held — for every store, provided the packed size is below 2^62 and the fuel exceeds the number of
    strings -/
theorem StrStore_Load_eq (fuel : Nat) (s : S_StrStore) (ss : List Bytes) (hb : packLen ss < 4611686018427387904)
    (hf : ss.length < fuel) : absLd (StrStore_Load fuel s ss) = ldOut (SMap.storeLoad (absStore s) ss) := by
  have hpe := packLen_eq ss
  have hn : ss.length < 4611686018427387904 := by omega
  have hll : llen ss = ((ss.length : Nat) : Int) := rfl
  have wt : wrap .i64 (4 * ((ss.length : Nat) : Int)) = ((4 * ss.length : Nat) : Int) := by
    rw [wrap64 _ (by omega) (by omega)]; simp
  have hl1 := fun L a b c => sl_loop1 ss L a b c fuel ss [] ((4 * ss.length : Nat) : Int) 0 (by simp) (by simp) hf
    (by omega) (by omega) hn
  have hmk0 : lmake (0 : Int) ((ss.length : Nat) : Int) ((ss.length : Nat) : Int) = .ok (List.replicate ss.length 0) := by
    have : ¬ (((ss.length : Nat) : Int) < 0) := by omega
    simp [lmake, this]
  have wt' : wrap .i64 (((ss.length : Nat) : Int) * 4) = ((4 * ss.length : Nat) : Int) := by
    rw [Int.mul_comm]; exact wt
  unfold SMap.storeLoad
  simp only [StrStore_Load, hll, wt, wt', Out.bind_eq]
  refine abs_bind_congr (hl1 _ ?_ ?_ ?_) ?_
  · intro f t i hc
    simp [StrStore_Load_loop1, hc]
  · intro f t i x hg hx
    have hlt := (lget_lt hg).2
    have : llen x > 4294967295 := by unfold llen; unfold SMap.maxU32 at hx; omega
    simp [StrStore_Load_loop1, hlt, hg, this]
  · intro f t i x hlt hg hx
    have : ¬ llen x > 4294967295 := by unfold llen; unfold SMap.maxU32 at hx; omega
    have ec : llen x + t = t + llen x := Int.add_comm _ _
    have ec1 : 1 + i = i + 1 := Int.add_comm _ _
    simp [StrStore_Load_loop1, hlt, hg, this, ec, ec1]
  · by_cases hany : (ss.any fun x => decide (x.length > SMap.maxU32)) = true
    · simp [hany, absLd, ldOut]
    · have hT : ((4 * ss.length : Nat) : Int) + ((totalLen ss : Nat) : Int) = ((packLen ss : Nat) : Int) := by omega
      simp only [hany, if_false, Bool.false_eq_true, Out.bind_ok, hmk0, hT]
      have hl2 := fun L a b bufA J hbuf hJ => sl_loop2 ss L a b fuel ss [] ⟨bufA⟩ [] [] J 0 0 (by simp) (by simp) (by simp)
        hbuf hJ (by simp) hf (by simpa using hb) hn
      simp only [List.nil_append, List.length_nil] at hl2
      by_cases hc : scap s.buf < ((packLen ss : Nat) : Int)
      · -- a fresh buffer
        have hc2 : ¬ ((packLen ss : Nat) : Int) ≤ scap s.buf := by omega
        have hmk : smake (0 : UInt8) ((packLen ss : Nat) : Int) ((packLen ss : Nat) : Int) =
            .ok ⟨List.replicate (packLen ss) 0, []⟩ := by
          have : ¬ (((packLen ss : Nat) : Int) < 0) := by omega
          simp [smake, this]
        simp only [hc, hc2, ge_iff_le, gt_iff_lt, decide_true, decide_false, if_true, if_false, Bool.false_eq_true]
        simp only [hmk, Out.bind_ok, Out.pure_eq]
        refine abs_bind_congr (hl2 _ ?_ ?_ _ (List.replicate (packLen ss) 0) rfl (by simp)) ?_
        · intro f s ix off i hc
          simp [StrStore_Load_loop2, hc]
        · intro f s ix off i x h0 hlt hnn ho hbb hg
          have w1 : wrap .i64 (off + 4) = off + 4 := wrap64 _ (by omega) (by omega)
          have w2 : wrap .i64 (off + 4 + llen x) = off + 4 + llen x := by unfold llen; exact wrap64 _ (by omega) (by omega)
          have w3 : wrap .i64 (4 + llen x) = 4 + llen x := by unfold llen; exact wrap64 _ (by omega) (by omega)
          have w4 : wrap .i64 (off + (4 + llen x)) = off + (4 + llen x) := by unfold llen; exact wrap64 _ (by omega) (by omega)
          have w5 : wrap .i64 (i + 1) = i + 1 := wrap64 _ (by omega) (by omega)
          have ec1 : 4 + off = off + 4 := Int.add_comm _ _
          have ec2 : llen x + 4 = 4 + llen x := Int.add_comm _ _
          have ec3 : llen x + (off + 4) = off + 4 + llen x := Int.add_comm _ _
          have ec4 : 4 + llen x + off = off + (4 + llen x) := Int.add_comm _ _
          have ec5 : 1 + i = i + 1 := Int.add_comm _ _
          simp only [StrStore_Load_loop2, hlt, decide_true, if_true, hg, Out.bind_eq, Out.bind_ok, ec1, ec2, ec3, ec4, ec5,
            w1, w2, w3, w4, w5]
        · simp [absLd, ldOut, absStore, hany]
      · -- the old buffer re-sliced
        have hc' : ¬ scap s.buf < ((packLen ss : Nat) : Int) := hc
        have hc2 : ((packLen ss : Nat) : Int) ≤ scap s.buf := by omega
        simp only [hc, hc2, ge_iff_le, gt_iff_lt, decide_true, decide_false, if_true, if_false, Bool.false_eq_true]
        have c1 : ¬ (((packLen ss : Nat) : Int) < 0 ∨ ((packLen ss : Nat) : Int) > scap s.buf) := by omega
        have c2 : ¬ ((0 : Int) < 0 ∨ (0 : Int) > ((packLen ss : Nat) : Int)) := by omega
        have hsl : sslice s.buf 0 ((packLen ss : Nat) : Int) =
            .ok ⟨s.buf.mem.take (packLen ss), s.buf.mem.drop (packLen ss)⟩ := by
          simp [sslice, c1, c2]
        have hlen : (s.buf.mem.take (packLen ss)).length = packLen ss := by
          unfold scap at hc'
          simp [Sl.mem]; omega
        simp only [hsl, Out.bind_ok, Out.pure_eq]
        refine abs_bind_congr (hl2 _ ?_ ?_ _ (s.buf.mem.take (packLen ss)) rfl hlen) ?_
        · intro f s ix off i hc
          simp [StrStore_Load_loop2, hc]
        · intro f s ix off i x h0 hlt hnn ho hbb hg
          have w1 : wrap .i64 (off + 4) = off + 4 := wrap64 _ (by omega) (by omega)
          have w2 : wrap .i64 (off + 4 + llen x) = off + 4 + llen x := by unfold llen; exact wrap64 _ (by omega) (by omega)
          have w3 : wrap .i64 (4 + llen x) = 4 + llen x := by unfold llen; exact wrap64 _ (by omega) (by omega)
          have w4 : wrap .i64 (off + (4 + llen x)) = off + (4 + llen x) := by unfold llen; exact wrap64 _ (by omega) (by omega)
          have w5 : wrap .i64 (i + 1) = i + 1 := wrap64 _ (by omega) (by omega)
          have ec1 : 4 + off = off + 4 := Int.add_comm _ _
          have ec2 : llen x + 4 = 4 + llen x := Int.add_comm _ _
          have ec3 : llen x + (off + 4) = off + 4 + llen x := Int.add_comm _ _
          have ec4 : 4 + llen x + off = off + (4 + llen x) := Int.add_comm _ _
          have ec5 : 1 + i = i + 1 := Int.add_comm _ _
          simp only [StrStore_Load_loop2, hlt, decide_true, if_true, hg, Out.bind_eq, Out.bind_ok, ec1, ec2, ec3, ec4, ec5,
            w1, w2, w3, w4, w5]
        · simp [absLd, ldOut, absStore, hany]

/-! ## Str2Str: Len, Get -/

def absS2S (sm : S_Str2Str) : SMap.Str2Str := ⟨sm.strMap.map absMap, sm.strStore.map absStore⟩

theorem Str2Str_Len_eq (sm : S_Str2Str) : liftG Int.toNat (Str2Str_Len sm) = SMap.s2sLen (absS2S sm) := by
  cases hm : sm.strMap with
  | none => simp [Str2Str_Len, SMap.s2sLen, absS2S, hm, derefP, liftG]
  | some m => simp [Str2Str_Len, SMap.s2sLen, absS2S, hm, derefP, liftG, Len_eq]

/-- Go's `(string, ok)` as the model's `Option` -/
def optOfB (r : Bytes × Bool) : Option Bytes := if r.2 then some r.1 else none

/-- `(*Str2Str).Get` is the model's `s2sGet` (nil components panic "nil"), given the invariants of its parts -/
theorem Str2Str_Get_eq (h : Bytes → Nat) (fuel : Nat) (sm : S_Str2Str) (k : Bytes)
    (hM : ∀ m, sm.strMap = some m → Inv m ∧ m.items.arr.length < fuel)
    (hS : ∀ st, sm.strStore = some st → scap st.buf < 4611686018427387904 ∧ ∀ idx, EntryOK st idx) :
    liftG optOfB (Str2Str_Get h fuel sm k) = SMap.s2sGet h (absS2S sm) k := by
  cases hm : sm.strMap with
  | none => simp [Str2Str_Get, SMap.s2sGet, absS2S, hm, derefP, liftG]
  | some m =>
    obtain ⟨hI, hf⟩ := hM m hm
    have hg := Get_eq (0 : Int) h fuel m hI hf k
    have hsm : (absS2S sm).strMap = some (absMap m) := by simp [absS2S, hm]
    simp only [SMap.s2sGet, hsm, ← hg]
    cases hr : StrMap_Get (0 : Int) h fuel m k with
    | ok r =>
      obtain ⟨v, b⟩ := r
      cases b with
      | false => simp [Str2Str_Get, hm, derefP, hr, liftG, optOf, optOfB]
      | true =>
        cases hs : sm.strStore with
        | none => simp [Str2Str_Get, hm, derefP, hr, liftG, optOf, absS2S, hs]
        | some st =>
          obtain ⟨hc, he⟩ := hS st hs
          have hsg := StrStore_Get_eq st v hc (he v)
          have hss : (absS2S sm).strStore = some (absStore st) := by simp [absS2S, hs]
          simp only [liftG, optOf, if_true, hss, ← hsg]
          cases hq : StrStore_Get st v with
          | ok x => simp [Str2Str_Get, hm, derefP, hr, hs, hq, liftG, optOfB]
          | panic w => simp [Str2Str_Get, hm, derefP, hr, hs, hq, liftG]
          | oob => simp [Str2Str_Get, hm, derefP, hr, hs, hq, liftG]
          | err x => exact nomatch x
    | panic w => simp [Str2Str_Get, hm, derefP, hr, liftG]
    | oob => simp [Str2Str_Get, hm, derefP, hr, liftG]
    | err x => exact nomatch x

/-! ## Str2Str: LoadFromSlice -/

/-- outcome of `Str2Str.LoadFromSlice`: the loaded object, or the model's error for the returned Go error -/
def absS2SLoad : GM (S_Str2Str × SErr) → Out SMap.LErr SMap.Str2Str
  | .ok (sm, .nil) => .ok (absS2S sm)
  | .ok (_, .new t) => errOf (.new t)
  | .panic w => .panic w
  | .oob => .oob
  | .err e => nomatch e

theorem ldOut_ok {R : Out SMap.LErr (List Int) × SMap.StrStore} {ix s} (h : ldOut R = .ok (ix, s)) :
    R.1 = .ok ix ∧ R.2 = s := by
  obtain ⟨a, b⟩ := R
  cases a <;> simp [ldOut] at h ⊢
  exact h
theorem ldOut_panic {R : Out SMap.LErr (List Int) × SMap.StrStore} {w} (h : ldOut R = .panic w) : R.1 = .panic w := by
  obtain ⟨a, b⟩ := R
  cases a <;> simp [ldOut] at h ⊢
  exact h
theorem ldOut_oob {R : Out SMap.LErr (List Int) × SMap.StrStore} (h : ldOut R = .oob) : R.1 = .oob := by
  obtain ⟨a, b⟩ := R
  cases a <;> simp [ldOut] at h ⊢

theorem outOf_ok {σ : Type} {R : Out SMap.LErr Unit × σ} {s} (h : outOf R = .ok s) : R.1 = .ok () ∧ R.2 = s := by
  obtain ⟨a, b⟩ := R
  cases a <;> simp [outOf] at h ⊢
  exact h
theorem outOf_panic {σ : Type} {R : Out SMap.LErr Unit × σ} {w} (h : outOf R = .panic w) : R.1 = .panic w := by
  obtain ⟨a, b⟩ := R
  cases a <;> simp [outOf] at h ⊢
  exact h
theorem outOf_oob {σ : Type} {R : Out SMap.LErr Unit × σ} (h : outOf R = .oob) : R.1 = .oob := by
  obtain ⟨a, b⟩ := R
  cases a <;> simp [outOf] at h ⊢

/-- the outcome of a model call does not depend on the state paired with it, except in the normal return -/
theorem errOf_transfer {σ1 σ2 : Type} (t : String) (a : Out SMap.LErr Unit) (s1 : σ1) (s2 : σ2)
    (h : (errOf (.new t) : Out SMap.LErr σ1) = outOf (a, s1)) : outOf (a, s2) = (errOf (.new t) : Out SMap.LErr σ2) := by
  unfold errOf at h ⊢
  simp only at h ⊢
  by_cases h1 : t = SMap.LErr.kvLen.msg
  · simp only [h1, if_true] at h ⊢
    cases a <;> simp_all [outOf]
  · by_cases h2 : t = SMap.LErr.keyTooLarge.msg
    · simp only [h1, h2, if_true, if_false] at h ⊢
      cases a <;> simp_all [outOf]
    · simp only [h1, h2, if_false] at h ⊢
      cases a <;> simp_all [outOf]

theorem storeLoad_panic (st : SMap.StrStore) (ss : List Bytes) (t : String)
    (h : (SMap.storeLoad st ss).1 = .panic t) : t = "string too long" := by
  unfold SMap.storeLoad at h
  split at h <;> simp at h
  exact h.symm

/-- the key-size loop of `Str2Str.LoadFromSlice`: for ANY function `L` with these steps -/
theorem s2s_loop1 (sm : S_Str2Str) (L : List Bytes → GM (LoopR (S_Str2Str × SErr) Unit))
    (hnil : L [] = .ok (.done ()))
    (hbig : ∀ k rest, k.length > SMap.maxU32 → L (k :: rest) = .ok (.ret (sm, SErr.new "key too large")))
    (hsmall : ∀ k rest, ¬ k.length > SMap.maxU32 → L (k :: rest) = L rest) :
    ∀ kk, L kk = if SMap.anyKeyTooLarge kk then .ok (.ret (sm, SErr.new "key too large")) else .ok (.done ()) := by
  intro kk
  induction kk with
  | nil => simp [hnil, SMap.anyKeyTooLarge]
  | cons k rest ih =>
    by_cases hk : k.length > SMap.maxU32
    · simp [hbig k rest hk, SMap.anyKeyTooLarge, hk]
    · have : SMap.anyKeyTooLarge (k :: rest) = SMap.anyKeyTooLarge rest := by simp [SMap.anyKeyTooLarge, hk]
      rw [hsmall k rest hk, ih, this]

set_option linter.unusedSimpArgs false in
/-- `(*Str2Str).LoadFromSlice` is the model's `s2sLoad` — both error returns, nil components replaced by fresh ones,
    the "string too long" panic of the store, the store loaded before the map — for EVERY receiver state -/
theorem Str2Str_LoadFromSlice_eq (h : Bytes → Nat) (sorter : List (SMap.Item Int) → List (SMap.Item Int)) (fuel : Nat)
    (sm : S_Str2Str) (kk vv : List Bytes) (hb1 : totalLen kk < 4611686018427387904)
    (hb2 : packLen vv < 4611686018427387904) (hf1 : vv.length < fuel)
    (hf2 : ∀ p, SMap.calcSlots kk.length = .ok p → p < fuel) :
    absS2SLoad (Str2Str_LoadFromSlice h (liftSorter sorter) fuel sm kk vv) =
      outOf (SMap.s2sLoad h sorter (absS2S sm) kk vv) := by
  by_cases hne : kk.length ≠ vv.length
  · have hlen' : ¬ llen kk = llen vv := by unfold llen; omega
    have hlen'' : ¬ llen vv = llen kk := by unfold llen; omega
    simp [Str2Str_LoadFromSlice, SMap.s2sLoad, hne, hlen', hlen'', absS2SLoad, errOf, outOf, SMap.LErr.msg]
  have hlen : kk.length = vv.length := by omega
  have hlen' : llen kk = llen vv := by unfold llen; omega
  have hl1 := fun L a b c => s2s_loop1 sm L a b c kk
  simp only [Str2Str_LoadFromSlice, hlen', ne_eq, not_true_eq_false, decide_false, if_false, Bool.false_eq_true,
    Out.bind_eq]
  refine abs_bind_congr (hl1 _ ?_ ?_ ?_) ?_
  · simp [Str2Str_LoadFromSlice_loop1]
  · intro k rest hk
    have : llen k > 4294967295 := by unfold llen; unfold SMap.maxU32 at hk; omega
    simp [Str2Str_LoadFromSlice_loop1, this]
  · intro k rest hk
    have : ¬ llen k > 4294967295 := by unfold llen; unfold SMap.maxU32 at hk; omega
    simp [Str2Str_LoadFromSlice_loop1, this]
  by_cases hbig : SMap.anyKeyTooLarge kk = true
  · simp [SMap.s2sLoad, hlen, hbig, absS2SLoad, errOf, outOf, SMap.LErr.msg]
  -- the store and the map that get loaded (fresh ones for nil components)
  obtain ⟨st, hstA, hst⟩ : ∃ st : S_StrStore, absStore st = SMap.storeOrNew (absS2S sm).strStore ∧
      (sm.strStore = some st ∨ (sm.strStore = none ∧ st = ⟨Sl.nil⟩)) := by
    cases hs : sm.strStore with
    | none => exact ⟨⟨Sl.nil⟩, by simp [absS2S, hs, SMap.storeOrNew, absStore, SMap.StrStore.init, Sl.nil], Or.inr ⟨rfl, rfl⟩⟩
    | some st => exact ⟨st, by simp [absS2S, hs, SMap.storeOrNew], Or.inl rfl⟩
  obtain ⟨mp, hmpA, hmp⟩ : ∃ mp : S_StrMap Int, absMap mp = SMap.mapOrNew (absS2S sm).strMap ∧
      (sm.strMap = some mp ∨ (sm.strMap = none ∧ mp = ⟨Sl.nil, Sl.nil, Sl.nil⟩)) := by
    cases hm : sm.strMap with
    | none => exact ⟨⟨Sl.nil, Sl.nil, Sl.nil⟩, by simp [absS2S, hm, SMap.mapOrNew, absMap, SMap.StrMap.init, Sl.nil], Or.inr ⟨rfl, rfl⟩⟩
    | some mp => exact ⟨mp, by simp [absS2S, hm, SMap.mapOrNew], Or.inl rfl⟩
  have hL := StrStore_Load_eq fuel st vv hb2 hf1
  rw [hstA] at hL
  have hixlen : ∀ ix, (SMap.storeLoad (SMap.storeOrNew (absS2S sm).strStore) vv).1 = .ok ix → ix.length = vv.length := by
    intro ix hR1
    have : ix = (SMap.packLoop vv 0).2 := by
      unfold SMap.storeLoad at hR1
      split at hR1 <;> simp at hR1
      exact hR1.symm
    have hpl : ∀ (l : List Bytes) (off : Nat), (SMap.packLoop l off).2.length = l.length := by
      intro l
      induction l with
      | nil => intro off; simp [SMap.packLoop]
      | cons x r ih => intro off; simp [SMap.packLoop, ih]
    rw [this, hpl]
  have hpanic := storeLoad_panic (SMap.storeOrNew (absS2S sm).strStore) vv
  have hF := fun ix => LoadFromSlice_eq (0 : Int) h sorter fuel mp kk ix hb1 hf2
  rw [hmpA] at hF
  -- the model side, with its sub-computations as atoms
  unfold SMap.s2sLoad
  simp only [hlen, ne_eq, not_true_eq_false, if_false, hbig, Bool.false_eq_true]
  generalize SMap.storeLoad (SMap.storeOrNew (absS2S sm).strStore) vv = R at hL hixlen hpanic ⊢
  generalize SMap.mapOrNew (absS2S sm).strMap = MP at hF ⊢
  generalize (absS2S sm).strMap = SMm
  -- outcome of the store's Load
  cases hr : StrStore_Load fuel st vv with
  | err x => exact nomatch x
  | panic w =>
    rw [hr] at hL
    have hR := ldOut_panic hL.symm
    rcases hst with hs | ⟨hs, rfl⟩ <;> simp [hs, derefP, hr, absS2SLoad, hR, outOf]
  | oob =>
    rw [hr] at hL
    have hR := ldOut_oob hL.symm
    rcases hst with hs | ⟨hs, rfl⟩ <;> simp [hs, derefP, hr, absS2SLoad, hR, outOf]
  | ok r4 =>
    obtain ⟨s', ix, e⟩ := r4
    rw [hr] at hL
    cases e with
    | new t =>
      have hR := ldOut_panic (w := t) (by simpa [absLd] using hL.symm)
      have ht := hpanic _ hR
      subst ht
      rcases hst with hs | ⟨hs, rfl⟩ <;>
        simp [hs, derefP, hr, absS2SLoad, hR, outOf, errOf, SMap.LErr.msg]
    | nil =>
      obtain ⟨hR1, hR2⟩ := ldOut_ok (ix := ix) (s := absStore s') (by simpa [absLd] using hL.symm)
      have hF' := hF ix
      simp only [hR1, hR2]
      generalize SMap.loadFromSlice h sorter MP kk ix = X at hF' ⊢
      -- outcome of the map's LoadFromSlice
      cases hr7 : StrMap_LoadFromSlice (0 : Int) h (liftSorter sorter) fuel mp kk ix with
      | err x => exact nomatch x
      | panic w =>
        rw [hr7] at hF'
        have hP := outOf_panic (w := w) (by simpa [absLoad] using hF'.symm)
        rcases hst with hs | ⟨hs, rfl⟩ <;> rcases hmp with hm | ⟨hm, rfl⟩ <;>
          simp [hs, hm, derefP, hr, hr7, absS2SLoad, outOf, hP]
      | oob =>
        rw [hr7] at hF'
        have hP := outOf_oob (by simpa [absLoad] using hF'.symm)
        rcases hst with hs | ⟨hs, rfl⟩ <;> rcases hmp with hm | ⟨hm, rfl⟩ <;>
          simp [hs, hm, derefP, hr, hr7, absS2SLoad, outOf, hP]
      | ok r7 =>
        obtain ⟨m', e7⟩ := r7
        rw [hr7] at hF'
        cases e7 with
        | nil =>
          obtain ⟨hP1, hP2⟩ := outOf_ok (s := absMap m') (by simpa [absLoad] using hF'.symm)
          rcases hst with hs | ⟨hs, rfl⟩ <;> rcases hmp with hm | ⟨hm, rfl⟩ <;>
            simp [hs, hm, derefP, hr, hr7, absS2SLoad, outOf, hP1, hP2, absS2S]
        | new t =>
          have hT := errOf_transfer t X.1 X.2 (⟨some X.2, some (absStore s')⟩ : SMap.Str2Str)
            (by have := hF'; simp only [absLoad] at this; exact this)
          rcases hst with hs | ⟨hs, rfl⟩ <;> rcases hmp with hm | ⟨hm, rfl⟩ <;>
            simp [hs, hm, derefP, hr, hr7, absS2SLoad, hT]

/-! ## closed examples: the GENERATED LoadFromSlice / Get / Item / Len run on a map all of whose keys collide -/

/-- a structurally recursive slot sorter (insertion sort) for kernel evaluation -/
def insBySlot (x : S_mapItem Nat) : List (S_mapItem Nat) → List (S_mapItem Nat)
  | [] => [x]
  | y :: r => if x.slot ≤ y.slot then x :: y :: r else y :: insBySlot x r
def isortBySlot : List (S_mapItem Nat) → List (S_mapItem Nat)
  | [] => []
  | x :: r => insBySlot x (isortBySlot r)

def exKeys : List Bytes := [[97], [98, 99], [], [100, 101, 102]]
def exVals : List Nat := [10, 20, 30, 40]
/-- every key hashes to 5: one chain -/
def exHash : Bytes → Nat := fun _ => 5
/-- two chains: the hash is the key's length mod 2 -/
def exHash2 : Bytes → Nat := fun k => k.length % 2
def exEmpty : S_StrMap Nat := ⟨Sl.nil, Sl.nil, Sl.nil⟩

def exLoad (h : Bytes → Nat) : GM (S_StrMap Nat) :=
  (StrMap_LoadFromSlice 0 h isortBySlot 64 exEmpty exKeys exVals).bind fun r =>
    if r.2 = SErr.nil then .ok r.1 else .panic "load failed"

def exGet (h : Bytes → Nat) (k : Bytes) : GM (Nat × Bool) := (exLoad h).bind fun m => StrMap_Get 0 h 64 m k

example : exGet exHash [97] = .ok (10, true) := by decide +kernel
example : exGet exHash [98, 99] = .ok (20, true) := by decide +kernel
example : exGet exHash [] = .ok (30, true) := by decide +kernel
example : exGet exHash [100, 101, 102] = .ok (40, true) := by decide +kernel
example : exGet exHash [98] = .ok (0, false) := by decide +kernel
example : exGet exHash2 [100, 101, 102] = .ok (40, true) := by decide +kernel
example : exGet exHash2 [98, 99] = .ok (20, true) := by decide +kernel
example : exGet exHash2 [99] = .ok (0, false) := by decide +kernel
example : ((exLoad exHash).bind fun m => StrMap_Len 0 m) = .ok 4 := by decide +kernel
example : ((exLoad exHash).bind fun m => StrMap_Item 0 m 1) = .ok ([98, 99], 20) := by decide +kernel
example : ((exLoad exHash).bind fun m => StrMap_Item 0 m 4) = .panic "index" := by decide +kernel
example : ((exLoad exHash).bind fun m => pure (slen m.hashtable)) = .ok 17 := by decide +kernel
/-- a never-loaded map answers "not found" (the `len(hashtable) == 0` guard) -/
example : StrMap_Get 0 exHash 64 exEmpty [97] = .ok (0, false) := by decide +kernel
/-- mismatched lengths: the error, the map untouched -/
example : ((StrMap_LoadFromSlice 0 exHash isortBySlot 64 exEmpty exKeys [1]).bind fun r => pure r.2)
    = .ok (SErr.new "kv len not match") := by decide +kernel

/-! ### the GENERATED Str2Str (store + map) on the zero value, with colliding keys -/

def insBySlotI (x : S_mapItem Int) : List (S_mapItem Int) → List (S_mapItem Int)
  | [] => [x]
  | y :: r => if x.slot ≤ y.slot then x :: y :: r else y :: insBySlotI x r
def isortBySlotI : List (S_mapItem Int) → List (S_mapItem Int)
  | [] => []
  | x :: r => insBySlotI x (isortBySlotI r)

def exVals2 : List Bytes := [[1, 2, 3], [], [9], [7, 7]]
/-- the zero value `Str2Str{}`: both components nil -/
def exZero : S_Str2Str := ⟨none, none⟩

def exLoad2 : GM S_Str2Str :=
  (Str2Str_LoadFromSlice exHash isortBySlotI 64 exZero exKeys exVals2).bind fun r =>
    if r.2 = SErr.nil then .ok r.1 else .panic "load failed"

example : (exLoad2.bind fun sm => Str2Str_Get exHash 64 sm [98, 99]) = .ok ([], true) := by decide +kernel
example : (exLoad2.bind fun sm => Str2Str_Get exHash 64 sm [100, 101, 102]) = .ok ([7, 7], true) := by decide +kernel
example : (exLoad2.bind fun sm => Str2Str_Get exHash 64 sm [97]) = .ok ([1, 2, 3], true) := by decide +kernel
example : (exLoad2.bind fun sm => Str2Str_Get exHash 64 sm [5]) = .ok ([], false) := by decide +kernel
example : (exLoad2.bind fun sm => Str2Str_Len sm) = .ok 4 := by decide +kernel
/-- `Get` on the zero value panics (nil strMap) -/
example : Str2Str_Get exHash 64 exZero [97] = .panic "nil" := by decide +kernel
/-- the store: indexes 0, 7, 11, 16 and an unsafe load at the last byte is `oob` -/
example : ((StrStore_Load 64 ⟨Sl.nil⟩ exVals2).bind fun r => pure r.2.1) = .ok [0, 7, 11, 16] := by decide +kernel
example : ((StrStore_Load 64 ⟨Sl.nil⟩ exVals2).bind fun r => StrStore_Get r.1 21) = .oob := by decide +kernel
example : ((StrStore_Load 64 ⟨Sl.nil⟩ exVals2).bind fun r => StrStore_Get r.1 16) = .ok [7, 7] := by decide +kernel
example : ((StrStore_Load 64 ⟨Sl.nil⟩ exVals2).bind fun r => StrStore_Get r.1 22) = .ok [] := by decide +kernel

end Verif.StrMapEq

/-
  Lemmas/Funcs/Skip: `BinaryProtocol.Skip` / `skipType` (self-recursive, three `for` loops) / `skipstr` / `p2i32`
  TRANSLATED from protocol/thrift/binary.go and utils.go (`Verif.Funcs.Binary_Skip`, `thrift_skipType[_loop1/2/3]`,
  `thrift_skipstr`, `thrift_p2i32`, `tbl_typeToSize`: generated) are the hand-written model `skipBin` (Model/Skip.lean).

    Binary_Skip_eq : b.length < 2^62 → b.length + 70 ≤ fuel →
        liftSkip (Funcs.Binary_Skip fuel b (toI8 t.toNat)) = skipBin b t

  Outcomes are compared in full: result length, error value (`absErr`), Go panics and out-of-bounds pointer loads
  (`oob`) are carried over unchanged.  Structure:
    1. primitives: the table, `uload`/`load`, `p2i32`/`loadI32` (`bor_shl_bytes`: the `|` of shifted bytes is their sum);
    2. `Sim x y`: the translated result `x` and the model result `y` are the same outcome (`Sim.lift`: `liftSkip x = y`);
       `skipstr_sim`;
    3. `loop{1,2,3}_step`: one unfolding of each generated loop, with the element code that the translator duplicates
       into every branch folded back into one `elemG` (pure case analysis, no arithmetic);
    4. `elem_sim`, `loop{1,2,3}_sim`: the loops against `mapLoopBin`/`listLoopBin`/`structLoopBin` under `RecOK`
       (the recursive call agrees with the model's and a successful call consumes 1 … remaining bytes), by induction
       on the fuel: an iteration that does not return consumes ≥ 1 byte, so `remaining + 1` iterations suffice on
       both sides (the model's STRUCT loop has its own fuel `b.length + 1`);
    5. `skipType_sim` by induction on the depth, `Binary_Skip_sim`, `Binary_Skip_eq`.
  Facts used about the model beyond its definition: `typeSize_eq` (Lemmas/TypeSize: the table lookup is total, value
  `fixedSize t` ≤ 8) and `skipBinAt_matches` (Lemmas/SkipBin): a successful `skipBinAt` returns between 1 and the
  remaining number of bytes (needed so that `i + n` cannot wrap and the fuel suffices).
-/
import Verif.Lemmas.Funcs.Base
import Verif.Model.Skip
import Verif.Lemmas.TypeSize
import Verif.Lemmas.SkipBin
set_option linter.unusedSimpArgs false
namespace Verif.FuncsEq
open Verif Verif.GoSem

/-- result `(n, err)` of the translated skipper as the model's `TOut Nat` (the partial length next to an error is not
    modelled) -/
def liftSkip (x : GM (Int × GoErr)) : TOut Nat :=
  match x with
  | .ok r => if r.2 = .nil then .ok r.1.toNat else .err (absErr r.2)
  | .panic s => .panic s
  | .oob => .oob
  | .err e => nomatch e

/-! ## primitives -/

theorem tbl_typeToSize_eq : Funcs.tbl_typeToSize = Facts.typeToSize := by decide +kernel

theorem wrap_u8_toI8 (x : UInt8) : wrap .u8 (toI8 x.toNat) = (x.toNat : Int) := by
  have := x.toNat_lt
  simp only [wrap, toU, IT.bits, IT.signed, toI8]
  simp; split <;> omega

/-- `typeToSize[uint8(t)]` in the translation: the model's `typeSize` -/
theorem tblIdx_typeSize (x : UInt8) :
    liftP (tblIdx Funcs.tbl_typeToSize (wrap .u8 (toI8 x.toNat))) = typeSize x := by
  have hx : ¬ ((x.toNat : Int) < 0) := by omega
  rw [tbl_typeToSize_eq, wrap_u8_toI8]
  unfold tblIdx typeSize
  simp only [hx, if_false, Int.toNat_natCast, typeToSizeIndexUnsigned, Bool.false_and]
  cases Facts.typeToSize[x.toNat]? <;> simp [liftP]

theorem tblIdx_fixed (x : UInt8) :
    tblIdx Funcs.tbl_typeToSize (wrap .u8 (toI8 x.toNat)) = .ok ((fixedSize x : Nat) : Int) := by
  have h := tblIdx_typeSize x
  rw [typeSize_eq] at h
  revert h
  cases tblIdx Funcs.tbl_typeToSize (wrap .u8 (toI8 x.toNat)) with
  | ok a => simp [liftP]
  | err e => exact nomatch e
  | panic s => simp [liftP]
  | oob => simp [liftP]

theorem wrap_u32_nat (n : Nat) (h : n < 4294967296) : wrap .u32 (n : Int) = (n : Int) := by
  simp only [wrap, toU, IT.bits, IT.signed]
  simp; omega

theorem toU32_nat (n : Nat) (h : n < 4294967296) : (toU (IT.bits .u32) (n : Int)).toNat = n := by
  simp only [toU, IT.bits]
  omega

theorem bor_u32_nat (x y : Nat) (hx : x < 4294967296) (hy : y < 4294967296) :
    bor .u32 (x : Int) (y : Int) = ((x ||| y : Nat) : Int) := by
  unfold bor
  rw [toU32_nat x hx, toU32_nat y hy]
  have : x ||| y < 2 ^ 32 := Nat.or_lt_two_pow (by omega) (by omega)
  exact wrap_u32_nat _ (by omega)

theorem shl_u32_nat (x k : Nat) (h : x * 2 ^ k < 4294967296) : shl .u32 (x : Int) k = ((x * 2 ^ k : Nat) : Int) := by
  unfold shl
  rw [← wrap_u32_nat _ h]
  simp

/-- the big-endian composition of `p2i32`: the `|` of the shifted bytes is their sum -/
theorem bor_shl_bytes (a c d e : Nat) (ha : a < 256) (hc : c < 256) (hd : d < 256) (he : e < 256) :
    wrap .i32 (bor .u32 (bor .u32 (bor .u32 (e : Int) (shl .u32 (d : Int) 8)) (shl .u32 (c : Int) 16))
      (shl .u32 (a : Int) 24)) = toI32 (a * 16777216 + c * 65536 + d * 256 + e) := by
  rw [shl_u32_nat d 8 (by omega), shl_u32_nat c 16 (by omega), shl_u32_nat a 24 (by omega)]
  have h1 : e ||| d * 2 ^ 8 = d * 256 + e := by
    rw [Nat.or_comm, Nat.mul_comm, ← Nat.two_pow_add_eq_or_of_lt (by omega)] <;> omega
  rw [bor_u32_nat e _ (by omega) (by omega), h1]
  have h2 : (d * 256 + e) ||| c * 2 ^ 16 = c * 65536 + d * 256 + e := by
    rw [Nat.or_comm, Nat.mul_comm, ← Nat.two_pow_add_eq_or_of_lt (by omega)] <;> omega
  rw [bor_u32_nat _ _ (by omega) (by omega), h2]
  have h3 : (c * 65536 + d * 256 + e) ||| a * 2 ^ 24 = a * 16777216 + c * 65536 + d * 256 + e := by
    rw [Nat.or_comm, Nat.mul_comm, ← Nat.two_pow_add_eq_or_of_lt (by omega)] <;> omega
  rw [bor_u32_nat _ _ (by omega) (by omega), h3]
  exact wrap_i32_nat _ (by omega)

/-! ## loads -/

theorem uload_nat (p : Bytes) (k : Nat) :
    uload p (k : Int) = if h : k < p.length then .ok ((p[k].toNat : Nat) : Int) else .oob := by
  have hk : ¬ ((k : Int) < 0) := by omega
  unfold uload
  simp only [hk, if_false, Int.toNat_natCast]
  by_cases h : k < p.length
  · simp [h]
  · simp [h]

theorem load_drop (p : Bytes) (off i : Nat) :
    load (p.drop off) i = if h : off + i < p.length then .ok p[off + i] else .oob := by
  unfold load
  by_cases h : off + i < p.length
  · simp [h]
  · simp [h] <;> omega

theorem wrap_i64_nat' (n : Nat) (h : n < 2 ^ 63) : wrap .i64 (n : Int) = (n : Int) :=
  wrap_i64_of_range _ (by omega) (by omega)

/-- `p2i32` at the natural offset `k`: out of bounds unless the four bytes are inside the slice -/
theorem p2i32_nat (p : Bytes) (k : Nat) (hk : k < 2 ^ 62) :
    Funcs.thrift_p2i32 p (k : Int) =
      if k + 4 ≤ p.length then .ok (toI32 (rd32 (p.drop k))) else .oob := by
  unfold Funcs.thrift_p2i32
  have e1 : wrap .i64 ((k : Int) + 1) = ((k + 1 : Nat) : Int) := by
    rw [← wrap_i64_nat' (k + 1) (by omega)]; simp
  have e2 : wrap .i64 ((k : Int) + 2) = ((k + 2 : Nat) : Int) := by
    rw [← wrap_i64_nat' (k + 2) (by omega)]; simp
  have e3 : wrap .i64 ((k : Int) + 3) = ((k + 3 : Nat) : Int) := by
    rw [← wrap_i64_nat' (k + 3) (by omega)]; simp
  rw [e1, e2, e3]
  simp only [uload_nat]
  by_cases h : k + 4 ≤ p.length
  · have h0 : k < p.length := by omega
    have h1 : k + 1 < p.length := by omega
    have h2 : k + 2 < p.length := by omega
    have h3 : k + 3 < p.length := by omega
    simp only [h0, h1, h2, h3, h, dite_true, if_true, Out.bind_eq, Out.bind_ok, Out.pure_eq]
    rw [bor_shl_bytes _ _ _ _ p[k].toNat_lt p[k+1].toNat_lt p[k+2].toNat_lt p[k+3].toNat_lt]
    rw [drop_cons4 p k h]
    simp [rd32]
  · simp only [h, if_false]
    by_cases h3 : k + 3 < p.length
    · omega
    · simp [h3]

theorem loadI32_drop (p : Bytes) (off i : Nat) :
    loadI32 (p.drop off) i =
      if off + i + 4 ≤ p.length then .ok (toI32 (rd32 (p.drop (off + i)))) else .oob := by
  by_cases h : off + i + 4 ≤ p.length
  · rw [loadI32_ok _ _ (by simp; omega)]
    simp [h]
  · simp only [h, if_false]
    unfold loadI32
    simp only [load_drop]
    by_cases h0 : off + i < p.length
    · by_cases h1 : off + (i + 1) < p.length
      · by_cases h2 : off + (i + 2) < p.length
        · have h3 : ¬ off + (i + 3) < p.length := by omega
          simp [h0, h1, h2, h3]
        · simp [h0, h1, h2]
      · simp [h0, h1]
    · simp [h0]

/-! ## the simulation relation between a translated skipper result and the model's -/

/-- `x` (translation) and `y` (model) are the same outcome; on success the Go length is the model's natural number -/
inductive Sim : GM (Int × GoErr) → TOut Nat → Prop where
  | ok (m : Nat) : Sim (.ok ((m : Int), GoErr.nil)) (.ok m)
  | err (n : Int) (e : GoErr) (h : e ≠ GoErr.nil) : Sim (.ok (n, e)) (.err (absErr e))
  | panic (s : String) : Sim (.panic s) (.panic s)
  | oob : Sim .oob .oob

theorem Sim.lift {x y} (h : Sim x y) : liftSkip x = y := by
  cases h <;> simp [liftSkip, *]

theorem toI32_range (n : Nat) (h : n < 4294967296) : -2147483648 ≤ toI32 n ∧ toI32 n < 2147483648 := by
  unfold toI32; split <;> omega

/-- `skipstr(p+off+i, e-i)` against `skipStrBin` on `p[off:]` at `i` -/
theorem skipstr_sim (p : Bytes) (off i : Nat) (hp : p.length < 2 ^ 62) (h : off + i ≤ p.length)
    (K E : Int) (hK : K = (off : Int) + (i : Int)) (hE : E = (p.length : Int) - (off : Int) - (i : Int)) :
    Sim (Funcs.thrift_skipstr p K E) (skipStrBin (p.drop off) i) := by
  have hK' : K = ((off + i : Nat) : Int) := by omega
  subst hE
  rw [hK']
  unfold Funcs.thrift_skipstr skipStrBin
  rw [p2i32_nat p (off + i) (by omega), loadI32_drop]
  simp only [List.length_drop]
  by_cases h4 : off + i + 4 ≤ p.length
  · have c1 : (4 : Int) ≤ (p.length : Int) - (off : Int) - (i : Int) := by omega
    have c2 : i + 4 ≤ p.length - off := by omega
    simp only [c1, c2, h4, decide_true, if_true, Out.bind_eq, Out.bind_ok]
    have hr := toI32_range _ (rd32_lt (p.drop (off + i)))
    generalize toI32 (rd32 (p.drop (off + i))) = n at hr
    by_cases hn : n < 0
    · simp only [hn, decide_true, if_true, Out.pure_eq]
      exact Sim.err 0 (GoErr.pe 2 "negative size") (by decide)
    · simp only [hn, decide_false, if_false, Bool.false_eq_true]
      rw [wrap_i64_of_range (4 + n) (by omega) (by omega)]
      by_cases hfit : i + (4 + n.toNat) ≤ p.length - off
      · have c3 : 4 + n ≤ (p.length : Int) - (off : Int) - (i : Int) := by omega
        simp only [hfit, c3, decide_true, if_true, Out.pure_eq]
        have : 4 + n = ((4 + n.toNat : Nat) : Int) := by omega
        rw [this]
        exact Sim.ok _
      · have c3 : ¬ 4 + n ≤ (p.length : Int) - (off : Int) - (i : Int) := by omega
        simp only [hfit, c3, decide_false, if_false, Bool.false_eq_true, Out.pure_eq]
        exact Sim.err 0 (GoErr.pe 1 "buffer too short") (by decide)
  · have c1 : ¬ (4 : Int) ≤ (p.length : Int) - (off : Int) - (i : Int) := by omega
    have c2 : ¬ i + 4 ≤ p.length - off := by omega
    simp only [c1, c2, decide_false, if_false, Bool.false_eq_true, Out.pure_eq]
    exact Sim.err 0 (GoErr.pe 1 "buffer too short") (by decide)

theorem skipStrBin_bound (b : Bytes) (i m : Nat) (h : skipStrBin b i = .ok m) : 1 ≤ m ∧ i + m ≤ b.length := by
  unfold skipStrBin at h
  by_cases h4 : i + 4 ≤ b.length
  · simp only [h4, if_true] at h
    cases hl : loadI32 b i with
    | ok n =>
      simp only [hl, Out.bind_eq, Out.bind_ok] at h
      by_cases hn : n < 0
      · simp [hn] at h
      · simp only [hn, if_false] at h
        by_cases hfit : i + (4 + n.toNat) ≤ b.length
        · simp only [hfit, if_true, Out.ok.injEq] at h
          omega
        · simp [hfit] at h
    | err e => simp [hl] at h
    | panic s => simp [hl] at h
    | oob => simp [hl] at h
  · simp [h4] at h

/-! ## one element (key, value, list element, field value) as the generated loops inline it -/

/-- the element step that the translated loops inline: fixed size, `skipstr`, or the recursive call -/
def elemG (rec : Bytes → Int → Int → Int → Int → GM (Int × GoErr)) (p : Bytes) (off e md t sz i : Int) :
    GM (Int × GoErr) :=
  if sz > 0 then .ok (sz, GoErr.nil)
  else if t = 11 then Funcs.thrift_skipstr p (wrap .i64 (off + i)) (wrap .i64 (e - i))
  else rec p (wrap .i64 (off + i)) (wrap .i64 (e - i)) t (wrap .i64 (md - 1))

theorem loop2_step (rec : Bytes → Int → Int → Int → Int → GM (Int × GoErr)) (p : Bytes)
    (off e md vt sz vsz : Int) (f : Nat) (i j : Int) :
    Funcs.thrift_skipType_loop2 rec p off e md vt sz vsz (f + 1) GoErr.nil i j =
      if j < sz then
        if i ≥ e then .ok (LoopR.ret (0, GoErr.pe 1 "buffer too short"))
        else (elemG rec p off e md vt vsz i).bind fun r =>
          if r.2 ≠ GoErr.nil then .ok (LoopR.ret (i, r.2))
          else Funcs.thrift_skipType_loop2 rec p off e md vt sz vsz f GoErr.nil
                 (wrap .i64 (i + r.1)) (wrap .i32 (j + 1))
      else .ok (LoopR.done (GoErr.nil, i, j)) := by
  rw [Funcs.thrift_skipType_loop2]
  by_cases hj : j < sz
  · by_cases hi : i ≥ e
    · simp [hj, hi]
    · by_cases hs : vsz > 0
      · simp [hj, hi, hs, elemG]
      · by_cases ht : vt = 11
        · simp only [hj, hi, hs, ht, elemG, decide_true, decide_false, if_true, if_false, Bool.false_eq_true,
            Out.bind_eq, Out.pure_eq]
          cases Funcs.thrift_skipstr p (wrap .i64 (off + i)) (wrap .i64 (e - i)) with
          | ok r =>
            by_cases hr : r.2 = GoErr.nil
            · simp [hr]
            · simp [hr]
          | err x => exact nomatch x
          | panic s => rfl
          | oob => rfl
        · simp only [hj, hi, hs, ht, elemG, decide_true, decide_false, if_true, if_false, Bool.false_eq_true,
            Out.bind_eq, Out.pure_eq]
          cases rec p (wrap .i64 (off + i)) (wrap .i64 (e - i)) vt (wrap .i64 (md - 1)) with
          | ok r =>
            by_cases hr : r.2 = GoErr.nil
            · simp [hr]
            · simp [hr]
          | err x => exact nomatch x
          | panic s => rfl
          | oob => rfl
  · simp [hj]

theorem bind_congr' {α β : Type} (x : GM α) (F G : α → GM β) (h : ∀ r, F r = G r) : x.bind F = x.bind G := by
  have : F = G := funext h
  rw [this]

theorem loop1_step (rec : Bytes → Int → Int → Int → Int → GM (Int × GoErr)) (p : Bytes)
    (off e md kt vt sz ksz vsz : Int) (f : Nat) (i j : Int) :
    Funcs.thrift_skipType_loop1 rec p off e md kt vt sz ksz vsz (f + 1) GoErr.nil i j =
      if j < sz then
        if i ≥ e then .ok (LoopR.ret (0, GoErr.pe 1 "buffer too short"))
        else (elemG rec p off e md kt ksz i).bind fun r =>
          if r.2 ≠ GoErr.nil then .ok (LoopR.ret (i, r.2))
          else if wrap .i64 (i + r.1) ≥ e then .ok (LoopR.ret (0, GoErr.pe 1 "buffer too short"))
          else (elemG rec p off e md vt vsz (wrap .i64 (i + r.1))).bind fun r2 =>
            if r2.2 ≠ GoErr.nil then .ok (LoopR.ret (wrap .i64 (i + r.1), r2.2))
            else Funcs.thrift_skipType_loop1 rec p off e md kt vt sz ksz vsz f GoErr.nil
                   (wrap .i64 (wrap .i64 (i + r.1) + r2.1)) (wrap .i32 (j + 1))
      else .ok (LoopR.done (GoErr.nil, i, j)) := by
  rw [Funcs.thrift_skipType_loop1]
  by_cases hj : j < sz
  · by_cases hi : i ≥ e
    · simp [hj, hi]
    · -- the value half, for any key size `k`
      have vhalf : ∀ k : Int,
          (if decide (wrap .i64 (i + k) ≥ e) then (pure (LoopR.ret (0, GoErr.pe 1 "buffer too short")) : GM _) else
            if decide (vsz > 0) then
              if decide (GoErr.nil ≠ GoErr.nil) then pure (LoopR.ret (wrap .i64 (i + k), GoErr.nil)) else
              Funcs.thrift_skipType_loop1 rec p off e md kt vt sz ksz vsz f GoErr.nil
                (wrap .i64 (wrap .i64 (i + k) + vsz)) (wrap .i32 (j + 1))
            else if decide (vt = 11) then
              (Funcs.thrift_skipstr p (wrap .i64 (off + wrap .i64 (i + k))) (wrap .i64 (e - wrap .i64 (i + k)))).bind
                fun t => if decide (t.2 ≠ GoErr.nil) then pure (LoopR.ret (wrap .i64 (i + k), t.2)) else
                  Funcs.thrift_skipType_loop1 rec p off e md kt vt sz ksz vsz f t.2
                    (wrap .i64 (wrap .i64 (i + k) + t.1)) (wrap .i32 (j + 1))
            else
              (rec p (wrap .i64 (off + wrap .i64 (i + k))) (wrap .i64 (e - wrap .i64 (i + k))) vt
                  (wrap .i64 (md - 1))).bind
                fun t => if decide (t.2 ≠ GoErr.nil) then pure (LoopR.ret (wrap .i64 (i + k), t.2)) else
                  Funcs.thrift_skipType_loop1 rec p off e md kt vt sz ksz vsz f t.2
                    (wrap .i64 (wrap .i64 (i + k) + t.1)) (wrap .i32 (j + 1))) =
          (if wrap .i64 (i + k) ≥ e then .ok (LoopR.ret (0, GoErr.pe 1 "buffer too short"))
           else (elemG rec p off e md vt vsz (wrap .i64 (i + k))).bind fun r2 =>
            if r2.2 ≠ GoErr.nil then .ok (LoopR.ret (wrap .i64 (i + k), r2.2))
            else Funcs.thrift_skipType_loop1 rec p off e md kt vt sz ksz vsz f GoErr.nil
                   (wrap .i64 (wrap .i64 (i + k) + r2.1)) (wrap .i32 (j + 1))) := by
        intro k
        by_cases hi2 : wrap .i64 (i + k) ≥ e
        · simp [hi2]
        · by_cases hs : vsz > 0
          · simp [hi2, hs, elemG]
          · by_cases ht : vt = 11
            · simp only [hi2, hs, ht, elemG, decide_true, decide_false, if_true, if_false, Bool.false_eq_true]
              apply bind_congr'; intro r
              by_cases hr : r.2 = GoErr.nil <;> simp [hr]
            · simp only [hi2, hs, ht, elemG, decide_true, decide_false, if_true, if_false, Bool.false_eq_true]
              apply bind_congr'; intro r
              by_cases hr : r.2 = GoErr.nil <;> simp [hr]
      have hk : elemG rec p off e md kt ksz i =
          (if ksz > 0 then .ok (ksz, GoErr.nil)
           else if kt = 11 then Funcs.thrift_skipstr p (wrap .i64 (off + i)) (wrap .i64 (e - i))
           else rec p (wrap .i64 (off + i)) (wrap .i64 (e - i)) kt (wrap .i64 (md - 1))) := rfl
      rw [hk]
      by_cases hs : ksz > 0
      · simp only [hj, hi, hs, decide_true, decide_false, if_true, if_false, Bool.false_eq_true,
          Out.bind_eq, Out.pure_eq, Out.bind_ok, ne_eq, not_true_eq_false]
        simpa using vhalf ksz
      · by_cases ht : kt = 11
        · have ht' : decide (kt = 11) = true := by simp [ht]
          simp only [hj, hi, hs, ht', if_pos ht, decide_true, decide_false, if_true, if_false, Bool.false_eq_true,
            Out.bind_eq, Out.pure_eq]
          cases Funcs.thrift_skipstr p (wrap .i64 (off + i)) (wrap .i64 (e - i)) with
          | ok r =>
            by_cases hr : r.2 = GoErr.nil
            · simp only [hr, Out.bind_ok, ne_eq, not_true_eq_false, decide_false, if_false, Bool.false_eq_true]
              simpa using vhalf r.1
            · simp [hr]
          | err x => exact nomatch x
          | panic s => rfl
          | oob => rfl
        · simp only [hj, hi, hs, ht, decide_true, decide_false, if_true, if_false, Bool.false_eq_true,
            Out.bind_eq, Out.pure_eq]
          cases rec p (wrap .i64 (off + i)) (wrap .i64 (e - i)) kt (wrap .i64 (md - 1)) with
          | ok r =>
            by_cases hr : r.2 = GoErr.nil
            · simp only [hr, Out.bind_ok, ne_eq, not_true_eq_false, decide_false, if_false, Bool.false_eq_true]
              simpa using vhalf r.1
            · simp [hr]
          | err x => exact nomatch x
          | panic s => rfl
          | oob => rfl
  · simp [hj]

theorem loop3_step (rec : Bytes → Int → Int → Int → Int → GM (Int × GoErr)) (p : Bytes)
    (off e md : Int) (f : Nat) (i : Int) :
    Funcs.thrift_skipType_loop3 rec p off e md (f + 1) GoErr.nil i =
      if i ≥ e then .ok (LoopR.ret (i, GoErr.pe 1 "buffer too short"))
      else (uload p (wrap .i64 (off + i))).bind fun x =>
        if wrap .i8 x = 0 then .ok (LoopR.ret (wrap .i64 (i + 1), GoErr.nil))
        else if wrap .i64 (wrap .i64 (i + 1) + 2) ≥ e then
          .ok (LoopR.ret (wrap .i64 (wrap .i64 (i + 1) + 2), GoErr.pe 1 "buffer too short"))
        else (tblIdx Funcs.tbl_typeToSize (wrap .u8 (wrap .i8 x))).bind fun s =>
          (elemG rec p off e md (wrap .i8 x) s (wrap .i64 (wrap .i64 (i + 1) + 2))).bind fun r =>
            if r.2 ≠ GoErr.nil then .ok (LoopR.ret (wrap .i64 (wrap .i64 (i + 1) + 2), r.2))
            else Funcs.thrift_skipType_loop3 rec p off e md f GoErr.nil
                   (wrap .i64 (wrap .i64 (wrap .i64 (i + 1) + 2) + r.1)) := by
  rw [Funcs.thrift_skipType_loop3]
  by_cases hi : i ≥ e
  · simp [hi]
  · simp only [hi, decide_false, if_false, Bool.false_eq_true, Out.bind_eq, Out.pure_eq]
    apply bind_congr'; intro x
    by_cases h0 : wrap .i8 x = 0
    · simp [h0]
    · simp only [h0, decide_false, if_false, Bool.false_eq_true]
      by_cases hi3 : wrap .i64 (wrap .i64 (i + 1) + 2) ≥ e
      · simp [hi3]
      · simp only [hi3, decide_false, if_false, Bool.false_eq_true]
        cases hs : tblIdx Funcs.tbl_typeToSize (wrap .u8 (wrap .i8 x)) with
        | ok s =>
          simp only [Out.bind_ok]
          by_cases hpos : s > 0
          · simp [hpos, elemG]
          · by_cases ht : wrap .i8 x = 11
            · have ht' : decide (wrap .i8 x = 11) = true := by simp [ht]
              simp only [hpos, ht', elemG, if_pos ht, decide_false, if_true, if_false, Bool.false_eq_true]
              apply bind_congr'; intro r
              by_cases hr : r.2 = GoErr.nil <;> simp [hr]
            · have ht' : decide (wrap .i8 x = 11) = false := by simp [ht]
              simp only [hpos, ht', elemG, if_neg ht, decide_false, if_true, if_false, Bool.false_eq_true]
              apply bind_congr'; intro r
              by_cases hr : r.2 = GoErr.nil <;> simp [hr]
        | err x => exact nomatch x
        | panic s => rfl
        | oob => rfl

/-! ## semantic part: elements and loops under a hypothesis on the recursive call -/

theorem toI8_eq_11 (t : UInt8) : toI8 t.toNat = 11 ↔ t = T_STRING := by
  have := t.toNat_lt
  have h : t = T_STRING ↔ t.toNat = 11 := by
    rw [← UInt8.toNat_inj]; exact Iff.rfl
  rw [h]; unfold toI8; split <;> omega

theorem fixedSize_le (t : UInt8) : fixedSize t ≤ 8 := by
  unfold fixedSize; repeat' split
  all_goals omega

/-- what the loops assume about the recursive call `rec` (translation) and `rec'` (model) on the slice `p[off:]` -/
structure RecOK (rec : Bytes → Int → Int → Int → Int → GM (Int × GoErr)) (rec' : Bytes → Nat → UInt8 → TOut Nat)
    (p : Bytes) (off : Nat) (md : Int) : Prop where
  sim : ∀ (i : Nat) (t : UInt8), off + i < p.length →
    Sim (rec p ((off : Int) + (i : Int)) ((p.length : Int) - (off : Int) - (i : Int)) (toI8 t.toNat) (md - 1))
      (rec' (p.drop off) i t)
  bound : ∀ (i : Nat) (t : UInt8) (m : Nat), off + i < p.length → rec' (p.drop off) i t = .ok m →
    1 ≤ m ∧ i + m ≤ p.length - off

theorem elem_sim {rec rec' p off md} (hp : p.length < 2 ^ 62) (hmd : 0 ≤ md ∧ md ≤ 64) (H : RecOK rec rec' p off md)
    (i : Nat) (hi : off + i < p.length) (t : UInt8) :
    Sim (elemG rec p (off : Int) ((p.length : Int) - (off : Int)) md (toI8 t.toNat) ((fixedSize t : Nat) : Int) (i : Int))
        (elemBin rec' (p.drop off) i t ((fixedSize t : Nat) : Int)) ∧
    ∀ m, elemBin rec' (p.drop off) i t ((fixedSize t : Nat) : Int) = .ok m → 1 ≤ m ∧ i + m ≤ p.length - off + 8 := by
  unfold elemG elemBin
  by_cases hs : ((fixedSize t : Nat) : Int) > 0
  · have := fixedSize_le t
    simp only [hs, if_true, Int.toNat_natCast]
    refine ⟨Sim.ok _, ?_⟩
    intro m hm
    simp only [Out.ok.injEq] at hm
    omega
  · simp only [hs, if_false]
    rw [wrap_i64_of_range ((off : Int) + (i : Int)) (by omega) (by omega),
        wrap_i64_of_range ((p.length : Int) - (off : Int) - (i : Int)) (by omega) (by omega),
        wrap_i64_of_range (md - 1) (by omega) (by omega)]
    by_cases ht : t = T_STRING
    · have ht' : toI8 t.toNat = 11 := (toI8_eq_11 t).mpr ht
      simp only [ht, ht', if_true]
      refine ⟨skipstr_sim p off i hp (by omega) _ _ rfl rfl, ?_⟩
      intro m hm
      have := skipStrBin_bound _ _ _ hm
      simp only [List.length_drop] at this
      omega
    · have ht' : ¬ toI8 t.toNat = 11 := fun h => ht ((toI8_eq_11 t).mp h)
      simp only [ht, ht', if_false]
      refine ⟨H.sim i t hi, ?_⟩
      intro m hm
      have := H.bound i t m hi hm
      omega

/-- outcome of a translated counted loop (MAP, LIST/SET slow path) against the model loop: `done` with offset `m`
    is the model's `ok m`; an early `return` carries an error -/
inductive LSim : GM (LoopR (Int × GoErr) (GoErr × Int × Int)) → TOut Nat → Prop where
  | done (m : Nat) (j : Int) : LSim (.ok (LoopR.done (GoErr.nil, (m : Int), j))) (.ok m)
  | err (n : Int) (e : GoErr) (h : e ≠ GoErr.nil) : LSim (.ok (LoopR.ret (n, e))) (.err (absErr e))
  | panic (s : String) : LSim (.panic s) (.panic s)
  | oob : LSim .oob .oob

theorem loop2_sim {rec rec' p off md} (hp : p.length < 2 ^ 62) (hmd : 0 ≤ md ∧ md ≤ 64) (H : RecOK rec rec' p off md)
    (vt : UInt8) (sz : Nat) (hsz : sz < 2 ^ 31) :
    ∀ (f i j cnt : Nat), j + cnt = sz → (p.length - off - i) + 1 ≤ f →
      LSim (Funcs.thrift_skipType_loop2 rec p (off : Int) ((p.length : Int) - (off : Int)) md (toI8 vt.toNat)
              (sz : Int) ((fixedSize vt : Nat) : Int) f GoErr.nil (i : Int) (j : Int))
           (listLoopBin rec' (p.drop off) vt ((fixedSize vt : Nat) : Int) cnt i) := by
  intro f
  induction f with
  | zero => intro i j cnt _ hf; omega
  | succ f ih =>
    intro i j cnt hj hf
    rw [loop2_step]
    cases cnt with
    | zero =>
      have c : ¬ ((j : Int) < (sz : Int)) := by omega
      rw [if_neg c]
      unfold listLoopBin
      exact LSim.done i j
    | succ cnt =>
      have c : ((j : Int) < (sz : Int)) := by omega
      rw [if_pos c]
      unfold listLoopBin
      simp only [List.length_drop]
      by_cases hie : i ≥ p.length - off
      · have c2 : (i : Int) ≥ (p.length : Int) - (off : Int) := by omega
        rw [if_pos c2, if_pos hie]
        exact LSim.err 0 (GoErr.pe 1 "buffer too short") (by decide)
      · have c2 : ¬ (i : Int) ≥ (p.length : Int) - (off : Int) := by omega
        rw [if_neg c2, if_neg hie]
        obtain ⟨hs, hb⟩ := elem_sim hp hmd H i (by omega) vt
        generalize elemG rec p (off : Int) ((p.length : Int) - (off : Int)) md (toI8 vt.toNat)
          ((fixedSize vt : Nat) : Int) (i : Int) = x at hs
        generalize elemBin rec' (p.drop off) i vt ((fixedSize vt : Nat) : Int) = y at hs hb
        cases hs with
        | ok m =>
          have := hb m rfl
          have w1 : wrap .i64 ((i : Int) + (m : Int)) = ((i + m : Nat) : Int) := by
            rw [wrap_i64_of_range _ (by omega) (by omega)]; simp
          have w2 : wrap .i32 ((j : Int) + 1) = ((j + 1 : Nat) : Int) := by
            rw [wrap_i32_of_range _ (by omega) (by omega)]; simp
          simp only [Out.bind_ok, Out.bind_eq, ne_eq, not_true_eq_false, if_false, w1, w2]
          exact ih (i + m) (j + 1) cnt (by omega) (by omega)
        | err n e h =>
          simp only [Out.bind_ok, Out.bind_eq, Out.bind_err, ne_eq, h, not_false_eq_true, if_true]
          exact LSim.err _ e h
        | panic s => exact LSim.panic s
        | oob => exact LSim.oob

theorem loop1_sim {rec rec' p off md} (hp : p.length < 2 ^ 62) (hmd : 0 ≤ md ∧ md ≤ 64) (H : RecOK rec rec' p off md)
    (kt vt : UInt8) (sz : Nat) (hsz : sz < 2 ^ 31) :
    ∀ (f i j cnt : Nat), j + cnt = sz → (p.length - off - i) + 1 ≤ f →
      LSim (Funcs.thrift_skipType_loop1 rec p (off : Int) ((p.length : Int) - (off : Int)) md (toI8 kt.toNat)
              (toI8 vt.toNat) (sz : Int) ((fixedSize kt : Nat) : Int) ((fixedSize vt : Nat) : Int) f GoErr.nil
              (i : Int) (j : Int))
           (mapLoopBin rec' (p.drop off) kt vt ((fixedSize kt : Nat) : Int) ((fixedSize vt : Nat) : Int) cnt i) := by
  intro f
  induction f with
  | zero => intro i j cnt _ hf; omega
  | succ f ih =>
    intro i j cnt hj hf
    rw [loop1_step]
    cases cnt with
    | zero =>
      have c : ¬ ((j : Int) < (sz : Int)) := by omega
      rw [if_neg c]
      unfold mapLoopBin
      exact LSim.done i j
    | succ cnt =>
      have c : ((j : Int) < (sz : Int)) := by omega
      rw [if_pos c]
      unfold mapLoopBin
      simp only [List.length_drop]
      by_cases hie : i ≥ p.length - off
      · have c2 : (i : Int) ≥ (p.length : Int) - (off : Int) := by omega
        rw [if_pos c2, if_pos hie]
        exact LSim.err 0 (GoErr.pe 1 "buffer too short") (by decide)
      · have c2 : ¬ (i : Int) ≥ (p.length : Int) - (off : Int) := by omega
        rw [if_neg c2, if_neg hie]
        obtain ⟨hs, hb⟩ := elem_sim hp hmd H i (by omega) kt
        generalize elemG rec p (off : Int) ((p.length : Int) - (off : Int)) md (toI8 kt.toNat)
          ((fixedSize kt : Nat) : Int) (i : Int) = x at hs
        generalize elemBin rec' (p.drop off) i kt ((fixedSize kt : Nat) : Int) = y at hs hb
        cases hs with
        | ok m =>
          have := hb m rfl
          have w1 : wrap .i64 ((i : Int) + (m : Int)) = ((i + m : Nat) : Int) := by
            rw [wrap_i64_of_range _ (by omega) (by omega)]; simp
          simp only [Out.bind_ok, Out.bind_eq, ne_eq, not_true_eq_false, if_false, w1]
          by_cases hie2 : i + m ≥ p.length - off
          · have c3 : ((i + m : Nat) : Int) ≥ (p.length : Int) - (off : Int) := by omega
            rw [if_pos c3, if_pos hie2]
            exact LSim.err 0 (GoErr.pe 1 "buffer too short") (by decide)
          · have c3 : ¬ ((i + m : Nat) : Int) ≥ (p.length : Int) - (off : Int) := by omega
            rw [if_neg c3, if_neg hie2]
            obtain ⟨hs2, hb2⟩ := elem_sim hp hmd H (i + m) (by omega) vt
            generalize elemG rec p (off : Int) ((p.length : Int) - (off : Int)) md (toI8 vt.toNat)
              ((fixedSize vt : Nat) : Int) ((i + m : Nat) : Int) = x2 at hs2
            generalize elemBin rec' (p.drop off) (i + m) vt ((fixedSize vt : Nat) : Int) = y2 at hs2 hb2
            cases hs2 with
            | ok m2 =>
              have := hb2 m2 rfl
              have w2 : wrap .i64 (((i + m : Nat) : Int) + (m2 : Int)) = ((i + m + m2 : Nat) : Int) := by
                rw [wrap_i64_of_range _ (by omega) (by omega)]; simp
              have w3 : wrap .i32 ((j : Int) + 1) = ((j + 1 : Nat) : Int) := by
                rw [wrap_i32_of_range _ (by omega) (by omega)]; simp
              simp only [Out.bind_ok, Out.bind_eq, ne_eq, not_true_eq_false, if_false, w2, w3]
              exact ih (i + m + m2) (j + 1) cnt (by omega) (by omega)
            | err n e h =>
              simp only [Out.bind_ok, Out.bind_eq, Out.bind_err, ne_eq, h, not_false_eq_true, if_true]
              exact LSim.err _ e h
            | panic s => exact LSim.panic s
            | oob => exact LSim.oob
        | err n e h =>
          simp only [Out.bind_ok, Out.bind_eq, Out.bind_err, ne_eq, h, not_false_eq_true, if_true]
          exact LSim.err _ e h
        | panic s => exact LSim.panic s
        | oob => exact LSim.oob

theorem toI8_eq_0 (t : UInt8) : toI8 t.toNat = 0 ↔ t = T_STOP := by
  have := t.toNat_lt
  have h : t = T_STOP ↔ t.toNat = 0 := by
    rw [← UInt8.toNat_inj]; exact Iff.rfl
  rw [h]; unfold toI8; split <;> omega

/-- outcome of the translated STRUCT loop (it only leaves by `return`) against the model loop -/
inductive LSim3 : GM (LoopR (Int × GoErr) (GoErr × Int)) → TOut Nat → Prop where
  | ret (m : Nat) : LSim3 (.ok (LoopR.ret ((m : Int), GoErr.nil))) (.ok m)
  | err (n : Int) (e : GoErr) (h : e ≠ GoErr.nil) : LSim3 (.ok (LoopR.ret (n, e))) (.err (absErr e))
  | panic (s : String) : LSim3 (.panic s) (.panic s)
  | oob : LSim3 .oob .oob

theorem loop3_sim {rec rec' p off md} (hp : p.length < 2 ^ 62) (hmd : 0 ≤ md ∧ md ≤ 64) (H : RecOK rec rec' p off md) :
    ∀ (f1 f2 i : Nat), (p.length - off - i) + 1 ≤ f1 → (p.length - off - i) + 1 ≤ f2 →
      LSim3 (Funcs.thrift_skipType_loop3 rec p (off : Int) ((p.length : Int) - (off : Int)) md f1 GoErr.nil (i : Int))
            (structLoopBin rec' (p.drop off) f2 i) := by
  intro f1
  induction f1 with
  | zero => intro f2 i hf _; omega
  | succ f1 ih =>
    intro f2 i hf1 hf2
    cases f2 with
    | zero => omega
    | succ f2 =>
      rw [loop3_step]
      unfold structLoopBin
      simp only [List.length_drop]
      by_cases hie : i ≥ p.length - off
      · have c2 : (i : Int) ≥ (p.length : Int) - (off : Int) := by omega
        rw [if_pos c2, if_pos hie]
        exact LSim3.err _ (GoErr.pe 1 "buffer too short") (by decide)
      · have c2 : ¬ (i : Int) ≥ (p.length : Int) - (off : Int) := by omega
        rw [if_neg c2, if_neg hie]
        have hlt : off + i < p.length := by omega
        have w0 : wrap .i64 ((off : Int) + (i : Int)) = ((off + i : Nat) : Int) := by
          rw [wrap_i64_of_range _ (by omega) (by omega)]; simp
        rw [w0, uload_nat, load_drop]
        simp only [hlt, dite_true, Out.bind_ok, Out.bind_eq]
        generalize p[off + i] = ft
        rw [wrap_i8_nat _ ft.toNat_lt]
        have w1 : wrap .i64 ((i : Int) + 1) = ((i + 1 : Nat) : Int) := by
          rw [wrap_i64_of_range _ (by omega) (by omega)]; simp
        have w3 : wrap .i64 (((i + 1 : Nat) : Int) + 2) = ((i + 1 + 2 : Nat) : Int) := by
          rw [wrap_i64_of_range _ (by omega) (by omega)]; simp
        rw [w1, w3]
        by_cases hstop : ft = T_STOP
        · have c0 : toI8 ft.toNat = 0 := (toI8_eq_0 ft).mpr hstop
          rw [if_pos c0, if_pos hstop]
          exact LSim3.ret _
        · have c0 : ¬ toI8 ft.toNat = 0 := fun h => hstop ((toI8_eq_0 ft).mp h)
          rw [if_neg c0, if_neg hstop]
          by_cases hie3 : i + 1 + 2 ≥ p.length - off
          · have c3 : ((i + 1 + 2 : Nat) : Int) ≥ (p.length : Int) - (off : Int) := by omega
            rw [if_pos c3, if_pos hie3]
            exact LSim3.err _ (GoErr.pe 1 "buffer too short") (by decide)
          · have c3 : ¬ ((i + 1 + 2 : Nat) : Int) ≥ (p.length : Int) - (off : Int) := by omega
            rw [if_neg c3, if_neg hie3, tblIdx_fixed, typeSize_eq]
            simp only [Out.bind_ok, Out.bind_eq]
            obtain ⟨hs, hb⟩ := elem_sim hp hmd H (i + 1 + 2) (by omega) ft
            generalize elemG rec p (off : Int) ((p.length : Int) - (off : Int)) md (toI8 ft.toNat)
              ((fixedSize ft : Nat) : Int) ((i + 1 + 2 : Nat) : Int) = x at hs
            generalize elemBin rec' (p.drop off) (i + 1 + 2) ft ((fixedSize ft : Nat) : Int) = y at hs hb
            cases hs with
            | ok m =>
              have := hb m rfl
              have w4 : wrap .i64 (((i + 1 + 2 : Nat) : Int) + (m : Int)) = ((i + 1 + 2 + m : Nat) : Int) := by
                rw [wrap_i64_of_range _ (by omega) (by omega)]; simp
              simp only [Out.bind_ok, Out.bind_eq, ne_eq, not_true_eq_false, if_false, w4]
              exact ih f2 (i + 1 + 2 + m) (by omega) (by omega)
            | err n e h =>
              simp only [Out.bind_ok, Out.bind_eq, Out.bind_err, ne_eq, h, not_false_eq_true, if_true]
              exact LSim3.err _ e h
            | panic s => exact LSim3.panic s
            | oob => exact LSim3.oob

theorem skipBinAt_drop (d : Nat) (p : Bytes) (off i : Nat) (t : UInt8) :
    skipBinAt d (p.drop off) i t = skipBinAt d p (off + i) t := by
  cases d with
  | zero => rfl
  | succ d => simp only [skipBinAt, List.drop_drop]

theorem skipBinAt_bound (d : Nat) (p : Bytes) (off : Nat) (t : UInt8) (m : Nat) (hoff : off ≤ p.length)
    (h : skipBinAt d p off t = .ok m) : 1 ≤ m ∧ m ≤ p.length - off := by
  have hm := skipBinAt_matches d p off t hoff
  unfold Matches at hm
  cases hr : refBin d t (p.drop off) with
  | none =>
    rw [hr] at hm; obtain ⟨e, he⟩ := hm
    rw [he] at h; cases h
  | some n =>
    rw [hr] at hm
    rw [hm] at h
    cases h
    have := refBin_good d t _ _ hr
    simpa using this

theorem bind_eta (x : GM (Int × GoErr)) : (x.bind fun t => (.ok (t.1, t.2) : GM (Int × GoErr))) = x := by
  cases x <;> rfl

theorem recOK_of_ih (d f : Nat) (p : Bytes) (off : Nat) (hoff : off ≤ p.length)
    (ih : ∀ (f : Nat) (p : Bytes) (off : Nat) (t : UInt8) (K E D : Int), p.length < 2 ^ 62 → off ≤ p.length → d ≤ 64 →
      (p.length - off) + d + 2 ≤ f → K = (off : Int) → E = (p.length : Int) - (off : Int) → D = (d : Int) →
      Sim (Funcs.thrift_skipType f p K E (toI8 t.toNat) D) (skipBinAt d p off t))
    (hp : p.length < 2 ^ 62) (hd : d ≤ 64) (hf : (p.length - off) + d + 2 ≤ f) :
    RecOK (fun a0 a1 a2 a3 a4 => Funcs.thrift_skipType f a0 a1 a2 a3 a4) (fun bb i tt => skipBinAt d bb i tt)
      p off ((d + 1 : Nat) : Int) := by
  constructor
  · intro i t hi
    simp only [skipBinAt_drop]
    exact ih f p (off + i) t _ _ _ hp (by omega) hd (by omega) (by omega) (by omega) (by omega)
  · intro i t m hi hm
    simp only [skipBinAt_drop] at hm
    have := skipBinAt_bound d p (off + i) t m (by omega) hm
    omega

theorem toI8_eq_tag (t : UInt8) (k : Nat) (hk : k < 128) : toI8 t.toNat = (k : Int) ↔ t = UInt8.ofNat k := by
  have := t.toNat_lt
  have h : t = UInt8.ofNat k ↔ t.toNat = k := by
    rw [← UInt8.toNat_inj]; simp; omega
  rw [h]; unfold toI8; split <;> omega

theorem skipType_sim : ∀ (d f : Nat) (p : Bytes) (off : Nat) (t : UInt8) (K E D : Int), p.length < 2 ^ 62 →
    off ≤ p.length → d ≤ 64 → (p.length - off) + d + 2 ≤ f →
    K = (off : Int) → E = (p.length : Int) - (off : Int) → D = (d : Int) →
    Sim (Funcs.thrift_skipType f p K E (toI8 t.toNat) D) (skipBinAt d p off t) := by
  intro d
  induction d with
  | zero =>
    intro f p off t K E D hp hoff hd hf hK hE hD
    cases f with
    | zero => omega
    | succ f =>
      subst hD
      rw [Funcs.thrift_skipType]
      simp only [skipBinAt, Int.natCast_zero, decide_true, if_true, Out.pure_eq]
      exact Sim.err 0 (GoErr.pe 6 "depth limit exceeded") (by decide)
  | succ d ih =>
    intro f p off t K E D hp hoff hd hf hK hE hD
    cases f with
    | zero => omega
    | succ f =>
      have H := recOK_of_ih d f p off hoff ih hp (by omega) (by omega)
      subst hD hK hE
      rw [Funcs.thrift_skipType]
      have cD : ¬ ((d + 1 : Nat) : Int) = 0 := by omega
      simp only [skipBinAt, cD, decide_false, if_false, Bool.false_eq_true, tblIdx_fixed, typeSize_eq,
        Out.bind_ok, Out.bind_eq, Out.pure_eq, List.length_drop]
      by_cases hfix : ((fixedSize t : Nat) : Int) > 0
      · have := fixedSize_le t
        simp only [hfix, decide_true, if_true, Int.toNat_natCast]
        by_cases hfit : fixedSize t > p.length - off
        · have c : ((fixedSize t : Nat) : Int) > (p.length : Int) - (off : Int) := by omega
          simp only [hfit, c, decide_true, if_true]
          exact Sim.err 0 (GoErr.pe 1 "buffer too short") (by decide)
        · have c : ¬ ((fixedSize t : Nat) : Int) > (p.length : Int) - (off : Int) := by omega
          simp only [hfit, c, decide_false, if_false, Bool.false_eq_true]
          exact Sim.ok _
      · simp only [hfix, decide_false, if_false, Bool.false_eq_true]
        by_cases hstr : t = T_STRING
        · have c : toI8 t.toNat = 11 := (toI8_eq_11 t).mpr hstr
          simp only [hstr, c, decide_true, if_true, bind_eta]
          exact skipstr_sim p off 0 hp (by omega) _ _ (by simp) (by simp)
        · have c : ¬ toI8 t.toNat = 11 := fun h => hstr ((toI8_eq_11 t).mp h)
          simp only [hstr, c, decide_false, if_false, Bool.false_eq_true]
          by_cases hmap : t = T_MAP
          · have c : toI8 t.toNat = 13 := (toI8_eq_tag t 13 (by omega)).mpr hmap
            simp only [if_pos hmap, c, decide_true, if_true]
            by_cases h6 : 6 > p.length - off
            · have c6 : (6 : Int) > (p.length : Int) - (off : Int) := by omega
              simp only [h6, c6, decide_true, if_true]
              exact Sim.err 0 (GoErr.pe 1 "buffer too short") (by decide)
            · have c6 : ¬ (6 : Int) > (p.length : Int) - (off : Int) := by omega
              have w1 : wrap .i64 ((off : Int) + 1) = ((off + 1 : Nat) : Int) := by
                rw [wrap_i64_of_range _ (by omega) (by omega)]; simp
              have w2 : wrap .i64 ((off : Int) + 2) = ((off + 2 : Nat) : Int) := by
                rw [wrap_i64_of_range _ (by omega) (by omega)]; simp
              have l0 : off < p.length := by omega
              have l1 : off + 1 < p.length := by omega
              have l2 : off + 2 + 4 ≤ p.length := by omega
              simp only [h6, c6, decide_false, if_false, Bool.false_eq_true, w1, w2, uload_nat, load_drop, loadI32_drop,
                p2i32_nat p (off + 2) (by omega), l0, l1, l2, dite_true, if_true, Out.bind_ok, Nat.add_zero]
              have hr := toI32_range _ (rd32_lt (p.drop (off + 2)))
              generalize toI32 (rd32 (p.drop (off + 2))) = sz at hr
              generalize p[off] = kt
              generalize p[off + 1] = vt
              by_cases hneg : sz < 0
              · simp only [hneg, decide_true, if_true]
                exact Sim.err 0 (GoErr.pe 2 "negative size") (by decide)
              · simp only [hneg, decide_false, if_false, Bool.false_eq_true, wrap_i8_nat _ vt.toNat_lt,
                  wrap_i8_nat _ kt.toNat_lt, tblIdx_fixed, Out.bind_ok]
                obtain ⟨s, rfl⟩ := Int.eq_ofNat_of_zero_le (by omega : 0 ≤ sz)
                have hs : s < 2 ^ 31 := by omega
                simp only [Int.toNat_natCast]
                by_cases hfast : ((fixedSize kt : Nat) : Int) > 0 ∧ ((fixedSize vt : Nat) : Int) > 0
                · have hk := fixedSize_le kt
                  have hv := fixedSize_le vt
                  have hq : s * (fixedSize kt + fixedSize vt) ≤ 2 ^ 31 * 16 := Nat.mul_le_mul (by omega) (by omega)
                  have e0 : wrap .i64 (((fixedSize kt : Nat) : Int) + ((fixedSize vt : Nat) : Int)) =
                      ((fixedSize kt + fixedSize vt : Nat) : Int) := by
                    rw [wrap_i64_of_range _ (by omega) (by omega)]; simp
                  have e1 : ((s : Int) * ((fixedSize kt + fixedSize vt : Nat) : Int)) =
                      ((s * (fixedSize kt + fixedSize vt) : Nat) : Int) := by simp
                  rw [e0, e1]
                  generalize s * (fixedSize kt + fixedSize vt) = q at hq
                  rw [wrap_i64_of_range (q : Int) (by omega) (by omega),
                      wrap_i64_of_range (6 + (q : Int)) (by omega) (by omega)]
                  by_cases hfit : 6 + q > p.length - off
                  · have cf : 6 + (q : Int) > (p.length : Int) - (off : Int) := by omega
                    simp only [hfast, and_self, hfit, cf, decide_true, Bool.and_self, if_true]
                    exact Sim.err 0 (GoErr.pe 1 "buffer too short") (by decide)
                  · have cf : ¬ 6 + (q : Int) > (p.length : Int) - (off : Int) := by omega
                    simp only [hfast, and_self, hfit, cf, decide_true, decide_false, Bool.and_self, if_true, if_false,
                      Bool.false_eq_true]
                    have : 6 + (q : Int) = ((6 + q : Nat) : Int) := by simp
                    rw [this]
                    exact Sim.ok _
                · have cfast : (decide (((fixedSize kt : Nat) : Int) > 0) && decide (((fixedSize vt : Nat) : Int) > 0)) = false := by
                    simpa using hfast
                  simp only [hfast, cfast, if_false, Bool.false_eq_true]
                  have hl : LSim (Funcs.thrift_skipType_loop1 (fun a0 a1 a2 a3 a4 => Funcs.thrift_skipType f a0 a1 a2 a3 a4) p
                      (off : Int) ((p.length : Int) - (off : Int)) ((d + 1 : Nat) : Int) (toI8 kt.toNat) (toI8 vt.toNat) (s : Int)
                      ((fixedSize kt : Nat) : Int) ((fixedSize vt : Nat) : Int) f GoErr.nil 6 0)
                      (mapLoopBin (fun bb i tt => skipBinAt d bb i tt) (p.drop off) kt vt ((fixedSize kt : Nat) : Int)
                        ((fixedSize vt : Nat) : Int) s 6) :=
                    loop1_sim hp (by omega) H kt vt s hs f 6 0 s (by omega) (by omega)
                  generalize Funcs.thrift_skipType_loop1 (fun a0 a1 a2 a3 a4 => Funcs.thrift_skipType f a0 a1 a2 a3 a4) p
                      (off : Int) ((p.length : Int) - (off : Int)) ((d + 1 : Nat) : Int) (toI8 kt.toNat) (toI8 vt.toNat) (s : Int)
                      ((fixedSize kt : Nat) : Int) ((fixedSize vt : Nat) : Int) f GoErr.nil 6 0 = x at hl
                  generalize mapLoopBin (fun bb i tt => skipBinAt d bb i tt) (p.drop off) kt vt ((fixedSize kt : Nat) : Int)
                        ((fixedSize vt : Nat) : Int) s 6 = y at hl
                  cases hl with
                  | done m j =>
                    simp only [Out.bind_ok]
                    by_cases hover : m > p.length - off
                    · have co : (m : Int) > (p.length : Int) - (off : Int) := by omega
                      simp only [hover, co, decide_true, if_true]
                      exact Sim.err 0 (GoErr.pe 1 "buffer too short") (by decide)
                    · have co : ¬ (m : Int) > (p.length : Int) - (off : Int) := by omega
                      simp only [hover, co, decide_false, if_false, Bool.false_eq_true]
                      exact Sim.ok m
                  | err n e h => exact Sim.err n e h
                  | panic s => exact Sim.panic s
                  | oob => exact Sim.oob
          · have c : ¬ toI8 t.toNat = 13 := fun h => hmap ((toI8_eq_tag t 13 (by omega)).mp h)
            simp only [hmap, c, decide_false, if_false, Bool.false_eq_true]
            by_cases hlist : t = T_LIST ∨ t = T_SET
            · have c : (decide (toI8 t.toNat = 15) || decide (toI8 t.toNat = 14)) = true := by
                rcases hlist with h | h
                · have := (toI8_eq_tag t 15 (by omega)).mpr h; simp [this]
                · have := (toI8_eq_tag t 14 (by omega)).mpr h; simp [this]
              simp only [if_pos hlist, c, if_true]
              by_cases h5 : 5 > p.length - off
              · have c5 : (5 : Int) > (p.length : Int) - (off : Int) := by omega
                simp only [h5, c5, decide_true, if_true]
                exact Sim.err 0 (GoErr.pe 1 "buffer too short") (by decide)
              · have c5 : ¬ (5 : Int) > (p.length : Int) - (off : Int) := by omega
                have w1 : wrap .i64 ((off : Int) + 1) = ((off + 1 : Nat) : Int) := by
                  rw [wrap_i64_of_range _ (by omega) (by omega)]; simp
                have l0 : off < p.length := by omega
                have l1 : off + 1 + 4 ≤ p.length := by omega
                simp only [h5, c5, decide_false, if_false, Bool.false_eq_true, w1, uload_nat, load_drop, loadI32_drop,
                  p2i32_nat p (off + 1) (by omega), l0, l1, dite_true, if_true, Out.bind_ok, Nat.add_zero]
                have hr := toI32_range _ (rd32_lt (p.drop (off + 1)))
                generalize toI32 (rd32 (p.drop (off + 1))) = sz at hr
                generalize p[off] = vt
                by_cases hneg : sz < 0
                · simp only [hneg, decide_true, if_true]
                  exact Sim.err 0 (GoErr.pe 2 "negative size") (by decide)
                · simp only [hneg, decide_false, if_false, Bool.false_eq_true, wrap_i8_nat _ vt.toNat_lt,
                    tblIdx_fixed, Out.bind_ok]
                  obtain ⟨s, rfl⟩ := Int.eq_ofNat_of_zero_le (by omega : 0 ≤ sz)
                  have hs : s < 2 ^ 31 := by omega
                  simp only [Int.toNat_natCast]
                  by_cases hfast : ((fixedSize vt : Nat) : Int) > 0
                  · have hv := fixedSize_le vt
                    have hq : s * fixedSize vt ≤ 2 ^ 31 * 8 := Nat.mul_le_mul (by omega) hv
                    have e1 : ((s : Int) * ((fixedSize vt : Nat) : Int)) = ((s * fixedSize vt : Nat) : Int) := by simp
                    rw [e1]
                    generalize s * fixedSize vt = q at hq
                    rw [wrap_i64_of_range (q : Int) (by omega) (by omega),
                        wrap_i64_of_range (5 + (q : Int)) (by omega) (by omega)]
                    by_cases hfit : 5 + q > p.length - off
                    · have cf : 5 + (q : Int) > (p.length : Int) - (off : Int) := by omega
                      simp only [hfast, hfit, cf, decide_true, if_true]
                      exact Sim.err 0 (GoErr.pe 1 "buffer too short") (by decide)
                    · have cf : ¬ 5 + (q : Int) > (p.length : Int) - (off : Int) := by omega
                      simp only [hfast, hfit, cf, decide_true, decide_false, if_true, if_false, Bool.false_eq_true]
                      have : 5 + (q : Int) = ((5 + q : Nat) : Int) := by simp
                      rw [this]
                      exact Sim.ok _
                  · simp only [hfast, decide_false, if_false, Bool.false_eq_true]
                    have hl : LSim (Funcs.thrift_skipType_loop2 (fun a0 a1 a2 a3 a4 => Funcs.thrift_skipType f a0 a1 a2 a3 a4) p
                        (off : Int) ((p.length : Int) - (off : Int)) ((d + 1 : Nat) : Int) (toI8 vt.toNat) (s : Int)
                        ((fixedSize vt : Nat) : Int) f GoErr.nil 5 0)
                        (listLoopBin (fun bb i tt => skipBinAt d bb i tt) (p.drop off) vt ((fixedSize vt : Nat) : Int) s 5) :=
                      loop2_sim hp (by omega) H vt s hs f 5 0 s (by omega) (by omega)
                    generalize Funcs.thrift_skipType_loop2 (fun a0 a1 a2 a3 a4 => Funcs.thrift_skipType f a0 a1 a2 a3 a4) p
                        (off : Int) ((p.length : Int) - (off : Int)) ((d + 1 : Nat) : Int) (toI8 vt.toNat) (s : Int)
                        ((fixedSize vt : Nat) : Int) f GoErr.nil 5 0 = x at hl
                    generalize listLoopBin (fun bb i tt => skipBinAt d bb i tt) (p.drop off) vt ((fixedSize vt : Nat) : Int) s 5
                      = y at hl
                    cases hl with
                    | done m j => exact Sim.ok m
                    | err n e h => exact Sim.err n e h
                    | panic s => exact Sim.panic s
                    | oob => exact Sim.oob
            · have c1 : ¬ toI8 t.toNat = 15 := fun h => hlist (Or.inl ((toI8_eq_tag t 15 (by omega)).mp h))
              have c2 : ¬ toI8 t.toNat = 14 := fun h => hlist (Or.inr ((toI8_eq_tag t 14 (by omega)).mp h))
              simp only [hlist, c1, c2, decide_false, if_false, Bool.false_eq_true, Bool.or_self]
              by_cases hst : t = T_STRUCT
              · have c : toI8 t.toNat = 12 := (toI8_eq_tag t 12 (by omega)).mpr hst
                simp only [if_pos hst, c, decide_true, if_true]
                have hl : LSim3 (Funcs.thrift_skipType_loop3 (fun a0 a1 a2 a3 a4 => Funcs.thrift_skipType f a0 a1 a2 a3 a4) p
                    (off : Int) ((p.length : Int) - (off : Int)) ((d + 1 : Nat) : Int) f GoErr.nil 0)
                    (structLoopBin (fun bb i tt => skipBinAt d bb i tt) (p.drop off) (p.length - off + 1) 0) :=
                  loop3_sim hp (by omega) H f (p.length - off + 1) 0 (by omega) (by omega)
                generalize Funcs.thrift_skipType_loop3 (fun a0 a1 a2 a3 a4 => Funcs.thrift_skipType f a0 a1 a2 a3 a4) p
                    (off : Int) ((p.length : Int) - (off : Int)) ((d + 1 : Nat) : Int) f GoErr.nil 0 = x at hl
                generalize structLoopBin (fun bb i tt => skipBinAt d bb i tt) (p.drop off) (p.length - off + 1) 0 = y at hl
                cases hl with
                | ret m => exact Sim.ok m
                | err n e h => exact Sim.err n e h
                | panic s => exact Sim.panic s
                | oob => exact Sim.oob
              · have c : ¬ toI8 t.toNat = 12 := fun h => hst ((toI8_eq_tag t 12 (by omega)).mp h)
                simp only [hst, c, decide_false, if_false, Bool.false_eq_true]
                exact Sim.err 0 (GoErr.pe 1 "") (by decide)

/-- `BinaryProtocol.Skip`, whole function, translated from the Go source: the model `skipBin`, including every panic
    and every place where a pointer load could leave the slice (`oob`) -/
theorem Binary_Skip_sim (b : Bytes) (t : UInt8) (fuel : Nat) (hb : b.length < 2 ^ 62) (hf : b.length + 70 ≤ fuel) :
    Sim (Funcs.Binary_Skip fuel b (toI8 t.toNat)) (skipBin b t) := by
  unfold Funcs.Binary_Skip skipBin
  by_cases h0 : b.length = 0
  · have c : (len b = 0) := by unfold len; omega
    simp only [h0, c, decide_true, if_true, Out.pure_eq]
    exact Sim.err 0 (GoErr.pe 1 "buffer too short") (by decide)
  · have c : ¬ (len b = 0) := by unfold len; omega
    have hi : GoSem.idx b 0 = .ok ((b[0]'(by omega)).toNat : Int) := by
      have : 0 < b.length := by omega
      simp [GoSem.idx, this]
    simp only [h0, c, hi, decide_false, if_false, Bool.false_eq_true, Out.bind_eq, Out.bind_ok, Out.pure_eq, bind_eta,
      defaultRecursionDepth_eq]
    exact skipType_sim 64 fuel b 0 t _ _ _ hb (by omega) (by omega) (by omega) (by simp) (by simp [len]) (by simp)

theorem Binary_Skip_eq (b : Bytes) (t : UInt8) (fuel : Nat) (hb : b.length < 2 ^ 62) (hf : b.length + 70 ≤ fuel) :
    liftSkip (Funcs.Binary_Skip fuel b (toI8 t.toNat)) = skipBin b t :=
  (Binary_Skip_sim b t fuel hb hf).lift

/-! ## the generated functions compute (non-vacuity) -/

-- an i32
example : Funcs.Binary_Skip 80 [0, 0, 0, 1] 8 = .ok (4, GoErr.nil) := by decide +kernel
-- a struct {1: i32 5}
example : Funcs.Binary_Skip 80 [8, 0, 1, 0, 0, 0, 5, 0] 12 = .ok (8, GoErr.nil) := by decide +kernel
-- list<string> ["a", ""] through the slow-path loop
example : Funcs.Binary_Skip 80 [11, 0, 0, 0, 2, 0, 0, 0, 1, 97, 0, 0, 0, 0] 15 = .ok (14, GoErr.nil) := by decide +kernel
-- map<string,i32> {"a": 7} through the slow-path loop with a fixed-size value
example : Funcs.Binary_Skip 80 [11, 8, 0, 0, 0, 1, 0, 0, 0, 1, 97, 0, 0, 0, 7] 13 = .ok (15, GoErr.nil) := by
  decide +kernel
-- errors: short buffer, negative size, unknown type, depth limit (65 nested structs)
example : Funcs.Binary_Skip 80 [0] 8 = .ok (0, GoErr.pe 1 "buffer too short") := by decide +kernel
example : Funcs.Binary_Skip 80 [255, 255, 255, 255] 11 = .ok (0, GoErr.pe 2 "negative size") := by decide +kernel
example : Funcs.Binary_Skip 80 [0] 1 = .ok (0, GoErr.pe 1 "") := by decide +kernel
example : liftSkip (Funcs.Binary_Skip 300 (List.replicate 200 12) 12) = .err errDepth := by decide +kernel
-- panics: fuel exhausted (excluded by `hf` in `Binary_Skip_eq`), table index out of range, and an out-of-bounds load
example : Funcs.Binary_Skip 0 [0] 8 = .panic "nofuel" := by decide +kernel
example : tblIdx Funcs.tbl_typeToSize 256 = .panic "index" := by decide +kernel
example : Funcs.thrift_p2i32 [1, 2, 3] 0 = .oob := by decide +kernel
example : skipBin [11, 8, 0, 0, 0, 1, 0, 0, 0, 1, 97, 0, 0, 0, 7] 13 = .ok 15 := by decide +kernel

end Verif.FuncsEq

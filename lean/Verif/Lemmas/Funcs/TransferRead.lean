/-
  Lemmas/Funcs/TransferRead: helper lemmas for Props/Translated (undoing the result lifts); split per group so that a
  property's check only depends on the translated functions it is about.
-/
import Verif.Lemmas.Funcs.Read
namespace Verif.FuncsEq
open Verif Verif.GoSem

theorem liftRdG_returns {ρ β : Type} {l : ρ → Int} {e : ρ → GoErr} {v : ρ → Nat → β} {x : GM ρ}
    (h : (liftRdG l e v x).Safe) : ∃ r, x = .ok r := by
  cases x with
  | ok r => exact ⟨r, rfl⟩
  | err e => exact nomatch e
  | panic s => exact absurd rfl (h.1 s)
  | oob => exact absurd rfl h.2

theorem liftRd_returns {α : Type} {x : GM (α × Int × GoErr)} (h : (liftRd x).Safe) : ∃ r, x = .ok r := by
  cases x with
  | ok r => exact ⟨r, rfl⟩
  | err e => exact nomatch e
  | panic s => exact absurd rfl (h.1 s)
  | oob => exact absurd rfl h.2

/-- `Wire.mapOk` keeps panics and `oob` -/
theorem mapOk_safe {α : Type} {f : α → Wire.Val × Nat} {x : Wire.BOut α} (h : (Wire.mapOk f x).Safe) : x.Safe := by
  cases x with
  | ok r => exact ⟨fun s => by simp, by simp⟩
  | err e => exact ⟨fun s => by simp, by simp⟩
  | panic s => exact absurd rfl (h.1 s)
  | oob => exact absurd rfl h.2


end Verif.FuncsEq

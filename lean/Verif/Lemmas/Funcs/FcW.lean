/-
  Lemmas/Funcs/FcW: the WRITE side of the generated structs, TRANSLATED from protocol/thrift/base/k-base.go and
  protocol/thrift/binary.go (`Verif.Funcs.Base_BLength`, `Base_FastWriteNocopy`, `Base_FastWrite`, the same three of
  `BaseResp`, `Binary_WriteStringNocopy`, `Binary_WriteBinaryNocopy`; generated), is the hand-written model of
  `Model/FastCodec` (`bLengthBase`, `fastWriteNocopyBase`, `fastWriteBase`, …, `writeStringNocopy`).

  * Go's map iteration order: the translated functions take the sequence of entries the `range` loop visits as an
    explicit parameter (`ord1`), the model takes it as `it : SMap`. Every theorem holds for EVERY such sequence (no
    relation to the map is needed: the code only uses `len(p.Extra)` and the visited entries).
  * the receiver may be nil: the translation takes `Option S_base_Base`, the model `Option Base`.
  * the `thrift.NocopyWriter` parameter: the translation takes `Option ν` (`none` = the nil interface) and the behaviour
    `J : NocopyI ν` of `WriteDirect`; the theorems instantiate it with the recorder `recJ e` over the model's `Directs`
    (`WriteDirect(b, remainCap)` appends `(b, remainCap)` and returns the arbitrary error `e …`, which the code ignores),
    for both `w == nil` (`wOpt false ds = none`) and a real writer (`wOpt true ds = some ds`). The threshold is
    `Facts.nocopyWriteThreshold`.
  * in-place writers: the generated function works on the view `(whole, off)`; the theorems are stated for the view
    `(pre ++ sb, pre.length)` against the model on `sb` (`*_view`: the bytes in front of the view are not touched), and
    for a whole slice (`*_eq`, offset 0). Panics are carried over with their kind.

  Method (independent of the SHAPE of the generated code): `WSim` relates the outcome of translated code on the view with
  the outcome of model statements on the slice. The generated function is unfolded and WALKED: every primitive of the
  translation (`vset`, `vfrom`+`vputU16/32`, `vfrom`+`WriteStringNocopy`, the `range` loop, the final return) has a
  continuation-passing step lemma against the model primitive it implements (`putByte`, `put16`, `put32`,
  `writeStringNocopy`, `wAll (stKVs …)`); `fw_step` picks the lemma by unification. Offsets are whatever `Int` expression
  the code computes, with a side goal `oi = ↑o` (`off_tac`); guards are decided from the semantic case split made
  BEFORE simplification (`bsimp`); the loop lemmas speak of ANY function with the loop's step behaviour (the generated
  loop function is never named in a statement). Renamed locals, hoisted or commuted arithmetic, inverted guards with
  swapped branches, un-nested returns, local constants and split/merged declarations leave the proofs unchanged.
-/
import Verif.Lemmas.Funcs.Fc
namespace Verif.FuncsEq
open Verif Verif.GoSem

/-! ## the recording no-copy writer, lifts -/

/-- the model's recorder of direct writes as a `thrift.NocopyWriter`: `WriteDirect(b, remainCap)` appends the pair; the
    error it returns is arbitrary (the callers drop it) -/
def recJ (e : Directs → Bytes → Int → GoErr) : NocopyI Directs :=
  ⟨fun ds b n => .ok (e ds b n, ds ++ [(b, n.toNat)])⟩

/-- the `w` argument: `none` = nil -/
def wOpt (w : Bool) (ds : Directs) : Option Directs := if w then some ds else none

/-- what the theorems need of a `NocopyWriter` value `enc ds` (`none` = nil) with behaviour `J`, seen as a rendering of the
    model's recorder contents `ds`: it is nil exactly when `w = false`, and `WriteDirect(b, n)` records `(b, n)` — whatever
    error it returns -/
structure NCOK {ν : Type} (J : NocopyI ν) (w : Bool) (enc : Directs → Option ν) : Prop where
  isNone : ∀ ds, (enc ds).isNone = !w
  step : w = true → ∀ (ds : Directs) (b : Bytes) (n : Int), ∃ x er x', enc ds = some x ∧
    J.writeDirect x b n = .ok (er, x') ∧ enc (ds ++ [(b, n.toNat)]) = some x'

theorem recJ_ok (e : Directs → Bytes → Int → GoErr) (w : Bool) : NCOK (recJ e) w (wOpt w) where
  isNone ds := by cases w <;> rfl
  step hw ds b n := by subst hw; exact ⟨ds, e ds b n, ds ++ [(b, n.toNat)], rfl, rfl, rfl⟩

/-- the literal `nil` writer that `FastWrite` passes on -/
theorem nilNocopy_ok : NCOK nilNocopy false (fun _ => (none : Option Unit)) where
  isNone _ := rfl
  step hw := by cases hw

/-- result `(b', w', n)` of a translated no-copy writer as the model's `(WS, n)`; `ds0`: what the recorder held before (a
    nil writer stays nil) -/
def liftWN (ds0 : Directs) (x : GM (Bytes × Option Directs × Int)) : TOut (WS × Nat) :=
  match x with
  | .ok r => .ok (⟨r.1, r.2.1.getD ds0⟩, r.2.2.toNat)
  | .panic s => .panic s
  | .oob => .oob
  | .err e => nomatch e

/-! ## normal forms of the view primitives at `(pre ++ sb, pre.length)`, offset `o` inside the view -/

theorem vset_pre (pre sb : Bytes) (o : Nat) (x : Int) :
    vset (pre ++ sb) (pre.length : Int) (o : Int) x =
      if o < sb.length then .ok (pre ++ patch sb o [byteOf x]) else .panic "index" := by
  rw [vset_nf _ _ _ _ (by omega), Int.toNat_natCast, putAt_append]
  by_cases c : o < sb.length
  · rw [if_pos (by simp; omega), if_pos c]
  · rw [if_neg (by simp; omega), if_neg c]

theorem vfrom_pre (pre sb : Bytes) (o : Nat) :
    vfrom (pre ++ sb) (pre.length : Int) (o : Int) =
      if o ≤ sb.length then .ok ((pre.length + o : Nat) : Int) else .panic "slice" := by
  rw [vfrom_nf _ _ _ (by omega), Int.toNat_natCast]
  by_cases c : o ≤ sb.length
  · rw [if_pos (by simp; omega), if_pos c]
  · rw [if_neg (by simp; omega), if_neg c]

theorem vputU16_pre (pre sb : Bytes) (o : Nat) (x : Int) :
    vputU16 (pre ++ sb) ((pre.length + o : Nat) : Int) x =
      if o + 2 ≤ sb.length then .ok (pre ++ patch sb o (be16 (ofInt 16 x))) else .panic "index" := by
  rw [vputU16_nf, putAt_append]
  by_cases c : o + 2 ≤ sb.length
  · rw [if_pos (by simp; omega), if_pos c]
  · rw [if_neg (by simp; omega), if_neg c]

theorem vputU32_pre (pre sb : Bytes) (o : Nat) (x : Int) :
    vputU32 (pre ++ sb) ((pre.length + o : Nat) : Int) x =
      if o + 4 ≤ sb.length then .ok (pre ++ patch sb o (be32 (ofInt 32 x))) else .panic "index" := by
  rw [vputU32_nf, putAt_append]
  by_cases c : o + 4 ≤ sb.length
  · rw [if_pos (by simp; omega), if_pos c]
  · rw [if_neg (by simp; omega), if_neg c]

theorem vlen_pre (pre sb : Bytes) (o : Nat) :
    vlen (pre ++ sb) ((pre.length + o : Nat) : Int) = (sb.length : Int) - o := by
  simp [vlen, len]; omega

/-! ## `Binary.WriteStringNocopy` / `WriteBinaryNocopy` -/

/-- the model statement in normal form (`o ≤ sb.length`: the slice `b[off:]` exists) -/
theorem writeStringNocopy_nf (thr : Nat) (w : Bool) (sb : Bytes) (ds : Directs) (o : Nat) (v : Bytes)
    (h : o ≤ sb.length) :
    writeStringNocopy thr w ⟨sb, ds⟩ o v =
      if o + 4 ≤ sb.length then
        if (!w || decide (v.length < thr)) = true then
          .ok (⟨patch (patch sb o (be32 v.length)) (o + 4) (v.take (min (sb.length - (o + 4)) v.length)), ds⟩,
            4 + min (sb.length - (o + 4)) v.length)
        else .ok (⟨patch sb o (be32 v.length), ds ++ [(v, sb.length - o - 4)]⟩, 4)
      else .panic "index" := by
  unfold writeStringNocopy writeString put32 copyAt
  have a : ¬ o > sb.length := by omega
  by_cases c : o + 4 ≤ sb.length
  · have a2 : ¬ sb.length - o < 4 := by omega
    have l1 : (patch sb o (be32 v.length)).length = sb.length := patch_length _ _ _ (by simp; omega)
    have a3 : ¬ o + 4 > sb.length := by omega
    by_cases c2 : (!w || decide (v.length < thr)) = true
    · simp [a, a2, a3, c, l1, c2]
    · simp [a, a2, c, l1, c2]
  · have a2 : sb.length - o < 4 := by omega
    by_cases c2 : (!w || decide (v.length < thr)) = true
    · simp [a, a2, c, c2]
    · simp [a, a2, c, c2]

/-- the in-place string writer on the view, in normal form -/
theorem gWriteString_nf (pre sb : Bytes) (o : Nat) (v : Bytes) (h : o ≤ sb.length)
    (hlen : (pre ++ sb).length < 2 ^ 63) :
    Funcs.Binary_WriteString (pre ++ sb) ((pre.length + o : Nat) : Int) v =
      if o + 4 ≤ sb.length then
        .ok (pre ++ patch (patch sb o (be32 v.length)) (o + 4) (v.take (min (sb.length - (o + 4)) v.length)),
          ((4 + min (sb.length - (o + 4)) v.length : Nat) : Int))
      else .panic "index" := by
  have hw := Binary_WriteString_eq (pre ++ sb) (pre.length + o) v (by simp; omega) hlen
  rw [wBinary_nf _ _ _ (by simp; omega)] at hw
  by_cases c : o + 4 ≤ sb.length
  · have c' : pre.length + o + 4 ≤ (pre ++ sb).length := by simp; omega
    rw [if_pos c'] at hw
    rw [if_pos c]
    have e1 : (pre ++ sb).length - (pre.length + o + 4) = sb.length - (o + 4) := by simp; omega
    rw [e1, show 4 + min (sb.length - (o + 4)) v.length = (3 + min (sb.length - (o + 4)) v.length) + 1 from by omega] at hw
    rw [liftW_ok_inv hw, putAt_append, Nat.add_assoc, putAt_append]
    congr 3; omega
  · have c' : ¬ pre.length + o + 4 ≤ (pre ++ sb).length := by simp; omega
    rw [if_neg c'] at hw
    rw [if_neg c]
    exact liftW_panic_inv hw

theorem gWriteBinary_nf (pre sb : Bytes) (o : Nat) (v : Bytes) (h : o ≤ sb.length)
    (hlen : (pre ++ sb).length < 2 ^ 63) :
    Funcs.Binary_WriteBinary (pre ++ sb) ((pre.length + o : Nat) : Int) v =
      if o + 4 ≤ sb.length then
        .ok (pre ++ patch (patch sb o (be32 v.length)) (o + 4) (v.take (min (sb.length - (o + 4)) v.length)),
          ((4 + min (sb.length - (o + 4)) v.length : Nat) : Int))
      else .panic "index" := by
  have hw := Binary_WriteBinary_eq (pre ++ sb) (pre.length + o) v (by simp; omega) hlen
  rw [wBinary_nf _ _ _ (by simp; omega)] at hw
  by_cases c : o + 4 ≤ sb.length
  · have c' : pre.length + o + 4 ≤ (pre ++ sb).length := by simp; omega
    rw [if_pos c'] at hw
    rw [if_pos c]
    have e1 : (pre ++ sb).length - (pre.length + o + 4) = sb.length - (o + 4) := by simp; omega
    rw [e1, show 4 + min (sb.length - (o + 4)) v.length = (3 + min (sb.length - (o + 4)) v.length) + 1 from by omega] at hw
    rw [liftW_ok_inv hw, putAt_append, Nat.add_assoc, putAt_append]
    congr 3; omega
  · have c' : ¬ pre.length + o + 4 ≤ (pre ++ sb).length := by simp; omega
    rw [if_neg c'] at hw
    rw [if_neg c]
    exact liftW_panic_inv hw

/-! ### the no-copy writers on the view, in normal form

  Proved from the SEMANTIC case split (is the writer nil, is the value below the threshold, does the header fit): the
  generated guard may be `w == nil || len(v) < thr`, its negation with the branches swapped, the operands commuted,
  `len(v)` hoisted … — `go_simp` decides whatever form it has from the facts in the context. -/

theorem vfrom_preK (pre sb : Bytes) (o : Nat) (k : Int) (hk : 0 ≤ k) :
    vfrom (pre ++ sb) ((pre.length + o : Nat) : Int) k =
      if o + k.toNat ≤ sb.length then .ok ((pre.length + (o + k.toNat) : Nat) : Int) else .panic "slice" := by
  rw [vfrom_nf _ _ _ hk]
  by_cases c : o + k.toNat ≤ sb.length
  · rw [if_pos (by simp; omega), if_pos c]; simp; omega
  · rw [if_neg (by simp; omega), if_neg c]

theorem enc_none {ν : Type} {J : NocopyI ν} {enc : Directs → Option ν} (H : NCOK J false enc) (ds : Directs) :
    enc ds = none := by
  have := H.isNone ds
  cases h : enc ds with
  | none => rfl
  | some x => rw [h] at this; simp at this

/-- `simp only` with the propositional / Boolean lemmas that decide a generated guard whatever its form (negated,
    operands commuted, `decide` of a comparison …); the arithmetic that remains is decided by `omega` from the context.
    No cast normalisation: offsets keep the form the normal-form lemmas are stated in. -/
syntax "bsimp" (" [" Lean.Parser.Tactic.simpLemma,* "]")? : tactic
macro_rules
  | `(tactic| bsimp) => `(tactic| bsimp [])
  | `(tactic| bsimp [$ls,*]) =>
    `(tactic| simp (disch := omega) only [if_pos, if_neg, if_true, if_false, Out.bind_ok, Out.bind_panic, Out.pure_eq,
        Out.bind_eq, Option.isNone_none, Option.isNone_some, Option.isSome_none, Option.isSome_some, Bool.or_eq_true,
        Bool.and_eq_true, Bool.not_eq_true', Bool.not_eq_true, decide_eq_true_eq, decide_eq_false_iff_not,
        Bool.false_eq_true, Bool.true_eq_false, true_or, or_true, false_or, or_false, true_and, and_true, false_and,
        and_false, not_true_eq_false, not_false_eq_true, eq_self, ne_eq, Classical.not_not, ge_iff_le, gt_iff_lt, Nat.not_lt,
        Nat.not_le, Int.not_lt, Int.not_le,
        Bool.not_true, Bool.not_false, Bool.true_or, Bool.or_true, Bool.false_or, Bool.or_false, Bool.true_and,
        Bool.and_true, Bool.false_and, Bool.and_false, decide_true, decide_false, reduceCtorEq, $ls,*])

/-- `WriteDirect` at the end of a no-copy writer: whatever expression the generated code passes as the remaining
    capacity, it records the value of that expression -/
theorem wd_close {ν : Type} {J : NocopyI ν} {enc : Directs → Option ν} {x : ν} {v : Bytes} {ds : Directs}
    (hstep : ∀ n : Int, ∃ er x', J.writeDirect x v n = .ok (er, x') ∧ enc (ds ++ [(v, n.toNat)]) = some x')
    (B : Bytes) (r : Int) (N : Int) (m : Nat) (hN : N.toNat = m) :
    (J.writeDirect x v N).bind (fun t => (.ok (B, some t.2, r) : GM (Bytes × Option ν × Int))) =
      .ok (B, enc (ds ++ [(v, m)]), r) := by
  obtain ⟨er, x', g1, g2⟩ := hstep N
  rw [g1, Out.bind_ok, ← hN, g2]

set_option hygiene false in
/-- the shared proof of the two no-copy writers: `F` is the generated function, `G` the copying writer it falls back to -/
macro "nocopy_nf" F:ident Gnf:ident : tactic => `(tactic| (
  have hl : len v = (v.length : Int) := rfl
  have hsl : sb.length ≤ (pre ++ sb).length := by simp
  by_cases c : o + 4 ≤ sb.length
  · cases w with
    | false =>
      have he := enc_none H ds
      have hg := $Gnf pre sb o v h hlen
      rw [if_pos c] at hg
      unfold $F
      rw [he]
      bsimp [hg, c, hl]
    | true =>
      obtain ⟨x, _, _, h1, _, _⟩ := H.step rfl ds v 0
      have hstep : ∀ n : Int, ∃ er x', J.writeDirect x v n = .ok (er, x') ∧ enc (ds ++ [(v, n.toNat)]) = some x' := by
        intro n
        obtain ⟨y, er, x', g1, g2, g3⟩ := H.step rfl ds v n
        rw [h1] at g1; cases g1
        exact ⟨er, x', g2, g3⟩
      by_cases c2 : v.length < 4096
      · have hg := $Gnf pre sb o v h hlen
        rw [if_pos c] at hg
        unfold $F
        rw [h1]
        bsimp [hg, c, c2, hl]
      · have l1 : (patch sb o (be32 v.length)).length = sb.length :=
          patch_length _ _ _ (by simp; omega)
        have e1 : be32 (ofInt 32 (wrap .u32 (v.length : Int))) = be32 v.length := by
          rw [ofInt_wrap 32 .u32 _ (by decide), be32_ofInt_nat]
        unfold $F
        rw [h1]
        bsimp [c, c2, hl, vputU32_pre, vfrom_preK, l1, derefP, vlen_pre, e1, Int.reduceToNat, Nat.add_zero]
        refine wd_close hstep _ _ _ _ (by (try simp (disch := omega) only [wrap_i64_of_range]); omega)
  · have hg := $Gnf pre sb o v h hlen
    rw [if_neg c] at hg
    cases w with
    | false =>
      have he := enc_none H ds
      unfold $F
      rw [he]
      bsimp [hg, c, hl]
    | true =>
      obtain ⟨x, er, x', h1, h2, h3⟩ := H.step rfl ds v 0
      by_cases c2 : v.length < 4096
      · unfold $F
        rw [h1]
        bsimp [hg, c, c2, hl]
      · unfold $F
        rw [h1]
        bsimp [c, c2, hl, vputU32_pre, vfrom_preK, Int.reduceToNat, Nat.add_zero]))

theorem gWriteStringNocopy_nf {ν : Type} (J : NocopyI ν) (w : Bool) (enc : Directs → Option ν) (H : NCOK J w enc)
    (pre sb : Bytes) (ds : Directs) (o : Nat) (v : Bytes) (h : o ≤ sb.length) (hlen : (pre ++ sb).length < 2 ^ 63) :
    Funcs.Binary_WriteStringNocopy J (pre ++ sb) ((pre.length + o : Nat) : Int) (enc ds) v =
      if o + 4 ≤ sb.length then
        if (!w || decide (v.length < 4096)) = true then
          .ok (pre ++ patch (patch sb o (be32 v.length)) (o + 4) (v.take (min (sb.length - (o + 4)) v.length)),
            enc ds, ((4 + min (sb.length - (o + 4)) v.length : Nat) : Int))
        else .ok (pre ++ patch sb o (be32 v.length), enc (ds ++ [(v, sb.length - o - 4)]), 4)
      else .panic "index" := by
  nocopy_nf Funcs.Binary_WriteStringNocopy gWriteString_nf

theorem gWriteBinaryNocopy_nf {ν : Type} (J : NocopyI ν) (w : Bool) (enc : Directs → Option ν) (H : NCOK J w enc)
    (pre sb : Bytes) (ds : Directs) (o : Nat) (v : Bytes) (h : o ≤ sb.length) (hlen : (pre ++ sb).length < 2 ^ 63) :
    Funcs.Binary_WriteBinaryNocopy J (pre ++ sb) ((pre.length + o : Nat) : Int) (enc ds) v =
      if o + 4 ≤ sb.length then
        if (!w || decide (v.length < 4096)) = true then
          .ok (pre ++ patch (patch sb o (be32 v.length)) (o + 4) (v.take (min (sb.length - (o + 4)) v.length)),
            enc ds, ((4 + min (sb.length - (o + 4)) v.length : Nat) : Int))
        else .ok (pre ++ patch sb o (be32 v.length), enc (ds ++ [(v, sb.length - o - 4)]), 4)
      else .panic "index" := by
  nocopy_nf Funcs.Binary_WriteBinaryNocopy gWriteBinary_nf

theorem wOpt_getD (w : Bool) (ds ds0 : Directs) (h : w = false → ds = ds0) : (wOpt w ds).getD ds0 = ds := by
  cases w
  · simp [wOpt, h rfl]
  · simp [wOpt]

/-- `Binary.WriteStringNocopy(buf[off:], w, v)` translated from the Go source IS the model `writeStringNocopy` at the
    threshold the extractor reads off the source, for a nil writer (`w = false`) and for a recording one -/
theorem Binary_WriteStringNocopy_eq (e : Directs → Bytes → Int → GoErr) (w : Bool) (buf : Bytes) (off : Nat)
    (ds : Directs) (v : Bytes) (h : off ≤ buf.length) (hlen : buf.length < 2 ^ 63) :
    liftWN ds (Funcs.Binary_WriteStringNocopy (recJ e) buf (off : Int) (wOpt w ds) v) =
      writeStringNocopy Facts.nocopyWriteThreshold w ⟨buf, ds⟩ off v := by
  have hg := gWriteStringNocopy_nf (recJ e) w (wOpt w) (recJ_ok e w) [] buf ds off v h (by simpa using hlen)
  simp only [List.nil_append, List.length_nil, Nat.zero_add] at hg
  rw [hg, writeStringNocopy_nf _ _ _ _ _ _ h]
  unfold Facts.nocopyWriteThreshold
  by_cases c : off + 4 ≤ buf.length
  · by_cases c2 : (!w || decide (v.length < 4096)) = true
    · simp only [if_pos c, if_pos c2, liftWN, wOpt_getD w ds ds (fun _ => rfl), Int.toNat_natCast]
    · have hw : w = true := by cases w <;> simp_all
      subst hw
      simp only [if_pos c, if_neg c2, liftWN, wOpt, if_true, Option.getD_some]; rfl
  · simp only [if_neg c, liftWN]

theorem Binary_WriteBinaryNocopy_eq (e : Directs → Bytes → Int → GoErr) (w : Bool) (buf : Bytes) (off : Nat)
    (ds : Directs) (v : Bytes) (h : off ≤ buf.length) (hlen : buf.length < 2 ^ 63) :
    liftWN ds (Funcs.Binary_WriteBinaryNocopy (recJ e) buf (off : Int) (wOpt w ds) v) =
      writeStringNocopy Facts.nocopyWriteThreshold w ⟨buf, ds⟩ off v := by
  have hg := gWriteBinaryNocopy_nf (recJ e) w (wOpt w) (recJ_ok e w) [] buf ds off v h (by simpa using hlen)
  simp only [List.nil_append, List.length_nil, Nat.zero_add] at hg
  rw [hg, writeStringNocopy_nf _ _ _ _ _ _ h]
  unfold Facts.nocopyWriteThreshold
  by_cases c : off + 4 ≤ buf.length
  · by_cases c2 : (!w || decide (v.length < 4096)) = true
    · simp only [if_pos c, if_pos c2, liftWN, wOpt_getD w ds ds (fun _ => rfl), Int.toNat_natCast]
    · have hw : w = true := by cases w <;> simp_all
      subst hw
      simp only [if_pos c, if_neg c2, liftWN, wOpt, if_true, Option.getD_some]; rfl
  · simp only [if_neg c, liftWN]

/-! ## the simulation: translated code on `(pre ++ sb, pre.length)` against model statements on `sb`

  The generated struct writers are walked statement by statement: every PRIMITIVE of the translation (`vset`,
  `vfrom`+`vputU16/32`, `vfrom`+`WriteStringNocopy`, the `range` loop, the final `pure`) has a continuation-passing step
  lemma against the model primitive it implements (`putByte`, `put16`, `put32`, `writeStringNocopy`, `wAll (stKVs …)`);
  the offsets are arbitrary `Int` expressions of the generated code with a side goal `oi = ↑o` (`off_tac`), so hoisted
  or commuted offset arithmetic, renamed locals, inverted guards and un-nested returns do not matter. -/

/-- outcome `x` of translated code against outcome `y` of the model statements: same buffer behind `pre`, same recorder
    contents (a nil writer stays nil and the model's recorder is untouched), same offset, same panic -/
def WSim {ν : Type} (enc : Directs → Option ν) (pre : Bytes) (n : Nat) (w : Bool) (ds0 : Directs)
    (x : GM (Bytes × Option ν × Int)) (y : TOut (WS × Nat)) : Prop :=
  match y with
  | .ok r => r.1.buf.length = n ∧ r.2 ≤ n ∧ (w = false → r.1.ds = ds0) ∧
      x = .ok (pre ++ r.1.buf, enc r.1.ds, (r.2 : Int))
  | .panic s => x = .panic s
  | _ => False

theorem Out_bind_assoc {ε α β γ : Type} (x : Out ε α) (f : α → Out ε β) (g : β → Out ε γ) :
    (x.bind f).bind g = x.bind fun a => (f a).bind g := by
  cases x <;> rfl

section sim
variable {ν : Type} {J : NocopyI ν} {enc : Directs → Option ν} {pre : Bytes} {n : Nat} {w : Bool} {ds0 : Directs}

/-- `b[off] = x` against `putByte` -/
theorem sim_set {sb : Bytes} (hsb : sb.length = n) {o : Nat} {oi x : Int}
    (hoi : oi = (o : Int)) {t' : UInt8} (ht : t' = byteOf x) {K : Bytes → GM (Bytes × Option ν × Int)}
    {Ky : Bytes → TOut (WS × Nat)}
    (hK : ∀ sb' : Bytes, sb'.length = n → o < n → oi = (o : Int) → WSim enc pre n w ds0 (K (pre ++ sb')) (Ky sb')) :
    WSim enc pre n w ds0 ((vset (pre ++ sb) (pre.length : Int) oi x).bind K) ((putByte sb o t').bind Ky) := by
  have hoi' := hoi
  subst hoi ht
  rw [vset_pre]
  unfold putByte
  by_cases c : o < sb.length
  · rw [if_pos c, if_pos c, Out.bind_ok, Out.bind_ok]
    exact hK _ (by rw [patch_length _ _ _ (by simp; omega), hsb]) (by omega) rfl
  · rw [if_neg c, if_neg c]; rfl

/-- `PutUint16(b[off:], x)` against `put16` -/
theorem sim_put16 {sb : Bytes} (hsb : sb.length = n) {o : Nat} {oi x : Int}
    (hoi : oi = (o : Int)) {id' : Nat} (hid : be16 id' = be16 (ofInt 16 x))
    {K : Bytes → GM (Bytes × Option ν × Int)} {Ky : Bytes → TOut (WS × Nat)}
    (hK : ∀ sb' : Bytes, sb'.length = n → o + 2 ≤ n → WSim enc pre n w ds0 (K (pre ++ sb')) (Ky sb')) :
    WSim enc pre n w ds0
      ((vfrom (pre ++ sb) (pre.length : Int) oi).bind fun t => (vputU16 (pre ++ sb) t x).bind K)
      ((put16 sb o id').bind Ky) := by
  subst hoi
  rw [vfrom_pre]
  unfold put16
  by_cases c0 : o ≤ sb.length
  · rw [if_pos c0, if_neg (by omega), Out.bind_ok, vputU16_pre]
    by_cases c : o + 2 ≤ sb.length
    · rw [if_pos c, if_neg (by omega), Out.bind_ok, Out.bind_ok, hid]
      exact hK _ (by rw [patch_length _ _ _ (by simp; omega), hsb]) (by omega)
    · rw [if_neg c, if_pos (by omega)]; rfl
  · rw [if_neg c0, if_pos (by omega)]; rfl

/-- `PutUint32(b[off:], x)` against `put32` -/
theorem sim_put32 {sb : Bytes} (hsb : sb.length = n) {o : Nat} {oi x : Int}
    (hoi : oi = (o : Int)) {v' : Nat} (hv : be32 v' = be32 (ofInt 32 x))
    {K : Bytes → GM (Bytes × Option ν × Int)} {Ky : Bytes → TOut (WS × Nat)}
    (hK : ∀ sb' : Bytes, sb'.length = n → o + 4 ≤ n → WSim enc pre n w ds0 (K (pre ++ sb')) (Ky sb')) :
    WSim enc pre n w ds0
      ((vfrom (pre ++ sb) (pre.length : Int) oi).bind fun t => (vputU32 (pre ++ sb) t x).bind K)
      ((put32 sb o v').bind Ky) := by
  subst hoi
  rw [vfrom_pre]
  unfold put32
  by_cases c0 : o ≤ sb.length
  · rw [if_pos c0, if_neg (by omega), Out.bind_ok, vputU32_pre]
    by_cases c : o + 4 ≤ sb.length
    · rw [if_pos c, if_neg (by omega), Out.bind_ok, Out.bind_ok, hv]
      exact hK _ (by rw [patch_length _ _ _ (by simp; omega), hsb]) (by omega)
    · rw [if_neg c, if_pos (by omega)]; rfl
  · rw [if_neg c0, if_pos (by omega)]; rfl

/-- `WriteStringNocopy(b[off:], w, v)` against the model `writeStringNocopy` -/
theorem sim_wsn (hn : pre.length + n < 2 ^ 62) (H : NCOK J w enc) {sb : Bytes} (hsb : sb.length = n) {ds : Directs}
    (hds : w = false → ds = ds0) {o : Nat} {oi : Int} (hoi : oi = (o : Int)) {v : Bytes}
    {K : Bytes × Option ν × Int → GM (Bytes × Option ν × Int)} {Ky : WS × Nat → TOut (WS × Nat)}
    (hK : ∀ (sb' : Bytes) (ds' : Directs) (k : Nat), sb'.length = n → o + k ≤ n → (w = false → ds' = ds0) →
      oi = (o : Int) → WSim enc pre n w ds0 (K (pre ++ sb', enc ds', (k : Int))) (Ky (⟨sb', ds'⟩, k))) :
    WSim enc pre n w ds0
      ((vfrom (pre ++ sb) (pre.length : Int) oi).bind fun t =>
        (Funcs.Binary_WriteStringNocopy J (pre ++ sb) t (enc ds) v).bind K)
      ((writeStringNocopy Facts.nocopyWriteThreshold w ⟨sb, ds⟩ o v).bind Ky) := by
  subst hoi
  rw [vfrom_pre]
  by_cases c0 : o ≤ sb.length
  · rw [if_pos c0, Out.bind_ok, gWriteStringNocopy_nf J w enc H pre sb ds o v c0 (by simp; omega),
      writeStringNocopy_nf _ _ _ _ _ _ c0]
    unfold Facts.nocopyWriteThreshold
    by_cases c : o + 4 ≤ sb.length
    · by_cases c2 : (!w || decide (v.length < 4096)) = true
      · have l1 : (patch sb o (be32 v.length)).length = sb.length := patch_length _ _ _ (by simp; omega)
        have l2 : (patch (patch sb o (be32 v.length)) (o + 4) (v.take (min (sb.length - (o + 4)) v.length))).length
            = sb.length := by
          rw [patch_length _ _ _ (by simp; omega), l1]
        simp only [if_pos c, if_pos c2, Out.bind_ok]
        exact hK _ ds _ (by rw [l2, hsb]) (by omega) hds rfl
      · have hw : w = true := by cases w <;> simp_all
        have l1 : (patch sb o (be32 v.length)).length = sb.length := patch_length _ _ _ (by simp; omega)
        simp only [if_pos c, if_neg c2, Out.bind_ok]
        exact hK _ _ 4 (by rw [l1, hsb]) (by omega) (by intro h; rw [hw] at h; cases h) rfl
    · simp only [if_neg c, Out.bind_panic]; rfl
  · rw [if_neg c0]
    unfold writeStringNocopy
    rw [if_pos (by simp only; omega)]; rfl

/-- the final `return off + 1` -/
theorem sim_ret {sb : Bytes} (hsb : sb.length = n) {ds : Directs} (hds : w = false → ds = ds0) {o : Nat} (ho : o ≤ n)
    {oi : Int} (hoi : oi = (o : Int)) :
    WSim enc pre n w ds0 (.ok (pre ++ sb, enc ds, oi)) (.ok (⟨sb, ds⟩, o)) := by
  subst hoi
  exact ⟨hsb, ho, hds, rfl⟩

end sim
/-! ## `len(p.Extra)`: the translation's association list (newest first, keys may repeat) against the model's `SMap` -/

theorem set_keys (m : SMap) (k v : Bytes) (k' : Bytes) :
    k' ∈ (m.set k v).map Prod.fst ↔ k' = k ∨ k' ∈ m.map Prod.fst := by
  induction m with
  | nil => simp [SMap.set]
  | cons x r ih =>
    obtain ⟨a, b⟩ := x
    unfold SMap.set
    by_cases h : a = k
    · subst h; simp
    · simp only [h, if_false, List.map_cons, List.mem_cons, ih]
      constructor
      · rintro (h1 | h1 | h1) <;> simp [h1]
      · rintro (h1 | h1 | h1) <;> simp [h1]

theorem set_length (m : SMap) (k v : Bytes) :
    (m.set k v).length = if k ∈ m.map Prod.fst then m.length else m.length + 1 := by
  induction m with
  | nil => simp [SMap.set]
  | cons x r ih =>
    obtain ⟨a, b⟩ := x
    unfold SMap.set
    by_cases h : a = k
    · subst h; simp
    · have h' : ¬ k = a := fun e => h e.symm
      simp only [h, if_false, List.length_cons, ih, List.map_cons, List.mem_cons, h', false_or]
      split <;> rfl

theorem toSMap_keys (l : List (Bytes × Bytes)) (k : Bytes) :
    k ∈ (toSMap l).map Prod.fst ↔ k ∈ l.map Prod.fst := by
  induction l with
  | nil => simp [toSMap]
  | cons x r ih => simp [toSMap, set_keys, ih]

theorem mapEntriesL_keys (l : List (Bytes × Bytes)) (k : Bytes) :
    k ∈ (mapEntriesL l).map Prod.fst ↔ k ∈ l.map Prod.fst := by
  induction l with
  | nil => simp [mapEntriesL]
  | cons x r ih =>
    simp only [mapEntriesL, List.map_cons, List.mem_cons]
    constructor
    · rintro (h | h)
      · exact Or.inl h
      · right
        rw [← ih]
        simp only [List.mem_map, List.mem_filter] at h ⊢
        obtain ⟨y, ⟨hy, _⟩, rfl⟩ := h
        exact ⟨y, hy, rfl⟩
    · rintro (h | h)
      · exact Or.inl h
      · by_cases hk : k = x.1
        · exact Or.inl hk
        · right
          rw [← ih] at h
          simp only [List.mem_map, List.mem_filter] at h ⊢
          obtain ⟨y, hy, rfl⟩ := h
          exact ⟨y, ⟨hy, by simpa using hk⟩, rfl⟩

theorem mapEntriesL_nodup (l : List (Bytes × Bytes)) : ((mapEntriesL l).map Prod.fst).Nodup := by
  induction l with
  | nil => simp [mapEntriesL]
  | cons x r ih =>
    simp only [mapEntriesL, List.map_cons, List.nodup_cons]
    constructor
    · simp only [List.mem_map, List.mem_filter]
      rintro ⟨y, ⟨_, hy⟩, h⟩
      simp [h] at hy
    · exact (ih.sublist ((List.filter_sublist).map _))

theorem filter_key_length (m : List (Bytes × Bytes)) (k : Bytes) (h : (m.map Prod.fst).Nodup) :
    (m.filter (fun x => !(x.1 == k))).length + (if k ∈ m.map Prod.fst then 1 else 0) = m.length := by
  induction m with
  | nil => simp
  | cons x r ih =>
    simp only [List.map_cons, List.nodup_cons] at h
    have ih' := ih h.2
    by_cases hx : x.1 = k
    · subst hx
      have hn : ¬ x.1 ∈ r.map Prod.fst := h.1
      have : r.filter (fun y => !(y.1 == x.1)) = r := by
        apply List.filter_eq_self.mpr
        intro y hy
        have : y.1 ≠ x.1 := fun e => hn (e ▸ List.mem_map_of_mem hy)
        simpa using this
      simp [this]
    · have hx' : ¬ k = x.1 := fun e => hx e.symm
      have hf : (x :: r).filter (fun y => !(y.1 == k)) = x :: r.filter (fun y => !(y.1 == k)) := by
        simp [hx]
      have hm : (k ∈ (x :: r).map Prod.fst) = (k ∈ r.map Prod.fst) := by simp [hx']
      simp only [hf, hm, List.length_cons]
      omega

theorem mapLen_toSMap (l : List (Bytes × Bytes)) : mapLen (some l) = ((toSMap l).length : Int) := by
  unfold mapLen mapEntries
  simp only
  congr 1
  induction l with
  | nil => rfl
  | cons x r ih =>
    have hf := filter_key_length (mapEntriesL r) x.1 (mapEntriesL_nodup r)
    simp only [mapEntriesL, List.length_cons, toSMap, set_length, toSMap_keys]
    simp only [mapEntriesL_keys] at hf
    split <;> simp_all <;> omega


/-! ### the `range` loop over the map -/

theorem wAll_nil (s : WS × Nat) : wAll [] s = .ok s := rfl
theorem wAll_cons (f : WStep) (fs : List WStep) (s : WS × Nat) : wAll (f :: fs) s = (f s).bind (wAll fs) := rfl
theorem wAll_append (a b : List WStep) (s : WS × Nat) : wAll (a ++ b) s = (wAll a s).bind (wAll b) := by
  induction a generalizing s with
  | nil => rfl
  | cons f fs ih =>
    simp only [List.cons_append, wAll_cons, Out_bind_assoc]
    congr 1; funext s'; exact ih s'

/-- The `for k, v := range p.Extra` loop, for ANY function `L` that returns `done` on the empty sequence (`hnil`) and
    whose round on `kv :: rest` simulates the model's two string statements followed by the loop on `rest` (`hcons`);
    `F` is whatever the enclosing function does with the loop's outcome. The generated loop function is found by
    unification and `hnil` / `hcons` are proved where the lemma is used, by unfolding it and walking its body. -/
theorem sim_kvLoop {ν : Type} {enc : Directs → Option ν} {pre : Bytes} {n : Nat} {w : Bool} {ds0 : Directs}
    {L : Nat → List (Bytes × Bytes) → Bytes → Option ν → Int →
      GM (LoopR (Bytes × Option ν × Int) (List (Bytes × Bytes) × Bytes × Option ν × Int))}
    {F : LoopR (Bytes × Option ν × Int) (List (Bytes × Bytes) × Bytes × Option ν × Int) → GM (Bytes × Option ν × Int)}
    {Ky : WS × Nat → TOut (WS × Nat)}
    (hnil : ∀ fuel b wv off, L (fuel + 1) [] b wv off = .ok (.done ([], b, wv, off)))
    (hcons : ∀ (fuel : Nat) (kv : Bytes × Bytes) (rest : List (Bytes × Bytes)) (sb : Bytes) (ds : Directs) (o : Nat)
      (oi : Int) (Ky' : WS × Nat → TOut (WS × Nat)), sb.length = n → o ≤ n → (w = false → ds = ds0) → oi = (o : Int) →
      (∀ (sb' : Bytes) (ds' : Directs) (o' : Nat) (oi' : Int), sb'.length = n → o' ≤ n → (w = false → ds' = ds0) →
        oi' = (o' : Int) → WSim enc pre n w ds0 ((L fuel rest (pre ++ sb') (enc ds') oi').bind F) (Ky' (⟨sb', ds'⟩, o'))) →
      WSim enc pre n w ds0 ((L (fuel + 1) (kv :: rest) (pre ++ sb) (enc ds) oi).bind F)
        ((stStr Facts.nocopyWriteThreshold w kv.1 (⟨sb, ds⟩, o)).bind fun s1 =>
          (stStr Facts.nocopyWriteThreshold w kv.2 s1).bind Ky')) :
    ∀ (it : List (Bytes × Bytes)) (fuel : Nat) (sb : Bytes) (ds : Directs) (o : Nat) (oi : Int),
      it.length < fuel → sb.length = n → o ≤ n → (w = false → ds = ds0) → oi = (o : Int) →
      (∀ (sb' : Bytes) (ds' : Directs) (o' : Nat) (oi' : Int), sb'.length = n → o' ≤ n →
        (w = false → ds' = ds0) → oi' = (o' : Int) →
        WSim enc pre n w ds0 (F (.done ([], pre ++ sb', enc ds', oi'))) (Ky (⟨sb', ds'⟩, o'))) →
      WSim enc pre n w ds0 ((L fuel it (pre ++ sb) (enc ds) oi).bind F)
        ((wAll (stKVs Facts.nocopyWriteThreshold w it) (⟨sb, ds⟩, o)).bind Ky) := by
  intro it
  induction it with
  | nil =>
    intro fuel sb ds o oi hf hsb ho hds hoi hK
    obtain ⟨fuel, rfl⟩ : ∃ k, fuel = k + 1 := ⟨fuel - 1, by simp at hf; omega⟩
    rw [hnil]
    exact hK sb ds o oi hsb ho hds hoi
  | cons kv rest ih =>
    intro fuel sb ds o oi hf hsb ho hds hoi hK
    obtain ⟨fuel, rfl⟩ : ∃ k, fuel = k + 1 := ⟨fuel - 1, by simp at hf; omega⟩
    have hs : stKVs Facts.nocopyWriteThreshold w (kv :: rest) =
        stStr Facts.nocopyWriteThreshold w kv.1 :: stStr Facts.nocopyWriteThreshold w kv.2 ::
          stKVs Facts.nocopyWriteThreshold w rest := by
      simp [stKVs]
    rw [hs, wAll_cons, Out_bind_assoc]
    have hw2 : (fun s1 => (wAll (stStr Facts.nocopyWriteThreshold w kv.2 ::
        stKVs Facts.nocopyWriteThreshold w rest) s1).bind Ky) =
        fun s1 => (stStr Facts.nocopyWriteThreshold w kv.2 s1).bind fun s2 =>
          (wAll (stKVs Facts.nocopyWriteThreshold w rest) s2).bind Ky := by
      funext s1; rw [wAll_cons, Out_bind_assoc]
    rw [hw2]
    refine hcons fuel kv rest sb ds o oi _ hsb ho hds hoi ?_
    intro sb' ds' o' oi' hsb' ho' hds' hoi'
    exact ih fuel sb' ds' o' oi' (by simp at hf; omega) hsb' ho' hds' hoi' hK

/-! ### walking a generated writer -/

theorem stHdr_base0 : stHdr Facts.fastWriteHeadersBase 0 = stFieldBegin 11 1 := rfl
theorem stHdr_base1 : stHdr Facts.fastWriteHeadersBase 1 = stFieldBegin 11 2 := rfl
theorem stHdr_base2 : stHdr Facts.fastWriteHeadersBase 2 = stFieldBegin 11 3 := rfl
theorem stHdr_base3 : stHdr Facts.fastWriteHeadersBase 3 = stFieldBegin 13 6 := rfl
theorem stHdr_resp0 : stHdr Facts.fastWriteHeadersBaseResp 0 = stFieldBegin 11 1 := rfl
theorem stHdr_resp1 : stHdr Facts.fastWriteHeadersBaseResp 1 = stFieldBegin 8 2 := rfl
theorem stHdr_resp2 : stHdr Facts.fastWriteHeadersBaseResp 2 = stFieldBegin 13 3 := rfl

theorem be32_mapLen (l : List (Bytes × Bytes)) :
    be32 (toSMap l).length = be32 (ofInt 32 (wrap .u32 (mapLen (some l)))) := by
  rw [mapLen_toSMap, ofInt_wrap 32 .u32 _ (by decide), be32_ofInt_nat]

/-- an offset expression of the generated code is the model's offset: `wrap`s removed by range, then arithmetic -/
macro "off_tac" : tactic => `(tactic| first
  | (simp (disch := omega) only [wrap_i64_of_range]; first | omega | rfl)
  | omega
  | rfl)

/-- a stored value of the generated code is the model's -/
macro "fw_val" : tactic => `(tactic| first
  | rfl
  | decide
  | exact be32_mapLen _
  | (rw [ofInt_wrap 32 .u32 _ (by decide)])
  | (rw [ofInt_wrap 16 .u16 _ (by decide)]))

/-- both sides in the form the step lemmas expect: statement lists of the model unfolded to primitives, binds
    right-nested, values substituted (`fw_norm`); at the start also the monad notation of the translation, the `derefP`
    of the receiver and the guards, decided from the case facts in the context whatever form they have (`fw_start`) -/
macro "fw_norm" : tactic => `(tactic| try (simp only [Out.bind_ok, Out.bind_eq, Out.pure_eq, Out_bind_assoc, wAll_nil, wAll_cons, wAll_append,
  stFieldBegin, stStr, stMapBegin, stI32, stStop, List.cons_append, List.nil_append]))

macro "fw_start" : tactic => `(tactic| (try (bsimp [derefP]); fw_norm))

set_option hygiene false in
/-- one statement of the generated writer. The context keeps ONE fact of each kind under a fixed name (`hsb`: length of
    the current buffer, `hbd`: the latest bound on the offset, `hds`: the recorder invariant; older ones are cleared:
    `omega` slows down badly otherwise). The offset expression of the statement is replaced by the model's offset in
    what follows (`rw [hoff]`), so that the offsets stay one `wrap` deep. -/
macro "fw_step" : tactic => `(tactic| ((first
  | (refine sim_set hsb (by off_tac) (by fw_val) ?_; clear hsb; (try clear hbd); intro sb hsb hbd hoff;
     (try (rw [hoff])); clear hoff)
  | (refine sim_put16 hsb (by off_tac) (by fw_val) ?_; clear hsb; (try clear hbd); intro sb hsb hbd)
  | (refine sim_put32 hsb (by off_tac) (by fw_val) ?_; clear hsb; (try clear hbd); intro sb hsb hbd)
  | (refine sim_wsn hn H hsb hds (by off_tac) ?_; clear hsb hds; (try clear hbd); intro sb ds k hsb hbd hds hoff;
     (try rw [hoff]); clear hoff)
  | (refine sim_ret hsb hds (by omega) (by off_tac))); fw_norm))

/-! # (*Base).FastWriteNocopy / FastWrite / BLength -/

/-- the receiver: `none` = the nil pointer -/
def toBaseO (p : Option Funcs.S_base_Base) : Option Base := p.map toBase
def toBaseRespO (p : Option Funcs.S_base_BaseResp) : Option BaseResp := p.map toBaseResp

-- the step lemmas are selected by unification with the head primitive of the goal: a mismatch must fail at once and not
-- by unfolding both primitives
attribute [local irreducible] vset vfrom vputU16 vputU32 putByte put16 put32 writeStringNocopy
  Funcs.Binary_WriteStringNocopy

set_option hygiene false in
/-- the loop's round (`hcons` of `sim_kvLoop`): unfold whichever generated loop function it is and walk its body -/
macro "fw_loop_round" : tactic => `(tactic| (
  intro fuel kv rest sb ds o oi Ky' hsb hbd hds hoi hrec
  subst hoi
  simp only [Funcs.Base_FastWriteNocopy_loop1, Funcs.BaseResp_FastWriteNocopy_loop1]
  fw_start
  fw_step
  fw_step
  refine hrec _ _ _ _ hsb (by omega) hds (by off_tac)))

set_option hygiene false in
/-- the `range` loop of the generated writer, then what follows it -/
macro "fw_loop" : tactic => `(tactic| (
  refine sim_kvLoop (by intros; rfl) (by clear hsb hds; (try clear hbd); fw_loop_round) _ _ _ _ _ _ hfuel hsb
    (by omega) hds (by off_tac) ?_
  clear hsb hds; (try clear hbd)
  intro sb ds o oi hsb hbd hds hoff
  subst hoff
  fw_norm))

theorem Base_FastWriteNocopy_sim {ν : Type} (J : NocopyI ν) (enc : Directs → Option ν) (w : Bool) (H : NCOK J w enc)
    (fuel : Nat) (it : List (Bytes × Bytes)) (p : Option Funcs.S_base_Base) (pre sb : Bytes) (hfuel : it.length < fuel)
    (hlen : (pre ++ sb).length < 2 ^ 62) :
    WSim enc pre sb.length w []
      (Funcs.Base_FastWriteNocopy J fuel it p (pre ++ sb) (pre.length : Int) (enc []))
      (fastWriteNocopyBase Facts.nocopyWriteThreshold w (toBaseO p) it sb) := by
  have hn : pre.length + sb.length < 2 ^ 62 := by simpa using hlen
  have hds : w = false → ([] : Directs) = [] := fun _ => rfl
  clear hlen
  generalize hsb : sb.length = n at hn ⊢
  unfold Funcs.Base_FastWriteNocopy
  cases p with
  | none =>
    simp only [toBaseO, Option.map_none, fastWriteNocopyBase]
    fw_start
    repeat fw_step
  | some p =>
    obtain ⟨logID, caller, addr, extra⟩ := p
    cases extra with
    | none =>
      simp only [toBaseO, Option.map_some, toBase, Option.map_none, fastWriteNocopyBase, stExtraH, stHdr_base0,
        stHdr_base1, stHdr_base2, stHdr_base3]
      fw_start
      repeat fw_step
    | some l =>
      simp only [toBaseO, Option.map_some, toBase, fastWriteNocopyBase, stExtraH, stHdr_base0,
        stHdr_base1, stHdr_base2, stHdr_base3]
      fw_start
      repeat fw_step
      fw_loop
      repeat fw_step

theorem bind_wAll_nil (x : TOut (WS × Nat)) : x.bind (wAll []) = x := by
  cases x <;> rfl

theorem WSim.lift {pre : Bytes} {n : Nat} {w : Bool} {ds0 : Directs} {x : GM (Bytes × Option Directs × Int)}
    {y : TOut (WS × Nat)} (h : WSim (wOpt w) pre n w ds0 x y) :
    liftWN ds0 x = y.bind fun r => .ok (⟨pre ++ r.1.buf, r.1.ds⟩, r.2) := by
  cases y with
  | ok r =>
    obtain ⟨_, _, hds, rfl⟩ := h
    simp only [liftWN, Out.bind_ok, wOpt_getD w r.1.ds ds0 hds, Int.toNat_natCast]
  | panic s => subst h; rfl
  | err te => exact h.elim
  | oob => exact h.elim


/-- (*Base).FastWriteNocopy(b[off:], w) on the view `(pre ++ sb, pre.length)` IS the model `fastWriteNocopyBase` on
    `sb`, for every sequence `it` the `range` over `p.Extra` visits, a nil or non-nil receiver, a nil (`w = false`) or a
    recording (`w = true`) no-copy writer: same stores behind `pre`, same direct writes, same length, same panic -/
theorem Base_FastWriteNocopy_view (e : Directs → Bytes → Int → GoErr) (w : Bool) (fuel : Nat)
    (it : List (Bytes × Bytes)) (p : Option Funcs.S_base_Base) (pre sb : Bytes) (hfuel : it.length < fuel)
    (hlen : (pre ++ sb).length < 2 ^ 62) :
    liftWN [] (Funcs.Base_FastWriteNocopy (recJ e) fuel it p (pre ++ sb) (pre.length : Int) (wOpt w [])) =
      (fastWriteNocopyBase Facts.nocopyWriteThreshold w (toBaseO p) it sb).bind fun r =>
        .ok (⟨pre ++ r.1.buf, r.1.ds⟩, r.2) :=
  (Base_FastWriteNocopy_sim (recJ e) (wOpt w) w (recJ_ok e w) fuel it p pre sb hfuel hlen).lift

theorem bind_id_ws (y : TOut (WS × Nat)) : (y.bind fun r => .ok (⟨[] ++ r.1.buf, r.1.ds⟩, r.2)) = y := by
  cases y <;> rfl

/-- `p.FastWriteNocopy(b, w)` translated from the Go source IS the model `fastWriteNocopyBase … p it b` -/
theorem Base_FastWriteNocopy_eq (e : Directs → Bytes → Int → GoErr) (w : Bool) (fuel : Nat)
    (it : List (Bytes × Bytes)) (p : Option Funcs.S_base_Base) (b : Bytes) (hfuel : it.length < fuel)
    (hlen : b.length < 2 ^ 62) :
    liftWN [] (Funcs.Base_FastWriteNocopy (recJ e) fuel it p b 0 (wOpt w [])) =
      fastWriteNocopyBase Facts.nocopyWriteThreshold w (toBaseO p) it b := by
  have h := Base_FastWriteNocopy_view e w fuel it p [] b hfuel (by simpa using hlen)
  rw [bind_id_ws] at h
  exact h

/-- outcome of a struct writer without a no-copy writer `(b', n)` from the simulation with the literal nil writer -/
theorem WSim.liftNil {pre : Bytes} {n : Nat} {x : GM (Bytes × Option Unit × Int)} {y : TOut (WS × Nat)}
    (h : WSim (fun _ => (none : Option Unit)) pre n false [] x y) :
    liftWS (x.bind fun t => .ok (t.1, t.2.2)) = y.bind fun r => .ok (⟨pre ++ r.1.buf, r.1.ds⟩, r.2) := by
  cases y with
  | ok r =>
    obtain ⟨_, _, hds, rfl⟩ := h
    obtain ⟨⟨rb, rds⟩, rn⟩ := r
    have : rds = [] := hds rfl
    subst this
    simp only [liftWS, Out.bind_ok, Int.toNat_natCast]
  | panic s => subst h; rfl
  | err te => exact h.elim
  | oob => exact h.elim

theorem Base_FastWrite_unfold (fuel : Nat) (it : List (Bytes × Bytes)) (p : Option Funcs.S_base_Base) (b : Bytes)
    (base : Int) :
    Funcs.Base_FastWrite fuel it p b base =
      (Funcs.Base_FastWriteNocopy nilNocopy fuel it p b base (none : Option Unit)).bind fun t => .ok (t.1, t.2.2) := by
  first | rfl | (unfold Funcs.Base_FastWrite; simp only [Out.bind_eq, Out.pure_eq])

/-- (*Base).FastWrite(b[off:]) on the view: `FastWriteNocopy(b, nil)` -/
theorem Base_FastWrite_view (fuel : Nat) (it : List (Bytes × Bytes)) (p : Option Funcs.S_base_Base) (pre sb : Bytes)
    (hfuel : it.length < fuel) (hlen : (pre ++ sb).length < 2 ^ 62) :
    liftWS (Funcs.Base_FastWrite fuel it p (pre ++ sb) (pre.length : Int)) =
      (fastWriteBase Facts.nocopyWriteThreshold (toBaseO p) it sb).bind fun r =>
        .ok (⟨pre ++ r.1.buf, r.1.ds⟩, r.2) := by
  rw [Base_FastWrite_unfold]
  exact (Base_FastWriteNocopy_sim nilNocopy (fun _ => none) false nilNocopy_ok fuel it p pre sb hfuel hlen).liftNil

/-- `p.FastWrite(b)` translated from the Go source IS the model `fastWriteBase … p it b` -/
theorem Base_FastWrite_eq (fuel : Nat) (it : List (Bytes × Bytes)) (p : Option Funcs.S_base_Base) (b : Bytes)
    (hfuel : it.length < fuel) (hlen : b.length < 2 ^ 62) :
    liftWS (Funcs.Base_FastWrite fuel it p b 0) = fastWriteBase Facts.nocopyWriteThreshold (toBaseO p) it b := by
  have h := Base_FastWrite_view fuel it p [] b hfuel (by simpa using hlen)
  rw [bind_id_ws] at h
  exact h

/-! # (*BaseResp).FastWriteNocopy / FastWrite -/

theorem BaseResp_FastWriteNocopy_sim {ν : Type} (J : NocopyI ν) (enc : Directs → Option ν) (w : Bool)
    (H : NCOK J w enc) (fuel : Nat) (it : List (Bytes × Bytes)) (p : Option Funcs.S_base_BaseResp) (pre sb : Bytes)
    (hfuel : it.length < fuel) (hlen : (pre ++ sb).length < 2 ^ 62) :
    WSim enc pre sb.length w []
      (Funcs.BaseResp_FastWriteNocopy J fuel it p (pre ++ sb) (pre.length : Int) (enc []))
      (fastWriteNocopyBaseResp Facts.nocopyWriteThreshold w (toBaseRespO p) it sb) := by
  have hn : pre.length + sb.length < 2 ^ 62 := by simpa using hlen
  have hds : w = false → ([] : Directs) = [] := fun _ => rfl
  clear hlen
  generalize hsb : sb.length = n at hn ⊢
  unfold Funcs.BaseResp_FastWriteNocopy
  cases p with
  | none =>
    simp only [toBaseRespO, Option.map_none, fastWriteNocopyBaseResp]
    fw_start
    repeat fw_step
  | some p =>
    obtain ⟨msg, code, extra⟩ := p
    cases extra with
    | none =>
      simp only [toBaseRespO, Option.map_some, toBaseResp, Option.map_none, fastWriteNocopyBaseResp, stExtraH,
        stHdr_resp0, stHdr_resp1, stHdr_resp2]
      fw_start
      repeat fw_step
    | some l =>
      simp only [toBaseRespO, Option.map_some, toBaseResp, fastWriteNocopyBaseResp, stExtraH, stHdr_resp0,
        stHdr_resp1, stHdr_resp2]
      fw_start
      repeat fw_step
      fw_loop
      repeat fw_step

/-- (*BaseResp).FastWriteNocopy(b[off:], w) on the view `(pre ++ sb, pre.length)` IS the model on `sb` -/
theorem BaseResp_FastWriteNocopy_view (e : Directs → Bytes → Int → GoErr) (w : Bool) (fuel : Nat)
    (it : List (Bytes × Bytes)) (p : Option Funcs.S_base_BaseResp) (pre sb : Bytes) (hfuel : it.length < fuel)
    (hlen : (pre ++ sb).length < 2 ^ 62) :
    liftWN [] (Funcs.BaseResp_FastWriteNocopy (recJ e) fuel it p (pre ++ sb) (pre.length : Int) (wOpt w [])) =
      (fastWriteNocopyBaseResp Facts.nocopyWriteThreshold w (toBaseRespO p) it sb).bind fun r =>
        .ok (⟨pre ++ r.1.buf, r.1.ds⟩, r.2) :=
  (BaseResp_FastWriteNocopy_sim (recJ e) (wOpt w) w (recJ_ok e w) fuel it p pre sb hfuel hlen).lift

/-- `p.FastWriteNocopy(b, w)` translated from the Go source IS the model `fastWriteNocopyBaseResp … p it b` -/
theorem BaseResp_FastWriteNocopy_eq (e : Directs → Bytes → Int → GoErr) (w : Bool) (fuel : Nat)
    (it : List (Bytes × Bytes)) (p : Option Funcs.S_base_BaseResp) (b : Bytes) (hfuel : it.length < fuel)
    (hlen : b.length < 2 ^ 62) :
    liftWN [] (Funcs.BaseResp_FastWriteNocopy (recJ e) fuel it p b 0 (wOpt w [])) =
      fastWriteNocopyBaseResp Facts.nocopyWriteThreshold w (toBaseRespO p) it b := by
  have h := BaseResp_FastWriteNocopy_view e w fuel it p [] b hfuel (by simpa using hlen)
  rw [bind_id_ws] at h
  exact h

theorem BaseResp_FastWrite_unfold (fuel : Nat) (it : List (Bytes × Bytes)) (p : Option Funcs.S_base_BaseResp)
    (b : Bytes) (base : Int) :
    Funcs.BaseResp_FastWrite fuel it p b base =
      (Funcs.BaseResp_FastWriteNocopy nilNocopy fuel it p b base (none : Option Unit)).bind fun t =>
        .ok (t.1, t.2.2) := by
  first | rfl | (unfold Funcs.BaseResp_FastWrite; simp only [Out.bind_eq, Out.pure_eq])

theorem BaseResp_FastWrite_view (fuel : Nat) (it : List (Bytes × Bytes)) (p : Option Funcs.S_base_BaseResp)
    (pre sb : Bytes) (hfuel : it.length < fuel) (hlen : (pre ++ sb).length < 2 ^ 62) :
    liftWS (Funcs.BaseResp_FastWrite fuel it p (pre ++ sb) (pre.length : Int)) =
      (fastWriteBaseResp Facts.nocopyWriteThreshold (toBaseRespO p) it sb).bind fun r =>
        .ok (⟨pre ++ r.1.buf, r.1.ds⟩, r.2) := by
  rw [BaseResp_FastWrite_unfold]
  exact (BaseResp_FastWriteNocopy_sim nilNocopy (fun _ => none) false nilNocopy_ok fuel it p pre sb hfuel
    hlen).liftNil

/-- `p.FastWrite(b)` translated from the Go source IS the model `fastWriteBaseResp … p it b` -/
theorem BaseResp_FastWrite_eq (fuel : Nat) (it : List (Bytes × Bytes)) (p : Option Funcs.S_base_BaseResp) (b : Bytes)
    (hfuel : it.length < fuel) (hlen : b.length < 2 ^ 62) :
    liftWS (Funcs.BaseResp_FastWrite fuel it p b 0) =
      fastWriteBaseResp Facts.nocopyWriteThreshold (toBaseRespO p) it b := by
  have h := BaseResp_FastWrite_view fuel it p [] b hfuel (by simpa using hlen)
  rw [bind_id_ws] at h
  exact h

/-! # BLength -/

theorem blenKVs_ge (it : SMap) (off : Nat) : off ≤ blenKVs it off := by
  induction it generalizing off with
  | nil => exact Nat.le_refl _
  | cons kv r ih =>
    obtain ⟨k, v⟩ := kv
    have := ih (off + (4 + k.length) + (4 + v.length))
    simp only [blenKVs]; omega

/-- what the entries add to a length, whatever it was before -/
def kvSum (it : SMap) : Nat := blenKVs it 0

theorem blenKVs_shift (it : SMap) (off : Nat) : blenKVs it off = off + kvSum it := by
  unfold kvSum
  induction it generalizing off with
  | nil => simp [blenKVs]
  | cons kv r ih =>
    obtain ⟨k, v⟩ := kv
    simp only [blenKVs]
    rw [ih (off + (4 + k.length) + (4 + v.length)), ih (0 + (4 + k.length) + (4 + v.length))]
    omega

/-- The BLength loop, for ANY function `L` that is done on the empty sequence and whose round on `kv :: rest` adds the two
    string lengths (`h1`, stated on natural numbers: however the generated code parenthesises or orders the sum), started
    at ANY length `oi` (whatever the enclosing function has counted so far, in whatever order); `F` is what the enclosing
    function does with the loop's outcome. `L` and `oi` are found by unification, `h0` / `h1` are proved at the use site by
    unfolding the generated loop function. -/
theorem blen_loop_bind {ρ : Type}
    {L : Nat → List (Bytes × Bytes) → Int → GM (LoopR Int (List (Bytes × Bytes) × Int))}
    {F : LoopR Int (List (Bytes × Bytes) × Int) → GM ρ} {R : GM ρ}
    (h0 : ∀ fuel off, L (fuel + 1) [] off = .ok (.done ([], off)))
    (h1 : ∀ fuel (kv : Bytes × Bytes) rest (off : Nat), off + (4 + kv.1.length) + (4 + kv.2.length) < 2 ^ 62 →
      L (fuel + 1) (kv :: rest) (off : Int) = L fuel rest ((off + (4 + kv.1.length) + (4 + kv.2.length) : Nat) : Int))
    (it : List (Bytes × Bytes)) (fuel : Nat) (oi : Int) (hf : it.length < fuel) (h0i : 0 ≤ oi)
    (hb : oi + (kvSum it : Int) < 2 ^ 62)
    (hF : F (.done ([], oi + (kvSum it : Int))) = R) :
    (L fuel it oi).bind F = R := by
  obtain ⟨off, rfl⟩ : ∃ off : Nat, oi = (off : Int) := ⟨oi.toNat, by omega⟩
  have key : ∀ (it : List (Bytes × Bytes)) (fuel off : Nat), it.length < fuel → blenKVs it off < 2 ^ 62 →
      L fuel it (off : Int) = .ok (.done ([], ((blenKVs it off : Nat) : Int))) := by
    intro it
    induction it with
    | nil =>
      intro fuel off hf _
      obtain ⟨fuel, rfl⟩ : ∃ k, fuel = k + 1 := ⟨fuel - 1, by simp at hf; omega⟩
      rw [h0]; rfl
    | cons kv rest ih =>
      intro fuel off hf hb
      obtain ⟨fuel, rfl⟩ : ∃ k, fuel = k + 1 := ⟨fuel - 1, by simp at hf; omega⟩
      obtain ⟨k, v⟩ := kv
      have hge := blenKVs_ge rest (off + (4 + k.length) + (4 + v.length))
      simp only [blenKVs] at hb ⊢
      rw [h1 _ _ _ _ (by simp only; omega), ih fuel _ (by simp at hf; omega) hb]
  rw [key it fuel off hf (by rw [blenKVs_shift]; omega), Out.bind_ok, blenKVs_shift, Int.natCast_add, hF]

/-- the round of the generated BLength loops: unfold whichever it is; the sum in `int` is the sum in `Nat` -/
macro "blen_round" : tactic => `(tactic| (
  intro fuel kv rest off hb
  simp only [Funcs.Base_BLength_loop1, Funcs.BaseResp_BLength_loop1, len]
  (try (simp (disch := omega) only [wrap_i64_of_range]))
  first | done | rfl | (congr 1; omega)))

/-- straight-line `int` arithmetic of a generated BLength: the result is the model's natural number -/
macro "blen_arith" : tactic => `(tactic| (
  (try unfold len)
  (try (simp (disch := omega) only [wrap_i64_of_range, Out.bind_ok, Out.pure_eq]))
  first | done | rfl | (congr 1; omega) | omega))

/-- `p.BLength()` translated from the Go source IS the model `bLengthBase p it`, for every visited sequence `it`
    (as long as the sum fits a Go `int` with room to spare) -/
theorem Base_BLength_eq (fuel : Nat) (it : List (Bytes × Bytes)) (p : Option Funcs.S_base_Base)
    (hfuel : it.length < fuel) (hb : bLengthBase (toBaseO p) it < 2 ^ 62) :
    Funcs.Base_BLength fuel it p = .ok ((bLengthBase (toBaseO p) it : Nat) : Int) := by
  unfold Funcs.Base_BLength
  cases p with
  | none =>
    simp only [toBaseO, Option.map_none, bLengthBase]
    first | rfl | (bsimp; first | done | rfl)
  | some p =>
    obtain ⟨logID, caller, addr, extra⟩ := p
    cases extra with
    | none =>
      simp only [toBaseO, Option.map_some, bLengthBase, toBase, blenExtra, Option.map_none] at hb ⊢
      bsimp [derefP]
      blen_arith
    | some l =>
      simp only [toBaseO, Option.map_some, bLengthBase, toBase, blenExtra, Nat.zero_add, blenKVs_shift] at hb ⊢
      bsimp [derefP]
      refine blen_loop_bind (by intros; rfl) (by blen_round) it fuel _ hfuel (by blen_arith) (by blen_arith) ?_
      bsimp
      blen_arith

/-- `p.BLength()` of a `*BaseResp` IS the model `bLengthBaseResp p it` -/
theorem BaseResp_BLength_eq (fuel : Nat) (it : List (Bytes × Bytes)) (p : Option Funcs.S_base_BaseResp)
    (hfuel : it.length < fuel) (hb : bLengthBaseResp (toBaseRespO p) it < 2 ^ 62) :
    Funcs.BaseResp_BLength fuel it p = .ok ((bLengthBaseResp (toBaseRespO p) it : Nat) : Int) := by
  unfold Funcs.BaseResp_BLength
  cases p with
  | none =>
    simp only [toBaseRespO, Option.map_none, bLengthBaseResp]
    first | rfl | (bsimp; first | done | rfl)
  | some p =>
    obtain ⟨msg, code, extra⟩ := p
    cases extra with
    | none =>
      simp only [toBaseRespO, Option.map_some, bLengthBaseResp, toBaseResp, blenExtra, Option.map_none] at hb ⊢
      bsimp [derefP]
      blen_arith
    | some l =>
      simp only [toBaseRespO, Option.map_some, bLengthBaseResp, toBaseResp, blenExtra, Nat.zero_add,
        blenKVs_shift] at hb ⊢
      bsimp [derefP]
      refine blen_loop_bind (by intros; rfl) (by blen_round) it fuel _ hfuel (by blen_arith) (by blen_arith) ?_
      bsimp
      blen_arith

/-! ## the generated functions compute (non-vacuity) -/

/-- a `Base` with a 2-entry `Extra`, written with the entries visited in either order (no no-copy writer) -/
example : Funcs.Base_FastWrite 5 [([107], [118]), ([75], [86, 86])]
    (some ⟨[65], [], [66, 67], some [([75], [86, 86]), ([107], [118])]⟩) (List.replicate 59 9) 0 =
    .ok ([11, 0, 1, 0, 0, 0, 1, 65,  11, 0, 2, 0, 0, 0, 0,  11, 0, 3, 0, 0, 0, 2, 66, 67,
          13, 0, 6, 11, 11, 0, 0, 0, 2,  0, 0, 0, 1, 107, 0, 0, 0, 1, 118,  0, 0, 0, 1, 75, 0, 0, 0, 2, 86, 86,  0,
          9, 9, 9, 9], 55) := by decide +kernel
example : Funcs.Base_FastWrite 5 [([75], [86, 86]), ([107], [118])]
    (some ⟨[65], [], [66, 67], some [([75], [86, 86]), ([107], [118])]⟩) (List.replicate 59 9) 0 =
    .ok ([11, 0, 1, 0, 0, 0, 1, 65,  11, 0, 2, 0, 0, 0, 0,  11, 0, 3, 0, 0, 0, 2, 66, 67,
          13, 0, 6, 11, 11, 0, 0, 0, 2,  0, 0, 0, 1, 75, 0, 0, 0, 2, 86, 86,  0, 0, 0, 1, 107, 0, 0, 0, 1, 118,  0,
          9, 9, 9, 9], 55) := by decide +kernel
-- the same through the model
example : (fastWriteBase Facts.nocopyWriteThreshold (some ⟨[65], [], [66, 67], some [([75], [86, 86]), ([107], [118])]⟩)
    [([107], [118]), ([75], [86, 86])] (List.replicate 59 9)).bind (fun r => .ok (r.1.buf.take 55, r.1.ds, r.2)) =
    .ok ([11, 0, 1, 0, 0, 0, 1, 65,  11, 0, 2, 0, 0, 0, 0,  11, 0, 3, 0, 0, 0, 2, 66, 67,
          13, 0, 6, 11, 11, 0, 0, 0, 2,  0, 0, 0, 1, 107, 0, 0, 0, 1, 118,  0, 0, 0, 1, 75, 0, 0, 0, 2, 86, 86,  0], [], 55) := by
  decide +kernel
example : Funcs.Base_BLength 5 [([107], [118]), ([75], [86, 86])]
    (some ⟨[65], [], [66, 67], some [([75], [86, 86]), ([107], [118])]⟩) = .ok 55 := by decide +kernel
-- a key stored twice in the association list counts once (`len(p.Extra)` = 1 in the map header)
example : Funcs.Base_FastWrite 5 [([75], [1])] (some ⟨[], [], [], some [([75], [1]), ([75], [2])]⟩)
    (List.replicate 41 9) 0 =
    .ok ([11, 0, 1, 0, 0, 0, 0,  11, 0, 2, 0, 0, 0, 0,  11, 0, 3, 0, 0, 0, 0,
          13, 0, 6, 11, 11, 0, 0, 0, 1,  0, 0, 0, 1, 75, 0, 0, 0, 1, 1,  0], 41) := by decide +kernel
-- a nil receiver: the empty struct
example : Funcs.Base_FastWrite 1 [] none [9, 9] 1 = .ok ([9, 0], 1) := by decide +kernel
example : Funcs.Base_BLength 1 [] none = .ok 1 := by decide +kernel
example : Funcs.BaseResp_FastWriteNocopy nilNocopy 1 [] none [9] 0 none = .ok ([0], none, 1) := by decide +kernel
-- a buffer that is too short: the index panic of the first store that does not fit
example : Funcs.Base_FastWrite 5 [] (some ⟨[65], [], [], none⟩) (List.replicate 21 9) 0 = .panic "index" := by
  decide +kernel
example : (fastWriteBase Facts.nocopyWriteThreshold (some ⟨[65], [], [], none⟩) [] (List.replicate 21 9)).bind
    (fun r => .ok r.2) = .panic "index" := by decide +kernel
-- the loop runs out of fuel (an artefact of the translation, excluded by `it.length < fuel`)
example : Funcs.Base_BLength 1 [([107], [118])] (some ⟨[], [], [], some [([107], [118])]⟩) = .panic "nofuel" := by
  decide +kernel
-- BaseResp with a status code, a real no-copy writer and a short string: everything inline, nothing recorded
example : Funcs.BaseResp_FastWriteNocopy (recJ fun _ _ _ => .named "ignored") 3 [([75], [86])]
    (some ⟨[79, 75], -2, some [([75], [86])]⟩) (List.replicate 36 9) 0 (some []) =
    .ok ([11, 0, 1, 0, 0, 0, 2, 79, 75,  8, 0, 2, 255, 255, 255, 254,
          13, 0, 3, 11, 11, 0, 0, 0, 1,  0, 0, 0, 1, 75, 0, 0, 0, 1, 86,  0], some [], 36) := by decide +kernel
-- WriteStringNocopy at the threshold: 4096 bytes go to the writer with remainCap = len(buf[4:]), 4095 are copied
example : (Funcs.Binary_WriteStringNocopy (recJ fun _ _ _ => .named "ignored") (List.replicate 10 9) 2 (some [])
    (List.replicate 4096 7)).bind (fun r => .ok (r.1, r.2.1.map (fun ds => ds.map (fun d => (d.1.length, d.2))), r.2.2)) =
    .ok ([9, 9, 0, 0, 16, 0, 9, 9, 9, 9], some [(4096, 4)], 4) := by decide +kernel
example : (Funcs.Binary_WriteBinaryNocopy (recJ fun _ _ _ => .nil) (List.replicate 10 9) 2 (some [])
    (List.replicate 4095 7)).bind (fun r => .ok (r.1, r.2.1, r.2.2)) =
    .ok ([9, 9, 0, 0, 15, 255, 7, 7, 7, 7], some [], 8) := by decide +kernel
-- a nil writer that the code would have to call cannot happen (w == nil takes the copying branch)
example : (Funcs.Binary_WriteStringNocopy nilNocopy (List.replicate 6 9) 0 none (List.replicate 4096 7)).bind
    (fun r => .ok (r.1, r.2.2)) = .ok ([0, 0, 16, 0, 7, 7], 6) := by decide +kernel

end Verif.FuncsEq
